/-
Props/C01.lean — property C01: acknowledged messages are in the log; failures are attributed exactly.
Property theorems only; the invariants live in Lemmas/WriterAck.lean (InvAck), Lemmas/WriterPlace.lean
(InvPlace), Lemmas/WriterOrder.lean (InvOrd) and Lemmas/WriterCompl.lean (InvCompl, InvJournal).

Model: Model/Writer.lean.  The broker is part of the model: `produce pw tp msgs out` is its decision for the
in-flight attempt (out = acked | lost applied? | rejected code); `log tp` are the partition logs, `journal`
the list of all decisions.  `Batch.acked` (ghost) = some attempt of the batch was applied and acknowledged.
All theorems hold for every configuration (acks ≠ None is built in: every attempt gets a decision or a
transport error) and every reachable state / accepted event, i.e. every finite event sequence.
-/
import KafkaVerif.Lemmas.WriterCompl
import KafkaVerif.Lemmas.WriterMsgs
import KafkaVerif.Lemmas.WriterLogJournal
import KafkaVerif.Lemmas.WriterProgress
import KafkaVerif.Lemmas.WriterQuiesce
import KafkaVerif.Lemmas.WriterCopies
import KafkaVerif.Lemmas.WriterMsgCount
import KafkaVerif.Model.WriterRecords
import KafkaVerif.Lemmas.RecordWriter
import KafkaVerif.Gen.WriterConsts

namespace KV.C01
open KV KV.Writer

/-- what "message i of call c was appended by an acknowledged produce request to the partition the balancer
chose" means in a state -/
def AckedInChosenPartition (s : State) (c : Nat) (C : Call) (i : Nat) : Prop :=
  ∃ b B, C.place i = some b ∧ s.batches b = some B ∧ B.acked = true ∧
    C.assign[i]? = some B.tp ∧ (∃ m ∈ B.msgs, m.msg = (c, i)) ∧
    (∃ e ∈ s.log B.tp, e.msg = (c, i) ∧ e.batch = b)

theorem acked_of_done (s : State) (hA : InvAck s) (hP : InvPlace s) (c : Nat) (C : Call) (hC : s.calls c = some C)
    (i : Nat) (hd : batchDone s (C.place i) = some 0) : AckedInChosenPartition s c C i := by
  unfold batchDone at hd
  split at hd
  · cases hd
  · rename_i b hb
    split at hd
    · cases hd
    · rename_i B hB
      have hack := hA.doneAcked b B hB hd
      obtain ⟨B', hB', ⟨m, hm, hmm⟩, ha⟩ := hP.placed c C hC i b hb
      rw [hB] at hB'; cases hB'
      obtain ⟨e, he, h1, h2⟩ := hA.ackedInLog b B hB hack m hm
      exact ⟨b, B, hb, hB, hack, ha, ⟨m, hm, hmm⟩, ⟨e, he, h1.trans hmm, h2⟩⟩

/-- **ack_exact** — when a synchronous WriteMessages call returns nil (`ret c .ok` is taken), every message of the
call sits in a batch that was applied and acknowledged by the broker, in the log of the topic-partition the
balancer chose for it. -/
theorem ack_exact (cfg : Cfg) (s s' : State) (hr : Reachable cfg s) (c : Nat)
    (hs : step cfg s (.ret c .ok) = some s') :
    ∃ C, s.calls c = some C ∧ cfg.async = false ∧ ∀ i, i < C.msgs.length → AckedInChosenPartition s c C i := by
  have hA := invAck cfg s hr
  have hP := invPlace cfg s hr
  simp only [step, stepRet] at hs
  repeat' split at hs
  all_goals (first | (cases hs; done) | skip)
  rename_i _ C hC hg
  obtain ⟨hasync, -, hall⟩ := hg
  refine ⟨C, hC, hasync, ?_⟩
  intro i hi
  rw [List.all_eq_true] at hall
  have := hall i (List.mem_range.mpr hi)
  exact acked_of_done s hA hP c C hC i (by simpa using this)

/-- **werr_exact** — when WriteMessages returns WriteErrors (`ret c (.werr codes)`), entry i is nil exactly when
message i was acknowledged that way; a non-nil entry is the final error of the message's batch, and no attempt of
that batch was acknowledged. -/
theorem werr_exact (cfg : Cfg) (s s' : State) (hr : Reachable cfg s) (c : Nat) (codes : List Code)
    (hs : step cfg s (.ret c (.werr codes)) = some s') :
    ∃ C, s.calls c = some C ∧ codes.length = C.msgs.length ∧ ∀ i, i < C.msgs.length →
      ∃ b B code, C.place i = some b ∧ s.batches b = some B ∧ codes[i]? = some code ∧ B.done = some code ∧
        (code = 0 ↔ B.acked = true) ∧ (code = 0 → AckedInChosenPartition s c C i) := by
  have hA := invAck cfg s hr
  have hO := invOrd cfg s hr
  have hP := invPlace cfg s hr
  simp only [step, stepRet] at hs
  repeat' split at hs
  all_goals (first | (cases hs; done) | skip)
  rename_i _ C hC hg
  obtain ⟨-, -, hlen, hall, -⟩ := hg
  refine ⟨C, hC, hlen, ?_⟩
  intro i hi
  rw [List.all_eq_true] at hall
  have hi' := hall i (List.mem_range.mpr hi)
  have hcode : ∃ code, codes[i]? = some code := by
    have : i < codes.length := hlen ▸ hi
    exact ⟨codes[i], List.getElem?_eq_getElem this⟩
  obtain ⟨code, hcode⟩ := hcode
  rw [hcode] at hi'
  have hd : batchDone s (C.place i) = some code := by simpa using hi'
  have hd0 := hd
  unfold batchDone at hd
  split at hd
  · cases hd
  · rename_i b hb
    split at hd
    · cases hd
    · rename_i B hB
      refine ⟨b, B, code, hb, hB, hcode, hd, ⟨?_, ?_⟩, ?_⟩
      · intro h0; subst h0; exact hA.doneAcked b B hB hd
      · intro hack
        rcases hA.ackedWhere b B hB hack with h0 | ⟨P, hPq, hst⟩
        · rw [hd] at h0; cases h0; rfl
        · -- the sender still holds b, so b is in a pipeline and cannot be done
          have hmem : b ∈ P.pipe := sender_mem_pipe (ackState_batch hst)
          have := hA.pipeLive B.pw P hPq b hmem B hB
          rw [hd] at this; cases this
      · intro h0; subst h0
        exact acked_of_done s hA hP c C hC i hd0

/-- **no_foreign_partition** — a message is only ever appended to the log of the topic-partition that the balancer
chose for it (`assign` records the balancer's answer and the topic chosen by chooseTopic); also every message in
every batch, hence in every produce request, was assigned to that request's topic-partition. -/
theorem no_foreign_partition (cfg : Cfg) (s : State) (hr : Reachable cfg s) :
    (∀ tp, ∀ e ∈ s.log tp, ∃ C, s.calls e.msg.1 = some C ∧ C.assign[e.msg.2]? = some tp) ∧
    (∀ b B, s.batches b = some B → ∀ m ∈ B.msgs, ∃ C, s.calls m.msg.1 = some C ∧ C.assign[m.msg.2]? = some B.tp) :=
  ⟨(invPlace cfg s hr).logTP, fun b B hB m hm => by
    obtain ⟨C, hC, ha, -⟩ := (invPlace cfg s hr).batchTP b B hB m hm
    exact ⟨C, hC, ha⟩⟩

/-- **assign_is_balancer_choice** — the recorded assignment of index i is taken once, in index order, with the topic
that chooseTopic selects (message-level or writer-level topic; a conflict never gets an assignment). -/
theorem assign_is_balancer_choice (cfg : Cfg) (s s' : State) (c i : Nat) (tp : TP)
    (hs : step cfg s (.assign c i tp) = some s') :
    ∃ C m, s.calls c = some C ∧ C.assign.length = i ∧ C.msgs[i]? = some m ∧ chooseTopic cfg m = some tp.1 ∧
      s'.calls c = some { C with phase := .assigning, assign := C.assign ++ [tp] } := by
  simp only [step] at hs
  repeat' split at hs
  all_goals (first | (cases hs; done) | skip)
  rename_i _ C hC hg
  obtain ⟨-, hlen, -, hm⟩ := hg
  obtain ⟨m, hmi, hch⟩ := msgAt_elim hm
  cases hs
  exact ⟨C, m, hC, hlen, hmi, by simpa using hch, by simp⟩

/-- **makeError_nil_only_for_zero** — the source's `makeError` (regenerated on every run) turns a produce response's
error code into a nil error only for code 0; this is what the model's `consistent` relies on: a broker rejection with
any other code (negative ones included) cannot end an attempt without error. -/
theorem makeError_nil_only_for_zero (code : Int) : Gen.makeErrorNil code = true ↔ code = 0 := by
  simp [Gen.makeErrorNil]

theorem rejection_is_an_error (c code : Code) (h : consistent (some (.rejected c)) code = true) : code ≠ 0 ∧ code = c := by
  simp [consistent] at h
  exact ⟨fun h0 => h.2 (h.1 ▸ h0), h.1⟩

/-- **result_stored_before_done** — the model's `complete` makes the batch's final result and its completion visible in
one step (`done := some code`); in the source as it stands `(*writeBatch).complete` stores the error before it closes
the done channel, so a caller woken by the channel reads the final error (regenerated on every run). -/
theorem result_stored_before_done : Gen.completeStoresErrFirst = true := by decide

/-- **delivered_ack_is_success** — an attempt whose acknowledgement reached the client ends without error, and the
batch is not attempted again: the sender goes on to complete it with nil.  (What the broker applied and acknowledged
but the client did NOT get is `lost`; over the real Transport the run distinguishes the two by whether the broker's
answer was read completely — at every Produce version the broker offers, with answers encoded independently of the
library's encoder.) -/
theorem delivered_ack_is_success (cfg : Cfg) (s s' : State) (pw b k : Nat) (code : Code) (P : PW)
    (hP : s.pws pw = some P) (hsend : P.sender = .attempting b k (some .acked))
    (hs : step cfg s (.attemptDone pw b k code) = some s') :
    code = 0 ∧ ∃ P', s'.pws pw = some P' ∧ P'.sender = .finishing b 0 false := by
  simp only [step, hP, hsend] at hs
  split at hs
  · rename_i hg
    have hc : code = 0 := by
      have := hg.2.2
      simpa [consistent] using this
    cases hs
    subst hc
    exact ⟨rfl, { P with sender := afterAttempt cfg b k 0 }, by simp, by simp [afterAttempt]⟩
  · cases hs

/-- **ok_needs_broker_ack** — an attempt can end without error on the client side only if the broker applied and
acknowledged exactly that attempt. -/
theorem ok_needs_broker_ack (cfg : Cfg) (s s' : State) (pw b k : Nat) (hs : step cfg s (.attemptDone pw b k 0) = some s') :
    ∃ P, s.pws pw = some P ∧ P.sender = .attempting b k (some .acked) := by
  simp only [step] at hs
  repeat' split at hs
  all_goals (first | (cases hs; done) | skip)
  rename_i _ P hP _ b' k' br hsend hg
  obtain ⟨rfl, rfl, hc⟩ := hg
  refine ⟨P, hP, ?_⟩
  rw [hsend]
  cases br with
  | none => simp [consistent] at hc
  | some o =>
    cases o with
    | acked => rfl
    | lost a => simp [consistent] at hc
    | rejected c => simp [consistent] at hc; exact absurd hc.1.symm hc.2

/-- **completion_once** — the Completion callback is invoked at most once per batch (so at most once per accepted
message; a message is in exactly the batch `place` names); when a batch is completed and a callback is configured
it has been invoked exactly once, with the batch's final error — the same outcome WriteMessages reports for every
message of the batch; without a callback it is never invoked. -/
theorem completion_once (cfg : Cfg) (s : State) (hr : Reachable cfg s) (b : Nat) (B : Batch) (hB : s.batches b = some B) :
    B.ncompl ≤ 1 ∧
    (∀ code, B.done = some code →
      (cfg.completion = true → B.ncompl = 1 ∧ B.cbCode = some code) ∧ (cfg.completion = false → B.ncompl = 0)) := by
  have hC := invCompl cfg s hr
  refine ⟨?_, fun code hd => hC.complDone b B code hB hd⟩
  cases hd : B.done with
  | some code =>
    have := hC.complDone b B code hB hd
    cases hc : cfg.completion with
    | true => rw [(this.1 hc).1]; exact Nat.le_refl 1
    | false => rw [this.2 hc]; exact Nat.zero_le 1
  | none =>
    -- not completed: either the sender sits between Completion and complete (one call), or no call was made
    by_cases hex : ∃ P code, s.pws B.pw = some P ∧ P.sender = .finishing b code true
    · obtain ⟨P, code, hP, hs⟩ := hex
      rw [(hC.complOne B.pw P hP b code hs B hB).1]; exact Nat.le_refl 1
    · have : B.ncompl = 0 := hC.complZero b B hB hd (fun P hP code hs => hex ⟨P, code, hP, hs⟩)
      rw [this]; exact Nat.zero_le 1

/-- **batch_outcome_exact** — for every completed batch (sync, Async, with or without callback): its final error —
the value WriteErrors and the Completion callback report for each of its messages — is nil exactly when the broker
applied and acknowledged an attempt of the batch; then all its messages are in the log of the batch's partition. -/
theorem batch_outcome_exact (cfg : Cfg) (s : State) (hr : Reachable cfg s) (b : Nat) (B : Batch) (code : Code)
    (hB : s.batches b = some B) (hd : B.done = some code) :
    (code = 0 ↔ B.acked = true) ∧
    (code = 0 → ∀ m ∈ B.msgs, ∃ e ∈ s.log B.tp, e.msg = m.msg ∧ e.batch = b) := by
  have hA := invAck cfg s hr
  refine ⟨⟨?_, ?_⟩, ?_⟩
  · intro h0; subst h0; exact hA.doneAcked b B hB hd
  · intro hack
    rcases hA.ackedWhere b B hB hack with h0 | ⟨P, hPq, hst⟩
    · rw [hd] at h0; cases h0; rfl
    · have := hA.pipeLive B.pw P hPq b (sender_mem_pipe (ackState_batch hst)) B hB
      rw [hd] at this; cases this
  · intro h0; subst h0
    exact hA.ackedInLog b B hB (hA.doneAcked b B hB hd)

/-- **attempts_bounded** — a batch is attempted at most MaxAttempts times, a retry follows only an error the
configuration classifies as temporary / transient, and after an error-free attempt no further attempt is made. -/
theorem attempts_bounded (cfg : Cfg) (s s' : State) (pw b k : Nat) (hs : step cfg s (.attempt pw b k) = some s') :
    k < cfg.maxAttempts := by
  simp only [step] at hs
  repeat' split at hs
  all_goals (first | (cases hs; done) | skip)
  rename_i _ P hP hg
  exact hg.2

theorem retry_only_after_retriable (cfg : Cfg) (b k : Nat) (code : Code) (k' : Nat)
    (h : afterAttempt cfg b k code = .ready b k') : code ≠ 0 ∧ cfg.retriable code = true ∧ k' = k + 1 ∧ k' < cfg.maxAttempts := by
  unfold afterAttempt at h
  split at h
  · cases h
  · rename_i hc
    split at h
    · rename_i hr
      cases h
      exact ⟨hc, hr.1, rfl, hr.2⟩
    · cases h

/-- **detach_once** — a batch is detached (and therefore handed to the queue, produced and completed) at most once: `detach`
is enabled only for the batch that is still attached and not yet detached, and a timer detaches only its own batch
after its own timer fired (`B.TimerFire … false` detaches nothing: the batch is no longer `curr`). -/
theorem detach_once (cfg : Cfg) (s s' : State) (pw b : Nat) (why : Why) (size : Nat)
    (hs : step cfg s (.detach pw b why size) = some s') :
    ∃ P B, s.pws pw = some P ∧ s.batches b = some B ∧ P.curr = some b ∧ B.detached = none ∧
      (why = .timer → B.timerFired = true) ∧
      ∃ B', s'.batches b = some B' ∧ B'.detached = some why := by
  simp only [step, stepDetach] at hs
  repeat' split at hs
  all_goals (first | (cases hs; done) | skip)
  rename_i _ P hP _ B hB hg
  obtain ⟨hc, -, hd, hw, -⟩ := hg
  cases hs
  refine ⟨P, B, hP, hB, hc, hd, ?_, { B with detached := some why }, by simp, rfl⟩
  intro h; subst h; simpa [whyOk] using hw

/-- **retry_matches_source** — the model's retry decision `afterAttempt` is the loop of `(*partitionWriter).writeBatch` as it
stands in writer.go (regenerated on every run): another attempt is made exactly when the attempt failed, the error
is temporary or a transient network error, and the attempt counter stays below MaxAttempts. -/
theorem retry_matches_source (cfg : Cfg) (b k : Nat) (code : Code) (temp trans : Bool)
    (hcls : cfg.retriable code = (temp || trans)) :
    (afterAttempt cfg b k code = .ready b (k + 1)) ↔ Gen.retryAgain (code == 0) temp trans k cfg.maxAttempts = true := by
  unfold afterAttempt Gen.retryAgain
  by_cases h0 : code = 0
  · subst h0; simp
  · by_cases hr : cfg.retriable code = true <;> by_cases hk : k + 1 < cfg.maxAttempts
    all_goals (rw [hcls] at hr; cases temp <;> cases trans <;> simp_all)

theorem nodup_map_msg_inj (l : List BMsg) (h : (l.map (·.msg)).Nodup) :
    ∀ m ∈ l, ∀ m' ∈ l, m.msg = m'.msg → m = m' := by
  induction l with
  | nil => intro m hm; cases hm
  | cons a t ih =>
    simp only [List.map_cons, List.nodup_cons] at h
    obtain ⟨hnot, ht⟩ := h
    intro m hm m' hm' e
    rcases List.mem_cons.mp hm with h1 | h1 <;> rcases List.mem_cons.mp hm' with h2 | h2
    · rw [h1, h2]
    · exact absurd (List.mem_map.mpr ⟨m', h2, by rw [← e, h1]⟩) hnot
    · exact absurd (List.mem_map.mpr ⟨m, h1, by rw [e, h2]⟩) hnot
    · exact ih ht m h1 m' h2 e

/-- **message_in_exactly_one_batch** — an accepted message (an index of a call that was appended) sits in exactly one
batch, the one `place` names, and exactly once in it.  With `completion_once` (one Completion call per completed
batch, with the batch's final error) this is "the Completion callback receives every accepted message exactly once
with that same outcome"; with `dups_only_after_lost_ack` it bounds the copies of the message in the log. -/
theorem message_in_exactly_one_batch (cfg : Cfg) (s : State) (hr : Reachable cfg s) (c i : Nat) (C : Call)
    (hC : s.calls c = some C) (b : Nat) (hp : C.place i = some b) :
    (∃ B m, s.batches b = some B ∧ m ∈ B.msgs ∧ m.msg = (c, i) ∧ ∀ m' ∈ B.msgs, m'.msg = (c, i) → m' = m) ∧
    (∀ b' B' m, s.batches b' = some B' → m ∈ B'.msgs → m.msg = (c, i) → b' = b) := by
  have hP := invPlace cfg s hr
  have hM := invMsgs cfg s hr
  constructor
  · obtain ⟨B, hB, ⟨m, hm, hmm⟩, -⟩ := hP.placed c C hC i b hp
    refine ⟨B, m, hB, hm, hmm, ?_⟩
    intro m' hm' hmm'
    exact nodup_map_msg_inj B.msgs (hM.nodup b B hB) m' hm' m hm (hmm'.trans hmm.symm)
  · intro b' B' m hB' hm hmm
    obtain ⟨X, hX, -, hpl⟩ := hP.batchTP b' B' hB' m hm
    rw [hmm] at hX hpl
    rw [hC] at hX; cases hX
    simp only at hpl
    rw [hp] at hpl; cases hpl; rfl

/-- **completion_before_done** — `complete` (closing batch.done, which lets WriteMessages return) is enabled only
after the Completion callback ran when one is configured, and with the same error. -/
theorem completion_before_done (cfg : Cfg) (s s' : State) (pw b : Nat) (code : Code)
    (hs : step cfg s (.complete pw b code) = some s') :
    ∃ P, s.pws pw = some P ∧ P.sender = .finishing b code cfg.completion := by
  simp only [step] at hs
  repeat' split at hs
  all_goals (first | (cases hs; done) | skip)
  rename_i _ P hP _ B hB hg
  exact ⟨P, hP, hg⟩

/-- **dups_only_after_lost_ack** — per batch (a message is in one batch): the number of its copies in the log of its
partition is (messages of the batch) × (attempts the broker applied); the applied attempts are the ones whose
acknowledgement was lost plus one if the batch was acknowledged; and no attempt is ever made after an
acknowledged one.  So a second copy exists only after a lost acknowledgement. -/
theorem dups_only_after_lost_ack (cfg : Cfg) (s : State) (hr : Reachable cfg s) :
    (∀ b B, s.batches b = some B →
      ((s.log B.tp).filter (fun e => e.batch == b)).length = B.napplied * B.msgs.length ∧
      B.napplied = B.nlost + (if B.acked then 1 else 0)) ∧
    s.journal.Pairwise (fun j1 j2 => j1.batch = j2.batch → j1.out.applied = true → j1.out = .lost true) := by
  have hJ := invJournal cfg s hr
  refine ⟨fun b B hB => ⟨hJ.logCount b B hB, hJ.counts b B hB⟩, ?_⟩
  refine hJ.journalOnce.imp ?_
  intro j1 j2 h hb happ
  have hna := h hb
  cases ho : j1.out with
  | acked => exact absurd ho hna
  | lost a => rw [ho] at happ; simp [BrOut.applied] at happ; rw [happ]
  | rejected c => rw [ho] at happ; simp [BrOut.applied] at happ

/-- **log_is_applied_journal** — the log of every topic-partition is exactly the concatenation, in the order of the
broker's decisions, of the batches of the produce attempts it applied to that partition ("it appears in the log at
most once per produce attempt that the broker actually applied" — and at least once, and nothing else appears). -/
theorem log_is_applied_journal (cfg : Cfg) (s : State) (hr : Reachable cfg s) (tp : TP) :
    (s.log tp).map (·.msg) =
      (s.journal.filter (fun j => j.out.applied && (j.tp == tp))).flatMap (fun j => batchMsgs s.batches j.batch) :=
  (invLogJ cfg s hr).logJournal tp

/-- a produce request of a reachable state carries at least one message (C08.produce_nonempty, restated here for the
compositions below) -/
theorem produce_request_nonempty (cfg : Cfg) (s s' : State) (hr : Reachable cfg s) (pw : Nat) (tp : TP) (msgs : List Msg) (out : BrOut)
    (hs : step cfg s (.produce pw tp msgs out) = some s') : msgs ≠ [] := by
  have hA := invAck cfg s hr
  have hF := invFresh cfg s hr
  simp only [step, stepProduce] at hs
  repeat' split at hs
  all_goals (first | (cases hs; done) | skip)
  rename_i _ P hP _ b k hsend _ B hB hg
  obtain ⟨-, -, -, hm, -⟩ := hg
  have hdet := hA.sentDet pw P hP b (sender_mem_sent (by rw [hsend]; rfl)) B hB
  have := hF.detNonempty b B hB hdet
  intro he
  rw [← hm] at he
  exact this (List.map_eq_nil_iff.mp he)

/-- **produce_on_the_wire** — the Writer LTS composed with the record-batch writer model of C05
(`protocol/record_v2.go writeToVersion2`, the encoder the Transport uses for produce v3+): for every produce event of
every reachable state and every assignment `payload` of contents (time, key, value, headers) to the messages, the
bytes written for that request are one well-formed v2 batch which the independent decoder of Spec/RecordBatch accepts
and which carries exactly the batch's messages — that many, in batch order, contents untouched, millisecond
timestamps.  So "what the Writer hands to produce" and "what is on the wire" are one statement: the records the
broker appends are the batch the theorems above speak about.  (Uncompressed and CreateTime — the attributes a producer
sets — as C05's writer theorem; the request is never empty: `produce_nonempty`.) -/
theorem produce_on_the_wire (cfg : Cfg) (s s' : State) (hr : Reachable cfg s) (pw : Nat) (tp : TP) (msgs : List Msg) (out : BrOut)
    (hs : step cfg s (.produce pw tp msgs out) = some s')
    (payload : Msg → Model.RecordWriter.PRec) (crc : Bytes → Nat) (hcrc : ∀ b, crc b < RW.M32) (attrs now : Int)
    (hwf : (Model.RecordWriter.frameOfV2 attrs now (msgs.map payload)).WF) (hcodec : Spec.RB.codecOf attrs = 0)
    (hlog : Spec.RB.logAppend attrs = false) :
    ∃ bytes f, Model.RecordWriter.writeV2 crc attrs now (msgs.map payload) = some bytes ∧
      Spec.RB.readFrame crc bytes = some (f, []) ∧ f.count = msgs.length ∧
      Spec.RB.flattenEntry ⟨crc, crc⟩ (fun _ _ => none) (.batch f) =
        some (Spec.RB.isControl attrs,
          Model.RecordWriter.expected ((msgs.map payload).map (Model.RecordWriter.effTime now)) (msgs.map payload)) := by
  have hne : msgs ≠ [] := produce_request_nonempty cfg s s' hr pw tp msgs out hs
  have hne' : msgs.map payload ≠ [] := fun h => hne (List.map_eq_nil_iff.mp h)
  obtain ⟨bytes, f, h1, h2, -, h4, -, h6⟩ := Model.RecordWriter.writeV2_spec crc hcrc attrs now (msgs.map payload) hne' hwf hcodec hlog
  exact ⟨bytes, f, h1, h2, by rw [h4, List.length_map], h6⟩

/-- **produce_on_the_wire_compressed** — the same composition for a Writer with `Compression` set (C05's
`writeV2C_spec`): the batch's records are compressed as one payload with the configured codec `comp`; for every
decompressor `dec` that inverts it the independent decoder recovers exactly the batch's messages, in order — compression
passes the batch through untouched, whatever the codec. -/
theorem produce_on_the_wire_compressed (cfg : Cfg) (s s' : State) (hr : Reachable cfg s) (pw : Nat) (tp : TP) (msgs : List Msg)
    (out : BrOut) (hs : step cfg s (.produce pw tp msgs out) = some s')
    (payload : Msg → Model.RecordWriter.PRec) (crc : Bytes → Nat) (hcrc : ∀ b, crc b < RW.M32)
    (comp : Bytes → Bytes) (dec : Int → Bytes → Option Bytes) (attrs now : Int)
    (hwf : (Model.RecordWriter.frameOfV2C comp attrs now (msgs.map payload)).WF) (hcodec : Spec.RB.codecOf attrs ≠ 0)
    (hlog : Spec.RB.logAppend attrs = false) (hdec : ∀ p, dec (Spec.RB.codecOf attrs) (comp p) = some p) :
    ∃ bytes f, Model.RecordWriter.writeV2C crc comp attrs now (msgs.map payload) = some bytes ∧
      Spec.RB.readFrame crc bytes = some (f, []) ∧ f.count = msgs.length ∧
      Spec.RB.flattenEntry ⟨crc, crc⟩ dec (.batch f) =
        some (Spec.RB.isControl attrs,
          Model.RecordWriter.expected ((msgs.map payload).map (Model.RecordWriter.effTime now)) (msgs.map payload)) := by
  have hne : msgs ≠ [] := produce_request_nonempty cfg s s' hr pw tp msgs out hs
  have hne' : msgs.map payload ≠ [] := fun h => hne (List.map_eq_nil_iff.mp h)
  obtain ⟨bytes, f, h1, h2, -, h4, -, h6⟩ :=
    Model.RecordWriter.writeV2C_spec crc hcrc comp dec attrs now (msgs.map payload) hne' hwf hcodec hlog hdec
  exact ⟨bytes, f, h1, h2, by rw [h4, List.length_map], h6⟩

/-! ### the record handed to the encoder is the message as given (null stays null, empty stays empty) -/

/-- **source_resets_record** — in the source as it stands `(*writerRecords).ReadRecord` starts every record from a clean
slate (regenerated on every run by go/extract/writer) -/
theorem source_resets_record : Gen.readRecordResets = true := by decide

/-- **records_as_given** — the records of a produce request, as the encoder reads them from the Writer's reused
`Record`, are the messages of the batch as given, in order: a nil Key / Value is null, an empty one is empty, bytes are
the bytes — whatever the previous record of the same request carried.  (With `produce_on_the_wire`, whose `payload` is
arbitrary: the bytes on the wire decode to exactly these keys and values.) -/
theorem records_as_given (prev : WriterRecords.Slot) (msgs : List WriterRecords.Content) :
    WriterRecords.readAll Gen.readRecordResets prev msgs = msgs.map WriterRecords.asGiven := by
  rw [source_resets_record]
  exact WriterRecords.readAll_reset prev msgs

/-- without the reset a tombstone that follows a message with a value goes out with an EMPTY value, and an unkeyed
message after a keyed one with an empty key: the clause fails (this is what `source_resets_record` rules out) -/
theorem stale_record_counterexample :
    WriterRecords.readAll false WriterRecords.Slot.clean
      [{ key := some [1], value := some [2] }, { key := some [1], value := none }, { key := none, value := some [3] }] =
      [{ key := some [1], value := some [2] }, { key := some [1], value := some [] }, { key := some [], value := some [3] }] := by
  decide

/-- **return_enabled_when_batches_done** — a synchronous caller is never stuck once its batches are completed: when
every batch holding a message of the call has its final result, WriteMessages' return is enabled — with nil if all
results are nil, with a WriteErrors of the right length otherwise.  (Together with C08's `accepted_message_completes`:
the batches complete by internal events alone, then the call can return; no other call and no Close is needed.) -/
theorem return_enabled_when_batches_done (cfg : Cfg) (s : State) (c : Nat) (C : Call) (hC : s.calls c = some C)
    (hph : C.phase = .batched) (hsync : cfg.async = false)
    (hdone : ∀ i, i < C.msgs.length → ∃ code, batchDone s (C.place i) = some code) :
    ∃ r, (step cfg s (.ret c r)).isSome = true ∧ (r = .ok ∨ ∃ codes, r = .werr codes ∧ codes.length = C.msgs.length) := by
  by_cases hall : (List.range C.msgs.length).all (fun i => batchDone s (C.place i) == some 0) = true
  · refine ⟨.ok, ?_, Or.inl rfl⟩
    simp only [step, stepRet, hC]
    rw [if_pos ⟨hsync, hph, hall⟩]
    rfl
  · let codes : List Code := (List.range C.msgs.length).map (fun i => (batchDone s (C.place i)).getD 0)
    have hlen : codes.length = C.msgs.length := by simp [codes]
    have hget : ∀ i, i < C.msgs.length → codes[i]? = batchDone s (C.place i) := by
      intro i hi
      obtain ⟨code, hc⟩ := hdone i hi
      simp [codes, hi, hc]
    have h1 : (List.range C.msgs.length).all (fun i => batchDone s (C.place i) == codes[i]?) = true := by
      rw [List.all_eq_true]
      intro i hi
      rw [hget i (List.mem_range.mp hi)]
      simp
    have h2 : codes.any (· != 0) = true := by
      rw [List.all_eq_true] at hall
      have : ∃ i, i ∈ List.range C.msgs.length ∧ ¬ ((batchDone s (C.place i) == some 0) = true) := by
        apply Classical.byContradiction
        intro hno
        apply hall
        intro i hi
        apply Classical.byContradiction
        intro hne
        exact hno ⟨i, hi, hne⟩
      obtain ⟨i, hi, hne⟩ := this
      have hi' := List.mem_range.mp hi
      obtain ⟨code, hc⟩ := hdone i hi'
      rw [List.any_eq_true]
      refine ⟨code, ?_, ?_⟩
      · have := hget i hi'
        rw [hc] at this
        exact List.mem_of_getElem? this
      · rw [hc] at hne
        simpa using hne
    refine ⟨.werr codes, ?_, Or.inr ⟨codes, rfl, hlen⟩⟩
    simp only [step, stepRet, hC]
    rw [if_pos ⟨hsync, hph, hlen, h1, h2⟩]
    rfl

/-- **sync_call_returns_without_further_input** — a synchronous WriteMessages call that has queued its messages gets
its answer from the writer alone: from every reachable state in which no call is inside batchMessages there is a
continuation of internal events only (timers, queues, senders, broker answers — no other WriteMessages step, no Close)
after which the call's return is enabled, with nil or with a WriteErrors of the call's length.  What the answer then
says is `ack_exact` / `werr_exact`. -/
theorem sync_call_returns_without_further_input (cfg : Cfg) (hmax : 1 ≤ cfg.maxAttempts) (s : State) (hr : Reachable cfg s)
    (hlock : s.wlock.isCall = false) (c : Nat) (C : Call) (hC : s.calls c = some C) (hph : C.phase = .batched)
    (hsync : cfg.async = false) :
    ∃ es s' r, run cfg s es = some s' ∧ es.all Event.internal = true ∧ (step cfg s' (.ret c r)).isSome = true ∧
      (r = .ok ∨ ∃ codes, r = .werr codes ∧ codes.length = C.msgs.length) := by
  have hfresh : s.fresh = none := by
    cases hf : s.fresh with
    | none => rfl
    | some b =>
      have := (invFresh cfg s hr).freshLock (by rw [hf]; rfl)
      rw [hlock] at this; cases this
  obtain ⟨es, s', hrun, hint, hc, -, hall⟩ := drains cfg hmax s hr hfresh
  have hr' := reachable_run hr hrun
  have hC' : s'.calls c = some C := by rw [hc]; exact hC
  have hdone : ∀ i, i < C.msgs.length → ∃ code, batchDone s' (C.place i) = some code := by
    intro i hi
    obtain ⟨b, hb⟩ := placedAll_elim (invQueued cfg s' hr' c C hC' (Or.inl hph)) i hi
    obtain ⟨B, hB, -, -⟩ := (invPlace cfg s' hr').placed c C hC' i b hb
    obtain ⟨code, hcode⟩ := hall b B hB
    exact ⟨code, by simp [batchDone, hb, hB, hcode]⟩
  obtain ⟨r, hen, hr2⟩ := return_enabled_when_batches_done cfg s' c C hC' hph hsync hdone
  exact ⟨es, s', r, hrun, hint, hen, hr2⟩

/-- **copies_bounded** — bounded duplication: the broker applies at most MaxAttempts attempts of a batch, so each
message has at most MaxAttempts copies in the log of its partition (`dups_only_after_lost_ack` says when there is
more than one). -/
theorem copies_bounded (cfg : Cfg) (hmax : 1 ≤ cfg.maxAttempts) (s : State) (hr : Reachable cfg s) (b : Nat) (B : Batch)
    (hB : s.batches b = some B) :
    B.napplied ≤ cfg.maxAttempts ∧
      ((s.log B.tp).filter (fun e => e.batch == b)).length ≤ cfg.maxAttempts * B.msgs.length := by
  have h1 := (invCopies cfg hmax s hr).bound b B hB
  refine ⟨h1, ?_⟩
  rw [(invJournal cfg s hr).logCount b B hB]
  exact Nat.mul_le_mul_right _ h1

/-- **copies_per_message** — for every message of every batch: the number of entries of the partition log that
carry it is the number of attempts of its batch the broker applied; that number is at most MaxAttempts, and at least 1
once the batch is acknowledged. -/
theorem copies_per_message (cfg : Cfg) (hmax : 1 ≤ cfg.maxAttempts) (s : State) (hr : Reachable cfg s) (b : Nat) (B : Batch)
    (hB : s.batches b = some B) (m : BMsg) (hm : m ∈ B.msgs) :
    (s.log B.tp).countP (fun e => e.msg == m.msg) = B.napplied ∧ B.napplied ≤ cfg.maxAttempts ∧
      (B.acked = true → 1 ≤ B.napplied) := by
  refine ⟨invMsgCount cfg s hr b B hB m hm, (invCopies cfg hmax s hr).bound b B hB, ?_⟩
  intro hack
  have := (invJournal cfg s hr).counts b B hB
  rw [hack] at this
  simp only [if_true] at this
  rw [this]; exact Nat.le_add_left _ _

/-- **ok_means_at_least_once_at_most_maxAttempts** — when a synchronous WriteMessages call returns nil, every message
of the call stands in the log of the topic-partition the balancer chose for it at least once and at most MaxAttempts
times (more than once only after lost acknowledgements: `dups_only_after_lost_ack`; nowhere else: `no_foreign_partition`). -/
theorem ok_means_at_least_once_at_most_maxAttempts (cfg : Cfg) (hmax : 1 ≤ cfg.maxAttempts) (s s' : State)
    (hr : Reachable cfg s) (c : Nat) (hs : step cfg s (.ret c .ok) = some s') :
    ∃ C, s.calls c = some C ∧ ∀ i, i < C.msgs.length → ∃ tp, C.assign[i]? = some tp ∧
      1 ≤ (s.log tp).countP (fun e => e.msg == (c, i)) ∧ (s.log tp).countP (fun e => e.msg == (c, i)) ≤ cfg.maxAttempts := by
  obtain ⟨C, hC, -, hall⟩ := ack_exact cfg s s' hr c hs
  refine ⟨C, hC, ?_⟩
  intro i hi
  obtain ⟨b, B, -, hB, hack, hasg, ⟨m, hm, hmm⟩, -⟩ := hall i hi
  obtain ⟨h1, h2, h3⟩ := copies_per_message cfg hmax s hr b B hB m hm
  rw [hmm] at h1
  refine ⟨B.tp, hasg, ?_, ?_⟩
  · rw [h1]; exact h3 hack
  · rw [h1]; exact h2

/-- **no_copy_before_sending** — a batch that is neither completed nor with the sender goroutine of its partition
(still attached, or waiting in the queue) has no entry in any log yet: nothing reaches the broker except through the
sender's attempts. -/
theorem no_copy_before_sending (cfg : Cfg) (hmax : 1 ≤ cfg.maxAttempts) (s : State) (hr : Reachable cfg s) (b : Nat) (B : Batch)
    (hB : s.batches b = some B) (hd : B.done = none) (hun : ∀ P, s.pws B.pw = some P → P.sender.batch? ≠ some b) :
    ((s.log B.tp).filter (fun e => e.batch == b)).length = 0 := by
  rw [(invJournal cfg s hr).logCount b B hB, (invCopies cfg hmax s hr).unheld b B hB hun hd]
  exact Nat.zero_mul _

/-- **acked_has_journal_entry** — "acknowledged" is the broker's own record: a batch counts as acknowledged exactly
when the journal holds an applied-and-acknowledged decision for it on its topic-partition. -/
theorem acked_has_journal_entry (cfg : Cfg) (s : State) (hr : Reachable cfg s) (b : Nat) (B : Batch) (hB : s.batches b = some B) :
    B.acked = true ↔ ∃ j ∈ s.journal, j.batch = b ∧ j.out = .acked ∧ j.tp = B.tp := by
  have hJ := invJournal cfg s hr
  constructor
  · exact hJ.ackedJournal b B hB
  · rintro ⟨j, hj, h1, h2, -⟩
    obtain ⟨B0, hB0, ha, -⟩ := hJ.journalAcked j hj h2
    rw [h1, hB] at hB0; cases hB0; exact ha

/-! ### non-vacuity: a concrete run — sync call of two messages to two partitions, one batch needs a retry after a
lost acknowledgement (duplicate in the log), the other is rejected permanently; the call returns WriteErrors -/

def exCfg : Cfg :=
  { batchSize := 1, batchBytes := 1000, maxAttempts := 3, async := false, completion := true, topic := "t",
    retriable := fun c => c == 1003 }

def exTrace : List Event :=
  [ .enter true, .begin_ 1 [{ size := 45, topic := "" }, { size := 50, topic := "" }],
    .assign 1 0 ("t", 0), .assign 1 1 ("t", 1), .batch 1,
    .newPW 1 1 ("t", 0), .newBatch 1 1, .add 1 1 1 0 45, .detach 1 1 .full 0, .qput 1 1 true,
    .newPW 2 2 ("t", 1), .newBatch 2 2, .add 2 2 1 1 50, .detach 2 2 .full 0, .qput 2 2 true, .batched 1,
    .qget 1 (some 1), .attempt 1 1 0, .qget 2 (some 2), .attempt 2 2 0,
    .produce 1 ("t", 0) [(1, 0)] (.lost true), .attemptDone 1 1 0 1003,
    .produce 2 ("t", 1) [(1, 1)] (.rejected 10), .attemptDone 2 2 0 10, .completion 2 2 10, .complete 2 2 10,
    .attempt 1 1 1, .produce 1 ("t", 0) [(1, 0)] .acked, .attemptDone 1 1 1 0, .completion 1 1 0, .complete 1 1 0,
    .ret 1 (.werr [0, 10]) ]

/-- the run is accepted; message (1,0) is twice in t/0 (retry after the lost ack), (1,1) never reached t/1 -/
example : ((run exCfg State.init exTrace).map (fun s =>
      ((s.log ("t", 0)).map (·.msg), (s.log ("t", 1)).map (·.msg), s.journal.map (fun j => (j.batch, j.out))))) =
    some ([(1, 0), (1, 0)], [], [(1, BrOut.lost true), (2, BrOut.rejected 10), (1, BrOut.acked)]) := by decide

/-- the hypotheses of `ack_exact` are satisfiable: a sync call of one message that is acknowledged returns nil -/
example : (run { exCfg with batchSize := 1 } State.init
    [ .enter true, .begin_ 1 [{ size := 45, topic := "" }], .assign 1 0 ("t", 0), .batch 1,
      .newPW 1 1 ("t", 0), .newBatch 1 1, .add 1 1 1 0 45, .detach 1 1 .full 0, .qput 1 1 true, .batched 1,
      .qget 1 (some 1), .attempt 1 1 0, .produce 1 ("t", 0) [(1, 0)] .acked, .attemptDone 1 1 0 0,
      .completion 1 1 0, .complete 1 1 0, .ret 1 .ok ]).isSome = true := by decide

end KV.C01
