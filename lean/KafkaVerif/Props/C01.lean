/-
Props/C01.lean — property C01: acknowledged messages are in the log; failures are attributed exactly.
Property theorems only; invariants and helper lemmas live in Lemmas/WriterInv.lean / Lemmas/WriterAck.lean.
-/
import KafkaVerif.Lemmas.WriterInv

namespace KV.C01
open KV KV.Writer

/-- **ok_needs_broker_ack** — an attempt can end without error on the client side only if the broker applied and
acknowledged exactly that attempt. -/
theorem ok_needs_broker_ack (cfg : Cfg) (s s' : State) (pw b k : Nat) (hs : step cfg s (.attemptDone pw b k 0) = some s') :
    ∃ P, s.pws pw = some P ∧ P.sender = .attempting b k (some .acked) := by
  simp only [step] at hs
  repeat' split at hs
  all_goals (first | (cases hs; done) | skip)
  rename_i _ P hP _ b' k' br hsend hg
  obtain ⟨rfl, rfl, hc⟩ := hg
  refine ⟨P, hP, ?_⟩
  rw [hsend]
  cases br with
  | none => simp [consistent] at hc
  | some o =>
    cases o with
    | acked => rfl
    | lost a => simp [consistent] at hc
    | rejected c => simp [consistent] at hc; exact absurd hc.1.symm hc.2

end KV.C01
