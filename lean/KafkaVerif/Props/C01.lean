/-
Props/C01.lean — property C01: acknowledged messages are in the log; failures are attributed exactly.
Property theorems only; the invariants live in Lemmas/WriterAck.lean (InvAck), Lemmas/WriterPlace.lean
(InvPlace), Lemmas/WriterOrder.lean (InvOrd) and Lemmas/WriterCompl.lean (InvCompl, InvJournal).

Model: Model/Writer.lean.  The broker is part of the model: `produce pw tp msgs out` is its decision for the
in-flight attempt (out = acked | lost applied? | rejected code); `log tp` are the partition logs, `journal`
the list of all decisions.  `Batch.acked` (ghost) = some attempt of the batch was applied and acknowledged.
All theorems hold for every configuration (acks ≠ None is built in: every attempt gets a decision or a
transport error) and every reachable state / accepted event, i.e. every finite event sequence.
-/
import KafkaVerif.Lemmas.WriterPlace

namespace KV.C01
open KV KV.Writer

/-- what "message i of call c was appended by an acknowledged produce request to the partition the balancer
chose" means in a state -/
def AckedInChosenPartition (s : State) (c : Nat) (C : Call) (i : Nat) : Prop :=
  ∃ b B, C.place i = some b ∧ s.batches b = some B ∧ B.acked = true ∧
    C.assign[i]? = some B.tp ∧ (∃ m ∈ B.msgs, m.msg = (c, i)) ∧
    (∃ e ∈ s.log B.tp, e.msg = (c, i) ∧ e.batch = b)

theorem acked_of_done (s : State) (hA : InvAck s) (hP : InvPlace s) (c : Nat) (C : Call) (hC : s.calls c = some C)
    (i : Nat) (hd : batchDone s (C.place i) = some 0) : AckedInChosenPartition s c C i := by
  unfold batchDone at hd
  split at hd
  · cases hd
  · rename_i b hb
    split at hd
    · cases hd
    · rename_i B hB
      have hack := hA.doneAcked b B hB hd
      obtain ⟨B', hB', ⟨m, hm, hmm⟩, ha⟩ := hP.placed c C hC i b hb
      rw [hB] at hB'; cases hB'
      obtain ⟨e, he, h1, h2⟩ := hA.ackedInLog b B hB hack m hm
      exact ⟨b, B, hb, hB, hack, ha, ⟨m, hm, hmm⟩, ⟨e, he, h1.trans hmm, h2⟩⟩

/-- **ack_exact** — when a synchronous WriteMessages call returns nil (`ret c .ok` is taken), every message of the
call sits in a batch that was applied and acknowledged by the broker, in the log of the topic-partition the
balancer chose for it. -/
theorem ack_exact (cfg : Cfg) (s s' : State) (hr : Reachable cfg s) (c : Nat)
    (hs : step cfg s (.ret c .ok) = some s') :
    ∃ C, s.calls c = some C ∧ cfg.async = false ∧ ∀ i, i < C.msgs.length → AckedInChosenPartition s c C i := by
  have hA := invAck cfg s hr
  have hP := invPlace cfg s hr
  simp only [step, stepRet] at hs
  repeat' split at hs
  all_goals (first | (cases hs; done) | skip)
  rename_i _ C hC hg
  obtain ⟨hasync, -, hall⟩ := hg
  refine ⟨C, hC, hasync, ?_⟩
  intro i hi
  rw [List.all_eq_true] at hall
  have := hall i (List.mem_range.mpr hi)
  exact acked_of_done s hA hP c C hC i (by simpa using this)

/-- **werr_exact** — when WriteMessages returns WriteErrors (`ret c (.werr codes)`), entry i is nil exactly when
message i was acknowledged that way; a non-nil entry is the final error of the message's batch, and no attempt of
that batch was acknowledged. -/
theorem werr_exact (cfg : Cfg) (s s' : State) (hr : Reachable cfg s) (c : Nat) (codes : List Code)
    (hs : step cfg s (.ret c (.werr codes)) = some s') :
    ∃ C, s.calls c = some C ∧ codes.length = C.msgs.length ∧ ∀ i, i < C.msgs.length →
      ∃ b B code, C.place i = some b ∧ s.batches b = some B ∧ codes[i]? = some code ∧ B.done = some code ∧
        (code = 0 ↔ B.acked = true) ∧ (code = 0 → AckedInChosenPartition s c C i) := by
  have hA := invAck cfg s hr
  have hO := invOrd cfg s hr
  have hP := invPlace cfg s hr
  simp only [step, stepRet] at hs
  repeat' split at hs
  all_goals (first | (cases hs; done) | skip)
  rename_i _ C hC hg
  obtain ⟨-, -, hlen, hall, -⟩ := hg
  refine ⟨C, hC, hlen, ?_⟩
  intro i hi
  rw [List.all_eq_true] at hall
  have hi' := hall i (List.mem_range.mpr hi)
  have hcode : ∃ code, codes[i]? = some code := by
    have : i < codes.length := hlen ▸ hi
    exact ⟨codes[i], List.getElem?_eq_getElem this⟩
  obtain ⟨code, hcode⟩ := hcode
  rw [hcode] at hi'
  have hd : batchDone s (C.place i) = some code := by simpa using hi'
  have hd0 := hd
  unfold batchDone at hd
  split at hd
  · cases hd
  · rename_i b hb
    split at hd
    · cases hd
    · rename_i B hB
      refine ⟨b, B, code, hb, hB, hcode, hd, ⟨?_, ?_⟩, ?_⟩
      · intro h0; subst h0; exact hA.doneAcked b B hB hd
      · intro hack
        rcases hA.ackedWhere b B hB hack with h0 | ⟨P, hPq, hst⟩
        · rw [hd] at h0; cases h0; rfl
        · -- the sender still holds b, so b is in a pipeline and cannot be done
          have hmem : b ∈ P.pipe := sender_mem_pipe (ackState_batch hst)
          have := hA.pipeLive B.pw P hPq b hmem B hB
          rw [hd] at this; cases this
      · intro h0; subst h0
        exact acked_of_done s hA hP c C hC i hd0

/-- **no_foreign_partition** — a message is only ever appended to the log of the topic-partition that the balancer
chose for it (`assign` records the balancer's answer and the topic chosen by chooseTopic); also every message in
every batch, hence in every produce request, was assigned to that request's topic-partition. -/
theorem no_foreign_partition (cfg : Cfg) (s : State) (hr : Reachable cfg s) :
    (∀ tp, ∀ e ∈ s.log tp, ∃ C, s.calls e.msg.1 = some C ∧ C.assign[e.msg.2]? = some tp) ∧
    (∀ b B, s.batches b = some B → ∀ m ∈ B.msgs, ∃ C, s.calls m.msg.1 = some C ∧ C.assign[m.msg.2]? = some B.tp) :=
  ⟨(invPlace cfg s hr).logTP, (invPlace cfg s hr).batchTP⟩

/-- **assign_is_balancer_choice** — the recorded assignment of index i is taken once, in index order, with the topic
that chooseTopic selects (message-level or writer-level topic; a conflict never gets an assignment). -/
theorem assign_is_balancer_choice (cfg : Cfg) (s s' : State) (c i : Nat) (tp : TP)
    (hs : step cfg s (.assign c i tp) = some s') :
    ∃ C m, s.calls c = some C ∧ C.assign.length = i ∧ C.msgs[i]? = some m ∧ chooseTopic cfg m = some tp.1 ∧
      s'.calls c = some { C with phase := .assigning, assign := C.assign ++ [tp] } := by
  simp only [step] at hs
  repeat' split at hs
  all_goals (first | (cases hs; done) | skip)
  rename_i _ C hC hg
  obtain ⟨-, hlen, -, hm⟩ := hg
  obtain ⟨m, hmi, hch⟩ := msgAt_elim hm
  cases hs
  exact ⟨C, m, hC, hlen, hmi, by simpa using hch, by simp⟩

/-- **ok_needs_broker_ack** — an attempt can end without error on the client side only if the broker applied and
acknowledged exactly that attempt. -/
theorem ok_needs_broker_ack (cfg : Cfg) (s s' : State) (pw b k : Nat) (hs : step cfg s (.attemptDone pw b k 0) = some s') :
    ∃ P, s.pws pw = some P ∧ P.sender = .attempting b k (some .acked) := by
  simp only [step] at hs
  repeat' split at hs
  all_goals (first | (cases hs; done) | skip)
  rename_i _ P hP _ b' k' br hsend hg
  obtain ⟨rfl, rfl, hc⟩ := hg
  refine ⟨P, hP, ?_⟩
  rw [hsend]
  cases br with
  | none => simp [consistent] at hc
  | some o =>
    cases o with
    | acked => rfl
    | lost a => simp [consistent] at hc
    | rejected c => simp [consistent] at hc; exact absurd hc.1.symm hc.2

end KV.C01
