/-
Props/C03.lean — "Consumer group: commits never pass undelivered records; resume at the commit".

Theorems are over every event sequence of the commit-loop LTS (`Model/Commit.lean`: any interleaving of
CommitMessages calls, generation begin/end, ticks, coordinator answers to OffsetCommit incl. failures and retries,
reader close during a retry), and over every OffsetFetch answer for the start offsets (`Model/GroupStart.lean`).

Group level (section "group history" at the end): an abstract multi-member history of one partition
(`Model/Group.lean`) whose steps are justified by the component theorems — `assign` by `start_at_committed`,
`commit` by `commit_le_handed` + the stated hypothesis that applications commit only what they were handed, `deliver`
by C02's iterated-fetch contract (taken as a HYPOTHESIS: it is the definition of the step).  Hypotheses of
`delivered_before_covered` / `quiescent_all_delivered`: StartOffset = FirstOffset and no truncation of the log
(`last_offset_counterexample` shows why), contiguous stored offsets.
-/
import KafkaVerif.Lemmas.CommitSync
import KafkaVerif.Lemmas.CommitTwo
import KafkaVerif.Model.GroupStart
import KafkaVerif.Gen.GroupFacts
import KafkaVerif.Lemmas.Group
import KafkaVerif.Lemmas.GroupFront
import KafkaVerif.Lemmas.ReaderRun
import KafkaVerif.Lemmas.GroupLog
import KafkaVerif.Lemmas.GroupResp
import KafkaVerif.Lemmas.GroupReq

namespace KV.Commit.C03
open KV.Commit

/-! ### regenerated tie: the statements the model mirrors, re-read from the source on every run -/

/-- `makeCommit` adds the extracted literal (1), `commitOffsetsWithRetry` is called with the extracted number of
retries, `offsetStash.merge` keeps the greater offset (`c.offset > offset`), `fetchOffsets` replaces exactly the
negative offsets (`offset < 0`) by StartOffset. -/
theorem model_matches_source :
    (∀ m : TP × Int, (makeCommit m).offset = m.2 + KV.Gen.Group.makeCommitAddend) ∧
    retries = KV.Gen.Group.commitRetries ∧
    KV.Gen.Group.mergeOp = ">" ∧
    KV.Gen.Group.fetchNegativeTest = ("<", "0") := by
  refine ⟨fun m => rfl, by decide, by decide, by decide⟩

/-! ### commit_le_handed -/

/-- History invariant: every offset ever sent to the coordinator for a partition is at most one plus an offset the
application passed to CommitMessages for that partition. -/
theorem commit_le_handed (s : CState) (h : CReachable s) :
    ∀ x ∈ s.sent, ∀ e ∈ x.1, ∃ m, (e.1, m) ∈ s.passed ∧ e.2 ≤ m + 1 :=
  (cov_reachable s h).sent

/-- The same at the moment the request is issued ("so far"): an OffsetCommit request accepted in state `s` only
carries offsets covered by the messages passed before that moment. -/
theorem commit_le_handed_so_far (s s' : CState) (h : CReachable s) (offs : Stash) (ok : Bool)
    (hs : cstep s (.attempt offs ok) = some s') :
    ∀ e ∈ offs, ∃ m, (e.1, m) ∈ s.passed ∧ e.2 ≤ m + 1 := by
  have hc := (cov_reachable s h).of_fields (settle_fields s)
  have f := settle_fields s
  simp only [cstep] at hs
  generalize settle s = t at hs hc f
  split at hs
  · split at hs
    · rename_i hcond
      simp only [Bool.and_eq_true] at hcond
      intro e he
      have := hc.stash e (sameMap_sub _ _ hcond.1 e he)
      rw [f.1] at this
      exact this
    · cases hs
  · cases hs

/-- the stash itself never runs ahead of the application -/
theorem stash_le_handed (s : CState) (h : CReachable s) :
    ∀ e ∈ s.stash, ∃ m, (e.1, m) ∈ s.passed ∧ e.2 ≤ m + 1 :=
  (cov_reachable s h).stash

/-- non-vacuity: a run with two calls, a failed and a successful attempt -/
def sample : List CEv :=
  [.call 0 [(("t", 0), 4), (("t", 1), 7)], .begin true, .deq [⟨("t", 0), 5⟩, ⟨("t", 1), 8⟩] false,
   .attempt [(("t", 1), 8), (("t", 0), 5)] false, .call 1 [(("t", 0), 2)],
   .attempt [(("t", 0), 5), (("t", 1), 8)] true, .replied, .deq [⟨("t", 0), 3⟩] false,
   .attempt [(("t", 0), 3)] true, .replied, .genEnd, .endLoop]

example : (crun {} sample).map (fun s => (s.sent.length, s.replied.map (fun r => (r.1.id, r.2)), s.pc))
    = some (3, [(0, true), (1, true)], .none) := by decide

/-- a request beyond what was handed is not a behaviour of the model -/
example : crun {} [.call 0 [(("t", 0), 4)], .begin true, .deq [⟨("t", 0), 5⟩] false, .attempt [(("t", 0), 6)] true] = none := by
  decide

/-! ### two commit loops at once (a late-started loop of the previous generation, D8 shape) -/

/-- `commit_le_handed` when a late-started commit loop of an ended generation runs concurrently with the current
generation's loop (both drain the same channel, each with its own stash): every offset either of them sends is covered -/
theorem commit_le_handed_two_loops (s : CState) (h : CReachable2 s) :
    ∀ x ∈ s.sent, ∀ e ∈ x.1, ∃ m, (e.1, m) ∈ s.passed ∧ e.2 ≤ m + 1 :=
  (inv2_reachable s h).cov.sent

/-- … and whichever loop answers a synchronous CommitMessages with nil, the request is recorded by an acknowledged
OffsetCommit issued after the call began -/
theorem sync_commit_recorded_two_loops (s : CState) (h : CReachable2 s) (id : Nat) (hr : (id, true) ∈ s.rets) :
    ∃ r : Req, r.id = id ∧ ∀ c ∈ r.commits, ∃ i offs, s.sent[i]? = some (offs, true) ∧ r.sentAtCall ≤ i ∧
      ∃ o, (c.tp, o) ∈ offs ∧ c.offset ≤ o := by
  obtain ⟨r, h1, h2⟩ := (inv2_reachable s h).ret (id, true) hr
  exact ⟨r, h1, (inv2_reachable s h).sinv.recr (r, true) h2 rfl⟩

/-- non-vacuity: the late loop drains request 0 and its first attempt is refused (stale generation) while the current
loop takes request 1 and gets it acknowledged; then the late loop's retry is acknowledged too -/
example : (crun2 {} [.main (.call 0 [(("t", 0), 4)]), .late (.begin true), .late .genEnd, .late (.deq [⟨("t", 0), 5⟩] true),
    .main (.begin true), .main (.call 1 [(("t", 0), 6)]), .late (.attempt [(("t", 0), 5)] false),
    .main (.deq [⟨("t", 0), 7⟩] false), .main (.attempt [(("t", 0), 7)] true), .main .replied, .main (.ret 1 true),
    .late (.attempt [(("t", 0), 5)] true), .late (.reply true), .late .endLoop, .main (.ret 0 true)]).map
    (fun s => (s.sent.map (·.2), s.rets, s.lpc, s.pc)) = some ([false, true, true], [(1, true), (0, true)], .none, .idle) := by
  decide

/-! ### merge -/

/-- `offsetStash.merge` only produces offsets that were in the stash or are a commit's offset (= message offset + 1) -/
theorem merge_sound (s : Stash) (cs : List Commit) (e : TP × Int) (h : e ∈ s.merge cs) :
    e ∈ s ∨ ∃ c ∈ cs, e = (c.tp, c.offset) := merge_mem cs s e h

theorem makeCommit_offset (m : TP × Int) : (makeCommit m).offset = m.2 + 1 ∧ (makeCommit m).tp = m.1 := ⟨rfl, rfl⟩

/-! ### sync_commit_recorded -/

/-- History level: whenever the commit loop has answered a synchronous CommitMessages request `r` with nil
(`(r, true) ∈ replied` — the only way `CommitMessages` returns nil in sync mode), then for every commit of the request
there is an *acknowledged* OffsetCommit request in the history, issued after the call began (`sentAtCall ≤ i`: at
least as many requests were issued before it as at the moment of the call), carrying for that partition an offset
≥ the commit's offset. -/
theorem sync_commit_recorded (s : CState) (h : CReachable s) (r : Req) (hr : (r, true) ∈ s.replied) :
    ∀ c ∈ r.commits, ∃ i offs, s.sent[i]? = some (offs, true) ∧ r.sentAtCall ≤ i ∧
      ∃ o, (c.tp, o) ∈ offs ∧ c.offset ≤ o :=
  (sinv_reachable s h).recr (r, true) hr rfl

/-- in terms of the messages: requests are built by `makeCommit`, so the recorded offset is ≥ m.Offset + 1 -/
theorem sync_commit_recorded_msgs (s : CState) (h : CReachable s) (r : Req) (hr : (r, true) ∈ s.replied)
    (m : TP × Int) (hm : makeCommit m ∈ r.commits) :
    ∃ i offs, s.sent[i]? = some (offs, true) ∧ r.sentAtCall ≤ i ∧ ∃ o, (m.1, o) ∈ offs ∧ m.2 + 1 ≤ o :=
  sync_commit_recorded s h r hr (makeCommit m) hm

/-- The statement of the property itself: when a SYNCHRONOUS `CommitMessages` call returns nil (`(id, true) ∈ rets`), it
was the call of some request `r` with that id, and for every message of it the coordinator has acknowledged — in a request
issued after the call began — an offset ≥ message offset + 1 for its partition. -/
theorem sync_commitMessages_nil_recorded (s : CState) (h : CReachable s) (id : Nat) (hr : (id, true) ∈ s.rets) :
    ∃ r : Req, r.id = id ∧ ∀ c ∈ r.commits, ∃ i offs, s.sent[i]? = some (offs, true) ∧ r.sentAtCall ≤ i ∧
      ∃ o, (c.tp, o) ∈ offs ∧ c.offset ≤ o := by
  obtain ⟨r, h1, h2⟩ := retok_reachable s h (id, true) hr
  exact ⟨r, h1, sync_commit_recorded s h r h2⟩

/-- the stash is a map: its keys stay unique under every event sequence -/
theorem stash_keys_unique (s : CState) (h : CReachable s) : Uniq s.stash := (sinv_reachable s h).uniq

/-- non-vacuity: in `sample` both requests were answered nil, and e.g. request 1 (called after one request had been
issued) is recorded by the third request -/
example : (crun {} sample).map (fun s => (s.replied.map (fun x => (x.1.id, x.1.sentAtCall, x.2)), s.sent.map (·.2)))
    = some ([(0, 0, true), (1, 1, true)], [false, true, true]) := by decide

/-- State-level step lemma: a successful attempt carries the whole stash, is appended to the history as acknowledged and
leads to the answering state. -/
theorem acked_attempt_enters_done (s s' : CState) (offs : Stash)
    (h : cstep s (.attempt offs true) = some s') :
    (∃ rs' f, s'.pc = .done rs' true f) ∧ s'.sent = s.sent ++ [(offs, true)] ∧ sameMap offs s.stash = true := by
  have f := settle_fields s
  simp only [cstep] at h
  generalize settle s = t at h f
  split at h
  · split at h
    · rename_i hc
      simp only [Bool.and_eq_true] at hc
      simp at h
      subst h
      exact ⟨⟨_, _, rfl⟩, by simp [f.2.2.2.1], by rw [← f.2.2.1]; exact hc.1⟩
    · cases h
  · cases h

/-! ### start_at_committed -/

open KV.GroupStart in
/-- Each assigned partition starts at the group's committed offset when the coordinator reports one (≥ 0) and at the
configured StartOffset otherwise (none reported, or the "no offset" marker −1). -/
theorem start_at_committed (start : Int) (resp : Resp) (topic : String) (p : Int) :
    assignOffset start resp topic p =
      match committed resp topic p with
      | some o => if 0 ≤ o then o else start
      | none => start := by
  unfold assignOffset
  cases hc : committed resp topic p with
  | none => rfl
  | some o =>
    simp only
    by_cases h : o < 0
    · have h2 : ¬ (0 ≤ o) := by omega
      simp [h, h2]
    · have h2 : 0 ≤ o := by omega
      simp [h, h2]

open KV.GroupStart in
/-- every configured topic gets exactly its assigned partitions, in assignment order, each with that offset -/
theorem assignments_cover (start : Int) (topics : List String) (subs : List (String × List Int)) (resp : Resp) :
    (makeAssignments start topics subs resp).map (·.1) = topics ∧
    ∀ t ps, (t, ps) ∈ makeAssignments start topics subs resp →
      ps = ((subs.lookup t).getD []).map (fun p => (p, assignOffset start resp t p)) := by
  constructor
  · simp [makeAssignments, Function.comp_def]
  · intro t ps h
    simp only [makeAssignments, List.mem_map] at h
    obtain ⟨t', _, h⟩ := h
    cases h; rfl

open KV.GroupStart in
example : makeAssignments (-1) ["t", "u"] [("t", [0, 2]), ("u", [1])] [("t", [(0, 5), (2, -1)])]
    = [("t", [(0, 5), (2, -1)]), ("u", [(1, -1)])] := by decide

/-! ## group history -/
section GroupHistory
open KV.GroupHist

/-- `assign` starts the epoch at the committed offset, or at the configured StartOffset when there is none
(the group-level image of `start_at_committed`) -/
theorem assignment_starts_at_committed (sl : Bool) (s s' : G) (m : Nat) (h : gstep sl s (.assign m) = some s') :
    ∃ rd, s'.readers = s.readers ++ [rd] ∧ rd.m = m ∧ rd.pos = rd.start ∧
      rd.start = (match s.committed with | some c => c | none => if sl then s.hi else 0) := by
  simp only [gstep] at h
  cases h
  exact ⟨_, rfl, rfl, rfl, rfl⟩

/-- Each time the partition is assigned, delivery proceeds from the start position without gaps and in order: in every
reachable state every epoch has delivered exactly `start, start+1, …, pos-1` (to its member).
(For any StartOffset; any interleaving with other members' epochs, commits, revocations.) -/
theorem no_gap_per_assignment (sl : Bool) (s : G) (h : GReachable sl s) :
    ∀ rd ∈ s.readers, rd.start ≤ rd.pos ∧ rd.epoch = List.range' rd.start (rd.pos - rd.start) ∧
      ∀ r ∈ rd.epoch, (rd.m, r) ∈ s.delivered := by
  intro rd hrd
  have n := nogap_reachable sl s h
  exact ⟨(n.shape rd hrd).1, (n.shape rd hrd).2, n.mine rd hrd⟩

/-- Every stored record below an acknowledged commit was delivered to some member before — in every reachable state,
hence in particular in the state right after the acknowledgement.  Hypotheses: StartOffset = FirstOffset (`false`),
applications commit only what they were handed (guard of `commit`), gap-free delivery per epoch (`deliver`). -/
theorem delivered_before_covered (s : G) (h : GReachable false s) (c : Nat) (hc : s.committed = some c) :
    ∀ r, r < c → ∃ m, (m, r) ∈ s.delivered :=
  (ginv_reachable s h).cov c hc

/-- Once some member has caught up with the end of the log (the group is quiescent: nothing left to deliver for it),
every stored record has been delivered at least once. -/
theorem quiescent_all_delivered (s : G) (h : GReachable false s) (rd : Reader) (hrd : rd ∈ s.readers)
    (hq : s.hi ≤ rd.pos) : ∀ r, r < s.hi → ∃ m, (m, r) ∈ s.delivered :=
  fun r hr => (ginv_reachable s h).below rd hrd r (by omega)

/-- non-vacuity: two members; member 1 is rebalanced away without having committed everything, keeps reading as a
zombie, member 2 resumes at the commit (re-delivering 1), a stale commit of member 1 moves the offset backwards -/
def twoMembers : List GEv :=
  [.produce, .produce, .produce, .produce, .assign 1, .deliver 0, .deliver 0, .commit 1 1 true,
   .assign 2, .deliver 1, .deliver 0, .deliver 1, .commit 2 3 true, .commit 1 2 true, .revoke 0, .deliver 0]

example : (grun false {} twoMembers).map (fun s => (s.committed, s.delivered, s.readers.map (fun r => (r.m, r.start, r.pos))))
    = some (some 2, [(1, 0), (1, 1), (2, 1), (1, 2), (2, 2), (2, 3)], [(2, 1, 4)]) := by decide

/-- With StartOffset = LastOffset the group-level consequence is false by design: records stored before the first
member started are never delivered although a later acknowledged commit covers them. -/
theorem last_offset_counterexample :
    (grun true {} [.produce, .produce, .produce, .assign 1, .produce, .deliver 0, .commit 1 4 true]).map
      (fun s => (s.committed, s.delivered)) = some (some 4, [(1, 3)]) := by decide

/-- without the hypothesis "applications commit only what they were handed" there is no such theorem: a commit beyond
the delivered records is simply not a step of the model -/
example : grun false {} [.produce, .produce, .assign 1, .deliver 0, .commit 1 2 true] = none := by decide

end GroupHistory

/-! ## group history over a log WITH HOLES (compaction): the same statements relative to the STORED records -/
section GroupLogSection
open KV.GroupLog

/-- per assignment: every stored record between the start position and the current position was handed to the member,
only stored records were, each to this member (gap-free relative to what the partition stores) -/
theorem no_gap_per_assignment_stored (s : KV.GroupLog.G) (h : KV.GroupLog.GReachable s) (rd : KV.GroupLog.Reader)
    (hrd : rd ∈ s.readers) :
    (∀ r ∈ s.log, rd.start ≤ r → r < rd.pos → r ∈ rd.epoch) ∧
    (∀ r ∈ rd.epoch, r ∈ s.log ∧ (rd.m, r) ∈ s.delivered ∧ rd.start ≤ r ∧ r < rd.pos) :=
  ⟨(KV.GroupLog.ginv_reachable s h).noskip rd hrd, (KV.GroupLog.ginv_reachable s h).mine rd hrd⟩

/-- every STORED record below an acknowledged commit was delivered to some member before -/
theorem delivered_before_covered_stored (s : KV.GroupLog.G) (h : KV.GroupLog.GReachable s) (c : Nat)
    (hc : s.committed = some c) : ∀ r ∈ s.log, r < c → ∃ m, (m, r) ∈ s.delivered :=
  (KV.GroupLog.ginv_reachable s h).cov c hc

/-- quiescent (some member's position is past every stored offset) ⇒ every stored record was delivered -/
theorem quiescent_all_delivered_stored (s : KV.GroupLog.G) (h : KV.GroupLog.GReachable s) (rd : KV.GroupLog.Reader)
    (hrd : rd ∈ s.readers) (hq : ∀ r ∈ s.log, r < rd.pos) : ∀ r ∈ s.log, ∃ m, (m, r) ∈ s.delivered :=
  fun r hr => (KV.GroupLog.ginv_reachable s h).below rd hrd r hr (hq r hr)

/-- non-vacuity: stored offsets 0 3 4 9 (holes), two members, a rebalance, re-delivery from the commit -/
example : (KV.GroupLog.grun {} [.produce 0, .produce 3, .produce 4, .assign 1, .deliver 0, .deliver 0, .commit 1 4 true,
    .produce 9, .assign 2, .deliver 1, .deliver 1, .commit 2 10 true]).map (fun s => (s.committed, s.delivered))
    = some (some 10, [(1, 0), (1, 3), (2, 4), (2, 9)]) := by decide

end GroupLogSection

/-! ## the Reader front between the fetchers and the application (justifies the `deliver` step of the group history)

`Model/GroupFront.lean`: FetchMessage samples `r.version` BEFORE it blocks; a generation change (`subscribe`) may happen
while the call is pending.  Hypothesis: each fetcher enqueues its own records gap-free in order (C02). -/
section Front
open KV.GroupFront

/-- regenerated: FetchMessage keeps a message iff `m.version >= version` (the sampled one) — the `accept` of the model -/
theorem front_matches_source :
    KV.Gen.Group.fetchVersionFilter = ">=" ∧ ∀ tag sampled, accept false tag sampled = decide (tag ≥ sampled) := by
  refine ⟨by decide, fun tag sampled => ?_⟩
  simp [accept]

/-- For every generation (version tag) the offsets FetchMessage returned from that generation's fetcher are exactly
`start, start+1, …` — consecutive from the assignment's start position, nothing skipped — in every reachable state,
whatever the interleaving of calls, subscriptions (also while a call is pending), late enqueues of cancelled
fetchers and receives. -/
theorem front_no_gap_per_generation (s : GF) (h : FReachable false s) (t : Nat) :
    (s.out.filter (fun e => e.1 == t)).map (·.2) = List.range' (s.start t) (s.returned t) :=
  (finv_reachable s h).j4 t

/-- A record of the CURRENT generation is never discarded: if the head of the queue carries the current version, a
pending FetchMessage — whenever it sampled the version — returns it. -/
theorem current_generation_never_dropped (s : GF) (h : FReachable false s) (v o : Nat) (rest : List (Nat × Nat))
    (hs : s.sampled = some v) (hq : s.queue = (s.version, o) :: rest) :
    ∃ s', fstep false s .recv = some s' ∧ s'.out = s.out ++ [(s.version, o)] ∧ s'.sampled = none := by
  have hv := (finv_reachable s h).j1 v hs
  simp only [fstep, hs, hq, accept]
  simp [hv]

/-- In particular: a FetchMessage pending on an idle queue while the group rebalances receives the FIRST record the new
generation fetches (the one at the new assignment's start position). -/
theorem pending_fetch_gets_first_record_of_new_generation (s : GF) (h : FReachable false s) (v st : Nat)
    (hs : s.sampled = some v) (hq : s.queue = []) :
    (frun false s [.subscribe st, .enqueue (s.version + 1), .recv]).map (·.out) = some (s.out ++ [(s.version + 1, st)]) := by
  have i := finv_reachable s h
  have hv := i.j1 v hs
  have hz := (i.j6z (s.version + 1) (by omega)).1
  have hle : v ≤ s.version + 1 := by omega
  simp [frun, fstep, hs, hq, accept, upd, hz, hle]

/-- With `m.version == version` instead of `>=` (seeded change C03-m5) exactly that record is discarded: the call sampled
version 0, generation 1 subscribes at offset 5 and fetches it; the record is taken off the queue and lost. -/
theorem strict_version_filter_counterexample :
    (frun true {} [.call, .subscribe 5, .enqueue 1, .recv]).map (fun s => (s.out, s.queue, s.taken 1)) = some ([], [], 1) := by
  decide

example : (frun false {} [.call, .subscribe 5, .enqueue 1, .recv]).map (fun s => (s.out, s.queue)) = some ([(1, 5)], []) := by
  decide

end Front

/-! ## acked ON THE WIRE: what `Conn` concludes from the coordinator's response bytes

The reference encoders (`Spec/GroupWire.lean`, compared byte for byte with what the harness peer writes) composed with
the conn builder's regenerated model of the `Conn` operations (`Model/ConnOps.opRead` over the parser programs
re-extracted from offsetcommit.go / offsetfetch.go / heartbeat.go: `Gen/ConnLegacy.lean`).  Ranges: topic names
< 32 KiB, counts < 2³¹, fields within their widths. -/
section Wire
open KV.GroupResp KV.ConnOps

/-- `Conn.offsetCommit` returns nil iff every per-partition code of the OffsetCommit v2 response is 0, and otherwise the
FIRST non-zero code; the whole frame is consumed.  So a nil result of a synchronous CommitMessages (which is a nil
result of this call, `sync_commit_recorded`) means the coordinator's response acknowledged every partition. -/
theorem offsetCommit_acked_on_the_wire (ts : List (String × List (Int × Int))) (hn : ts.length < 2147483648)
    (h : ∀ t ∈ ts, t.1.toUTF8.toList.length < 32768 ∧ t.2.length < 2147483648 ∧ ∀ pc ∈ t.2, PartOK pc) (topic : Bytes) :
    opRead (simpleOp "offsetCommit" KV.Gen.ConnLegacy.offsetCommitResponseV2) 2 topic
        ⟨KV.Spec.GroupWire.offsetCommitResp ts, (KV.Spec.GroupWire.offsetCommitResp ts).length⟩ =
      ((match (ts.flatMap (fun t => t.2.map (·.2))).find? (fun k => k != 0) with
        | some k => Outcome.kafka k | none => Outcome.ok), ⟨[], 0⟩) := by
  rw [spec_offsetCommitResp]
  have := offsetCommit_conclusion (ts.map fun t => (t.1.toUTF8.toList, t.2)) (by simpa using hn)
    (by intro t ht; simp only [List.mem_map] at ht; obtain ⟨t', ht', rfl⟩ := ht; exact h t' ht') topic
  have hcodes : codesOf (ts.map fun t => (t.1.toUTF8.toList, t.2)) = ts.flatMap (fun t => t.2.map (·.2)) := by
    simp [codesOf, List.flatMap_map]
  rw [hcodes] at this
  exact this

/-- `Conn.offsetFetch`: any non-zero per-partition code of the OffsetFetch v1 response makes the call fail with the first
such code (so `fetchOffsets` fails and no generation is created: `failed_fetch_never_yields_generation`) -/
theorem offsetFetch_failure_on_the_wire (ts : List (Bytes × List FPart)) (hn : ts.length < 2147483648)
    (h : ∀ t ∈ ts, FTopicOK t) (topic : Bytes) :
    opRead (simpleOp "offsetFetch" KV.Gen.ConnLegacy.offsetFetchResponseV1) 1 topic ⟨encFResp ts, (encFResp ts).length⟩ =
      ((match (fcodesOf ts).find? (fun k => k != 0) with | some k => Outcome.kafka k | none => Outcome.ok), ⟨[], 0⟩) :=
  offsetFetch_conclusion ts hn h topic

/-- `Conn.heartbeat` / `Conn.leaveGroup`: the response's error code is the call's result -/
theorem heartbeat_error_on_the_wire (code : Int) (hc : KV.GroupWire.Fits 2 code) (topic : Bytes) :
    opRead (simpleOp "heartbeat" KV.Gen.ConnLegacy.heartbeatResponseV0) 0 topic ⟨KV.Spec.GroupWire.errOnly code, 2⟩ =
      ((if code = 0 then Outcome.ok else Outcome.kafka code), ⟨[], 0⟩) ∧
    opRead (simpleOp "leaveGroup" KV.Gen.ConnLegacy.leaveGroupResponseV0) 0 topic ⟨KV.Spec.GroupWire.errOnly code, 2⟩ =
      ((if code = 0 then Outcome.ok else Outcome.kafka code), ⟨[], 0⟩) :=
  ⟨errOnly_conclusion "heartbeat" _ rfl code hc topic, errOnly_conclusion "leaveGroup" _ rfl code hc topic⟩

/-- the requests: OffsetCommit v2 and OffsetFetch v1 as the legacy Conn writes them (writers re-extracted into
`Gen/Legacy.lean`) are the Kafka layouts, every field in its place by name (generation id, member id, retention, per
partition: partition, offset, metadata) -/
theorem commit_requests_on_the_wire :
    (∀ t, KV.Gen.Legacy.offsetCommitRequestV2.writeTo t =
      KV.Spec.GroupWire.Req.offsetCommit t.GroupID t.GenerationID t.MemberID t.RetentionTime
        (t.Topics.map fun x => (x.Topic, x.Partitions.map fun p => (p.Partition, p.Offset, p.Metadata)))) ∧
    (∀ t, KV.Gen.Legacy.offsetFetchRequestV1.writeTo t =
      KV.Spec.GroupWire.Req.offsetFetch t.GroupID (t.Topics.map fun x => (x.Topic, x.Partitions))) :=
  ⟨KV.GroupReq.offsetCommit_layout, KV.GroupReq.offsetFetch_layout⟩

/-- A refusal ANYWHERE in the answer is the call's conclusion: the per-partition codes of all topics, in the order of the
answer, with zeros before the first refusal `c ≠ 0` — the conclusion is `c`, whichever topic it belongs to (so a commit
that covers two topics is not believed when the second topic's entry is refused). -/
theorem refusal_anywhere_is_reported (pre post : List Int) (c : Int) (hpre : ∀ x ∈ pre, x = 0) (hc : c ≠ 0) :
    KV.Spec.GroupWire.firstError (pre ++ c :: post) = c ∧ KV.Spec.GroupWire.firstError pre = 0 := by
  unfold KV.Spec.GroupWire.firstError
  induction pre with
  | nil => simp [List.find?, hc]
  | cons a t ih =>
    have ha : a = 0 := hpre a (by simp)
    have ht : ∀ x ∈ t, x = 0 := fun x hx => hpre x (by simp [hx])
    subst ha
    simpa [List.find?] using ih ht

/-- regenerated (conn.go): the loops of `Conn.offsetCommit` / `Conn.offsetFetch` that look for a per-partition code run
over every topic and partition of the answer — inside them the only `return` is the one guarded by `ErrorCode != 0` -/
theorem answer_checked_for_every_topic :
    KV.Gen.Group.connAnswerLoops.all (fun x => x.2.2 == 0 && decide (0 < x.2.1)) = true ∧
    KV.Gen.Group.connAnswerLoops.map (·.1) = ["offsetCommit", "offsetFetch"] := by decide

end Wire

/-! ## the per-generation unsubscribe function of Reader.run (D8b) -/
section ReaderRunSection
open KV.ReaderRun

/-- (repaired code, /repo 88525ef) Whenever and in whatever order the per-generation unsubscribe functions run — also
late, after later generations subscribed —: the fetchers of the CURRENT generation are running unless that
generation's own function has run. -/
theorem current_fetchers_survive_late_unsubscribe (s : RR) (h : RReachable true s) (hp : 0 < s.gens)
    (hn : s.unsubRan.getD (s.gens - 1) true = false) : s.alive.getD (s.gens - 1) false = true :=
  (rinv_reachable s h).cur hp hn

/-- D8b on the original code: generation 0's function runs after generation 1 subscribed and stops generation 1's
fetchers — the member owns its partitions and fetches nothing. -/
theorem late_unsubscribe_counterexample :
    rrun false {} [.subscribe, .subscribe, .unsub 0] = some { gens := 2, alive := [false, false], unsubRan := [true, false] } := by
  decide

example : rrun true {} [.subscribe, .subscribe, .unsub 0] = some { gens := 2, alive := [false, true], unsubRan := [true, false] } := by
  decide

/-- "readers of the previous generation are stopped before rejoining": of one Reader, only the current generation's
fetchers can be running (both code variants) -/
theorem previous_generation_fetchers_stopped (cap : Bool) (s : RR) (h : RReachable cap s) (g : Nat) (hg : g + 1 < s.gens) :
    s.alive.getD g false = false :=
  (oneinv_reachable cap s h).old g hg

/-- regenerated: `Reader.unsubscribe` cancels the func it is given (the generation's own), not `r.cancel` -/
theorem unsubscribe_matches_source : KV.Gen.Group.unsubscribeCancels = "parameter" := by decide

end ReaderRunSection

/-! ## the fetcher's restart position across reconnects inside a generation (`reader.go (*reader).run`)

`for attempt … { conn, start, err := r.initialize(ctx, offset); …; offset = start; readLoop: offset, err = r.read(ctx, offset, conn) … }`:
`offset` is the function's parameter — the generation's assignment offset at first, possibly the symbolic LastOffset /
FirstOffset — and is overwritten by the resolved `start` and then by every read, so that a re-initialisation after a
fault resumes where the fetcher stands.  `shadow = true` is the variant `offset := start` (seeded change C03-m8): the
loop's copy advances, the parameter keeps the generation's start. -/
section Restart

structure FR where
  param : Int              -- the `offset` parameter of run (−1 = LastOffset)
  cur : Int := 0           -- the position the read loop works with
  delivered : List Int := []
  deriving DecidableEq, Repr

inductive FREv
  | init (logEnd : Int)    -- (re)initialise: resolve the parameter against the log
  | deliver                -- the read loop hands out the record at `cur`
  deriving Repr

def FR.step (shadow : Bool) (s : FR) : FREv → FR
  | .init logEnd =>
    let start := if s.param = -1 then logEnd else s.param
    if shadow then { s with cur := start } else { s with param := start, cur := start }
  | .deliver =>
    if shadow then { s with cur := s.cur + 1, delivered := s.delivered ++ [s.cur] }
    else { s with param := s.cur + 1, cur := s.cur + 1, delivered := s.delivered ++ [s.cur] }

def FR.run (shadow : Bool) (s : FR) : List FREv → FR
  | [] => s
  | e :: es => (s.step shadow e).run shadow es

/-- (unchanged code) once initialised at an absolute offset, after any number of deliveries the parameter equals the
loop's position, so a re-initialisation — whatever the log end is by then — resumes exactly where the fetcher stands -/
theorem restart_resumes_at_position (t : FR) (h : t.param = t.cur) (h0 : 0 ≤ t.cur) (n : Nat) (logEnd' : Int) :
    ((t.run false (List.replicate n .deliver)).step false (.init logEnd')).cur = t.cur + n := by
  induction n generalizing t with
  | zero =>
    simp [FR.run, FR.step, h]
    intro hc; omega
  | succ n ih =>
    simp only [List.replicate_succ, FR.run]
    rw [ih (t.step false .deliver) (by simp [FR.step]) (by simp [FR.step]; omega)]
    simp [FR.step]; omega

/-- C03-m8: with the shadowed variable a generation started at LastOffset re-initialises at the NEW end of the log:
records 3 (appended while the connection was down) is never delivered -/
theorem shadowed_restart_counterexample :
    (FR.run true { param := -1 } [.init 2, .deliver, .init 4, .deliver]).delivered = [2, 4] ∧
    (FR.run false { param := -1 } [.init 2, .deliver, .init 4, .deliver]).delivered = [2, 3] := by decide

/-- regenerated: the statement after `r.initialize` is a plain assignment to run's own offset parameter -/
theorem restart_matches_source : KV.Gen.Group.restartAssign = ("=", true) := by decide

end Restart

/-! ## ReadMessage = FetchMessage + synchronous CommitMessages (C03-D30, known finding) -/
section ReadMessageSection

/-- `reader.go ReadMessage`: `m := FetchMessage(); if err := CommitMessages(m); err != nil { return Message{}, err }; return m` -/
structure RM where
  next : Nat := 0                 -- next offset the front hands out (gap-free, `front_no_gap_per_generation`)
  returned : List Nat := []       -- what the application received
  committed : Option Nat := none
  deriving DecidableEq, Repr

/-- one ReadMessage call; `commitOk = false`: every retry of the commit failed with a transient error -/
def RM.read (s : RM) (commitOk : Bool) : RM :=
  if commitOk then { next := s.next + 1, returned := s.returned ++ [s.next], committed := some (s.next + 1) }
  else { s with next := s.next + 1 }   -- the message is dropped, the error returned

def RM.run (s : RM) : List Bool → RM
  | [] => s
  | b :: bs => (s.read b).run bs

/-- as long as no commit fails the application receives every record and the commit covers only received ones -/
theorem readmessage_no_gap_without_failures (n : Nat) :
    (RM.run {} (List.replicate n true)).returned = List.range n := by
  have key : ∀ (k : Nat) (s : RM), s.returned = List.range s.next →
      (RM.run s (List.replicate k true)).returned = List.range (s.next + k) := by
    intro k
    induction k with
    | zero => intro s h; simpa [RM.run] using h
    | succ k ih =>
      intro s h
      simp only [List.replicate_succ, RM.run]
      have := ih (s.read true) (by simp [RM.read, h, List.range_succ])
      simpa [RM.read, Nat.add_assoc, Nat.add_comm 1 k] using this
  simpa using key n {} rfl

/-- C03-D30: one failed commit (transient, the generation lives on) and the next ReadMessage's commit covers a record the
application never received -/
theorem readmessage_gap_counterexample :
    RM.run {} [false, true] = { next := 2, returned := [1], committed := some 2 } := by decide

end ReadMessageSection

end KV.Commit.C03
