/-
Props/C16.lean — "Compression codecs are lossless, interoperable and history-independent":
the part that is logic of kafka-go itself, i.e. the xerial framing of snappy (compress/snappy/xerial.go) and
the pool protocol, over an abstract block codec `c` with `c.dec (c.enc b) = some b`.

Proved for every payload, every split into Write calls (no bound on sizes):
  * `xerial_writer_conserves`   nothing is lost, duplicated or reordered by the writer's buffering
  * `xerial_blocks_bounded`     every flushed block is non-empty and at most 32 KiB (framed)
  * `xerial_spec_readable`      the bytes handed to the underlying writer are exactly the Spec framing
                                (header once, then length-prefixed encoded blocks) and `Spec.parse` accepts them
  * `xerial_roundtrip_partial`  decoding the blocks that the REFERENCE reader (`Spec.parse`) finds in the
                                writer's output gives back the payload
  * `xerial_unframed_single`    unframed mode emits exactly one block: `enc payload`
  * `touch_exclusive`, `put_before_reset_counterexample`, `gen_close_order`   Put is the last touch (model + extracted
                                statement order of every Close method)
  * `cfg_respected`, `shared_pool_counterexample`, `gen_pool_keys`   the pool key includes the configuration a pooled
                                object keeps (model + extracted pool ownership per NewReader/NewWriter)
  * `pool_inv`, `pool_no_sharing`, `close_idempotent`   pool protocol over all op sequences incl. repeated Close;
                                `double_close_counterexample` for a Close that keeps its object (seeded C16-m2)
  * `reset_fresh`               a recycled reader/writer starts from the same state as a new one, whatever it
                                processed before (also after a stream that ended in an error)
  * `reads_reference_streams_any_blocks`  the same without the non-emptiness of the blocks (empty blocks are skipped)
  * `reads_reference_streams`   the READER model, for ANY Read buffer sizes (each ≥ 1; the consumer reads until
                                EOF): a Spec-framed stream of encoded non-empty blocks is returned as their
                                concatenation; an unframed block (not starting with the magic) as its payload
  * `xerial_roundtrip`          writer → reader: for every non-empty payload, every split into Write calls, every
                                sequence of Read buffer sizes, framed and unframed: the payload comes back
  * `writeTo_reference_streams` (io.Copy from the reader; empty blocks allowed), `readFrom_conserves` (io.Copy into the
    writer — `xerialWriter.ReadFrom` — for every source behaviour)
  * `source_independent`, `reads_reference_streams_any_source`, `reads_reference_unframed_any_source`,
    `xerial_roundtrip_any_source`  the same for EVERY behaviour of the underlying io.Reader (short reads, (0, nil),
                                data together with io.EOF); `data_with_eof_counterexample` (seeded C16-m3)
  (the reader model is also compared with the real `xerialReader` on Read-size sequences: ops `xr`, `rt`, `in`)
gzip / lz4 / zstd: the wrappers only pool and Reset library objects: `lib_history_independent` (conditional on the
libraries' Reset contract) + the pool theorems above; the contract itself is sampled by correspondence (`hist`, `cfg`, `ovl`).
-/
import KafkaVerif.Lemmas.Xerial
import KafkaVerif.Lemmas.Pool
import KafkaVerif.Lemmas.XerialReader
import KafkaVerif.Lemmas.XerialIO
import KafkaVerif.Lemmas.XerialCut
import KafkaVerif.Lemmas.XerialRead
import KafkaVerif.Gen.XerialFacts
import KafkaVerif.Gen.RecordConsts
import KafkaVerif.Gen.CodecClose
import KafkaVerif.Gen.CodecPools
import KafkaVerif.Gen.XerialReset

namespace KV.Props.C16
open KV KV.RW KV.Model.Xerial KV.Spec.Xerial

/-- state reached by a framed writer after any list of Write calls: invariant + content -/
theorem writeAll_framed (c : Codec) (chunks : List Bytes) (w : Writer) (hf : w.framed = true) (h : WInv c w)
    (hs : w.input.length + slack ≤ blockCap) :
    let w' := writeAll c w chunks
    WInv c w' ∧ w'.framed = true ∧ w'.input.length + slack ≤ blockCap ∧ content w' = content w ++ chunks.flatten := by
  induction chunks generalizing w with
  | nil => simp [writeAll, h, hf, hs]
  | cons b bs ih =>
    have h1 := writeLoop_framed c b.length w b hf h hs (Nat.le_refl _)
    have h2 := ih (write c w b) h1.2.1 h1.1 h1.2.2.1
    simp only [writeAll]
    refine ⟨h2.1, h2.2.1, h2.2.2.1, ?_⟩
    rw [h2.2.2.2]
    have : content (write c w b) = content w ++ b := h1.2.2.2
    rw [this]; simp

/-- framed: after Close the flushed blocks concatenate to exactly what was written, in order -/
theorem xerial_writer_conserves (c : Codec) (chunks : List Bytes) :
    (close c (writeAll c (newWriter true) chunks)).blocks.flatten = chunks.flatten := by
  have h := writeAll_framed c chunks (newWriter true) rfl (winv_new c true) (by decide)
  have hc := flush_content c (writeAll c (newWriter true) chunks)
  have hi := flush_input c (writeAll c (newWriter true) chunks)
  simp only [close]
  have : content (flush c (writeAll c (newWriter true) chunks)) = chunks.flatten := by
    rw [hc, h.2.2.2]; simp [content, newWriter]
  simpa [content, hi] using this

theorem closed_inv (c : Codec) (chunks : List Bytes) : WInv c (close c (writeAll c (newWriter true) chunks)) := by
  have h := writeAll_framed c chunks (newWriter true) rfl (winv_new c true) (by decide)
  exact flush_inv c _ h.1 (fun _ => by have := h.2.2.1; simp only [slack, blockCap] at *; omega)
    (fun hf => by rw [h.2.1] at hf; exact absurd hf (by decide))

/-- framed: every block is non-empty and fits the 32 KiB buffer -/
theorem xerial_blocks_bounded (c : Codec) (chunks : List Bytes) :
    ∀ b ∈ (close c (writeAll c (newWriter true) chunks)).blocks, b ≠ [] ∧ b.length ≤ 32768 := by
  intro b hb
  have hinv := closed_inv c chunks
  have hfr : (close c (writeAll c (newWriter true) chunks)).framed = true := by
    have h := writeAll_framed c chunks (newWriter true) rfl (winv_new c true) (by decide)
    simp only [close]; rw [flush_framed]; exact h.2.1
  exact ⟨hinv.nonempty b hb, hinv.bounded hfr b hb⟩

/-- framed: the output is the Spec framing of the encoded blocks — header once, 4-byte big-endian lengths —
and the reference parser accepts it and finds exactly those blocks -/
theorem xerial_spec_readable (c : Codec) (chunks : List Bytes) (hne : chunks.flatten ≠ [])
    (henc : ∀ b, b.length ≤ 32768 → (c.enc b).length < 256 ^ 4) :
    let w := close c (writeAll c (newWriter true) chunks)
    w.out = frame (w.blocks.map c.enc) ∧ parse w.out = some (w.blocks.map c.enc) := by
  have hinv := closed_inv c chunks
  have hcons := xerial_writer_conserves c chunks
  have hfr : (close c (writeAll c (newWriter true) chunks)).framed = true := by
    have h := writeAll_framed c chunks (newWriter true) rfl (winv_new c true) (by decide)
    simp only [close]; rw [flush_framed]; exact h.2.1
  have hb : (close c (writeAll c (newWriter true) chunks)).blocks ≠ [] := by
    intro h0; rw [h0] at hcons; exact hne (by simpa using hcons.symm)
  have hout : (close c (writeAll c (newWriter true) chunks)).out
      = frame ((close c (writeAll c (newWriter true) chunks)).blocks.map c.enc) := by
    rw [hinv.out_eq, hfr]; simp [render, hb]
  refine ⟨hout, ?_⟩
  rw [hout]
  apply parse_frame
  intro b hb
  simp only [List.mem_map] at hb
  obtain ⟨x, hx, rfl⟩ := hb
  exact henc x (xerial_blocks_bounded c chunks x hx).2

def decodeAll (c : Codec) : List Bytes → Option Bytes
  | [] => some []
  | b :: bs =>
    match c.dec b, decodeAll c bs with
    | some x, some xs => some (x ++ xs)
    | _, _ => none

theorem decodeAll_map_enc (c : Codec) (hdec : ∀ b, c.dec (c.enc b) = some b) (bs : List Bytes) :
    decodeAll c (bs.map c.enc) = some bs.flatten := by
  induction bs with
  | nil => rfl
  | cons b bs ih => simp [decodeAll, hdec, ih]

/-- round trip through the REFERENCE reader: parse the writer's output with the Spec, decode each block:
the payload comes back, for every split into Write calls -/
theorem xerial_roundtrip_partial (c : Codec) (hdec : ∀ b, c.dec (c.enc b) = some b)
    (henc : ∀ b, b.length ≤ 32768 → (c.enc b).length < 256 ^ 4) (chunks : List Bytes) (hne : chunks.flatten ≠ []) :
    (parse (close c (writeAll c (newWriter true) chunks)).out).bind (decodeAll c) = some chunks.flatten := by
  have h := xerial_spec_readable c chunks hne henc
  simp only at h
  rw [h.2]
  simp only [Option.bind]
  rw [decodeAll_map_enc c hdec, xerial_writer_conserves]

/-- READER, framed reference streams: any buffer sizes ≥ 1, enough calls to reach EOF (one more than the
number of bytes always suffices, since every call returns at least one byte) -/
theorem reads_reference_streams (c : Codec) (hg : Good c) (blocks : List Bytes)
    (hne : ∀ b ∈ blocks, b ≠ [] ∧ (c.enc b).length < 256 ^ 4)
    (ks : List Nat) (hks : ∀ k ∈ ks, 1 ≤ k) (hlen : blocks.flatten.length < ks.length) :
    readAllWith c (newReader (frame (blocks.map c.enc))) ks = some blocks.flatten := by
  have hrep : Rep c (newReader (frame (blocks.map c.enc))) [] blocks :=
    Rep.startFramed _ _ rfl rfl (by simp [newReader])
  have := readAllWith_rep c hg ks _ [] blocks hks (by simpa using hlen) hne hrep
  simpa using this

/-- READER, unframed reference stream: one raw block.  Hypothesis: no extension of the block starts with the
8 magic bytes (otherwise the FORMAT cannot tell it from a framed stream; a snappy block starting 0x82 0x53 …
would have to announce a decoded length ≡ 0x2982 (mod 2^14) and continue with "NAPPY\0") -/
theorem reads_reference_unframed (c : Codec) (hg : Good c) (p : Bytes) (hp : p ≠ []) (henc : c.enc p ≠ [])
    (hsm : (c.enc p).length < 256 ^ 4)
    (hmag : ∀ t, (c.enc p ++ t).take 8 ≠ magic)
    (ks : List Nat) (hks : ∀ k ∈ ks, 1 ≤ k) (hlen : p.length < ks.length) :
    readAllWith c (newReader (c.enc p)) ks = some p := by
  have hrep : Rep c (newReader (c.enc p)) [] [p] :=
    Rep.startUnframed _ _ rfl rfl henc hmag (by simp [newReader])
  have := readAllWith_rep c hg ks _ [] [p] hks (by simpa using hlen) (by simpa using ⟨hp, hsm⟩) hrep
  simpa using this

/-! ### the underlying io.Reader as a parameter (Model/Source, Model/XerialIO)

Every behaviour io.Reader's contract allows for an error-free stream — short reads of any size, `(0, nil)` answers,
the last bytes returned TOGETHER with io.EOF — is a `script : List Ans`.  The reader with such a source
(`readAllWithIO`) returns what the script-free model returns, hence the payload. -/

open Model.Source in
/-- `io.ReadFull` and the unframed read-to-EOF loop deliver the same bytes for every script (incl. data with EOF) -/
theorem source_independent (s : Src) (want cap : Nat) (input : Bytes) (hc : 0 < cap) (hi : input.length ≤ cap) :
    (∃ sc', readFull (fuelFor s) s want [] = (s.data.take want, fullStatus want [] (s.data.take want), ⟨s.data.drop want, sc'⟩)) ∧
    (readToEOF (fuelFor s) s cap input).1 = (if input ++ s.data = [] then none else some (input ++ s.data)) := by
  refine ⟨?_, (readToEOF_spec _ s cap input (Nat.le_refl _) hc hi).1⟩
  have := readFull_spec (fuelFor s) s want [] (Nat.le_refl _)
  simpa using this

open Model.Source in
/-- framed reference streams, ANY source behaviour, any Read buffer sizes -/
theorem reads_reference_streams_any_source (c : Codec) (hg : Good c) (blocks : List Bytes)
    (hne : ∀ b ∈ blocks, b ≠ [] ∧ (c.enc b).length < 256 ^ 4) (script : List Ans)
    (ks : List Nat) (hks : ∀ k ∈ ks, 1 ≤ k) (hlen : blocks.flatten.length < ks.length) :
    readAllWithIO c ⟨newReader (frame (blocks.map c.enc)), script⟩ ks = some blocks.flatten := by
  rw [readAllWithIO_refines]; exact reads_reference_streams c hg blocks hne ks hks hlen

open Model.Source in
/-- unframed reference stream, ANY source behaviour (in particular: the last bytes arriving with io.EOF) -/
theorem reads_reference_unframed_any_source (c : Codec) (hg : Good c) (p : Bytes) (hp : p ≠ []) (henc : c.enc p ≠ [])
    (hsm : (c.enc p).length < 256 ^ 4) (hmag : ∀ t, (c.enc p ++ t).take 8 ≠ magic) (script : List Ans)
    (ks : List Nat) (hks : ∀ k ∈ ks, 1 ≤ k) (hlen : p.length < ks.length) :
    readAllWithIO c ⟨newReader (c.enc p), script⟩ ks = some p := by
  rw [readAllWithIO_refines]; exact reads_reference_unframed c hg p hp henc hsm hmag ks hks hlen

open Model.Source in
/-- the seeded defect C16-m3 (input extended only after the error check): when the source returns its last bytes
together with io.EOF they are dropped — the stream looks empty; the loop as coded keeps them -/
theorem data_with_eof_counterexample :
    (readToEOFLate 5 ⟨[1, 2, 3], [⟨3, true⟩]⟩ 32768 []).1 = none ∧
    (readToEOF 5 ⟨[1, 2, 3], [⟨3, true⟩]⟩ 32768 []).1 = some [1, 2, 3] ∧
    (readToEOFLate 5 ⟨[1, 2, 3], [⟨2, false⟩, ⟨5, true⟩]⟩ 32768 []).1 = some [1, 2] := by decide

/-- `(*xerialReader).WriteTo` (the io.Copy path): every framed reference stream — blocks may be EMPTY — is written
out as the concatenation of its blocks -/
theorem writeTo_reference_streams (c : Codec) (hg : Good c) (blocks : List Bytes)
    (hsm : ∀ b ∈ blocks, (c.enc b).length < 256 ^ 4) :
    writeTo c (blocks.length + 1) (newReader (frame (blocks.map c.enc))) = some blocks.flatten := by
  have hrep : Rep c (newReader (frame (blocks.map c.enc))) [] blocks :=
    Rep.startFramed _ _ rfl rfl (by simp [newReader])
  have := writeTo_rep c hg blocks (blocks.length + 1) _ [] (by omega) hsm hrep
  simpa using this

open Model.Source in
/-- `(*xerialWriter).ReadFrom` (the io.Copy path of the record encoder for keys and values), framed: whatever the
source's behaviour (short reads, (0, nil), data with io.EOF), after ReadFrom and Close the flushed blocks concatenate
to what was written before followed by everything the source held; blocks stay non-empty and ≤ 32 KiB and the output
stays the Spec framing (the invariant `WInv`) -/
theorem readFrom_conserves (c : Codec) (chunks : List Bytes) (s : Src) :
    let w := close c (readFromLoop c (fuelFor s) (writeAll c (newWriter true) chunks) s).1
    w.blocks.flatten = chunks.flatten ++ s.data ∧ WInv c w ∧
    (∀ b ∈ w.blocks, b ≠ [] ∧ b.length ≤ 32768) := by
  have h0 := writeAll_framed c chunks (newWriter true) rfl (winv_new c true) (by decide)
  have h1 := readFromLoop_spec c (fuelFor s) _ s h0.2.1 h0.1 h0.2.2.1 (Nat.le_refl _)
  simp only at h1
  have hc := flush_content c (readFromLoop c (fuelFor s) (writeAll c (newWriter true) chunks) s).1
  have hi := flush_input c (readFromLoop c (fuelFor s) (writeAll c (newWriter true) chunks) s).1
  have hinv : WInv c (flush c (readFromLoop c (fuelFor s) (writeAll c (newWriter true) chunks) s).1) :=
    flush_inv c _ h1.1 (fun _ => by have := h1.2.2.1; simp only [slack, blockCap] at *; omega)
      (fun hf => by rw [h1.2.1] at hf; exact absurd hf (by decide))
  have hfr : (flush c (readFromLoop c (fuelFor s) (writeAll c (newWriter true) chunks) s).1).framed = true := by
    rw [flush_framed]; exact h1.2.1
  refine ⟨?_, hinv, fun b hb => ⟨hinv.nonempty b hb, hinv.bounded hfr b hb⟩⟩
  have : content (flush c (readFromLoop c (fuelFor s) (writeAll c (newWriter true) chunks) s).1)
      = chunks.flatten ++ s.data := by
    rw [hc, h1.2.2.2, h0.2.2.2]; simp [content, newWriter]
  simpa [close, content, hi] using this

/-- READER, framed reference streams with ANY blocks — also empty ones, which `Read` skips by going on to the next
chunk — and any buffer sizes ≥ 1 -/
theorem reads_reference_streams_any_blocks (c : Codec) (hg : Good c) (blocks : List Bytes)
    (hsm : ∀ b ∈ blocks, (c.enc b).length < 256 ^ 4)
    (ks : List Nat) (hks : ∀ k ∈ ks, 1 ≤ k) (hlen : blocks.flatten.length < ks.length) :
    readAllWith c (newReader (frame (blocks.map c.enc))) ks = some blocks.flatten := by
  have hrep : Rep c (newReader (frame (blocks.map c.enc))) [] blocks :=
    Rep.startFramed _ _ rfl rfl (by simp [newReader])
  have := readAllWith_rep_any c hg ks _ [] blocks hks (by simpa using hlen) hsm hrep
  simpa using this

/-- **streams that end early** (the source is cut, or fails, anywhere after the 16-byte header): whatever buffer sizes
the consumer uses, everything the reader hands out before it reports the end or an error is a PREFIX of the payload —
never other data.  (`readAllOut`: the bytes delivered until the first non-data answer.)  Proved by simulation
(`Lemmas/XerialCut`): on `rest` and on `rest ++ t` the framed reader makes the same data steps. -/
theorem truncated_stream_prefix (c : Codec) (hg : Good c) (blocks : List Bytes)
    (hsm : ∀ b ∈ blocks, (c.enc b).length < 256 ^ 4)
    (ks : List Nat) (hks : ∀ k ∈ ks, 1 ≤ k) (hlen : blocks.flatten.length < ks.length) (n : Nat) (hn : 16 ≤ n) :
    readAllOut c (newReader ((frame (blocks.map c.enc)).take n)) ks <+: blocks.flatten := by
  have hl : 16 ≤ (frame (blocks.map c.enc)).length := by
    simp only [frame, List.length_append]
    have : Spec.Xerial.header.length = 16 := by decide
    omega
  have hfr : Framed (newReader ((frame (blocks.map c.enc)).take n)) := by
    refine .inl ⟨rfl, ?_, ?_⟩
    · simp only [newReader, List.length_take]; omega
    · simp only [newReader, List.take_take]
      rw [show min 8 n = 8 from by omega]
      exact header_take8 _
  have hp := readAllOut_prefix c ((frame (blocks.map c.enc)).drop n) ks _ hfr
  have he : ext (newReader ((frame (blocks.map c.enc)).take n)) ((frame (blocks.map c.enc)).drop n) =
      newReader (frame (blocks.map c.enc)) := by
    simp only [ext, newReader, List.take_append_drop]
  rw [he, readAllOut_of_readAllWith c ks _ _ (reads_reference_streams_any_blocks c hg blocks hsm ks hks hlen)] at hp
  exact hp

open Model.Source in
/-- the same for EVERY behaviour of the underlying io.Reader while it delivers the `n` bytes it has -/
theorem truncated_stream_prefix_any_source (c : Codec) (hg : Good c) (blocks : List Bytes)
    (hsm : ∀ b ∈ blocks, (c.enc b).length < 256 ^ 4) (script : List Ans)
    (ks : List Nat) (hks : ∀ k ∈ ks, 1 ≤ k) (hlen : blocks.flatten.length < ks.length) (n : Nat) (hn : 16 ≤ n) :
    readAllOutIO c ⟨newReader ((frame (blocks.map c.enc)).take n), script⟩ ks <+: blocks.flatten := by
  rw [readAllOutIO_refines]; exact truncated_stream_prefix c hg blocks hsm ks hks hlen n hn

/-! ### Read buffers that are a prefix of a larger array (`len(p) < cap(p)`), and the block encoders per option (round 6) -/

/-- **io.Reader contract of `xerialReader.Read`, for every buffer length and capacity**: whatever the stream, the state of
the reader and the block codec (as long as its `DecodedLen` is truthful), a data answer of `Read(p)` has at most `len(p)`
bytes — also when `cap(p)` is larger (`buf[:n]`, io.LimitedReader, scratch arrays).  The comparison that decides the
decode-into-the-caller's-buffer shortcut is read off `readChunk` by go/ast (Gen/XerialFacts.directDecodeBound = `len`):
with `cap(dst)` (seeded C16-m7) `directBound_len` and this theorem break. -/
theorem read_contract (c : Codec) (ht : Truthful c) (fuel : Nat) (r r' : Reader) (len cap : Nat) (d : Bytes)
    (h : readBuf c fuel r len cap = (r', .data d)) : d.length ≤ len := by
  unfold readBuf at h
  rw [directBound_len] at h
  rcases readB_le c ht fuel r r' len len d h with h1 | h1 <;> exact h1

/-- and the capacity plays no role at all: `Read` into a buffer of length `len` and any capacity is the `read` of the
other theorems (`reads_reference_streams_any_blocks`, `xerial_roundtrip`, `truncated_stream_prefix`, …: "every partition of
the output into Read buffer sizes" includes buffers with spare capacity) -/
theorem readBuf_eq_read (c : Codec) (fuel : Nat) (r : Reader) (len cap : Nat) :
    readBuf c fuel r len cap = read c fuel r len := by
  unfold readBuf; rw [directBound_len, readB_eq_read]

/-- the C16-m7 shape: deciding by the capacity, a 3-byte block is "handed out" into a buffer of length 1 -/
theorem cap_bound_counterexample :
    ∃ r' d, readB ⟨id, some, fun b => some b.length⟩ 3 (newReader (Spec.Xerial.frame [[7, 8, 9]])) 1 4 = (r', .data d) ∧
      d.length = 3 := by
  refine ⟨_, _, rfl, rfl⟩

/-- the block encoder installed for every value of the `Compression` option (go/ast on `Codec.NewWriter`, every run) is one
of the functions that emit the SNAPPY block format — `snappy.Encode`, `s2.EncodeSnappy`, `s2.EncodeSnappyBetter`,
`s2.EncodeSnappyBest` (klauspost/compress documents these as compatible with the reference decoder; `s2.Encode`,
`s2.EncodeBetter`, `s2.EncodeBest` emit the S2 extension, which golang/snappy and snappy-java reject: seeded C16-m8).  The
block codec of the model (`Good c`) stands for exactly such an encoder; interoperability of its output is sampled per
option by the ops `out` / `cfg` with the reference decoder. -/
theorem gen_snappy_encoders :
    (∀ e ∈ Gen.XerialFacts.snappyEncoders,
      e.2 ∈ ["snappy.Encode", "s2.EncodeSnappy", "s2.EncodeSnappyBetter", "s2.EncodeSnappyBest"]) ∧
    Gen.XerialFacts.snappyEncoders.map (·.1) = ["FasterCompression", "BetterCompression", "BestCompression", "default"] ∧
    Gen.XerialFacts.copyBound = ["param"] := by decide

/-- **Read, then io.Copy** (round 7): a consumer may read a few buffers (any sizes ≥ 1) and then hand the reader to
`io.Copy`, which calls `WriteTo` because the codec reader exposes it.  On every framed reference stream the bytes the Reads
returned followed by what WriteTo wrote are the payload, each byte once: the rest of a block that a short Read left pending
is written from `output[offset:]` (seeded C16-m9 writes `output` from its start: the consumed prefix would come twice). -/
theorem read_then_writeTo (c : Codec) (hg : Good c) (blocks : List Bytes)
    (hsm : ∀ b ∈ blocks, (c.enc b).length < 256 ^ 4) (ks : List Nat) (hks : ∀ k ∈ ks, 1 ≤ k) :
    readsThenWriteTo c (newReader (frame (blocks.map c.enc))) ks = some blocks.flatten := by
  have hrep : Rep c (newReader (frame (blocks.map c.enc))) [] blocks :=
    Rep.startFramed _ _ rfl rfl (by simp [newReader])
  have := readsThenWriteTo_rep c hg ks _ [] blocks hks hsm hrep
  simpa using this

/-- FULL round trip, framed: every non-empty payload, every split into Write calls, every sequence of Read
buffer sizes: what the reader returns is the payload -/
theorem xerial_roundtrip (c : Codec) (hg : Good c) (henc : ∀ b, b.length ≤ 32768 → (c.enc b).length < 256 ^ 4)
    (chunks : List Bytes) (hne : chunks.flatten ≠ [])
    (ks : List Nat) (hks : ∀ k ∈ ks, 1 ≤ k) (hlen : chunks.flatten.length < ks.length) :
    readAllWith c (newReader (close c (writeAll c (newWriter true) chunks)).out) ks = some chunks.flatten := by
  have h := xerial_spec_readable c chunks hne henc
  simp only at h
  rw [h.1]
  have hb := xerial_blocks_bounded c chunks
  have hc := xerial_writer_conserves c chunks
  have := reads_reference_streams c hg _ (fun b hb' => ⟨(hb b hb').1, henc b (hb b hb').2⟩) ks hks (by rw [hc]; exact hlen)
  rw [this, hc]

/-- unframed writes only accumulate; Close emits one block holding everything -/
theorem writeAll_unframed (c : Codec) (chunks : List Bytes) (w : Writer) (hf : w.framed = false) :
    writeAll c w chunks = { w with input := w.input ++ chunks.flatten } := by
  induction chunks generalizing w with
  | nil => simp [writeAll]
  | cons b bs ih =>
    have hw : write c w b = { w with input := w.input ++ b } := by
      unfold write
      cases hb : b with
      | nil => simp [writeLoop]
      | cons x xs => simp [writeLoop, hf]
    simp only [writeAll]
    rw [hw, ih _ (by simpa using hf)]
    simp

theorem xerial_unframed_single (c : Codec) (chunks : List Bytes) (hne : chunks.flatten ≠ []) :
    (close c (writeAll c (newWriter false) chunks)).out = c.enc chunks.flatten := by
  rw [writeAll_unframed c chunks _ rfl]
  simp [close, flush, newWriter, hne]

open Model.Source in
/-- FULL round trip with ANY source behaviour between writer and reader -/
theorem xerial_roundtrip_any_source (c : Codec) (hg : Good c) (henc : ∀ b, b.length ≤ 32768 → (c.enc b).length < 256 ^ 4)
    (chunks : List Bytes) (hne : chunks.flatten ≠ []) (script : List Ans)
    (ks : List Nat) (hks : ∀ k ∈ ks, 1 ≤ k) (hlen : chunks.flatten.length < ks.length) :
    readAllWithIO c ⟨newReader (close c (writeAll c (newWriter true) chunks)).out, script⟩ ks = some chunks.flatten := by
  rw [readAllWithIO_refines]; exact xerial_roundtrip c hg henc chunks hne ks hks hlen

/-- FULL round trip, unframed -/
theorem xerial_roundtrip_unframed (c : Codec) (hg : Good c) (chunks : List Bytes) (hne : chunks.flatten ≠ [])
    (henc : c.enc chunks.flatten ≠ []) (hsm : (c.enc chunks.flatten).length < 256 ^ 4) (hmag : ∀ t, (c.enc chunks.flatten ++ t).take 8 ≠ magic)
    (ks : List Nat) (hks : ∀ k ∈ ks, 1 ≤ k) (hlen : chunks.flatten.length < ks.length) :
    readAllWith c (newReader (close c (writeAll c (newWriter false) chunks)).out) ks = some chunks.flatten := by
  rw [xerial_unframed_single c chunks hne]
  exact reads_reference_unframed c hg _ hne henc hsm hmag ks hks hlen

/-- pool protocol: `NewReader`/`NewWriter` = Get + Reset, `Close` = Flush + Reset(nil) + Put.  Whatever state
the recycled object was left in (mid-stream, after an error, after EOF), Reset gives the state of a new one. -/
theorem reset_fresh (s : Bytes) (framed : Bool) (r : Reader) (w : Writer) :
    resetReader s r = newReader s ∧ resetWriter framed w = newWriter framed := ⟨rfl, rfl⟩

/-- the premise of `reset_fresh` — the model's `resetReader` / `resetWriter` forget the WHOLE previous state — read off the
source on every run (go/ast, `go/extract resetfields` → Gen/XerialReset): every field of `xerialReader` / `xerialWriter`
that some method may change (assigned, or handed to a call as a slice) is assigned by `Reset`, or by `Codec.NewReader` /
`NewWriter` after the pool Get on every path (`framed`, `encode`: the pool is shared by all snappy Codec values), or is
scratch that is always filled right before it is used (the writer's `header`).  A Reset that stops clearing a field,
or a new mutable field that Reset does not know, breaks this theorem. -/
theorem gen_reset_complete :
    (∀ f ∈ Gen.XerialReset.readerMutated, f ∈ Gen.XerialReset.readerReset ∨ f ∈ Gen.XerialReset.readerCtor ∨
      f ∈ Gen.XerialReset.readerScratch) ∧
    (∀ f ∈ Gen.XerialReset.writerMutated, f ∈ Gen.XerialReset.writerReset ∨ f ∈ Gen.XerialReset.writerCtor ∨
      f ∈ Gen.XerialReset.writerScratch) ∧
    (∀ f ∈ Gen.XerialReset.readerMutated, f ∈ Gen.XerialReset.readerFields) ∧
    (∀ f ∈ Gen.XerialReset.writerMutated, f ∈ Gen.XerialReset.writerFields) := by decide

/-- the model's block capacity and flush threshold are the constants in compress/snappy/xerial.go now
(regenerated by `go/extract records` on every run) -/
theorem gen_xerial_consts :
    blockCap = Gen.RecordConsts.xerialBlockSize ∧ slack = Gen.RecordConsts.xerialSlack := ⟨rfl, rfl⟩

/-! ## pool protocol (all codecs): acquire → Reset → use → Close (idempotent) → Put -/

open Model.Pool in
/-- after EVERY sequence of NewReader/NewWriter, Close (also repeated Close of the same wrapper) and pool drops:
no object is in the pool twice, none is in the pool while a live wrapper uses it, none is used by two wrappers -/
theorem pool_inv (es : List PEv) (s : PState) (hf : faithful es = true) (h : run Model.Pool.init es = some s) : Inv s :=
  (inv_run es _ s hf ⟨inv_init, rfl⟩ h).1

open Model.Pool in
/-- two writers/readers that are open at the same time never share an object; the pool holds no duplicates and
nothing that is in use -/
theorem pool_no_sharing (es : List PEv) (s : PState) (hf : faithful es = true) (h : run Model.Pool.init es = some s) :
    (live s).Nodup ∧ s.pool.Nodup ∧ ∀ x ∈ s.pool, x ∉ live s := by
  have hi := pool_inv es s hf h
  refine ⟨List.nodup_iff_count.mpr fun x => ?_, List.nodup_iff_count.mpr fun x => ?_, fun x hx hl => ?_⟩
  · have := (hi x).1; unfold occ at this; omega
  · have := (hi x).1; unfold occ at this; omega
  · have := (hi x).1
    have h1 : 0 < s.pool.count x := List.count_pos_iff.mpr hx
    have h2 : 0 < (live s).count x := List.count_pos_iff.mpr hl
    unfold occ at this; omega

open Model.Pool in
/-- "Put is the LAST touch": in every run of the protocol as coded, whenever a wrapper touches its object
(Read / Write / Reset), that object is not in the pool, no other wrapper holds it, and nobody holds a dangling
reference to anything — so no use of an object after its Put exists on any path -/
theorem touch_exclusive (es : List PEv) (s : PState) (hf : faithful es = true) (h : run Model.Pool.init es = some s)
    (hd : Nat) (x : Nat) (hx : s.handles[hd]? = some (some x)) :
    step s (.touch hd) = some s ∧ x ∉ s.pool ∧ (live s).count x = 1 ∧ s.dangling = [] := by
  have hi := inv_run es _ s hf ⟨inv_init, rfl⟩ h
  have hmem : x ∈ live s := by
    simp only [live, List.mem_filterMap, id]
    exact ⟨some x, List.mem_of_getElem? hx, rfl⟩
  have hpos : 0 < (live s).count x := List.count_pos_iff.mpr hmem
  have hocc := (hi.1 x).1
  unfold occ at hocc
  refine ⟨by simp [step, hx], ?_, by omega, hi.2⟩
  intro hp
  have : 0 < s.pool.count x := List.count_pos_iff.mpr hp
  omega

open Model.Pool in
/-- the seeded defect C16-m4 (Put before Reset): after the closer's Put another reader is handed the object, and the
closer's late Reset — a touch through its dangling reference — lands on an object that is in use -/
theorem put_before_reset_counterexample :
    ∃ s, run Model.Pool.init [.acquire none, .putKeep 0, .acquire (some 0), .touchDangling 0] = some s
      ∧ 0 ∈ s.dangling ∧ 0 ∈ live s := by
  refine ⟨_, rfl, ?_, ?_⟩ <;> decide

/-- extracted on every run from compress/{gzip,snappy,lz4,zstd}: in every Close method of a pooled wrapper the
Put is the last statement touching the object, the wrapper forgets the object, and a Reset precedes the Put —
what makes `close` an atomic, idempotent event of the protocol model above -/
theorem gen_close_order :
    Gen.CodecClose.closeFacts.length = 8 ∧
    Gen.CodecClose.closeFacts.all (fun f => f.2.1 && f.2.2.1 && f.2.2.2) = true := by decide

open Model.CfgPool in
/-- pools and configuration: when every pool either belongs to one configuration (the pool key includes the options a
pooled object keeps) or its users re-apply their options after Get, then after EVERY sequence of acquisitions (from
the pool or fresh) and Closes, every live wrapper works with an object configured exactly as requested — whatever
other configurations of the same codec kind were used before -/
theorem cfg_respected (rp : Nat → Bool) (es : List Ev) (s : St) (hp : policy rp es = true)
    (h : run Model.CfgPool.init es = some s) : ∀ hd ∈ s.handles, hd.obj.baked = hd.cfg :=
  fun hd hm => ((Model.CfgPool.inv_run rp es _ s hp (Model.CfgPool.inv_init rp) h).1 hd hm).1

open Model.CfgPool in
/-- the seeded defect C16-m5 (one package-level pool for writers that keep their construction level): a BestSpeed
wrapper is handed the writer a BestCompression wrapper put back -/
theorem shared_pool_counterexample :
    ∃ s hd, run Model.CfgPool.init [.acquire 0 9 true false, .close 0, .acquire 0 1 true false] = some s
      ∧ hd ∈ s.handles ∧ hd.cfg = 1 ∧ hd.obj.baked = 9 := by
  refine ⟨_, ⟨0, 1, ⟨0, 9⟩⟩, rfl, ?_, rfl, rfl⟩
  decide

/-- extracted on every run from NewReader / NewWriter of the 4 pooled codecs: whenever a new object is constructed
from the Codec value's options (gzip level, zstd level), the pool is a field of that Codec value, or the options
are assigned again after Get (snappy framing / encoder): the premise `policy` of `cfg_respected` -/
theorem gen_pool_keys :
    Gen.CodecPools.poolFacts.length = 8 ∧
    Gen.CodecPools.poolFacts.all (fun f => !f.2.2.1 || f.2.1 || f.2.2.2) = true := by decide

open Model.LibWrapper in
/-- gzip / lz4 / zstd wrappers (pool + Reset of a library object): GIVEN the library's Reset contract, the result of a
stream processed through a recycled object equals the result through a new object of the same configuration, for
every history of earlier streams (including failed ones — a failure is just a result) -/
theorem lib_history_independent {σ ι ω : Type} (L : Lib σ ι ω) (cfgOf : σ → Nat) (h : ResetContract L cfgOf)
    (c : Nat) (history : List ι) (i : ι) :
    (L.run (L.reset (after L (L.fresh c) history)) i).1 = (L.run (L.fresh c) i).1 := by
  rw [h.reset_fresh, cfg_after L cfgOf h, h.cfg_fresh]

open Model.LibWrapper in
/-- the contract is satisfiable: an object that remembers how many streams it saw but does not let it show -/
example : ResetContract (σ := Nat × Nat) (ι := Nat) (ω := Nat)
    ⟨fun c => (c, 0), fun s => s, fun s i => (s.1 + i, (s.1, s.2 + 1))⟩ (fun s => s.1) :=
  ⟨fun _ => rfl, fun _ => rfl, fun _ _ => rfl, fun _ _ => rfl⟩

open Model.Pool in
/-- `Close` is idempotent: closing a wrapper again changes nothing -/
theorem close_idempotent (s s1 : PState) (h : Nat) (h1 : step s (.close h) = some s1) :
    step s1 (.close h) = some s1 := by
  simp only [step] at h1 ⊢
  cases hg : s.handles[h]? with
  | none => simp [hg] at h1
  | some o =>
    cases o with
    | none => simp only [hg, Option.some.injEq] at h1; subst h1; simp [hg]
    | some x =>
      simp only [hg, Option.some.injEq] at h1; subst h1
      have hlt : h < s.handles.length := by
        cases Nat.lt_or_ge h s.handles.length with
        | inl a => exact a
        | inr b => simp [List.getElem?_eq_none b] at hg
      have : (s.handles.set h none)[h]? = some none := by simp [List.getElem?_set, hlt]
      simp only [this]

open Model.Pool in
/-- the seeded defect C16-m2: a Close that does not forget its object makes a second Close put the object into
the pool twice; two writers opened next share it -/
theorem double_close_counterexample :
    ∃ s, run Model.Pool.init [.acquire none, .closeKeep 0, .closeKeep 0, .acquire (some 0), .acquire (some 0)] = some s
      ∧ ¬ (live s).Nodup := by
  refine ⟨_, rfl, ?_⟩
  decide

open Model.Pool in
example : ∃ s, run Model.Pool.init [.acquire none, .close 0, .close 0, .acquire (some 0), .acquire none] = some s
    ∧ (live s).Nodup := ⟨_, rfl, by decide⟩

/-! hypotheses are satisfiable (identity block codec), and the reader model on concrete reference streams -/

def idCodec : Codec := ⟨id, some, fun b => some b.length⟩

example : Good idCodec := ⟨fun _ => rfl, fun _ => rfl⟩
example : ∀ b : Bytes, b.length ≤ 32768 → (idCodec.enc b).length < 256 ^ 4 := fun b h => by
  show b.length < 256 ^ 4
  omega

example : drain idCodec 5 (newReader (frame [[1, 2], [3]])) = some [1, 2, 3] := by decide
example : drain idCodec 5 (newReader [9, 8, 7]) = some [9, 8, 7] := by decide
example : readSizes idCodec (newReader (frame [[1, 2, 3], [4]])) [2, 2, 2, 2] = [2, 1, 1, 0] := by decide

end KV.Props.C16
