/-
Props/C16.lean — "Compression codecs are lossless, interoperable and history-independent":
the part that is logic of kafka-go itself, i.e. the xerial framing of snappy (compress/snappy/xerial.go) and
the pool protocol, over an abstract block codec `c` with `c.dec (c.enc b) = some b`.

Proved for every payload, every split into Write calls (no bound on sizes):
  * `xerial_writer_conserves`   nothing is lost, duplicated or reordered by the writer's buffering
  * `xerial_blocks_bounded`     every flushed block is non-empty and at most 32 KiB (framed)
  * `xerial_spec_readable`      the bytes handed to the underlying writer are exactly the Spec framing
                                (header once, then length-prefixed encoded blocks) and `Spec.parse` accepts them
  * `xerial_roundtrip_partial`  decoding the blocks that the REFERENCE reader (`Spec.parse`) finds in the
                                writer's output gives back the payload
  * `xerial_unframed_single`    unframed mode emits exactly one block: `enc payload`
  * `pool_inv`, `pool_no_sharing`, `close_idempotent`   pool protocol over all op sequences incl. repeated Close;
                                `double_close_counterexample` for a Close that keeps its object (seeded C16-m2)
  * `reset_fresh`               a recycled reader/writer starts from the same state as a new one, whatever it
                                processed before (also after a stream that ended in an error)
Partial (kept as comment, checked by correspondence `xr`/`rt`/`in` against the real reader):

  theorem xerial_roundtrip : ∀ payload ≠ [], ∀ split chunks of payload, ∀ read buffer sizes ks (all ≥ 1),
      the bytes returned by the reader model's `read` calls on (writer output) concatenate to payload
  theorem reads_reference_streams : ∀ blocks, (∀ b, dec (enc b) = some b) →
      drain (newReader (Spec.frame (blocks.map enc))) = some blocks.flatten
      ∧ (enc p does not start with the magic → drain (newReader (enc p)) = some p)

  The reader model is executable and is compared with the real `xerialReader` on the Read-size sequences for
  random buffer sizes (`xr`), see the concrete `example`s below for the model itself.
gzip / lz4 / zstd: the wrappers only pool and Reset library objects — correspondence only.
-/
import KafkaVerif.Lemmas.Xerial
import KafkaVerif.Lemmas.Pool
import KafkaVerif.Gen.RecordConsts

namespace KV.Props.C16
open KV KV.RW KV.Model.Xerial KV.Spec.Xerial

/-- state reached by a framed writer after any list of Write calls: invariant + content -/
theorem writeAll_framed (c : Codec) (chunks : List Bytes) (w : Writer) (hf : w.framed = true) (h : WInv c w)
    (hs : w.input.length + slack ≤ blockCap) :
    let w' := writeAll c w chunks
    WInv c w' ∧ w'.framed = true ∧ w'.input.length + slack ≤ blockCap ∧ content w' = content w ++ chunks.flatten := by
  induction chunks generalizing w with
  | nil => simp [writeAll, h, hf, hs]
  | cons b bs ih =>
    have h1 := writeLoop_framed c b.length w b hf h hs (Nat.le_refl _)
    have h2 := ih (write c w b) h1.2.1 h1.1 h1.2.2.1
    simp only [writeAll]
    refine ⟨h2.1, h2.2.1, h2.2.2.1, ?_⟩
    rw [h2.2.2.2]
    have : content (write c w b) = content w ++ b := h1.2.2.2
    rw [this]; simp

/-- framed: after Close the flushed blocks concatenate to exactly what was written, in order -/
theorem xerial_writer_conserves (c : Codec) (chunks : List Bytes) :
    (close c (writeAll c (newWriter true) chunks)).blocks.flatten = chunks.flatten := by
  have h := writeAll_framed c chunks (newWriter true) rfl (winv_new c true) (by decide)
  have hc := flush_content c (writeAll c (newWriter true) chunks)
  have hi := flush_input c (writeAll c (newWriter true) chunks)
  simp only [close]
  have : content (flush c (writeAll c (newWriter true) chunks)) = chunks.flatten := by
    rw [hc, h.2.2.2]; simp [content, newWriter]
  simpa [content, hi] using this

theorem closed_inv (c : Codec) (chunks : List Bytes) : WInv c (close c (writeAll c (newWriter true) chunks)) := by
  have h := writeAll_framed c chunks (newWriter true) rfl (winv_new c true) (by decide)
  exact flush_inv c _ h.1 (fun _ => by have := h.2.2.1; simp only [slack, blockCap] at *; omega)
    (fun hf => by rw [h.2.1] at hf; exact absurd hf (by decide))

/-- framed: every block is non-empty and fits the 32 KiB buffer -/
theorem xerial_blocks_bounded (c : Codec) (chunks : List Bytes) :
    ∀ b ∈ (close c (writeAll c (newWriter true) chunks)).blocks, b ≠ [] ∧ b.length ≤ 32768 := by
  intro b hb
  have hinv := closed_inv c chunks
  have hfr : (close c (writeAll c (newWriter true) chunks)).framed = true := by
    have h := writeAll_framed c chunks (newWriter true) rfl (winv_new c true) (by decide)
    simp only [close]; rw [flush_framed]; exact h.2.1
  exact ⟨hinv.nonempty b hb, hinv.bounded hfr b hb⟩

/-- framed: the output is the Spec framing of the encoded blocks — header once, 4-byte big-endian lengths —
and the reference parser accepts it and finds exactly those blocks -/
theorem xerial_spec_readable (c : Codec) (chunks : List Bytes) (hne : chunks.flatten ≠ [])
    (henc : ∀ b, (c.enc b).length < 256 ^ 4) :
    let w := close c (writeAll c (newWriter true) chunks)
    w.out = frame (w.blocks.map c.enc) ∧ parse w.out = some (w.blocks.map c.enc) := by
  have hinv := closed_inv c chunks
  have hcons := xerial_writer_conserves c chunks
  have hfr : (close c (writeAll c (newWriter true) chunks)).framed = true := by
    have h := writeAll_framed c chunks (newWriter true) rfl (winv_new c true) (by decide)
    simp only [close]; rw [flush_framed]; exact h.2.1
  have hb : (close c (writeAll c (newWriter true) chunks)).blocks ≠ [] := by
    intro h0; rw [h0] at hcons; exact hne (by simpa using hcons.symm)
  have hout : (close c (writeAll c (newWriter true) chunks)).out
      = frame ((close c (writeAll c (newWriter true) chunks)).blocks.map c.enc) := by
    rw [hinv.out_eq, hfr]; simp [render, hb]
  refine ⟨hout, ?_⟩
  rw [hout]
  apply parse_frame
  intro b hb
  simp only [List.mem_map] at hb
  obtain ⟨x, _, rfl⟩ := hb
  exact henc x

def decodeAll (c : Codec) : List Bytes → Option Bytes
  | [] => some []
  | b :: bs =>
    match c.dec b, decodeAll c bs with
    | some x, some xs => some (x ++ xs)
    | _, _ => none

theorem decodeAll_map_enc (c : Codec) (hdec : ∀ b, c.dec (c.enc b) = some b) (bs : List Bytes) :
    decodeAll c (bs.map c.enc) = some bs.flatten := by
  induction bs with
  | nil => rfl
  | cons b bs ih => simp [decodeAll, hdec, ih]

/-- round trip through the REFERENCE reader: parse the writer's output with the Spec, decode each block:
the payload comes back, for every split into Write calls -/
theorem xerial_roundtrip_partial (c : Codec) (hdec : ∀ b, c.dec (c.enc b) = some b)
    (henc : ∀ b, (c.enc b).length < 256 ^ 4) (chunks : List Bytes) (hne : chunks.flatten ≠ []) :
    (parse (close c (writeAll c (newWriter true) chunks)).out).bind (decodeAll c) = some chunks.flatten := by
  have h := xerial_spec_readable c chunks hne henc
  simp only at h
  rw [h.2]
  simp only [Option.bind]
  rw [decodeAll_map_enc c hdec, xerial_writer_conserves]

/-- unframed writes only accumulate; Close emits one block holding everything -/
theorem writeAll_unframed (c : Codec) (chunks : List Bytes) (w : Writer) (hf : w.framed = false) :
    writeAll c w chunks = { w with input := w.input ++ chunks.flatten } := by
  induction chunks generalizing w with
  | nil => simp [writeAll]
  | cons b bs ih =>
    have hw : write c w b = { w with input := w.input ++ b } := by
      unfold write
      cases hb : b with
      | nil => simp [writeLoop]
      | cons x xs => simp [writeLoop, hf]
    simp only [writeAll]
    rw [hw, ih _ (by simpa using hf)]
    simp

theorem xerial_unframed_single (c : Codec) (chunks : List Bytes) (hne : chunks.flatten ≠ []) :
    (close c (writeAll c (newWriter false) chunks)).out = c.enc chunks.flatten := by
  rw [writeAll_unframed c chunks _ rfl]
  simp [close, flush, newWriter, hne]

/-- pool protocol: `NewReader`/`NewWriter` = Get + Reset, `Close` = Flush + Reset(nil) + Put.  Whatever state
the recycled object was left in (mid-stream, after an error, after EOF), Reset gives the state of a new one. -/
theorem reset_fresh (s : Bytes) (framed : Bool) (r : Reader) (w : Writer) :
    resetReader s r = newReader s ∧ resetWriter framed w = newWriter framed := ⟨rfl, rfl⟩

/-- the model's block capacity and flush threshold are the constants in compress/snappy/xerial.go now
(regenerated by `go/extract records` on every run) -/
theorem gen_xerial_consts :
    blockCap = Gen.RecordConsts.xerialBlockSize ∧ slack = Gen.RecordConsts.xerialSlack := ⟨rfl, rfl⟩

/-! ## pool protocol (all codecs): acquire → Reset → use → Close (idempotent) → Put -/

open Model.Pool in
/-- after EVERY sequence of NewReader/NewWriter, Close (also repeated Close of the same wrapper) and pool drops:
no object is in the pool twice, none is in the pool while a live wrapper uses it, none is used by two wrappers -/
theorem pool_inv (es : List PEv) (s : PState) (hf : faithful es = true) (h : run Model.Pool.init es = some s) : Inv s :=
  inv_run es _ s hf inv_init h

open Model.Pool in
/-- two writers/readers that are open at the same time never share an object; the pool holds no duplicates and
nothing that is in use -/
theorem pool_no_sharing (es : List PEv) (s : PState) (hf : faithful es = true) (h : run Model.Pool.init es = some s) :
    (live s).Nodup ∧ s.pool.Nodup ∧ ∀ x ∈ s.pool, x ∉ live s := by
  have hi := pool_inv es s hf h
  refine ⟨List.nodup_iff_count.mpr fun x => ?_, List.nodup_iff_count.mpr fun x => ?_, fun x hx hl => ?_⟩
  · have := (hi x).1; unfold occ at this; omega
  · have := (hi x).1; unfold occ at this; omega
  · have := (hi x).1
    have h1 : 0 < s.pool.count x := List.count_pos_iff.mpr hx
    have h2 : 0 < (live s).count x := List.count_pos_iff.mpr hl
    unfold occ at this; omega

open Model.Pool in
/-- `Close` is idempotent: closing a wrapper again changes nothing -/
theorem close_idempotent (s s1 : PState) (h : Nat) (h1 : step s (.close h) = some s1) :
    step s1 (.close h) = some s1 := by
  simp only [step] at h1 ⊢
  cases hg : s.handles[h]? with
  | none => simp [hg] at h1
  | some o =>
    cases o with
    | none => simp only [hg, Option.some.injEq] at h1; subst h1; simp [hg]
    | some x =>
      simp only [hg, Option.some.injEq] at h1; subst h1
      have hlt : h < s.handles.length := by
        cases Nat.lt_or_ge h s.handles.length with
        | inl a => exact a
        | inr b => simp [List.getElem?_eq_none b] at hg
      have : (s.handles.set h none)[h]? = some none := by simp [List.getElem?_set, hlt]
      simp only [this]

open Model.Pool in
/-- the seeded defect C16-m2: a Close that does not forget its object makes a second Close put the object into
the pool twice; two writers opened next share it -/
theorem double_close_counterexample :
    ∃ s, run Model.Pool.init [.acquire none, .closeKeep 0, .closeKeep 0, .acquire (some 0), .acquire (some 0)] = some s
      ∧ ¬ (live s).Nodup := by
  refine ⟨_, rfl, ?_⟩
  decide

open Model.Pool in
example : ∃ s, run Model.Pool.init [.acquire none, .close 0, .close 0, .acquire (some 0), .acquire none] = some s
    ∧ (live s).Nodup := ⟨_, rfl, by decide⟩

/-! hypotheses are satisfiable (identity block codec), and the reader model on concrete reference streams -/

def idCodec : Codec := ⟨id, some, fun b => some b.length⟩

example : (∀ b, idCodec.dec (idCodec.enc b) = some b) := fun _ => rfl

example : drain idCodec 5 (newReader (frame [[1, 2], [3]])) = some [1, 2, 3] := by decide
example : drain idCodec 5 (newReader [9, 8, 7]) = some [9, 8, 7] := by decide
example : readSizes idCodec (newReader (frame [[1, 2, 3], [4]])) [2, 2, 2, 2] = [2, 1, 1, 0] := by decide

end KV.Props.C16
