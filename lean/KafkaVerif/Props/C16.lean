import KafkaVerif.Model.Xerial
namespace KV.Props.C16
theorem placeholder_reset_fresh (s : KV.Bytes) (r : KV.Model.Xerial.Reader) :
    KV.Model.Xerial.resetReader s r = KV.Model.Xerial.newReader s := rfl
end KV.Props.C16
