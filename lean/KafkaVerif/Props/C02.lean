/-
Props/C02.lean — property C02: a Reader delivers exactly the partition's records from its position, in order.
Property theorems only; helper lemmas live in Lemmas/FetchDecoder.lean.

Model: Model/MessageSetReader.lean (message_reader.go + batch.go as a token machine), Model/Batch.lean
(repeated fetches), Model/ReaderLoop.lean, Model/ReaderFront.lean (reader.go).  Reference side: Spec/Layout.lean.
-/
import KafkaVerif.Model.Batch
import KafkaVerif.Spec.Layout

namespace KV.C02

/-! ## 0. The defects of the pinned code (`Variant.legacy`), kept as theorems about the legacy model

These are the layouts replayed against the real code before the `fix:` commits (seeded/D4-…, D14-…, D15-…). -/

/-- records 100..104 were read, the next response holds only the retained empty batch [105,109] -/
def d4Layout : List Item := [.b2 105 109 false 0 []]

/-- D4: the Conn positioned at 105 ends up at offset **1** (then re-reads the partition from the start) -/
theorem empty_batch_counterexample :
    readAll .legacy false 105 120 (responseTokens d4Layout (-1)) = ([], 1, .eof) := by decide

/-- … the repaired code moves to the offset after the empty batch -/
theorem empty_batch_fixed :
    readAll .fixed false 105 120 (responseTokens d4Layout (-1)) = ([], 110, .eof) := by decide

def d14Layout : List Item :=
  [.b2 100 101 false 24 [(0, 7, 12), (1, 8, 12)], .b2 102 103 false 0 [], .b2 104 105 false 0 [],
   .b2 106 107 false 24 [(0, 9, 12), (1, 10, 12)]]

/-- D14: `[data][empty][empty][data]` — the second data batch's header is parsed as a record
(`panic: markRead: negative count` in the real code) -/
theorem two_empty_batches_panic_counterexample :
    (readAll .legacy false 100 130 (responseTokens d14Layout (-1))).2.2 = .desync := by decide

theorem two_empty_batches_fixed :
    readAll .fixed false 100 130 (responseTokens d14Layout (-1))
      = ([(100, 7), (101, 8), (106, 9), (107, 10)], 108, .eof) := by decide

/-- a compressed batch [100,109] whose tail 102..109 was compacted away, then a batch that does not fit the budget -/
def d15Layout : List Item :=
  [.b2 100 109 true 49 [(0, 7, 12), (1, 8, 12)], .b2 110 111 false 24 [(0, 9, 12), (1, 10, 12)]]

/-- D15: the legacy Conn stays at 102 — inside the batch it has just consumed — and the same response comes again:
no progress, records 110, 111 are never delivered -/
theorem compacted_tail_stuck_counterexample :
    fetchOnce .legacy d15Layout 112 100 100 = ([(100, 7), (101, 8)], 102, .eof) ∧
    fetchOnce .legacy d15Layout 112 102 100 = ([], 102, .eof) := by decide

theorem compacted_tail_fixed :
    fetchOnce .fixed d15Layout 112 100 100 = ([(100, 7), (101, 8)], 110, .eof) ∧
    fetchOnce .fixed d15Layout 112 110 100 = ([(110, 9), (111, 10)], 112, .eof) := by decide

end KV.C02
