/-
Props/C02.lean — property C02: a Reader delivers exactly the partition's records from its position, in order.
Property theorems only; helper lemmas live in Lemmas/FetchDecoder.lean.

Model: Model/MessageSetReader.lean (message_reader.go + batch.go as a token machine), Model/Batch.lean
(repeated fetches), Model/ReaderLoop.lean, Model/ReaderFront.lean (reader.go).  Reference side: Spec/Layout.lean.
-/
import KafkaVerif.Model.Batch
import KafkaVerif.Spec.Layout
import KafkaVerif.Lemmas.FetchDecoder
import KafkaVerif.Model.ReaderLoop
import KafkaVerif.Model.ReaderFront
import KafkaVerif.Gen.DecoderFacts
import KafkaVerif.Lemmas.ReaderFront
import KafkaVerif.Lemmas.ByteLayout
import KafkaVerif.Lemmas.ReaderLoopLTS
import KafkaVerif.Lemmas.PullReader
import KafkaVerif.Lemmas.ReaderWorld
import KafkaVerif.Lemmas.ReaderSystem
import KafkaVerif.Lemmas.ByteReader
import KafkaVerif.Lemmas.BufVarInt
import KafkaVerif.Lemmas.ByteHeader
import KafkaVerif.Lemmas.ByteLocal
import KafkaVerif.Lemmas.ByteWalk

namespace KV.C02

/-! ## R. Regenerated tie: the structural facts of the source the model relies on

`Gen/DecoderFacts.lean` is re-extracted (go/ast, `go/extract/decoder`; renderings are alpha-normalised: receiver `$r`,
locals `$1`, `$2`, … — renaming a receiver, parameter or local does not change a fact) from message_reader.go, batch.go, conn.go and
reader.go of the tree under test on every run; the theorems below compare it with what the model assumes, so an
edit of one of these places breaks `lake build` (and the theorems of §1–§3 are re-stated for `currentVariant`). -/

/-- which model variant a set of source facts describes -/
def variantOfFacts (f : Gen.DecoderFacts) : Option Variant :=
  if f.skipEmptyLoop ∧ f.batchEndOnEmpty ∧ f.batchEndOnLast ∧ f.batchEndApplied ∧
     f.jumpGuard = "errors.Is($r.err, io.EOF) && $r.msgs.lengthRemain == 0 && $r.lastOffset >= $r.offset" ∧
     f.oorSeeksConn then some .fixed
  else if !f.skipEmptyLoop ∧ !f.batchEndOnEmpty ∧ !f.batchEndOnLast ∧ !f.batchEndApplied ∧
     f.jumpGuard = "errors.Is($r.err, io.EOF) && $r.msgs.lengthRemain == 0 && $r.lastOffset != -1" ∧
     !f.oorSeeksConn then some .legacy
  else none

/-- the variant of the code as it is now (`legacy` also stands for "not recognised": then `current_code_is_fixed` fails) -/
def currentVariant : Variant := (variantOfFacts Gen.decoderFacts).getD .legacy

/-- the repaired shapes are all in place: the empty-batch skip loop in readMessage, the three `batchEnd` sites, the
monotone jump guard, the conn seek in the OffsetOutOfRange branch -/
theorem current_code_is_fixed : currentVariant = .fixed := by decide

/-- header sizes and payload offsets are the ones the token sizes and the `lengthRemain` accounting of the model use -/
theorem decoder_constants :
    Gen.decoderFacts.hdrV2 = (Tok.h2 0 0 0 false 0).size ∧
    Gen.decoderFacts.hdrV1 = (Tok.h1 1 0 false).size ∧
    Gen.decoderFacts.hdrV0 = (Tok.h1 0 0 false).size ∧
    Gen.decoderFacts.v2PayloadOffset = 49 ∧ Gen.decoderFacts.v2BatchRemainOffset = 49 ∧
    Gen.decoderFacts.hdrV2 = Gen.decoderFacts.v2PayloadOffset + 12 ∧
    Gen.decoderFacts.v1LengthRemain = 1 := by decide

/-- the remaining statements the model transcribes: next offset = offset + 1 (Batch and reader loop), the skip loop
of ReadMessage compares with the conn offset strictly, `highWaterMark == offset` gives the empty reader, Close stores
the batch offset into the conn; the attributes bit that makes `readHeader` pass over a v2 batch as a control batch is bit 5
(0x20, the record-batch format's `isControlBatch`; bit 4 = 0x10 is `isTransactional`: a committed data batch of a
transactional producer is data — seeded/C02-m11 tested bit 4) -/
theorem decoder_statements :
    Gen.decoderFacts.controlBatchMask = 2 ^ 5 ∧
    Gen.decoderFacts.nextOffsetPlus = 1 ∧ Gen.decoderFacts.readerNextOffsetPlus = 1 ∧
    Gen.decoderFacts.skipBelow = "$r.conn != nil && $1 < $r.connOffset()" ∧
    Gen.decoderFacts.emptyWhenHwmEqOffset = true ∧ Gen.decoderFacts.closeStoresOffset = true := by decide

/-- the facts of `(*reader).run` / `initialize` the loop LTS (Model/ReaderLoopLTS.lean) transcribes: the sentinel values,
the resolution switch and the seek to the resolved offset, `attempt = 0; offset = start` after a successful initialize,
`errcount++` at the end of an iteration, the action of every simple error class of readLoop's switch
(continue with errcount 0 / close and leave the loop / close and return / sendError and leave the loop), and what `run`
does with the connection itself (`runConnDirect`): it only closes it and moves its offset without asking the broker
(`Seek` with SeekDontCheck) — every step that waits for the broker goes through `r.initialize` / `r.read` /
`r.readOffsets`, which arm a deadline first: each `Env` event of Model/ReaderWorld.lean stands for a call that returns
(seeded/C09-m8 calls `conn.ReadOffsets()` directly in the OffsetOutOfRange branch: no deadline, the loop can block
for ever in one event) -/
theorem reader_loop_facts :
    Gen.decoderFacts.firstOffsetConst = -2 ∧ Gen.decoderFacts.lastOffsetConst = -1 ∧
    (∀ first last : Int, resolve Gen.decoderFacts.firstOffsetConst first last = first ∧
                         resolve Gen.decoderFacts.lastOffsetConst first last = last) ∧
    Gen.decoderFacts.initResolve = "switch { case $1 == FirstOffset: $1 = $2 case $1 == LastOffset: $1 = $3 case $1 < $2: $1 = $2 }" ∧
    Gen.decoderFacts.initSeeksResolved = true ∧ Gen.decoderFacts.runResetsAttempt = true ∧
    Gen.decoderFacts.runConnDirect = "Close,Seek+DontCheck" ∧
    Gen.decoderFacts.runErrcountInc = true ∧
    Gen.decoderFacts.loopBranches = "$1 == nil -> errcount=0,continue | errors.Is($1, NotLeaderForPartition) -> close,break-loop | errors.Is($1, OffsetOutOfRange) ->  | errors.Is($1, RequestTimedOut) -> errcount=0,continue | errors.Is($1, UnknownTopicOrPartition) -> close,break-loop | errors.Is($1, context.Canceled) -> close,return | errors.Is($1, errUnknownCodec) -> sendError,break-loop | errors.Is($1, io.EOF) -> errcount=0,continue | errors.Is($1, io.ErrNoProgress) -> close,break-loop | default -> " := by
  refine ⟨by decide, by decide, ?_, rfl, rfl, rfl, rfl, rfl, rfl⟩
  intro first last
  constructor <;> simp [resolve, Gen.decoderFacts]

/-- **the text the statement-level models were written against**: `(*messageSetReader).readMessage` and everything it
reaches in message_reader.go, read.go and discard.go — `readHeader`, `readMessageV1`, `readMessageV2`, `markRead`,
`unwindStack`, `runFunc`, `readMessageHeader`, `extractOffset`, the `remain` wrappers, `peekRead`, `readInt8…64`,
`readVarInt`, `readBytesWith`, `readArrayLen`, `readNewBytes`, `readNewString`, `discardN`, `discardBytes`,
`compression`, `badMagic` — each once, after the normalisation pass (helpers unknown to the model inlined, single-use
locals folded), with the error plumbing (`if err = f(); err != nil { return }` ↦ `must(f())`), the debug output and
value-less `var` declarations removed, receiver `$r`, locals `$1…` per function, and the **functions themselves**
`$f1…` in order of first occurrence (renaming a function or method of these files changes nothing; changing a body does).
`Model/PullReader.lean` follows `readMessage`, readHeader, readMessageV1, readMessageV2, markRead / unwindStack;
`Model/ByteReader.lean` follows the byte-level rest. -/
theorem decoder_text :
    Gen.decoderFacts.decoderText = "readMessage { if $r.empty { $1 = RequestTimedOut return } for { must($r.$f1()) if $r.header.magic != 2 || $r.count != 0 { break } } switch $r.header.magic { case 0, 1: $2, $3, $4, $1 = $r.$f2($5, $6, $7) $8 = -1 case 2: $2, $8, $3, $4, $1 = $r.$f3($5, $6, $7) default: $1 = $r.header.$f4() } return } ;; $f1 { if $r.count > 0 { return } $r.header = messagesHeader{} must($r.$f5(&$r.header.firstOffset)) must($r.$f6(&$r.header.length)) must($r.$f6(&$1)) must($r.$f7(&$r.header.magic)) switch $r.header.magic { case 0: $r.header.crc = $1 must($r.$f7(&$r.header.v1.attributes)) $r.count = 1 $r.lengthRemain = 1 case 1: $r.header.crc = $1 must($r.$f7(&$r.header.v1.attributes)) must($r.$f5(&$r.header.v1.timestamp)) $r.count = 1 $r.lengthRemain = 1 case 2: $r.header.v2.leaderEpoch = $1 must($r.$f6(&$r.header.crc)) must($r.$f8(&$r.header.v2.attributes)) must($r.$f6(&$r.header.v2.lastOffsetDelta)) must($r.$f5(&$r.header.v2.firstTimestamp)) must($r.$f5(&$r.header.v2.lastTimestamp)) must($r.$f5(&$r.header.v2.producerID)) must($r.$f8(&$r.header.v2.producerEpoch)) must($r.$f6(&$r.header.v2.baseSequence)) must($r.$f6(&$r.header.v2.count)) $r.count = int($r.header.v2.count) $r.lengthRemain = int($r.header.length) - 49 if $r.header.v2.attributes&controlBatchMask != 0 { $r.count = 0 $r.batchEnd = $r.header.firstOffset + int64($r.header.v2.lastOffsetDelta) + 1 if $r.lengthRemain > 0 { must($r.$f9($r.lengthRemain)) } } if $r.count == 0 { $r.batchEnd = $r.header.firstOffset + int64($r.header.v2.lastOffsetDelta) + 1 } default: $2 = $r.header.$f4() return } return } ;; $f2 { for $r.readerStack != nil { if $r.remain == 0 { $r.readerStack = $r.parent continue } must($r.$f1()) $1 = $r.header.firstOffset $2 = $r.header.v1.timestamp $3 = must($r.header.$f10()) if $3 != nil { must($r.$f11()) $r.decompressed.Reset() must($r.$f12(func($4 *bufio.Reader, $5 int, $6 int) ($7 int, $8 error) { $r.decompressed.Grow(4 * $6) $9 := io.LimitedReader{R: $4, N: int64($6)} $10 := $3.NewReader(&$9) _, $8 = $r.decompressed.ReadFrom($10) $7 = $5 - ($6 - int($9.N)) $10.Close() return })) $1 = must($f13($1, $r.decompressed.Bytes())) $11 := $r.header.magic == 1 && $r.header.v1.attributes&timestampTypeMask != 0 $r.$f14() $r.readerStack = &readerStack{reader: bufio.NewReaderSize($r.decompressed, 0), remain: $r.decompressed.Len(), base: $1, parent: $r.readerStack, logAppendTime: $2, hasLogAppendTime: $11} continue } $1 += $r.base if $r.hasLogAppendTime { $2 = $r.logAppendTime } if $1 < $12 { must($r.$f11()) must($r.$f11()) $r.$f14() continue } must($r.$f12($13)) must($r.$f12($14)) $r.$f14() return } $8 = errShortRead return } ;; $f3 { must($r.$f1()) if $r.count == int($r.header.v2.count) { $1 = must($r.header.$f10()) if $1 != nil { $2 := int($r.header.length - 49) if $2 > $r.remain { $3 = errShortRead return } if $2 < 0 { $3 = fmt.Errorf(\"batch remain < 0 (%d)\", $2) return } $r.decompressed.Reset() $r.decompressed.Grow(4 * $2) $4 := io.LimitedReader{R: $r.reader, N: int64($2)} $5 := $1.NewReader(&$4) _, $3 = $r.decompressed.ReadFrom($5) $5.Close() if $3 != nil { return } $r.remain -= $2 - int($4.N) $r.readerStack = &readerStack{reader: bufio.NewReaderSize($r.decompressed, 0), remain: $r.decompressed.Len(), base: -1, parent: $r.readerStack, header: $r.header, count: $r.count} $r.readerStack.parent.count = 0 } } $6 := $r.remain must($r.$f15(&$7)) $8 := $6 - $r.remain must($r.$f7(&$9)) must($r.$f15(&$10)) $11 = $r.header.v2.firstTimestamp + $10 if $r.header.v2.attributes&timestampTypeMask != 0 { $11 = $r.header.v2.lastTimestamp } must($r.$f15(&$12)) $13 = $r.header.firstOffset + $12 must($r.$f16($14)) must($r.$f16($15)) must($r.$f15(&$16)) if $16 > 0 { $17 = make([]Header, $16) for $18 := range $17 { must($r.$f17(&$17[$18])) } } $19 = $r.header.firstOffset + int64($r.header.v2.lastOffsetDelta) $r.lengthRemain -= int($7) + $8 if $r.count == 1 { $r.batchEnd = $19 + 1 } $r.$f14() return } ;; $f4 { return fmt.Errorf(\"unsupported magic byte %d in header\", $r.magic) } ;; $f5 { $r.remain, $1 = $f18($r.reader, $r.remain, $2) return } ;; $f6 { $r.remain, $1 = $f19($r.reader, $r.remain, $2) return } ;; $f7 { $r.remain, $1 = $f20($r.reader, $r.remain, $2) return } ;; $f8 { $r.remain, $1 = $f21($r.reader, $r.remain, $2) return } ;; $f9 { $r.remain, $1 = $f22($r.reader, $r.remain, $2) return } ;; $f10 { const $1 = 0x07 switch $r.magic { case 0, 1: $2 = $r.v1.attributes & $1 case 2: $2 = int8($r.v2.attributes & $1) default: $3 = $r.$f4() return } if $2 != 0 { $4, $3 = resolveCodec($2) } return } ;; $f11 { $r.remain, $1 = $f23($r.reader, $r.remain) return } ;; $f12 { $r.remain, $1 = $f24($r.reader, $r.remain, $2) return } ;; $f13 { $1, $2 := bufio.NewReader(bytes.NewReader($3)), len($3) for $2 > 0 { $2 = must($f18($1, $2, &$4)) $2 = must($f19($1, $2, &$5)) $2 = must($f22($1, $2, int($5))) } $4 = $6 - $4 return } ;; $f14 { if $r.count == 0 { panic(\"markRead: negative count\") } $r.count-- $r.$f25() } ;; $f15 { $r.remain, $1 = $f26($r.reader, $r.remain, $2) return } ;; $f16 { must($r.$f15(&$1)) $r.remain = must($2($r.reader, $r.remain, int($1))) return } ;; $f17 { must($r.$f15(&$1)) $2.Key = must($r.$f27(int($1))) must($r.$f15(&$3)) $2.Value = must($r.$f28(int($3))) return nil } ;; $f18 { return $f29($1, $2, 8, func($3 []byte) { *$4 = makeInt64($3) }) } ;; $f19 { return $f29($1, $2, 4, func($3 []byte) { *$4 = makeInt32($3) }) } ;; $f20 { return $f29($1, $2, 1, func($3 []byte) { *$4 = makeInt8($3) }) } ;; $f21 { return $f29($1, $2, 2, func($3 []byte) { *$4 = makeInt16($3) }) } ;; $f22 { if $1 <= $2 { $1, $3 = $4.Discard($1) } else { $1, $3 = $4.Discard($2) if $3 == nil { $3 = errShortRead } } return $2 - $1, $3 } ;; $f23 { return $f24($1, $2, func($1 *bufio.Reader, $2 int, $3 int) (int, error) { if $3 < 0 { return $2, nil } return $f22($1, $2, $3) }) } ;; $f24 { if $1, $2 = $f30($3, $1, &$4); $2 != nil { return $1, $2 } if $4 > $1 { return $1, errShortRead } return $5($3, $1, $4) } ;; $f25 { for $r.count == 0 { if $r.remain == 0 { if $r.parent != nil { $r.readerStack = $r.parent continue } } break } } ;; $f26 { $1, _ := $2.Peek($2.Buffered()) $3 := uint64(0) $4 := uint(0) for { if len($1) > $5 { $1 = $1[:$5] } for $6, $7 := range $1 { if $7 < 0x80 { $3 |= uint64($7) << $4 *$8 = int64($3>>1) ^ -(int64($3) & 1) $9, $10 := $2.Discard($6 + 1) return $5 - $9, $10 } $3 |= uint64($7&0x7f) << $4 $4 += 7 } $9, _ := $2.Discard(len($1)) $5 -= $9 if $5 == 0 { return 0, errShortRead } if _, $10 := $2.Peek(1); $10 != nil { if errors.Is($10, io.EOF) { $10 = errShortRead } return $5, $10 } $1, _ = $2.Peek($2.Buffered()) } } ;; $f27 { $1, $r.remain, $2 = $f31($r.reader, $r.remain, $3) return } ;; $f28 { $1, $r.remain, $2 = readMessageBytes($r.reader, $r.remain, $3) return } ;; $f29 { if $1 > $2 { return $2, errShortRead } $3, $4 := $5.Peek($1) if $4 != nil { return $2, $4 } $6($3) return $f22($5, $2, $1) } ;; $f30 { if $1, $2 = $f19($3, $1, &$4); $2 != nil { return $1, $2 } *$5 = int($4) return $1, nil } ;; $f31 { $1, $2, $3 := $f32($4, $2, $5) return string($1), $2, $3 } ;; $f32 { if $1 > 0 { if $2 < $1 { $1 = $2 $3 = true } $4 = make([]byte, $1) $1, $5 = io.ReadFull($6, $4) $4 = $4[:$1] $2 -= $1 if $5 == nil && $3 { $5 = errShortRead } } return $4, $2, $5 }" := rfl

/-! ## 0. The defects of the pinned code (`Variant.legacy`), kept as theorems about the legacy model

These are the layouts replayed against the real code before the `fix:` commits (seeded/D4-…, D14-…, D15-…). -/

/-- records 100..104 were read, the next response holds only the retained empty batch [105,109] -/
def d4Layout : List Item := [.b2 105 109 false 0 []]

/-- D4: the Conn positioned at 105 ends up at offset **1** (then re-reads the partition from the start) -/
theorem empty_batch_counterexample :
    readAll .legacy false 105 120 (responseTokens d4Layout (-1)) = ([], 1, .eof) := by decide

/-- … the repaired code moves to the offset after the empty batch -/
theorem empty_batch_fixed :
    readAll .fixed false 105 120 (responseTokens d4Layout (-1)) = ([], 110, .eof) := by decide

def d14Layout : List Item :=
  [.b2 100 101 false 24 [(0, 7, 12), (1, 8, 12)], .b2 102 103 false 0 [], .b2 104 105 false 0 [],
   .b2 106 107 false 24 [(0, 9, 12), (1, 10, 12)]]

/-- D14: `[data][empty][empty][data]` — the second data batch's header is parsed as a record
(`panic: markRead: negative count` in the real code) -/
theorem two_empty_batches_panic_counterexample :
    (readAll .legacy false 100 130 (responseTokens d14Layout (-1))).2.2 = .desync := by decide

theorem two_empty_batches_fixed :
    readAll .fixed false 100 130 (responseTokens d14Layout (-1))
      = ([(100, 7), (101, 8), (106, 9), (107, 10)], 108, .eof) := by decide

/-- a compressed batch [100,109] whose tail 102..109 was compacted away, then a batch that does not fit the budget -/
def d15Layout : List Item :=
  [.b2 100 109 true 49 [(0, 7, 12), (1, 8, 12)], .b2 110 111 false 24 [(0, 9, 12), (1, 10, 12)]]

/-- D15: the legacy Conn stays at 102 — inside the batch it has just consumed — and the same response comes again:
no progress, records 110, 111 are never delivered -/
theorem compacted_tail_stuck_counterexample :
    fetchOnce .legacy d15Layout 112 100 100 = ([(100, 7), (101, 8)], 102, .eof) ∧
    fetchOnce .legacy d15Layout 112 102 100 = ([], 102, .eof) := by decide

theorem compacted_tail_fixed :
    fetchOnce .fixed d15Layout 112 100 100 = ([(100, 7), (101, 8)], 110, .eof) ∧
    fetchOnce .fixed d15Layout 112 110 100 = ([(110, 9), (111, 10)], 112, .eof) := by decide

/-! ## 1. One fetch round (`Conn.ReadBatch`, `ReadMessage` until it fails, `Close`) on the repaired code -/

/-- `single_fetch`: for every well-formed layout `L` of a log (`LWF`: message formats 0, 1 and 2 in any mixture, plain
and compressed v2 batches, v0/v1 plain messages and compressed wrappers with relative or absolute inner offsets,
compaction holes at the head, inside and at the tail of batches, any number of retained empty batches, whole-batch
gaps), every byte cut (or none), every start offset `o ≥ 0`, deadline expired or not:
the delivered sequence is exactly the completely contained records of `L` with offset ≥ o (hence in increasing order,
each once, digests intact); the decoder never desynchronises/panics; no stored record `r` with
`o ≤ r.offset < connOffset'` is undelivered; everything delivered is below `connOffset'`.

`Safe o L` is the one restriction the code really has: readMessageV1's loop cannot step from a v0/v1 message it
*skipped* into a v2 batch; it holds for every response obeying the fetch contract (`safe_of_contract`), for pure v2
(`safe_of_v2`) and pure v0/v1 (`safe_of_v1`) layouts at any offset. -/
theorem single_fetch (items : List Item) (nb : Int) (hnb : 0 ≤ nb) (hwf : LWF nb items)
    (o hwm : Int) (ho : 0 ≤ o) (hsafe : Safe o items) (hne : hwm ≠ o) (cut : Int) (expired : Bool) :
    let res := readAll .fixed expired o hwm (responseTokens items cut)
    res.1 = (containedRecords items cut).filter (fun r => o ≤ r.1) ∧
    res.2.2 ≠ .desync ∧
    (∀ r ∈ allRecords items, o ≤ r.1 → r.1 < res.2.1 → r ∈ res.1) ∧
    (∀ r ∈ res.1, r.1 < res.2.1) ∧
    res.1.Pairwise (fun a b => a.1 < b.1) := by
  -- reduce both cases of `cut` to `runCut` with a byte budget
  have key : ∀ n : Nat, (cut < 0 → itemsSize items ≤ n ∧ totalSize (allTokens items) ≤ n) → (0 ≤ cut → n = cut.toNat) →
      run .fixed expired o { off := o } (responseTokens items cut) = runCut .fixed expired o { off := o } (allTokens items) n ∧
      containedRecords items cut = contained items n := by
    intro n h1 h2
    by_cases hc : cut < 0
    · obtain ⟨ha, hb⟩ := h1 hc
      simp only [responseTokens, containedRecords, hc, if_true]
      exact ⟨(runCut_all _ _ _ _ _ _ hb).symm, (contained_all _ _ ha).symm⟩
    · have := h2 (by omega)
      subst this
      simp only [responseTokens, containedRecords, hc, if_false]
      exact ⟨run_truncate _ _ _ _ _ _, trivial⟩
  obtain ⟨n, hn1, hn2⟩ : ∃ n : Nat, (cut < 0 → itemsSize items ≤ n ∧ totalSize (allTokens items) ≤ n) ∧ (0 ≤ cut → n = cut.toNat) := by
    by_cases hc : cut < 0
    · exact ⟨itemsSize items + totalSize (allTokens items), fun _ => ⟨by omega, by omega⟩, fun h => by omega⟩
    · exact ⟨cut.toNat, fun h => absurd h hc, fun _ => rfl⟩
  obtain ⟨hrun, hcont⟩ := key n hn1 hn2
  have hp := layout_run expired o items nb { off := o } n hwf hsafe (bnd_init ho hnb _)
  simp only [readAll, hne, if_false, hrun, hcont]
  have hout := hp.out
  simp only [List.nil_append] at hout
  refine ⟨hout, hp.ok, ?_, fun r hr => (hp.resok.1 r hr).2, hp.resok.2⟩
  intro r hr h1 h2
  rw [hout]
  simp only [List.mem_filter, decide_eq_true_eq]
  exact ⟨hp.nogap r hr h1 h2, h1⟩

/-- the hypotheses are met by a mixed log: v1 plain message, v1 wrapper with a hole (relative inner offsets 0,2 of base
98), v2 batch with holes, an empty batch and a compressed batch; start offset inside the wrapper -/
example : LWF 0 [.m 1 97 1 60, .w 1 100 90 [(0, 2), (2, 3)], .b2 101 104 false 36 [(0, 1, 12), (2, 2, 12), (3, 3, 12)],
    .b2 105 109 false 0 [], .b2 112 115 true 40 [(1, 4, 20), (3, 5, 20)]] ∧
    Safe 99 [.m 1 97 1 60, .w 1 100 90 [(0, 2), (2, 3)], .b2 101 104 false 36 [(0, 1, 12), (2, 2, 12), (3, 3, 12)],
    .b2 105 109 false 0 [], .b2 112 115 true 40 [(1, 4, 20), (3, 5, 20)]] := by
  simp [LWF, RecsWF, InnerWF, sumSizes, wrapperBase, hdr1Size, Safe, headB2, isB2, Item.last]

/-- without `Safe` the statement is false of the code: a v1 message below the start offset followed by a v2 batch
(a response no contract-obeying broker sends) makes readMessageV1's loop parse the batch header as a message -/
theorem unsafe_layout_counterexample :
    (readAll .fixed false 8 20 (responseTokens [.m 1 5 1 60, .b2 10 11 false 12 [(0, 2, 12)]] (-1))).2.2 = .desync := by decide

/-- `single_fetch` about **bytes**, for everything the reference encoder (`Spec/RecordBatch.lean`, the published record
batch / message set formats) can put into a message set: uncompressed and compressed v2 batches, v0/v1 messages and
compressed wrappers (`BItem`), in any order, cut at any byte `n`.  The byte-level tokenizer (`Spec/ByteLayout.tokenize`:
fixed headers when all their bytes are there, a record when its length prefix and body are there, a compressed
payload / a message body when it is complete, else `cut`; checksums ignored like the Go decoder does) is proved to
produce exactly the truncated token stream of the layout (`tokenize_items`); on it the decoder delivers exactly the
stored records at or above `o` that lie completely within the first `n` bytes.
Parameters: the compression codec as `enc`/`dec` with `dec ∘ enc = id` and non-empty output, checksum functions below
2³², digests `dg2`/`dg1` of the observable fields. -/
theorem single_fetch_bytes (c : TokCfg) (enc : Int → Bytes → Bytes) (hdec : ∀ k b, c.dec k (enc k b) = some b)
    (hpos : ∀ k b, 0 < (enc k b).length) (h1 : ∀ b, c.crcs.ieee b < RW.M32) (h2 : ∀ b, c.crcs.castagnoli b < RW.M32)
    (its : List BItem) (hitems : ∀ it ∈ its, it.WF c enc) (nb : Int) (hnb : 0 ≤ nb) (hwf : LWF nb (layoutOfItems c enc its))
    (o hwm : Int) (ho : 0 ≤ o) (hsafe : Safe o (layoutOfItems c enc its)) (hne : hwm ≠ o) (expired : Bool) (n : Nat) :
    let toks := tokenize c (n + 1) .hdr ((encItems c enc its).take n)
    (readAll .fixed expired o hwm toks).1 = (contained (layoutOfItems c enc its) n).filter (fun r => o ≤ r.1) ∧
    (readAll .fixed expired o hwm toks).2.2 ≠ .desync ∧
    (∀ r ∈ allRecords (layoutOfItems c enc its), o ≤ r.1 → r.1 < (readAll .fixed expired o hwm toks).2.1 →
      r ∈ (readAll .fixed expired o hwm toks).1) := by
  have h := single_fetch (layoutOfItems c enc its) nb hnb hwf o hwm ho hsafe hne (n : Int) expired
  have hc : ¬ ((n : Int) < 0) := by omega
  simp only [responseTokens, containedRecords, hc, if_false, Int.toNat_natCast] at h
  simp only [tokenize_items c enc hdec hpos h1 h2 its hitems n (n + 1) (by omega)]
  exact ⟨h.1, h.2.1, h.2.2.1⟩

/-! ### below the tokens: the byte-level reads of read.go / discard.go / message_reader.go (Model/ByteReader.lean)

`readVarInt`, `peekRead` + `readInt8…64`, `readNewBytes`, `discardN` with the `remain` accounting of messageSetReader,
`runFunc`, `readMessageHeader`, and the record part of `readMessageV2`. -/

/-- `record_bytes`: where the tokenizer of `single_fetch_bytes` decides "complete record → token `r2`, else `cut`" the Go
code decides the same from the bytes: with the whole record inside what is left of the message set (`remain`) it reads
the record's offset delta, timestamp delta, key, value and headers, consumes exactly the record and subtracts its size
from `lengthRemain`; with the record cut anywhere by the end of the set every path ends in errShortRead (never a
wrong message, never a read beyond the set). -/
theorem record_bytes (rec : Spec.RB.RecV2) (rest : Bytes) (remain : Nat) :
    ((Spec.RB.encRec rec).length ≤ remain →
      BR.readRecordV2 ⟨Spec.RB.encRec rec ++ rest, remain⟩ = .ok (BR.viewOf rec, ⟨rest, remain - (Spec.RB.encRec rec).length⟩) ∧
      Spec.RB.readRec ((Spec.RB.encRec rec ++ rest).take remain) = some (rec, rest.take (remain - (Spec.RB.encRec rec).length))) ∧
    (remain < (Spec.RB.encRec rec).length →
      (∃ r', BR.readRecordV2 ⟨Spec.RB.encRec rec ++ rest, remain⟩ = .error (.short, r')) ∧
      Spec.RB.readRec ((Spec.RB.encRec rec ++ rest).take remain) = none) := by
  obtain ⟨h1, h2⟩ := BR.readRecordV2_spec rec rest remain
  refine ⟨fun hle => ⟨h1 hle, ?_⟩, fun hlt => ⟨h2 hlt, readRec_prefix rec rest remain hlt⟩⟩
  rw [List.take_append, List.take_of_length_le hle]
  exact Spec.RB.readRec_encRec rec _

/-- `message_bytes`: key and value of a v0/v1 message (readMessageV1: `readBytesWith(key)`, `readBytesWith(val)` at or above
`min`; `discardBytes` twice below it): with both inside what is left of the message set they are read (skipped) and
exactly their bytes consumed; cut anywhere → errShortRead.  (The tokenizer asks for the whole body at once.) -/
theorem message_bytes (m : Spec.RB.Msg) (hk : RW.InRange RW.M32 (Spec.RB.optLen m.key : Int))
    (hv : RW.InRange RW.M32 (Spec.RB.optLen m.value : Int)) :
    BR.AllOrShort BR.readBodyV1 (encB1 m) (m.key, m.value) ∧ BR.AllOrShort BR.skipBodyV1 (encB1 m) () :=
  ⟨BR.readBodyV1_spec m hk hv, BR.skipBodyV1_spec m hk hv⟩

/-- `wrapper_bytes`: the body of a compressed v0/v1 wrapper message (readMessageV1, `codec != nil`: `discardBytes()`,
`readBytesWith(decompress)`): whatever key the wrapper carries — null as producers write it, or any other; the pinned
code skipped exactly four bytes there (C05-D31, fixed by the records builder) — it is passed over, and what the codec
is handed are exactly the bytes of the compressed inner set; all of the body is consumed, and a body cut anywhere gives
errShortRead. -/
theorem wrapper_bytes (enc : Int → Bytes → Bytes) (crc : Bytes → Nat) (m : Spec.RB.Msg) (codec : Int)
    (inner : List Spec.RB.Msg) (hk : RW.InRange RW.M32 (Spec.RB.optLen m.key : Int))
    (hv : RW.InRange RW.M32 ((enc codec (encMsgs crc inner)).length : Int)) :
    BR.AllOrShort BR.readWrapV1 (encB1 (wrapMsg enc crc m codec inner)) (some (enc codec (encMsgs crc inner))) :=
  BR.readWrapV1_spec (wrapMsg enc crc m codec inner) hk (by simpa [wrapMsg, Spec.RB.optLen] using hv)

/-- `header_bytes`: where the tokenizer reads a fixed-size header (`readH2`: 61 bytes of a v2 batch, `readH1`: 18 / 26
bytes of a v0 / v1 message, plain or wrapper) the Go code (`readHeader`: `r.readInt64(&r.header.firstOffset)`,
`r.readInt32(&r.header.length)`, … through the `remain` wrappers, `switch r.header.magic`) obtains the same fields —
base offset, last offset delta, first timestamp, record count, attributes and the payload size `length − 49`, resp.
offset, magic, attributes and the size of key + value — with the whole header inside what is left of the message set,
consuming exactly the header; with the header cut anywhere by the end of the set every path ends in errShortRead.
With `record_bytes`, `message_bytes`, `wrapper_bytes` and `varint_refill` every token of `tokenize` has its byte-level
counterpart in the statements of message_reader.go / read.go. -/
theorem header_bytes (c : Nat) (hc : c < RW.M32) :
    (∀ f : Spec.RB.FrameV2, f.WF →
      BR.AllOrShort BR.readHeaderB (encH2 c f)
        (.v2 ⟨f.baseOffset, f.lastOffsetDelta, f.firstTs, f.count, f.attributes, f.payload.length⟩) ∧
      ∀ x, readH2 (encH2 c f ++ x)
        = some (⟨f.baseOffset, f.lastOffsetDelta, f.firstTs, f.count, f.attributes, f.payload.length⟩, x)) ∧
    (∀ m : Spec.RB.Msg, m.WF →
      BR.AllOrShort BR.readHeaderB (encH1 c m) (.v1 ⟨m.offset, m.magic, m.attributes, (encB1 m).length⟩ m.ts) ∧
      ∀ x, readH1 (encH1 c m ++ x) = some (⟨m.offset, m.magic, m.attributes, (encB1 m).length⟩, x)) :=
  ⟨fun f hf => ⟨BR.readHeaderB_v2 c f hf, fun x => readH2_encH2 c hc f hf x⟩,
   fun m hm => ⟨BR.readHeaderB_v1 c m hm, fun x => readH1_encH1 c hc m hm x⟩⟩

/-- `reads_within_remain`: no byte-level read of the decoder looks at or consumes a byte beyond `remain`, the unread part
of the current message set.  `BR.Local p`: on two connections that agree on the next `remain` bytes (and hold at least
that many) `p` returns the same value or error, hands back the same `remain` and has consumed the same number of bytes,
at most `remain` — what follows the set on the connection (the next response) is invisible.  Holds for `readHeader`,
the record part of `readMessageV2`, and the three bodies of `readMessageV1` (read, skipped, wrapper); by composition
(`local_bind`, `local_guard`) from `readInt`, `readVarInt`, `readNewBytes`, `discardN`. -/
theorem reads_within_remain :
    BR.Local BR.readHeaderB ∧ BR.Local BR.readRecordV2 ∧ BR.Local BR.readBodyV1 ∧ BR.Local BR.skipBodyV1 ∧
    BR.Local BR.readWrapV1 :=
  ⟨BR.local_readHeaderB, BR.local_readRecordV2, BR.local_readBodyV1, BR.local_skipBodyV1, BR.local_readWrapV1⟩

/-- `cut_then_next_response`: the "cut" clauses of `header_bytes`, `record_bytes`, `message_bytes` about the situation on a
real connection: the broker cut the message set inside a batch header / a record / key + value of a message (only the
first `remain` bytes of it belong to the set) and the connection goes on with `Y`, the next response.  The reader fails
with errShortRead and has not consumed more than what was left of the set. -/
theorem cut_then_next_response (Y : Bytes) (remain : Nat) :
    (∀ (c : Nat) (f : Spec.RB.FrameV2), f.WF → remain < (encH2 c f).length →
      ∃ r', BR.readHeaderB ⟨(encH2 c f).take remain ++ Y, remain⟩ = .error (.short, r') ∧ r'.remain ≤ remain) ∧
    (∀ rec : Spec.RB.RecV2, remain < (Spec.RB.encRec rec).length →
      ∃ r', BR.readRecordV2 ⟨(Spec.RB.encRec rec).take remain ++ Y, remain⟩ = .error (.short, r') ∧ r'.remain ≤ remain) ∧
    (∀ m : Spec.RB.Msg, RW.InRange RW.M32 (Spec.RB.optLen m.key : Int) → RW.InRange RW.M32 (Spec.RB.optLen m.value : Int) →
      remain < (encB1 m).length →
      ∃ r', BR.readBodyV1 ⟨(encB1 m).take remain ++ Y, remain⟩ = .error (.short, r') ∧ r'.remain ≤ remain) :=
  ⟨fun c f hf h => BR.cut_is_short (BR.readHeaderB_v2 c f hf) BR.local_readHeaderB Y remain h,
   fun rec h => BR.cut_is_short (BR.readRecordV2_spec rec) BR.local_readRecordV2 Y remain h,
   fun m hk hv h => BR.cut_is_short (BR.readBodyV1_spec m hk hv) BR.local_readBodyV1 Y remain h⟩

/-- `walk_bytes`: **bytes → tokens as one theorem about the Go reads**, for message sets of uncompressed v2 batches and
uncompressed v0 / v1 messages in any order.  `BR.walk` (Model/ByteWalk.lean) strings the byte-level statements together
the way the decoder runs them over a message set: `readHeaderB` (readHeader field by field, `switch magic`), then
`count` × `readRecordV2` (the record part of readMessageV2) resp. `readBodyV1` (key and value in readMessageV1), each
with `remain` = what is left of the set; errShortRead ends it.  On the reference encoding of any such list of items,
cut at any byte `n`, it emits exactly `truncate (tokens of the layout) n` — the token stream `single_fetch` is about,
and the one `tokenize` produces.  Uses `header_bytes` / `record_bytes` / `message_bytes` for the parts that are complete
and `reads_within_remain` for the part the cut goes through.  `dgv` / `dgm` digest a record / message as the Go code
holds it, `c.dg2` / `c.dg1` as the log stores it; `hdg`, `hdm`: they agree. -/
theorem walk_bytes (dgv : Int → BR.RecView → Nat) (dgm : H1 → Int → Option Bytes → Option Bytes → Nat) (c : TokCfg)
    (enc : Int → Bytes → Bytes) (hdg : ∀ fts r, dgv fts (BR.viewOf r) = c.dg2 fts r)
    (hdm : ∀ m : Spec.RB.Msg, m.WF → dgm ⟨m.offset, m.magic, m.attributes, (encB1 m).length⟩ m.ts m.key m.value = c.dg1 m)
    (its : List BItem) (hits : ∀ it ∈ its, it.WF c enc ∧ BR.PlainItem it) (n : Nat) :
    BR.walk dgv dgm (n + 1) .hdr ((encItems c enc its).take n) = truncate (allTokens (layoutOfItems c enc its)) n :=
  BR.walk_items dgv dgm c enc hdg hdm its hits n (n + 1) (by omega)

/-- the walk and the tokenizer agree (on everything the walk covers) -/
theorem walk_eq_tokenize (dgv : Int → BR.RecView → Nat) (dgm : H1 → Int → Option Bytes → Option Bytes → Nat) (c : TokCfg)
    (enc : Int → Bytes → Bytes) (hdec : ∀ k b, c.dec k (enc k b) = some b) (hpos : ∀ k b, 0 < (enc k b).length)
    (h1 : ∀ b, c.crcs.ieee b < RW.M32) (h2 : ∀ b, c.crcs.castagnoli b < RW.M32)
    (hdg : ∀ fts r, dgv fts (BR.viewOf r) = c.dg2 fts r)
    (hdm : ∀ m : Spec.RB.Msg, m.WF → dgm ⟨m.offset, m.magic, m.attributes, (encB1 m).length⟩ m.ts m.key m.value = c.dg1 m)
    (its : List BItem) (hits : ∀ it ∈ its, it.WF c enc ∧ BR.PlainItem it) (n : Nat) :
    BR.walk dgv dgm (n + 1) .hdr ((encItems c enc its).take n) = tokenize c (n + 1) .hdr ((encItems c enc its).take n) := by
  rw [walk_bytes dgv dgm c enc hdg hdm its hits n,
    tokenize_items c enc hdec hpos h1 h2 its (fun it h => (hits it h).1) n (n + 1) (by omega)]

/-- `single_fetch_walk`: `single_fetch` with the tokens read off the bytes by the Go statements (`BR.walk`) instead of
given: for any log of uncompressed v2 batches and v0 / v1 messages in its reference encoding (holes, empty batches, items
beginning before the start offset: whatever `LWF` admits), cut at any byte, any start offset — the decoder delivers
exactly the stored records at or above `o` that lie completely within the first `n` bytes, never desynchronises, never
jumps over a stored record. -/
theorem single_fetch_walk (dgv : Int → BR.RecView → Nat) (dgm : H1 → Int → Option Bytes → Option Bytes → Nat) (c : TokCfg)
    (enc : Int → Bytes → Bytes) (hdg : ∀ fts r, dgv fts (BR.viewOf r) = c.dg2 fts r)
    (hdm : ∀ m : Spec.RB.Msg, m.WF → dgm ⟨m.offset, m.magic, m.attributes, (encB1 m).length⟩ m.ts m.key m.value = c.dg1 m)
    (its : List BItem) (hits : ∀ it ∈ its, it.WF c enc ∧ BR.PlainItem it)
    (nb : Int) (hnb : 0 ≤ nb) (hwf : LWF nb (layoutOfItems c enc its))
    (o hwm : Int) (ho : 0 ≤ o) (hsafe : Safe o (layoutOfItems c enc its)) (hne : hwm ≠ o) (expired : Bool) (n : Nat) :
    let toks := BR.walk dgv dgm (n + 1) .hdr ((encItems c enc its).take n)
    (readAll .fixed expired o hwm toks).1 = (contained (layoutOfItems c enc its) n).filter (fun r => o ≤ r.1) ∧
    (readAll .fixed expired o hwm toks).2.2 ≠ .desync ∧
    (∀ r ∈ allRecords (layoutOfItems c enc its), o ≤ r.1 → r.1 < (readAll .fixed expired o hwm toks).2.1 →
      r ∈ (readAll .fixed expired o hwm toks).1) := by
  have h := single_fetch (layoutOfItems c enc its) nb hnb hwf o hwm ho hsafe hne (n : Int) expired
  have hc : ¬ ((n : Int) < 0) := by omega
  simp only [responseTokens, containedRecords, hc, if_false, Int.toNat_natCast] at h
  simp only [walk_bytes dgv dgm c enc hdg hdm its hits n]
  exact ⟨h.1, h.2.1, h.2.2.1⟩

/-- `varint_refill`: the byte-level theorems above know a reader as the bytes it can still deliver.  The one function of
read.go whose control flow depends on where the *buffered* bytes end is `readVarInt` (the fixed-width readers use
`Peek(n)`, which bufio completes across refills): `Model/BufVarInt.lean` is its loop as written, over a bufio.Reader
(`buf`) refilled by reads of the connection (`chunks`, one element per read, then EOF).  For every buffered prefix and
every sequence of reads it returns the value (or errShortRead), leaves the stream and hands back the `remain` that
`BR.readVarInt` defines on the concatenation — so `record_bytes`, `message_bytes`, `wrapper_bytes` and with them the
token-level theorems hold however the network cuts a response, and `remain` always drops by exactly the bytes taken
from the stream (seeded/C06-m7 lost the bytes consumed before a refill: the tail of the batch then eats bytes of the
next response). -/
theorem varint_refill (sz : Nat) (b : BV.BufRd) : (BV.readVarIntBuf sz b).abs = BR.readVarInt ⟨b.stream, sz⟩ :=
  BV.readVarIntBuf_eq sz b

/-- a two-byte varint (300 zigzag-encoded = 600 = 0xD8 0x04) whose second byte arrives with the next read, 10 bytes of
the set left: the value, one byte of the next chunk left over, `remain` 8 — the same as with both bytes buffered -/
example : BV.readVarIntBuf 10 ⟨[0xD8], [[0x04, 0x07]]⟩ = .ok (300, ⟨[0x07], []⟩, 8) ∧
    BV.readVarIntBuf 10 ⟨[0xD8, 0x04, 0x07], []⟩ = .ok (300, ⟨[0x07], []⟩, 8) ∧
    BV.readVarIntBuf 10 ⟨[], [[0xD8], [], [0x04], [0x07]]⟩ = .ok (300, ⟨[], [[0x07]]⟩, 8) ∧
    BV.readVarIntBuf 1 ⟨[0xD8], [[0x04, 0x07]]⟩ = .error (.short, ⟨[], [[0x04, 0x07]]⟩, 0) ∧
    BV.readVarIntBuf 10 ⟨[0xD8], []⟩ = .error (.short, ⟨[], []⟩, 9) := by
  refine ⟨?_, ?_, ?_, ?_, ?_⟩ <;> simp [BV.readVarIntBuf, BV.varLoop, BV.round, BV.scan, RW.unzigzag]

/-! ### the decoder as the Go code is written (Model/PullReader.lean)

`Pull.readAll` follows message_reader.go / batch.go statement by statement: the reader stack, `readHeader`, the loop over
empty batches in `readMessage`, `readMessageV2` with the payload push, `markRead` / `unwindStack`, `(*Batch).readMessage`
with its error switch, the skip loop of `(*Batch).ReadMessage`.  The token machine of Model/MessageSetReader.lean is the
same computation organised by tokens instead of by calls. -/

/-- `pull_eq_run`: on *any* token stream — v2 batch headers, records, compressed payloads, v0/v1 messages, wrappers, cut, in
any order, well formed or not (only: a v0/v1 header token carries magic 0 or 1, `allWF`) — whenever the token machine
does not report a desynchronisation the pull parser returns the same messages, the same conn offset and the same
outcome.  The proof is a simulation: `Lemmas/PullReader.lean` `Rel` relates the reader stack of the Go code to a position
of the token machine; `v1_loop` is `readMessageV1`'s `for r.readerStack != nil` loop (skip below `min`, wrapper push,
pop of exhausted readers), `headerLoop_flat` the loop over empty batches, `call_any` one `(*Batch).readMessage`. -/
theorem pull_eq_run (e : Bool) (o hwm : Int) (toks : List Tok) (hv : allWF toks)
    (hnd : (readAll .fixed e o hwm toks).2.2 ≠ .desync) :
    Pull.readAll e o hwm toks = readAll .fixed e o hwm toks :=
  pull_eq_run_all e o hwm toks hv hnd

/-- `single_fetch` for the pull parser: on every well-formed layout (v2 batches plain and compressed, v0/v1 messages and
wrappers, mixed), any cut, any start offset, the code as written delivers exactly the completely contained records at
or above the start offset, in increasing order, below the new position, and jumps over no stored record -/
theorem single_fetch_pull (items : List Item) (nb : Int) (hnb : 0 ≤ nb) (hwf : LWF nb items) (o hwm : Int) (ho : 0 ≤ o)
    (hsafe : Safe o items) (hne : hwm ≠ o) (cut : Int) (expired : Bool) :
    let res := Pull.readAll expired o hwm (responseTokens items cut)
    res.1 = (containedRecords items cut).filter (fun r => o ≤ r.1) ∧ res.2.2 ≠ .desync ∧
    (∀ r ∈ allRecords items, o ≤ r.1 → r.1 < res.2.1 → r ∈ res.1) ∧
    (∀ r ∈ res.1, r.1 < res.2.1) ∧
    res.1.Pairwise (fun a b => a.1 < b.1) := by
  have h := single_fetch items nb hnb hwf o hwm ho hsafe hne cut expired
  have hv : allWF (responseTokens items cut) := by
    unfold responseTokens
    split
    · exact allWF_tokens items nb hwf
    · exact allWF_truncate _ _ (allWF_tokens items nb hwf)
  rw [pull_eq_run expired o hwm _ hv h.2.1]
  exact h

/-- `single_fetch_bytes` for the pull parser: **bytes in, code as written** — the first `n` bytes of anything the reference
encoder emits, tokenized, then read by the statement-level model of message_reader.go / batch.go -/
theorem single_fetch_bytes_pull (c : TokCfg) (enc : Int → Bytes → Bytes) (hdec : ∀ k b, c.dec k (enc k b) = some b)
    (hpos : ∀ k b, 0 < (enc k b).length) (h1 : ∀ b, c.crcs.ieee b < RW.M32) (h2 : ∀ b, c.crcs.castagnoli b < RW.M32)
    (its : List BItem) (hitems : ∀ it ∈ its, it.WF c enc) (nb : Int) (hnb : 0 ≤ nb) (hwf : LWF nb (layoutOfItems c enc its))
    (o hwm : Int) (ho : 0 ≤ o) (hsafe : Safe o (layoutOfItems c enc its)) (hne : hwm ≠ o) (expired : Bool) (n : Nat) :
    let toks := tokenize c (n + 1) .hdr ((encItems c enc its).take n)
    (Pull.readAll expired o hwm toks).1 = (contained (layoutOfItems c enc its) n).filter (fun r => o ≤ r.1) ∧
    (Pull.readAll expired o hwm toks).2.2 ≠ .desync ∧
    (∀ r ∈ allRecords (layoutOfItems c enc its), o ≤ r.1 → r.1 < (Pull.readAll expired o hwm toks).2.1 →
      r ∈ (Pull.readAll expired o hwm toks).1) := by
  have h := single_fetch_bytes c enc hdec hpos h1 h2 its hitems nb hnb hwf o hwm ho hsafe hne expired n
  have hv : allWF (tokenize c (n + 1) .hdr ((encItems c enc its).take n)) := by
    rw [tokenize_items c enc hdec hpos h1 h2 its hitems n (n + 1) (by omega)]
    exact allWF_truncate _ _ (allWF_tokens _ nb hwf)
  simp only at h ⊢
  rw [pull_eq_run expired o hwm _ hv h.2.1]
  exact h

/-- observation (a), not a finding: *outside* the fetch contract — a response cut inside its first v2 batch — the
records below the start offset that were read and skipped leave the position below it (103 → 102); a later complete
response would then hand out record 102.  No broker produces this: v2 batches are only sent for fetch v4+, where
(KIP-74) the first batch always comes whole; for fetch v2 the data is v0/v1, whose items are read whole or not at all.
Under the contract `fetch_progress` excludes it. -/
theorem first_batch_cut_moves_back_example :
    readAll .fixed false 103 106 (responseTokens [.b2 99 103 false 73 [(2, 1, 18), (3, 2, 48), (4, 3, 7)]] 81)
      = ([], 102, .eof) := by decide

/-- observation (c), not a finding: an empty batch that still carries a compression attribute and a payload (the log
cleaner writes empty batches as a bare header, `LWF` says so) desynchronises the decoder -/
theorem compressed_empty_batch_desync_example :
    (readAll .fixed false 100 120 (responseTokens [.b2 100 101 true 20 [], .b2 102 103 false 12 [(0, 1, 12)]] (-1))).2.2
      = .desync := by decide

/-! ## 2. Repeated fetches against a broker that obeys the fetch contract -/

/-- `fetch_progress`: when the broker has anything at or after the position (`dropBefore q L ≠ []`) and is not at the
high watermark, one round moves the Conn strictly forward — whatever the byte budget, because the first batch comes
whole.  (This is what D15 broke: `compacted_tail_stuck_counterexample`.)  It never moves backwards. -/
theorem fetch_progress (items : List Item) (nb : Int) (hnb : 0 ≤ nb) (hwf : LWF nb items) (hwm q : Int) (hq : 0 ≤ q)
    (budget : Nat) :
    q ≤ (fetchOnce .fixed items hwm q budget).2.1 ∧
    (hwm ≠ q → dropBefore q items ≠ [] → q < (fetchOnce .fixed items hwm q budget).2.1) :=
  let h := fetch_round items nb hnb hwf hwm q hq budget
  ⟨h.1, h.2.2.2.2.2⟩

/-- `iterated_fetch`: for every well-formed log, every start offset and every sequence of byte budgets (= every sequence
of answers of a broker obeying the fetch contract), the concatenation of what the rounds deliver is exactly the log
between the start offset and the final conn offset: every delivered message is a stored record in that range
(duplicate-free and in order: strictly increasing offsets), and no stored record in that range is missing. -/
theorem iterated_fetch (items : List Item) (nb : Int) (hnb : 0 ≤ nb) (hwf : LWF nb items) (hwm start : Int) (hs : 0 ≤ start)
    (budgets : List Nat) :
    let res := fetchSeq .fixed items hwm start budgets
    start ≤ res.2 ∧
    (∀ r ∈ res.1, r ∈ allRecords items ∧ start ≤ r.1 ∧ r.1 < res.2) ∧
    (∀ r ∈ allRecords items, start ≤ r.1 → r.1 < res.2 → r ∈ res.1) ∧
    res.1.Pairwise (fun a b => a.1 < b.1) :=
  fetchSeq_inv items nb hnb hwf hwm budgets start hs

/-- … so once the conn offset has reached the high watermark everything from the start offset on has been delivered -/
theorem iterated_fetch_complete (items : List Item) (nb : Int) (hnb : 0 ≤ nb) (hwf : LWF nb items) (hwm start : Int)
    (hs : 0 ≤ start) (budgets : List Nat) (hall : ∀ r ∈ allRecords items, r.1 < hwm)
    (hend : (fetchSeq .fixed items hwm start budgets).2 = hwm) :
    ∀ r ∈ allRecords items, start ≤ r.1 → r ∈ (fetchSeq .fixed items hwm start budgets).1 := by
  intro r hr h1
  exact (iterated_fetch items nb hnb hwf hwm start hs budgets).2.2.1 r hr h1 (by rw [hend]; exact hall r hr)

/-- concrete instances on the defect layouts -/
example : (fetchSeq .fixed d15Layout 112 100 [100, 100]).1 = (allRecords d15Layout).filter (fun r => 100 ≤ r.1) := by decide

/-- on the legacy code the same budgets never get past the compacted tail -/
theorem iterated_fetch_legacy_counterexample :
    (fetchSeq .legacy d15Layout 112 100 [100, 100, 100, 100]) = ([(100, 7), (101, 8)], 102) := by decide

/-- §1 and §2 for the code as extracted now -/
theorem single_fetch_current (items : List Item) (nb : Int) (hnb : 0 ≤ nb) (hwf : LWF nb items)
    (o hwm : Int) (ho : 0 ≤ o) (hsafe : Safe o items) (hne : hwm ≠ o) (cut : Int) (expired : Bool) :
    let res := readAll currentVariant expired o hwm (responseTokens items cut)
    res.1 = (containedRecords items cut).filter (fun r => o ≤ r.1) ∧ res.2.2 ≠ .desync ∧
    (∀ r ∈ allRecords items, o ≤ r.1 → r.1 < res.2.1 → r ∈ res.1) := by
  rw [current_code_is_fixed]
  have h := single_fetch items nb hnb hwf o hwm ho hsafe hne cut expired
  exact ⟨h.1, h.2.1, h.2.2.1⟩

theorem iterated_fetch_current (items : List Item) (nb : Int) (hnb : 0 ≤ nb) (hwf : LWF nb items) (hwm start : Int)
    (hs : 0 ≤ start) (budgets : List Nat) :
    let res := fetchSeq currentVariant items hwm start budgets
    start ≤ res.2 ∧ (∀ r ∈ res.1, r ∈ allRecords items ∧ start ≤ r.1 ∧ r.1 < res.2) ∧
    (∀ r ∈ allRecords items, start ≤ r.1 → r.1 < res.2 → r ∈ res.1) ∧ res.1.Pairwise (fun a b => a.1 < b.1) := by
  rw [current_code_is_fixed]
  exact iterated_fetch items nb hnb hwf hwm start hs budgets

/-! ## 3. The Reader's loop (reader.go run / initialize / read) -/

/-- `restart_offset`: every fault (connection cut after any prefix of a response, NotLeaderForPartition,
UnknownTopicOrPartition, time-out) closes the connection and leaves `offset` at last delivered + 1 (unchanged when
nothing was delivered) … -/
theorem restart_offset_faults (v : Variant) (s : RL) (hwm first last : Int) :
    onAnswer v s hwm first last (.err 6) = .go { s with connOpen := false } ∧
    onAnswer v s hwm first last (.err 3) = .go { s with connOpen := false } ∧
    onAnswer v s hwm first last .hang = .go { s with connOpen := false } ∧
    (∀ toks, ∃ d, onAnswer v s hwm first last (.cutAfter toks) = .go { deliver s d with connOpen := false }) := by
  refine ⟨rfl, rfl, rfl, fun toks => ⟨_, rfl⟩⟩

theorem deliver_offset (s : RL) (d : List Rec) (r : Rec) (h : d.getLast? = some r) : (deliver s d).offset = r.1 + 1 := by
  simp [deliver, h]

theorem deliver_nothing (s : RL) : (deliver s []).offset = s.offset := by simp [deliver]

/-- … and the next `initialize` seeks the new connection exactly there -/
theorem restart_offset (s : RL) (first last : Int) (h0 : 0 ≤ s.offset) (h1 : first ≤ s.offset) (h2 : s.offset ≤ last) :
    initializeRL s first last = some { s with connOpen := true, connOff := s.offset } := by
  have a : ¬ s.offset = -1 := by omega
  have b : ¬ s.offset = -2 := by omega
  have c : ¬ s.offset < first := by omega
  have d : ¬ s.offset > last := by omega
  simp [initializeRL, a, b, c, d]

example : initializeRL { offset := 107 } 100 115 = some { offset := 107, connOpen := true, connOff := 107 } := by rfl

/-- `out_of_range_seeks` (D3 repaired): OffsetOutOfRange below the log start moves the position *and the connection*
to the first offset -/
theorem out_of_range_seeks (s : RL) (hwm first last : Int) (h : s.offset < first) :
    onAnswer currentVariant s hwm first last (.err 1) = .go { s with offset := first, connOff := first } := by
  rw [current_code_is_fixed]
  simp [onAnswer, h]

/-- D3 on the legacy code: the connection keeps its stale offset, so the same fetch is repeated forever -/
theorem out_of_range_counterexample :
    onAnswer .legacy { offset := 105, connOpen := true, connOff := 105 } 115 110 115 (.err 1)
      = .go { offset := 110, connOpen := true, connOff := 105 } := by rfl

/-! ### the whole reconnect / backoff loop (Model/ReaderLoopLTS.lean: `rstep`, a total LTS)

Events are the outcomes of the blocking calls of `(*reader).run`: the backoff sleeps (done / context cancelled),
`initialize` (failed — dial, readOffsets, or Seek out of range — or succeeded with the partition's first/last offsets),
and one `read`: a fetch round (`data`), a connection lost after a prefix of a response (`cutAfter`), a partition error of
any code (with what the follow-up `readOffsets` says for OffsetOutOfRange), another I/O error, context.Canceled
after a prefix of the round's messages had been handed on, errUnknownCodec.  `Good` restricts the environment only as far as §1–§2 prove it: a `data` event is a round as
`fetch_round` describes it, a `cutAfter` event delivers an initial segment of the log from the conn offset
(`single_fetch` on the bytes that arrived), and a reported first offset is not above a record that still exists. -/

/-- `reader_loop_exactly_once`: for **every** event sequence — any interleaving of faults, retries, reconnects, backoff
sleeps, leader changes (= failed reads followed by a new initialize), out-of-range resets — what the loop has pushed
into `r.msgs` is strictly increasing (each record once, in order) and is exactly the stored records between the
resolved start offset and the loop's `offset` (nothing missing, nothing else). -/
theorem reader_loop_exactly_once (cfg : RCfg) (log : List Rec) (o0 : Int) (ho : -2 ≤ o0) (es : List REv)
    (hg : GoodRun cfg log { offset := o0 } es) :
    let s := rrun cfg { offset := o0 } es
    s.msgs.Pairwise (fun a b => a.1 < b.1) ∧
    (s.start = none → s.msgs = []) ∧
    (∀ st, s.start = some st →
      (∀ r ∈ s.msgs, r ∈ log ∧ st ≤ r.1 ∧ r.1 < s.offset) ∧ (∀ r ∈ log, st ≤ r.1 → r.1 < s.offset → r ∈ s.msgs)) := by
  have h := rinv_run cfg log es _ (rinv_init log o0 ho) hg
  exact ⟨h.sorted, fun h0 => (h.nostart h0).1, fun st hst => ⟨(h.bounds st hst).2.2.1, (h.bounds st hst).2.2.2⟩⟩

/-- `restart_offset`, general form: whenever the loop holds a connection — after any history of faults — that
connection is positioned (`connOff`) at or after `offset`, everything delivered lies below `offset`, every stored
record from the start offset below it has been delivered, and no stored record lies between `offset` and the
connection's position: the next fetch can neither repeat nor skip a record. -/
theorem restart_offset_general (cfg : RCfg) (log : List Rec) (o0 : Int) (ho : -2 ≤ o0) (es : List REv)
    (hg : GoodRun cfg log { offset := o0 } es) (hr : (rrun cfg { offset := o0 } es).phase = .reading) :
    let s := rrun cfg { offset := o0 } es
    s.offset ≤ s.connOff ∧ (∀ r ∈ s.msgs, r.1 < s.offset) ∧ (∀ r ∈ log, s.offset ≤ r.1 → r.1 < s.connOff → False) := by
  have h := rinv_run cfg log es _ (rinv_init log o0 ho) hg
  obtain ⟨hst, h1, h2⟩ := h.conn hr
  refine ⟨h1, ?_, h2⟩
  intro r hr'
  cases hs : (rrun cfg { offset := o0 } es).start with
  | none => exact absurd hs hst
  | some st => exact ((h.bounds st hs).2.2.1 r hr').2.2

/-- a successful `initialize` positions the new connection exactly at `offset` (after clamping to the first offset) -/
theorem initialize_seeks_offset (cfg : RCfg) (s : RR) (first last : Int) (hp : s.phase = .top)
    (hs : s.attempt = 0 ∨ s.slept = true) (hle : resolve s.offset first last ≤ last) :
    (rstep cfg s (.initOk first last)).phase = .reading ∧
    (rstep cfg s (.initOk first last)).connOff = resolve s.offset first last ∧
    (rstep cfg s (.initOk first last)).offset = resolve s.offset first last := by
  have hgt : ¬ resolve s.offset first last > last := by omega
  rcases hs with h | h <;> simp [rstep, hp, h, hgt]

/-- totality: every event is accepted in every state (`rstep` is a function), and a stopped loop stays stopped -/
theorem reader_loop_stopped (cfg : RCfg) (s : RR) (hp : s.phase = .stopped) (es : List REv) : rrun cfg s es = s := by
  induction es with
  | nil => rfl
  | cons e es ih => simp [rrun, rstep, hp, ih]

/-- the hypotheses are met by a run with a lost connection and a re-initialisation -/
example : GoodRun {} [(3, 1), (4, 2), (7, 3)] { offset := -2 }
    [.initOk 3 8, .sleepOk, .data [(3, 1)] 4 .eof, .sleepOk, .cutAfter [(4, 2)], .sleepOk, .initOk 3 8, .sleepOk,
     .data [(7, 3)] 8 .timedOut] ∧
    (rrun {} { offset := -2 }
    [.initOk 3 8, .sleepOk, .data [(3, 1)] 4 .eof, .sleepOk, .cutAfter [(4, 2)], .sleepOk, .initOk 3 8, .sleepOk,
     .data [(7, 3)] 8 .timedOut]).msgs = [(3, 1), (4, 2), (7, 3)] := by
  refine ⟨?_, by decide⟩
  simp only [GoodRun, Good, rstep, toTop, again, pushMsgs, resolve, and_true, true_and]
  refine ⟨by simp, ⟨⟨by simp, by simp, ?_, by simp⟩, by simp⟩, ⟨by simp, by simp, ?_⟩, by simp, ⟨by simp, by simp, ?_, by simp⟩, by simp⟩
  · intro r hr; simp at hr ⊢; rcases hr with rfl | rfl | rfl <;> simp
  · intro r hr x hx; simp at hr hx ⊢; subst hx; rcases hr with rfl | rfl | rfl <;> simp
  · intro r hr; simp at hr ⊢; rcases hr with rfl | rfl | rfl <;> simp

/-! ### end to end: the loop, the broker, the bytes, the decoder as written

`Model/ReaderWorld.lean` computes the outcomes of the `read` calls instead of assuming them: the partition stores the
layout `items`; a fetch at conn offset `q` is answered under the fetch contract (`serve`: the items from the one
containing `q`, the first one whole, then as far as the byte budget reaches) or the connection is lost after any number
`n` of bytes; what arrives is read by the statement-level model of message_reader.go / batch.go (`Pull.readAll`); the
result is the event fed to `rstep`.  All other events (sleeps, initialize, partition errors, I/O errors, cancellation)
stay free.  The one assumption left (`Env.ok`): a first offset reported by the broker is not above a stored record.
The partition may be **written to while it is read**: `fetchSnap m …` is a fetch answered at a moment when only the first
`m` batches / messages of `items` are stored (appends only).  Such an answer is an answer from the final layout cut after
fewer bytes (`serve_take`), so every theorem below speaks about a live partition, `items` being what it will hold in the
end: at every moment the loop has pushed exactly the records of the final log between its start offset and `offset`. -/

/-- `reader_end_to_end`: for every well-formed layout (formats 0/1/2, compression, holes, empty batches), every start
offset and **every** sequence of environment moves — byte budgets, high watermarks, deadline expiries, connections lost
at any byte, partition errors, reconnects, backoff sleeps — what `(*reader).run` has pushed into `r.msgs` is strictly
increasing and is exactly the stored records between the resolved start offset and the loop's `offset`. -/
theorem reader_end_to_end (cfg : RCfg) (items : List Item) (nb : Int) (hnb : 0 ≤ nb) (hwf : LWF nb items) (o0 : Int)
    (ho : -2 ≤ o0) (xs : List Env) (hx : ∀ x ∈ xs, x.ok items) :
    let s := worldRun cfg items { offset := o0 } xs
    s.msgs.Pairwise (fun a b => a.1 < b.1) ∧
    (s.start = none → s.msgs = []) ∧
    (∀ st, s.start = some st →
      (∀ r ∈ s.msgs, r ∈ allRecords items ∧ st ≤ r.1 ∧ r.1 < s.offset) ∧
      (∀ r ∈ allRecords items, st ≤ r.1 → r.1 < s.offset → r ∈ s.msgs)) := by
  have h := rinv_world_run cfg items nb hnb hwf xs _ (rinv_init (allRecords items) o0 ho) hx
  exact ⟨h.sorted, fun h0 => (h.nostart h0).1, fun st hst => ⟨(h.bounds st hst).2.2.1, (h.bounds st hst).2.2.2⟩⟩

/-- … and whenever the loop holds a connection whose position has passed the last stored record, every stored record
from the start offset on has been delivered (nothing can still be skipped): `offset ≤ connOff` with no stored record
in between -/
theorem reader_end_to_end_complete (cfg : RCfg) (items : List Item) (nb : Int) (hnb : 0 ≤ nb) (hwf : LWF nb items) (o0 : Int)
    (ho : -2 ≤ o0) (xs : List Env) (hx : ∀ x ∈ xs, x.ok items)
    (hr : (worldRun cfg items { offset := o0 } xs).phase = .reading)
    (hall : ∀ r ∈ allRecords items, r.1 < (worldRun cfg items { offset := o0 } xs).connOff) :
    ∀ st, (worldRun cfg items { offset := o0 } xs).start = some st →
      ∀ r ∈ allRecords items, st ≤ r.1 → r ∈ (worldRun cfg items { offset := o0 } xs).msgs := by
  have h := rinv_world_run cfg items nb hnb hwf xs _ (rinv_init (allRecords items) o0 ho) hx
  intro st hst r hrl h1
  obtain ⟨_, _, hgap⟩ := h.conn hr
  by_cases hlt : r.1 < (worldRun cfg items { offset := o0 } xs).offset
  · exact (h.bounds st hst).2.2.2 r hrl h1 hlt
  · exact absurd (hgap r hrl (by omega) (hall r hrl)) id

/-- one fetch of the loop makes progress: with an open connection, data at or after its position and a high watermark
different from it, the connection's position moves forward (so finitely many fault-free fetches pass any record) -/
theorem reader_end_to_end_progress (cfg : RCfg) (items : List Item) (nb : Int) (hnb : 0 ≤ nb) (hwf : LWF nb items) (s : RR)
    (hp : s.phase = .reading) (hs : s.slept = true) (hq : 0 ≤ s.connOff) (b : Nat) (hwm : Int) (e : Bool)
    (hne : hwm ≠ s.connOff) (hdata : dropBefore s.connOff items ≠ []) :
    s.connOff < (rstep cfg s (worldEvent items s (.fetch b hwm e))).connOff :=
  world_fetch_progress cfg items nb hnb hwf s hp hs hq b hwm e hne hdata

/-- `reader_loop_is_fetcher`: the front model (§4, `fstep`) lets the fetcher started by `SetOffset(o)` enqueue, as its
`k`-th message, `(feed log o)[k]` — the `k`-th stored record at or above `o`.  The loop does exactly that, end to end:
started at an absolute offset or at FirstOffset, under every environment, the `k`-th message it pushes into `r.msgs` is
the `k`-th stored record at or above the start offset.  (For LastOffset the start is whatever the broker reports as
last offset; `reader_end_to_end` covers it.) -/
theorem reader_loop_is_fetcher (cfg : RCfg) (items : List Item) (nb : Int) (hnb : 0 ≤ nb) (hwf : LWF nb items) (o0 : Int)
    (ho : -2 ≤ o0) (hne : o0 ≠ -1) (xs : List Env) (hx : ∀ x ∈ xs, x.ok items) (k : Nat) (r : Rec)
    (hk : (worldRun cfg items { offset := o0 } xs).msgs[k]? = some r) :
    (feed (allRecords items) o0)[k]? = some r := by
  obtain ⟨t, ht⟩ := world_msgs_prefix cfg items nb hnb hwf o0 ho hne xs hx
  rw [← ht]
  have hlt : k < (worldRun cfg items { offset := o0 } xs).msgs.length := by
    rcases Nat.lt_or_ge k (worldRun cfg items { offset := o0 } xs).msgs.length with h | h
    · exact h
    · rw [List.getElem?_eq_none h] at hk; cases hk
  rw [List.getElem?_append_left hlt]
  exact hk

/-- `reader_no_starvation` (the defects D3, D4/D14, D15 of the pinned code were all of this kind: the loop alive, fetching,
and never getting past a point of the log): after **any** history, whenever the loop holds a connection, `k` fault-free
rounds (backoff sleep, fetch — any byte budgets, deadline passed or not, high watermark above the log) with `k` at least
the number of stored batches / messages (in particular `k ≥ |items|`) leave every stored record from the start offset
on pushed into `r.msgs`. -/
theorem reader_no_starvation (cfg : RCfg) (items : List Item) (nb : Int) (hnb : 0 ≤ nb) (hwf : LWF nb items) (hwm : Int)
    (hh : ∀ it ∈ items, it.last < hwm) (o0 : Int) (ho : -2 ≤ o0) (xs : List Env) (hx : ∀ x ∈ xs, x.ok items)
    (hr : (worldRun cfg items { offset := o0 } xs).phase = .reading) (moves : List (Nat × Bool))
    (hk : items.length ≤ moves.length) :
    let s := worldRun cfg items (worldRun cfg items { offset := o0 } xs)
      (moves.flatMap fun m => [Env.sleepOk, Env.fetch m.1 hwm m.2])
    ∃ st, s.start = some st ∧ ∀ r ∈ allRecords items, st ≤ r.1 → r ∈ s.msgs := by
  have h := rinv_world_run cfg items nb hnb hwf xs _ (rinv_init (allRecords items) o0 ho) hx
  exact catch_up cfg items nb hnb hwf hwm hh moves _ h
    (Or.inr ⟨hr, Nat.le_trans (dropBefore_length_le _ items) hk⟩)

/-- a partition that is being written to: the first fetch sees one batch, the second the next one as well -/
example : (worldRun {} [.b2 3 4 false 24 [(0, 1, 12), (1, 2, 12)], .b2 5 9 true 30 [(0, 3, 20), (4, 4, 20)]] { offset := -2 }
    [.initOk 3 5, .sleepOk, .fetchSnap 1 1000 5 false, .sleepOk, .fetchSnap 1 1000 5 false, .sleepOk,
     .fetchSnap 2 1000 10 false]).msgs = [(3, 1), (4, 2), (5, 3), (9, 4)] := by decide

/-- a run with a connection lost in the middle of a compressed batch and a re-initialisation -/
example : (worldRun {} [.b2 3 4 false 24 [(0, 1, 12), (1, 2, 12)], .b2 5 9 true 30 [(0, 3, 20), (4, 4, 20)]] { offset := -2 }
    [.initOk 3 10, .sleepOk, .fetch 10 10 false, .sleepOk, .lost 70 10 false, .sleepOk, .initOk 3 10, .sleepOk,
     .fetch 1 10 true]).msgs = [(3, 1), (4, 2), (5, 3), (9, 4)] := by decide

/-! ### the executable loop model of the oracle (Model/ReaderLoop.lean `onAnswer`) is this LTS

`toRL` forgets the counters; each broker `Answer` is one event of the LTS. -/

def toRL (s : RR) : RL :=
  { offset := s.offset, connOpen := s.phase == .reading, connOff := s.connOff, out := s.msgs }

theorem onAnswer_data (cfg : RCfg) (s : RR) (hp : s.phase = .reading) (hs : s.slept = true) (hwm first last : Int)
    (toks : List Tok) (hok : (readAll .fixed false s.connOff hwm toks).2.2 ≠ .desync) :
    onAnswer .fixed (toRL s) hwm first last (.data toks)
      = .go (toRL (rstep cfg s (.data (readAll .fixed false s.connOff hwm toks).1 (readAll .fixed false s.connOff hwm toks).2.1
          (readAll .fixed false s.connOff hwm toks).2.2))) := by
  simp only [onAnswer, toRL, rstep, hp, hs, Bool.not_true, Bool.false_eq_true, if_false]
  cases hoc : (readAll .fixed false s.connOff hwm toks).2.2 <;>
    simp_all [deliver, pushMsgs, again, toTop] <;>
    (cases hgl : (readAll .fixed false s.connOff hwm toks).1.getLast? <;> rfl)

theorem onAnswer_faults (cfg : RCfg) (s : RR) (hp : s.phase = .reading) (hs : s.slept = true) (hwm first last : Int) :
    onAnswer .fixed (toRL s) hwm first last (.err 6) = .go (toRL (rstep cfg s (.kerr 6 none))) ∧
    onAnswer .fixed (toRL s) hwm first last (.err 3) = .go (toRL (rstep cfg s (.kerr 3 none))) ∧
    onAnswer .fixed (toRL s) hwm first last (.err 7) = .go (toRL (rstep cfg s (.kerr 7 none))) ∧
    onAnswer .fixed (toRL s) hwm first last .hang = .go (toRL (rstep cfg s .ioErr)) ∧
    (s.offset < first →
      onAnswer .fixed (toRL s) hwm first last (.err 1) = .go (toRL (rstep cfg s (.kerr 1 (some (first, last)))))) := by
  refine ⟨?_, ?_, ?_, ?_, ?_⟩ <;>
    simp [onAnswer, toRL, rstep, onKerr, hp, hs, toTop, again] <;> intro h <;> simp [h]

/-! ## 4. The Reader's front (FetchMessage / SetOffset / version tags) -/

theorem dropWhile_filter_head (q : List (Nat × Rec)) (v : Nat) :
    ((q.dropWhile (fun e => e.1 != v)).head?) = ((q.filter (fun e => e.1 == v)).head?) := by
  induction q with
  | nil => rfl
  | cons e rest ih =>
    by_cases h : e.1 = v
    · simp [List.dropWhile, List.filter, h]
    · have h1 : (e.1 != v) = true := by simpa using h
      have h2 : (e.1 == v) = false := by simpa using h
      simp [List.dropWhile, List.filter, h1, h2, ih]

/-- `setoffset_next`: `SetOffset(o)` bumps the version; whatever stale entries are still queued, the next message
`FetchMessage` accepts carries the new tag, and — given that the fetcher started at `o` feeds the stored records at
or above `o` in order (`Fed`, by §1–§3) — it is the stored record with the smallest offset at or above `o`. -/
theorem setoffset_next (f : Front) (expected : List Rec) (hfed : Fed f expected) (r : Rec) (f' : Front)
    (h : f.fetchMessage = some (r, f')) : expected.head? = some r := by
  unfold Front.fetchMessage at h
  have hd := dropWhile_filter_head f.queue f.version
  cases hq : f.queue.dropWhile (fun e => e.1 != f.version) with
  | nil => simp [hq] at h
  | cons e rest =>
    simp only [hq, Option.some.injEq, Prod.mk.injEq] at h
    rw [hq] at hd
    simp only [List.head?_cons] at hd
    obtain ⟨t, ht⟩ := hfed
    cases hf : f.queue.filter (fun e => e.1 == f.version) with
    | nil => simp [hf] at hd
    | cons e' rest' =>
      rw [hf] at hd ht
      simp only [List.head?_cons, Option.some.injEq] at hd
      simp only [List.map_cons, List.cons_append] at ht
      rw [← ht, List.head?_cons, ← hd, h.1]

/-- stale entries are skipped: after SetOffset the two queued messages of the old fetcher are dropped -/
example : (({ version := 0, queue := [(0, (5, 1)), (0, (6, 2))] } : Front).setOffset.enqueue 1 (3, 9)).fetchMessage
    = some ((3, 9), { version := 1, queue := [] }) := by rfl

/-! ### `Fed` discharged: the front as a transition system (Model/ReaderFront.lean `fstep`)

Events: `setOffset o` (cancel, version++, start a fetcher at `o` that carries the new tag), `enqueue t` (fetcher `t` —
current or stale, cancelled or not, any number of times — sends its next record), `fetch` (FetchMessage).  The
fetchers send, in order, the stored records at or above their start offset (`iterated_fetch` for the loop of §3). -/

/-- the invariant holds initially and along every run -/
theorem front_invariant (log : List Rec) : ∀ (es : List FEv) (s s' : FS) (ms : List Rec),
    FInv log s → frun log s es = some (s', ms) → FInv log s' := by
  intro es
  induction es with
  | nil => intro s s' ms h hr; simp only [frun, Option.some.injEq, Prod.mk.injEq] at hr; rw [← hr.1]; exact h
  | cons e es ih =>
    intro s s' ms h hr
    simp only [frun] at hr
    cases hs : fstep log s e with
    | none => simp [hs] at hr
    | some p =>
      obtain ⟨s1, m⟩ := p
      simp only [hs] at hr
      cases hq : frun log s1 es with
      | none => simp [hq] at hr
      | some q =>
        obtain ⟨s2, ms'⟩ := q
        simp only [hq, Option.some.injEq, Prod.mk.injEq] at hr
        rw [← hr.1]
        exact ih s1 s2 ms' (finv_step h hs).1 hq

/-- `setoffset_next`, full form: after `SetOffset(o)` returns — in any reachable state of the front, whatever is still
queued and whatever the old fetchers still enqueue — the messages the following FetchMessage calls return are, in
order, the stored records at or above `o`; in particular the first one is the stored record with the smallest
offset at or above `o`. -/
theorem frun_cons {log : List Rec} {s s' : FS} {e : FEv} {es : List FEv} {ms : List Rec}
    (h : frun log s (e :: es) = some (s', ms)) :
    ∃ s1 m ms', fstep log s e = some (s1, m) ∧ frun log s1 es = some (s', ms') ∧
      ms = (match m with | some r => [r] | none => []) ++ ms' := by
  simp only [frun] at h
  cases hs : fstep log s e with
  | none => simp [hs] at h
  | some p =>
    obtain ⟨s1, m⟩ := p
    simp only [hs] at h
    cases hq : frun log s1 es with
    | none => simp [hq] at h
    | some q =>
      obtain ⟨s2, ms'⟩ := q
      simp only [hq, Option.some.injEq, Prod.mk.injEq] at h
      exact ⟨s1, m, ms', rfl, by rw [← h.1]; exact hq, h.2.symm⟩

theorem setoffset_delivers (log : List Rec) (s0 s' : FS) (h0 : FInv log s0) (o : Int) (es : List FEv)
    (hns : ∀ e ∈ es, notSet e) (ms : List Rec) (hr : frun log s0 (.setOffset o :: es) = some (s', ms)) :
    ms = (feed log o).take ms.length := by
  obtain ⟨s1, m, ms', hs, hq, rfl⟩ := frun_cons hr
  have hinv := (finv_step h0 hs).1
  simp only [fstep, Option.some.injEq, Prod.mk.injEq] at hs
  obtain ⟨rfl, rfl⟩ := hs
  have := front_run log es _ s' ms' (Fetcher.mk (s0.version + 1) o 0) hinv (by simp) rfl hns hq
  simpa using this

theorem setoffset_first (log : List Rec) (s0 s' : FS) (h0 : FInv log s0) (o : Int) (es : List FEv)
    (hns : ∀ e ∈ es, notSet e) (r : Rec) (ms : List Rec) (hr : frun log s0 (.setOffset o :: es) = some (s', r :: ms)) :
    (feed log o).head? = some r := by
  have := setoffset_delivers log s0 s' h0 o es hns (r :: ms) hr
  cases hf : feed log o with
  | nil => rw [hf] at this; simp at this
  | cons x xs => rw [hf] at this; simp only [List.length_cons, List.take_succ_cons, List.cons.injEq] at this; simp [this.1]

/-- a run: two messages of fetcher 1 are queued, SetOffset(12), the cancelled fetcher still enqueues one more, the new
one enqueues; FetchMessage skips the three stale entries -/
example : (frun [(10, 0), (11, 1), (12, 2), (13, 3)] {}
    [.setOffset 10, .enqueue 1, .enqueue 1, .setOffset 12, .enqueue 1, .enqueue 2, .fetch]).map (·.2) = some [(12, 2)] := by
  decide


/-! ## 5. The whole Reader (Model/ReaderSystem.lean)

The front of §4 with, instead of abstract fetchers, one loop of §3 per fetcher ever started, each against the world of
`Model/ReaderWorld.lean` (broker under the fetch contract, connections lost at any byte, deadlines, partition errors,
backoff) and the decoder as written; what a loop pushes goes into the queue with the loop's version tag.  Events:
`SetOffset(o)` (also the lazy start), a blocking call of any fetcher's loop — current or superseded — returning with
whatever the world does, `FetchMessage`. -/

/-- every reachable state of the system satisfies the invariant the theorems below start from.  `OkRun`: a first offset
the broker reports is not above a stored record (`Env.ok`), and the `l` of a `setOffsetLast l` is what the broker then
reports as log end to that fetcher (`CEv.okAt`). -/
theorem reader_reachable (cfg : RCfg) (items : List Item) (nb : Int) (hnb : 0 ≤ nb) (hwf : LWF nb items) (es : List CEv)
    (hok : OkRun cfg items {} es) (c : CS) (ms : List Rec) (hr : crun cfg items {} es = some (c, ms)) : CInv items c :=
  (crun_sim cfg items nb hnb hwf es {} c ms (cinv_init items) hok hr).1

/-- **C02**: in any reachable state of the Reader, after `SetOffset(o)` (an absolute offset or FirstOffset) the
messages the following `FetchMessage` calls return are — in order, without gap or repetition — the stored records at or
above `o`: `ms = take |ms| (feed log o)`.  For every well-formed layout of the partition (formats 0/1/2, compression,
holes, empty batches), every interleaving of FetchMessage with the loops' steps, every behaviour of broker (under the
fetch contract), network and clock, whatever the superseded fetchers still do and whatever is still queued. -/
theorem reader_delivers (cfg : RCfg) (items : List Item) (nb : Int) (hnb : 0 ≤ nb) (hwf : LWF nb items) (c0 c' : CS)
    (h0 : CInv items c0) (o : Int) (es : List CEv) (hok : OkRun cfg items c0 (.setOffset o :: es))
    (hns : ∀ e ∈ es, e.notSet) (ms : List Rec) (hr : crun cfg items c0 (.setOffset o :: es) = some (c', ms)) :
    ms = (feed (allRecords items) o).take ms.length := by
  obtain ⟨es', hn, hf⟩ := crun_after_set cfg items nb hnb hwf c0 c' h0 o es hok hns ms hr
  exact setoffset_delivers (allRecords items) c0.fs c'.fs h0.finv o es' hn ms hf

/-- … and after `SetOffset(LastOffset)` (or for a Reader configured to start there): the messages returned are, in order,
without gap or repetition, the stored records at or above the log end `l` the broker reported when the fetcher first
connected — through every later fault and reconnect (the loop reconnects at absolute offsets from then on). -/
theorem reader_delivers_last (cfg : RCfg) (items : List Item) (nb : Int) (hnb : 0 ≤ nb) (hwf : LWF nb items) (c0 c' : CS)
    (h0 : CInv items c0) (l : Int) (es : List CEv) (hok : OkRun cfg items c0 (.setOffsetLast l :: es))
    (hns : ∀ e ∈ es, e.notSet) (ms : List Rec) (hr : crun cfg items c0 (.setOffsetLast l :: es) = some (c', ms)) :
    ms = (feed (allRecords items) l).take ms.length := by
  obtain ⟨es', hn, hf⟩ := crun_after_set_last cfg items nb hnb hwf c0 c' h0 l es hok hns ms hr
  exact setoffset_delivers (allRecords items) c0.fs c'.fs h0.finv l es' hn ms hf

/-- … from the very start: a Reader configured with start offset `o` -/
theorem reader_delivers_from_start (cfg : RCfg) (items : List Item) (nb : Int) (hnb : 0 ≤ nb) (hwf : LWF nb items) (c' : CS)
    (o : Int) (es : List CEv) (hok : OkRun cfg items {} (.setOffset o :: es)) (hns : ∀ e ∈ es, e.notSet)
    (ms : List Rec) (hr : crun cfg items {} (.setOffset o :: es) = some (c', ms)) :
    ms = (feed (allRecords items) o).take ms.length :=
  reader_delivers cfg items nb hnb hwf {} c' (cinv_init items) o es hok hns ms hr

/-- a Reader started at LastOffset: the broker reports log end 5 on the first connection; after a lost connection the
second `initialize` reports 10 — irrelevant, the loop reconnects at its absolute offset; FetchMessage returns 5, 9 -/
example : (crun {} [.b2 3 4 false 24 [(0, 1, 12), (1, 2, 12)], .b2 5 9 true 30 [(0, 3, 20), (4, 4, 20)]] {}
    [.setOffsetLast 5, .env 1 (.initOk 3 5), .env 1 .sleepOk, .env 1 (.lost 70 10 false), .env 1 .sleepOk,
     .env 1 (.initOk 3 10), .env 1 .sleepOk, .env 1 (.fetch 1000 10 false), .fetch, .fetch]).map (·.2)
    = some [(5, 3), (9, 4)] := by decide

/-- a run of the whole system: start at FirstOffset, a fetch round, SetOffset(5) while two messages are queued, the
superseded loop still pushes a round, the new one starts inside the compressed batch; FetchMessage returns 5, 9 -/
example : (crun {} [.b2 3 4 false 24 [(0, 1, 12), (1, 2, 12)], .b2 5 9 true 30 [(0, 3, 20), (4, 4, 20)]] {}
    [.setOffset (-2), .env 1 (.initOk 3 10), .env 1 .sleepOk, .env 1 (.fetch 10 10 false), .setOffset 5,
     .env 1 .sleepOk, .env 1 (.fetch 1000 10 false), .env 2 (.initOk 3 10), .env 2 .sleepOk, .env 2 (.fetch 10 10 true),
     .fetch, .fetch]).map (·.2) = some [(5, 3), (9, 4)] := by decide


/-- **the sequential specification of the Reader's API** (`astep`: `Offset()` is `pos`; `SetOffset(o)` does nothing when
`o == Offset()`, else moves `Offset()` and — if a fetcher was ever started — restarts; `FetchMessage` lazily starts the
first fetcher at `Offset()`): in every reachable state, whatever the loops, the broker, the network and the superseded
fetchers have done and do,
* `FetchMessage` returns **the first stored record at or above `Offset()`**, and `Offset()` becomes its offset + 1;
* `SetOffset(o)` makes `Offset() = o`, a step of a loop leaves it alone;
* after `Close` nothing is handed out any more (FetchMessage = io.EOF, SetOffset = io.ErrClosedPipe: the state does not
  move), whatever is still queued and whatever the loops still push while they wind down.
Exactly-once, in-order, gap-free delivery from the position is the iteration of the first clause. -/
theorem reader_api (cfg : RCfg) (items : List Item) (nb : Int) (hnb : 0 ≤ nb) (hwf : LWF nb items) (o : Int)
    (ho : -2 ≤ o ∧ o ≠ -1) (es : List AEv) (hok : ∀ e ∈ es, e.ok items) (a : AS) (ms : List Rec)
    (hr : arun cfg items { pos := o } es = some (a, ms)) (e : AEv) (he : e.ok items) (a' : AS) (m : Option Rec)
    (hs : astep cfg items a e = some (a', m)) : ASpec items a e a' m :=
  (astep_inv cfg items nb hnb hwf (arun_inv cfg items nb hnb hwf es _ a ms (ainv_init items o ho) hok hr) he hs).2

/-- a run of the API: lazy start at FirstOffset, two messages, a no-op SetOffset(5) (= Offset()), SetOffset(9), the last
message -/
example : (arun {} [.b2 3 4 false 24 [(0, 1, 12), (1, 2, 12)], .b2 5 9 true 30 [(0, 3, 20), (4, 4, 20)]] { pos := -2 }
    [.fetch, .env 1 (.initOk 3 10), .env 1 .sleepOk, .env 1 (.fetch 10 10 false), .fetch, .fetch, .setOffset 5,
     .env 1 .sleepOk, .env 1 (.fetch 1000 10 false), .setOffset 9, .env 2 (.initOk 3 10), .env 2 .sleepOk,
     .env 2 (.fetch 10 10 true), .fetch]).map (fun p => (p.2, p.1.pos)) = some ([(3, 1), (4, 2), (9, 4)], 10) := by decide

/-- a run with Close: two messages, Close, the loop still pushes a round, FetchMessage hands out nothing more -/
example : (arun {} [.b2 3 4 false 24 [(0, 1, 12), (1, 2, 12)], .b2 5 9 true 30 [(0, 3, 20), (4, 4, 20)]] { pos := -2 }
    [.fetch, .env 1 (.initOk 3 10), .env 1 .sleepOk, .env 1 (.fetch 10 10 false), .fetch, .fetch, .close,
     .env 1 .sleepOk, .env 1 (.fetch 1000 10 false), .fetch, .setOffset 3, .fetch]).map (fun p => (p.2, p.1.pos, p.1.closed))
    = some ([(3, 1), (4, 2)], 5, true) := by decide

end KV.C02
