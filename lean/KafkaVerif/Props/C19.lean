/-
Props/C19.lean — Offset and metadata queries report exactly the brokers' state.

Theorems (over Model/ListOffsets.lean and Model/Seek.lean):
  split_single            Split yields one single-partition request per requested entry, in order, same header
  entries_exact           positional results → exactly one entry per requested (topic, partition, timestamp):
                          the sub-result with the requested timestamp restored, or the UNKNOWN placeholder of
                          that partition when its part failed
  split_merge             … and Merge returns a response whose entries are a permutation of those (nothing lost,
                          duplicated or altered by the grouping and sorting) unless every part failed
  split_merge_all_failed  every part failed → the first error
  failure_isolated        replacing one part's outcome changes that partition's entry only
  merge_throttle          the merged throttle is the maximum of the parts' throttles
  seek_correct            all four whence modes (+ SeekDontCheck): new offset = designated position, range-checked
                          against the partition's first/last offsets exactly when the mode demands it
  seek_src_eq / seek_src_correct   the decision tree obtained by symbolic execution of conn.go Seek (Gen.Offsets.seekSrc) equals the
                          model and meets the reference; the returned value is the new connection offset
  seek_no_change_on_error a failed Seek leaves the connection offset unchanged
  offset_roundtrip        Conn.Offset reports a position that Seek maps back to the same connection offset
  merge_statements_shape  the decisions / field updates of listoffsets Merge (regenerated, canonicalised) are the model's
  mapping_sources         regenerated field-copy tables of the mapping functions agree with the models' sources
  mapping_exact_*         the field mappings as theorems over Model/Mappings.lean and Model/ListOffsets.lean:
    mapping_exact_offsetFetch_all  nil/empty user map → NULL on the wire → every committed partition (an empty array would give none)
    mapping_exact_offsetFetch      coordinator state → OffsetFetch answer → user response = the state, per requested partition
    mapping_exact_offsetCommit_request / _response   every user commit reaches the wire unchanged; per-partition errors come back
    mapping_exact_consumerOffsets / consumerOffsets_group_error   partition → committed offset; a failed partition is left out and its
                                   error returned, a group-level error fails the call (C19-D31 fixed)
    mapping_exact_metadata         every leader / replica / ISR id of the answer is reported as that id (listed or not: C19-D30 fixed);
                                   listed ids resolve to exactly that broker; order and fields kept
    mapping_exact_readPartitions   same for Conn.ReadPartitions (placeholder brokers for unlisted ids)
    readPartitions_error_scope / readPartitionsTopics_spec   ReadPartitions: which topics are asked for; a topic error ends the call only when it
                          concerns the connection, otherwise every partition of every answered topic is reported
    readOffsets_exact     ReadOffsets: both offsets iff both requests succeeded; no value leaks on error
    mapping_exact_listOffsets_step one merged entry updates its own partition's record only, in the field its timestamp selects
    clientInit_keys / clientListOffsets_total   end to end: request → split → (any part outcomes, not all failed) → merge → fold never
                          panics and returns a record set
    clientStep_other / clientApply_untouched / clientApply_total   the whole fold: partitions the response does not mention keep their
                          record, no record is lost, and no nil-map panic when every entry concerns a requested partition
-/
import KafkaVerif.Model.ListOffsets
import KafkaVerif.Model.Seek
import KafkaVerif.Spec.Offsets
import KafkaVerif.Lemmas.ListOffsets
import KafkaVerif.Model.Mappings
import KafkaVerif.Lemmas.Mappings
import KafkaVerif.Spec.FieldMaps
import KafkaVerif.Gen.Mappings

namespace KV.Props.C19
open KV.ListOffsets KV.Seek
open KV.Spec.Offsets (seekTarget)

/-! ## ListOffsets: split and merge -/

/-- the single-partition request Split builds for one requested entry -/
def single (r : Request) (tp : String × ReqPart) : Request :=
  { replicaID := r.replicaID, isolation := r.isolation, topics := [(tp.1, [tp.2])] }

theorem split_single (r : Request) : split r = (flat r).map (single r) := rfl

theorem split_covers (r : Request) : (split r).flatMap flat = flat r := by
  rw [split_single]
  induction flat r with
  | nil => rfl
  | cons tp tps ih =>
    simp only [List.map_cons, List.flatMap_cons, ih]
    simp [single, flat]

/-- outcome of one part as the transport hands it to Merge -/
inductive Sub where
  | answered (throttle : Int) (a : ResPart)   -- the leader's answer for that partition
  | failed (e : String)                        -- the part could not be sent / was refused / timed out
  deriving Repr, Inhabited

def Sub.result (t : String) : Sub → Result
  | .answered th a => .ok { throttle := th, topics := [(t, [a])] }
  | .failed e => .err e

/-- the broker answered about the partition it was asked about -/
def Sub.WF (tp : String × ReqPart) : Sub → Prop
  | .answered _ a => a.partition = tp.2.partition
  | .failed _ => True

/-- the one entry the merged response must hold for a requested entry -/
def expected (x : (String × ReqPart) × Sub) : String × ResPart :=
  match x.2 with
  | .answered _ a => (x.1.1, { a with timestamp := x.1.2.timestamp })
  | .failed _ => (x.1.1, placeholder x.1.2)

theorem requestedTs_single (r : Request) (tp : String × ReqPart) :
    requestedTs (single r tp) tp.1 tp.2.partition = some tp.2.timestamp := by
  simp [requestedTs, single, flat]

theorem entriesOf_single (r : Request) (x : (String × ReqPart) × Sub) (h : x.2.WF x.1) :
    entriesOf (single r x.1) (x.2.result x.1.1) = [expected x] := by
  obtain ⟨tp, s⟩ := x
  cases s with
  | failed e => simp [Sub.result, entriesOf, single, flat, expected]
  | answered th a =>
    have ha : a.partition = tp.2.partition := h
    have := requestedTs_single r tp
    simp only [Sub.result, entriesOf, expected, List.flatMap_cons, List.flatMap_nil, List.map_cons, List.map_nil,
      List.append_nil, ha, this]

/-- **Exactly one entry per requested (topic, partition, timestamp)**, carrying that part's result with the
requested timestamp restored, or the placeholder of that partition when the part failed; in request order. -/
theorem entries_exact (r : Request) (xs : List ((String × ReqPart) × Sub)) (hwf : ∀ x ∈ xs, x.2.WF x.1) :
    entries (xs.map fun x => single r x.1) (xs.map fun x => x.2.result x.1.1) = xs.map expected := by
  induction xs with
  | nil => rfl
  | cons x xs ih =>
    simp only [List.map_cons, entries]
    rw [entriesOf_single r x (hwf x List.mem_cons_self), ih (fun y hy => hwf y (List.mem_cons_of_mem _ hy))]
    rfl

def Sub.isFailed : Sub → Bool
  | .failed _ => true
  | .answered _ _ => false

theorem isErr_result (t : String) (s : Sub) : isErr (s.result t) = s.isFailed := by
  cases s <;> rfl

theorem filter_isErr_length (xs : List ((String × ReqPart) × Sub)) :
    ((xs.map fun x => x.2.result x.1.1).filter isErr).length = (xs.filter fun x => x.2.isFailed).length := by
  induction xs with
  | nil => rfl
  | cons x xs ih =>
    simp only [List.map_cons, List.filter_cons, isErr_result]
    split <;> simp [ih]

/-- **split_merge**: for a request `r` whose parts (`xs` pairs every requested entry, in order, with the outcome
of its part) did not all fail, Merge succeeds and the merged response holds exactly the expected entries
(a permutation: grouping by topic and sorting neither lose, duplicate nor alter entries). -/
theorem split_merge (r : Request) (xs : List ((String × ReqPart) × Sub))
    (hreq : xs.map (·.1) = flat r) (hwf : ∀ x ∈ xs, x.2.WF x.1)
    (hsome : ∃ x ∈ xs, x.2.isFailed = false) :
    ∃ resp, merge (split r) (xs.map fun x => x.2.result x.1.1) = .ok resp ∧
      (flatRes resp.topics).Perm (xs.map expected) := by
  have hsplit : split r = xs.map fun x => single r x.1 := by
    rw [split_single, ← hreq, List.map_map]; rfl
  have hlt : (xs.filter fun x => x.2.isFailed).length < xs.length := by
    obtain ⟨x, hx, hf⟩ := hsome
    have hle := List.length_filter_le (fun x : (String × ReqPart) × Sub => x.2.isFailed) xs
    rcases Nat.lt_or_ge (xs.filter fun x => x.2.isFailed).length xs.length with h | h
    · exact h
    · have heq : (xs.filter fun x => x.2.isFailed).length = xs.length := by omega
      have := (List.length_filter_eq_length_iff.mp heq) x hx
      simp [hf] at this
  refine ⟨{ throttle := maxThrottle 0 (xs.map fun x => x.2.result x.1.1),
            topics := group (entries (split r) (xs.map fun x => x.2.result x.1.1)) }, ?_, ?_⟩
  · unfold merge
    have hne : ¬ ((xs.filter fun x => x.2.isFailed).length = xs.length) := by omega
    simp [filter_isErr_length, hne]
  · show (flatRes (group _)).Perm _
    rw [hsplit, entries_exact r xs hwf]
    exact Lemmas.ListOffsets.group_perm _

/-- every part failed → Merge returns the first part's error -/
theorem split_merge_all_failed (reqs : List Request) (e : String) (rs : List Result)
    (hall : ∀ x ∈ rs, isErr x = true) : merge reqs (.err e :: rs) = .error e := by
  unfold merge
  have : ((Result.err e :: rs).filter isErr).length = (Result.err e :: rs).length := by
    apply List.length_filter_eq_length_iff.mpr
    intro x hx
    rcases List.mem_cons.mp hx with rfl | hx
    · rfl
    · exact hall x hx
  simp [this]

example : (match merge [] [.err "dial", .err "timeout"] with | .error e => e | .ok _ => "") = "dial" := by decide

/-- a failure (or any change) of one part alters the expected entry of that part only -/
theorem failure_isolated (xs : List ((String × ReqPart) × Sub)) (i : Nat) (s' : Sub) (tp : String × ReqPart) :
    (xs.set i (tp, s')).map expected = (xs.map expected).set i (expected (tp, s')) := by
  simp [List.map_set]

/-- a concrete request over two topics and two leaders, one part failing -/
example :
    let r : Request := ⟨-1, 0, [("a", [⟨0, -1, -2⟩, ⟨1, -1, 1234⟩]), ("b", [⟨0, -1, -1⟩])]⟩
    (match merge (split r) [.ok ⟨0, [("a", [⟨0, 0, -1, 5, 0⟩])]⟩, .err "dial", .ok ⟨3, [("b", [⟨0, 0, -1, 99, 0⟩])]⟩] with
      | .ok resp => some resp | .error _ => none)
      = some ⟨3, [("a", [⟨0, 0, -2, 5, 0⟩, ⟨1, -1, -1, -1, -1⟩]), ("b", [⟨0, 0, -1, 99, 0⟩])]⟩ := by
  decide

theorem merge_throttle (rs : List Result) (start : Int) :
    start ≤ maxThrottle start rs ∧
    (∀ res, Result.ok res ∈ rs → res.throttle ≤ maxThrottle start rs) := by
  induction rs generalizing start with
  | nil => simp [maxThrottle]
  | cons r rs ih =>
    simp only [maxThrottle, List.foldl_cons]
    cases r with
    | err e =>
      have := ih start
      refine ⟨this.1, fun res hres => ?_⟩
      rcases List.mem_cons.mp hres with h | h
      · cases h
      · exact this.2 res h
    | ok res0 =>
      simp only
      split
      · next hlt =>
        have := ih res0.throttle
        refine ⟨by have := this.1; simp only [maxThrottle] at this; omega, fun res hres => ?_⟩
        rcases List.mem_cons.mp hres with h | h
        · cases h; exact this.1
        · exact this.2 res h
      · next hge =>
        have := ih start
        refine ⟨this.1, fun res hres => ?_⟩
        rcases List.mem_cons.mp hres with h | h
        · cases h; have := this.1; simp only [maxThrottle] at this; omega
        · exact this.2 res h

/-! ## Conn.Seek -/

def _root_.KV.Seek.Outcome.toSpec : Outcome → KV.Spec.Offsets.SeekResult
  | .ok n => .ok n
  | .outOfRange => .outOfRange
  | .readError => .readError
  | .badWhence => .badWhence

@[simp] theorem toSpec_ok (n : Int) : (Outcome.ok n).toSpec = .ok n := rfl
@[simp] theorem toSpec_oor : Outcome.outOfRange.toSpec = .outOfRange := rfl
@[simp] theorem toSpec_re : Outcome.readError.toSpec = .readError := rfl
@[simp] theorem toSpec_bw : Outcome.badWhence.toSpec = .badWhence := rfl

theorem rangeIf (f l t : Int) :
    (if t < f ∨ l < t then Outcome.outOfRange else Outcome.ok t).toSpec = (if f ≤ t ∧ t ≤ l then KV.Spec.Offsets.SeekResult.ok t else KV.Spec.Offsets.SeekResult.outOfRange) := by
  by_cases h : t < f ∨ l < t
  · have h' : ¬ (f ≤ t ∧ t ≤ l) := by omega
    simp [h, h', Outcome.toSpec]
  · have h' : (f ≤ t ∧ t ≤ l) := by omega
    simp [h, h', Outcome.toSpec]

/-- **seek_correct**: in every whence mode (SeekStart, SeekAbsolute, SeekEnd, SeekCurrent, each with and
without SeekDontCheck) Seek does what the reference `Spec.seekSpec` says: the new offset is the position the
mode designates (first+off, off, last−off, cur+off), accepted iff it lies in [first, last] as reported by the
broker unless the call is one of the documented unchecked shortcuts; a failed offset lookup is the only other
failure; other whence values are refused. -/
theorem seek_correct (cur off w : Int) (dc : Bool) (offs : Offsets) :
    (seek cur off w dc offs).toSpec = KV.Spec.Offsets.seekSpec cur off w dc offs := by
  by_cases h0 : w = 0
  · subst h0; cases dc <;> rcases offs with _ | ⟨f, l⟩ <;>
      simp [seek, seekStart, seekAbsolute, seekEnd, seekCurrent, KV.Gen.Offsets.seekStart, KV.Gen.Offsets.seekAbsolute, KV.Gen.Offsets.seekEnd, KV.Gen.Offsets.seekCurrent, KV.Gen.Offsets.firstOffset, KV.Gen.Offsets.lastOffset, KV.Spec.Offsets.seekSpec, KV.Spec.Offsets.unchecked, seekTarget, rangeIf]
  by_cases h1 : w = 1
  · subst h1
    by_cases hc : off = cur <;> cases dc <;> rcases offs with _ | ⟨f, l⟩ <;>
      simp [seek, seekStart, seekAbsolute, seekEnd, seekCurrent, KV.Gen.Offsets.seekStart, KV.Gen.Offsets.seekAbsolute, KV.Gen.Offsets.seekEnd, KV.Gen.Offsets.seekCurrent, KV.Gen.Offsets.firstOffset, KV.Gen.Offsets.lastOffset, KV.Spec.Offsets.seekSpec, KV.Spec.Offsets.unchecked, seekTarget, rangeIf, hc]
  by_cases h2 : w = 2
  · subst h2; cases dc <;> rcases offs with _ | ⟨f, l⟩ <;>
      simp [seek, seekStart, seekAbsolute, seekEnd, seekCurrent, KV.Gen.Offsets.seekStart, KV.Gen.Offsets.seekAbsolute, KV.Gen.Offsets.seekEnd, KV.Gen.Offsets.seekCurrent, KV.Gen.Offsets.firstOffset, KV.Gen.Offsets.lastOffset, KV.Spec.Offsets.seekSpec, KV.Spec.Offsets.unchecked, seekTarget, rangeIf]
  by_cases h3 : w = 3
  · subst h3; cases dc <;> rcases offs with _ | ⟨f, l⟩ <;>
      simp [seek, seekStart, seekAbsolute, seekEnd, seekCurrent, KV.Gen.Offsets.seekStart, KV.Gen.Offsets.seekAbsolute, KV.Gen.Offsets.seekEnd, KV.Gen.Offsets.seekCurrent, KV.Gen.Offsets.firstOffset, KV.Gen.Offsets.lastOffset, KV.Spec.Offsets.seekSpec, KV.Spec.Offsets.unchecked, seekTarget, rangeIf]
  · have hb : (w == 0 || w == 1 || w == 2 || w == 3) = false := by simp; omega
    simp [seek, seekStart, seekAbsolute, seekEnd, seekCurrent, KV.Gen.Offsets.seekStart, KV.Gen.Offsets.seekAbsolute, KV.Gen.Offsets.seekEnd, KV.Gen.Offsets.seekCurrent, KV.Gen.Offsets.firstOffset, KV.Gen.Offsets.lastOffset, KV.Spec.Offsets.seekSpec, hb]

def liftOutcome : Outcome → KV.Gen.Offsets.SeekOut
  | .ok n => .ok n n
  | .badWhence => .badWhence
  | .outOfRange => .outOfRange
  | .readError => .readError

set_option maxRecDepth 4000 in
/-- the decision tree obtained by executing conn.go (*Conn).Seek symbolically equals the hand-written model on every
input; in particular the value returned is always the connection's new offset -/
theorem seek_src_eq (cur off w : Int) (dc : Bool) (offs : Offsets) :
    KV.Gen.Offsets.seekSrc cur off w dc offs = liftOutcome (seek cur off w dc offs) := by
  by_cases h0 : w = 0
  · subst h0; cases dc <;> rcases offs with _ | ⟨f, l⟩ <;>
      simp [KV.Gen.Offsets.seekSrc, seek, liftOutcome, KV.Seek.seekStart, KV.Seek.seekAbsolute, KV.Seek.seekEnd, KV.Seek.seekCurrent,
        KV.Gen.Offsets.seekStart, KV.Gen.Offsets.seekAbsolute, KV.Gen.Offsets.seekEnd, KV.Gen.Offsets.seekCurrent] <;>
      (repeat' split) <;> simp_all <;> omega
  by_cases h1 : w = 1
  · subst h1; by_cases hc : off = cur <;> cases dc <;> rcases offs with _ | ⟨f, l⟩ <;>
      simp [KV.Gen.Offsets.seekSrc, seek, liftOutcome, hc, KV.Seek.seekStart, KV.Seek.seekAbsolute, KV.Seek.seekEnd, KV.Seek.seekCurrent,
        KV.Gen.Offsets.seekStart, KV.Gen.Offsets.seekAbsolute, KV.Gen.Offsets.seekEnd, KV.Gen.Offsets.seekCurrent] <;>
      (repeat' split) <;> simp_all <;> omega
  by_cases h2 : w = 2
  · subst h2; cases dc <;> rcases offs with _ | ⟨f, l⟩ <;>
      simp [KV.Gen.Offsets.seekSrc, seek, liftOutcome, KV.Seek.seekStart, KV.Seek.seekAbsolute, KV.Seek.seekEnd, KV.Seek.seekCurrent,
        KV.Gen.Offsets.seekStart, KV.Gen.Offsets.seekAbsolute, KV.Gen.Offsets.seekEnd, KV.Gen.Offsets.seekCurrent] <;>
      (repeat' split) <;> simp_all <;> omega
  by_cases h3 : w = 3
  · subst h3; cases dc <;> rcases offs with _ | ⟨f, l⟩ <;>
      simp [KV.Gen.Offsets.seekSrc, seek, liftOutcome, KV.Seek.seekStart, KV.Seek.seekAbsolute, KV.Seek.seekEnd, KV.Seek.seekCurrent,
        KV.Gen.Offsets.seekStart, KV.Gen.Offsets.seekAbsolute, KV.Gen.Offsets.seekEnd, KV.Gen.Offsets.seekCurrent] <;>
      (repeat' split) <;> simp_all <;> omega
  · have hb : (w == 0 || w == 1 || w == 2 || w == 3) = false := by simp; omega
    have hb' : ¬ (w = 0 ∨ w = 1 ∨ w = 2 ∨ w = 3) := by omega
    simp [KV.Gen.Offsets.seekSrc, seek, liftOutcome, hb, hb', KV.Seek.seekStart, KV.Seek.seekAbsolute, KV.Seek.seekEnd, KV.Seek.seekCurrent,
      KV.Gen.Offsets.seekStart, KV.Gen.Offsets.seekAbsolute, KV.Gen.Offsets.seekEnd, KV.Gen.Offsets.seekCurrent]

/-- **seek_src_correct**: the regenerated decision tree of (*Conn).Seek meets the reference on every input, and the
value it returns is the connection's new offset -/
theorem seek_src_correct (cur off w : Int) (dc : Bool) (offs : Offsets) :
    match KV.Gen.Offsets.seekSrc cur off w dc offs with
    | .ok n r => r = n ∧ KV.Spec.Offsets.seekSpec cur off w dc offs = .ok n
    | .badWhence => KV.Spec.Offsets.seekSpec cur off w dc offs = .badWhence
    | .outOfRange => KV.Spec.Offsets.seekSpec cur off w dc offs = .outOfRange
    | .readError => KV.Spec.Offsets.seekSpec cur off w dc offs = .readError := by
  rw [seek_src_eq]
  have h := seek_correct cur off w dc offs
  cases hs : seek cur off w dc offs <;> simp_all [liftOutcome, Outcome.toSpec]

example : seek 7 3 2 false (some (0, 100)) = .ok 97 := by decide
example : seek 7 3 3 true none = .ok 10 := by decide
example : seek 7 200 1 false (some (0, 100)) = .outOfRange := by decide
example : KV.Spec.Offsets.seekSpec 7 3 2 false (some (0, 100)) = .ok 97 := by decide

/-- the new connection offset of a call: unchanged unless the call succeeded -/
def offsetAfter (cur : Int) : Outcome → Int
  | .ok n => n
  | _ => cur

theorem seek_no_change_on_error (cur off w : Int) (dc : Bool) (offs : Offsets)
    (h : ∀ n, seek cur off w dc offs ≠ .ok n) : offsetAfter cur (seek cur off w dc offs) = cur := by
  cases hs : seek cur off w dc offs with
  | ok n => exact absurd hs (h n)
  | _ => rfl

/-- Conn.Offset followed by an unchecked absolute Seek restores a concrete offset -/
theorem offset_roundtrip (cur : Int) (h : cur ≠ -2 ∧ cur ≠ -1) :
    seek 0 (offsetOf cur).1 (offsetOf cur).2 true none = .ok cur := by
  have h1 : (cur == -2) = false := by simpa using h.1
  have h2 : (cur == -1) = false := by simpa using h.2
  simp [offsetOf, h1, h2, seek, seekStart, seekAbsolute, seekEnd, seekCurrent, KV.Gen.Offsets.seekStart, KV.Gen.Offsets.seekAbsolute, KV.Gen.Offsets.seekEnd, KV.Gen.Offsets.seekCurrent, KV.Gen.Offsets.firstOffset, KV.Gen.Offsets.lastOffset]


/-! ## regenerated shapes (Gen/Offsets.lean, go/ast over conn.go, reader.go, protocol/listoffsets) -/

/-- the source's Merge sorts topics by name and partitions by (Partition, Offset) — the keys `group` / `partLt`
use — and Split copies only header fields and per-partition fields the model's `split` copies (tolerant: fewer visible
fields never alarm, a foreign sort key or copied field does) -/
theorem merge_split_shape :
    (KV.Gen.Offsets.mergeSortFields.all fun f => ["Topic", "Partition", "Offset"].contains f) = true ∧
    (KV.Gen.Offsets.splitRequestFields.all fun f => ["IsolationLevel", "ReplicaID", "Topics"].contains f) = true ∧
    (KV.Gen.Offsets.splitInnerFields.all fun f =>
      ["CurrentLeaderEpoch", "Partition", "Partitions", "Timestamp", "Topic"].contains f) = true := by
  decide

/-- the placeholder of a failed part is Kafka's UNKNOWN (−1) with no offset, timestamp or epoch, on the failed
partition; the sentinel timestamps and whence values are the documented ones -/
theorem regenerated_constants (p : ReqPart) :
    placeholder p = ⟨p.partition, -1, -1, -1, -1⟩ ∧ firstOffset = -2 ∧ lastOffset = -1 ∧
    seekStart = 0 ∧ seekAbsolute = 1 ∧ seekEnd = 2 ∧ seekCurrent = 3 ∧ dontCheckBit = 2 ^ 30 := by
  refine ⟨rfl, rfl, rfl, rfl, rfl, rfl, rfl, by decide⟩

/-! ## regenerated field copies of the mapping functions -/

section fieldmaps
open KV.Spec.FieldMaps KV.Gen.Mappings

/-- every user-visible field of Client.Metadata / OffsetFetch / OffsetCommit / ListOffsets and Conn.ReadPartitions
is copied from the protocol field the models in Model/Mappings.lean copy it from (tables regenerated from the
source; tolerant to locals, see Spec/FieldMaps.lean) -/
theorem mapping_sources :
    allAgree clientMetadata_Broker userBroker = true ∧ allAgree clientMetadata_Partition metaPartition = true ∧
    allAgree clientMetadata_Topic metaTopic = true ∧ allAgree clientMetadata_MetadataResponse metaResponse = true ∧
    allAgree clientMetadata_Request metaRequest = true ∧
    allAgree readBrokerMetadata_Broker userBroker = true ∧
    allAgree readTopicMetadatav1_Partition connPartition = true ∧ allAgree readTopicMetadatav6_Partition connPartitionV6 = true ∧
    allAgree offsetFetch_OffsetFetchPartition fetchPartition = true ∧ allAgree offsetFetch_OffsetFetchResponse fetchResponse = true ∧
    allAgree offsetFetch_Request fetchRequest = true ∧
    allAgree offsetCommit_OffsetCommitPartition commitPartition = true ∧ allAgree offsetCommit_RequestPartition commitRequestPartition = true ∧
    allAgree offsetCommit_Request commitRequest = true ∧
    allAgree listOffsets_RequestPartition listRequestPartition = true ∧ allAgree listOffsets_Request listRequest = true ∧
    allAgree listOffsets_PartitionOffsets listPartitionOffsets = true := by decide


/-- Client.ListOffsets: the request loop marks FirstOffset / LastOffset as asked (0) for the two sentinel timestamps,
and the response loop stores an entry's offset in FirstOffset / LastOffset / Offsets[offset] ← its timestamp by the
same case analysis — every row of the case tables regenerated from listoffset.go is one `clientInit` / `clientStep` model
(tolerant: a rewritten switch yields fewer rows, never a wrong one) -/
theorem listOffsets_switch_shape :
    (KV.Gen.Mappings.listOffsetsSwitches.flatten.all fun row =>
      ["FirstOffset|_.FirstOffset|0", "LastOffset|_.LastOffset|0",
       "FirstOffset|_.FirstOffset|_.Offset", "LastOffset|_.LastOffset|_.Offset",
       "default|_.Offsets[_.Offset]|makeTime(_.Timestamp)"].contains row) = true := by decide


/-- protocol/listoffsets Merge: every decision and field update visible in the source is one the model's `merge`
makes — the requested timestamps are indexed by (topic, partition), a failed part is counted and gets placeholders
under its topic, the throttle is raised to a larger part value, an answered entry gets the indexed timestamp when the
index has its key, the call fails only when all (and at least one) parts failed, partitions are compared by number
first (tolerant: fewer visible statements never alarm, a different one does) -/
theorem merge_statements_shape :
    (KV.Gen.Mappings.listOffsetsMergeStatements.all fun st =>
      ["set _[topicPartition{…}] = _.Timestamp", "set _[_] = _", "if _!=nil", "set _[_.Topic] = _", "++",
       "if _.ThrottleTimeMs<_.ThrottleTimeMs", "set _.ThrottleTimeMs = _.ThrottleTimeMs", "if _",
       "set _.Timestamp = _", "set _[_.Topic] = append(_[_.Topic],_)", "if _>0&&_==len(_)",
       "set _.Topics = make(…)", "set _.Topics = append(_.Topics,ResponseTopic{…})",
       "if _.Partition!=_.Partition"].contains st) = true := by decide


/-- client.go ConsumerOffsets: every decision / update visible in the source is one the model `consumerOffsets` makes:
errors are tested on the call, on the whole answer and on each partition *by itself* (a test that also looks at whether
an earlier partition already failed would store later failed partitions as −1), only the first error is kept, a
partition without error is stored under its id with its committed offset (tolerant pin) -/
theorem consumerOffsets_statements_shape :
    (KV.Gen.Mappings.consumerOffsetsStatements.all fun st =>
      ["if _!=nil", "set _[_] = _.Partitions[_].ID", "if _.Error!=nil", "if _==nil",
       "set _[_.Partition] = _.CommittedOffset"].contains st) = true := by decide

end fieldmaps

/-! ## field mappings (`mapping_exact`) -/

section mappings
open KV.Mappings
open KV.Routing (lookupD MResponse MBroker MTopic MPartition)
open KV.Lemmas.Mappings KV.Lemmas.Routing

/-- the group coordinator's state: committed (offset, metadata) and per-partition error codes -/
structure Coord where
  committed : List ((String × Int) × (Int × String))
  errs : List ((String × Int) × Int)

/-- what the coordinator holds for (topic, partition): (offset, metadata, error); −1/"" when nothing is committed
or an error applies -/
def Coord.value (c : Coord) (t : String) (p : Int) : Int × String × Int :=
  match c.errs.lookup (t, p) with
  | some e => (-1, "", e)
  | none => match c.committed.lookup (t, p) with
    | some (o, m) => (o, m, 0)
    | none => (-1, "", 0)

def Coord.part (c : Coord) (t : String) (p : Int) : OFPart :=
  ⟨p, (c.value t p).1, (c.value t p).2.1, (c.value t p).2.2⟩

/-- the coordinator's OffsetFetch answer (the environment) -/
def coordFetch (c : Coord) (asked : List (String × List Int)) : OFResponse :=
  { throttle := 0, error := 0, topics := asked.map fun x => (x.1, x.2.map (c.part x.1)) }

/-- **OffsetFetch**: for a request naming topics (a Go map: distinct names) the user-level response holds, for
every requested topic, one entry per requested partition in request order carrying exactly the coordinator's
committed offset, metadata and error for that partition — an error on one partition is on that entry only. -/
theorem mapping_exact_offsetFetch (c : Coord) (g : String) (topics : List (String × List Int))
    (hne : topics ≠ []) (hnd : (topics.map (·.1)).Nodup) (t : String) (ps : List Int) (hmem : (t, ps) ∈ topics) :
    (offsetFetchRequest g topics) = (g, some topics) ∧
    (offsetFetchResponse (coordFetch c topics)).topics.lookup t
      = some (ps.map fun p => ⟨p, (c.value t p).1, (c.value t p).2.1, (c.value t p).2.2⟩) := by
  constructor
  · have : topics.length > 0 := by cases topics with | nil => exact absurd rfl hne | cons _ _ => simp
    simp [offsetFetchRequest, this]
  · simp only [offsetFetchResponse, coordFetch, goMap]
    apply lookup_foldl_ainsert
    · simp only [List.map_map, List.mem_map]
      refine ⟨(t, ps), hmem, ?_⟩
      simp [convOF, Coord.part, Function.comp]
    · simp only [List.map_map]; exact hnd

example : (offsetFetchRequest "g" []).2 = none := rfl

/-- Kafka's OffsetFetch: a NULL topics array asks for every partition the group has committed (`all`); an array
— even an empty one — asks for exactly its entries -/
def coordAnswer (c : Coord) (all : List (String × List Int)) : Option (List (String × List Int)) → OFResponse
  | none => coordFetch c all
  | some asked => coordFetch c asked

/-- **OffsetFetch, all-topics form**: a nil or empty user map is sent as NULL (not as an empty array), so the
user-level response lists every partition the group has committed with the coordinator's values; an empty
array would have been answered with no topic at all. -/
theorem mapping_exact_offsetFetch_all (c : Coord) (g : String) (all : List (String × List Int))
    (hnd : (all.map (·.1)).Nodup) (t : String) (ps : List Int) (hmem : (t, ps) ∈ all) :
    (offsetFetchRequest g []).2 = none ∧
    (offsetFetchResponse (coordAnswer c all (offsetFetchRequest g []).2)).topics.lookup t
      = some (ps.map fun p => ⟨p, (c.value t p).1, (c.value t p).2.1, (c.value t p).2.2⟩) ∧
    (offsetFetchResponse (coordAnswer c all (some []))).topics = [] := by
  refine ⟨rfl, ?_, rfl⟩
  show (offsetFetchResponse (coordFetch c all)).topics.lookup t = _
  simp only [offsetFetchResponse, coordFetch, goMap]
  apply lookup_foldl_ainsert
  · simp only [List.map_map, List.mem_map]
    refine ⟨(t, ps), hmem, ?_⟩
    simp [convOF, Coord.part, Function.comp]
  · simp only [List.map_map]; exact hnd


/-- **OffsetCommit, request side**: every commit the user listed reaches the protocol request with its partition,
offset and metadata unchanged, in the user's order, under its topic; nothing else is added. -/
theorem mapping_exact_offsetCommit_request (g : String) (gen : Int) (mem inst : String)
    (topics : List (String × List UCommit)) (now : Int) :
    (offsetCommitRequest g gen mem inst topics now).group = g ∧
    (offsetCommitRequest g gen mem inst topics now).generation = gen ∧
    (offsetCommitRequest g gen mem inst topics now).member = mem ∧
    (offsetCommitRequest g gen mem inst topics now).topics.map
        (fun x => (x.1, x.2.map fun p => (p.index, p.offset, p.metadata))) = topics := by
  refine ⟨rfl, rfl, rfl, ?_⟩
  simp only [offsetCommitRequest, List.map_map]
  conv => rhs; rw [← List.map_id topics]
  apply List.map_congr_left
  intro x _
  obtain ⟨t, cs⟩ := x
  simp only [Function.comp, List.map_map, id]
  congr 1
  conv => rhs; rw [← List.map_id cs]
  apply List.map_congr_left
  intro y _
  rfl

/-- **OffsetCommit, response side**: the per-partition error codes come back under their topic, unchanged -/
theorem mapping_exact_offsetCommit_response (res : List (String × List (Int × Int)))
    (hnd : (res.map (·.1)).Nodup) (t : String) (ps : List (Int × Int)) (hmem : (t, ps) ∈ res) :
    (offsetCommitResponse res).lookup t = some ps := by
  simp only [offsetCommitResponse, goMap]
  apply lookup_foldl_ainsert
  · simp only [List.mem_map]
    refine ⟨(t, ps), hmem, ?_⟩
    simp
  · simp only [List.map_map]; exact hnd

/-- **ConsumerOffsets** (after fix C19-D31), for distinct partition ids: a partition the coordinator answers without
error is reported with exactly its committed offset; a partition it answers with an error is **not** in the map, and
then an error naming a failed partition and its code is returned; a group-level error fails the whole call. -/
theorem mapping_exact_consumerOffsets (c : Coord) (t : String) (ps : List Int) (hnd : ps.Nodup) :
    ∃ m e, consumerOffsets 0 ((ps.map (c.part t)).map convOF) = .ok (m, e) ∧
      (∀ p ∈ ps, (c.value t p).2.2 = 0 → m.lookup p = some (c.value t p).1) ∧
      (∀ p ∈ ps, (c.value t p).2.2 ≠ 0 → m.lookup p = none) ∧
      ((∃ p ∈ ps, (c.value t p).2.2 ≠ 0) → ∃ p code, e = some (p, code) ∧ p ∈ ps ∧ code = (c.value t p).2.2 ∧ code ≠ 0) ∧
      ((∀ p ∈ ps, (c.value t p).2.2 = 0) → e = none) := by
  refine ⟨_, _, rfl, ?_, ?_, ?_, ?_⟩
  · intro p hp h0
    simp only [goMap]
    apply lookup_foldl_ainsert
    · simp only [List.mem_map, List.mem_filter]
      refine ⟨convOF (c.part t p), ⟨?_, ?_⟩, rfl⟩
      · exact ⟨c.part t p, ⟨p, hp, rfl⟩, rfl⟩
      · simp [convOF, Coord.part, h0]
    · have hsub : ((((ps.map (c.part t)).map convOF).filter (·.error == 0)).map fun q => (q.partition, q.committed)).map (·.1)
          = (ps.filter fun q => (c.value t q).2.2 == 0) := by
        simp only [List.map_map, List.filter_map, Function.comp]
        conv => rhs; rw [← List.map_id (ps.filter _)]
        apply List.map_congr_left
        intro q _; rfl
      rw [hsub]
      exact hnd.sublist List.filter_sublist
  · intro p _ hne
    simp only [goMap]
    apply lookup_foldl_ainsert_none
    intro e he
    simp only [List.mem_map, List.mem_filter] at he
    obtain ⟨q, ⟨⟨r, ⟨x, _, rfl⟩, rfl⟩, hq⟩, rfl⟩ := he
    intro heq
    have hx : x = p := heq
    subst hx
    simp [convOF, Coord.part] at hq
    exact hne hq
  · rintro ⟨p, hp, hne⟩
    have hex : ∃ q ∈ (ps.map (c.part t)).map convOF, (q.error != 0) = true :=
      ⟨convOF (c.part t p), List.mem_map.mpr ⟨c.part t p, List.mem_map.mpr ⟨p, hp, rfl⟩, rfl⟩, by simp [convOF, Coord.part, hne]⟩
    cases hf : ((ps.map (c.part t)).map convOF).find? (fun q => q.error != 0) with
    | none =>
      obtain ⟨q, hq, hq2⟩ := hex
      have := List.find?_eq_none.mp hf q hq
      simp [hq2] at this
    | some q =>
      have hmem := List.mem_of_find?_eq_some hf
      have hpred := List.find?_some hf
      simp only [List.mem_map] at hmem
      obtain ⟨r, ⟨x, hx, rfl⟩, rfl⟩ := hmem
      refine ⟨x, (c.value t x).2.2, ?_, hx, rfl, ?_⟩
      · simp [convOF, Coord.part]
      · simpa [convOF, Coord.part] using hpred
  · intro hall
    have : ((ps.map (c.part t)).map convOF).find? (fun q => q.error != 0) = none := by
      apply List.find?_eq_none.mpr
      intro q hq
      simp only [List.mem_map] at hq
      obtain ⟨r, ⟨x, hx, rfl⟩, rfl⟩ := hq
      simp [convOF, Coord.part, hall x hx]
    simp only [this, Option.map_none]

theorem consumerOffsets_group_error (g : Int) (hg : g ≠ 0) (fetched : List UOFPart) :
    consumerOffsets g fetched = .error g := by
  simp [consumerOffsets, hg]

/-- the broker map built from a listing with distinct node ids resolves every listed id to its entry -/
theorem brokerMap_lookup (bs : List MBroker) (hnd : (bs.map (·.nodeID)).Nodup) (b : MBroker) (hb : b ∈ bs) :
    (brokerMap bs).lookup b.nodeID = some (convBroker b) := by
  simp only [brokerMap, goMap]
  apply lookup_foldl_ainsert
  · exact List.mem_map.mpr ⟨b, hb, rfl⟩
  · simp only [List.map_map]; exact hnd

/-- an entry the broker map stores under `id` is a broker with that id -/
theorem brokerMap_id (bs : List MBroker) (id : Int) (b : UBroker) (h : (brokerMap bs).lookup id = some b) : b.id = id := by
  have : ∀ (l : List (Int × UBroker)) (acc : List (Int × UBroker)), (∀ e ∈ l, e.2.id = e.1) →
      (∀ k v, acc.lookup k = some v → v.id = k) →
      ∀ k v, (l.foldl (fun m e => KV.Routing.ainsert m e.1 e.2) acc).lookup k = some v → v.id = k := by
    intro l
    induction l with
    | nil => intro acc _ h; exact h
    | cons e es ih =>
      intro acc hl hacc
      apply ih _ (fun x hx => hl x (List.mem_cons_of_mem _ hx))
      intro k v hk
      by_cases hke : k = e.1
      · subst hke
        rw [lookup_ainsert_self] at hk
        cases hk; exact hl e List.mem_cons_self
      · rw [lookup_ainsert_other _ _ _ _ hke] at hk
        exact hacc k v hk
  refine this _ [] ?_ (fun k v hk => by simp [List.lookup] at hk) id b h
  intro e he
  obtain ⟨x, _, rfl⟩ := List.mem_map.mp he
  rfl

theorem brokerOrPlaceholder_id (bs : List MBroker) (id : Int) : (brokerOrPlaceholder (brokerMap bs) id).id = id := by
  simp only [brokerOrPlaceholder]
  cases h : (brokerMap bs).lookup id with
  | none => rfl
  | some b => exact brokerMap_id bs id b h

theorem makeBrokers_ids (bs : List MBroker) (ids : List Int) : (makeBrokers (brokerMap bs) ids).map (·.id) = ids := by
  simp only [makeBrokers, List.map_map]
  conv => rhs; rw [← List.map_id ids]
  apply List.map_congr_left
  intro k _
  simp only [Function.comp, id]
  cases h : (brokerMap bs).lookup k with
  | none => rfl
  | some b => exact brokerMap_id bs k b h

/-- **Metadata**: brokers, topics and partitions are reported in the answer's order with their name, internal
flag, error code and partition id unchanged; **every leader, replica and ISR id of the answer is reported as that
id** — whether or not the id is in the answer's broker list (replicas on offline brokers, no leader: after fix
C19-D30) — and an id that is listed is reported as exactly that broker (id, host, port, rack). -/
theorem mapping_exact_metadata (res : MResponse) :
    (clientMetadata res).brokers = res.brokers.map convBroker ∧
    (clientMetadata res).topics.map (fun t => (t.name, t.internal, t.error, t.partitions.map fun p =>
        (p.id, p.error, p.leader.id, p.replicas.map (·.id), p.isr.map (·.id))))
      = res.topics.map (fun t => (t.name, t.internal, t.error, t.partitions.map fun p =>
        (p.index, p.error, p.leader, p.replicas, p.isr))) ∧
    ((res.brokers.map (·.nodeID)).Nodup → ∀ t ∈ res.topics, ∀ p ∈ t.partitions, ∀ b ∈ res.brokers, b.nodeID = p.leader →
      brokerOrPlaceholder (brokerMap res.brokers) p.leader = convBroker b) := by
  refine ⟨rfl, ?_, ?_⟩
  · simp only [clientMetadata, List.map_map]
    apply List.map_congr_left
    intro t _
    simp only [Function.comp, List.map_map]
    congr 3
    apply List.map_congr_left
    intro p _
    simp [Function.comp, brokerOrPlaceholder_id, makeBrokers_ids]
  · intro hnd t _ p _ b hb hid
    simp [brokerOrPlaceholder, ← hid, brokerMap_lookup res.brokers hnd b hb]

/-- **ReadPartitions** resolves replicas / ISR through the same map; an id without a listed broker is reported as
a placeholder carrying that id (never as another broker) -/
theorem mapping_exact_readPartitions (bs : List MBroker) (hnd : (bs.map (·.nodeID)).Nodup) (ids : List Int) :
    (makeBrokers (brokerMap bs) ids).map (·.id) = ids ∧
    (∀ b ∈ bs, b.nodeID ∈ ids → convBroker b ∈ makeBrokers (brokerMap bs) ids) := by
  constructor
  · simp only [makeBrokers, List.map_map]
    conv => rhs; rw [← List.map_id ids]
    apply List.map_congr_left
    intro k _
    simp only [Function.comp, id]
    cases h : (brokerMap bs).lookup k with
    | none => rfl
    | some b => exact brokerMap_id bs k b h
  · intro b hb hin
    simp only [makeBrokers, List.mem_map]
    exact ⟨b.nodeID, hin, by rw [brokerMap_lookup bs hnd b hb]⟩


theorem ainsert_eq {κ ν : Type} [BEq κ] : @KV.ListOffsets.ainsert κ ν _ = @KV.Routing.ainsert κ ν _ := rfl

/-- **Client.ListOffsets, one merged entry**: folding one response entry into the per-partition records replaces
the record of its own (topic, partition) only; the new record keeps the partition id and sets FirstOffset /
LastOffset / an Offsets entry as the entry's (restored) timestamp selects, and the error code iff the entry
carries one.  (Hence a failed part's placeholder marks its own partition only.) -/
theorem mapping_exact_listOffsets_step (m : List ((String × Int) × PartitionOffsets)) (t : String) (p : ResPart)
    (cur : PartitionOffsets) (hcur : m.lookup (t, p.partition) = some cur) :
    ∃ r, clientStep m (t, p) = some (KV.ListOffsets.ainsert m (t, p.partition) r) ∧
      (∀ k, k ≠ (t, p.partition) → (KV.ListOffsets.ainsert m (t, p.partition) r).lookup k = m.lookup k) ∧
      (KV.ListOffsets.ainsert m (t, p.partition) r).lookup (t, p.partition) = some r ∧
      r.partition = cur.partition ∧
      (p.timestamp = firstOffset → r.first = p.offset ∧ r.last = cur.last ∧ r.offsets = cur.offsets) ∧
      (p.timestamp = lastOffset → r.last = p.offset ∧ r.first = cur.first ∧ r.offsets = cur.offsets) ∧
      (p.timestamp ≠ firstOffset → p.timestamp ≠ lastOffset →
        r.first = cur.first ∧ r.last = cur.last ∧ r.offsets = KV.ListOffsets.ainsert cur.offsets p.offset p.timestamp) ∧
      (p.error ≠ 0 → r.error = p.error) ∧ (p.error = 0 → r.error = cur.error) := by
  have hlook : ∀ r : PartitionOffsets,
      (∀ k, k ≠ (t, p.partition) → (KV.ListOffsets.ainsert m (t, p.partition) r).lookup k = m.lookup k) ∧
      (KV.ListOffsets.ainsert m (t, p.partition) r).lookup (t, p.partition) = some r := by
    intro r
    rw [ainsert_eq]
    exact ⟨fun k hk => lookup_ainsert_other m _ k r hk, lookup_ainsert_self m _ r⟩
  by_cases hf : p.timestamp = firstOffset <;> by_cases hl : p.timestamp = lastOffset <;>
    by_cases he : p.error = 0 <;>
    simp only [clientStep, hcur] <;>
    simp [hf, hl, he, firstOffset, lastOffset, KV.Gen.Offsets.firstOffset, KV.Gen.Offsets.lastOffset] at * <;>
    exact ⟨_, rfl, (hlook _).1, (hlook _).2, by simp_all [firstOffset, lastOffset, KV.Gen.Offsets.firstOffset, KV.Gen.Offsets.lastOffset]⟩

/-- whatever an entry does, it writes the record of its own (topic, partition) only and never removes a record -/
theorem clientStep_other (m m' : List ((String × Int) × PartitionOffsets)) (e : String × ResPart)
    (h : clientStep m e = some m') :
    (∀ k, k ≠ (e.1, e.2.partition) → m'.lookup k = m.lookup k) ∧ (m'.lookup (e.1, e.2.partition)).isSome = true := by
  have key : ∃ r, m' = KV.ListOffsets.ainsert m (e.1, e.2.partition) r := by
    simp only [clientStep] at h
    split at h
    · split at h
      · exact ⟨_, (Option.some.inj h).symm⟩
      · cases h
    · exact ⟨_, (Option.some.inj h).symm⟩
  obtain ⟨r, rfl⟩ := key
  rw [ainsert_eq]
  exact ⟨fun k hk => lookup_ainsert_other m _ k r hk, by rw [lookup_ainsert_self]; rfl⟩

/-- **Client.ListOffsets, the whole fold**: the records of partitions the merged response does not mention are
exactly what the request loop initialised; every record that existed still exists. -/
theorem clientApply_untouched (es : List (String × ResPart)) (m m' : List ((String × Int) × PartitionOffsets))
    (h : es.foldlM clientStep m = some m') :
    (∀ k, (∀ e ∈ es, (e.1, e.2.partition) ≠ k) → m'.lookup k = m.lookup k) ∧
    (∀ k, (m.lookup k).isSome = true → (m'.lookup k).isSome = true) := by
  induction es generalizing m with
  | nil => simp only [List.foldlM_nil, pure] at h; cases h; exact ⟨fun _ _ => rfl, fun _ h => h⟩
  | cons e es ih =>
    simp only [List.foldlM_cons, bind, Option.bind] at h
    cases hs : clientStep m e with
    | none => simp [hs] at h
    | some m1 =>
      simp only [hs] at h
      obtain ⟨h1, h2⟩ := ih m1 h
      obtain ⟨s1, s2⟩ := clientStep_other m m1 e hs
      refine ⟨fun k hk => ?_, fun k hk => ?_⟩
      · rw [h1 k (fun x hx => hk x (List.mem_cons_of_mem _ hx))]
        exact s1 k (fun heq => hk e List.mem_cons_self heq.symm)
      · apply h2
        by_cases hke : k = (e.1, e.2.partition)
        · subst hke; exact s2
        · rw [s1 k hke]; exact hk

/-- when every entry of the merged response concerns a requested partition (what `entries_exact` gives for
well-formed part answers) the fold never hits the nil-map panic -/
theorem clientApply_total (es : List (String × ResPart)) (m : List ((String × Int) × PartitionOffsets))
    (h : ∀ e ∈ es, (m.lookup (e.1, e.2.partition)).isSome = true) : ∃ m', es.foldlM clientStep m = some m' := by
  induction es generalizing m with
  | nil => exact ⟨m, rfl⟩
  | cons e es ih =>
    obtain ⟨cur, hcur⟩ := Option.isSome_iff_exists.mp (h e List.mem_cons_self)
    obtain ⟨r, hr, _⟩ := mapping_exact_listOffsets_step m e.1 e.2 cur hcur
    have hr' : clientStep m e = some (KV.ListOffsets.ainsert m (e.1, e.2.partition) r) := hr
    obtain ⟨_, s2⟩ := clientStep_other m _ e hr'
    have hk : ∀ x ∈ es, ((KV.ListOffsets.ainsert m (e.1, e.2.partition) r).lookup (x.1, x.2.partition)).isSome = true := by
      intro x hx
      by_cases hke : (x.1, x.2.partition) = (e.1, e.2.partition)
      · rw [hke]; exact s2
      · rw [(clientStep_other m _ e hr').1 _ hke]; exact h x (List.mem_cons_of_mem _ hx)
    obtain ⟨m', hm'⟩ := ih _ hk
    exact ⟨m', by simp only [List.foldlM_cons, bind, Option.bind, hr', hm']⟩

open KV.Seek in
/-- **ReadOffsets**: both offsets are reported iff both list-offset requests succeeded; otherwise the first error
in request order is returned and no offset at all (the first value is not leaked) -/
theorem readOffsets_exact (first last : Except Int Int) :
    (∀ f l, readOffsets first last = .ok (f, l) ↔ first = .ok f ∧ last = .ok l) ∧
    (∀ e, first = .error e → readOffsets first last = .error e) ∧
    (∀ f e, first = .ok f → last = .error e → readOffsets first last = .error e) := by
  refine ⟨?_, ?_, ?_⟩
  · intro f l
    cases first <;> cases last <;> simp [readOffsets]
  · intro e h; subst h; rfl
  · intro f e h1 h2; subst h1; subst h2; rfl

theorem readPartitions_fold_ok (bm : List (Int × UBroker)) (connTopic : String) (ts : List MTopic) (acc : List UPartition)
    (hall : ts.all (fun t => !concerns connTopic t) = true) :
    ∃ ps, ts.foldlM (fun acc t =>
        if concerns connTopic t then Except.error t.error
        else Except.ok (acc ++ t.partitions.map (convPartition bm t))) acc = .ok ps ∧
      ps.map (fun p => (p.topic, p.id, p.error)) = acc.map (fun p => (p.topic, p.id, p.error)) ++
        ts.flatMap (fun t => t.partitions.map fun p => (t.name, p.index, p.error)) := by
  induction ts generalizing acc with
  | nil => exact ⟨acc, rfl, by simp⟩
  | cons t ts ih =>
    simp only [List.all_cons, Bool.and_eq_true, Bool.not_eq_eq_eq_not, Bool.not_true] at hall
    obtain ⟨ps, h1, h2⟩ := ih (acc ++ t.partitions.map (convPartition bm t)) hall.2
    refine ⟨ps, ?_, ?_⟩
    · simp only [List.foldlM_cons, hall.1, Bool.false_eq_true, ↓reduceIte, bind, Except.bind]
      exact h1
    · rw [h2]
      simp [List.map_append, List.map_map, Function.comp, List.flatMap_cons, convPartition]

theorem readPartitions_fold_err (bm : List (Int × UBroker)) (connTopic : String) (pre : List MTopic) (t : MTopic)
    (post : List MTopic) (acc : List UPartition)
    (hpre : pre.all (fun t => !concerns connTopic t) = true) (hc : concerns connTopic t = true) :
    (pre ++ t :: post).foldlM (fun acc t =>
        if concerns connTopic t then Except.error t.error
        else Except.ok (acc ++ t.partitions.map (convPartition bm t))) acc = .error t.error := by
  induction pre generalizing acc with
  | nil => simp [List.foldlM_cons, hc, bind, Except.bind]
  | cons x xs ih =>
    simp only [List.all_cons, Bool.and_eq_true, Bool.not_eq_eq_eq_not, Bool.not_true] at hpre
    simp only [List.cons_append, List.foldlM_cons, hpre.1, Bool.false_eq_true, ↓reduceIte, bind, Except.bind]
    exact ih _ hpre.2

/-- **ReadPartitions, error scope**: when no answered topic carries an error that concerns the connection, every
partition of every answered topic is reported, in order, with the error code the broker gave for it (after fix C19-D32; errors of
other topics hide nothing); otherwise the first
such error is returned. -/
theorem readPartitions_error_scope (connTopic : String) (res : MResponse) :
    (res.topics.all (fun t => !concerns connTopic t) = true →
      ∃ ps, readPartitions connTopic res = .ok ps ∧
        ps.map (fun p => (p.topic, p.id, p.error)) = res.topics.flatMap (fun t => t.partitions.map fun p => (t.name, p.index, p.error))) ∧
    (∀ pre t post, res.topics = pre ++ t :: post → pre.all (fun t => !concerns connTopic t) = true →
      concerns connTopic t = true → readPartitions connTopic res = .error t.error) := by
  constructor
  · intro hall
    obtain ⟨ps, h1, h2⟩ := readPartitions_fold_ok (brokerMap res.brokers) connTopic res.topics [] hall
    exact ⟨ps, h1, by simpa using h2⟩
  · intro pre t post hsplit hpre hc
    simp only [readPartitions, hsplit]
    exact readPartitions_fold_err _ connTopic pre t post [] hpre hc

/-- which topics ReadPartitions asks for -/
theorem readPartitionsTopics_spec (connTopic : String) (args : List String) :
    (args ≠ [] → readPartitionsTopics connTopic args = some args) ∧
    (connTopic ≠ "" → readPartitionsTopics connTopic [] = some [connTopic]) ∧
    readPartitionsTopics "" [] = none := by
  refine ⟨?_, ?_, rfl⟩
  · intro h
    cases args with
    | nil => exact absurd rfl h
    | cons a as => simp [readPartitionsTopics]
  · intro h
    have : connTopic.length ≠ 0 := by
      intro h0; exact h (String.length_eq_zero_iff.mp h0)
    simp [readPartitionsTopics, this]

/-- the first loop of Client.ListOffsets creates a record for every requested (topic, partition) -/
theorem clientInit_keys (topics : List (String × List (Int × Int))) (t : String) (rs : List (Int × Int)) (p ts : Int)
    (ht : (t, rs) ∈ topics) (hp : (p, ts) ∈ rs) : ((clientInit topics).lookup (t, p)).isSome = true := by
  have hmem : (t, (p, ts)) ∈ topics.flatMap (fun x => x.2.map fun r => (x.1, r)) := by
    simp only [List.mem_flatMap, List.mem_map]
    exact ⟨(t, rs), ht, (p, ts), hp, rfl⟩
  have gen : ∀ (l : List (String × (Int × Int))) (acc : List ((String × Int) × PartitionOffsets)),
      ((acc.lookup (t, p)).isSome = true ∨ (t, (p, ts)) ∈ l) →
      ((l.foldl (fun m (x : String × (Int × Int)) =>
          let cur := (m.lookup (x.1, x.2.1)).getD ⟨x.2.1, -1, -1, [], 0⟩
          let cur := if x.2.2 == firstOffset then { cur with first := 0 } else if x.2.2 == lastOffset then { cur with last := 0 } else cur
          KV.ListOffsets.ainsert m (x.1, x.2.1) cur) acc).lookup (t, p)).isSome = true := by
    intro l
    induction l with
    | nil => intro acc h; rcases h with h | h; exact h; cases h
    | cons x xs ih =>
      intro acc h
      simp only [List.foldl_cons]
      apply ih
      by_cases hx : (x.1, x.2.1) = (t, p)
      · left
        rw [ainsert_eq, ← hx, lookup_ainsert_self]; rfl
      · rcases h with h | h
        · left
          rw [ainsert_eq, lookup_ainsert_other _ _ _ _ (fun h' => hx h'.symm)]; exact h
        · rcases List.mem_cons.mp h with h | h
          · exact absurd (by rw [← h]) hx
          · exact Or.inr h
  have := gen _ [] (Or.inr hmem)
  simpa [clientInit] using this


theorem expected_key (x : (String × ReqPart) × Sub) (h : x.2.WF x.1) :
    ((expected x).1, (expected x).2.partition) = (x.1.1, x.1.2.partition) := by
  obtain ⟨tp, s⟩ := x
  cases s with
  | failed e => rfl
  | answered th a =>
    have : a.partition = tp.2.partition := h
    simp [expected, this]

theorem flat_clientRequest_mem (iso : Int) (topics : List (String × List (Int × Int))) (tp : String × ReqPart)
    (h : tp ∈ flat (clientRequest iso topics)) :
    ∃ t rs p ts, (t, rs) ∈ topics ∧ (p, ts) ∈ rs ∧ tp = (t, ⟨p, -1, ts⟩) := by
  simp only [flat, clientRequest] at h
  rw [List.mem_flatMap] at h
  obtain ⟨top, htop, hin⟩ := h
  rw [List.mem_map] at htop
  obtain ⟨⟨t, rs⟩, hmem, rfl⟩ := htop
  simp only [List.mem_map] at hin
  obtain ⟨rp, ⟨⟨p, ts⟩, hpts, rfl⟩, rfl⟩ := hin
  exact ⟨t, rs, p, ts, hmem, hpts, rfl⟩

/-- **Client.ListOffsets end to end (no panic, nothing foreign)**: for any user request and any outcomes of its
parts that are not all failures (each answering about the partition it was asked about), the protocol request is
split, merged, and folded into the per-partition records without hitting the nil-map case: a result is returned,
and every record of the result belongs to a requested (topic, partition) or was there before. -/
theorem clientListOffsets_total (iso : Int) (topics : List (String × List (Int × Int)))
    (xs : List ((String × ReqPart) × Sub))
    (hreq : xs.map (·.1) = flat (clientRequest iso topics)) (hwf : ∀ x ∈ xs, x.2.WF x.1)
    (hsome : ∃ x ∈ xs, x.2.isFailed = false) :
    ∃ resp recs, merge (split (clientRequest iso topics)) (xs.map fun x => x.2.result x.1.1) = .ok resp ∧
      clientApply (clientInit topics) resp = some recs := by
  obtain ⟨resp, hm, hperm⟩ := split_merge (clientRequest iso topics) xs hreq hwf hsome
  refine ⟨resp, ?_⟩
  have hkeys : ∀ e ∈ flatRes resp.topics, ((clientInit topics).lookup (e.1, e.2.partition)).isSome = true := by
    intro e he
    have he' := (hperm.mem_iff).mp he
    obtain ⟨x, hx, rfl⟩ := List.mem_map.mp he'
    rw [expected_key x (hwf x hx)]
    have hx1 : x.1 ∈ flat (clientRequest iso topics) := by
      rw [← hreq]; exact List.mem_map_of_mem hx
    obtain ⟨t, rs, p, ts, htop, hpts, hx1⟩ := flat_clientRequest_mem iso topics x.1 hx1
    rw [hx1]
    exact clientInit_keys topics t rs p ts htop hpts
  obtain ⟨recs, hrecs⟩ := clientApply_total (flatRes resp.topics) (clientInit topics) hkeys
  exact ⟨recs, hm, hrecs⟩

end mappings

/-! ## what the decoder expects at each version -/

/-- **response_fields_since**: the versions from which the library's decoder expects the fields of the OffsetFetch /
ListOffsets / OffsetCommit responses (struct tags, regenerated) are those of the Kafka protocol guide — in particular
the group-level error code of OffsetFetch is read from v2 on, so a failed lookup is reported at every version that can
express it -/
theorem response_fields_since : KV.Gen.Offsets.responseFieldSince = KV.Spec.Offsets.wireSince := by decide

theorem offsetFetch_group_error_visible (v : Int) :
    KV.Spec.Offsets.offsetFetchTopLevelError KV.Gen.Offsets.responseFieldSince v = decide (2 ≤ v) := by
  simp [KV.Spec.Offsets.offsetFetchTopLevelError, KV.Gen.Offsets.responseFieldSince, List.lookup]

/-- **makeError_nil_iff**: the one function every query uses to turn a Kafka error code into a Go error (regenerated
guard of its `return nil`) reports "no error" for code 0 ONLY — error codes are signed, −1 (UNKNOWN_SERVER_ERROR) is a
failure like every other non-zero code -/
theorem makeError_nil_iff (code : Int) : KV.Gen.Offsets.makeErrorIsNil code = true ↔ code = 0 := by
  simp [KV.Gen.Offsets.makeErrorIsNil]

end KV.Props.C19
