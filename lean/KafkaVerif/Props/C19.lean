/-
Props/C19.lean — Offset and metadata queries report exactly the brokers' state.

Theorems (over Model/ListOffsets.lean and Model/Seek.lean):
  split_single            Split yields one single-partition request per requested entry, in order, same header
  entries_exact           positional results → exactly one entry per requested (topic, partition, timestamp):
                          the sub-result with the requested timestamp restored, or the UNKNOWN placeholder of
                          that partition when its part failed
  split_merge             … and Merge returns a response whose entries are a permutation of those (nothing lost,
                          duplicated or altered by the grouping and sorting) unless every part failed
  split_merge_all_failed  every part failed → the first error
  failure_isolated        replacing one part's outcome changes that partition's entry only
  merge_throttle          the merged throttle is the maximum of the parts' throttles
  seek_correct            all four whence modes (+ SeekDontCheck): new offset = designated position, range-checked
                          against the partition's first/last offsets exactly when the mode demands it
  seek_no_change_on_error a failed Seek leaves the connection offset unchanged
  offset_roundtrip        Conn.Offset reports a position that Seek maps back to the same connection offset
-/
import KafkaVerif.Model.ListOffsets
import KafkaVerif.Model.Seek
import KafkaVerif.Spec.Offsets
import KafkaVerif.Lemmas.ListOffsets

namespace KV.Props.C19
open KV.ListOffsets KV.Seek
open KV.Spec.Offsets (seekTarget)

/-! ## ListOffsets: split and merge -/

/-- the single-partition request Split builds for one requested entry -/
def single (r : Request) (tp : String × ReqPart) : Request :=
  { replicaID := r.replicaID, isolation := r.isolation, topics := [(tp.1, [tp.2])] }

theorem split_single (r : Request) : split r = (flat r).map (single r) := rfl

theorem split_covers (r : Request) : (split r).flatMap flat = flat r := by
  rw [split_single]
  induction flat r with
  | nil => rfl
  | cons tp tps ih =>
    simp only [List.map_cons, List.flatMap_cons, ih]
    simp [single, flat]

/-- outcome of one part as the transport hands it to Merge -/
inductive Sub where
  | answered (throttle : Int) (a : ResPart)   -- the leader's answer for that partition
  | failed (e : String)                        -- the part could not be sent / was refused / timed out
  deriving Repr, Inhabited

def Sub.result (t : String) : Sub → Result
  | .answered th a => .ok { throttle := th, topics := [(t, [a])] }
  | .failed e => .err e

/-- the broker answered about the partition it was asked about -/
def Sub.WF (tp : String × ReqPart) : Sub → Prop
  | .answered _ a => a.partition = tp.2.partition
  | .failed _ => True

/-- the one entry the merged response must hold for a requested entry -/
def expected (x : (String × ReqPart) × Sub) : String × ResPart :=
  match x.2 with
  | .answered _ a => (x.1.1, { a with timestamp := x.1.2.timestamp })
  | .failed _ => (x.1.1, placeholder x.1.2)

theorem requestedTs_single (r : Request) (tp : String × ReqPart) :
    requestedTs (single r tp) tp.1 tp.2.partition = some tp.2.timestamp := by
  simp [requestedTs, single, flat]

theorem entriesOf_single (r : Request) (x : (String × ReqPart) × Sub) (h : x.2.WF x.1) :
    entriesOf (single r x.1) (x.2.result x.1.1) = [expected x] := by
  obtain ⟨tp, s⟩ := x
  cases s with
  | failed e => simp [Sub.result, entriesOf, single, flat, expected]
  | answered th a =>
    have ha : a.partition = tp.2.partition := h
    have := requestedTs_single r tp
    simp only [Sub.result, entriesOf, expected, List.flatMap_cons, List.flatMap_nil, List.map_cons, List.map_nil,
      List.append_nil, ha, this]

/-- **Exactly one entry per requested (topic, partition, timestamp)**, carrying that part's result with the
requested timestamp restored, or the placeholder of that partition when the part failed; in request order. -/
theorem entries_exact (r : Request) (xs : List ((String × ReqPart) × Sub)) (hwf : ∀ x ∈ xs, x.2.WF x.1) :
    entries (xs.map fun x => single r x.1) (xs.map fun x => x.2.result x.1.1) = xs.map expected := by
  induction xs with
  | nil => rfl
  | cons x xs ih =>
    simp only [List.map_cons, entries]
    rw [entriesOf_single r x (hwf x List.mem_cons_self), ih (fun y hy => hwf y (List.mem_cons_of_mem _ hy))]
    rfl

def Sub.isFailed : Sub → Bool
  | .failed _ => true
  | .answered _ _ => false

theorem isErr_result (t : String) (s : Sub) : isErr (s.result t) = s.isFailed := by
  cases s <;> rfl

theorem filter_isErr_length (xs : List ((String × ReqPart) × Sub)) :
    ((xs.map fun x => x.2.result x.1.1).filter isErr).length = (xs.filter fun x => x.2.isFailed).length := by
  induction xs with
  | nil => rfl
  | cons x xs ih =>
    simp only [List.map_cons, List.filter_cons, isErr_result]
    split <;> simp [ih]

/-- **split_merge**: for a request `r` whose parts (`xs` pairs every requested entry, in order, with the outcome
of its part) did not all fail, Merge succeeds and the merged response holds exactly the expected entries
(a permutation: grouping by topic and sorting neither lose, duplicate nor alter entries). -/
theorem split_merge (r : Request) (xs : List ((String × ReqPart) × Sub))
    (hreq : xs.map (·.1) = flat r) (hwf : ∀ x ∈ xs, x.2.WF x.1)
    (hsome : ∃ x ∈ xs, x.2.isFailed = false) :
    ∃ resp, merge (split r) (xs.map fun x => x.2.result x.1.1) = .ok resp ∧
      (flatRes resp.topics).Perm (xs.map expected) := by
  have hsplit : split r = xs.map fun x => single r x.1 := by
    rw [split_single, ← hreq, List.map_map]; rfl
  have hlt : (xs.filter fun x => x.2.isFailed).length < xs.length := by
    obtain ⟨x, hx, hf⟩ := hsome
    have hle := List.length_filter_le (fun x : (String × ReqPart) × Sub => x.2.isFailed) xs
    rcases Nat.lt_or_ge (xs.filter fun x => x.2.isFailed).length xs.length with h | h
    · exact h
    · have heq : (xs.filter fun x => x.2.isFailed).length = xs.length := by omega
      have := (List.length_filter_eq_length_iff.mp heq) x hx
      simp [hf] at this
  refine ⟨{ throttle := maxThrottle 0 (xs.map fun x => x.2.result x.1.1),
            topics := group (entries (split r) (xs.map fun x => x.2.result x.1.1)) }, ?_, ?_⟩
  · unfold merge
    have hne : ¬ ((xs.filter fun x => x.2.isFailed).length = xs.length) := by omega
    simp [filter_isErr_length, hne]
  · show (flatRes (group _)).Perm _
    rw [hsplit, entries_exact r xs hwf]
    exact Lemmas.ListOffsets.group_perm _

/-- every part failed → Merge returns the first part's error -/
theorem split_merge_all_failed (reqs : List Request) (e : String) (rs : List Result)
    (hall : ∀ x ∈ rs, isErr x = true) : merge reqs (.err e :: rs) = .error e := by
  unfold merge
  have : ((Result.err e :: rs).filter isErr).length = (Result.err e :: rs).length := by
    apply List.length_filter_eq_length_iff.mpr
    intro x hx
    rcases List.mem_cons.mp hx with rfl | hx
    · rfl
    · exact hall x hx
  simp [this]

example : (match merge [] [.err "dial", .err "timeout"] with | .error e => e | .ok _ => "") = "dial" := by decide

/-- a failure (or any change) of one part alters the expected entry of that part only -/
theorem failure_isolated (xs : List ((String × ReqPart) × Sub)) (i : Nat) (s' : Sub) (tp : String × ReqPart) :
    (xs.set i (tp, s')).map expected = (xs.map expected).set i (expected (tp, s')) := by
  simp [List.map_set]

/-- a concrete request over two topics and two leaders, one part failing -/
example :
    let r : Request := ⟨-1, 0, [("a", [⟨0, -1, -2⟩, ⟨1, -1, 1234⟩]), ("b", [⟨0, -1, -1⟩])]⟩
    (match merge (split r) [.ok ⟨0, [("a", [⟨0, 0, -1, 5, 0⟩])]⟩, .err "dial", .ok ⟨3, [("b", [⟨0, 0, -1, 99, 0⟩])]⟩] with
      | .ok resp => some resp | .error _ => none)
      = some ⟨3, [("a", [⟨0, 0, -2, 5, 0⟩, ⟨1, -1, -1, -1, -1⟩]), ("b", [⟨0, 0, -1, 99, 0⟩])]⟩ := by
  decide

theorem merge_throttle (rs : List Result) (start : Int) :
    start ≤ maxThrottle start rs ∧
    (∀ res, Result.ok res ∈ rs → res.throttle ≤ maxThrottle start rs) := by
  induction rs generalizing start with
  | nil => simp [maxThrottle]
  | cons r rs ih =>
    simp only [maxThrottle, List.foldl_cons]
    cases r with
    | err e =>
      have := ih start
      refine ⟨this.1, fun res hres => ?_⟩
      rcases List.mem_cons.mp hres with h | h
      · cases h
      · exact this.2 res h
    | ok res0 =>
      simp only
      split
      · next hlt =>
        have := ih res0.throttle
        refine ⟨by have := this.1; simp only [maxThrottle] at this; omega, fun res hres => ?_⟩
        rcases List.mem_cons.mp hres with h | h
        · cases h; exact this.1
        · exact this.2 res h
      · next hge =>
        have := ih start
        refine ⟨this.1, fun res hres => ?_⟩
        rcases List.mem_cons.mp hres with h | h
        · cases h; have := this.1; simp only [maxThrottle] at this; omega
        · exact this.2 res h

/-! ## Conn.Seek -/

def _root_.KV.Seek.Outcome.toSpec : Outcome → KV.Spec.Offsets.SeekResult
  | .ok n => .ok n
  | .outOfRange => .outOfRange
  | .readError => .readError
  | .badWhence => .badWhence

@[simp] theorem toSpec_ok (n : Int) : (Outcome.ok n).toSpec = .ok n := rfl
@[simp] theorem toSpec_oor : Outcome.outOfRange.toSpec = .outOfRange := rfl
@[simp] theorem toSpec_re : Outcome.readError.toSpec = .readError := rfl
@[simp] theorem toSpec_bw : Outcome.badWhence.toSpec = .badWhence := rfl

theorem rangeIf (f l t : Int) :
    (if t < f ∨ l < t then Outcome.outOfRange else Outcome.ok t).toSpec = (if f ≤ t ∧ t ≤ l then KV.Spec.Offsets.SeekResult.ok t else KV.Spec.Offsets.SeekResult.outOfRange) := by
  by_cases h : t < f ∨ l < t
  · have h' : ¬ (f ≤ t ∧ t ≤ l) := by omega
    simp [h, h', Outcome.toSpec]
  · have h' : (f ≤ t ∧ t ≤ l) := by omega
    simp [h, h', Outcome.toSpec]

/-- **seek_correct**: in every whence mode (SeekStart, SeekAbsolute, SeekEnd, SeekCurrent, each with and
without SeekDontCheck) Seek does what the reference `Spec.seekSpec` says: the new offset is the position the
mode designates (first+off, off, last−off, cur+off), accepted iff it lies in [first, last] as reported by the
broker unless the call is one of the documented unchecked shortcuts; a failed offset lookup is the only other
failure; other whence values are refused. -/
theorem seek_correct (cur off w : Int) (dc : Bool) (offs : Offsets) :
    (seek cur off w dc offs).toSpec = KV.Spec.Offsets.seekSpec cur off w dc offs := by
  by_cases h0 : w = 0
  · subst h0; cases dc <;> rcases offs with _ | ⟨f, l⟩ <;>
      simp [seek, seekStart, seekAbsolute, seekEnd, seekCurrent, KV.Spec.Offsets.seekSpec, KV.Spec.Offsets.unchecked, seekTarget, rangeIf]
  by_cases h1 : w = 1
  · subst h1
    by_cases hc : off = cur <;> cases dc <;> rcases offs with _ | ⟨f, l⟩ <;>
      simp [seek, seekStart, seekAbsolute, seekEnd, seekCurrent, KV.Spec.Offsets.seekSpec, KV.Spec.Offsets.unchecked, seekTarget, rangeIf, hc]
  by_cases h2 : w = 2
  · subst h2; cases dc <;> rcases offs with _ | ⟨f, l⟩ <;>
      simp [seek, seekStart, seekAbsolute, seekEnd, seekCurrent, KV.Spec.Offsets.seekSpec, KV.Spec.Offsets.unchecked, seekTarget, rangeIf]
  by_cases h3 : w = 3
  · subst h3; cases dc <;> rcases offs with _ | ⟨f, l⟩ <;>
      simp [seek, seekStart, seekAbsolute, seekEnd, seekCurrent, KV.Spec.Offsets.seekSpec, KV.Spec.Offsets.unchecked, seekTarget, rangeIf]
  · have hb : (w == 0 || w == 1 || w == 2 || w == 3) = false := by simp; omega
    simp [seek, seekStart, seekAbsolute, seekEnd, seekCurrent, KV.Spec.Offsets.seekSpec, hb]

example : seek 7 3 2 false (some (0, 100)) = .ok 97 := by decide
example : seek 7 3 3 true none = .ok 10 := by decide
example : seek 7 200 1 false (some (0, 100)) = .outOfRange := by decide
example : KV.Spec.Offsets.seekSpec 7 3 2 false (some (0, 100)) = .ok 97 := by decide

/-- the new connection offset of a call: unchanged unless the call succeeded -/
def offsetAfter (cur : Int) : Outcome → Int
  | .ok n => n
  | _ => cur

theorem seek_no_change_on_error (cur off w : Int) (dc : Bool) (offs : Offsets)
    (h : ∀ n, seek cur off w dc offs ≠ .ok n) : offsetAfter cur (seek cur off w dc offs) = cur := by
  cases hs : seek cur off w dc offs with
  | ok n => exact absurd hs (h n)
  | _ => rfl

/-- Conn.Offset followed by an unchecked absolute Seek restores a concrete offset -/
theorem offset_roundtrip (cur : Int) (h : cur ≠ -2 ∧ cur ≠ -1) :
    seek 0 (offsetOf cur).1 (offsetOf cur).2 true none = .ok cur := by
  have h1 : (cur == -2) = false := by simpa using h.1
  have h2 : (cur == -1) = false := by simpa using h.2
  simp [offsetOf, h1, h2, seek, seekStart, seekAbsolute, seekEnd, seekCurrent]

end KV.Props.C19
