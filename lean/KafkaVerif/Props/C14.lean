/-
Props/C14.lean — property C14: group balancers assign every partition of every subscribed topic to exactly
one subscriber, evenly.  Property theorems only; helper lemmas live in Lemmas/GroupBalancer.lean.

Model: Model/GroupBalancer.lean (follows groupbalancer.go).  Reference predicates: Spec/GroupAssign.lean.
Hypothesis (`WellFormed`): member ids are distinct ("a set of members").  A member's topic list may repeat a topic
(it is user input: `ConsumerGroupConfig.Topics` / `ReaderConfig.GroupTopics` are not de-duplicated by `Validate`); the
member subscribes to `t` iff `t` occurs in its list — see §5 and finding C14-D30.  No bound on the number of members, topics or partitions; partition
ids are arbitrary integers and may even repeat (cover is stated on multisets).
-/
import KafkaVerif.Lemmas.GroupBalancer
import KafkaVerif.Lemmas.RackAffinity
import KafkaVerif.Gen.GroupBalancerSel
import KafkaVerif.Lemmas.GroupGlue
import KafkaVerif.Lemmas.GroupWire
import KafkaVerif.Lemmas.GroupRound
import KafkaVerif.Lemmas.GroupWireRd
import KafkaVerif.Model.GroupRun

namespace KV.C14
open KV.GroupBalancer KV.Spec.GroupAssign

/-! ## 0. Non-vacuity: a concrete group that meets the hypotheses -/

def exMembers : List Member :=
  [⟨30, [0, 1], 0⟩, ⟨10, [1], 1⟩, ⟨20, [1, 0], 0⟩, ⟨40, [], 2⟩]
def exParts : List Part :=
  [⟨0, 0, 0⟩, ⟨1, 0, 1⟩, ⟨0, 1, 1⟩, ⟨1, 1, 0⟩, ⟨1, 2, 0⟩, ⟨0, 2, 2⟩, ⟨1, 3, 1⟩, ⟨1, 4, 2⟩, ⟨2, 0, 0⟩]

example : WellFormed exMembers := by decide
example : subscribers exMembers 1 ≠ [] := by decide
example : rangeAssign exMembers exParts 1 10 = [0] ∧ rangeAssign exMembers exParts 1 20 = [1, 2] ∧
    rangeAssign exMembers exParts 1 30 = [3, 4] ∧ rangeAssign exMembers exParts 0 20 = [0] := by decide
example : rrAssign exMembers exParts 1 10 = [0, 3] ∧ rrAssign exMembers exParts 1 20 = [1, 4] ∧
    rrAssign exMembers exParts 1 30 = [2] := by decide

/-! ## 0b. Regenerated tie: the model's predicates are the ones written in groupbalancer.go
(`Gen/GroupBalancerSel.lean` is re-emitted from the source text by go/extract on every run) -/

theorem range_sel_regenerated (M P i j : Nat) :
    rangeSel M P i j = Gen.GroupBalancer.rangeCond (memberIndex := i) (partitionIndex := j) (memberCount := M)
      (partitionCount := P) := rfl

theorem rr_sel_regenerated (M P i j : Nat) :
    rrSel M i j = Gen.GroupBalancer.rrCond (memberIndex := i) (partitionIndex := j) (memberCount := M)
      (partitionCount := P) := rfl

/-- `sortById` meets the contract of `sort.Slice` for the comparator written in `findMembersByTopic` (which compares
elements i and j of the very slice being sorted): the result is a permutation without inversions -/
theorem sort_regenerated (l : List Member) :
    (sortById l).Perm l ∧
    (sortById l).Pairwise (fun a b => Gen.GroupBalancer.sortLess (elem_i_ID := b.id) (elem_j_ID := a.id) = false) := by
  refine ⟨sortById_perm l, (sortById_sorted l).imp ?_⟩
  intro a b h
  simp [Gen.GroupBalancer.sortLess]; omega

/-- the arithmetic of `assignTopic` as written in the source is the arithmetic of `rackAssignTopic` / `zoneAlloc`
(roles: nZoneParts / nZoneConsumers = lengths of the zone's partitions / consumers, ppm, leftover, target, remainder) -/
theorem rack_arith_regenerated (P M L C : Nat) :
    Gen.GroupBalancer.rackTarget (nPartitions := P) (nMembers := M) = P / M ∧
    Gen.GroupBalancer.rackRemainder (nPartitions := P) (nMembers := M) = P % M ∧
    Gen.GroupBalancer.rackPartsPerMember (nZoneParts := L) (nZoneConsumers := C) = L / C ∧
    Gen.GroupBalancer.rackCaps =
      ["if decide (ppm > target) then ppm := target",
       "under (ppm == target): if decide (leftover > remainder) then leftover := remainder",
       "under (ppm == target): if decide (leftover > nZoneConsumers) then leftover := nZoneConsumers",
       "under (ppm == target): remainder -= leftover"] :=
  ⟨rfl, rfl, rfl, by decide⟩

/-- structure of the source that the models rely on: the Range / RoundRobin loops are the plain triple loop without
early exits, every value of the map `findMembersByTopic` returns is sorted, both member-by-topic loops skip repeated topics through
`topicListedBefore` (modelled by `firstListings`), and `makeSyncGroupRequestV0` allocates the per-member map inside
the loop over the members (modelled by `syncRequest` calling `toTopics32` afresh per member), and both Metadata
readers of conn.go keep the other topics when one is unknown (modelled by `readTopicMetadata`) -/
theorem structure_regenerated :
    Gen.GroupBalancer.plainSelectionLoops = ["RangeGroupBalancer.AssignGroups", "RoundRobinGroupBalancer.AssignGroups"] ∧
    Gen.GroupBalancer.sortsEveryMapValue = true ∧
    Gen.GroupBalancer.topicGuardSites = ["findMembersByTopic", "RackAffinityGroupBalancer.AssignGroups"] ∧
    Gen.GroupBalancer.topicListedBeforeIsPrefixSearch = true ∧
    Gen.GroupBalancer.topics32FreshPerMember = true ∧
    Gen.GroupBalancer.topicMetadataReaders = (2, 2) ∧
    Gen.GroupBalancer.extractTopicsIsFirstSeenThenSorted = true ∧
    Gen.GroupBalancer.makeAssignmentsRangesOverOwnTopics = true ∧
    Gen.GroupBalancer.assignTopicPartitionsDataflow = true ∧
    Gen.GroupBalancer.nextGenerationDataflow = true := by decide

/-! ## 1. Range -/

/-- Range hands a subscriber the contiguous run `[i·P/M, (i+1)·P/M)` of the listed partitions, `i` its rank by id -/
theorem range_contiguous (ms : List Member) (ps : List Part) (h : WellFormed ms) (t : Nat) :
    RangeShapeAt ms ps (rangeAssign ms ps) t := by
  have hd := wf_split h
  intro m hm
  have hp := findMembers_perm ms t
  obtain ⟨he, _⟩ := entry_of_subscriber (rangeSel (findMembersByTopic ms t).length (findPartitions t ps).length)
    (findPartitions t ps) ms t hd m hm
  unfold rangeAssign rangeTopic
  rw [he, rangeSel_eq, pick_range _ _ _ 0 (Nat.zero_le _), findPartitions_eq, hp.length_eq]
  rfl

/-- each listed partition of a subscribed topic goes to exactly one subscriber -/
theorem range_cover (ms : List Member) (ps : List Part) (h : WellFormed ms) (t : Nat)
    (hs : subscribers ms t ≠ []) : CoverAt ms ps (rangeAssign ms ps) t := by
  have hd := wf_split h
  have hp := findMembers_perm ms t
  have hM : 0 < (findMembersByTopic ms t).length := by
    rw [hp.length_eq]; exact List.length_pos_iff.mpr hs
  unfold CoverAt rangeAssign rangeTopic
  refine (entries_perm _ _ ms t hd).trans ?_
  rw [range_concat, findPartitions_eq]
  simp [Nat.mul_div_cancel_left _ hM]

/-- nothing goes to anyone who does not subscribe to the topic (in particular: no entry for unsubscribed topics) -/
theorem range_only_subscribers (ms : List Member) (ps : List Part) (h : WellFormed ms) (t id : Nat) :
    OnlySubscribersAt ms (rangeAssign ms ps) t id :=
  fun hid => entry_of_other _ _ ms t id hid

/-- the load of every subscriber is ⌊P/M⌋ or ⌊P/M⌋+1 -/
theorem range_load (ms : List Member) (ps : List Part) (h : WellFormed ms) (t : Nat) (m : Member)
    (hm : m ∈ subscribers ms t) :
    (partsOf t ps).length / (subscribers ms t).length ≤ (rangeAssign ms ps t m.id).length ∧
    (rangeAssign ms ps t m.id).length ≤ (partsOf t ps).length / (subscribers ms t).length + 1 := by
  have hd := wf_split h
  have hp := findMembers_perm ms t
  obtain ⟨he, hr⟩ := entry_of_subscriber (rangeSel (findMembersByTopic ms t).length (findPartitions t ps).length)
    (findPartitions t ps) ms t hd m hm
  have hM : 0 < (subscribers ms t).length := List.length_pos_iff.mpr (List.ne_nil_of_mem hm)
  unfold rangeAssign rangeTopic
  rw [he, hp.length_eq, range_pick_length _ _ _ hM hr, findPartitions_eq]
  exact brk_step _ _ _ hM

theorem range_balanced (ms : List Member) (ps : List Part) (h : WellFormed ms) (t : Nat) :
    BalancedAt ms (rangeAssign ms ps) t := by
  intro m₁ h₁ m₂ h₂
  have := range_load ms ps h t m₁ h₁
  have := range_load ms ps h t m₂ h₂
  omega

/-! ## 2. RoundRobin -/

theorem rr_cover (ms : List Member) (ps : List Part) (h : WellFormed ms) (t : Nat)
    (hs : subscribers ms t ≠ []) : CoverAt ms ps (rrAssign ms ps) t := by
  have hd := wf_split h
  have hp := findMembers_perm ms t
  have hM : 0 < (findMembersByTopic ms t).length := by
    rw [hp.length_eq]; exact List.length_pos_iff.mpr hs
  unfold CoverAt rrAssign rrTopic
  refine (entries_perm _ _ ms t hd).trans ?_
  rw [assignGo_flatMap, findPartitions_eq]
  exact cover_gen _ _ _ 0 (fun j _ _ => rr_exactly_one _ j hM)

theorem rr_only_subscribers (ms : List Member) (ps : List Part) (h : WellFormed ms) (t id : Nat) :
    OnlySubscribersAt ms (rrAssign ms ps) t id :=
  fun hid => entry_of_other _ _ ms t id hid

/-- the subscriber of rank `i` holds exactly ⌊P/M⌋ + [i < P mod M] partitions -/
theorem rr_load (ms : List Member) (ps : List Part) (h : WellFormed ms) (t : Nat) (m : Member)
    (hm : m ∈ subscribers ms t) :
    (rrAssign ms ps t m.id).length = (partsOf t ps).length / (subscribers ms t).length +
      if rank ms t m.id < (partsOf t ps).length % (subscribers ms t).length then 1 else 0 := by
  have hd := wf_split h
  have hp := findMembers_perm ms t
  obtain ⟨he, hr⟩ := entry_of_subscriber (rrSel (findMembersByTopic ms t).length) (findPartitions t ps) ms t hd m hm
  have hM : 0 < (subscribers ms t).length := List.length_pos_iff.mpr (List.ne_nil_of_mem hm)
  unfold rrAssign rrTopic
  rw [he, hp.length_eq, rr_pick_length0 _ _ hM hr, findPartitions_eq]

theorem rr_balanced (ms : List Member) (ps : List Part) (h : WellFormed ms) (t : Nat) :
    BalancedAt ms (rrAssign ms ps) t := by
  intro m₁ h₁ m₂ h₂
  rw [rr_load ms ps h t m₁ h₁, rr_load ms ps h t m₂ h₂]
  split <;> split <;> omega

/-- RoundRobin hands the subscriber of rank `i` every M-th listed partition starting with the i-th -/
theorem rr_stride (ms : List Member) (ps : List Part) (h : WellFormed ms) (t : Nat) :
    RRShapeAt ms ps (rrAssign ms ps) t := by
  have hd := wf_split h
  intro m hm
  have hp := findMembers_perm ms t
  obtain ⟨he, _⟩ := entry_of_subscriber (rrSel (findMembersByTopic ms t).length) (findPartitions t ps) ms t hd m hm
  unfold rrAssign rrTopic
  rw [he, pick_rr_stride, findPartitions_eq, hp.length_eq]

/-! ## 2b. Range and RoundRobin depend only on the set of members, not on the listing order -/

theorem range_perm_invariant (ms ms' : List Member) (ps : List Part) (h : WellFormed ms) (hp : ms.Perm ms') :
    rangeAssign ms ps = rangeAssign ms' ps := by
  funext t id
  unfold rangeAssign
  rw [findMembers_perm_invariant ms ms' hp h t]

theorem rr_perm_invariant (ms ms' : List Member) (ps : List Part) (h : WellFormed ms) (hp : ms.Perm ms') :
    rrAssign ms ps = rrAssign ms' ps := by
  funext t id
  unfold rrAssign
  rw [findMembers_perm_invariant ms ms' hp h t]

example : exMembers.Perm exMembers.reverse := List.reverse_perm _ |>.symm

/-! ## 3. The monitor evaluated by the oracle holds of the model's output, on every finite domain -/

theorem range_coverBalance (ms : List Member) (ps : List Part) (h : WellFormed ms) (ts ids : List Nat) :
    coverBalanceOn ms ps (rangeAssign ms ps) ts ids = true := by
  simp only [coverBalanceOn, List.all_eq_true, Bool.and_eq_true, decide_eq_true_eq]
  exact fun t _ => ⟨⟨range_cover ms ps h t, range_balanced ms ps h t⟩, fun id _ => range_only_subscribers ms ps h t id⟩

theorem rr_coverBalance (ms : List Member) (ps : List Part) (h : WellFormed ms) (ts ids : List Nat) :
    coverBalanceOn ms ps (rrAssign ms ps) ts ids = true := by
  simp only [coverBalanceOn, List.all_eq_true, Bool.and_eq_true, decide_eq_true_eq]
  exact fun t _ => ⟨⟨rr_cover ms ps h t, rr_balanced ms ps h t⟩, fun id _ => rr_only_subscribers ms ps h t id⟩

theorem range_holds (ms : List Member) (ps : List Part) (h : WellFormed ms) (ts ids : List Nat) :
    rangeHoldsOn ms ps (rangeAssign ms ps) ts ids = true := by
  simp only [rangeHoldsOn, Bool.and_eq_true, range_coverBalance ms ps h, List.all_eq_true, decide_eq_true_eq, true_and]
  exact fun t _ => range_contiguous ms ps h t

theorem rr_holds (ms : List Member) (ps : List Part) (h : WellFormed ms) (ts ids : List Nat) :
    rrHoldsOn ms ps (rrAssign ms ps) ts ids = true := by
  simp only [rrHoldsOn, Bool.and_eq_true, rr_coverBalance ms ps h, List.all_eq_true, decide_eq_true_eq, true_and]
  exact fun t _ => rr_stride ms ps h t


/-! ## 4. RackAffinity — for every iteration order of the Go maps -/

/-- `σ` is an iteration order of the Go map `zonedPartitions` of topic `t`: every rack that leads a partition of
`t` occurs, no rack occurs twice (racks without partitions of `t` may occur: visiting them is a no-op) -/
def IterOrder (ps : List Part) (t : Nat) (σ : List Nat) : Prop :=
  σ.Nodup ∧ ∀ p ∈ partsOfTopic t ps, p.zone ∈ σ

/-- the assignment RackAffinity returns under the iteration orders `σ₁ t`, `σ₂ t` (a panic would show as `[]`
here; `rack_total` shows there is none) -/
def rackAsg (ms : List Member) (ps : List Part) (σ₁ σ₂ : Nat → List Nat) : Asg :=
  fun t id => (rackAssign ms ps σ₁ σ₂ t id).getD []

/-- what the model computes for a topic with at least one subscriber -/
theorem rack_topic (ms : List Member) (ps : List Part) (σ₁ σ₂ : Nat → List Nat) (h : WellFormed ms) (t : Nat)
    (h1 : IterOrder ps t (σ₁ t)) (h2 : IterOrder ps t (σ₂ t)) (hs : subscribers ms t ≠ []) :
    ∃ es, rackAssignTopic (subscribers ms t) (partsOfTopic t ps) (σ₁ t) (σ₂ t) = some es ∧
      (∀ id, rackAssign ms ps σ₁ σ₂ t id = some (collect id es)) ∧
      ((subscribers ms t).flatMap (fun m => collect m.id es)).Perm (partsOf t ps) ∧
      (∀ m ∈ subscribers ms t, (partsOf t ps).length / (subscribers ms t).length ≤ (collect m.id es).length ∧
        (collect m.id es).length ≤ (partsOf t ps).length / (subscribers ms t).length + 1) ∧
      (∀ id, (∀ m ∈ subscribers ms t, m.id ≠ id) → collect id es = []) := by
  have hd := wf_split h
  obtain ⟨es, he, hperm, hload, hother⟩ := rackTopic_spec (subscribers ms t) (partsOfTopic t ps) (σ₁ t) (σ₂ t) hs
    (subscribers_distinct ms t hd) h1.1 h2.1 h2.2
  refine ⟨es, he, ?_, hperm, ?_, hother⟩
  · intro id
    unfold rackAssign
    rw [appendByTopic_eq_subscribers t ms]
    have : (subscribers ms t).length ≠ 0 := fun e => hs (List.length_eq_zero_iff.mp e)
    simp [this, he]
  · have : (partsOf t ps).length = (partsOfTopic t ps).length := by unfold partsOf partsOfTopic; simp
    rw [this]; exact hload

theorem rack_none (ms : List Member) (ps : List Part) (σ₁ σ₂ : Nat → List Nat) (h : WellFormed ms) (t : Nat)
    (hs : subscribers ms t = []) (id : Nat) : rackAssign ms ps σ₁ σ₂ t id = some [] := by
  unfold rackAssign
  rw [appendByTopic_eq_subscribers t ms, hs]; rfl

/-- no slice or index expression of `assignTopic` is ever out of range, whatever the map iteration orders -/
theorem rack_total (ms : List Member) (ps : List Part) (σ₁ σ₂ : Nat → List Nat) (h : WellFormed ms) (t : Nat)
    (h1 : IterOrder ps t (σ₁ t)) (h2 : IterOrder ps t (σ₂ t)) (id : Nat) :
    (rackAssign ms ps σ₁ σ₂ t id).isSome := by
  by_cases hs : subscribers ms t = []
  · rw [rack_none ms ps σ₁ σ₂ h t hs]; rfl
  · obtain ⟨es, _, hr, _⟩ := rack_topic ms ps σ₁ σ₂ h t h1 h2 hs
    rw [hr id]; rfl

theorem rack_cover (ms : List Member) (ps : List Part) (σ₁ σ₂ : Nat → List Nat) (h : WellFormed ms) (t : Nat)
    (h1 : IterOrder ps t (σ₁ t)) (h2 : IterOrder ps t (σ₂ t)) (hs : subscribers ms t ≠ []) :
    CoverAt ms ps (rackAsg ms ps σ₁ σ₂) t := by
  obtain ⟨es, _, hr, hperm, _⟩ := rack_topic ms ps σ₁ σ₂ h t h1 h2 hs
  unfold CoverAt rackAsg
  simp only [hr, Option.getD_some]
  exact hperm

theorem rack_only_subscribers (ms : List Member) (ps : List Part) (σ₁ σ₂ : Nat → List Nat) (h : WellFormed ms) (t : Nat)
    (h1 : IterOrder ps t (σ₁ t)) (h2 : IterOrder ps t (σ₂ t)) (id : Nat) :
    OnlySubscribersAt ms (rackAsg ms ps σ₁ σ₂) t id := by
  intro hid
  unfold rackAsg
  by_cases hs : subscribers ms t = []
  · rw [rack_none ms ps σ₁ σ₂ h t hs]; rfl
  · obtain ⟨es, _, hr, _, _, hother⟩ := rack_topic ms ps σ₁ σ₂ h t h1 h2 hs
    rw [hr id]; exact hother id hid

theorem rack_balanced (ms : List Member) (ps : List Part) (σ₁ σ₂ : Nat → List Nat) (h : WellFormed ms) (t : Nat)
    (h1 : IterOrder ps t (σ₁ t)) (h2 : IterOrder ps t (σ₂ t)) :
    BalancedAt ms (rackAsg ms ps σ₁ σ₂) t := by
  intro m₁ hm₁ m₂ hm₂
  have hs : subscribers ms t ≠ [] := List.ne_nil_of_mem hm₁
  obtain ⟨es, _, hr, _, hload, _⟩ := rack_topic ms ps σ₁ σ₂ h t h1 h2 hs
  unfold rackAsg
  simp only [hr, Option.getD_some]
  have := hload m₁ hm₁
  have := hload m₂ hm₂
  omega

/-- for every rack `z`: at least min(partitions led in `z`, members in `z` × ⌊P/M⌋) partitions led in `z` are placed
on members of `z`, whatever the map iteration orders -/
theorem rack_affinity_bound (ms : List Member) (ps : List Part) (σ₁ σ₂ : Nat → List Nat) (h : WellFormed ms) (t : Nat)
    (h1 : IterOrder ps t (σ₁ t)) (h2 : IterOrder ps t (σ₂ t)) (z : Nat) :
    RackBoundAt ms ps (rackAsg ms ps σ₁ σ₂) t z := by
  have hd := wf_split h
  unfold RackBoundAt
  by_cases hs : subscribers ms t = []
  · unfold inRack; rw [hs]; simp
  · obtain ⟨es, he, hr, _⟩ := rack_topic ms ps σ₁ σ₂ h t h1 h2 hs
    have haff := rackTopic_affinity (subscribers ms t) (partsOfTopic t ps) (σ₁ t) (σ₂ t)
      (subscribers_distinct ms t hd) h1.2 es he z
    have e1 : (inRack ms t z).length = (zoneConsumers (subscribers ms t) z).length := by
      unfold inRack zoneConsumers; simp
    have e2 : (partsOf t ps).length = (partsOfTopic t ps).length := by unfold partsOf partsOfTopic; simp
    have e3 : placedInRack ms ps (rackAsg ms ps σ₁ σ₂) t z = placedIn (subscribers ms t) (partsOfTopic t ps) z es := by
      unfold placedInRack placedIn inRack rackAsg
      simp only [hr, Option.getD_some, ledIn_eq]
    rw [e1, e2, e3, ledIn_eq]
    exact haff

theorem rack_holds (ms : List Member) (ps : List Part) (σ₁ σ₂ : Nat → List Nat) (h : WellFormed ms)
    (h1 : ∀ t, IterOrder ps t (σ₁ t)) (h2 : ∀ t, IterOrder ps t (σ₂ t)) (ts ids zs : List Nat) :
    rackHoldsOn ms ps (rackAsg ms ps σ₁ σ₂) ts ids zs = true := by
  simp only [rackHoldsOn, coverBalanceOn, List.all_eq_true, Bool.and_eq_true, decide_eq_true_eq]
  exact ⟨fun t _ => ⟨⟨rack_cover ms ps σ₁ σ₂ h t (h1 t) (h2 t), rack_balanced ms ps σ₁ σ₂ h t (h1 t) (h2 t)⟩,
      fun id _ => rack_only_subscribers ms ps σ₁ σ₂ h t (h1 t) (h2 t) id⟩,
    fun t _ z _ => rack_affinity_bound ms ps σ₁ σ₂ h t (h1 t) (h2 t) z⟩


/-! Non-vacuity: orders that meet `IterOrder` for the example group; the result depends on the order, the
theorems above hold for both. -/

def rkMembers : List Member := [⟨1, [0], 0⟩, ⟨2, [0], 1⟩, ⟨3, [0], 2⟩]
def rkParts : List Part := [⟨0, 0, 0⟩, ⟨0, 1, 0⟩, ⟨0, 2, 0⟩, ⟨0, 3, 1⟩, ⟨0, 4, 1⟩, ⟨0, 5, 1⟩, ⟨0, 6, 2⟩]

example : WellFormed rkMembers := by decide
example : ∀ t, IterOrder rkParts t [0, 1, 2] ∧ IterOrder rkParts t [1, 2, 0] := by
  intro t
  have hz : ∀ p ∈ rkParts, p.zone ∈ [0, 1, 2] ∧ p.zone ∈ [1, 2, 0] := by decide
  exact ⟨⟨by decide, fun p hp => (hz p (List.mem_filter.mp hp).1).1⟩,
         ⟨by decide, fun p hp => (hz p (List.mem_filter.mp hp).1).2⟩⟩
example : [1, 2, 3].map (rackAssign rkMembers rkParts (fun _ => [0, 1, 2]) (fun _ => [0, 1, 2]) 0) =
    [some [0, 1, 2], some [3, 4], some [6, 5]] := by decide
example : [1, 2, 3].map (rackAssign rkMembers rkParts (fun _ => [1, 2, 0]) (fun _ => [1, 2, 0]) 0) =
    [some [0, 1], some [3, 4, 5], some [6, 2]] := by decide

/-! ## 5. Topic lists with repeats (finding C14-D30, fixed in /repo)

Before the fix a member whose `Topics` repeated a topic was entered twice into `membersByTopic[t]`: Range/RoundRobin
handed it two shares and RackAffinity's last loop left a partition unassigned.  `pre_fix…` below is the pre-fix first
loop; the two `_counterexample`s are what it computed (kept as regression witnesses: the driver runs the same inputs
against the real code, which must now agree with the fixed model), and the theorems of §1–§4 — which no longer have a
"listed at most once" hypothesis — hold of these inputs. -/

/-- the first loop of `findMembersByTopic` as it was before the fix: one copy per occurrence -/
def preFixAppendByTopic (t : Nat) : List Member → List Member
  | [] => []
  | m :: ms => (m.topics.filter (· == t)).map (fun _ => m) ++ preFixAppendByTopic t ms

def dupMembers : List Member := [⟨1, [0, 0], 0⟩, ⟨2, [0], 0⟩]
def dupParts : List Part := (List.range 6).map fun i => ⟨0, Int.ofNat i, 0⟩

theorem prefix_range_unbalanced_counterexample :
    WellFormed dupMembers ∧
    collect 1 (rangeTopic (sortById (preFixAppendByTopic 0 dupMembers)) (findPartitions 0 dupParts)) = [0, 1, 2, 3] ∧
    collect 2 (rangeTopic (sortById (preFixAppendByTopic 0 dupMembers)) (findPartitions 0 dupParts)) = [4, 5] := by decide

theorem prefix_rack_loses_partition_counterexample :
    let ms : List Member := [⟨7, [0, 0], 0⟩]
    let ps : List Part := [⟨0, 0, 1⟩, ⟨0, 1, 1⟩]
    WellFormed ms ∧ IterOrder ps 0 [1] ∧
      (rackAssignTopic (preFixAppendByTopic 0 ms) (partsOfTopic 0 ps) [1] [1]).map (collect 7) = some [0] := by
  refine ⟨by decide, ⟨by decide, by decide⟩, by decide⟩

/-- after the fix: same inputs, every partition handed out, evenly -/
example : rangeAssign dupMembers dupParts 0 1 = [0, 1, 2] ∧ rangeAssign dupMembers dupParts 0 2 = [3, 4, 5] := by decide
example : rackAssign [⟨7, [0, 0], 0⟩] [⟨0, 0, 1⟩, ⟨0, 1, 1⟩] (fun _ => [1]) (fun _ => [1]) 0 7 = some [0, 1] := by decide

/-! ## 6. The leader glue: what every member RECEIVES is its own entry of the balancer's result

`joinGroup → makeMemberProtocolMetadata → AssignGroups → makeSyncGroupRequestV0 → (coordinator forwards bytes) →
syncGroup`.  Model: Model/GroupGlue.lean.  `A` is the Go map `GroupMemberAssignments` in whatever order `range`
yields it, `ρ` the iteration order of the per-member `topics32` map inside `groupAssignment.writeTo`; Go maps have
distinct keys, which is the only hypothesis. -/
section Glue
open KV.GroupGlue

/-- the members the leader's balancer sees are the members' own configurations (topics in listing order, rack) -/
theorem glue_members (cfgs : List (Nat × List Nat × Nat)) :
    membersOfJoin (cfgs.map fun c => (c.1, metadataOfConfig c.2.1 c.2.2)) = cfgs := by
  unfold membersOfJoin metadataOfConfig
  rw [List.map_map]
  conv => rhs; rw [← List.map_id cfgs]
  rfl

/-- decode ∘ encode per member = that member's entry of the assignment map (partition ids as int32), for every
iteration order of the two maps; a member without an entry receives nothing: no entry leaks between members -/
theorem glue_preserves (ρ : TopicMap → TopicMap) (hρ : ∀ l, (ρ l).Perm l) (A : Assignments)
    (hin : ∀ e ∈ A, (keys e.2).Nodup) (id t : Nat) :
    mapGet t (received ρ A id) =
      match A.find? (fun e => e.1 == id) with
      | some e => (mapGet t e.2).map (·.map toInt32)
      | none => none :=
  received_get ρ hρ A hin id t

theorem glue_no_leak (ρ : TopicMap → TopicMap) (A : Assignments) (id : Nat) (h : ∀ e ∈ A, e.1 ≠ id) :
    received ρ A id = [] := by
  unfold received syncRequest
  have : (A.map fun e => (e.1, encodeAssignment ρ (toTopics32 e.2))).find? (fun e => e.1 == id) = none := by
    rw [List.find?_eq_none]
    intro e he
    obtain ⟨x, hx, rfl⟩ := List.mem_map.mp he
    simpa using h x hx
  rw [this]

/-- the result does not depend on the order in which `range memberAssignments` yields the members -/
theorem glue_order_independent (ρ ρ' : TopicMap → TopicMap) (hρ : ∀ l, (ρ l).Perm l) (hρ' : ∀ l, (ρ' l).Perm l)
    (A A' : Assignments) (hp : A.Perm A') (hids : (A.map (·.1)).Nodup) (hin : ∀ e ∈ A, (keys e.2).Nodup) (id t : Nat) :
    mapGet t (received ρ A id) = mapGet t (received ρ' A' id) := by
  rw [glue_preserves ρ hρ A hin, glue_preserves ρ' hρ' A' (fun e he => hin e (hp.mem_iff.mpr he)),
    find_key_perm id A A' hp hids]

example : (keys ([(0, [1, 2]), (1, [5])] : TopicMap)).Nodup ∧ ∀ l : TopicMap, l.reverse.Perm l :=
  ⟨by decide, List.reverse_perm⟩
example : mapGet 1 (received List.reverse [(7, [(0, [1, 2]), (1, [5])]), (8, [(0, [0])])] 7) = some [5] ∧
    received List.reverse [(7, [(0, [1, 2]), (1, [5])]), (8, [(0, [0])])] 8 = [(0, [0])] ∧
    received List.reverse [(7, [(0, [1, 2]), (1, [5])]), (8, [(0, [0])])] 9 = [] := by decide

/-- end to end: for partition ids that fit int32, what the members receive is the balancer's assignment function
on the members `ids` and topics `ts` of the map, and empty elsewhere -/
theorem glue_delivers (ρ : TopicMap → TopicMap) (hρ : ∀ l, (ρ l).Perm l) (a : Asg) (ids ts : List Nat)
    (hts : ts.Nodup) (hr : ∀ t id, ∀ x ∈ a t id, InInt32 x) (t id : Nat) :
    delivered ρ a ids ts t id = if id ∈ ids ∧ t ∈ ts then a t id else [] :=
  delivered_eq ρ hρ a ids ts hts hr t id

/-- whatever an assignment with cover + only-subscribers hands out are listed partition ids -/
theorem assigned_are_listed (ms : List Member) (ps : List Part) (a : Asg) (t : Nat)
    (hg : GoodAt ms ps a t) (ho : ∀ id, OnlySubscribersAt ms a t id) (id : Nat) (x : Int) (hx : x ∈ a t id) :
    ∃ p ∈ ps, p.id = x := by
  by_cases hsub : ∃ m ∈ subscribers ms t, m.id = id
  · obtain ⟨m, hm, hmid⟩ := hsub
    have hc := hg.1 (List.ne_nil_of_mem hm)
    have : x ∈ (subscribers ms t).flatMap (fun m => a t m.id) :=
      List.mem_flatMap.mpr ⟨m, hm, by rw [hmid]; exact hx⟩
    have := hc.mem_iff.mp this
    unfold partsOf at this
    obtain ⟨p, hp, hpx⟩ := List.mem_map.mp this
    exact ⟨p, (List.mem_filter.mp hp).1, hpx⟩
  · have := ho id (fun m hm e => hsub ⟨m, hm, e⟩)
    rw [this] at hx; simp at hx

/-- hence C14 (cover, balance, only subscribers) of the balancer's result carries over to what the members receive -/
theorem glue_good (ρ : TopicMap → TopicMap) (hρ : ∀ l, (ρ l).Perm l) (ms : List Member) (ps : List Part) (a : Asg)
    (ids ts : List Nat) (hts : ts.Nodup) (hr : ∀ p ∈ ps, InInt32 p.id)
    (hids : ∀ m ∈ ms, m.id ∈ ids)
    (hg : ∀ t, GoodAt ms ps a t) (ho : ∀ t id, OnlySubscribersAt ms a t id) (t : Nat) (ht : t ∈ ts) :
    GoodAt ms ps (delivered ρ a ids ts) t ∧ ∀ id, OnlySubscribersAt ms (delivered ρ a ids ts) t id := by
  have hr' : ∀ t id, ∀ x ∈ a t id, InInt32 x := by
    intro t' id x hx
    obtain ⟨p, hp, hpx⟩ := assigned_are_listed ms ps a t' (hg t') (ho t') id x hx
    rw [← hpx]; exact hr p hp
  have hsame : ∀ m ∈ subscribers ms t, delivered ρ a ids ts t m.id = a t m.id := by
    intro m hm
    rw [glue_delivers ρ hρ a ids ts hts hr']
    simp [hids m (List.mem_filter.mp hm).1, ht]
  refine ⟨⟨?_, ?_⟩, ?_⟩
  · intro hs
    unfold CoverAt
    rw [flatMap_congr' _ hsame]
    exact (hg t).1 hs
  · intro m₁ h₁ m₂ h₂
    rw [hsame m₁ h₁, hsame m₂ h₂]
    exact (hg t).2 m₁ h₁ m₂ h₂
  · intro id hid
    rw [glue_delivers ρ hρ a ids ts hts hr']
    split
    · exact ho t id hid
    · rfl

/-- Range, RoundRobin and RackAffinity through the glue: C14 holds of what the members receive -/
theorem range_delivered (ρ : TopicMap → TopicMap) (hρ : ∀ l, (ρ l).Perm l) (ms : List Member) (ps : List Part)
    (h : WellFormed ms) (ids ts : List Nat) (hts : ts.Nodup) (hr : ∀ p ∈ ps, InInt32 p.id)
    (hids : ∀ m ∈ ms, m.id ∈ ids) (t : Nat) (ht : t ∈ ts) :
    GoodAt ms ps (delivered ρ (rangeAssign ms ps) ids ts) t ∧
      ∀ id, OnlySubscribersAt ms (delivered ρ (rangeAssign ms ps) ids ts) t id :=
  glue_good ρ hρ ms ps _ ids ts hts hr hids (fun t => ⟨range_cover ms ps h t, range_balanced ms ps h t⟩)
    (fun t => range_only_subscribers ms ps h t) t ht

theorem rr_delivered (ρ : TopicMap → TopicMap) (hρ : ∀ l, (ρ l).Perm l) (ms : List Member) (ps : List Part)
    (h : WellFormed ms) (ids ts : List Nat) (hts : ts.Nodup) (hr : ∀ p ∈ ps, InInt32 p.id)
    (hids : ∀ m ∈ ms, m.id ∈ ids) (t : Nat) (ht : t ∈ ts) :
    GoodAt ms ps (delivered ρ (rrAssign ms ps) ids ts) t ∧
      ∀ id, OnlySubscribersAt ms (delivered ρ (rrAssign ms ps) ids ts) t id :=
  glue_good ρ hρ ms ps _ ids ts hts hr hids (fun t => ⟨rr_cover ms ps h t, rr_balanced ms ps h t⟩)
    (fun t => rr_only_subscribers ms ps h t) t ht

theorem rack_delivered (ρ : TopicMap → TopicMap) (hρ : ∀ l, (ρ l).Perm l) (ms : List Member) (ps : List Part)
    (σ₁ σ₂ : Nat → List Nat) (h : WellFormed ms) (h1 : ∀ t, IterOrder ps t (σ₁ t)) (h2 : ∀ t, IterOrder ps t (σ₂ t))
    (ids ts : List Nat) (hts : ts.Nodup) (hr : ∀ p ∈ ps, InInt32 p.id)
    (hids : ∀ m ∈ ms, m.id ∈ ids) (t : Nat) (ht : t ∈ ts) :
    GoodAt ms ps (delivered ρ (rackAsg ms ps σ₁ σ₂) ids ts) t ∧
      ∀ id, OnlySubscribersAt ms (delivered ρ (rackAsg ms ps σ₁ σ₂) ids ts) t id :=
  glue_good ρ hρ ms ps _ ids ts hts hr hids
    (fun t => ⟨rack_cover ms ps σ₁ σ₂ h t (h1 t) (h2 t), rack_balanced ms ps σ₁ σ₂ h t (h1 t) (h2 t)⟩)
    (fun t => rack_only_subscribers ms ps σ₁ σ₂ h t (h1 t) (h2 t)) t ht

/-- the last step on the member: `Generation.Assignments` (built by `makeAssignments` from the member's own topic
list) is exactly what was delivered to it — the only thing `makeAssignments` can drop is a topic the member does not
subscribe to, and by only-subscribers nothing of such a topic was delivered -/
theorem generation_view_is_delivered (ρ : TopicMap → TopicMap) (ms : List Member) (a : Asg) (ids ts : List Nat)
    (h : WellFormed ms) (ho : ∀ t id, OnlySubscribersAt ms (delivered ρ a ids ts) t id) (m : Member) (hm : m ∈ ms) (t : Nat) :
    generationView ρ (mapOf a ids ts) m.id m.topics t = delivered ρ a ids ts t m.id := by
  rw [generationView_eq]
  by_cases ht : t ∈ m.topics
  · simp [ht, delivered]
  · simp only [ht, if_false]
    symm
    apply ho t m.id
    intro m' hm' e
    have hm'' := List.mem_filter.mp hm'
    have : m' = m := eq_of_id_eq ms (wf_split h) m' hm''.1 m hm e
    subst this
    exact ht (by simpa using hm''.2)

/-- the leader asks the cluster for exactly the topics somebody subscribes to (`extractTopics`), so for every subscribed
topic the balancer is given exactly the cluster's partitions of that topic (`ReadsTopics` = what `readPartitions` returns) -/
theorem glue_partitions (ms : List Member) (cluster got : List Part) (hread : ReadsTopics cluster (extractTopics ms) got)
    (t : Nat) (hs : subscribers ms t ≠ []) :
    partsOf t got = partsOf t cluster ∧ ∀ z, ledIn got t z = ledIn cluster t z := by
  obtain ⟨m, hm⟩ := List.exists_mem_of_ne_nil _ hs
  have hm' := List.mem_filter.mp hm
  exact hread t ((mem_extractTopics ms t).mpr ⟨m, hm'.1, by simpa using hm'.2⟩)

example (cluster : List Part) (ms : List Member) : ReadsTopics cluster (extractTopics ms) (readPartitions cluster (extractTopics ms)) :=
  readPartitions_reads cluster _

/-- one whole rebalance round seen from the cluster: the leader decodes the members' metadata (`glue_members`), reads the
partitions of the subscribed topics, applies the balancer, encodes; every member decodes its own bytes.  C14 holds of
what the members receive *with respect to the cluster's partition listing*. -/
theorem round_good (ρ : TopicMap → TopicMap) (hρ : ∀ l, (ρ l).Perm l) (ms : List Member) (cluster got : List Part)
    (hread : ReadsTopics cluster (extractTopics ms) got) (a : Asg) (ids ts : List Nat) (t : Nat)
    (hd : GoodAt ms got (delivered ρ a ids ts) t) : GoodAt ms cluster (delivered ρ a ids ts) t := by
  refine ⟨fun hs => ?_, hd.2⟩
  have := hd.1 hs
  unfold CoverAt at this ⊢
  rw [← (glue_partitions ms cluster got hread t hs).1]
  exact this

theorem range_round (ρ : TopicMap → TopicMap) (hρ : ∀ l, (ρ l).Perm l) (ms : List Member) (cluster got : List Part)
    (h : WellFormed ms) (hread : ReadsTopics cluster (extractTopics ms) got)
    (ids ts : List Nat) (hts : ts.Nodup) (hr : ∀ p ∈ got, InInt32 p.id) (hids : ∀ m ∈ ms, m.id ∈ ids) (t : Nat) (ht : t ∈ ts) :
    GoodAt ms cluster (delivered ρ (rangeAssign ms got) ids ts) t ∧
      ∀ id, OnlySubscribersAt ms (delivered ρ (rangeAssign ms got) ids ts) t id :=
  have hd := range_delivered ρ hρ ms got h ids ts hts hr hids t ht
  ⟨round_good ρ hρ ms cluster got hread _ ids ts t hd.1, hd.2⟩

theorem rr_round (ρ : TopicMap → TopicMap) (hρ : ∀ l, (ρ l).Perm l) (ms : List Member) (cluster got : List Part)
    (h : WellFormed ms) (hread : ReadsTopics cluster (extractTopics ms) got)
    (ids ts : List Nat) (hts : ts.Nodup) (hr : ∀ p ∈ got, InInt32 p.id) (hids : ∀ m ∈ ms, m.id ∈ ids) (t : Nat) (ht : t ∈ ts) :
    GoodAt ms cluster (delivered ρ (rrAssign ms got) ids ts) t ∧
      ∀ id, OnlySubscribersAt ms (delivered ρ (rrAssign ms got) ids ts) t id :=
  have hd := rr_delivered ρ hρ ms got h ids ts hts hr hids t ht
  ⟨round_good ρ hρ ms cluster got hread _ ids ts t hd.1, hd.2⟩

theorem rack_round (ρ : TopicMap → TopicMap) (hρ : ∀ l, (ρ l).Perm l) (ms : List Member) (cluster got : List Part)
    (σ₁ σ₂ : Nat → List Nat) (h : WellFormed ms) (hread : ReadsTopics cluster (extractTopics ms) got)
    (h1 : ∀ t, IterOrder got t (σ₁ t)) (h2 : ∀ t, IterOrder got t (σ₂ t))
    (ids ts : List Nat) (hts : ts.Nodup) (hr : ∀ p ∈ got, InInt32 p.id) (hids : ∀ m ∈ ms, m.id ∈ ids) (t : Nat) (ht : t ∈ ts) :
    GoodAt ms cluster (delivered ρ (rackAsg ms got σ₁ σ₂) ids ts) t ∧
      ∀ id, OnlySubscribersAt ms (delivered ρ (rackAsg ms got σ₁ σ₂) ids ts) t id :=
  have hd := rack_delivered ρ hρ ms got σ₁ σ₂ h h1 h2 ids ts hts hr hids t ht
  ⟨round_good ρ hρ ms cluster got hread _ ids ts t hd.1, hd.2⟩

/-! A subscribed topic that does not exist (yet) — finding C14-D31 (fixed in /repo).  `assignTopicPartitions` means
"no assignments for the topic" (its comment) and goes on; with the fix the leader is still given every partition of the
topics that do exist, so all `*_round` theorems apply with `got = leaderPartitions cluster missing ms` (the cluster has no
partitions of a missing topic).  Any other lookup error fails the join: nothing is distributed, nobody gets a generation —
C14 is a statement about the assignments that are distributed. -/

theorem missing_topic_reads (cluster : List Part) (missing : List Nat) (ms : List Member)
    (hmiss : ∀ p ∈ cluster, ¬ p.topic ∈ missing) :
    ReadsTopics cluster (extractTopics ms) (leaderPartitions cluster missing ms) :=
  leaderPartitions_reads cluster missing ms hmiss (KV.GroupRound.extractTopics_nodup ms)

/-- before the fix: one missing topic hid the partitions of every other topic (the whole group received nothing) -/
theorem prefix_missing_topic_starves_counterexample :
    let cluster : List Part := [⟨0, 0, 0⟩, ⟨0, 1, 0⟩]
    readTopicMetadataPreFix (metadataAnswer cluster [1] [0, 1]) [] = ([], true) ∧
    readTopicMetadata (metadataAnswer cluster [1] [0, 1]) = (cluster, true) := by decide

end Glue

/-! ## 7. The two payloads at byte level (joingroup.go `groupMetadata`, syncgroup.go `groupAssignment`, read.go,
write.go): what is read back is what was written

This is what justifies the abstraction of §6 ("the wire is the sequence of entries in the order written; metadata
passes topics and user data through unchanged"): for every well-formed value (lengths and integers fit their wire
fields) the real reader functions, modelled in the size-threading reader monad of Base/Reader.lean, return exactly the
written entries / topics in order, consume exactly the written bytes and leave the size counter at 0 — whatever
follows on the connection. -/
section Bytes
open KV.GroupWire

/-- `makeSyncGroupRequestV0` writes `groupAssignment{Version: 1, Topics: topics32}` (UserData nil); `syncGroup` reads it -/
theorem assignment_bytes_roundtrip (es : List (Bytes × List Int)) (hn : es.length < 2147483648)
    (he : ∀ e ∈ es, WFEntry e) (rest : Bytes) :
    readAssignment ⟨writeAssignment ⟨1, es, none⟩ ++ rest, (writeAssignment ⟨1, es, none⟩).length⟩ =
      (.ok (1, es, []), ⟨rest, 0⟩) :=
  readAssignment_write ⟨1, es, none⟩ ⟨by unfold Fits; constructor <;> simp, hn, he, by simp [optLen]⟩ rest

/-- `makeJoinGroupRequest` writes `groupMetadata{Version: 1, Topics: config.Topics, UserData: balancer.UserData()}`;
`makeMemberProtocolMetadata` reads it: same topics in the same order (repeats included), same user data (nil = empty) -/
theorem metadata_bytes_roundtrip (topics : List Bytes) (userData : Option Bytes) (hn : topics.length < 2147483648)
    (ht : ∀ t ∈ topics, t.length < 32768) (hu : optLen userData < 2147483648) (rest : Bytes) :
    readMetadata ⟨writeMetadata ⟨1, topics, userData⟩ ++ rest, (writeMetadata ⟨1, topics, userData⟩).length⟩ =
      (.ok (1, topics, userData.getD []), ⟨rest, 0⟩) :=
  readMetadata_write ⟨1, topics, userData⟩ ⟨by unfold Fits; constructor <;> simp, hn, ht, hu⟩ rest

/-- the bytes a member is sent carry exactly the abstract wire of §6: with any naming of the topic keys, the entries
`syncRequest` lists for a member are read back in order -/
theorem sync_bytes_carry_wire (name : Nat → Bytes) (hname : ∀ t, (name t).length < 32768) (w : KV.GroupGlue.Wire)
    (hn : w.length < 2147483648) (hv : ∀ e ∈ w, e.2.length < 2147483648 ∧ FitsAll e.2) (rest : Bytes) :
    let es := w.map fun e => (name e.1, e.2)
    readAssignment ⟨writeAssignment ⟨1, es, none⟩ ++ rest, (writeAssignment ⟨1, es, none⟩).length⟩ =
      (.ok (1, es, []), ⟨rest, 0⟩) := by
  intro es
  apply assignment_bytes_roundtrip es (by simpa [es] using hn) _ rest
  intro e he
  obtain ⟨x, hx, rfl⟩ := List.mem_map.mp he
  exact ⟨hname x.1, (hv x hx).1, (hv x hx).2⟩

example : WFEntry ([116, 48], [0, 1, -5]) := by
  refine ⟨by decide, by decide, ?_⟩
  intro v hv
  simp at hv
  rcases hv with rfl | rfl | rfl <;> (unfold Fits; constructor <;> simp)
example : (readAssignment ⟨writeAssignment ⟨1, [([116, 48], [0, 7])], none⟩ ++ [9], 26⟩).2 = ⟨[9], 0⟩ ∧
    writeAssignment ⟨1, [([116, 48], [0, 7])], none⟩ =
      [0, 1, 0, 0, 0, 1, 0, 2, 116, 48, 0, 0, 0, 2, 0, 0, 0, 0, 0, 0, 0, 7, 255, 255, 255, 255] := by decide

end Bytes

/-! ## 8. The concurrent life cycle: N members, any number of rebalances, any interleaving

Model/GroupRound.lean: every member runs `joining → (leader: assigning) → syncing → running(generation, assignment)`
interleaved with the others and with a coordinator that completes join rounds, stores the leader's assignment per
generation and answers SyncGroup per (member id, generation id).  One member's control flow is C15's GroupRun LTS; the
three steps used here are steps of that LTS (`round_steps_are_grouprun_steps`), whose guards tie the SyncGroup to the
ids of the JoinGroup answer. -/
section Round
open KV.GroupRound KV.GroupGlue

/-- every running generation, in every reachable state, holds its own part of the one assignment that the leader of
ITS generation id computed from THAT generation's member list and the cluster's partitions of the subscribed topics -/
theorem generation_from_its_round (P : Params) (s : St) (h : Reachable P s) (m gid : Nat) (asg : TopicMap)
    (hp : s.pc m = .running gid asg) :
    ∃ r ∈ s.rounds, ∃ x, r.gid = gid ∧ (∃ y ∈ r.ms, y.id = m) ∧ findStored s gid = some x ∧
      x.asg = P.balance r.ms x.got ∧ ReadsTopics P.cluster (extractTopics r.ms) x.got ∧
      asg = received P.ρ x.asg m :=
  running_from_round P s h m gid asg hp

/-- C14 across the life cycle, for a balancer `b` that satisfies C14 on one call: in every reachable state all running
generations with generation id `gid` hold parts of one assignment `d` that covers the cluster's partitions of every
subscribed topic exactly once among the members of generation `gid`, evenly, and gives nothing to non-subscribers -/
theorem lifecycle_good (b : List Member → List Part → Asg) (cluster : List Part) (ρ : TopicMap → TopicMap)
    (hρ : ∀ l, (ρ l).Perm l)
    (hb : ∀ ms got, WellFormed ms → ∀ t, GoodAt ms got (b ms got) t ∧ ∀ id, OnlySubscribersAt ms (b ms got) t id)
    (hc : ∀ p ∈ cluster, InInt32 p.id)
    (s : St) (h : Reachable ⟨balanceOf b, cluster, ρ⟩ s) (gid : Nat) :
    (∀ m asg, s.pc m ≠ .running gid asg) ∨
    ∃ r ∈ s.rounds, r.gid = gid ∧ ∃ got, ReadsTopics cluster (extractTopics r.ms) got ∧
      let d := delivered ρ (b r.ms got) (r.ms.map (·.id)) (extractTopics r.ms)
      (∀ m asg, s.pc m = .running gid asg → (∃ y ∈ r.ms, y.id = m) ∧ ∀ t, (mapGet t asg).getD [] = d t m) ∧
      (WellFormed r.ms → (∀ p ∈ got, InInt32 p.id) →
        ∀ t ∈ extractTopics r.ms, GoodAt r.ms cluster d t ∧ ∀ id, OnlySubscribersAt r.ms d t id) := by
  by_cases hex : ∃ m asg, s.pc m = .running gid asg
  · right
    obtain ⟨m0, asg0, hp0⟩ := hex
    obtain ⟨r, hr, x, hg, _, hx, hxa, hread, _⟩ := generation_from_its_round _ s h m0 gid asg0 hp0
    refine ⟨r, hr, hg, x.got, hread, ?_, ?_⟩
    · intro m asg hp
      obtain ⟨r', hr', x', hg', hm', hx', hxa', _, ha'⟩ := generation_from_its_round _ s h m gid asg hp
      have inv := inv_reachable _ s h
      have : r' = r := round_unique _ s inv r' r hr' hr (by rw [hg', hg])
      subst this
      rw [hx] at hx'; injection hx' with hx'; subst hx'
      refine ⟨hm', fun t => ?_⟩
      rw [ha', hxa]; rfl
    · intro hw hgot t ht
      have hd := glue_good ρ hρ r.ms x.got (b r.ms x.got) (r.ms.map (·.id)) (extractTopics r.ms)
        (extractTopics_nodup r.ms) hgot (fun y hy => List.mem_map.mpr ⟨y, hy, rfl⟩)
        (fun t => (hb r.ms x.got hw t).1) (fun t => (hb r.ms x.got hw t).2) t ht
      exact ⟨round_good ρ hρ r.ms cluster x.got hread _ _ _ t hd.1, hd.2⟩
  · left
    intro m asg hp
    exact hex ⟨m, asg, hp⟩

/-- the three balancers satisfy the hypothesis `hb` of `lifecycle_good` (RackAffinity: for every pair of iteration
orders of its maps) -/
theorem range_call_good (ms : List Member) (got : List Part) (h : WellFormed ms) (t : Nat) :
    GoodAt ms got (rangeAssign ms got) t ∧ ∀ id, OnlySubscribersAt ms (rangeAssign ms got) t id :=
  ⟨⟨range_cover ms got h t, range_balanced ms got h t⟩, range_only_subscribers ms got h t⟩

theorem rr_call_good (ms : List Member) (got : List Part) (h : WellFormed ms) (t : Nat) :
    GoodAt ms got (rrAssign ms got) t ∧ ∀ id, OnlySubscribersAt ms (rrAssign ms got) t id :=
  ⟨⟨rr_cover ms got h t, rr_balanced ms got h t⟩, rr_only_subscribers ms got h t⟩

theorem rack_call_good (σ₁ σ₂ : List Part → Nat → List Nat)
    (h1 : ∀ got t, IterOrder got t (σ₁ got t)) (h2 : ∀ got t, IterOrder got t (σ₂ got t))
    (ms : List Member) (got : List Part) (h : WellFormed ms) (t : Nat) :
    GoodAt ms got (rackAsg ms got (σ₁ got) (σ₂ got)) t ∧ ∀ id, OnlySubscribersAt ms (rackAsg ms got (σ₁ got) (σ₂ got)) t id :=
  ⟨⟨rack_cover ms got _ _ h t (h1 got t) (h2 got t), rack_balanced ms got _ _ h t (h1 got t) (h2 got t)⟩,
   rack_only_subscribers ms got _ _ h t (h1 got t) (h2 got t)⟩

/-- the member-local steps of the round model are steps of C15's GroupRun LTS (consumergroup.go `run` goroutine):
JoinGroup answered → leader reads partitions → SyncGroup answered with the member id and generation id of the JoinGroup
answer (the guard `mi == s.jm && gi == s.jg`), which is what lets the coordinator answer with the right generation's
assignment -/
theorem round_steps_are_grouprun_steps (c : KV.Group.Cfg) (g : KV.Group.St) (m : String) (gid : Int) (leader : Bool)
    (hj : g.pc = .joining) :
    let g1 : KV.Group.St := { g with jm := m, jg := gid, pc := if leader then .assigning else .syncing }
    KV.Group.step c g (.joinOk g.member m gid leader) = some g1 ∧
    (leader = true → KV.Group.step c g1 (.partsRes none) = some { g1 with pc := .syncing }) ∧
    (∀ mi gi, KV.Group.step c { g1 with pc := .syncing } (.syncRes mi gi none) =
      if mi = m ∧ gi = gid then some { g1 with pc := .fetching } else none) := by
  refine ⟨by simp [KV.Group.step, hj], fun hl => by simp [KV.Group.step, hl], fun mi gi => ?_⟩
  by_cases h : mi = m ∧ gi = gid
  · simp [KV.Group.step, h]
  · simp only [KV.Group.step, h, if_false]
    have : ¬ (mi == m && gi == gid) = true := by simpa using h
    simp [this]

/-- trace acceptance: a trace the executable acceptor `runB` replays from the initial state ends in a reachable state of
the life-cycle model, so `generation_from_its_round` / `lifecycle_good` hold of it.  The oracle replays the traces recorded
from real ConsumerGroups running against the group builder's coordinator simulation (go/internal/groupmock/sim.go). -/
theorem accepted_trace_reachable (P : Params) (es : List Ev) (s : St) (h : runB P {} es 0 = .ok s) : Reachable P s :=
  runB_reachable P es {} s 0 Reachable.init h

end Round

/-! ## 9. The wire side of an assignment, end to end, over the REGENERATED legacy codec (Gen/Legacy.lean)

The leader's SyncGroup v0 request body is written by `syncGroupRequestV0.writeTo`, the member's answer is read by
`syncGroupResponseV0.readFrom`, the JoinGroup answer by `joinGroupResponse.readFrom`, a member's metadata by
`groupMetadata.readFrom` — all four re-extracted from syncgroup.go / joingroup.go on every run (C04's translator, with
generated `read_write` theorems).  `groupAssignment` (the per-member payload) is the hand model of §7, read here in the same
parser monad.  The coordinator is specification: it parses the request body (`readSyncRequest`) and answers a member
with the bytes listed under its id.  (Layout of the request fields against Kafka's SyncGroup v0: `KV.GroupReq.sync_layout`,
b-group; response frames against the regenerated parser programs: `KV.GroupResp`.) -/
section Wire
open KV.GroupWireRd KV.Gen.Legacy KV.Legacy

/-- the body of the leader's SyncGroup request for the assignments `A` (member id bytes ↦ entries of its topic map in
the order `range` yields them) -/
def syncRequestOf (grp : Bytes) (gen : Int) (leader : Bytes) (A : List (Bytes × List (Bytes × List Int))) : syncGroupRequestV0 :=
  ⟨grp, gen, leader, A.map fun a => ⟨a.1, KV.GroupWire.writeAssignment ⟨1, a.2, none⟩⟩⟩

/-- every member receives exactly what the leader computed for it, byte for byte: the coordinator finds under the
member's id the payload the leader wrote, the member's `syncGroupResponseV0.readFrom` returns that payload, and
`groupAssignment.readFrom` turns it back into the member's entries, in order, with nothing left over -/
theorem wire_delivery (grp : Bytes) (gen : Int) (leader : Bytes) (A : List (Bytes × List (Bytes × List Int)))
    (hg : grp.length < 2 ^ 15) (hgen : inRng 32 gen) (hl : leader.length < 2 ^ 15) (hn : A.length < 2 ^ 31)
    (hA : ∀ a ∈ A, a.1.length < 2 ^ 15 ∧ a.2.length < 2 ^ 31 ∧ (∀ e ∈ a.2, KV.GroupWireRd.WFEntry e) ∧
      (KV.GroupWire.writeAssignment ⟨1, a.2, none⟩).length < 2 ^ 31)
    (m : Bytes) (a : Bytes × List (Bytes × List Int)) (hfind : A.find? (fun x => x.1 == m) = some a) :
    ∃ t, readSyncRequest (syncGroupRequestV0.writeTo (syncRequestOf grp gen leader A)) = some (t, []) ∧
      ∃ x, t.GroupAssignments.find? (fun x => x.MemberID == m) = some x ∧
        ∃ resp, syncGroupResponseV0.readFrom syncGroupResponseV0.zero
            (syncGroupResponseV0.writeTo ⟨0, x.MemberAssignments⟩) = some (resp, []) ∧
          KV.GroupWireRd.readAssignment resp.MemberAssignments = some ((1, a.2, []), []) := by
  have ha := hA a (List.mem_of_find?_eq_some hfind)
  have hok : SyncReqOk (syncRequestOf grp gen leader A) := by
    refine ⟨hg, hgen, hl, by simpa [syncRequestOf] using hn, ?_⟩
    intro x hx
    simp only [syncRequestOf, List.mem_map] at hx
    obtain ⟨b, hb, rfl⟩ := hx
    exact ⟨(hA b hb).1, (hA b hb).2.2.2⟩
  have hreq := readSyncRequest_write (syncRequestOf grp gen leader A) hok []
  rw [List.append_nil] at hreq
  refine ⟨_, hreq, ⟨a.1, KV.GroupWire.writeAssignment ⟨1, a.2, none⟩⟩, ?_, ?_⟩
  · simp only [syncRequestOf, List.find?_map]
    have : ((fun x : syncGroupRequestGroupAssignmentV0 => x.MemberID == m) ∘
        fun a : Bytes × List (Bytes × List Int) => (⟨a.1, KV.GroupWire.writeAssignment ⟨1, a.2, none⟩⟩ : syncGroupRequestGroupAssignmentV0))
        = (fun x => x.1 == m) := rfl
    rw [this, hfind]; rfl
  · have hresp := syncGroupResponseV0.read_write ⟨0, KV.GroupWire.writeAssignment ⟨1, a.2, none⟩⟩
      ⟨by constructor <;> simp, ha.2.2.2⟩ []
    rw [List.append_nil] at hresp
    refine ⟨_, hresp, ?_⟩
    have := KV.GroupWireRd.readAssignment_write a.2 ha.2.1 ha.2.2.1 []
    rwa [List.append_nil] at this

/-- the other direction of the round: the leader reads back, from the JoinGroup answer, exactly the member ids and the
metadata (version, topic list in listing order, user data) every member wrote -/
theorem join_wire_delivery (t : joinGroupResponse) (R : List (Bytes × groupMetadata))
    (hM : t.Members = R.map fun r => ⟨r.1, groupMetadata.writeTo r.2⟩) (hok : joinGroupResponse.Ok t)
    (hmd : ∀ r ∈ R, groupMetadata.Ok r.2) :
    joinGroupResponse.readFrom (joinGroupResponse.zero t.v) (joinGroupResponse.writeTo t) = some (t, []) ∧
    t.Members.map (fun x => (x.MemberID, groupMetadata.readFrom groupMetadata.zero x.MemberMetadata)) =
      R.map (fun r => (r.1, some (r.2, []))) := by
  constructor
  · have := joinGroupResponse.read_write t hok []
    rwa [List.append_nil] at this
  · rw [hM, List.map_map]
    apply List.map_congr_left
    intro r hr
    have := groupMetadata.read_write r.2 (hmd r hr) []
    rw [List.append_nil] at this
    simp [this]

end Wire

end KV.C14
