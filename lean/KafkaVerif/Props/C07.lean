/-
Props/C07.lean — property C07: the Writer preserves per-partition submission order, also across retries.
Property theorems only; the invariant `InvOrd` and its preservation proof live in Lemmas/WriterOrder.lean.

Model: Model/Writer.lean.  Ghost data used by the statements: every `add` (the append inside
(*partitionWriter).writeMessages, under w.mutex + ptw.mutex) stamps the message with the global submission
counter `s.seq`; every log entry carries the stamp and the batch it was copied from.
All theorems hold for every configuration and every reachable state (= every finite event sequence the LTS
accepts: any number of callers, partitions, batch settings, faults, retries, timer firings, Close).
-/
import KafkaVerif.Lemmas.WriterCalls
import KafkaVerif.Lemmas.WriterMsgs
import KafkaVerif.Gen.WriterConsts
import KafkaVerif.Lemmas.WriterFirstCopy

namespace KV.C07
open KV KV.Writer

/-- **order_preserved** — in the log of every topic-partition, for every pair of entries x before y: x was
submitted before y (smaller stamp), or both are copies out of the same batch (a retry after a lost
acknowledgement re-appends the whole batch).  Hence every copy of an earlier-submitted message that sits in a
different batch precedes every copy of a later one — across retries, timer flushes, size flushes and Close. -/
theorem order_preserved (cfg : Cfg) (s : State) (hr : Reachable cfg s) (tp : TP) :
    (s.log tp).Pairwise (fun x y => x.seq < y.seq ∨ x.batch = y.batch) :=
  (invOrd cfg s hr).logOrd tp

/-- **inversion_is_a_repeated_copy** — what a reader of the partition log sees: whenever an entry y stands after an
entry x although y was submitted before x, y is a repeated copy — the same message (same stamp) already stands in the
log before x.  (A retry after a lost acknowledgement re-appends the whole batch in batch order; nothing else ever
produces an inversion.) -/
theorem inversion_is_a_repeated_copy (cfg : Cfg) (s : State) (hr : Reachable cfg s) (tp : TP)
    (l1 : List LogEntry) (x : LogEntry) (l2 : List LogEntry) (hl : s.log tp = l1 ++ x :: l2)
    (y : LogEntry) (hy : y ∈ l2) (hlt : y.seq < x.seq) :
    ∃ y' ∈ l1, y'.seq = y.seq ∧ y'.msg = y.msg := by
  have hO := invOrd cfg s hr
  have hF := invFirst cfg s hr
  have hp := hO.logOrd tp
  rw [hl] at hp
  have hxy : LogRel x y := by
    have h2 := (List.pairwise_append.mp hp).2.1
    exact (List.pairwise_cons.mp h2).1 y hy
  have hb : x.batch = y.batch := by
    rcases hxy with h | h
    · exact absurd h (Nat.lt_asymm hlt)
    · exact h
  have hyin : y ∈ s.log tp := by rw [hl]; simp [hy]
  obtain ⟨B, hB, m, hm, e1, e2⟩ := hF.entryIn tp y hyin
  rw [← hb] at hB
  obtain ⟨y', hy', h1, h2⟩ := hF.prefixCopy tp l1 x l2 hl B hB m hm (by rw [e1]; exact hlt)
  exact ⟨y', hy', h1.trans e1, h2.trans e2⟩

/-- **first_copies_in_submission_order** — dropping repeated copies, the log is in submission order: if the message of
y does not occur before x, then y (standing after x) was not submitted before x. -/
theorem first_copies_in_submission_order (cfg : Cfg) (s : State) (hr : Reachable cfg s) (tp : TP)
    (l1 : List LogEntry) (x : LogEntry) (l2 : List LogEntry) (hl : s.log tp = l1 ++ x :: l2)
    (y : LogEntry) (hy : y ∈ l2) (hfirst : ∀ y' ∈ l1, y'.msg ≠ y.msg) : x.seq ≤ y.seq := by
  apply Nat.le_of_not_lt
  intro hlt
  obtain ⟨y', hy', -, hm⟩ := inversion_is_a_repeated_copy cfg s hr tp l1 x l2 hl y hy hlt
  exact hfirst y' hy' hm

/-! ### an attempt the Writer has given up is never delivered late -/

/-- **broker_decides_only_in_flight_attempts** — the broker can append (or reject) a batch only while the sender holds
that batch in an attempt that has no decision yet. -/
theorem broker_decides_only_in_flight_attempts (cfg : Cfg) (s s' : State) (pw : Nat) (tp : TP) (msgs : List Msg) (out : BrOut)
    (hs : step cfg s (.produce pw tp msgs out) = some s') :
    ∃ P b k, s.pws pw = some P ∧ P.sender = .attempting b k none := by
  simp only [step, stepProduce] at hs
  repeat' split at hs
  all_goals (first | (cases hs; done) | skip)
  rename_i _ P hP _ b k hsend _ B hB hg
  exact ⟨P, b, k, hP, hsend⟩

/-- **abandoned_attempt_never_applied** — once an attempt has ended on the client (with an acknowledgement, an error
code, or by giving up at WriteTimeout), no produce request of that partition writer can reach the log until the NEXT
attempt is started: a request the Writer has abandoned is not delivered behind its back — not after the retry, not
after a later batch.  (On the wire this needs the connection of the abandoned request to be cut off in both
directions: `attempt_cut_off_at_the_socket`.) -/
theorem abandoned_attempt_never_applied (cfg : Cfg) (s s' : State) (pw b k : Nat) (code : Code)
    (hs : step cfg s (.attemptDone pw b k code) = some s') (tp : TP) (msgs : List Msg) (out : BrOut) :
    step cfg s' (.produce pw tp msgs out) = none := by
  simp only [step] at hs
  repeat' split at hs
  all_goals (first | (cases hs; done) | skip)
  rename_i _ P hP _ b' k' br hsend hg
  cases hs
  have hne : ∀ x y, afterAttempt cfg b k code ≠ Sender.attempting x y none := by
    intro x y h
    unfold afterAttempt at h
    repeat' split at h
    all_goals cases h
  simp only [step, stepProduce, upd_same]
  all_goals
    split
    · rename_i heq
      exact absurd heq (hne _ _)
    · rfl

/-- **attempt_cut_off_at_the_socket** — in the source as it stands the Transport applies the request deadline (the
Writer's WriteTimeout) to the connection in both directions: an attempt abandoned while its request is still being
written is cut off, the rest of the request never arrives (regenerated on every run from transport.go). -/
theorem attempt_cut_off_at_the_socket :
    Gen.roundTripDeadlineSetters.contains "SetDeadline" = true ∨ Gen.roundTripDeadlineSetters.contains "SetWriteDeadline" = true := by
  decide

/-- **batch_internal_order** — inside a batch the messages are in submission order (so each copy is, too). -/
theorem batch_internal_order (cfg : Cfg) (s : State) (hr : Reachable cfg s) (b : Nat) (B : Batch)
    (hB : s.batches b = some B) : B.msgs.Pairwise (fun m m' => m.seq < m'.seq) :=
  (invOrd cfg s hr).sorted b B hB

/-- **one_sender_per_partition** — there is never a second partition writer (hence a second sending goroutine)
for a topic-partition.  (False in D1's window of the original code; `newPW` requires `closed = false` and an
empty slot, which is what the `fix:` commits in /repo establish.) -/
theorem one_sender_per_partition (cfg : Cfg) (s : State) (hr : Reachable cfg s) (pw pw' : Nat) (P P' : PW)
    (h : s.pws pw = some P) (h' : s.pws pw' = some P') (htp : P.tp = P'.tp) : pw = pw' := by
  have h1 := (invOrd cfg s hr).uniq pw P h
  have h2 := (invOrd cfg s hr).uniq pw' P' h'
  rw [htp, h2] at h1; cases h1; rfl

/-- **no_writer_after_close** — batchMessages queues nothing and creates no partition writer once the Writer is
closed (the re-check of `w.closed` under `w.mutex`, `fix:` ff73da6 in /repo); this is what keeps
`one_sender_per_partition` true in the window "call passed enter(), then Close ran" (defects D1 / D1b). -/
theorem no_writer_after_close (cfg : Cfg) (s s' : State) :
    (∀ c, step cfg s (.batch c) = some s' → s.closed = false) ∧
    (∀ pw q tp, step cfg s (.newPW pw q tp) = some s' → s.closed = false) := by
  constructor
  · intro c hs
    simp only [step] at hs
    repeat' split at hs
    all_goals (first | (cases hs; done) | skip)
    rename_i _ C hC hg
    exact hg.2.1
  · intro pw q tp hs
    simp only [step] at hs
    repeat' split at hs
    all_goals (first | (cases hs; done) | skip)
    rename_i hg
    exact hg.2.1

/-- **put_inside_section** — "batches are queued only while they are the current batch, under the partition mutex":
once a batch was detached (`pending = some b`) no other event of that partition writer's mutex sections — creating
the next batch, appending, another detach, a timer branch — is enabled until `qput` has handed b to the queue.  So a
later batch can never be created, let alone queued, before an earlier detached one.  (The trace monitor
`putInsideSection` checks the same on every recorded run.) -/
theorem put_inside_section (cfg : Cfg) (s s' : State) (pw : Nat) (P : PW) (hP : s.pws pw = some P) :
    (∀ b, step cfg s (.newBatch pw b) = some s' → P.pending = none) ∧
    (∀ b c i size, step cfg s (.add pw b c i size) = some s' → P.pending = none) ∧
    (∀ b why size, step cfg s (.detach pw b why size) = some s' → P.pending = none) ∧
    (∀ b att, step cfg s (.timerFire pw b att) = some s' → P.pending = none) := by
  refine ⟨?_, ?_, ?_, ?_⟩
  · intro b hs
    simp only [step, hP] at hs
    repeat' split at hs
    all_goals (first | (cases hs; done) | skip)
    rename_i hg; exact hg.2.2.1
  · intro b c i size hs
    simp only [step, stepAdd, hP] at hs
    repeat' split at hs
    all_goals (first | (cases hs; done) | skip)
    rename_i hg; exact hg.2.2.1
  · intro b why size hs
    simp only [step, stepDetach, hP] at hs
    repeat' split at hs
    all_goals (first | (cases hs; done) | skip)
    rename_i hg; exact hg.2.1
  · intro b att hs
    simp only [step, hP] at hs
    repeat' split at hs
    all_goals (first | (cases hs; done) | skip)
    rename_i hg; exact hg.1

/-! ### atomicity of the events = the lock brackets in the source (regenerated on every run) -/

/-- which mutex must be held at every site of these event hooks / queue hand-overs -/
def requiredLocks : List (String × String) :=
  [ ("W.Enter", "Writer.mutex"), ("W.Batch", "Writer.mutex"), ("W.Batched", "Writer.mutex"), ("W.NewPW", "Writer.mutex"),
    ("W.CloseBegin", "Writer.mutex"), ("W.CloseMarked", "Writer.mutex"),
    ("PW.NewBatch", "partitionWriter.mutex"), ("PW.Add", "partitionWriter.mutex"), ("PW.Detach", "partitionWriter.mutex"),
    ("B.TimerFire", "partitionWriter.mutex"), ("call:queue.Put", "partitionWriter.mutex"), ("call:queue.Close", "partitionWriter.mutex"),
    ("Q.Put", "batchQueue.cond.L"), ("Q.Get", "batchQueue.cond.L"), ("Q.Close", "batchQueue.cond.L") ]

def sectionsOk (table : List (String × String × List String)) : Bool :=
  requiredLocks.all (fun (k, l) => table.any (fun site => site.1 == k) && table.all (fun site => site.1 != k || site.2.2.contains l)) &&
  -- the only rejection decided inside batchMessages (Writer closed) is decided under w.mutex
  table.all (fun site => !(site.1 == "W.Reject" && site.2.1 == "Writer.batchMessages") || site.2.2.contains "Writer.mutex") &&
  -- appending to / flushing batches from WriteMessages, and closing partition writers from Close, happen inside the
  -- w.mutex section as well (locks held by every caller of a function count as held inside it)
  table.all (fun site => !(site.2.1 == "partitionWriter.writeMessages" || site.2.1 == "partitionWriter.close") ||
    site.2.2.contains "Writer.mutex")

/-- **events_inside_their_sections** — in the source as it stands, every hook of an event the model treats as part of a
w.mutex / ptw.mutex / queue-lock critical section is syntactically inside that lock's bracket, and every hand-over of a
batch to the queue (`queue.Put`, `queue.Close`) happens with the partition mutex held — the structural fact behind
`put_inside_section` and behind taking each event as atomic. -/
theorem events_inside_their_sections : sectionsOk Gen.hookLocks = true := by decide

/-- **copies_are_whole_batches** — an applied produce attempt appends exactly the messages of the batch being
sent, in batch order, to the log of that batch's topic-partition, and nothing else changes in any log. -/
theorem copies_are_whole_batches (cfg : Cfg) (s s' : State) (pw : Nat) (tp : TP) (msgs : List Msg) (out : BrOut)
    (hs : step cfg s (.produce pw tp msgs out) = some s') :
    ∃ b B, s.batches b = some B ∧ B.msgs.map (·.msg) = msgs ∧
      s'.log tp = (if out.applied then s.log tp ++ mkEntries pw b B else s.log tp) ∧
      (mkEntries pw b B).map (·.msg) = msgs ∧ ∀ t, t ≠ tp → s'.log t = s.log t := by
  simp only [step, stepProduce] at hs
  repeat' split at hs
  all_goals (first | (cases hs; done) | skip)
  rename_i _ P hP _ b k hsend _ B hB hg
  obtain ⟨-, -, -, hm, -⟩ := hg
  cases hs
  refine ⟨b, B, hB, hm, ?_, ?_, ?_⟩
  · rw [produced_log]; cases h : out.applied <;> simp
  · simp [mkEntries, ← hm]
  · intro t ht
    rw [produced_log]; cases h : out.applied <;> simp [upd_other _ _ _ _ ht]

/-- **sender_takes_head** (FIFO) — the partition writer's goroutine only ever takes the head of its queue, and only
when it is idle, i.e. after the previous batch — with all its attempts — has completed. -/
theorem sender_takes_head (cfg : Cfg) (s s' : State) (q b : Nat) (hs : step cfg s (.qget q (some b)) = some s') :
    ∃ pw P, s.qOf q = some pw ∧ s.pws pw = some P ∧ P.sender = .idle ∧ P.queue.head? = some b ∧
      s'.pws pw = some { P with queue := P.queue.tail, sender := .ready b 0 } := by
  simp only [step] at hs
  repeat' split at hs
  all_goals (first | (cases hs; done) | skip)
  rename_i _ pw hq _ P hP hg
  cases hs
  exact ⟨pw, P, hq, hP, hg.1, hg.2, by simp⟩

/-- **add_in_index_order** — within one call, a message is appended to its partition's batch only after every
earlier index of the call that goes to the same partition has been appended (so stamps follow the index
order); across successive calls of one goroutine the stamps follow the call order because the counter only
grows (`stamp_is_fresh`). -/
theorem add_in_index_order (cfg : Cfg) (s s' : State) (pw b c i size : Nat)
    (hs : step cfg s (.add pw b c i size) = some s') :
    ∃ P C, s.pws pw = some P ∧ s.calls c = some C ∧ C.assign[i]? = some P.tp ∧
      ∀ j, j < i → C.assign[j]? = some P.tp → (C.place j).isSome = true := by
  simp only [step, stepAdd] at hs
  repeat' split at hs
  all_goals (first | (cases hs; done) | skip)
  rename_i _ P hP _ B hB _ C hC hg
  obtain ⟨-, -, -, -, -, -, -, -, -, hassign, -, -, hall, -⟩ := hg
  refine ⟨P, C, hP, hC, hassign, ?_⟩
  intro j hj hja
  rw [List.all_eq_true] at hall
  have := hall j (List.mem_range.mpr hj)
  simpa [hja] using this

/-- **stamp_is_fresh** — the stamp given by `add` is larger than the stamp of every message added before and of
every entry already in any log. -/
theorem stamp_is_fresh (cfg : Cfg) (s : State) (hr : Reachable cfg s) :
    (∀ b B, s.batches b = some B → ∀ m ∈ B.msgs, m.seq < s.seq) ∧ (∀ tp, ∀ x ∈ s.log tp, x.seq < s.seq) :=
  ⟨(invOrd cfg s hr).counterB, (invOrd cfg s hr).counterL⟩

/-- **within_call_ordered** — "within one WriteMessages call": two messages of the same call that go to the same
topic-partition carry stamps in the order of their indexes in the call's slice (so by `order_preserved` every copy of
the earlier one precedes every copy of the later one, or they share a batch, where `batch_internal_order` applies). -/
theorem within_call_ordered (cfg : Cfg) (s : State) (hr : Reachable cfg s) (b b' : Nat) (B B' : Batch)
    (hB : s.batches b = some B) (hB' : s.batches b' = some B') (htp : B.tp = B'.tp)
    (m m' : BMsg) (hm : m ∈ B.msgs) (hm' : m' ∈ B'.msgs) (hcall : m.msg.1 = m'.msg.1) (hidx : m.msg.2 < m'.msg.2) :
    m.seq < m'.seq :=
  (invMsgs cfg s hr).callOrder b B b' B' hB hB' htp m hm m' hm' hcall hidx

/-- **successive_calls_ordered** — if one WriteMessages call returned before another one began (successive calls of
one goroutine, synchronous or Async: `endSeq c₁ ≤ beginSeq c₂`, see `begin_after_return`), every message of the
first call carries a smaller submission stamp than every message of the second.  With `order_preserved` this
gives: in each partition log every copy of a message of the earlier call precedes every copy of a message of the
later call (two messages with different stamps satisfy the first disjunct of `order_preserved` in submission order, or they sit in one batch, whose internal order is the submission order: `batch_internal_order`). -/
theorem successive_calls_ordered (cfg : Cfg) (s : State) (hr : Reachable cfg s) (c1 c2 : Nat) (C1 C2 : Call) (e1 : Nat)
    (h1 : s.calls c1 = some C1) (h2 : s.calls c2 = some C2) (hend : C1.endSeq = some e1) (hlt : e1 ≤ C2.beginSeq)
    (b1 b2 : Nat) (B1 B2 : Batch) (hB1 : s.batches b1 = some B1) (hB2 : s.batches b2 = some B2)
    (m1 m2 : BMsg) (hm1 : m1 ∈ B1.msgs) (hm2 : m2 ∈ B2.msgs) (hc1 : m1.msg.1 = c1) (hc2 : m2.msg.1 = c2) :
    m1.seq < m2.seq := by
  have hI := invCallSeq cfg s hr
  obtain ⟨X1, hX1, -, g1⟩ := hI.msgIn b1 B1 hB1 m1 hm1
  obtain ⟨X2, hX2, g2, -⟩ := hI.msgIn b2 B2 hB2 m2 hm2
  rw [hc1, h1] at hX1; cases hX1
  rw [hc2, h2] at hX2; cases hX2
  have := g1 e1 hend
  omega

/-- the log version: entries of an earlier call precede entries of a later call of the same goroutine -/
theorem successive_calls_ordered_in_log (cfg : Cfg) (s : State) (hr : Reachable cfg s) (tp : TP) (x y : LogEntry)
    (hxy : [x, y].Sublist (s.log tp)) : x.seq < y.seq ∨ x.batch = y.batch :=
  by
    have := (order_preserved cfg s hr tp).sublist hxy
    simpa using this

/-- **begin_after_return** — a call that begins after another call has returned gets a window that starts at or
after the end of that call's window. -/
theorem begin_after_return (cfg : Cfg) (s s' : State) (hr : Reachable cfg s) (c2 : Nat) (msgs : List MsgSpec)
    (hs : step cfg s (.begin_ c2 msgs) = some s') (c1 : Nat) (C1 : Call) (e1 : Nat) (h1 : s.calls c1 = some C1)
    (hend : C1.endSeq = some e1) :
    ∃ C2, s'.calls c2 = some C2 ∧ e1 ≤ C2.beginSeq := by
  have hI := invCallSeq cfg s hr
  simp only [step] at hs
  repeat' split at hs
  all_goals (first | (cases hs; done) | skip)
  cases hs
  exact ⟨{ msgs := msgs, phase := .begun, assign := [], place := fun _ => none, result := none, beginSeq := s.seq, endSeq := none },
    by simp, (hI.endLe c1 C1 e1 h1 hend).1⟩

/-! ### non-vacuity: a concrete run with a retry after a lost acknowledgement while a later batch is queued -/

def exCfg : Cfg :=
  { batchSize := 1, batchBytes := 1000, maxAttempts := 3, async := true, completion := false, topic := "t",
    retriable := fun c => c == 1003 }

def exTrace : List Event :=
  [ .enter true, .begin_ 1 [{ size := 45, topic := "" }], .assign 1 0 ("t", 0), .batch 1, .newPW 1 1 ("t", 0),
    .newBatch 1 1, .add 1 1 1 0 45, .detach 1 1 .full 0, .qput 1 1 true, .batched 1, .ret 1 .async,
    .enter true, .begin_ 2 [{ size := 45, topic := "" }], .assign 2 0 ("t", 0), .batch 2,
    .newBatch 1 2, .add 1 2 2 0 45, .detach 1 2 .full 0, .qget 1 (some 1), .attempt 1 1 0, .qput 1 2 true, .batched 2,
    .ret 2 .async,
    .produce 1 ("t", 0) [(1, 0)] (.lost true), .attemptDone 1 1 0 1003, .attempt 1 1 1,
    .produce 1 ("t", 0) [(1, 0)] .acked, .attemptDone 1 1 1 0, .complete 1 1 0,
    .qget 1 (some 2), .attempt 1 2 0, .produce 1 ("t", 0) [(2, 0)] .acked, .attemptDone 1 2 0 0, .complete 1 2 0 ]

/-- the run is accepted, and its log holds two copies of the first batch followed by the second batch -/
example : ((run exCfg State.init exTrace).map (fun s => (s.log ("t", 0)).map (fun e => (e.msg, e.seq, e.batch)))) =
    some [((1, 0), 0, 1), ((1, 0), 0, 1), ((2, 0), 1, 2)] := by decide

/-- D1's window — a call passed enter(), Close marked the Writer closed, then the call reaches batchMessages — is not
a behaviour of the model: the call can only be rejected (`reject … closed`), `batch` is not enabled. -/
example : (run exCfg State.init
    [ .enter true, .begin_ 1 [{ size := 45, topic := "" }], .assign 1 0 ("t", 0), .closeBegin, .closeMarked 0, .batch 1 ]).isSome = false := by
  decide

example : (run exCfg State.init
    [ .enter true, .begin_ 1 [{ size := 45, topic := "" }], .assign 1 0 ("t", 0), .closeBegin, .closeMarked 0,
      .reject 1 .closed 0, .ret 1 .closed, .closeReturn ]).isSome = true := by
  decide

end KV.C07
