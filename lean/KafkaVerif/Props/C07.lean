/-
Props/C07.lean — property C07: the Writer preserves per-partition submission order, also across retries.
Property theorems only; invariants and helper lemmas live in Lemmas/WriterInv.lean / Lemmas/WriterOrder.lean.
-/
import KafkaVerif.Lemmas.WriterInv

namespace KV.C07
open KV KV.Writer

/-- **sender_takes_head** (FIFO) — the partition writer's goroutine only ever takes the head of its queue, and only
when it is idle (the previous batch, with all its attempts, has completed). -/
theorem sender_takes_head (cfg : Cfg) (s s' : State) (q b : Nat) (hs : step cfg s (.qget q (some b)) = some s') :
    ∃ pw P, s.qOf q = some pw ∧ s.pws pw = some P ∧ P.sender = .idle ∧ P.queue.head? = some b ∧
      s'.pws pw = some { P with queue := P.queue.tail, sender := .ready b 0 } := by
  simp only [step] at hs
  repeat' split at hs
  all_goals (first | (cases hs; done) | skip)
  rename_i _ pw hq _ P hP hg
  cases hs
  exact ⟨pw, P, hq, hP, hg.1, hg.2, by simp⟩

end KV.C07
