/-
Props/C20.lean — "Malformed length fields from the network cannot crash or balloon the client".

Model: the decoder of Model/Codec.lean run on ARBITRARY bytes.  Outcomes: `ok` (a message), `error`,
`panic` (a Go run-time panic: negative `make`, slice bounds) and `balloon` (an allocation request — `make([]byte, n)`
in `decoder.read`, `makeArray(t, n)` in `decodeArray`/`decodeCompactArray` — larger than the number of bytes
left in the frame, i.e. out of proportion to what can still be received for it).

`decode_total_bounded`: for the decoder that checks lengths against `remain` (`cfg.bounded`, the fact
extracted from decode.go/response.go/request.go into Gen/DecoderCfg.lean on every run), for EVERY schema
type — no well-formedness needed, id-tagged fields included — and EVERY input and frame size, the outcome
is a message or an error: never a panic, and no allocation request ever exceeds the bytes remaining in the
frame (`c = 1` element or byte per remaining byte, `k = 0`; a Go element is at most a constant number of
bytes per schema).  The unbounded decoder (the code before the `fix:` commit for D5) violates it:
`alloc_counterexample`, `negative_size_counterexample`, `compact_len_counterexample`.

Not covered (partial, see docs/notes/C20.md): the inside of RecordSet payloads (record_v1/v2 lengths; C05/C17),
and CPU time — the model's short-circuit on the first error hides the pre-fix busy loop over a huge tagged
field count (replayed by the driver as `timeout`).
-/
import KafkaVerif.Model.Codec
import KafkaVerif.Gen.DecoderCfg
import KafkaVerif.Lemmas.RecordScanSafe
import KafkaVerif.Model.CodecRecords
import KafkaVerif.Lemmas.RecordScanExact
import KafkaVerif.Lemmas.CodecAccount
import KafkaVerif.Gen.RecordCfg
import KafkaVerif.Lemmas.GrowthSource

namespace KV.C20
open KV KV.Wire KV.Codec

/-- the outcome is a decoded message or an error, nothing else -/
def Safe {α : Type} : Res α → Prop
  | .ok _ _ => True
  | .error => True
  | .panic => False
  | .balloon => False

theorem bind_safe {α β : Type} (r : Res α) (f : α → Dec → Res β) (hr : Safe r) (hf : ∀ a d, Safe (f a d)) :
    Safe (r.bind f) := by
  cases r <;> simp_all [Res.bind, Safe]

theorem readN_safe (k : Nat) (d : Dec) : Safe (readN k d) := by
  unfold readN; split <;> simp [Safe]

theorem readInt_safe (k : Nat) (d : Dec) : Safe (readInt k d) :=
  bind_safe _ _ (readN_safe k d) (fun _ _ => by simp [Safe])

theorem readUvarint_safe (d : Dec) : Safe (readUvarint d) := by
  unfold readUvarint; split <;> simp [Safe]

/-- the two facts the safety theorems need of the decoder: lengths and counts are checked against `remain` before anything is
allocated (G1–G5), and what is allocated follows the data that ARRIVES (G8, G9) — `remain` is only what the size prefix announces -/
def Guarded (cfg : Cfg) : Prop := cfg.bounded = true ∧ cfg.growing = true

theorem readLen_safe (cfg : Cfg) (hb : Guarded cfg) (n : Int) (d : Dec) : Safe (readLen cfg n d) := by
  unfold readLen; simp only [hb.1, hb.2, if_true, Bool.not_true, Bool.false_and, Bool.false_eq_true, if_false]
  split
  · simp [Safe]
  · split
    · simp [Safe]
    · split <;> simp [Safe]

/-- an allocation that is granted never exceeds what is left of the frame -/
theorem readLen_le_remain (cfg : Cfg) (hb : Guarded cfg) (n : Int) (d d' : Dec) (bs : Bytes)
    (h : readLen cfg n d = .ok bs d') : 0 ≤ n ∧ n.toNat ≤ d.remain ∧ bs.length = n.toNat := by
  unfold readLen at h; simp only [hb.1, hb.2, if_true, Bool.not_true, Bool.false_and, Bool.false_eq_true, if_false] at h
  split at h
  · simp at h
  · split at h
    · simp at h
    · split at h
      · rename_i h1 h2 h3
        simp only [Res.ok.injEq] at h
        obtain ⟨rfl, _⟩ := h
        refine ⟨by omega, by omega, ?_⟩
        simp [List.length_take]; omega
      · simp at h

theorem allocElems_safe (cfg : Cfg) (hb : Guarded cfg) (n : Int) (d : Dec) : Safe (allocElems cfg n d) := by
  unfold allocElems; simp only [hb.1, hb.2, if_true, Bool.not_true, Bool.false_and, Bool.false_eq_true, if_false]
  split
  · simp [Safe]
  · split <;> simp [Safe]

theorem allocElems_le_remain (cfg : Cfg) (hb : Guarded cfg) (n : Int) (d d' : Dec) (k : Nat)
    (h : allocElems cfg n d = .ok k d') : k ≤ d.remain := by
  unfold allocElems at h; simp only [hb.1, hb.2, if_true, Bool.not_true, Bool.false_and, Bool.false_eq_true, if_false] at h
  split at h
  · simp at h
  · split at h
    · simp at h
    · simp only [Res.ok.injEq] at h; omega

theorem tagCount_safe (cfg : Cfg) (u : Nat) (d : Dec) (hb : Guarded cfg) : Safe (tagCount cfg u d) := by
  unfold tagCount; simp only [hb.1, hb.2, if_true, Bool.not_true, Bool.false_and, Bool.false_eq_true, if_false]
  split
  · simp [Safe]
  · split <;> simp [Safe]

theorem decodeElems_safe (f : Dec → Res Val) (z : Val) (hf : ∀ d, Safe (f d)) :
    ∀ (n : Nat) (d : Dec), Safe (decodeElems f z n d)
  | 0, d => by simp [decodeElems, Safe]
  | n + 1, d => by
    unfold decodeElems
    split
    · simp [Safe]
    · exact bind_safe _ _ (hf d) fun _ d => bind_safe _ _ (decodeElems_safe f z hf n d) fun _ _ => by simp [Safe]

theorem taggedLoop_safe (cfg : Cfg) (hb : Guarded cfg) (lookup : Int → Option (Nat × (Dec → Res Val)))
    (hl : ∀ id idx dec, lookup id = some (idx, dec) → ∀ d, Safe (dec d)) :
    ∀ (n : Nat) (slots : List Val) (d : Dec), Safe (taggedLoop cfg lookup n slots d)
  | 0, slots, d => by simp [taggedLoop, Safe]
  | n + 1, slots, d => by
    unfold taggedLoop
    refine bind_safe _ _ (readUvarint_safe d) fun tagID d => bind_safe _ _ (readUvarint_safe d) fun size d => ?_
    split
    · rename_i idx dec heq
      exact bind_safe _ _ (hl _ idx dec heq d) fun _ d => taggedLoop_safe cfg hb lookup hl n _ d
    · exact bind_safe _ _ (readLen_safe cfg hb _ d) fun _ d => taggedLoop_safe cfg hb lookup hl n _ d

/-- decoding one type is safe on every decoder state -/
def DS (cfg : Cfg) (t : Ty) : Prop := ∀ d, Safe (decode cfg t d)

theorem decodeFields_safe (cfg : Cfg) : ∀ (fs : List Ty), (∀ t ∈ fs, DS cfg t) → ∀ d, Safe (decodeFields cfg fs d)
  | [], _, d => by simp [decodeFields, Safe]
  | t :: ts, h, d => by
    unfold decodeFields
    exact bind_safe _ _ (h t (by simp) d) fun _ d =>
      bind_safe _ _ (decodeFields_safe cfg ts (fun t' ht' => h t' (by simp [ht'])) d) fun _ _ => by simp [Safe]

theorem tagLookup_safe (cfg : Cfg) : ∀ (ids : List Int) (ts : List Ty), (∀ t ∈ ts, DS cfg t) →
    ∀ (k : Nat) (id : Int) (idx : Nat) (dec : Dec → Res Val), tagLookup cfg ids ts k id = some (idx, dec) → ∀ d, Safe (dec d)
  | [], _, _, _, _, _, _, h => by simp [tagLookup] at h
  | _ :: _, [], _, _, _, _, _, h => by simp [tagLookup] at h
  | i :: is, t :: ts, hts, k, id, idx, dec, h => by
    unfold tagLookup at h
    split at h
    · rename_i r heq
      simp only [Option.some.injEq] at h
      subst h
      exact tagLookup_safe cfg is ts (fun t' ht' => hts t' (by simp [ht'])) (k + 1) id idx dec heq
    · split at h
      · simp only [Option.some.injEq, Prod.mk.injEq] at h
        obtain ⟨_, rfl⟩ := h
        exact hts t (by simp)
      · simp at h

theorem ds_string (cfg : Cfg) (hb : Guarded cfg) (c n : Bool) : DS cfg (.string c n) := by
  intro d
  simp only [decode]
  split
  · exact bind_safe _ _ (readUvarint_safe d) fun n d => by
      split
      · simp [Safe]
      · exact bind_safe _ _ (readLen_safe cfg hb _ d) fun _ _ => by simp [Safe]
  · exact bind_safe _ _ (readInt_safe 2 d) fun n d => by
      split
      · simp [Safe]
      · exact bind_safe _ _ (readLen_safe cfg hb _ d) fun _ _ => by simp [Safe]

theorem ds_bytes (cfg : Cfg) (hb : Guarded cfg) (c n : Bool) : DS cfg (.bytes c n) := by
  intro d
  simp only [decode]
  split
  · exact bind_safe _ _ (readUvarint_safe d) fun n d => by
      split
      · simp [Safe]
      · exact bind_safe _ _ (readLen_safe cfg hb _ d) fun _ _ => by simp [Safe]
  · exact bind_safe _ _ (readInt_safe 4 d) fun n d => by
      split
      · simp [Safe]
      · exact bind_safe _ _ (readLen_safe cfg hb _ d) fun _ _ => by simp [Safe]

theorem ds_array (cfg : Cfg) (hb : Guarded cfg) (c n : Bool) (t : Ty) (ht : DS cfg t) : DS cfg (.array c n t) := by
  intro d
  simp only [decode]
  split
  · exact bind_safe _ _ (readUvarint_safe d) fun n d => by
      split
      · simp [Safe]
      · exact bind_safe _ _ (allocElems_safe cfg hb _ d) fun k d =>
          bind_safe _ _ (decodeElems_safe _ _ ht k d) fun _ _ => by simp [Safe]
  · exact bind_safe _ _ (readInt_safe 4 d) fun n d => by
      split
      · simp [Safe]
      · exact bind_safe _ _ (allocElems_safe cfg hb _ d) fun k d =>
          bind_safe _ _ (decodeElems_safe _ _ ht k d) fun _ _ => by simp [Safe]

theorem ds_struct (cfg : Cfg) (hb : Guarded cfg) (flex : Bool) (fs : List Ty) (ids : List Int) (ts : List Ty)
    (hfs : ∀ t ∈ fs, DS cfg t) (hts : ∀ t ∈ ts, DS cfg t) : DS cfg (.struct flex fs ids ts) := by
  intro d
  simp only [decode]
  refine bind_safe _ _ (decodeFields_safe cfg fs hfs d) fun vs d => ?_
  split
  · exact bind_safe _ _ (readUvarint_safe d) fun n d => bind_safe _ _ (tagCount_safe cfg n d hb) fun k d =>
      bind_safe _ _ (taggedLoop_safe cfg hb _ (fun id idx dec h => tagLookup_safe cfg ids ts hts 0 id idx dec h) k _ d)
        fun _ _ => by simp [Safe]
  · simp [Safe]

theorem ds_unit (cfg : Cfg) (hb : Guarded cfg) (flex : Bool) : DS cfg (.unit flex) := by
  intro d
  simp only [decode]
  split
  · exact bind_safe _ _ (readUvarint_safe d) fun n d => bind_safe _ _ (tagCount_safe cfg n d hb) fun k d =>
      bind_safe _ _ (taggedLoop_safe cfg hb _ (fun id idx dec h => by simp at h) k _ d) fun _ _ => by simp [Safe]
  · simp [Safe]

/-- the record-set reader plugged into the decoder (if any) is itself safe -/
def RecsSafe (cfg : Cfg) : Prop := ∀ h, cfg.recs = some h → ∀ d, Safe (h d)

theorem ds_records (cfg : Cfg) (hb : Guarded cfg) (hr : RecsSafe cfg) : DS cfg .records := by
  intro d
  simp only [decode]
  split
  · rename_i h heq
    exact hr h heq d
  · exact bind_safe _ _ (readInt_safe 4 d) fun n d => by
      split
      · simp [Safe]
      · exact bind_safe _ _ (readLen_safe cfg hb _ d) fun _ _ => by simp [Safe]

theorem ds_prim (cfg : Cfg) (t : Ty) (k : Nat) (f : Bytes → Val)
    (h : ∀ d, decode cfg t d = (readN k d).bind fun bs d => .ok (f bs) d) : DS cfg t := by
  intro d; rw [h]; exact bind_safe _ _ (readN_safe k d) fun _ _ => by simp [Safe]

theorem ds_int (cfg : Cfg) (t : Ty) (k : Nat)
    (h : ∀ d, decode cfg t d = (readInt k d).bind fun i d => .ok (.int i) d) : DS cfg t := by
  intro d; rw [h]; exact bind_safe _ _ (readInt_safe k d) fun _ _ => by simp [Safe]

mutual
theorem ds_all (cfg : Cfg) (hb : Guarded cfg) (hr : RecsSafe cfg) (t : Ty) : DS cfg t :=
  match t with
  | .bool => ds_prim cfg _ 1 (fun bs => .bool (fromBE bs != 0)) (fun _ => by simp [decode])
  | .int8 => ds_int cfg _ 1 (fun _ => by simp [decode])
  | .int16 => ds_int cfg _ 2 (fun _ => by simp [decode])
  | .int32 => ds_int cfg _ 4 (fun _ => by simp [decode])
  | .int64 => ds_int cfg _ 8 (fun _ => by simp [decode])
  | .float64 => ds_prim cfg _ 8 (fun bs => .int (fromBE bs)) (fun _ => by simp [decode])
  | .string c n => ds_string cfg hb c n
  | .bytes c n => ds_bytes cfg hb c n
  | .array c n t => ds_array cfg hb c n t (ds_all cfg hb hr t)
  | .struct flex fs ids ts => ds_struct cfg hb flex fs ids ts (ds_list cfg hb hr fs) (ds_list cfg hb hr ts)
  | .unit flex => ds_unit cfg hb flex
  | .records => ds_records cfg hb hr
termination_by structural t
theorem ds_list (cfg : Cfg) (hb : Guarded cfg) (hr : RecsSafe cfg) (ts : List Ty) : ∀ t ∈ ts, DS cfg t :=
  match ts with
  | [] => fun _ h => by simp at h
  | t :: ts => fun t' h => by
    rcases List.mem_cons.1 h with h | h
    · exact h ▸ ds_all cfg hb hr t
    · exact ds_list cfg hb hr ts t' h
termination_by structural ts
end

theorem skipHeaderTags_safe (cfg : Cfg) (hb : Guarded cfg) : ∀ (n : Nat) (d : Dec), Safe (skipHeaderTags cfg n d)
  | 0, d => by simp [skipHeaderTags, Safe]
  | n + 1, d => by
    unfold skipHeaderTags
    exact bind_safe _ _ (readUvarint_safe d) fun _ d => bind_safe _ _ (readUvarint_safe d) fun _ d =>
      bind_safe _ _ (readLen_safe cfg hb _ d) fun _ d => skipHeaderTags_safe cfg hb n d

theorem discardAll_safe (d : Dec) : Safe (discardAll d) := by
  unfold discardAll; split <;> simp [Safe]

/-- **C20, body.**  For every schema type, every decoder state (arbitrary bytes, arbitrary frame size): the
bounded decoder returns a message or an error — no panic, no allocation beyond the bytes left in the frame. -/
theorem decode_total_bounded (cfg : Cfg) (hb : Guarded cfg) (hr : RecsSafe cfg) (t : Ty) (inp : Bytes) (remain : Nat) :
    Safe (decode cfg t ⟨inp, remain⟩) := ds_all cfg hb hr t ⟨inp, remain⟩

/-- **C20, frame.**  `ReadResponse` on an arbitrary byte stream, for every response schema: the size prefix
(negative, huge, lying), the header tag buffer and the body cannot make it panic or balloon. -/
theorem readResponse_total_bounded (cfg : Cfg) (hb : Guarded cfg) (hr : RecsSafe cfg) (flex : Bool) (t : Ty) (stream : Bytes) :
    Safe (readResponse cfg flex t stream) := by
  unfold readResponse
  refine bind_safe _ _ (readInt_safe 4 _) fun size d => ?_
  split
  · simp [hb.1, Safe]
  · refine bind_safe _ _ (readInt_safe 4 _) fun corr d => bind_safe _ _ ?_ fun _ d =>
      bind_safe _ _ (ds_all cfg hb hr t d) fun v d => bind_safe _ _ (discardAll_safe d) fun _ _ => by simp [Safe]
    split
    · exact bind_safe _ _ (readUvarint_safe d) fun n d => bind_safe _ _ (tagCount_safe cfg n d hb) fun k d =>
        skipHeaderTags_safe cfg hb k d
    · simp [Safe]

/-- the decoder of the CURRENT source tree is the bounded one (fact re-extracted on every run) -/
theorem source_decoder_is_bounded : Gen.decoderCfg.bounded = true := by decide

/-- … and allocates as the data arrives (G8 ∧ G9, the fixes of C20-D30 / C20-D33) -/
theorem source_decoder_guarded : Guarded Gen.decoderCfg := ⟨by decide, by decide⟩

/-- the decoder allocates arrays as their elements arrive (fact G8, re-extracted on every run): a count inside the ANNOUNCED
frame size but beyond the bytes received (C20-D30: size prefix 2^31-1 and count 2^27 in 12 bytes) does not allocate ahead of the
data.  The model's allocation bound is stated against `remain`; this fact and the `lying-size-and-count` frames of the check
cover the gap between announced and received. -/
theorem source_arrays_grow : Gen.arraysGrow = true := by decide

/-- the same for strings and bytes (fact G9, C20-D33: `decoder.read` no longer allocates an announced length beyond 64 KiB ahead of
the data) -/
theorem source_reads_grow : Gen.readsGrow = true := by decide

/-- the tagged-field loops stop at the first decoder error (fact G10, C20-D34): the model's short-circuit at the first error
(`Res.bind`) is what the code does, also for a count inside a lying frame size -/
theorem source_tag_loops_stop : Gen.tagLoopsStop = true := by decide

/-- C20 for the code as it is now -/
theorem readResponse_total_source (flex : Bool) (t : Ty) (stream : Bytes) :
    Safe (readResponse Gen.decoderCfg flex t stream) :=
  readResponse_total_bounded _ source_decoder_guarded (fun h hh => by simp [Gen.decoderCfg] at hh) flex t stream

/-- **C20, request frames** (`ReadRequest`, the other place a frame size is taken from the wire): arbitrary bytes — size
prefix, client-id length, header tag buffer, body — give a request or an error. -/
theorem readRequest_total_bounded (cfg : Cfg) (hb : Guarded cfg) (hr : RecsSafe cfg) (flex : Bool) (t : Ty) (stream : Bytes) :
    Safe (readRequest cfg flex t stream) := by
  unfold readRequest
  refine bind_safe _ _ (readInt_safe 4 _) fun size d => ?_
  split
  · simp [hb.1, Safe]
  · refine bind_safe _ _ (readInt_safe 2 _) fun _ d => bind_safe _ _ (readInt_safe 2 _) fun _ d =>
      bind_safe _ _ (readInt_safe 4 _) fun _ d => bind_safe _ _ (ds_all cfg hb hr _ d) fun _ d =>
      bind_safe _ _ ?_ fun _ _ => by simp [Safe]
    unfold readRequestBody
    refine bind_safe _ _ ?_ fun _ d =>
      bind_safe _ _ (ds_all cfg hb hr t d) fun v d => bind_safe _ _ (discardAll_safe d) fun _ _ => by simp [Safe]
    split
    · exact bind_safe _ _ (readUvarint_safe d) fun n d => bind_safe _ _ (tagCount_safe cfg n d hb) fun k d =>
        skipHeaderTags_safe cfg hb k d
    · simp [Safe]

theorem readRequest_total_source (flex : Bool) (t : Ty) (stream : Bytes) :
    Safe (readRequest Gen.decoderCfg flex t stream) :=
  readRequest_total_bounded _ source_decoder_guarded (fun h hh => by simp [Gen.decoderCfg] at hh) flex t stream

/-! ### the SASL raw exchange -/

/-- **C20, un-framed SASL token** (`protocol.Conn.RoundTrip` → `RawExchange` when the broker speaks SaslHandshake v0): whatever the
4-byte length says — negative, 2^31-1 — the outcome is the token or an error. -/
theorem saslReadResp_safe (c : SaslCfg) (h1 : c.negChecked = true) (h2 : c.grows = true) (stream : Bytes) :
    Safe (saslReadResp c stream) := by
  unfold saslReadResp
  refine bind_safe _ _ (readInt_safe 4 _) fun n d => ?_
  split
  · simp [h1, Safe]
  · split <;> simp [h2, Safe]

theorem source_sasl_guards : Gen.saslCfg.negChecked = true ∧ Gen.saslCfg.grows = true := by decide

theorem saslReadResp_safe_source (stream : Bytes) : Safe (saslReadResp Gen.saslCfg stream) :=
  saslReadResp_safe _ source_sasl_guards.1 source_sasl_guards.2 stream

/-! ### record sets: `RecordSet.ReadFrom`, `readFromVersion1`, `readFromVersion2` inside the frame decoder -/

theorem recsHandler_safe (rc : KV.RecordScan.RCfg) (hg : rc.allGuards = true) (crcI crcC : Bytes → Nat)
    (dcmp : Int → Bytes → Option Bytes) (d : Dec) : Safe (recsHandler rc crcI crcC dcmp d) := by
  have h := KV.RecordScan.readSet_safe rc hg crcI crcC dcmp d.inp d.remain
  have hr : rc.readGuard = true := by
    simp only [KV.RecordScan.RCfg.allGuards, Bool.and_eq_true] at hg
    exact hg.1.1.1.1.1.2
  unfold recsHandler
  split
  · split <;> simp [hr, Safe]
  · simp [Safe]
  · rename_i heq; rw [heq] at h; exact h
  · rename_i heq; rw [heq] at h; exact h

/-- **C20 including record-batch and message lengths.**  For every response schema, every byte stream, every CRC
and decompression function: `ReadResponse` with the record-set reader whose guards are all present returns a
message or an error — the frame size, every reflective length/count, the record-set size, message sizes, key and
value lengths of v0/v1 messages, `batchLength`, `numRecords`, and every record / key / value / header varint of v2
batches cannot make it panic or allocate beyond the bytes that hold the data. -/
theorem readResponse_total_with_records (cfg : Cfg) (hb : Guarded cfg) (rc : KV.RecordScan.RCfg)
    (hg : rc.allGuards = true) (crcI crcC : Bytes → Nat) (dcmp : Int → Bytes → Option Bytes)
    (flex : Bool) (t : Ty) (stream : Bytes) :
    Safe (readResponse (withRecords cfg rc crcI crcC dcmp) flex t stream) :=
  readResponse_total_bounded (withRecords cfg rc crcI crcC dcmp) ⟨by simpa [withRecords] using hb.1, by simpa [withRecords] using hb.2⟩
    (fun h hh => by
      have : h = recsHandler rc crcI crcC dcmp := by
        simp only [withRecords] at hh
        exact (Option.some.inj hh).symm
      subst this
      exact recsHandler_safe rc hg crcI crcC dcmp) flex t stream

/-- the guards of the CURRENT source tree are all present (facts re-extracted on every run) -/
theorem source_record_guards : Gen.recordCfg.allGuards = true := by decide

/-- C20 (with record sets) for the code as it is now -/
theorem readResponse_total_source_with_records (crcI crcC : Bytes → Nat) (dcmp : Int → Bytes → Option Bytes)
    (flex : Bool) (t : Ty) (stream : Bytes) :
    Safe (readResponse (withRecords Gen.decoderCfg Gen.recordCfg crcI crcC dcmp) flex t stream) :=
  readResponse_total_with_records _ source_decoder_guarded _ source_record_guards crcI crcC dcmp flex t stream

/-! ### "… the outcome is an error or a message, nothing else": no over-read either -/

theorem recsHandler_acc (rc : KV.RecordScan.RCfg) (hacc : rc.accountAfterDiscard = true) (crcI crcC : Bytes → Nat)
    (dcmp : Int → Bytes → Option Bytes) : Acc (recsHandler rc crcI crcC dcmp) := by
  intro d v d' h
  unfold recsHandler at h
  split at h
  · rename_i newRemain s heq
    obtain ⟨n, hn, hi, hr, _⟩ := KV.RecordScan.readSet_exact rc hacc crcI crcC dcmp d.inp d.remain newRemain s heq
    split at h
    · split at h <;> simp at h
    · simp only [Res.ok.injEq] at h
      rw [← h.2]
      exact ⟨n, hn, hi, by simp only []; omega⟩
  · simp at h
  · simp at h
  · simp at h

/-- **Exactly one frame leaves the connection** whenever ReadResponse returns a message — for every byte stream
and every schema, record sets included (stumps after the last batch, batches that fail after others were decoded,
unknown magic bytes …): the bytes consumed are the size prefix and precisely the bytes it announces.  With
`readResponse_total_source_with_records`: error or message, and a message never eats into the next frame. -/
theorem readResponse_consumes_frame_with_records (cfg : Cfg) (rc : KV.RecordScan.RCfg)
    (hacc : rc.accountAfterDiscard = true) (crcI crcC : Bytes → Nat) (dcmp : Int → Bytes → Option Bytes)
    (flex : Bool) (t : Ty) (stream : Bytes) (x : Int × Val) (d' : Dec)
    (h : readResponse (withRecords cfg rc crcI crcC dcmp) flex t stream = .ok x d') :
    ∃ size : Nat, 4 + size ≤ stream.length ∧ toS 32 (fromBE (stream.take 4)) = size ∧
      d'.inp = stream.drop (4 + size) ∧ d'.remain = 0 :=
  readResponse_consumes_frame _ (fun hh heq => by
    have : hh = recsHandler rc crcI crcC dcmp := by
      simp only [withRecords] at heq
      exact (Option.some.inj heq).symm
    subst this
    exact recsHandler_acc rc hacc crcI crcC dcmp) flex t stream x d' h

/-- … for the code as it is now (guard `accountAfterDiscard` extracted from record.go) -/
theorem readResponse_consumes_frame_source (crcI crcC : Bytes → Nat) (dcmp : Int → Bytes → Option Bytes)
    (flex : Bool) (t : Ty) (stream : Bytes) (x : Int × Val) (d' : Dec)
    (h : readResponse (withRecords Gen.decoderCfg Gen.recordCfg crcI crcC dcmp) flex t stream = .ok x d') :
    ∃ size : Nat, 4 + size ≤ stream.length ∧ toS 32 (fromBE (stream.take 4)) = size ∧
      d'.inp = stream.drop (4 + size) ∧ d'.remain = 0 :=
  readResponse_consumes_frame_with_records _ _ (by decide) crcI crcC dcmp flex t stream x d' h

/-! ### each guard is necessary: the model without it fails on a concrete input (CRC function constantly 0) -/

section Counter
open KV.RecordScan

def allOn : RCfg := ⟨true, true, true, true, true, true, true⟩
def z : Bytes → Nat := fun _ => 0
def nod : Int → Bytes → Option Bytes := fun _ _ => none

def rPanic {α : Type} : RRes α → Bool | .panic => true | _ => false
def rBalloon {α : Type} : RRes α → Bool | .balloon => true | _ => false
def rRemain : RRes Int → Option Int | .ok r _ => some r | _ => none

/-- a v2 batch header (61 bytes, no records) with the given numRecords bytes; crc field 0 -/
def batch (n : Bytes) : Bytes :=
  [0,0,0,0,0,0,0,0, 0,0,0,49, 0,0,0,0, 2, 0,0,0,0, 0,0, 0,0,0,0, 0,0,0,0,0,0,0,0, 0,0,0,0,0,0,0,0,
   0,0,0,0,0,0,0,0, 0,0, 0,0,0,0] ++ n

/-- a magic-1 message (34 bytes): null key, null value -/
def msg1 : Bytes := [0,0,0,0,0,0,0,0, 0,0,0,22, 0,0,0,0, 1,0, 0,0,0,0,0,0,0,0, 255,255,255,255, 255,255,255,255]
/-- … whose key length (2 → 40) runs past the message into the next one -/
def msgLongKey : Bytes := [0,0,0,0,0,0,0,0, 0,0,0,24, 0,0,0,0, 1,0, 0,0,0,0,0,0,0,0, 0,0,0,40, 7,7, 255,255,255,255]

/-- D5b: `numRecords = -1` reaches `make([]optimizedRecord, numRecords)` -/
theorem numRecords_negative_counterexample :
    rPanic (readSet { allOn with countsBounded := false } z z nod ([0,0,0,61] ++ batch [255,255,255,255]) 65) = true := by decide
theorem numRecords_huge_counterexample :
    rBalloon (readSet { allOn with countsBounded := false } z z nod ([0,0,0,61] ++ batch [127,255,255,255]) 65) = true := by decide
/-- C20-m3: the stream ends 3 bytes into a batch although frame and record-set sizes promise 40 -/
theorem peek_counterexample :
    rPanic (readSet { allOn with peekChecked := false } z z nod [0,0,0,40, 1,2,3] 100) = true := by decide
/-- a negative message size leaves the nested decoder's remain negative: the next read slices out of range -/
theorem negative_message_size_counterexample :
    rPanic (readSet { allOn with readGuard := false } z z nod
      ([0,0,0,34] ++ [0,0,0,0,0,0,0,0, 255,255,255,240] ++ List.replicate 22 0) 38) = true := by decide
/-- C20-m1: without the `n < limit` test in `writeTo` an over-long key leaves remain negative — a panic unless
`Read` treats a non-positive remain as end of input (which it does since a30786b: then it is a plain error) -/
theorem writeTo_counterexample :
    rPanic (readSet { allOn with writeToGuard := false, readGuard := false } z z nod
      ([0,0,0,72] ++ msgLongKey ++ msg1 ++ [0,0]) 76) = true := by decide
/-- C20-m6: a 2-byte stump after the last message is skipped on the stream but not accounted for: the frame decoder
believes 2 more bytes belong to it than do (with the guard the remaining count is 3, as it must be) -/
theorem accounting_counterexample :
    rRemain (readSet { allOn with accountAfterDiscard := false } z z nod ([0,0,0,36] ++ msg1 ++ [0,0] ++ [9,9,9]) 43) = some 5 ∧
    rRemain (readSet allOn z z nod ([0,0,0,36] ++ msg1 ++ [0,0] ++ [9,9,9]) 43) = some 3 := by decide
/-- a record set announcing more than the frame has left drives the frame's remain negative -/
theorem set_size_counterexample :
    rRemain (readSet { allOn with sizeChecked := false } z z nod ([0,0,0,34] ++ msg1) 10) = some (-28) := by decide

end Counter

/-! ### the unbounded decoder (D5, before the fix) violates the property -/

def unbounded : Cfg := { bounded := false }

/-- a metadata-v0-shaped response (`brokers []{int32,string,int32}` first): 12 bytes announcing 2^31−1 brokers -/
def brokersTy : Ty := .struct false [.array false false (.struct false [.int32, .string false false, .int32] [] [])] [] []

def isBalloon {α : Type} : Res α → Bool | .balloon => true | _ => false
def isPanic {α : Type} : Res α → Bool | .panic => true | _ => false

/-- SASL raw exchange: without the negative test, `ff ff ff ff` panics; with an allocation sized by the length, 6 bytes ask for 2 GiB -/
theorem sasl_negative_counterexample : isPanic (saslReadResp ⟨false, true⟩ [0xff, 0xff, 0xff, 0xff]) = true := by decide
theorem sasl_alloc_counterexample : isBalloon (saslReadResp ⟨true, false⟩ [0x7f, 0xff, 0xff, 0xff, 1, 2]) = true := by decide

/-- **announced is not received** (C20-D30, C20-D33): a decoder that checks every count and length against `remain` but allocates
the announced amount upfront balloons on 12 resp. 14 bytes whose size prefix lies too -/
def upfront : Cfg := { bounded := true, growing := false }
theorem lying_count_counterexample :
    isBalloon (readResponse upfront false brokersTy [0x7f,0xff,0xff,0xff, 0,0,0,7, 0x08,0,0,0]) = true := by decide
theorem lying_length_counterexample :
    isBalloon (readResponse upfront false (.struct false [.bytes false false] [] []) [0x7f,0xff,0xff,0xff, 0,0,0,7, 0x7f,0,0,0, 1,2]) = true := by decide

theorem alloc_counterexample :
    isBalloon (readResponse unbounded false brokersTy [0,0,0,8, 0,0,0,7, 0x7f,0xff,0xff,0xff]) = true := by decide

theorem negative_size_counterexample :
    isPanic (readResponse unbounded false brokersTy [0xff,0xff,0xff,0xff, 0,0,0,7, 0,0,0,0]) = true := by decide

/-- a compact string whose varint length is 2^31 in a 10-byte frame -/
theorem compact_len_counterexample :
    isBalloon (readResponse unbounded true (.struct true [.string true false] [] [])
      [0,0,0,10, 0,0,0,7, 0, 0x80,0x80,0x80,0x80,0x08]) = true := by decide

/-- the same three inputs are plain errors for the bounded decoder -/
def isError {α : Type} : Res α → Bool | .error => true | _ => false
/-- … which are plain errors for the decoder that allocates as the data arrives -/
example : isError (readResponse { bounded := true } false brokersTy [0x7f,0xff,0xff,0xff, 0,0,0,7, 0x08,0,0,0]) = true := by decide
example : isError (readResponse { bounded := true } false (.struct false [.bytes false false] [] []) [0x7f,0xff,0xff,0xff, 0,0,0,7, 0x7f,0,0,0, 1,2]) = true := by decide
example : isError (readResponse { bounded := true } false brokersTy [0,0,0,8, 0,0,0,7, 0x7f,0xff,0xff,0xff]) = true := by decide
example : isError (readResponse { bounded := true } false brokersTy [0xff,0xff,0xff,0xff, 0,0,0,7, 0,0,0,0]) = true := by decide

/-! ### the growth loops themselves (were the Boolean facts G8 / G9 only) -/

/-- **every allocation `decodeElems` makes follows the data**: while `k` elements of an array announced as `n` arrive, each
buffer has at most `arrayChunk` slots (the first) or at most twice the elements that have arrived — whatever `n` claims.
`arrayInit` / `arrayGrow` are the statements of the current decode.go, executed symbolically by the extractor. -/
theorem array_allocations_follow_data (n k : Nat) :
    ∀ c ∈ KV.Growth.allocs KV.GrowthSource.arrayPolicy n k, (c ≤ Gen.arrayChunk ∨ c ≤ 2 * k) ∧ c ≤ n :=
  KV.Growth.allocs_follow_data _ _ KV.GrowthSource.arrayPolicy_ok n k

/-- **every allocation `(*decoder).read` makes follows the data**: while `k` bytes of a string / bytes value announced as `n`
arrive, each buffer has at most `readChunk` bytes or at most twice the bytes received -/
theorem read_allocations_follow_data (n k : Nat) :
    ∀ c ∈ KV.Growth.allocs KV.GrowthSource.readPolicy n k, (c ≤ Gen.readChunk ∨ c ≤ 2 * k) ∧ c ≤ n :=
  KV.Growth.allocs_follow_data _ _ KV.GrowthSource.readPolicy_ok n k

/-- the policy `m := 2 * n` clamped to n (the whole announced length as soon as the first chunk is full) is what the theorem
excludes: 256 MiB for 65537 bytes received -/
example : (KV.Growth.allocs ⟨Gen.readInit, fun _ n => if 2 * n > n then n else 2 * n⟩ (2 ^ 28) 65537) = [65536, 2 ^ 28] := by
  decide

end KV.C20
