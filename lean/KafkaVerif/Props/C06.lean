import KafkaVerif.Model.ConnMux
import KafkaVerif.Model.TransportConn
namespace KV.C06
end KV.C06
