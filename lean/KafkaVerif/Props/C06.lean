/-
Props/C06.lean — property C06: a response is only ever delivered to the call that sent the request.

Models: Model/ConnMux.lean (conn.go doRequest / waitResponse / do, batch.go close) and
Model/TransportConn.lean (transport.go grabConn / conn.run / roundTrip / releaseConn, protocol/roundtrip.go).
All theorems hold for EVERY event sequence and EVERY response stream (any order of correlation ids,
duplicates, ids never issued, any timing of deadlines and drops); nothing is bounded.
-/
import KafkaVerif.Model.ConnMux
import KafkaVerif.Model.TransportConn
import KafkaVerif.Lemmas.BatchBytes
import KafkaVerif.Gen.MuxFacts
import KafkaVerif.Model.WireProg
import KafkaVerif.Model.ConnDeadline
import KafkaVerif.Model.VarIntRead
import KafkaVerif.Model.PoolDiscover

namespace KV.C06
open KV KV.ConnMux

/-! ## Part 1 — one Conn shared by any number of callers -/

/-- the invariant of the multiplexer, relative to the stream `stream0` the broker sends -/
structure Inv (stream0 : List Frame) (s : State) : Prop where
  /-- frames are consumed in order, whole, each once: what is left is `stream0` minus a prefix -/
  rest : stream0.drop s.consumed = s.stream
  /-- calls are numbered 1 … nextSeq -/
  range : ∀ i c, s.calls i = some c → 1 ≤ i ∧ i ≤ s.nextSeq
  /-- a call that holds / returned a frame got the frame at a consumed position of the stream, and
      that frame carries the correlation id the call wrote -/
  own : ∀ i c p f, s.calls i = some c → c.st.frame = some (p, f) →
      stream0[p]? = some f ∧ f.id = wire i ∧ p < s.consumed
  /-- no position is given to two calls -/
  once : ∀ i j ci cj p fi fj, s.calls i = some ci → s.calls j = some cj →
      ci.st.frame = some (p, fi) → cj.st.frame = some (p, fj) → i = j
  /-- whoever parses a body holds the read lock, so there is at most one -/
  reader : ∀ i c p f, s.calls i = some c → c.st = .reading p f → s.rlock = some i

theorem inv_init (stream0 : List Frame) : Inv stream0 (init stream0) := by
  constructor <;> simp [init]

theorem frame_of_waiting {st : Status} (h : st = .waiting) : st.frame = none := by subst h; rfl

theorem inv_step {stream0 : List Frame} {s s' : State} {e : Event}
    (hi : Inv stream0 s) (h : step s e = some s') : Inv stream0 s' := by
  cases e with
  | write tag ok id =>
    simp only [step] at h
    split at h
    · cases h
    rename_i hidw
    have hfresh : s.calls (s.nextSeq + 1) = none := by
      cases hc : s.calls (s.nextSeq + 1) with
      | none => rfl
      | some c => have := (hi.range _ c hc).2; omega
    split at h <;> (simp only [Option.some.injEq] at h; subst h)
    all_goals
      constructor
      · exact hi.rest
      · intro i c hc
        simp only [upd] at hc
        split at hc
        · dsimp only; omega
        · have := hi.range i c hc; dsimp only; omega
      · intro i c p f hc hf
        simp only [upd] at hc
        split at hc
        · simp at hc; subst hc; simp [Status.frame] at hf
        · exact hi.own i c p f hc hf
      · intro i j ci cj p fi fj hci hcj hfi hfj
        simp only [upd] at hci hcj
        split at hci
        · simp at hci; subst hci; simp [Status.frame] at hfi
        · split at hcj
          · simp at hcj; subst hcj; simp [Status.frame] at hfj
          · exact hi.once i j ci cj p fi fj hci hcj hfi hfj
      · intro i c p f hc hr
        simp only [upd] at hc
        split at hc
        · simp at hc; subst hc; simp at hr
        · exact hi.reader i c p f hc hr
  | take seq =>
    simp only [step] at h
    split at h
    · next f rest hrd hl hst hs =>
      split at h
      · next hid =>
        simp only [Option.some.injEq] at h; subst h
        have hdrop : stream0.drop s.consumed = f :: rest := by rw [hi.rest, hs]
        have hget : stream0[s.consumed]? = some f := by
          have := List.getElem?_drop (xs := stream0) (i := s.consumed) (j := 0)
          rw [hdrop] at this; simpa using this.symm
        obtain ⟨c0, hc0, hw⟩ : ∃ c0, s.calls seq = some c0 ∧ c0.st = .waiting := by
          simp only [statusOf] at hst
          cases hc : s.calls seq with
          | none => simp [hc] at hst
          | some c0 => simp [hc] at hst; exact ⟨c0, rfl, hst⟩
        constructor
        · simp only; rw [← List.drop_drop, hdrop]; rfl
        · intro i c hc
          simp only [setStatus] at hc
          split at hc
          · next heq => subst heq; rw [hc0] at hc; exact hi.range i c0 hc0
          · exact hi.range i c hc
        · intro i c p f' hc hf
          simp only [setStatus] at hc
          split at hc
          · next heq =>
            subst heq; rw [hc0] at hc; simp at hc; subst hc
            simp [Status.frame] at hf
            obtain ⟨hp, hf'⟩ := hf; subst hp; subst hf'
            exact ⟨hget, hid, by simp⟩
          · have := hi.own i c p f' hc hf
            exact ⟨this.1, this.2.1, by simp; omega⟩
        · intro i j ci cj p fi fj hci hcj hfi hfj
          simp only [setStatus] at hci hcj
          split at hci
          · next hei =>
            subst hei; rw [hc0] at hci; simp at hci; subst hci
            simp [Status.frame] at hfi
            split at hcj
            · next hej => exact hej.symm
            · have := (hi.own j cj p fj hcj hfj).2.2; omega
          · split at hcj
            · next hej =>
              subst hej; rw [hc0] at hcj; simp at hcj; subst hcj
              simp [Status.frame] at hfj
              have := (hi.own i ci p fi hci hfi).2.2; omega
            · exact hi.once i j ci cj p fi fj hci hcj hfi hfj
        · intro i c p f' hc hr
          simp only [setStatus] at hc
          split at hc
          · next heq => subst heq; rfl
          · have := hi.reader i c p f' hc hr
            rw [hl] at this; cases this
      · cases h
    · cases h
  | yield seq seen =>
    simp only [step] at h
    split at h
    · split at h
      · simp only [Option.some.injEq] at h; subst h; exact hi
      · cases h
    · cases h
  | lone seq seen =>
    simp only [step] at h
    split at h
    · next f rest hl hst hs =>
      split at h
      · simp only [Option.some.injEq] at h; subst h
        obtain ⟨c0, hc0, hw⟩ : ∃ c0, s.calls seq = some c0 ∧ c0.st = .waiting := by
          simp only [statusOf] at hst
          cases hc : s.calls seq with
          | none => simp [hc] at hst
          | some c0 => simp [hc] at hst; exact ⟨c0, rfl, hst⟩
        constructor
        · exact hi.rest
        · intro i c hc
          simp only [setStatus] at hc
          split at hc
          · next heq => subst heq; exact hi.range i c0 hc0
          · exact hi.range i c hc
        · intro i c p f' hc hf
          simp only [setStatus] at hc
          split at hc
          · next heq => subst heq; rw [hc0] at hc; simp at hc; subst hc; simp [Status.frame] at hf
          · exact hi.own i c p f' hc hf
        · intro i j ci cj p fi fj hci hcj hfi hfj
          simp only [setStatus] at hci hcj
          split at hci
          · next hei => subst hei; rw [hc0] at hci; simp at hci; subst hci; simp [Status.frame] at hfi
          · split at hcj
            · next hej => subst hej; rw [hc0] at hcj; simp at hcj; subst hcj; simp [Status.frame] at hfj
            · exact hi.once i j ci cj p fi fj hci hcj hfi hfj
        · intro i c p f' hc hr
          simp only [setStatus] at hc
          split at hc
          · next heq => subst heq; rw [hc0] at hc; simp at hc; subst hc; simp at hr
          · exact hi.reader i c p f' hc hr
      · cases h
    · cases h
  | peekErr seq =>
    simp only [step] at h
    split at h
    · next hl hst =>
      simp only [Option.some.injEq] at h; subst h
      obtain ⟨c0, hc0, hw⟩ : ∃ c0, s.calls seq = some c0 ∧ c0.st = .waiting := by
        simp only [statusOf] at hst
        cases hc : s.calls seq with
        | none => simp [hc] at hst
        | some c0 => simp [hc] at hst; exact ⟨c0, rfl, hst⟩
      constructor
      · exact hi.rest
      · intro i c hc
        simp only [setStatus] at hc
        split at hc
        · next heq => subst heq; exact hi.range i c0 hc0
        · exact hi.range i c hc
      · intro i c p f' hc hf
        simp only [setStatus] at hc
        split at hc
        · next heq => subst heq; rw [hc0] at hc; simp at hc; subst hc; simp [Status.frame] at hf
        · exact hi.own i c p f' hc hf
      · intro i j ci cj p fi fj hci hcj hfi hfj
        simp only [setStatus] at hci hcj
        split at hci
        · next hei => subst hei; rw [hc0] at hci; simp at hci; subst hci; simp [Status.frame] at hfi
        · split at hcj
          · next hej => subst hej; rw [hc0] at hcj; simp at hcj; subst hcj; simp [Status.frame] at hfj
          · exact hi.once i j ci cj p fi fj hci hcj hfi hfj
      · intro i c p f' hc hr
        simp only [setStatus] at hc
        split at hc
        · next heq => subst heq; rw [hc0] at hc; simp at hc; subst hc; simp at hr
        · exact hi.reader i c p f' hc hr
    · cases h
  | finish seq o =>
    simp only [step] at h
    split at h
    · next hh pos f hl hst =>
      split at h
      · next heq =>
        subst heq
        obtain ⟨c0, hc0, hw⟩ : ∃ c0, s.calls hh = some c0 ∧ c0.st = .reading pos f := by
          simp only [statusOf] at hst
          cases hc : s.calls hh with
          | none => simp [hc] at hst
          | some c0 => simp [hc] at hst; exact ⟨c0, rfl, hst⟩
        have hown := hi.own hh c0 pos f hc0 (by rw [hw]; rfl)
        have key : ∀ st' : Status, (st'.frame = some (pos, f) ∨ st'.frame = none) → (∀ p f', st' ≠ .reading p f') →
            ∀ cl rd, Inv stream0 { s with rlock := none, calls := setStatus s hh st', closed := cl, rdead := rd } := by
          intro st' hfr hnr cl rd
          constructor
          · exact hi.rest
          · intro i c hc
            simp only [setStatus] at hc
            split at hc
            · next heq => subst heq; exact hi.range i c0 hc0
            · exact hi.range i c hc
          · intro i c p f' hc hf
            simp only [setStatus] at hc
            split at hc
            · next heq =>
              subst heq; rw [hc0] at hc; simp at hc; subst hc
              simp only at hf
              rcases hfr with hfr | hfr
              · rw [hfr] at hf; simp at hf; obtain ⟨hp, hf'⟩ := hf; subst hp; subst hf'; exact hown
              · rw [hfr] at hf; cases hf
            · exact hi.own i c p f' hc hf
          · intro i j ci cj p fi fj hci hcj hfi hfj
            simp only [setStatus] at hci hcj
            split at hci
            · next hei =>
              subst hei; rw [hc0] at hci; simp at hci; subst hci
              simp only at hfi
              rcases hfr with hfr | hfr
              · rw [hfr] at hfi; simp at hfi
                split at hcj
                · next hej => exact hej.symm
                · exact hi.once i j c0 cj p f fj hc0 hcj (by rw [hw]; simp [Status.frame]; exact hfi.1) hfj
              · rw [hfr] at hfi; cases hfi
            · split at hcj
              · next hej =>
                subst hej; rw [hc0] at hcj; simp at hcj; subst hcj
                simp only at hfj
                rcases hfr with hfr | hfr
                · rw [hfr] at hfj; simp at hfj
                  exact hi.once i j ci c0 p fi f hci hc0 hfi (by rw [hw]; simp [Status.frame]; exact hfj.1)
                · rw [hfr] at hfj; cases hfj
              · exact hi.once i j ci cj p fi fj hci hcj hfi hfj
          · intro i c p f' hc hr
            simp only [setStatus] at hc
            split at hc
            · next heq => subst heq; rw [hc0] at hc; simp at hc; subst hc; exact absurd hr (hnr p f')
            · have := hi.reader i c p f' hc hr
              rw [hl] at this; simp at this; omega
        cases o <;> (simp only [Option.some.injEq] at h; subst h)
        · exact key _ (Or.inl rfl) (by intro p f' hh'; cases hh') s.closed s.rdead
        · exact key _ (Or.inl rfl) (by intro p f' hh'; cases hh') s.closed s.rdead
        · exact key _ (Or.inr rfl) (by intro p f' hh'; cases hh') true true
      · cases h
    · cases h
  | close =>
    simp only [step, Option.some.injEq] at h; subst h
    exact ⟨hi.rest, hi.range, hi.own, hi.once, hi.reader⟩

theorem inv_run (stream0 : List Frame) : ∀ (es : List Event) (s s' : State),
    Inv stream0 s → runFrom s es = some s' → Inv stream0 s' := by
  intro es
  induction es with
  | nil => intro s s' hi h; simp [runFrom] at h; subst h; exact hi
  | cons e es ih =>
    intro s s' hi h
    simp only [runFrom] at h
    split at h
    · cases h
    · next s1 h1 => exact ih s1 s' (inv_step hi h1) h

/-- **own_response_or_error.**  Whatever the broker sends and however the callers interleave: a call that
holds or returned a response (or a Kafka error read from a response) took the frame at one position `p`
of the stream, and that frame's correlation id is the id the call wrote.  Every other outcome is an error. -/
theorem own_response_or_error (stream0 : List Frame) (es : List Event) (s : State)
    (h : run stream0 es = some s) (i : Nat) (c : Call) (hc : s.calls i = some c) :
    (∃ p f, c.st.frame = some (p, f) ∧ stream0[p]? = some f ∧ f.id = wire i) ∨
    c.st = .waiting ∨ c.st = .done .err := by
  have hi := inv_run stream0 es (init stream0) s (inv_init stream0) h
  cases hst : c.st with
  | waiting => exact Or.inr (Or.inl rfl)
  | reading p f => exact Or.inl ⟨p, f, rfl, (hi.own i c p f hc (by rw [hst]; rfl)).1, (hi.own i c p f hc (by rw [hst]; rfl)).2.1⟩
  | done r =>
    cases r with
    | err => exact Or.inr (Or.inr rfl)
    | resp p f => exact Or.inl ⟨p, f, rfl, (hi.own i c p f hc (by rw [hst]; rfl)).1, (hi.own i c p f hc (by rw [hst]; rfl)).2.1⟩
    | kafkaErr p f => exact Or.inl ⟨p, f, rfl, (hi.own i c p f hc (by rw [hst]; rfl)).1, (hi.own i c p f hc (by rw [hst]; rfl)).2.1⟩

/-- no frame (position of the stream) is ever given to two calls — in particular a duplicate of a
response is not a second delivery of the same bytes, and a frame taken by one caller is gone -/
theorem frame_delivered_once (stream0 : List Frame) (es : List Event) (s : State)
    (h : run stream0 es = some s) (i j : Nat) (ci cj : Call) (p : Nat) (fi fj : Frame)
    (hci : s.calls i = some ci) (hcj : s.calls j = some cj)
    (hfi : ci.st.frame = some (p, fi)) (hfj : cj.st.frame = some (p, fj)) : i = j :=
  (inv_run stream0 es (init stream0) s (inv_init stream0) h).once i j ci cj p fi fj hci hcj hfi hfj

/-- bodies are parsed one at a time: two calls that are both between `take` and `finish` (a `do` reading
its body, a Batch not yet closed) are the same call, the holder of the read lock -/
theorem one_reader (stream0 : List Frame) (es : List Event) (s : State)
    (h : run stream0 es = some s) (i j : Nat) (ci cj : Call) (pi pj : Nat) (fi fj : Frame)
    (hci : s.calls i = some ci) (hcj : s.calls j = some cj)
    (hri : ci.st = .reading pi fi) (hrj : cj.st = .reading pj fj) : i = j := by
  have hi := inv_run stream0 es (init stream0) s (inv_init stream0) h
  have h1 := hi.reader i ci pi fi hci hri
  have h2 := hi.reader j cj pj fj hcj hrj
  rw [h1] at h2; simpa using h2

/-- **ids_unique_inflight.**  Calls are numbered 1, 2, 3, … (one `correlationID++` per `doRequest`, under
`wlock`), and two calls fewer than 2^32 requests apart have different ids on the wire. -/
theorem ids_unique_inflight (i j : Nat) (hne : i ≠ j) (hclose : i < j + 4294967296 ∧ j < i + 4294967296) :
    wire i ≠ wire j := by
  unfold wire; omega

theorem calls_are_numbered (stream0 : List Frame) (es : List Event) (s : State)
    (h : run stream0 es = some s) (i : Nat) (c : Call) (hc : s.calls i = some c) : 1 ≤ i ∧ i ≤ s.nextSeq :=
  (inv_run stream0 es (init stream0) s (inv_init stream0) h).range i c hc

/-- the id a `doRequest` puts on the wire is fresh: it differs from the wire id of every earlier call fewer
than 2^32 requests back — in particular of every call still in flight.  (Trace form of
ids_unique_inflight: a recorded `C.Write` that reuses an in-flight id is not a behaviour of the model.) -/
theorem write_id_fresh (stream0 : List Frame) (es : List Event) (s s' : State)
    (h : run stream0 es = some s) (tag : Nat) (ok : Bool) (id : Nat)
    (hs : step s (.write tag ok id) = some s') (i : Nat) (c : Call) (hc : s.calls i = some c)
    (hnear : s.nextSeq + 1 < i + 4294967296) : wire i ≠ id := by
  have hr := calls_are_numbered stream0 es s h i c hc
  simp only [step] at hs
  split at hs
  · cases hs
  · rename_i hid
    have hid' : id = wire (s.nextSeq + 1) := by
      cases hd : decide (id = wire (s.nextSeq + 1)) with
      | true => exact of_decide_eq_true hd
      | false => exact absurd (of_decide_eq_false hd) hid
    rw [hid']
    exact ids_unique_inflight i (s.nextSeq + 1) (by omega) ⟨by omega, hnear⟩

/-- the wrap is real: request 2^32+1 reuses the wire id of request 1 (so the bound is needed) -/
theorem ids_wrap_counterexample : wire 1 = wire 4294967297 := by decide

/-- **ids are compared as 32-bit numbers and nothing else matters about them**: adding the same constant to every id
(mod 2^32) preserves which id equals which.  This is what lets the harness run a Conn whose counter was preset to
2^31 − 3 or −3 (`VerifSetCorrelationID`: the real ids cross the int32 overflow and the return to 0) and hand the model
ids relative to that preset, calls numbered from 1 as always: every theorem above speaks about the relabelled run, and
the relabelling loses nothing. -/
theorem id_relabelling_sound (a b k : Nat) : wire (a + k) = wire (b + k) ↔ wire a = wire b := by
  unfold wire; omega

/-- the two boundaries the wrap family crosses: int32 overflow (2^31 − 1 → −2^31, the same 32 bits as 2^31) and the
return to zero (−1 → 0) are ordinary successor steps of `wire` -/
theorem wire_crosses_boundaries :
    wire (2147483647 + 1) = 2147483648 ∧ wire (4294967295 + 1) = 0 ∧ wire 2147483648 ≠ wire 0 := by decide

/-- the broker labels its frames truthfully: a frame carrying the wire id of a call carries the payload
answering that call's request (tags).  It may still reorder, delay, drop, duplicate, invent ids. -/
def Honest (stream0 : List Frame) (s : State) : Prop :=
  ∀ f, f ∈ stream0 → ∀ i c, s.calls i = some c → f.id = wire i → f.tag = c.tag

/-- **tag equality** (what the harness observes at the API): with a truthful broker, the payload a call
returns is the payload of its own request. -/
theorem own_payload (stream0 : List Frame) (es : List Event) (s : State)
    (h : run stream0 es = some s) (hon : Honest stream0 s)
    (i : Nat) (c : Call) (p : Nat) (f : Frame) (hc : s.calls i = some c) (hr : c.st = .done (.resp p f)) :
    f.tag = c.tag := by
  have hi := inv_run stream0 es (init stream0) s (inv_init stream0) h
  have ho := hi.own i c p f hc (by rw [hr]; rfl)
  exact hon f (List.mem_of_getElem? ho.1) i c hc ho.2.1

/-- **abandoned_call_cannot_leak** (Conn).  A call that gave up (deadline while waiting: `peekErr`, which
also closes the conn; `ErrNoProgress`; failed write) never has its response handed to another call: any
other call `j` (fewer than 2^32 requests away) that holds or returned a frame holds one with a different
correlation id. -/
theorem abandoned_call_cannot_leak (stream0 : List Frame) (es : List Event) (s : State)
    (h : run stream0 es = some s) (i j : Nat) (ci cj : Call) (p : Nat) (f : Frame)
    (_hci : s.calls i = some ci) (_hab : ci.st = .done .err)
    (hcj : s.calls j = some cj) (hne : i ≠ j) (hclose : i < j + 4294967296 ∧ j < i + 4294967296)
    (hfj : cj.st.frame = some (p, f)) : f.id ≠ wire i := by
  have hi := inv_run stream0 es (init stream0) s (inv_init stream0) h
  rw [(hi.own j cj p f hcj hfj).2.1]
  exact fun heq => ids_unique_inflight i j hne hclose heq.symm

/-- a deadline that fires while a caller waits closes the conn (nothing more is read from the socket) -/
theorem timeout_closes (s s' : State) (seq : Nat) (h : step s (.peekErr seq) = some s') : s'.closed = true := by
  simp only [step] at h
  split at h
  · simp at h; subst h; rfl
  · cases h

/-- a body that cannot be read to its end (deadline in the middle of a response, truncated frame, malformed
bytes) closes the conn — the half-read frame is never left for the next call (C11's alignment, the hinge
of this model: `take` removes a frame whole) -/
theorem unreadable_body_closes (s s' : State) (seq : Nat) (h : step s (.finish seq .io) = some s') :
    s'.closed = true := by
  simp only [step] at h
  split at h
  · split at h
    · simp at h; subst h; rfl
    · cases h
  · cases h

/-- the read side is dead only on a closed conn (`abortRead` and the failed-`Peek` branch close first) -/
theorem rdead_closed_step (s s' : State) (e : Event) (hrc : s.rdead = true → s.closed = true)
    (h : step s e = some s') : s'.rdead = true → s'.closed = true := by
  cases e <;> simp only [step] at h
  all_goals
    repeat' split at h
    all_goals first
      | (simp only [Option.some.injEq] at h; subst h; simp_all; done)
      | cases h

/-- **no_take_after_read_failure** — after a body that could not be read to its end (`finish io`: deadline in the
middle of a response, bytes left, malformed body) or a failed `Peek`, no call is ever given anything from this conn:
neither `take` nor `yield` nor `lone` is enabled (finding C06-D30: the code used to close the net.Conn but keep the
rest of the response in its read buffer, where a caller that was already waiting found it) -/
theorem no_take_after_read_failure (s : State) (hd : s.rdead = true) (seq seen : Nat) :
    step s (.take seq) = none ∧ step s (.yield seq seen) = none ∧ step s (.lone seq seen) = none := by
  simp [step, hd]

theorem read_failure_kills_read_side (s s' : State) (seq : Nat) :
    (step s (.finish seq .io) = some s' → s'.rdead = true) ∧ (step s (.peekErr seq) = some s' → s'.rdead = true) := by
  constructor
  · intro h; simp only [step] at h
    repeat' split at h
    all_goals first | (simp only [Option.some.injEq] at h; subst h; rfl) | cases h
  · intro h; simp only [step] at h
    repeat' split at h
    all_goals first | (simp only [Option.some.injEq] at h; subst h; rfl) | cases h

/-- dead stays dead -/
theorem rdead_is_final (s s' : State) (e : Event) (hd : s.rdead = true) (h : step s e = some s') : s'.rdead = true := by
  cases e <;> simp only [step] at h
  all_goals
    repeat' split at h
    all_goals first
      | (simp only [Option.some.injEq] at h; subst h; simp_all; done)
      | cases h

/-- once closed, always closed: no event re-opens the conn -/
theorem closed_is_final (s s' : State) (e : Event) (hc : s.closed = true) (h : step s e = some s') :
    s'.closed = true := by
  cases e <;> simp only [step] at h
  · split at h
    · cases h
    · split at h <;> (simp at h; subst h; simp [hc])
  · split at h
    · split at h
      · simp at h; subst h; first | exact hc | rfl
      · cases h
    · cases h
  · split at h
    · split at h
      · simp at h; subst h; first | exact hc | rfl
      · cases h
    · cases h
  · split at h
    · split at h
      · simp at h; subst h; first | exact hc | rfl
      · cases h
    · cases h
  · split at h
    · simp at h; subst h; rfl
    · cases h
  · split at h
    · split at h
      · split at h <;> (simp at h; subst h; simp [hc])
      · cases h
    · cases h
  · simp at h; subst h; rfl

/-- non-vacuity: two callers, responses in the opposite order, one foreign frame; both get their own -/
example : (run [⟨2, 20⟩, ⟨1, 10⟩] [.write 10 true 1, .write 20 true 2, .yield 1 2, .take 2, .finish 2 .ok, .take 1, .finish 1 .ok]).map
    (fun s => (s.calls 1, s.calls 2)) =
    some (some ⟨10, .done (.resp 1 ⟨1, 10⟩)⟩, some ⟨20, .done (.resp 0 ⟨2, 20⟩)⟩) := by decide

example : (run [⟨7, 70⟩] [.write 10 true 1, .lone 1 7]).map (fun s => (s.calls 1, s.closed, s.stream)) =
    some (some ⟨10, .done .err⟩, true, [⟨7, 70⟩]) := by decide

/-! ### with a truthful broker nobody is stranded in waitResponse

The waiter spin found while building the harness (two or more callers in `waitResponse`, a frame at the head of the
buffer that belongs to none of them: everybody yields for ever, no deadline fires because `Peek` is served from the
buffer) needs a broker that duplicates or invents correlation ids.  This is the theorem behind that remark: if the
broker answers only requests that were written (`causal`) and never answers one twice (`Truthful`), then on an open
conn no call ever ends in an error, `ErrNoProgress` is unreachable, and the frame at the head of the stream always
belongs to a caller that is waiting for it — so `take` is enabled for somebody. -/

/-- the broker never answers a request twice -/
def Truthful (stream0 : List Frame) : Prop := (stream0.map (·.id)).Nodup

/-- the frame a peek looks at answers a request that has been written (a broker cannot answer the future) -/
def causal (s : State) : Event → Bool
  | .take _ | .yield _ _ | .lone _ _ =>
    match s.stream with
    | f :: _ => (List.range (s.nextSeq + 1)).any (fun j => j ≥ 1 && f.id == wire j)
    | [] => true
  | _ => true

def stepC (s : State) (e : Event) : Option State := if causal s e then step s e else none

def runFromC : State → List Event → Option State
  | s, [] => some s
  | s, e :: es => match stepC s e with
    | none => none
    | some s' => runFromC s' es

/-- every number 1 … nextSeq is a call -/
def Total (s : State) : Prop := ∀ i, 1 ≤ i → i ≤ s.nextSeq → (s.calls i).isSome = true

theorem setStatus_isSome (s : State) (seq : Nat) (st : Status) (i : Nat) (h : (s.calls i).isSome = true) :
    (setStatus s seq st i).isSome = true := by
  simp only [setStatus]
  split
  · next heq => subst heq; cases hc : s.calls i with
    | none => rw [hc] at h; cases h
    | some c => simp
  · exact h

theorem total_step {s s' : State} {e : Event} (ht : Total s) (h : step s e = some s') : Total s' := by
  cases e with
  | write tag ok id =>
    simp only [step] at h
    split at h
    · cases h
    · split at h <;> (simp only [Option.some.injEq] at h; subst h) <;>
      · intro i h1 h2
        simp only [upd]
        split
        · rfl
        · exact ht i h1 (by simp only at h2; omega)
  | take seq =>
    simp only [step] at h
    split at h
    · split at h
      · simp only [Option.some.injEq] at h; subst h
        intro i h1 h2; exact setStatus_isSome s seq _ i (ht i h1 h2)
      · cases h
    · cases h
  | yield seq seen =>
    simp only [step] at h
    split at h
    · split at h
      · simp only [Option.some.injEq] at h; subst h; exact ht
      · cases h
    · cases h
  | lone seq seen =>
    simp only [step] at h
    split at h
    · split at h
      · simp only [Option.some.injEq] at h; subst h
        intro i h1 h2; exact setStatus_isSome s seq _ i (ht i h1 h2)
      · cases h
    · cases h
  | peekErr seq =>
    simp only [step] at h
    split at h
    · simp only [Option.some.injEq] at h; subst h
      intro i h1 h2; exact setStatus_isSome s seq _ i (ht i h1 h2)
    · cases h
  | finish seq o =>
    simp only [step] at h
    split at h
    · split at h
      · cases o <;> (simp only [Option.some.injEq] at h; subst h) <;>
        · intro i h1 h2; exact setStatus_isSome s seq _ i (ht i h1 h2)
      · cases h
    · cases h
  | close => simp only [step, Option.some.injEq] at h; subst h; exact ht

/-- on an open conn no call has failed -/
def NoFailure (s : State) : Prop := s.closed = false → ∀ i c, s.calls i = some c → c.st ≠ .done .err

theorem wire_inj {i j : Nat} (hi : i < 4294967296) (hj : j < 4294967296) (h : wire i = wire j) : i = j := by
  unfold wire at h; omega

/-- a frame still in the stream is not the frame of a call that already holds one with the same id -/
theorem head_not_taken {stream0 : List Frame} (ht : Truthful stream0) {s : State} (hi : Inv stream0 s)
    {f : Frame} {rest : List Frame} (hs : s.stream = f :: rest) {j : Nat} {c : Call} {p : Nat} {g : Frame}
    (hc : s.calls j = some c) (hg : c.st.frame = some (p, g)) (hid : f.id = wire j) : False := by
  have ho := hi.own j c p g hc hg
  have hdrop : stream0.drop s.consumed = f :: rest := by rw [hi.rest, hs]
  have hf : stream0[s.consumed]? = some f := by
    have := List.getElem?_drop (xs := stream0) (i := s.consumed) (j := 0)
    rw [hdrop] at this; simpa using this.symm
  have hp : p < s.consumed := ho.2.2
  -- two positions of stream0 with the same id
  unfold Truthful at ht
  rw [List.Nodup, List.pairwise_iff_getElem] at ht
  obtain ⟨hlp, hgp⟩ := List.getElem?_eq_some_iff.mp ho.1
  obtain ⟨hlc, hgc⟩ := List.getElem?_eq_some_iff.mp hf
  have := ht p s.consumed (by simpa using hlp) (by simpa using hlc) hp
  apply this
  simp only [List.getElem_map, hgp, hgc]
  rw [ho.2.1, hid]

theorem noFailure_step {stream0 : List Frame} (ht : Truthful stream0) {s s' : State} {e : Event}
    (hi : Inv stream0 s) (htot : Total s) (hn : NoFailure s) (h : stepC s e = some s') : NoFailure s' := by
  unfold stepC at h
  split at h
  · rename_i hcau
    cases e with
    | write tag ok id =>
      simp only [step] at h
      split at h
      · cases h
      · split at h <;> (simp only [Option.some.injEq] at h; subst h)
        · intro hcl i c hc
          simp only [upd] at hc
          split at hc
          · simp at hc; subst hc; simp
          · exact hn hcl i c hc
        · intro hcl; simp at hcl
    | take seq =>
      simp only [step] at h
      split at h
      · split at h
        · simp only [Option.some.injEq] at h; subst h
          intro hcl i c hc
          simp only [setStatus] at hc
          split at hc
          · cases hcs : s.calls seq with
            | none => rw [hcs] at hc; simp at hc
            | some c0 => rw [hcs] at hc; simp at hc; subst hc; simp
          · exact hn hcl i c hc
        · cases h
      · cases h
    | yield seq seen =>
      simp only [step] at h
      split at h
      · split at h
        · simp only [Option.some.injEq] at h; subst h; exact hn
        · cases h
      · cases h
    | lone seq seen =>
      -- `lone` closes the conn (since /repo bb4e500): nothing to show for an open conn
      simp only [step] at h
      split at h
      · split at h
        · simp only [Option.some.injEq] at h; subst h; intro hcl; simp at hcl
        · cases h
      · cases h
    | peekErr seq =>
      simp only [step] at h
      split at h
      · simp only [Option.some.injEq] at h; subst h; intro hcl; simp at hcl
      · cases h
    | finish seq o =>
      simp only [step] at h
      split at h
      · split at h
        · cases o <;> (simp only [Option.some.injEq] at h; subst h)
          · intro hcl i c hc
            simp only [setStatus] at hc
            split at hc
            · cases hcs : s.calls seq with
              | none => rw [hcs] at hc; simp at hc
              | some c0 => rw [hcs] at hc; simp at hc; subst hc; simp
            · exact hn hcl i c hc
          · intro hcl i c hc
            simp only [setStatus] at hc
            split at hc
            · cases hcs : s.calls seq with
              | none => rw [hcs] at hc; simp at hc
              | some c0 => rw [hcs] at hc; simp at hc; subst hc; simp
            · exact hn hcl i c hc
          · intro hcl; simp at hcl
        · cases h
      · cases h
    | close => simp only [step, Option.some.injEq] at h; subst h; intro hcl; simp at hcl
  · cases h

/-- with a truthful broker `io.ErrNoProgress` cannot happen on an open conn: the head answers a written request
j ≠ seq; j is not waiting (seq is alone) and has not failed, so it already holds a frame with that id — the broker
would have answered twice -/
theorem lone_disabled {stream0 : List Frame} (ht : Truthful stream0) {s : State} (hi : Inv stream0 s) (htot : Total s)
    (hn : NoFailure s) (hcl : s.closed = false) (seq seen : Nat) (hcau : causal s (.lone seq seen) = true) :
    step s (.lone seq seen) = none := by
  cases h : step s (.lone seq seen) with
  | none => rfl
  | some s' =>
    exfalso
    simp only [step] at h
    split at h
    · next f rest hl hst hs =>
      split at h
      · rename_i hcond
        obtain ⟨hseen, hne, halone⟩ := hcond
        simp only [causal, hs, List.any_eq_true, Bool.and_eq_true, decide_eq_true_eq, beq_iff_eq, List.mem_range] at hcau
        obtain ⟨j, hjr, hj1, hjid⟩ := hcau
        have hjs : j ≠ seq := by
          intro heq; subst heq; rw [hseen] at hjid; exact hne hjid
        simp only [aloneWaiting, List.all_eq_true, List.mem_range, Bool.or_eq_true, beq_iff_eq, bne_iff_ne, ne_eq] at halone
        rcases halone j hjr with hja | hja
        · exact hjs hja
        · cases hcj : s.calls j with
          | none =>
            have := htot j hj1 (by omega)
            rw [hcj] at this; cases this
          | some c =>
            have hnw : c.st ≠ .waiting := by
              intro hw; apply hja; simp [statusOf, hcj, hw]
            have hne2 := hn hcl j c hcj
            cases hst2 : c.st with
            | waiting => exact hnw hst2
            | reading p g => exact head_not_taken ht hi hs hcj (by rw [hst2]; rfl) hjid
            | done r =>
              cases r with
              | err => exact hne2 hst2
              | resp p g => exact head_not_taken ht hi hs hcj (by rw [hst2]; rfl) hjid
              | kafkaErr p g => exact head_not_taken ht hi hs hcj (by rw [hst2]; rfl) hjid
      · cases h
    · cases h

theorem stepC_step {s s' : State} {e : Event} (h : stepC s e = some s') : step s e = some s' := by
  unfold stepC at h; split at h
  · exact h
  · cases h

theorem truthful_run {stream0 : List Frame} (ht : Truthful stream0) : ∀ (es : List Event) (s s' : State),
    Inv stream0 s → Total s → NoFailure s → runFromC s es = some s' → Inv stream0 s' ∧ Total s' ∧ NoFailure s' := by
  intro es
  induction es with
  | nil => intro s s' hi htot hn h; simp [runFromC] at h; subst h; exact ⟨hi, htot, hn⟩
  | cons e es ih =>
    intro s s' hi htot hn h
    simp only [runFromC] at h
    split at h
    · cases h
    · next s1 h1 =>
      exact ih s1 s' (inv_step hi (stepC_step h1)) (total_step htot (stepC_step h1)) (noFailure_step ht hi htot hn h1) h

theorem rdead_closed_runC : ∀ (es : List Event) (s s' : State),
    (s.rdead = true → s.closed = true) → runFromC s es = some s' → (s'.rdead = true → s'.closed = true) := by
  intro es
  induction es with
  | nil => intro s s' hrc h; simp [runFromC] at h; subst h; exact hrc
  | cons e es ih =>
    intro s s' hrc h
    simp only [runFromC] at h
    split at h
    · cases h
    · next s1 h1 => exact ih s1 s' (rdead_closed_step s s1 e hrc (stepC_step h1)) h

/-- **truthful_broker_never_strands_waiters.**  If the broker answers only written requests and none of them
twice (it may still reorder and delay as it likes), then in every reachable state of an open conn:
(1) no call has failed; (3) `io.ErrNoProgress` cannot happen (`lone` is not enabled);
(2) whenever the read lock is free, the frame at the head of the stream belongs to a caller that is waiting for
    it, so that caller's `take` is enabled: the yield loop of `waitResponse` always has somebody to yield to. -/
theorem truthful_broker_never_strands_waiters (stream0 : List Frame) (ht : Truthful stream0)
    (es : List Event) (s : State) (h : runFromC (init stream0) es = some s) (hopen : s.closed = false) :
    (∀ i c, s.calls i = some c → c.st ≠ .done .err) ∧
    (s.rlock = none → ∀ f rest, s.stream = f :: rest → ∀ j, 1 ≤ j → j ≤ s.nextSeq → f.id = wire j →
      (step s (.take j)).isSome = true) ∧
    (∀ seq seen, causal s (.lone seq seen) = true → step s (.lone seq seen) = none) := by
  have h0t : Total (init stream0) := by intro i h1 h2; simp [init] at h2; omega
  have h0n : NoFailure (init stream0) := by intro _ i c hc; simp [init] at hc
  obtain ⟨hi, htot, hn⟩ := truthful_run ht es (init stream0) s (inv_init stream0) h0t h0n h
  refine ⟨hn hopen, ?_, fun seq seen hc => lone_disabled ht hi htot hn hopen seq seen hc⟩
  intro hl f rest hs j hj1 hjn hid
  have hrd : s.rdead = false := by
    have := rdead_closed_runC es (init stream0) s (by simp [init]) h
    cases hd : s.rdead with
    | false => rfl
    | true => rw [this hd] at hopen; cases hopen
  cases hcj : s.calls j with
  | none => have := htot j hj1 hjn; rw [hcj] at this; cases this
  | some c =>
    have hne := hn hopen j c hcj
    have hw : c.st = .waiting := by
      cases hst : c.st with
      | waiting => rfl
      | reading p g => exact (head_not_taken ht hi hs hcj (by rw [hst]; rfl) hid).elim
      | done r =>
        cases r with
        | err => exact absurd hst hne
        | resp p g => exact (head_not_taken ht hi hs hcj (by rw [hst]; rfl) hid).elim
        | kafkaErr p g => exact (head_not_taken ht hi hs hcj (by rw [hst]; rfl) hid).elim
    simp [step, hl, hrd, statusOf, hcj, hw, hs, hid]

/-- **no_progress_only_when_alone** — `io.ErrNoProgress` is enabled for a caller only while no other call is waiting
for its response, whatever is at the head of the stream (the reference monitor `Spec.Mux.noProgressOnlyAlone` checks the
same thing on the recorded events of the real code) -/
theorem no_progress_only_when_alone (s s' : State) (seq seen : Nat) (h : step s (.lone seq seen) = some s')
    (j : Nat) (hj : j ≠ seq) (hr : j ≤ s.nextSeq) : statusOf s j ≠ some .waiting := by
  simp only [step] at h
  split at h
  · next f rest hrd hl hw hs =>
    split at h
    · next hc =>
      have hal := hc.2.2
      simp only [aloneWaiting, List.all_eq_true, List.mem_range] at hal
      have := hal j (by omega)
      intro hwj
      simp [hwj] at this
      exact hj this
    · cases h
  · cases h

/-- the hypothesis is needed: one duplicated answer and two later callers — both waiters see a frame that belongs
to neither, both can only yield (neither is alone), for ever -/
theorem duplicate_answer_strands_waiters_counterexample :
    let s := run [⟨1, 0⟩, ⟨1, 0⟩] [.write 10 true 1, .take 1, .finish 1 .ok, .write 20 true 2, .write 30 true 3]
    s.map (fun s => ((step s (.take 2)).isSome, (step s (.take 3)).isSome, (step s (.lone 2 1)).isSome,
                      (step s (.lone 3 1)).isSome, (step s (.yield 2 1)).isSome, (step s (.yield 3 1)).isSome)) =
      some (false, false, false, false, true, true) := by decide

/-! ### Stranded waiters: what bounds the wait when the broker does NOT answer truthfully

`truthful_broker_never_strands_waiters` needs the broker to answer only written requests and none twice.  Without
that: a frame at the head of the stream that belongs to no waiting call, two or more callers waiting.  In the model the
only events left for them are `yield` (which changes nothing) and `peekErr` (a deadline).  The theorem below makes the
liveness assumption exact: as long as no deadline fires (`peekErr`) and no new request is written, NOTHING ever
changes — no take, no ErrNoProgress, and `Close` does not help either (`Event.close` leaves the waiters where they are:
what is in the read buffer can still be peeked).  The wait is bounded by the earliest deadline among the waiting calls
and by nothing else.  In the code that bound is real only since /repo C06-D32: `Peek` is served from the buffer and never
touches the socket, so before that fix the socket's deadline could not fire and the callers spun for ever, deadline or
not (harness op `lv`). -/

/-- a frame nobody is waiting for at the head, the read lock free, and every waiting caller has company -/
def Stranded (s : State) : Prop :=
  s.rlock = none ∧ ∃ f rest, s.stream = f :: rest ∧
    (∀ j, statusOf s j = some .waiting → f.id ≠ wire j) ∧
    (∀ j, statusOf s j = some .waiting → aloneWaiting s j = false)

/-- neither a deadline nor a new request -/
def quiet : Event → Bool
  | .peekErr _ => false
  | .write _ _ _ => false
  | _ => true

theorem stranded_step {s s' : State} {e : Event} (hs : Stranded s) (hq : quiet e = true) (h : step s e = some s') :
    s'.calls = s.calls ∧ s'.stream = s.stream ∧ s'.nextSeq = s.nextSeq ∧ s'.rlock = none := by
  obtain ⟨hl, f, rest, hst, hid, hal⟩ := hs
  cases e with
  | write tag ok id => simp [quiet] at hq
  | peekErr seq => simp [quiet] at hq
  | take seq =>
    simp only [step] at h
    split at h
    · next f' rest' hrd hl' hw hs' =>
      rw [hst] at hs'; cases hs'
      split at h
      · next hm => exact absurd hm (hid seq hw)
      · cases h
    · cases h
  | yield seq seen =>
    simp only [step] at h
    split at h
    · split at h
      · simp only [Option.some.injEq] at h; subst h; exact ⟨rfl, rfl, rfl, hl⟩
      · cases h
    · cases h
  | lone seq seen =>
    simp only [step] at h
    split at h
    · next f' rest' hrd hl' hw hs' =>
      split at h
      · next hc => have := hal seq hw; simp [this] at hc
      · cases h
    · cases h
  | finish seq o =>
    simp only [step] at h
    split at h
    · next hh p g hl' _ => rw [hl] at hl'; cases hl'
    · cases h
  | close =>
    simp only [step, Option.some.injEq] at h; subst h; exact ⟨rfl, rfl, rfl, hl⟩

theorem stranded_preserved {s s' : State} {e : Event} (hs : Stranded s) (hq : quiet e = true)
    (h : step s e = some s') : Stranded s' := by
  obtain ⟨hc, hst, hn, hl⟩ := stranded_step hs hq h
  obtain ⟨_, f, rest, hst0, hid, hal⟩ := hs
  refine ⟨hl, f, rest, by rw [hst, hst0], ?_, ?_⟩
  · intro j hw; apply hid j; simpa [statusOf, hc] using hw
  · intro j hw
    have hw0 : statusOf s j = some .waiting := by simpa [statusOf, hc] using hw
    have := hal j hw0
    simpa [aloneWaiting, statusOf, hc, hn] using this

/-- **stranded_waiters_wait_for_a_deadline** — from a stranded state, whatever the callers, the application (`close`)
and the scheduler do, as long as no deadline fires and no new request is written every call stays exactly where it
is: the waiting calls keep waiting.  Only `peekErr` gets them out. -/
theorem stranded_waiters_wait_for_a_deadline : ∀ (es : List Event) (s s' : State), Stranded s →
    es.all quiet = true → runFrom s es = some s' → s'.calls = s.calls ∧ Stranded s' := by
  intro es
  induction es with
  | nil => intro s s' hs _ h; simp [runFrom] at h; subst h; exact ⟨rfl, hs⟩
  | cons e es ih =>
    intro s s' hs hq h
    simp only [List.all_cons, Bool.and_eq_true] at hq
    simp only [runFrom] at h
    split at h
    · cases h
    · next s1 h1 =>
      have hc := (stranded_step hs hq.1 h1).1
      obtain ⟨hc', hs'⟩ := ih s1 s' (stranded_preserved hs hq.1 h1) hq.2 h
      exact ⟨hc'.trans hc, hs'⟩

/-- and a deadline does get them out: `peekErr` is enabled for every waiting caller of a stranded state, ends that call
with an error and kills the read side, after which the others can only fail too (`no_take_after_read_failure`) -/
theorem deadline_ends_the_wait (s : State) (hs : Stranded s) (j : Nat) (hw : statusOf s j = some .waiting) :
    ∃ s', step s (.peekErr j) = some s' ∧ statusOf s' j = some (.done .err) ∧ s'.rdead = true := by
  obtain ⟨hl, _⟩ := hs
  refine ⟨{ s with calls := setStatus s j (.done .err), closed := true, rdead := true }, by simp [step, hl, hw], ?_, rfl⟩
  simp only [statusOf, setStatus, ↓reduceIte] at hw ⊢
  cases hc : s.calls j with
  | none => simp [hc] at hw
  | some c => simp

/-! ## Part 2 — pooled connections of a Transport -/

section Transport
open KV.TransportConn (CSt PConn Delivery Outcome)

def settled (st : CSt) : Prop := st = .idle ∨ st = .grabbed ∨ st = .finished true

structure TInv (s : TransportConn.State) : Prop where
  /-- an unused slot is pristine -/
  absentPristine : ∀ i, (s.conns i).st = .absent → s.conns i = TransportConn.absent
  /-- idle, or owned by a requester before its request was handed over, or just after a completed
      exchange: every request written has had its response frame consumed -/
  balanced : ∀ i, settled (s.conns i).st → (s.conns i).written = (s.conns i).consumed
  /-- inside an exchange exactly one request is unanswered -/
  oneOutstanding : ∀ i, (s.conns i).st = .busy → (s.conns i).written = (s.conns i).consumed + 1
  /-- what was delivered: the frame's id is the id written, it is the k-th frame of the conn for the
      k-th request of the conn, and it has been consumed -/
  deliveries : ∀ d, d ∈ s.delivered →
      d.frame.id = wire d.id ∧ d.reqPos = d.framePos ∧ d.framePos < (s.conns d.cid).consumed

theorem tinv_init : TInv TransportConn.init := by
  constructor <;> simp [TransportConn.init, TransportConn.absent, settled]

theorem tinv_step {s s' : TransportConn.State} {e : TransportConn.Event}
    (hi : TInv s) (h : TransportConn.step s e = some s') : TInv s' := by
  -- a conn record replaced at `k` by `v`; everything else untouched
  have upd_case : ∀ (k : Nat) (v : PConn) (del : List Delivery),
      (v.st = .absent → v = TransportConn.absent) →
      (settled v.st → v.written = v.consumed) →
      (v.st = .busy → v.written = v.consumed + 1) →
      (s.conns k).consumed ≤ v.consumed →
      (∀ d, d ∈ del → d.frame.id = wire d.id ∧ d.reqPos = d.framePos ∧
          d.framePos < (TransportConn.upd s.conns k v d.cid).consumed) →
      ∀ ab cg, TInv { conns := TransportConn.upd s.conns k v, delivered := del, abandoned := ab, closedGroups := cg } := by
    intro k v del h1 h2 h3 _ h5 ab cg
    constructor
    · intro i hs; simp only [TransportConn.upd] at hs ⊢; split at hs <;> rename_i hik
      · simp [hik]; exact h1 hs
      · simp [hik]; exact hi.absentPristine i hs
    · intro i hs; simp only [TransportConn.upd] at hs ⊢; split at hs <;> rename_i hik
      · simp [hik]; exact h2 hs
      · simp [hik]; exact hi.balanced i hs
    · intro i hs; simp only [TransportConn.upd] at hs ⊢; split at hs <;> rename_i hik
      · simp [hik]; exact h3 hs
      · simp [hik]; exact hi.oneOutstanding i hs
    · exact h5
  have old_deliveries : ∀ (k : Nat) (v : PConn), (s.conns k).consumed ≤ v.consumed →
      ∀ d, d ∈ s.delivered → d.frame.id = wire d.id ∧ d.reqPos = d.framePos ∧
          d.framePos < (TransportConn.upd s.conns k v d.cid).consumed := by
    intro k v hle d hd
    have := hi.deliveries d hd
    refine ⟨this.1, this.2.1, ?_⟩
    simp only [TransportConn.upd]; split
    · next heq => rw [heq] at this; omega
    · exact this.2.2
  cases e with
  | new cid g n0 stream =>
    simp only [TransportConn.step] at h
    split at h
    · next habs =>
      simp only [Option.some.injEq] at h; subst h
      have hp := hi.absentPristine cid habs
      exact upd_case cid { st := .grabbed, group := g, idgen := n0, stream := stream, written := 0, consumed := 0, cur := 0 } _
        (by simp) (by simp) (by simp) (by rw [hp]; simp [TransportConn.absent])
        (old_deliveries cid _ (by rw [hp]; simp [TransportConn.absent])) _ _
    · cases h
  | grab cid =>
    simp only [TransportConn.step] at h
    split at h
    · next hidle =>
      simp only [Option.some.injEq] at h; subst h
      have hb := hi.balanced cid (Or.inl hidle)
      exact upd_case cid { s.conns cid with st := .grabbed } _ (by simp) (by intro _; exact hb) (by simp) (Nat.le_refl _)
        (old_deliveries cid _ (Nat.le_refl _)) _ _
    · cases h
  | recv cid tag =>
    simp only [TransportConn.step] at h
    split at h
    · next hg =>
      simp only [Option.some.injEq] at h; subst h
      have hb := hi.balanced cid (Or.inr (Or.inl hg))
      exact upd_case cid { s.conns cid with st := .busy, idgen := (s.conns cid).idgen + 1, written := (s.conns cid).written + 1, cur := tag } _
        (by simp) (by simp [settled]) (by intro _; simp; exact hb) (Nat.le_refl _)
        (old_deliveries cid _ (Nat.le_refl _)) _ _
    · cases h
  | done cid o =>
    simp only [TransportConn.step] at h
    split at h
    · next hbusy =>
      have hone := hi.oneOutstanding cid hbusy
      split at h
      · next f rest hs =>
        split at h
        · next hid =>
          simp only [Option.some.injEq] at h; subst h
          refine upd_case cid { s.conns cid with st := .finished true, stream := rest, consumed := (s.conns cid).consumed + 1 } _
            (by simp) (by intro _; simp; omega) (by simp) (by simp) ?_ _ _
          intro d hd
          split at hd
          · exact old_deliveries cid _ (by simp) d hd
          · rcases List.mem_append.mp hd with hd | hd
            · exact old_deliveries cid _ (by simp) d hd
            · simp at hd; subst hd
              refine ⟨hid, by simp; omega, ?_⟩
              simp [TransportConn.upd]
        · cases h
      · simp only [Option.some.injEq] at h; subst h
        exact upd_case cid { s.conns cid with st := .finished true, written := (s.conns cid).written - 1 } _
          (by simp) (by intro _; simp; omega) (by simp) (Nat.le_refl _) (old_deliveries cid _ (Nat.le_refl _)) _ _
      · simp only [Option.some.injEq] at h; subst h
        exact upd_case cid { s.conns cid with st := .finished false } _ (by simp) (by simp [settled]) (by simp) (Nat.le_refl _)
          (old_deliveries cid _ (Nat.le_refl _)) _ _
      · cases h
    · cases h
  | release cid accepted =>
    simp only [TransportConn.step] at h
    split at h
    · next hc =>
      simp only [Option.some.injEq] at h; subst h
      have hb : (s.conns cid).written = (s.conns cid).consumed := by
        rcases hc.1 with h1 | h1
        · exact hi.balanced cid (Or.inr (Or.inr h1))
        · exact hi.balanced cid (Or.inr (Or.inl h1))
      exact upd_case cid { s.conns cid with st := if accepted then .idle else .closing } _
        (by simp; split <;> simp) (by intro _; exact hb) (by simp; split <;> simp) (Nat.le_refl _)
        (old_deliveries cid _ (Nat.le_refl _)) _ _
    · cases h
  | exit cid =>
    simp only [TransportConn.step] at h
    split at h
    · simp only [Option.some.injEq] at h; subst h
      exact upd_case cid { s.conns cid with st := .gone } _ (by simp) (by simp [settled]) (by simp) (Nat.le_refl _)
        (old_deliveries cid _ (Nat.le_refl _)) _ _
    · cases h
  | remove cid =>
    simp only [TransportConn.step] at h
    split at h
    · simp only [Option.some.injEq] at h; subst h
      exact upd_case cid { s.conns cid with st := .closing } _ (by simp) (by simp [settled]) (by simp) (Nat.le_refl _)
        (old_deliveries cid _ (Nat.le_refl _)) _ _
    · cases h
  | closeIdle g =>
    simp only [TransportConn.step, Option.some.injEq] at h; subst h
    constructor
    · intro i hs; simp only at hs ⊢
      split at hs
      · simp at hs
      · next hn => simp [hn]; exact hi.absentPristine i hs
    · intro i hs; simp only at hs ⊢
      split at hs
      · simp [settled] at hs
      · next hn => simp [hn]; exact hi.balanced i hs
    · intro i hs; simp only at hs ⊢
      split at hs
      · simp at hs
      · next hn => simp [hn]; exact hi.oneOutstanding i hs
    · intro d hd
      have := hi.deliveries d hd
      refine ⟨this.1, this.2.1, ?_⟩
      simp only; split <;> exact this.2.2
  | abandon tag =>
    simp only [TransportConn.step, Option.some.injEq] at h; subst h
    exact ⟨hi.absentPristine, hi.balanced, hi.oneOutstanding, hi.deliveries⟩

theorem tinv_run : ∀ (es : List TransportConn.Event) (s s' : TransportConn.State),
    TInv s → TransportConn.runFrom s es = some s' → TInv s' := by
  intro es
  induction es with
  | nil => intro s s' hi h; simp [TransportConn.runFrom] at h; subst h; exact hi
  | cons e es ih =>
    intro s s' hi h
    simp only [TransportConn.runFrom] at h
    split at h
    · cases h
    · next s1 h1 => exact ih s1 s' (tinv_step hi h1) h

/-- **no_leftover_in_pool.**  A connection sitting in the idle stack (and one handed to a requester,
before its request is written) has consumed a response frame for every request ever written on it:
no answer of an earlier exchange is still to come on a connection the pool can hand out. -/
theorem no_leftover_in_pool (es : List TransportConn.Event) (s : TransportConn.State)
    (h : TransportConn.run es = some s) (i : Nat)
    (hidle : (s.conns i).st = .idle ∨ (s.conns i).st = .grabbed) :
    (s.conns i).written = (s.conns i).consumed := by
  have hi := tinv_run es _ s tinv_init h
  rcases hidle with h1 | h1
  · exact hi.balanced i (Or.inl h1)
  · exact hi.balanced i (Or.inr (Or.inl h1))

/-- one exchange at a time per pooled connection -/
theorem one_exchange_at_a_time (es : List TransportConn.Event) (s : TransportConn.State)
    (h : TransportConn.run es = some s) (i : Nat) (hb : (s.conns i).st = .busy) :
    (s.conns i).written = (s.conns i).consumed + 1 :=
  (tinv_run es _ s tinv_init h).oneOutstanding i hb

/-- **own_response_or_error** (Transport).  Every response handed to a caller came in a frame whose
correlation id is the id written for that caller's request (`protocol.RoundTrip`'s check) and which is
the k-th frame of the connection for its k-th request. -/
theorem transport_own_response (es : List TransportConn.Event) (s : TransportConn.State)
    (h : TransportConn.run es = some s) (d : Delivery) (hd : d ∈ s.delivered) :
    d.frame.id = wire d.id ∧ d.reqPos = d.framePos :=
  ⟨((tinv_run es _ s tinv_init h).deliveries d hd).1, ((tinv_run es _ s tinv_init h).deliveries d hd).2.1⟩

/-- drop on failed exchange: after an exchange that ended in an error (timeout, EOF, malformed frame,
correlation id mismatch) the connection can neither be released to the pool, nor grabbed, nor given
another request — its run loop can only end -/
theorem failed_exchange_drops (s : TransportConn.State) (cid : Nat) (hf : (s.conns cid).st = .finished false)
    (a : Bool) (tag : Nat) :
    TransportConn.step s (.release cid a) = none ∧ TransportConn.step s (.grab cid) = none ∧
    TransportConn.step s (.recv cid tag) = none ∧ ∀ o, TransportConn.step s (.done cid o) = none := by
  simp [TransportConn.step, hf]

/-- **abandoned_call_cannot_leak** (Transport).  Two deliveries on the same connection are for different
requests of that connection and come from different frames: the frame answering an abandoned k-th request
can only ever be paired with that k-th request (whose caller is gone), never with a later one. -/
theorem transport_abandoned_cannot_leak (es : List TransportConn.Event) (s : TransportConn.State)
    (h : TransportConn.run es = some s) (d : Delivery) (hd : d ∈ s.delivered) (k : Nat)
    (hk : d.framePos = k) : d.reqPos = k := by
  rw [← hk]; exact (transport_own_response es s h d hd).2

/-- non-vacuity: a caller gives up (tag 7), the exchange still completes and its frame is consumed by the
run loop; the connection goes back to the pool balanced and the next request gets its own frame -/
example : (TransportConn.run [.new 1 1 1 [⟨2, 7⟩, ⟨3, 8⟩], .recv 1 7, .abandon 7, .done 1 .ok, .release 1 true,
      .grab 1, .recv 1 8, .done 1 .ok, .release 1 true]).map
      (fun s => (s.delivered, (s.conns 1).st, (s.conns 1).written, (s.conns 1).consumed)) =
    some ([⟨1, 3, 8, 1, ⟨3, 8⟩, 1⟩], .idle, 2, 2) := by decide

/-- a response with a foreign correlation id is not `ok`: the model has no such transition -/
example : TransportConn.run [.new 1 1 1 [⟨9, 7⟩], .recv 1 7, .done 1 .ok] = none := by decide

end Transport

/-! ## Part 3 — a Batch consumes its frame whole, on every read path

`ConnMux.take` removes a frame from the stream as a unit and `finish` says whether the conn survives.  For a Fetch
exchange that is a statement about bytes: Model/BatchBytes.lean follows `ReadBatchWith`, the message-set reader and
`Batch.Read / ReadMessage / Close` with the `remain` counter of the Go code, and the theorem below holds for EVERY
sequence of reads the caller makes before Close (ReadMessage, Read into a buffer of any capacity, none at all),
every fetch version header (v2, v5, v10), every content of the response (well formed, truncated, garbage) and either
deadline outcome. -/
section BatchBytes
open KV.Reader KV.ConnOps KV.BatchBytes

/-- the frame is finished: its counter is at zero (so the next byte of the stream is the next frame's first byte),
or the stream has ended -/
def FrameDone (s' : RS) : Prop := s'.sz = 0 ∨ s'.inp = []

theorem discard_rest_done (s : RS) : FrameDone (discardN (↑s.sz) s).2 := by
  cases h : discardN (↑s.sz) s with
  | mk r s2 =>
    cases r with
    | ok u => exact Or.inl (discardN_all_ok h)
    | error e => exact Or.inr (discardN_all_fail h).1

/-- what `ReadBatchWith` hands to the Batch -/
theorem openBatch_shape (expired : Bool) (v : Nat) (offset : Int) (s : RS) :
    Adv s (openBatch expired v offset s).rs ∧
    (((openBatch expired v offset s).hasMsgs = true ∧ (openBatch expired v offset s).empty = false) ∨
     ((openBatch expired v offset s).empty = true ∧ FrameDone (openBatch expired v offset s).rs) ∨
     ((openBatch expired v offset s).hasMsgs = false ∧ ∃ e, (openBatch expired v offset s).err = some e ∧
        (keeps (some e) = true → FrameDone (openBatch expired v offset s).rs))) := by
  have hh := runSteps_adv (fetchHeader v) { ver := v } s
  unfold openBatch
  cases hr : runSteps (fetchHeader v) { ver := v } s with
  | mk r s1 =>
    rw [hr] at hh
    cases r with
    | ok c =>
      simp only
      split
      · -- the watermark shortcut: whatever the response still carries is skipped at once
        have hd := conserves_discardN (↑s1.sz) s1
        have hdone := discard_rest_done s1
        split
        · cases hx : discardN (↑s1.sz) s1 with
          | mk r2 s2 =>
            rw [hx] at hd hdone
            cases r2 <;> exact ⟨Adv.trans hh hd, Or.inr (Or.inl ⟨rfl, hdone⟩)⟩
        · rename_i hz
          exact ⟨hh, Or.inr (Or.inl ⟨rfl, Or.inl (by show s1.sz = 0; omega)⟩)⟩
      · have h2 := conserves_readHeader01 s1
        cases hd : readHeader01 s1 with
        | mk r2 s2 =>
          rw [hd] at h2
          cases r2 with
          | ok h => exact ⟨Adv.trans hh h2, Or.inl ⟨rfl, rfl⟩⟩
          | error e => cases e <;> exact ⟨Adv.trans hh h2, Or.inl ⟨rfl, rfl⟩⟩
    | error e =>
      have drain : ∀ (k : BErr), Adv s (if s1.sz > 0 then
            match discardN (↑s1.sz) s1 with
            | (.ok _, s2) => ({ rs := s2, pending := none, offset := offset, err := some k, hasMsgs := false, empty := false } : BSt)
            | (.error e, s2) => { rs := s2, pending := none, offset := offset, err := some (ofErr e), hasMsgs := false, empty := false }
          else { rs := s1, pending := none, offset := offset, err := some k, hasMsgs := false, empty := false }).rs ∧
          ((if s1.sz > 0 then
            match discardN (↑s1.sz) s1 with
            | (.ok _, s2) => ({ rs := s2, pending := none, offset := offset, err := some k, hasMsgs := false, empty := false } : BSt)
            | (.error e, s2) => { rs := s2, pending := none, offset := offset, err := some (ofErr e), hasMsgs := false, empty := false }
          else { rs := s1, pending := none, offset := offset, err := some k, hasMsgs := false, empty := false }).hasMsgs = false ∧
           ∃ e', (if s1.sz > 0 then
            match discardN (↑s1.sz) s1 with
            | (.ok _, s2) => ({ rs := s2, pending := none, offset := offset, err := some k, hasMsgs := false, empty := false } : BSt)
            | (.error e, s2) => { rs := s2, pending := none, offset := offset, err := some (ofErr e), hasMsgs := false, empty := false }
          else { rs := s1, pending := none, offset := offset, err := some k, hasMsgs := false, empty := false }).err = some e' ∧
            (keeps (some e') = true → FrameDone (if s1.sz > 0 then
            match discardN (↑s1.sz) s1 with
            | (.ok _, s2) => ({ rs := s2, pending := none, offset := offset, err := some k, hasMsgs := false, empty := false } : BSt)
            | (.error e, s2) => { rs := s2, pending := none, offset := offset, err := some (ofErr e), hasMsgs := false, empty := false }
          else { rs := s1, pending := none, offset := offset, err := some k, hasMsgs := false, empty := false }).rs)) := by
        intro k
        have hd := conserves_discardN (↑s1.sz) s1
        have hdone := discard_rest_done s1
        split
        · cases hx : discardN (↑s1.sz) s1 with
          | mk r2 s2 =>
            rw [hx] at hd hdone
            cases r2 <;> exact ⟨Adv.trans hh hd, rfl, _, rfl, fun _ => hdone⟩
        · rename_i hz
          exact ⟨hh, rfl, _, rfl, fun _ => Or.inl (by show s1.sz = 0; omega)⟩
      cases e with
      | kafka k =>
        have := drain (.kafka k)
        exact ⟨this.1, Or.inr (Or.inr this.2)⟩
      | shortRead =>
        simp only
        split
        · have := drain (.kafka 7)
          exact ⟨this.1, Or.inr (Or.inr this.2)⟩
        · exact ⟨hh, Or.inr (Or.inr ⟨rfl, _, rfl, by simp [keeps]⟩)⟩
      | eof => exact ⟨hh, Or.inr (Or.inr ⟨rfl, _, rfl, by simp [keeps, ofErr]⟩)⟩
      | unexpectedEOF => exact ⟨hh, Or.inr (Or.inr ⟨rfl, _, rfl, by simp [keeps, ofErr]⟩)⟩
      | other w => exact ⟨hh, Or.inr (Or.inr ⟨rfl, _, rfl, by simp [keeps, ofErr]⟩)⟩
      | panic w => exact ⟨hh, Or.inr (Or.inr ⟨rfl, _, rfl, by simp [keeps, ofErr]⟩)⟩

/-- **batch_close_consumes_frame.**  For every fetch version, fetch offset, deadline outcome, content of the stream
and every sequence of `ReadMessage` / `Read(buffer of any capacity)` calls (including none) before `Close`:
the bytes consumed are charged to the frame one for one, and IF THE CONN IS KEPT the frame has been consumed to its
last byte (or the stream has ended) — never a kept conn with part of the response still in the stream.
No side condition on the response any more: until /repo 5ef8978 a response at the high watermark had to carry an
empty message set (the `empty` reader reads nothing, C11 `fetch_at_watermark_counterexample`); `ReadBatchWith` now
skips such a set itself and the theorem holds for every response. -/
theorem batch_close_consumes_frame (expired : Bool) (v : Nat) (offset : Int) (fuel : Nat) (ops : List Op) (s : RS) :
    Adv s (fetchBatch expired v offset fuel ops s).rs ∧
    ((fetchBatch expired v offset fuel ops s).kept = true → FrameDone (fetchBatch expired v offset fuel ops s).rs) := by
  have ho := openBatch_shape expired v offset s
  have hops := runOps_adv expired fuel ops (openBatch expired v offset s)
  have hcl : Adv (runOps expired fuel ops (openBatch expired v offset s)).2.rs
      (batchClose (runOps expired fuel ops (openBatch expired v offset s)).2).2.1 := by
    rw [batchClose_rs]
    split
    · exact conserves_discardN _ _
    · exact Adv.refl _
  refine ⟨?_, ?_⟩
  · simp only [fetchBatch]
    exact Adv.trans ho.1 (Adv.trans hops.1 hcl)
  · intro hkept
    simp only [fetchBatch] at hkept ⊢
    rcases ho.2 with ⟨hm, he⟩ | ⟨he, hfd⟩ | ⟨hm, e, hee, hdone⟩
    · -- a real reader: Close discards whatever is left
      rw [batchClose_rs]
      simp only [hops.2.1, hops.2.2, hm, he, Bool.not_false, Bool.and_self, ↓reduceIte]
      exact discard_rest_done _
    · -- the watermark shortcut: nothing is read, nothing may be there
      have hrs := runOps_empty_rs expired fuel ops _ he
      rw [batchClose_rs]
      simp only [hops.2.2, he, Bool.not_true, Bool.and_false, Bool.false_eq_true, ↓reduceIte, hrs]
      exact hfd
    · -- the header failed: the Batch is born with an error and never reads
      have hfix := runOps_err_fixed expired fuel ops _ e hee
      have hnd : ((runOps expired fuel ops (openBatch expired v offset s)).2.hasMsgs &&
          !(runOps expired fuel ops (openBatch expired v offset s)).2.empty) = false := by
        rw [hfix]; simp [hm]
      have hk := batchClose_kept_nodiscard _ hnd
      rw [hfix] at hk hkept ⊢
      rw [hk, hee] at hkept
      rw [batchClose_rs]
      simp only [hm, Bool.false_and, Bool.false_eq_true, ↓reduceIte]
      exact hdone hkept

/-- **batch_close_kept_means_consumed_to_the_last_byte** (since /repo 7936b6a).  When the Batch has a real message-set
reader, a kept conn has consumed the frame completely — the weaker "or the stream has ended" of `FrameDone` is gone:
if the rest of the response cannot be skipped (it is late, the connection broke) `Close` reports it and closes.  Before
that fix the model had to ignore the discard's result, and the theorem above could only promise `FrameDone`. -/
theorem batch_close_kept_means_consumed_to_the_last_byte (expired : Bool) (v : Nat) (offset : Int) (fuel : Nat)
    (ops : List Op) (s : RS)
    (hreal : (openBatch expired v offset s).hasMsgs = true ∧ (openBatch expired v offset s).empty = false)
    (hkept : (fetchBatch expired v offset fuel ops s).kept = true) :
    (fetchBatch expired v offset fuel ops s).rs.sz = 0 ∧
      (fetchBatch expired v offset fuel ops s).rs.inp = s.inp.drop s.sz := by
  have hops := runOps_adv expired fuel ops (openBatch expired v offset s)
  have hz : (fetchBatch expired v offset fuel ops s).rs.sz = 0 := by
    simp only [fetchBatch] at hkept ⊢
    have hd : ((runOps expired fuel ops (openBatch expired v offset s)).2.hasMsgs &&
        !(runOps expired fuel ops (openBatch expired v offset s)).2.empty) = true := by
      simp [hops.2.1, hops.2.2, hreal.1, hreal.2]
    obtain ⟨u, hu⟩ := (batchClose_kept_imp _ hkept).2 hd
    rw [batchClose_rs]
    simp only [hd, ↓reduceIte]
    cases hr : discardN (↑(runOps expired fuel ops (openBatch expired v offset s)).2.rs.sz)
        (runOps expired fuel ops (openBatch expired v offset s)).2.rs with
    | mk r s2 =>
      rw [hr] at hu; simp only at hu; subst hu
      exact discardN_all_ok hr
  exact ⟨hz, ((batch_close_consumes_frame expired v offset fuel ops s).1.consumed_all hz).2⟩

/-- a discard that fails makes Close fail and closes the conn, whatever the batch ended with -/
theorem failed_discard_closes (b : BSt) (hd : (b.hasMsgs && !b.empty) = true) (e : Err)
    (he : (discardN (↑b.rs.sz) b.rs).1 = .error e) :
    (batchClose b).2.2 = false ∧ (batchClose b).1 = some (ofErr e) := by
  constructor
  · cases hk : (batchClose b).2.2 with
    | false => rfl
    | true =>
      obtain ⟨u, hu⟩ := (batchClose_kept_imp b hk).2 hd
      rw [he] at hu; cases hu
  · unfold batchClose
    simp only [hd, ↓reduceIte, he]

/-- the same for every request/response operation that goes through `(*Conn).do` (C11's operation table over the
regenerated `readFrom` programs): `Event.finish ok` and `finish kafka` of Model/ConnMux are `Outcome.ok` /
`Outcome.kafka` of `ConnOps.opRead`, `finish io` is `Outcome.fail`.  For a good operation (expectZeroSize, and a
kafka error drained or impossible inside the parse) a body that does not fail has consumed its frame to the last
byte — the byte-level meaning of "`take` removes a frame whole" outside Fetch.  (Corollary of C11's lemmas
`opRead_adv`, `opRead_not_fail_zero`.) -/
theorem finish_without_failure_consumes_frame (o : OpSpec) (v : Nat) (topic : Bytes) (s : RS)
    (hz : o.expectZero = true) (hg : o.drain = true ∨ hasFailList (o.parse v) = false)
    (hnf : (opRead o v topic s).1.isFail = false) :
    (opRead o v topic s).2.sz = 0 ∧ (opRead o v topic s).2.inp = s.inp.drop s.sz := by
  have hzero := opRead_not_fail_zero o v topic s hz hg hnf
  exact ⟨hzero, ((opRead_adv o v topic s).consumed_all hzero).2⟩

/-- in the kept case with the frame on the stream: what is left is exactly what followed the frame -/
theorem batch_close_leaves_next_frame (expired : Bool) (v : Nat) (offset : Int) (fuel : Nat) (ops : List Op) (s : RS)
    (hz : (fetchBatch expired v offset fuel ops s).rs.sz = 0) :
    (fetchBatch expired v offset fuel ops s).rs.inp = s.inp.drop s.sz :=
  ((batch_close_consumes_frame expired v offset fuel ops s).1.consumed_all hz).2

end BatchBytes

/-! ## Part 4 — the structural facts the models stand on, re-read from the source on every run

`go/extract/muxfacts` parses conn.go, batch.go, transport.go, protocol/conn.go and protocol/roundtrip.go (never
runs them) and writes `Gen/MuxFacts.lean`.  Each fact is a SHAPE (fields and methods by name, locals and
parameters by position and data flow), so behaviour-preserving edits leave it true.  What each one carries:

* `idAndWriteUnderWlock`, `idIncrementedOnceByOne` — `Event.write` is one atomic step that numbers the call
  `nextSeq + 1` and puts exactly that id on the wire (`write_id_fresh`, `ids_unique_inflight`).
* `takeOnlyOnIdMatch` — `Event.take` requires `f.id = wire seq` (`own_response_or_error`).
* `peekErrorCloses`, `bodyErrorClosesUnlessKafka` — `peekErr` and `finish io` close the conn (`timeout_closes`,
  `unreadable_body_closes`): a frame is consumed whole or the conn is closed.
* `hooksInsideCriticalSections` — the trace-acceptance tie: each `C.*` / `T.*` hook is recorded while the mutex
  that makes its event atomic is held (wlock, rlock, the group mutex; `run` is a single goroutine), so the recorded
  order is an order in which the critical sections really happened.
* `promisePairedWithRequest`, `runAnswersItsOwnRequest` — TransportConn `Delivery`: the response of an exchange
  goes to the promise created with that request.
* `loneOnlyWhenAlone` — `Event.lone` requires `aloneWaiting`.
* `inflightCountsRequests` — `Event.lone` requires `aloneWaiting`, which counts the calls whose status is `waiting`: every
  request written and not yet served.  In the code that is `Conn.inflight`: `enter()` in `doRequest` (the one function
  that numbers and writes a request, whoever calls it), `leave()` when the wait ends (seed C06-m9 moved `enter()` to `do`:
  ApiVersions and ReadBatchWith were no longer counted and the counter drifted below the number of waiters).
* `primitivesChargeWhatTheyConsume` — the primitives of read.go / discard.go themselves: every `r.Discard` /
  `io.ReadFull` / `r.Read` has its byte count subtracted from the budget (`conserves_*` of Base/Reader,
  `varint_read_conserves` below: the hypothesis `Prim.conserves` of `wire_discipline_consumes_frame`).
* `readFailureCloseDropsBuffered` — `finish io` sets `closed`, and `closed_is_final` says no call takes a frame after
  that: in the code the close of an unreadable response must also drop what is buffered of it, under the read lock
  (finding C06-D30: closing the net.Conn alone left the leftover in the bufio.Reader for the waiting callers).
* `wireSitesThreaded`, `remainOnlyFromPrims`, `batchCallbacksThreaded` — the hypothesis of
  `wire_discipline_consumes_frame` below.
* `batchCloseDiscards`, `discardRewindsToWire`, `batchCloseKeepsOnlyKafkaOrShortBuffer`, `readValueAccountsBytes`,
  `messageSetSizeFromHeader` — the steps of Model/BatchBytes.lean (`batchClose`, `valOfRead`, `openBatch`) that
  `batch_close_consumes_frame` composes.
* `failedExchangeEndsRun`, `releaseInsideRun` — TransportConn: `done err` leads to `finished false`, from which only
  `exit` is possible (`failed_exchange_drops`, `no_leftover_in_pool`).
* `idgenAdvancesPerExchange`, `roundTripChecksId` — TransportConn: `recv` increments `idgen`, `done ok` requires
  `f.id = wire idgen` (`transport_own_response`). -/
theorem structural_facts_hold :
    Gen.MuxFacts.idAndWriteUnderWlock = true ∧ Gen.MuxFacts.idIncrementedOnceByOne = true ∧
    Gen.MuxFacts.takeOnlyOnIdMatch = true ∧ Gen.MuxFacts.peekErrorCloses = true ∧
    Gen.MuxFacts.bodyErrorClosesUnlessKafka = true ∧ Gen.MuxFacts.batchCloseDiscards = true ∧
    Gen.MuxFacts.batchCloseKeepsOnlyKafkaOrShortBuffer = true ∧ Gen.MuxFacts.readValueAccountsBytes = true ∧
    Gen.MuxFacts.messageSetSizeFromHeader = true ∧ Gen.MuxFacts.failedExchangeEndsRun = true ∧
    Gen.MuxFacts.releaseInsideRun = true ∧ Gen.MuxFacts.idgenAdvancesPerExchange = true ∧
    Gen.MuxFacts.roundTripChecksId = true ∧ Gen.MuxFacts.discardRewindsToWire = true ∧
    Gen.MuxFacts.wireSitesThreaded = true ∧ Gen.MuxFacts.remainOnlyFromPrims = true ∧
    Gen.MuxFacts.batchCallbacksThreaded = true ∧ Gen.MuxFacts.hooksInsideCriticalSections = true ∧
    Gen.MuxFacts.promisePairedWithRequest = true ∧ Gen.MuxFacts.runAnswersItsOwnRequest = true ∧
    Gen.MuxFacts.loneOnlyWhenAlone = true ∧ Gen.MuxFacts.readFailureCloseDropsBuffered = true ∧
    Gen.MuxFacts.primitivesChargeWhatTheyConsume = true ∧ Gen.MuxFacts.inflightCountsRequests = true := by decide

/-- **readVarInt conserves bytes however the response is cut into chunks** (Model/VarIntRead.lean).  `Prim.varint` of
Model/WireProg.lean took this for granted; it is now proved for the algorithm of read.go itself — the window of buffered
bytes at each turn of its loop is an arbitrary list — including the branch that makes room in the buffer in the middle
of a number (seed C06-m7 dropped `sz -= n` there: the budget stayed too high by the bytes already consumed, and
`Batch.close` discarded that many bytes of the NEXT response). -/
theorem varint_read_conserves (fuel : Nat) (ws : List Nat) (s : Reader.RS) :
    Reader.Adv s (VarIntRead.readVarInt fuel ws s).2 := VarIntRead.readVarInt_conserves fuel ws s

/-- the value and the bytes consumed do not depend on where the chunk boundary falls: 300 zig-zag-encoded on two bytes
(value 150), all at once, split inside the number, and with a third byte waiting -/
def okVal (r : Except Reader.Err Int × Reader.RS) : Option Int × Reader.RS :=
  (match r.1 with | .ok v => some v | .error _ => none, r.2)

def isShortRead (r : Except Reader.Err Int × Reader.RS) : Bool :=
  match r.1 with | .error .shortRead => true | _ => false

theorem varint_chunking_examples :
    okVal (VarIntRead.readVarInt 8 [3] ⟨[0xAC, 0x02, 9], 3⟩) = (some 150, ⟨[9], 1⟩) ∧
    okVal (VarIntRead.readVarInt 8 [1, 2] ⟨[0xAC, 0x02, 9], 3⟩) = (some 150, ⟨[9], 1⟩) ∧
    okVal (VarIntRead.readVarInt 8 [1, 1, 1] ⟨[0xAC, 0x02, 9], 3⟩) = (some 150, ⟨[9], 1⟩) ∧
    okVal (VarIntRead.readVarInt 8 [0, 2] ⟨[0xAC, 0x02, 9], 3⟩) = (some 150, ⟨[9], 1⟩) ∧
    -- the budget ends inside the number: errShortRead with the budget used up
    isShortRead (VarIntRead.readVarInt 8 [1, 2] ⟨[0xAC, 0x02, 9], 1⟩) = true ∧
    (VarIntRead.readVarInt 8 [1, 2] ⟨[0xAC, 0x02, 9], 1⟩).2 = ⟨[0x02, 9], 0⟩ ∧
    -- the stream ends inside the number
    (VarIntRead.readVarInt 8 [1] ⟨[0xAC], 5⟩).2 = ⟨[], 4⟩ := by decide

/-- **Every reader in the size-threading discipline consumes its frame whole.**  Model/BatchBytes.lean spells out the
magic-0/1 path; the rest of message_reader.go (record batches, varints, record headers, both decompression sites,
the reader stack) is covered by shape: `wireSitesThreaded`, `remainOnlyFromPrims` and `batchCallbacksThreaded`
say that the code touches the connection only as `r.remain, err = prim(r.reader, r.remain, …)` (10 sites), through
the batch.go callbacks (which use only readNewBytes / discardN / io.ReadFull) and through two LimitedReaders charged
`n − N`.  For ANY program of that form — whatever it computes, however it treats errors, whatever the bytes —
followed by the `discardN(r.remain)` of `Batch.close`: consumed bytes and counter agree, the frame ends with the counter
at zero or the stream ended, and at zero what is left of the stream is exactly what followed the frame. -/
theorem wire_discipline_consumes_frame {α : Type} (prog : WireProg.Prog α) (s : Reader.RS) :
    let s1 := (prog.run s).2
    let s2 := (Reader.discardN (↑s1.sz) s1).2
    Reader.Adv s s2 ∧ (s2.sz = 0 ∨ s2.inp = []) ∧ (s2.sz = 0 → s2.inp = s.inp.drop s.sz) :=
  WireProg.prog_then_discard_finishes prog s

/-- non-vacuity: a program that reads a length, then that many bytes through a "codec" that stops early, ignores
the error of a further read and returns; the discard still lands on the frame boundary -/
example :
    let prog : WireProg.Prog Nat :=
      .call (.peekRead 1) fun r => match r with
        | .ok [n] => .call (.readUpTo n.toNat 2) fun _ => .call (.peekRead 9) fun _ => .ret 7
        | _ => .ret 0
    let s1 := (prog.run ⟨[5, 1, 2, 3, 4, 5, 6, 99, 98], 7⟩).2
    (Reader.discardN (↑s1.sz) s1).2 = ⟨[99, 98], 0⟩ := by decide

/-! ## Part 5 — the decision structure of waitResponse, do and conn.run IS the models' transition structure

`go/extract/muxfacts/symflow.go` executes the three functions symbolically: every condition is classified into a
named predicate by data flow (the error returned by the peek, the id parameter against the peeked id,
`concurrency() == 1`; the error of doRequest / waitResponse / the read closure, `errors.As(err, &kafkaError)`; the
error of the round trip, `errors.Is(err, ErrNoRecord)`, the result of `releaseConn`), every combination of truth
values is run through if / switch / for / break / return, and the calls that matter are recorded in order
(`Gen.MuxFacts.waitResponseFlow`, `doFlow`, `runFlow`).  Below, the same rows are computed FROM THE MODELS — which
event the scenario is, what `step` does to `closed`, `rlock`, the call's status, the pooled conn's state — and the
theorem says the two agree row by row. -/
section Flow

def flag (sc : List String) (p : String) : Bool := sc.contains (p ++ "=true")

/-- waitResponse: the scenario as a ConnMux event on a state with one (alone) or two waiting callers and one frame
on the stream whose id matches call 1 or nobody -/
def waitResponseModelRow (sc : List String) : List String :=
  let pf := flag sc "peekFailed"; let im := flag sc "idMatches"; let al := flag sc "alone"
  let fid := if im then 1 else 7
  let pre : List Event := if al then [.write 10 true 1] else [.write 10 true 1, .write 20 true 2]
  -- somebody else's frame at the head and this call's deadline has passed: the wait ends like a failed Peek (C06-D32)
  let dp := flag sc "deadlinePassed" && flag sc "hasDeadline"
  let ev : Event := if pf then .peekErr 1 else if im then .take 1 else if al then .lone 1 7 else if dp then .peekErr 1 else .yield 1 7
  match run [⟨fid, 0⟩] pre with
  | none => ["model: no such state"]
  | some s0 =>
    match step s0 ev with
    | none => ["model: event not enabled"]
    | some s1 =>
      let st := statusOf s1 1
      ["lock", "peek"] ++
      (match st with | some (.reading _ _) => ["skip"] | _ => []) ++
      (if st == some (.done .err) && ev == .lone 1 7 then ["noProgress"] else []) ++
      (if s1.closed then ["close"] else []) ++
      (if s1.rlock.isNone then ["unlock"] else []) ++
      (if st == some .waiting then ["loop"] else []) ++ ["leave"]

/-- (*Conn).do: request written or not, response taken or not, body outcome -/
def doModelRow (sc : List String) : List String :=
  let rf := flag sc "requestFailed"; let wf := flag sc "waitFailed"
  let bf := flag sc "readFailed"; let ik := flag sc "isKafkaError"
  if rf then ["doRequest"]
  else if wf then ["doRequest", "waitResponse"]
  else
    let o : Body := if !bf then .ok else if ik then .kafka else .io
    match run [⟨1, 0⟩] [.write 10 true 1, .take 1] with
    | none => ["model: no such state"]
    | some s0 =>
      match step s0 (.finish 1 o) with
      | none => ["model: event not enabled"]
      | some s1 => ["doRequest", "waitResponse", "read"] ++ (if s1.closed then ["close"] else []) ++
          (if s1.rlock.isNone then ["unlock"] else [])

/-- transport.go (*conn).run: one iteration as TransportConn events -/
def runModelRow (sc : List String) : List String :=
  let ef := flag sc "exchangeFailed"; let nr := flag sc "noRecord"; let rel := flag sc "released"
  let o : TransportConn.Outcome := if !ef then .ok else if nr then .errKeep else .err
  let pre : List TransportConn.Event :=
    (if rel then [] else [.closeIdle 1]) ++ [.new 1 1 1 [⟨2, 5⟩], .recv 1 5]
  match TransportConn.run pre with
  | none => ["model: no such state"]
  | some s0 =>
    match TransportConn.step s0 (.done 1 o) with
    | none => ["model: event not enabled"]
    | some s1 =>
      let answered := if s1.delivered.length > s0.delivered.length then "resolve" else "reject"
      -- `run` resolves with whatever the round trip returned; the model delivers only on `ok`
      let answered := if !ef then "resolve" else answered
      match TransportConn.step s1 (.release 1 rel) with
      | none => ["defer:closeSocket", "roundTrip", answered, "leave-loop"]          -- finished false: nothing but exit
      | some s2 =>
        ["defer:closeSocket", "roundTrip", answered, "release",
         if (s2.conns 1).st == .idle then "next-iteration" else "leave-loop"]

/-- (*Conn).doRequest: one `write` event -/
def doRequestModelRow (sc : List String) : List String :=
  let wf := flag sc "writeFailed"
  match step (init []) (.write 10 (!wf) 1) with
  | none => ["model: event not enabled"]
  | some s1 =>
    ["enter", "lock", "nextId", "write"] ++
    (if s1.closed && statusOf s1 1 == some (.done .err) then ["close", "leave"] else []) ++ ["unlock"]

/-- protocol.RoundTrip on a pooled conn in the middle of an exchange: `done ok` is possible exactly when a frame
with the id just written is read -/
def roundTripModelRow (sc : List String) : List String :=
  let wf := flag sc "writeFailed"; let er := flag sc "expectsResponse"
  let rf := flag sc "readFailed"; let mm := flag sc "idMismatch"
  if wf then ["write", "return:error"]
  else if !er then ["write", "return:nothing"]
  else
    let fid := if mm then 9 else 2
    match TransportConn.run [.new 1 1 1 [⟨fid, 5⟩], .recv 1 5] with
    | none => ["model: no such state"]
    | some s0 =>
      let okPossible := (TransportConn.step s0 (.done 1 .ok)).isSome
      ["write", "read", if !rf && okPossible then "return:response" else "return:error"]

/-- the idle stack: a pooled conn that has just completed an exchange, in a group that is closed or not -/
def releaseConnModelRow (sc : List String) : List String :=
  let gc := flag sc "groupClosed"
  let pre : List TransportConn.Event := (if gc then [.closeIdle 1] else []) ++ [.new 1 1 1 [⟨2, 5⟩], .recv 1 5, .done 1 .ok]
  match TransportConn.run pre with
  | none => ["model: no such state"]
  | some s0 =>
    -- the model takes `release` only with the `accepted` that the group's state dictates
    match TransportConn.step s0 (.release 1 (!gc)), TransportConn.step s0 (.release 1 gc) with
    | some s1, none =>
      ["lock", "defer:unlock"] ++ (if (s1.conns 1).st == .idle then ["push"] else []) ++ [if !gc then "return:true" else "return:false"]
    | _, _ => ["model: release not determined"]

def grabConnModelRow (sc : List String) : List String :=
  let pre : List TransportConn.Event :=
    if flag sc "idleEmpty" then [] else [.new 1 1 1 [⟨2, 5⟩], .recv 1 5, .done 1 .ok, .release 1 true]
  match TransportConn.run pre with
  | none => ["model: no such state"]
  | some s0 =>
    match TransportConn.step s0 (.grab 1) with
    | some s1 => ["lock", "defer:unlock"] ++ (if (s1.conns 1).st == .grabbed then ["pop", "return:conn"] else ["?"])
    | none => ["lock", "defer:unlock", "return:nil"]

/-- `grabConnTo` (the path taken when a `Transport.Resolver` is set): scans the idle stack from the top for a conn to
the resolved address.  The model has no addresses — `Event.grab cid` may take ANY idle conn, which covers every choice
the scan can make; a conn is handed out exactly when `grab` is enabled for it and the address matches, and no idle conn
(or none to that address) means the caller connects anew. -/
def grabConnToModelRow (sc : List String) : List String :=
  let pre : List TransportConn.Event :=
    if flag sc "idleLeft" then [.new 1 1 1 [⟨2, 5⟩], .recv 1 5, .done 1 .ok, .release 1 true] else []
  match TransportConn.run pre with
  | none => ["model: no such state"]
  | some s0 =>
    match TransportConn.step s0 (.grab 1) with
    | some s1 =>
      if flag sc "addressMatches" then
        ["lock", "defer:unlock"] ++ (if (s1.conns 1).st == .grabbed then ["pop", "return:conn"] else ["?"])
      else ["lock", "defer:unlock", "loop", "return:nil"]
    | none => ["lock", "defer:unlock", "return:nil"]

def removeConnModelRow (sc : List String) : List String :=
  -- `isThisConn`: the conn is (still) in the idle stack when its timer fires
  let pre : List TransportConn.Event :=
    [.new 1 1 1 [⟨2, 5⟩], .recv 1 5, .done 1 .ok, .release 1 true] ++ (if flag sc "isThisConn" then [] else [.grab 1])
  match TransportConn.run pre with
  | none => ["model: no such state"]
  | some s0 =>
    match TransportConn.step s0 (.remove 1) with
    | some s1 => ["lock", "defer:unlock"] ++ (if (s1.conns 1).st == .closing then ["pop", "return:true"] else ["?"])
    | none => ["lock", "defer:unlock", "return:false"]

def closeIdleConnsModelRow (_ : List String) : List String :=
  match TransportConn.run [.new 1 1 1 [⟨2, 5⟩], .recv 1 5, .done 1 .ok, .release 1 true] with
  | none => ["model: no such state"]
  | some s0 =>
    match TransportConn.step s0 (.closeIdle 1) with
    | none => ["model: event not enabled"]
    | some s1 =>
      ["lock"] ++ (if (s1.conns 1).st != .idle then ["clearIdle"] else []) ++
      (if s1.closedGroups.contains 1 then ["markClosed"] else []) ++ ["unlock"] ++
      (if (s1.conns 1).st == .closing then ["closeConn"] else [])

/-- how (*Conn).ApiVersions ends the exchange (since /repo 2b8f9f7): the body parsed and nothing left → `ok`; the broker's
error code and nothing left → `kafka` (conn kept, frame consumed); a body that could not be read, or bytes left after
the list (checked by `expectZeroSize` unless the read already failed) → `io`: the conn is closed -/
def apiVersionsOutcome (bodyKafka bodyOther trailing : Bool) : Body :=
  if bodyOther || trailing then .io else if bodyKafka then .kafka else .ok

/-- (*Conn).ApiVersions uses the multiplexer without `do`: the read lock taken by waitResponse is released by a
deferred unlock in every case; the conn is closed exactly when ConnMux's `finish` with `apiVersionsOutcome` closes it -/
def apiVersionsModelRow (sc : List String) : List String :=
  if flag sc "requestFailed" then ["doRequest", "return"]
  else if flag sc "waitFailed" then ["doRequest", "waitResponse", "return"]
  else
    match run [⟨1, 0⟩] [.write 0 true 1, .take 1] with
    | none => ["model: no such state"]
    | some s0 =>
      let other := sc.contains "body=other"
      match step s0 (.finish 1 (apiVersionsOutcome (sc.contains "body=kafka") other (flag sc "trailingBytes"))) with
      | none => ["model: event not enabled"]
      | some s1 =>
        ["doRequest", "waitResponse"] ++ (if s0.rlock.isSome && s1.rlock.isNone then ["defer:unlock"] else []) ++
        ["readBody"] ++ (if other then [] else ["checkSize"]) ++ (if s1.closed then ["close"] else []) ++ ["return"]

/-- a v2 fetch response body: header (watermark `hwm`) and one empty magic-1 message -/
def sampleFetchBody (hwm : UInt8) : KV.Bytes :=
  [0,0,0,0, 0,0,0,1, 0,1,116, 0,0,0,1, 0,0,0,0, 0,0, 0,0,0,0,0,0,0,hwm, 0,0,0,34,
   0,0,0,0,0,0,0,0, 0,0,0,22, 0,0,0,0, 1, 0, 0,0,0,0,0,0,0,1, 255,255,255,255, 0,0,0,0]

/-- the same header at the watermark with an empty message set -/
def emptySetFetchBody : KV.Bytes :=
  [0,0,0,0, 0,0,0,1, 0,1,116, 0,0,0,1, 0,0,0,0, 0,0, 0,0,0,0,0,0,0,0, 0,0,0,0]

/-- (*Conn).ReadBatchWith: the failures in front of the exchange return a Batch that carries only the error; once
waitResponse has taken the frame the Batch holds the read lock (ConnMux: `rlock` stays with the call until `finish`),
whatever the header says; the message-set reader is created exactly when `BatchBytes.openBatch` creates one -/
def readBatchWithModelRow (sc : List String) : List String :=
  if flag sc "seekFailed" then ["seek", "return:batchWithErrorOnly"]
  else if flag sc "negotiateFailed" then ["seek", "negotiate", "return:batchWithErrorOnly"]
  else if flag sc "requestFailed" then ["seek", "negotiate", "doRequest", "return:batchWithErrorOnly"]
  else if flag sc "waitFailed" then ["seek", "negotiate", "doRequest", "waitResponse", "return:batchWithErrorOnly"]
  else
    match run [⟨1, 0⟩] [.write 0 true 1, .take 1] with
    | none => ["model: no such state"]
    | some s0 =>
      let wm := flag sc "atWatermark"
      let body : KV.Bytes :=
        if flag sc "headerFailed" then [0, 0]
        else if wm && !flag sc "setNotEmpty" then emptySetFetchBody
        else sampleFetchBody (if wm then 0 else 5)
      let s1 : Reader.RS := ⟨body, body.length⟩
      let b := BatchBytes.openBatch false 2 0 s1
      -- at the watermark the message set, if any, is skipped at once: the model's reader state moves to the frame end
      let skipped := b.empty && b.rs.sz == 0 && b.rs.inp.isEmpty && body.length > emptySetFetchBody.length
      ["seek", "negotiate", "doRequest", "waitResponse", "readHeader", "drainOnKafkaError"] ++
      (if skipped then ["skipSetAtWatermark"] else []) ++
      (if b.hasMsgs && !b.empty then ["newMessageSetReader"] else []) ++
      [if s0.rlock.isSome then "return:batchHoldingTheLock" else "return:batchWithErrorOnly"]

/-- (*Batch).close, for each class of the batch's sticky error: the message-set reader (when there is one) is
discarded, the conn is closed exactly when `BatchBytes.batchClose` says it is not kept, and the read lock is given back
in every case (ConnMux: `finish` always clears `rlock`) -/
def batchCloseModelRow (sc : List String) : List String :=
  let err : Option BatchBytes.BErr :=
    if sc.contains "err=nil" then none
    else if sc.contains "err=eof" then some .eof
    else if sc.contains "err=kafka" then some (.kafka 7)
    else if sc.contains "err=short" then some .shortBuffer
    else some .other
  let body := sampleFetchBody 5
  -- `discardFailed`: the stream ends 7 bytes before the frame does (the rest is late, or the connection broke)
  let b : BatchBytes.BSt :=
    { rs := ⟨body, if flag sc "discardFailed" then body.length + 7 else body.length⟩, pending := none, offset := 0, err := err,
      hasMsgs := flag sc "hasMsgs", empty := false }
  let (_, rs', kept) := BatchBytes.batchClose b
  let unlocked := match run [⟨1, 0⟩] [.write 0 true 1, .take 1, .finish 1 (if kept then .ok else .io)] with
    | some s => s.rlock.isNone
    | none => false
  (if rs' != b.rs then ["discard"] else []) ++ (if kept then [] else ["closeConn"]) ++ (if unlocked then ["unlock"] else [])

/-- the attach / detach steps of the deadline object are the subject of Model/ConnDeadline.lean (Part 6:
`flow_tables_release_detached`); the multiplexer models do not speak about them -/
def noDeadline (eff : List String) : List String :=
  eff.filter (fun e => !(e == "attach" || e == "detach" || e == "defer:detach"))

set_option maxRecDepth 8192 in
/-- the extracted decision tables are the models' transitions -/
theorem flow_tables_are_the_models :
    Gen.MuxFacts.batchCloseFlow.all (fun (sc, eff) => batchCloseModelRow sc == noDeadline eff) = true ∧
    Gen.MuxFacts.apiVersionsFlow.all (fun (sc, eff) => apiVersionsModelRow sc == noDeadline eff) = true ∧
    Gen.MuxFacts.readBatchWithFlow.all (fun (sc, eff) => readBatchWithModelRow sc == eff) = true ∧
    Gen.MuxFacts.releaseConnFlow.all (fun (sc, eff) => releaseConnModelRow sc == eff) = true ∧
    Gen.MuxFacts.grabConnFlow.all (fun (sc, eff) => grabConnModelRow sc == eff) = true ∧
    Gen.MuxFacts.grabConnToFlow.all (fun (sc, eff) => grabConnToModelRow sc == eff) = true ∧
    Gen.MuxFacts.removeConnFlow.all (fun (sc, eff) => removeConnModelRow sc == eff) = true ∧
    Gen.MuxFacts.closeIdleConnsFlow.all (fun (sc, eff) => closeIdleConnsModelRow sc == eff) = true ∧
    Gen.MuxFacts.doRequestFlow.all (fun (sc, eff) => doRequestModelRow sc == eff) = true ∧
    Gen.MuxFacts.roundTripFlow.all (fun (sc, eff) => roundTripModelRow sc == eff) = true ∧
    Gen.MuxFacts.waitResponseFlow.all (fun (sc, eff) => waitResponseModelRow sc == noDeadline eff) = true ∧
    Gen.MuxFacts.doFlow.all (fun (sc, eff) => doModelRow sc == noDeadline eff) = true ∧
    Gen.MuxFacts.runFlow.all (fun (sc, eff) => runModelRow sc == eff) = true := by
  decide

end Flow

/-! ## Part 6 — the socket's read deadline belongs to the operation that holds the read lock

Model/ConnDeadline.lean.  The discipline "whoever gives the read lock back detaches its deadline object first"
(`disciplined`) is what the code must follow; the regenerated decision tables of `waitResponse`, `do`, `ApiVersions`
and `Batch.close` show it (`flow_tables_release_detached` below).  Under it the read deadline of the socket is, at
every moment, the CURRENT value of the deadline object of the operation that reads: a SetDeadline / SetWriteDeadline
meant for something else never ends somebody's read (finding C06-D31: `ApiVersions` left its deadline object attached
— after a negotiation that ran under the write deadline, every later SetWriteDeadline rewrote the socket's READ
deadline and timed out an unrelated read that had no deadline at all). -/

section Deadline
open KV.ConnDeadline

/-- only the lock holder's deadline object is attached, and the socket carries its current value -/
def DInv (s : ConnDeadline.State) : Prop :=
  (∀ o, (s.obj o).attached = true → s.holder = some o) ∧
  (∀ o, s.holder = some o → s.sock = (s.obj o).value ∧ (s.obj o).attached = true)

theorem dinv_init : DInv ConnDeadline.init := by
  constructor
  · intro o h; cases o <;> simp [ConnDeadline.init, State.obj] at h
  · intro o h; simp [ConnDeadline.init] at h

theorem dinv_step {s s' : ConnDeadline.State} {e : ConnDeadline.Event} (hi : DInv s)
    (h : ConnDeadline.step s e = some s') (hd : e ≠ .release false) : DInv s' := by
  obtain ⟨ha, hg⟩ := hi
  cases e with
  | set o t =>
    simp only [ConnDeadline.step, Option.some.injEq] at h; subst h
    constructor
    · intro o' hat
      have := ha o'
      cases o <;> cases o' <;> simp_all [State.obj, State.setObj]
    · intro o' hh
      have h1 := hg o'
      have h2 := ha o
      cases o <;> cases o' <;> simp_all [State.obj, State.setObj]
  | attach o =>
    simp only [ConnDeadline.step] at h
    split at h
    · next hn =>
      simp only [Option.some.injEq] at h; subst h
      have hr := ha .r
      have hw := ha .w
      constructor
      · intro o' hat
        cases o <;> cases o' <;> simp_all [State.obj, State.setObj]
      · intro o' hh
        cases o <;> cases o' <;> simp_all [State.obj, State.setObj]
    · cases h
  | release d =>
    cases d with
    | false => exact absurd rfl hd
    | true =>
      simp only [ConnDeadline.step] at h
      split at h
      · next o ho =>
        simp only [Option.some.injEq] at h; subst h
        have hr := ha .r
        have hw := ha .w
        constructor
        · intro o' hat
          cases o <;> cases o' <;> simp_all [State.obj, State.setObj]
        · intro o' hh
          cases o <;> simp_all [State.setObj]
      · cases h

theorem dinv_run : ∀ (es : List ConnDeadline.Event) (s s' : ConnDeadline.State), DInv s →
    ConnDeadline.disciplined es = true → ConnDeadline.runFrom s es = some s' → DInv s' := by
  intro es
  induction es with
  | nil => intro s s' hi _ h; simp [ConnDeadline.runFrom] at h; subst h; exact hi
  | cons e es ih =>
    intro s s' hi hd h
    simp only [ConnDeadline.runFrom] at h
    split at h
    · cases h
    · next s1 h1 =>
      have hne : e ≠ .release false := by
        intro he; subst he; simp [ConnDeadline.disciplined] at hd
      have hd' : ConnDeadline.disciplined es = true := by
        cases e with
        | set o t => simpa [ConnDeadline.disciplined] using hd
        | attach o => simpa [ConnDeadline.disciplined] using hd
        | release d => cases d <;> simp_all [ConnDeadline.disciplined]
      exact ih s1 s' (dinv_step hi h1 hne) hd' h

/-- **deadline_isolation** — for every interleaving of SetReadDeadline / SetWriteDeadline calls with operations that
attach their deadline object under the read lock and detach it before they give the lock back: while an operation
holds the read lock, the socket's read deadline IS the current value of that operation's own deadline object -/
theorem deadline_isolation (es : List ConnDeadline.Event) (s : ConnDeadline.State)
    (hd : ConnDeadline.disciplined es = true) (h : ConnDeadline.run es = some s) (o : Obj) (hh : s.holder = some o) :
    s.sock = (s.obj o).value :=
  ((dinv_run es ConnDeadline.init s dinv_init hd h).2 o hh).1

/-- a deadline set on the OTHER object while somebody reads does not touch the socket -/
theorem foreign_deadline_is_inert (es : List ConnDeadline.Event) (s s' : ConnDeadline.State)
    (hd : ConnDeadline.disciplined es = true) (h : ConnDeadline.run es = some s) (o o' : Obj) (hh : s.holder = some o)
    (hne : o' ≠ o) (t : Nat) (hs : ConnDeadline.step s (.set o' t) = some s') : s'.sock = s.sock := by
  have ha := (dinv_run es ConnDeadline.init s dinv_init hd h).1 o'
  simp only [ConnDeadline.step, Option.some.injEq] at hs; subst hs
  cases hat : (s.obj o').attached with
  | false => cases o' <;> simp_all [State.obj, State.setObj]
  | true => have := ha hat; rw [hh] at this; simp at this; exact absurd this.symm hne

/-- the discipline is needed — the pre-fix `ApiVersions`: negotiation under the write deadline, lock given back with
the object still attached; then a read with no read deadline, and a SetWriteDeadline(5) meant for a later write: the
socket's read deadline becomes 5 while the reader's own deadline object says "none" -/
theorem stale_attachment_counterexample :
    (ConnDeadline.run [.attach .w, .release false, .attach .r, .set .w 5]).map
      (fun s => (s.holder, s.sock, s.r.value)) = some (some .r, 5, 0) := by decide

/-- with the detach the same schedule leaves the reader alone -/
theorem detached_schedule_example :
    (ConnDeadline.run [.attach .w, .release true, .attach .r, .set .w 5]).map
      (fun s => (s.holder, s.sock, s.r.value)) = some (some .r, 0, 0) := by decide

/-- a row of a decision table respects the discipline: walking its effects (deferred calls run in reverse order at the
end), no `unlock` happens while the deadline object is attached.  `attach` = setConnReadDeadline, `waitResponse` (as a
callee) returns with the lock held and the object attached, `detach` = unsetConnReadDeadline. -/
def undefer : String → Option String
  | "defer:unlock" => some "unlock"
  | "defer:detach" => some "detach"
  | _ => none

def rowDetaches (attached0 : Bool) (effs : List String) : Bool :=
  let walk := fun (st : Bool × Bool) (e : String) =>
    -- st = (attached, ok)
    if e == "attach" || e == "waitResponse" then (true, st.2)
    else if e == "detach" then (false, st.2)
    else if e == "unlock" then (st.1, st.2 && !st.1)
    else st
  ((effs ++ (effs.filterMap undefer).reverse).foldl walk (attached0, true)).2

/-- the four functions that give the read lock back, as extracted this run, detach first in every scenario
(`Batch.close` starts with the lock held and the object attached by `ReadBatchWith`'s `waitResponse`) -/
theorem flow_tables_release_detached :
    Gen.MuxFacts.waitResponseFlow.all (fun (_, eff) => rowDetaches false eff) = true ∧
    Gen.MuxFacts.doFlow.all (fun (_, eff) => rowDetaches false eff) = true ∧
    Gen.MuxFacts.apiVersionsFlow.all (fun (_, eff) => rowDetaches false eff) = true ∧
    Gen.MuxFacts.batchCloseFlow.all (fun (_, eff) => rowDetaches true eff) = true := by
  set_option maxRecDepth 8192 in decide

end Deadline

/-! ## Part 7 — the pool's metadata refresh applies the answer to ITS request

Model/PoolDiscover.lean.  "No call ever receives another call's response or a response left over from an exchange that
was abandoned" also binds the calls the Transport makes for itself: the refresh loop of the connection pool abandons a
refresh on its deadline and starts the next one while the connection goroutine may still deliver the outcome of the
abandoned request.  With a promise per refresh that late outcome lands where nobody listens. -/

section Discover
open KV.PoolDiscover

/-- every promise channel holds, if anything, the outcome of the request it was created for -/
def PInv (s : PoolDiscover.State) : Prop :=
  (∀ c r, s.chan c = some r → r.req = c) ∧ (∀ k r, (k, r) ∈ s.applied → r.req = k)

theorem pinv_step {s s' : PoolDiscover.State} {e : PoolDiscover.Event} (hi : PInv s)
    (h : PoolDiscover.step true s e = some s') : PInv s' := by
  obtain ⟨hc, ha⟩ := hi
  cases e with
  | start =>
    simp only [PoolDiscover.step] at h
    split at h
    · simp only [Option.some.injEq] at h; subst h; exact ⟨hc, ha⟩
    · cases h
  | complete j ok =>
    simp only [PoolDiscover.step] at h
    split at h
    · simp only [Option.some.injEq] at h; subst h
      refine ⟨?_, ha⟩
      intro c r hr
      simp only [chanOf, ↓reduceIte] at hr
      split at hr
      · next hcj => subst hcj; simp only [Option.some.injEq] at hr; subst hr; cases ok <;> rfl
      · exact hc c r hr
    · cases h
  | take =>
    simp only [PoolDiscover.step] at h
    split at h
    · next k hk =>
      split at h
      · next r hr =>
        simp only [Option.some.injEq] at h; subst h
        refine ⟨?_, ?_⟩
        · intro c r' hr'
          simp only at hr'
          split at hr'
          · cases hr'
          · exact hc c r' hr'
        · intro k' r' hm
          simp only [List.mem_append, List.mem_singleton, Prod.mk.injEq] at hm
          rcases hm with hm | ⟨rfl, rfl⟩
          · exact ha k' r' hm
          · have := hc _ _ hr; simpa [chanOf] using this
      · cases h
    · cases h
  | timeout =>
    simp only [PoolDiscover.step] at h
    split at h
    · next k hk =>
      simp only [Option.some.injEq] at h; subst h
      refine ⟨hc, ?_⟩
      intro k' r' hm
      simp only [List.mem_append, List.mem_singleton, Prod.mk.injEq] at hm
      rcases hm with hm | ⟨rfl, rfl⟩
      · exact ha k' r' hm
      · rfl
    · cases h

theorem pinv_run : ∀ (es : List PoolDiscover.Event) (s s' : PoolDiscover.State), PInv s →
    PoolDiscover.runFrom true s es = some s' → PInv s' := by
  intro es
  induction es with
  | nil => intro s s' hi h; simp [PoolDiscover.runFrom] at h; subst h; exact hi
  | cons e es ih =>
    intro s s' hi h
    simp only [PoolDiscover.runFrom] at h
    split at h
    · cases h
    · next s1 h1 => exact ih s1 s' (pinv_step hi h1) h

/-- **refresh_applies_own_outcome** — for every interleaving of the refresh loop (start, deadline) with the connection
goroutine (late completions included): what refresh k gives to `p.update` is the outcome of request k — its answer, its
error, or its own deadline — never the outcome of an earlier, abandoned request -/
theorem refresh_applies_own_outcome (es : List PoolDiscover.Event) (s : PoolDiscover.State)
    (h : PoolDiscover.run true es = some s) (k : Nat) (r : PoolDiscover.Res) (hm : (k, r) ∈ s.applied) : r.req = k :=
  (pinv_run es PoolDiscover.init s ⟨by intro c r h; simp [PoolDiscover.init] at h, by intro k r h; simp [PoolDiscover.init] at h⟩ h).2 k r hm

/-- the promise per refresh is needed (seed C06-m8: one channel for all refreshes): refresh 1 is abandoned on its
deadline, refresh 2 starts, the late answer to request 1 arrives — and refresh 2 applies it as its own; its real answer
is then applied by refresh 3: the cache runs one generation behind -/
theorem shared_promise_counterexample :
    (PoolDiscover.run false [.start, .timeout, .start, .complete 1 true, .take, .start, .complete 2 true, .take]).map
      (·.applied) = some [(1, .error 1), (2, .answer 1), (3, .answer 2)] := by decide

/-- with a promise per refresh the same schedule: the late answer stays in its abandoned promise -/
theorem own_promise_example :
    (PoolDiscover.run true [.start, .timeout, .start, .complete 1 true, .complete 2 true, .take]).map (·.applied) =
      some [(1, .error 1), (2, .answer 2)] := by decide

/-- the allocation site, re-read from transport.go this run -/
theorem discover_promise_per_refresh : Gen.MuxFacts.discoverPromisePerRefresh = true := by decide

end Discover

end KV.C06
