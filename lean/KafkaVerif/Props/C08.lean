/-
Props/C08.lean — property C08: Writer batches respect the size limits and are flushed without further input.
Property theorems only; invariants and helper lemmas live in Lemmas/WriterInv.lean (Inv08), Lemmas/WriterSched.lean
(InvRej, InvSched, InvFit), Lemmas/WriterPlace.lean (InvPlace), Lemmas/WriterAck.lean (InvAck).

Model: Model/Writer.lean (one LTS for writer.go).  All theorems quantify over every configuration `cfg`
(BatchSize, BatchBytes, MaxAttempts, sync/async, Completion, topic, retry classification) and every reachable
state / accepted event, i.e. every finite event sequence the LTS accepts (any number of callers, partitions,
message sizes, faults, timer firings, Close).
-/
import KafkaVerif.Lemmas.WriterProgress
import KafkaVerif.Lemmas.WriterQueued
import KafkaVerif.Lemmas.WriterQuiesce
import KafkaVerif.Lemmas.WriterAge
import KafkaVerif.Gen.WriterConsts

namespace KV.C08
open KV KV.Writer

/-- **batch_limits** — every produce request the broker sees (`produce` is enabled only for the batch of an
in-flight attempt) carries exactly the messages of one batch, at most BatchSize of them, at most BatchBytes
bytes in the `Message.totalSize` measure, for the single topic-partition of that batch's partition writer, and
every one of these messages was assigned to that topic-partition. -/
theorem batch_limits (cfg : Cfg) (s s' : State) (hr : Reachable cfg s) (pw : Nat) (tp : TP) (msgs : List Msg) (out : BrOut)
    (hs : step cfg s (.produce pw tp msgs out) = some s') :
    ∃ b B P k, s.pws pw = some P ∧ P.sender = .attempting b k none ∧ s.batches b = some B ∧
      B.msgs.map (·.msg) = msgs ∧ B.tp = tp ∧ P.tp = tp ∧
      msgs.length ≤ cfg.batchSize ∧ (B.msgs.map (·.size)).sum ≤ cfg.batchBytes ∧
      (∀ m ∈ B.msgs, ∃ C, s.calls m.msg.1 = some C ∧ C.assign[m.msg.2]? = some tp) := by
  have hI := (inv08 cfg s hr).1
  have hPl := invPlace cfg s hr
  simp only [step, stepProduce] at hs
  repeat' split at hs
  all_goals (first | (cases hs; done) | skip)
  rename_i _ P hP _ b k hsend _ B hBq hg
  obtain ⟨-, h1, h2, h3, -⟩ := hg
  have ⟨hl, hb, hsum⟩ := hI _ _ hBq
  refine ⟨b, B, P, k, hP, hsend, hBq, h3, h1, h2, ?_, ?_, ?_⟩
  · rw [← h3, List.length_map]; exact hl
  · rw [← hsum]; exact hb
  · intro m hm
    obtain ⟨C, hC, ha, -⟩ := hPl.batchTP b B hBq m hm
    exact ⟨C, hC, h1 ▸ ha⟩

/-- every batch, at every moment, is within the limits (the invariant behind `batch_limits`) -/
theorem batch_limits_always (cfg : Cfg) (s : State) (hr : Reachable cfg s) (b : Nat) (B : Batch) (hB : s.batches b = some B) :
    B.msgs.length ≤ cfg.batchSize ∧ B.bytes ≤ cfg.batchBytes ∧ B.bytes = (B.msgs.map (·.size)).sum :=
  (inv08 cfg s hr).1 b B hB

/-- **reject_before_send** (validation) — a call that contains a message larger than BatchBytes, or a message whose
topic conflicts with / is missing besides the writer-level topic, never gets any message into any batch — in no
reachable state, so nothing of it can ever be sent. -/
theorem reject_before_send (cfg : Cfg) (s : State) (hr : Reachable cfg s) (c : Nat) (C : Call) (hC : s.calls c = some C)
    (hbad : ∃ m ∈ C.msgs, cfg.batchBytes < m.size ∨ chooseTopic cfg m = none) :
    (∀ i, C.place i = none) ∧ (∀ b B, s.batches b = some B → ∀ m ∈ B.msgs, m.msg.1 ≠ c) := by
  have hF := invFit cfg s hr c C hC
  have hPl := invPlace cfg s hr
  have hnone : ∀ i, C.place i = none := by
    intro i
    cases hp : C.place i with
    | none => rfl
    | some b =>
      exfalso
      obtain ⟨hfit, hlen⟩ := hF.placed (Or.inr (Or.inr ⟨i, by simp [hp]⟩))
      obtain ⟨m, hm, hbad⟩ := hbad
      obtain ⟨j, hj, hjm⟩ := List.getElem_of_mem hm
      have hjm' : C.msgs[j]? = some m := by rw [List.getElem?_eq_getElem hj, hjm]
      rcases hbad with hbig | htopic
      · have := allFit_elim hfit hjm'
        omega
      · have hja : j < C.assign.length := hlen ▸ hj
        obtain ⟨m', hm', hch⟩ := hF.assigned j _ (List.getElem?_eq_getElem hja)
        rw [hjm'] at hm'; cases hm'
        rw [htopic] at hch; cases hch
  refine ⟨hnone, ?_⟩
  intro b B hB m hm hmc
  obtain ⟨C', hC', -, hp⟩ := hPl.batchTP b B hB m hm
  rw [hmc, hC] at hC'; cases hC'
  rw [hnone] at hp; cases hp

/-- **reject_before_send** (outcome) — whenever a call ended in a rejection (oversize message, topic conflict,
metadata failure, or io.ErrClosedPipe because the Writer was closed before batchMessages), nothing of the call
was placed in any batch. -/
theorem rejected_nothing_queued (cfg : Cfg) (s : State) (hr : Reachable cfg s) (c : Nat) (C : Call) (hC : s.calls c = some C)
    (r : Result) (hres : C.result = some r) (hrej : r.isReject = true) :
    (∀ i, C.place i = none) ∧ (∀ b B, s.batches b = some B → ∀ m ∈ B.msgs, m.msg.1 ≠ c) := by
  have hR := invRej cfg s hr c C hC
  have hPl := invPlace cfg s hr
  have hnone : ∀ i, C.place i = none := by
    obtain ⟨h1, h2⟩ := hR
    have hph := h2 r hres
    rcases h1 with (h | h | ⟨-, r', hr', hn⟩) | h
    · rw [hph] at h; cases h
    · rw [hph] at h; cases h
    · rw [hres] at hr'; cases hr'; rw [hrej] at hn; cases hn
    · exact h
  refine ⟨hnone, ?_⟩
  intro b B hB m hm hmc
  obtain ⟨C', hC', -, hp⟩ := hPl.batchTP b B hB m hm
  rw [hmc, hC] at hC'; cases hC'
  rw [hnone] at hp; cases hp

/-- **closed_when_full** — outside the critical section of batchMessages (w.mutex not held by a call) no partition
writer has a full batch attached: a batch that reaches BatchSize messages or BatchBytes bytes is detached and
queued before writeMessages' caller releases the lock; and inside the section `add` is not enabled on a full batch
(`full_batch_takes_nothing`), so the only thing that can happen to a full attached batch is its `detach`. -/
theorem closed_when_full (cfg : Cfg) (s : State) (hr : Reachable cfg s) (hlock : s.wlock.isCall = false)
    (pw b : Nat) (P : PW) (B : Batch) (hP : s.pws pw = some P) (hc : P.curr = some b) (hB : s.batches b = some B) :
    B.full cfg = false ∧ B.detached = none := by
  have hS := invSched cfg s hr
  refine ⟨hS.notFull hlock pw P b B hP hc hB, ?_⟩
  obtain ⟨B0, hB0, -, hd⟩ := hS.currOpen pw P hP b hc
  rw [hB] at hB0; cases hB0; exact hd

theorem full_batch_takes_nothing (cfg : Cfg) (s s' : State) (pw b c i size : Nat)
    (hs : step cfg s (.add pw b c i size) = some s') :
    ∃ B, s.batches b = some B ∧ B.full cfg = false ∧ B.nofit cfg size = false ∧ B.detached = none := by
  simp only [step, stepAdd] at hs
  repeat' split at hs
  all_goals (first | (cases hs; done) | skip)
  rename_i _ P hP _ B hB _ C hC hg
  obtain ⟨-, -, -, -, -, hdet, hfull, hnofit, -⟩ := hg
  exact ⟨B, hB, hfull, hnofit, hdet⟩

/-- **queued_when_full_or_timer** — a batch leaves its partition writer (and is handed to the queue) only for one
of four reasons, each checked when it happens: it is full; the next message does not fit; its timer fired; Close.
The recorded reason of every detached batch keeps holding, and everything in the queue / in the sender's hands is a
detached batch. -/
theorem queued_when_full_or_timer (cfg : Cfg) (s : State) (hr : Reachable cfg s) :
    (∀ b B, s.batches b = some B →
      (B.detached = some .full → B.full cfg = true) ∧ (B.detached = some .timer → B.timerFired = true) ∧
      (B.detached = some .close → s.closed = true)) ∧
    (∀ pw P, s.pws pw = some P → ∀ b ∈ P.sender.batch?.toList ++ P.queue ++ P.pending.toList, ∀ B, s.batches b = some B →
      B.detached.isSome = true) :=
  ⟨(invSched cfg s hr).why, (invAck cfg s hr).sentDet⟩

theorem detach_reason (cfg : Cfg) (s s' : State) (pw b : Nat) (why : Why) (size : Nat)
    (hs : step cfg s (.detach pw b why size) = some s') :
    ∃ P B, s.pws pw = some P ∧ s.batches b = some B ∧ P.curr = some b ∧ whyOk cfg s B why size = true ∧
      s'.pws pw = some { P with curr := none, pending := some b } := by
  simp only [step, stepDetach] at hs
  repeat' split at hs
  all_goals (first | (cases hs; done) | skip)
  rename_i _ P hP _ B hB hg
  cases hs
  exact ⟨P, B, hP, hB, hg.1, hg.2.2.2.1, by simp⟩

/-- outside the batchMessages critical section no batch is in the window "created, first add still to come" -/
theorem fresh_none_outside_batchMessages (cfg : Cfg) (s : State) (hr : Reachable cfg s) (hlock : s.wlock.isCall = false) :
    s.fresh = none := by
  cases hf : s.fresh with
  | none => rfl
  | some b =>
    have := (invFresh cfg s hr).freshLock (by simp [hf])
    rw [hlock] at this; cases this

/-- **flushed_by_timer** (enabledness) — an attached batch needs no further input to get queued: in every reachable
state in which no batchMessages section is open, for every partition writer with an attached batch, the three steps "timer fires — detach
— queue.Put" are enabled one after the other, whatever the callers do, and leave the batch at the tail of the queue
(unless Close already closed the queue, in which case Close itself had queued the batch). -/
theorem flushed_by_timer (cfg : Cfg) (s : State) (hr : Reachable cfg s) (hlock : s.wlock.isCall = false) (pw b : Nat) (P : PW)
    (hP : s.pws pw = some P) (hc : P.curr = some b) (hpend : P.pending = none) :
    ∃ s1 s2 s3, step cfg s (.timerFire pw b true) = some s1 ∧ step cfg s1 (.detach pw b .timer 0) = some s2 ∧
      step cfg s2 (.qput P.q b (!P.qclosed)) = some s3 ∧
      s3.pws pw = some { P with curr := none, pending := none, queue := enq P.queue b (!P.qclosed) } := by
  have hS := invSched cfg s hr
  obtain ⟨B, hB, hBpw, hdet⟩ := hS.currOpen pw P hP b hc
  have hq := hS.qOfInv pw P hP
  let B1 : Batch := { B with timerFired := true }
  let s1 : State := { s with batches := upd s.batches b (some B1) }
  let P2 : PW := { P with curr := none, pending := some b }
  let s2 : State := { s1 with pws := upd s1.pws pw (some P2), batches := upd s1.batches b (some { B1 with detached := some .timer }) }
  let s3 : State := { s2 with pws := upd s2.pws pw (some { P2 with pending := none, queue := enq P2.queue b (!P.qclosed) }) }
  have h1 : step cfg s (.timerFire pw b true) = some s1 := by
    simp only [step, hP, hB]
    rw [if_pos ⟨hpend, hBpw, by simp [hc]⟩]
  have h2 : step cfg s1 (.detach pw b .timer 0) = some s2 := by
    have hP1 : s1.pws pw = some P := hP
    have hB1 : s1.batches b = some B1 := by simp [s1]
    simp only [step, stepDetach, hP1, hB1]
    have hfr : s1.fresh ≠ some b := by
      have : s.fresh = none := fresh_none_outside_batchMessages cfg s hr hlock
      show s.fresh ≠ some b
      rw [this]; simp
    rw [if_pos ⟨hc, hpend, hdet, by simp [whyOk, B1], hfr⟩]
  have h3 : step cfg s2 (.qput P.q b (!P.qclosed)) = some s3 := by
    have hq2 : s2.qOf P.q = some pw := hq
    have hP2 : s2.pws pw = some P2 := by simp [s2]
    simp only [step, hq2, hP2]
    rw [if_pos ⟨rfl, rfl, rfl⟩]
  exact ⟨s1, s2, s3, h1, h2, h3, by simp [s3, P2]⟩

/-! ### progress without fairness assumptions: enabledness + measure

"Every accepted message is scheduled for sending without waiting for further writes … and is produced as soon as
the earlier batches of that partition have completed."  The model has no clock and no scheduler, so the liveness
side is stated the way C09 states termination of Close: the partition writer's own events (its batch timer, its
hand-over to the queue, its sender goroutine, the broker's answers — `internalFor`) are (1) always enabled while
anything is left in its pipeline, without any caller event, and (2) each of them strictly decreases the natural
number `pwCost`; hence (3) at most `pwCost` of them empty the pipeline, completing every batch that was in it. -/

/-- **produce_nonempty** — no produce request is empty: a batch is handed to the queue only with at least one message
(newWriteBatch and the first add happen in one partition-mutex section). -/
theorem produce_nonempty (cfg : Cfg) (s s' : State) (hr : Reachable cfg s) (pw : Nat) (tp : TP) (msgs : List Msg) (out : BrOut)
    (hs : step cfg s (.produce pw tp msgs out) = some s') : msgs ≠ [] := by
  have hA := invAck cfg s hr
  have hF := invFresh cfg s hr
  simp only [step, stepProduce] at hs
  repeat' split at hs
  all_goals (first | (cases hs; done) | skip)
  rename_i _ P hP _ b k hsend _ B hB hg
  obtain ⟨-, -, -, hm, -⟩ := hg
  have hdet := hA.sentDet pw P hP b (sender_mem_sent (by rw [hsend]; rfl)) B hB
  have := hF.detNonempty b B hB hdet
  intro he
  rw [← hm] at he
  exact this (List.map_eq_nil_iff.mp he)

/-- **progress_enabled** — while a partition writer has anything attached, pending, queued or in the sender's hands,
one of its internal events is enabled, provided no batchMessages critical section is open (a caller inside it holds the
partition mutex and leaves by itself); MaxAttempts ≥ 1, as `maxAttempts()` guarantees. -/
theorem progress_enabled (cfg : Cfg) (hmax : 1 ≤ cfg.maxAttempts) (s : State) (hr : Reachable cfg s)
    (hlock : s.wlock.isCall = false) (pw : Nat) (P : PW) (hP : s.pws pw = some P) (hne : P.pipe ≠ []) :
    ∃ e, internalFor s pw e = true ∧ (step cfg s e).isSome = true :=
  internal_enabled cfg hmax s hr (fresh_none_outside_batchMessages cfg s hr hlock) pw P hP hne

/-- **progress_measure** — every internal event of the partition writer strictly decreases `pwCost`
(3·(MaxAttempts − k) + … for the batch being sent, 3·MaxAttempts + 3 per queued batch, +1 / +3 or 4 for a pending /
attached one). -/
theorem progress_measure (cfg : Cfg) (hmax : 1 ≤ cfg.maxAttempts) (s s' : State) (hr : Reachable cfg s) (pw : Nat) (P : PW)
    (hP : s.pws pw = some P) (e : Event) (hint : internalFor s pw e = true) (hs : step cfg s e = some s') :
    ∃ P', s'.pws pw = some P' ∧ pwCost cfg s'.batches P' < pwCost cfg s.batches P :=
  internal_decreases cfg s s' (invProg cfg hmax s hr) pw P hP e hint hs

/-- **flushed_without_further_input** — from every reachable state, for every partition writer, there is a
continuation consisting only of that writer's internal events, of length ≤ `pwCost`, after which its pipeline is
empty and every batch that was in it — in particular the attached one holding the most recently accepted messages —
is completed: acknowledged, or failed permanently / after MaxAttempts attempts. -/
theorem flushed_without_further_input (cfg : Cfg) (hmax : 1 ≤ cfg.maxAttempts) (s : State) (hr : Reachable cfg s)
    (hlock : s.wlock.isCall = false) (pw : Nat) (P : PW) (hP : s.pws pw = some P) :
    ∃ es s' P', internalRun cfg pw s es = some s' ∧ run cfg s es = some s' ∧ s'.pws pw = some P' ∧ P'.pipe = [] ∧
      es.length ≤ pwCost cfg s.batches P ∧
      ∀ b ∈ P.pipe, ∃ B' code, s'.batches b = some B' ∧ B'.done = some code := by
  obtain ⟨es, s', P', h1, h2, h3, h4, h5⟩ :=
    flush_completes cfg hmax _ s hr (fresh_none_outside_batchMessages cfg s hr hlock) pw P hP (Nat.le_refl _)
  exact ⟨es, s', P', h1, internalRun_is_run cfg pw es s s' h1, h2, h3, h4, h5⟩

/-- **sent_after_predecessors** — the sender goroutine takes a batch only from the head of its FIFO queue and only
when it is idle, i.e. after every earlier batch of the partition has completed (with all its attempts). -/
theorem sent_after_predecessors (cfg : Cfg) (s s' : State) (q b : Nat) (hs : step cfg s (.qget q (some b)) = some s') :
    ∃ pw P, s.qOf q = some pw ∧ s.pws pw = some P ∧ P.sender = .idle ∧ P.queue.head? = some b := by
  simp only [step] at hs
  repeat' split at hs
  all_goals (first | (cases hs; done) | skip)
  rename_i _ pw hq _ P hP hg
  exact ⟨pw, P, hq, hP, hg.1, hg.2⟩

/-- the queue only grows at its tail -/
theorem queue_put_at_tail (cfg : Cfg) (s s' : State) (q b : Nat) (acc : Bool) (hs : step cfg s (.qput q b acc) = some s') :
    ∃ pw P, s.qOf q = some pw ∧ s.pws pw = some P ∧ P.pending = some b ∧ acc = !P.qclosed ∧
      s'.pws pw = some { P with pending := none, queue := enq P.queue b acc } := by
  simp only [step] at hs
  repeat' split at hs
  all_goals (first | (cases hs; done) | skip)
  rename_i _ pw hq _ P hP hg
  cases hs
  exact ⟨pw, P, hq, hP, hg.1, hg.2.2, by simp⟩

/-! ### nothing is dropped on the way: every accepted message is in a batch, every unfinished batch is in a pipeline -/

/-- **no_batch_dropped** — a batch that has not been completed is in the pipeline of its partition writer: still
attached, detached and about to be queued, in the queue, or with the sender goroutine.  Nothing is lost between
writeMessages and the sender; in particular a closed queue is never handed a batch. -/
theorem no_batch_dropped (cfg : Cfg) (s : State) (hr : Reachable cfg s) (b : Nat) (B : Batch) (hB : s.batches b = some B)
    (hd : B.done = none) : ∃ P, s.pws B.pw = some P ∧ b ∈ P.pipe :=
  invLive cfg s hr b B hB hd

/-- **accepted_messages_all_queued** — once a call is past batchMessages (it waits for its batches, or it has returned
with anything but a rejection: nil, a WriteErrors, the Async nil, or ctx.Err()), every one of its messages sits in a
batch, and that batch is either completed or in the pipeline of its partition writer. -/
theorem accepted_messages_all_queued (cfg : Cfg) (s : State) (hr : Reachable cfg s) (c : Nat) (C : Call) (hC : s.calls c = some C)
    (hph : C.phase = .batched ∨ (C.phase = .returned ∧ ∃ r, C.result = some r ∧ r.isReject = false))
    (i : Nat) (hi : i < C.msgs.length) :
    ∃ b B, C.place i = some b ∧ s.batches b = some B ∧ (∃ m ∈ B.msgs, m.msg = (c, i)) ∧
      ((∃ code, B.done = some code) ∨ ∃ P, s.pws B.pw = some P ∧ b ∈ P.pipe) := by
  obtain ⟨b, hb⟩ := placedAll_elim (invQueued cfg s hr c C hC hph) i hi
  obtain ⟨B, hB, hm, -⟩ := (invPlace cfg s hr).placed c C hC i b hb
  refine ⟨b, B, hb, hB, hm, ?_⟩
  cases hd : B.done with
  | some code => exact Or.inl ⟨code, rfl⟩
  | none => exact Or.inr (invLive cfg s hr b B hB hd)

/-- **accepted_message_completes** — the per-message form of `flushed_without_further_input`: for every message of
such a call there is a continuation made only of internal events of one partition writer (timer, queue, sender,
broker answers — no further WriteMessages, no Close) after which the batch holding the message is completed. -/
theorem accepted_message_completes (cfg : Cfg) (hmax : 1 ≤ cfg.maxAttempts) (s : State) (hr : Reachable cfg s)
    (hlock : s.wlock.isCall = false) (c : Nat) (C : Call) (hC : s.calls c = some C)
    (hph : C.phase = .batched ∨ (C.phase = .returned ∧ ∃ r, C.result = some r ∧ r.isReject = false))
    (i : Nat) (hi : i < C.msgs.length) :
    ∃ b pw es s' B' code, C.place i = some b ∧ internalRun cfg pw s es = some s' ∧ run cfg s es = some s' ∧
      s'.batches b = some B' ∧ B'.done = some code := by
  obtain ⟨b, B, hb, hB, -, hdone | ⟨P, hP, hmem⟩⟩ := accepted_messages_all_queued cfg s hr c C hC hph i hi
  · obtain ⟨code, hc⟩ := hdone
    exact ⟨b, B.pw, [], s, B, code, hb, rfl, rfl, hB, hc⟩
  · obtain ⟨es, s', P', hint, hrun, -, -, -, hall⟩ := flushed_without_further_input cfg hmax s hr hlock B.pw P hP
    obtain ⟨B', code, hB', hc⟩ := hall b hmem
    exact ⟨b, B.pw, es, s', B', code, hb, hint, hrun, hB', hc⟩

/-- **cancelled_call_still_flushed** — WriteMessages returning ctx.Err() withdraws nothing: the return changes no
batch, no partition writer and no log, every message of the cancelled call is in a batch, and each of these batches is
completed by internal events alone — the messages of a cancelled call are sent exactly like those of any other. -/
theorem cancelled_call_still_flushed (cfg : Cfg) (hmax : 1 ≤ cfg.maxAttempts) (s s' : State) (hr : Reachable cfg s) (c : Nat)
    (hs : step cfg s (.ret c .ctx) = some s') (hlock : s.wlock.isCall = false) :
    s'.batches = s.batches ∧ s'.pws = s.pws ∧ s'.log = s.log ∧
    ∃ C, s'.calls c = some C ∧ C.result = some .ctx ∧ ∀ i, i < C.msgs.length →
      ∃ b pw es s'' B' code, C.place i = some b ∧ internalRun cfg pw s' es = some s'' ∧ run cfg s' es = some s'' ∧
        s''.batches b = some B' ∧ B'.done = some code := by
  have hr' := reachable_step hr hs
  simp only [step, stepRet] at hs
  repeat' split at hs
  all_goals (first | (cases hs; done) | skip)
  rename_i _ C hC hg
  cases hs
  refine ⟨rfl, rfl, rfl, { C with phase := .returned, result := some .ctx, endSeq := some s.seq }, by simp, rfl, ?_⟩
  intro i hi
  exact accepted_message_completes cfg hmax _ hr' hlock c
    { C with phase := .returned, result := some .ctx, endSeq := some s.seq } (by simp) (Or.inr ⟨rfl, .ctx, rfl, rfl⟩) i hi

/-- **quiesces_without_further_input** — the whole-writer form of `flushed_without_further_input`: from every reachable
state in which no call is inside batchMessages there is a continuation made only of internal events (timer expiries,
queue hand-overs, sender steps, broker answers; no WriteMessages step, no Close step) after which **every** batch of
every partition writer is completed — acknowledged, or failed permanently / after MaxAttempts attempts — and no call
record has changed. -/
theorem quiesces_without_further_input (cfg : Cfg) (hmax : 1 ≤ cfg.maxAttempts) (s : State) (hr : Reachable cfg s)
    (hlock : s.wlock.isCall = false) :
    ∃ es s', run cfg s es = some s' ∧ es.all Event.internal = true ∧ s'.calls = s.calls ∧
      ∀ b B, s'.batches b = some B → ∃ code, B.done = some code := by
  obtain ⟨es, s', h1, h2, h3, -, h5⟩ := drains cfg hmax s hr (fresh_none_outside_batchMessages cfg s hr hlock)
  exact ⟨es, s', h1, h2, h3, h5⟩

/-- **everything_completed_when_close_returns** — Close can return only when every batch the writer ever created is
completed: all senders have exited, an exited sender's queue is empty and closed, a closed queue's writer has nothing
attached or pending, and a batch that is not completed would have to be in one of these places (`no_batch_dropped`).
So nothing accepted is left unsent behind a returned Close. -/
theorem everything_completed_when_close_returns (cfg : Cfg) (hmax : 1 ≤ cfg.maxAttempts) (s s' : State) (hr : Reachable cfg s)
    (hs : step cfg s .closeReturn = some s') :
    ∀ b B, s.batches b = some B → ∃ code, B.done = some code := by
  simp only [step] at hs
  repeat' split at hs
  all_goals (first | (cases hs; done) | skip)
  rename_i hg
  obtain ⟨-, -, -, hall⟩ := hg
  intro b B hB
  cases hd : B.done with
  | some code => exact ⟨code, rfl⟩
  | none =>
    exfalso
    obtain ⟨P, hP, hmem⟩ := invLive cfg s hr b B hB hd
    have hlisted := (invSched cfg s hr).pwListed B.pw P hP
    rw [List.all_eq_true] at hall
    have hex := hall B.pw hlisted
    rw [hP] at hex
    have hexited : P.sender = .exited := by simpa using hex
    obtain ⟨hq, hqc⟩ := ((invProg cfg hmax s hr).pw B.pw P hP).exitedEmpty hexited
    obtain ⟨-, hcurr, hpend⟩ := (invClosedQ cfg s hr).closedQ B.pw P hP hqc
    have : P.pipe = [] := by simp [PW.pipe, hexited, Sender.batch?, hq, hcurr, hpend]
    rw [this] at hmem
    cases hmem

/-- **detached_batch_takes_nothing** — a message is appended only to the batch that is attached to its partition writer
and has not been detached: once a batch is handed to the queue (full, timer, Close) nothing is added to it.  (In the
source the append loop of writeMessages and the timer goroutine exclude each other through ptw.mutex:
`C07.events_inside_their_sections`; on traces: monitor `noAddAfterDetach`.) -/
theorem detached_batch_takes_nothing (cfg : Cfg) (s s' : State) (pw b c i size : Nat)
    (hs : step cfg s (.add pw b c i size) = some s') :
    ∃ P B, s.pws pw = some P ∧ s.batches b = some B ∧ P.curr = some b ∧ B.detached = none := by
  simp only [step, stepAdd] at hs
  repeat' split at hs
  all_goals (first | (cases hs; done) | skip)
  rename_i _ P hP _ B hB _ C hC hg
  exact ⟨P, B, hP, hB, hg.2.1, hg.2.2.2.2.2.1⟩

/-! ### BatchTimeout is measured from the creation of the batch (timed model: `tick`, `openedAt`, `linger`) -/

/-- **attached_batch_age_bounded** — in every reachable state of a timed run, a batch that is still attached and whose
linger timer has not fired is at most `linger` (= BatchTimeout + the slack granted to the timer goroutine) old:
`now ≤ openedAt + linger`.  The bound refers to the creation of the batch, not to the last append. -/
theorem attached_batch_age_bounded (cfg : Cfg) (s : State) (hr : Reachable cfg s) (pw : Nat) (P : PW) (hP : s.pws pw = some P)
    (b : Nat) (hc : P.curr = some b) (B : Batch) (hB : s.batches b = some B) :
    B.timerFired = true ∨ cfg.linger = 0 ∨ s.now ≤ s.openedAt b + cfg.linger :=
  invAge cfg s hr pw P hP b hc B hB

/-- **add_only_to_young_batch** — a message is appended only to a batch that is younger than `linger` (or whose timer
has just fired and is about to detach it): a steady trickle of messages cannot keep a batch open. -/
theorem add_only_to_young_batch (cfg : Cfg) (s s' : State) (hr : Reachable cfg s) (pw b c i size : Nat)
    (hs : step cfg s (.add pw b c i size) = some s') :
    ∃ B, s.batches b = some B ∧ (B.timerFired = true ∨ cfg.linger = 0 ∨ s.now ≤ s.openedAt b + cfg.linger) := by
  have hA := invAge cfg s hr
  simp only [step, stepAdd] at hs
  repeat' split at hs
  all_goals (first | (cases hs; done) | skip)
  rename_i _ P hP _ B hB _ C hC hg
  exact ⟨B, hB, hA pw P hP b hg.2.1 B hB⟩

/-- **append_does_not_rearm** — appending a message moves neither the clock nor the opening time of any batch: the
deadline `openedAt + BatchTimeout` of a batch is fixed when it is created. -/
theorem append_does_not_rearm (cfg : Cfg) (s s' : State) (pw b c i size : Nat)
    (hs : step cfg s (.add pw b c i size) = some s') : s'.openedAt = s.openedAt ∧ s'.now = s.now := by
  simp only [step, stepAdd] at hs
  repeat' split at hs
  all_goals (first | (cases hs; done) | skip)
  cases hs
  exact ⟨rfl, rfl⟩

/-- **opened_at_creation** — the opening time of a batch is the clock value at its creation. -/
theorem opened_at_creation (cfg : Cfg) (s s' : State) (pw b : Nat) (hs : step cfg s (.newBatch pw b) = some s') :
    s'.openedAt b = s.now := by
  simp only [step] at hs
  repeat' split at hs
  all_goals (first | (cases hs; done) | skip)
  cases hs
  simp

/-- **timer_armed_only_at_creation** — in the source as it stands the linger timer of a batch is armed in exactly one
place, `newWriteBatch`; nothing re-arms it (regenerated on every run by go/extract/writer). -/
theorem timer_armed_only_at_creation : Gen.timerArmSites = ["newWriteBatch"] := by decide

/-! ### options left unset: the limits in force are the defaults of the accessors -/

/-- **defaults_match_source** — the model's `effBatchSize / effBatchBytes / effMaxAttempts` (applied by the oracle to
the options as configured) are `(*Writer).batchSize / batchBytes / maxAttempts` as they stand in writer.go; an unset
option means 100 messages / 1048576 bytes / 10 attempts.  (`validation_matches_source`: the up-front size check compares
with `batchBytes()`, the limit in force, not with the raw field.) -/
theorem defaults_match_source (n : Nat) :
    Gen.effBatchSize n = Writer.effBatchSize n ∧ Gen.effBatchBytes n = Writer.effBatchBytes n ∧
    Gen.effMaxAttempts n = Writer.effMaxAttempts n := by
  unfold Gen.effBatchSize Gen.effBatchBytes Gen.effMaxAttempts Writer.effBatchSize Writer.effBatchBytes Writer.effMaxAttempts
  by_cases h : n = 0
  · subst h; simp
  · have : n > 0 := Nat.pos_of_ne_zero h
    simp [h, this]

/-- **newWriter_copies_options** — the deprecated constructor `NewWriter(WriterConfig)` takes every option the model
depends on from the WriterConfig field of the same name (regenerated field by field from the Writer literal in
NewWriter): a Writer built through it has the limits its configuration names. -/
theorem newWriter_copies_options :
    ∀ f ∈ ["BatchSize", "BatchBytes", "BatchTimeout", "MaxAttempts", "Async", "Topic", "Balancer", "RequiredAcks",
      "WriteTimeout", "ReadTimeout"], Gen.newWriterMap.lookup f = some f := by decide

theorem default_limits : Writer.effBatchSize 0 = 100 ∧ Writer.effBatchBytes 0 = 1048576 ∧ Writer.effMaxAttempts 0 = 10 := by
  decide

/-! ### the decision logic of the model is the one in the source (regenerated on every run by go/extract/writer) -/

/-- every piece of decision logic the theorems below are stated over could be read from the source -/
theorem source_logic_translated : Gen.untranslatedPieces = [] := by decide

/-- **full_matches_source** — the model's `Batch.full` is `(*writeBatch).full` as it stands in writer.go -/
theorem full_matches_source (cfg : Cfg) (B : Batch) :
    Gen.batchFull B.msgs.length B.bytes cfg.batchSize cfg.batchBytes = B.full cfg := by
  simp [Gen.batchFull, Batch.full]

/-- **nofit_matches_source** — the model's `Batch.nofit` is the refusal condition of `(*writeBatch).add` -/
theorem nofit_matches_source (cfg : Cfg) (B : Batch) (size : Nat) :
    Gen.batchNoFit B.msgs.length B.bytes size cfg.batchSize cfg.batchBytes = B.nofit cfg size := by
  simp [Gen.batchNoFit, Batch.nofit]

/-- **validation_matches_source** — `allFit` is the negation of WriteMessages' `messageTooLarge` condition for every message -/
theorem validation_matches_source (cfg : Cfg) (msgs : List MsgSpec) :
    allFit cfg msgs = msgs.all (fun m => !Gen.tooLarge m.size cfg.batchBytes) := by
  unfold allFit
  congr 1
  funext m
  simp only [Gen.tooLarge, gt_iff_lt]
  by_cases h : m.size ≤ cfg.batchBytes
  · simp [h, Nat.not_lt.mpr h]
  · simp [h, Nat.lt_of_not_le h]

/-- **chooseTopic_matches_source** — the model's topic rule is `(*Writer).chooseTopic` as it stands in writer.go -/
theorem chooseTopic_matches_source (cfg : Cfg) (m : MsgSpec) :
    Gen.chooseTopic cfg.topic m.topic = Writer.chooseTopic cfg m := by
  unfold Gen.chooseTopic Writer.chooseTopic
  by_cases hw : cfg.topic = "" <;> by_cases hm : m.topic = "" <;> simp [hw, hm]

/-! ### non-vacuity: BatchSize 2, BatchBytes 100; three messages of 50, 50, 60 bytes: the first batch closes when
full (2 messages = 100 bytes exactly), the third message waits for the timer -/

def exCfg : Cfg :=
  { batchSize := 2, batchBytes := 100, maxAttempts := 1, async := true, completion := false, topic := "t",
    retriable := fun _ => false }

def exTrace : List Event :=
  [ .enter true, .begin_ 1 [{ size := 50, topic := "" }, { size := 50, topic := "" }, { size := 60, topic := "" }],
    .assign 1 0 ("t", 0), .assign 1 1 ("t", 0), .assign 1 2 ("t", 0), .batch 1, .newPW 1 1 ("t", 0),
    .newBatch 1 1, .add 1 1 1 0 50, .add 1 1 1 1 50, .detach 1 1 .full 0, .qput 1 1 true,
    .newBatch 1 2, .add 1 2 1 2 60, .batched 1, .ret 1 .async,
    .qget 1 (some 1), .attempt 1 1 0, .produce 1 ("t", 0) [(1, 0), (1, 1)] .acked, .attemptDone 1 1 0 0, .complete 1 1 0,
    .timerFire 1 2 true, .detach 1 2 .timer 0, .qput 1 2 true,
    .qget 1 (some 2), .attempt 1 2 0, .produce 1 ("t", 0) [(1, 2)] .acked, .attemptDone 1 2 0 0, .complete 1 2 0 ]

example : ((run exCfg State.init exTrace).map (fun s => (s.log ("t", 0)).map (fun e => (e.msg, e.batch)))) =
    some [((1, 0), 1), ((1, 1), 1), ((1, 2), 2)] := by decide

/-- a call with an oversize message can only be rejected: `assign` is not enabled -/
example : (run exCfg State.init
    [ .enter true, .begin_ 1 [{ size := 50, topic := "" }, { size := 101, topic := "" }], .assign 1 0 ("t", 0) ]).isSome = false := by decide

example : (run exCfg State.init
    [ .enter true, .begin_ 1 [{ size := 50, topic := "" }, { size := 101, topic := "" }], .reject 1 .toolarge 1 ]).isSome = true := by decide

/-- a cancelled synchronous call: WriteMessages returns ctx.Err() while its only batch is still attached; timer, queue
and sender then produce the message all the same (non-vacuity of `cancelled_call_still_flushed`) -/
example : ((run { exCfg with async := false } State.init
    [ .enter true, .begin_ 1 [{ size := 50, topic := "" }], .assign 1 0 ("t", 0), .batch 1, .newPW 1 1 ("t", 0),
      .newBatch 1 1, .add 1 1 1 0 50, .batched 1, .ret 1 .ctx,
      .timerFire 1 1 true, .detach 1 1 .timer 0, .qput 1 1 true, .qget 1 (some 1), .attempt 1 1 0,
      .produce 1 ("t", 0) [(1, 0)] .acked, .attemptDone 1 1 0 0, .complete 1 1 0 ]).map
        (fun s => ((s.log ("t", 0)).map (·.msg), (s.calls 1).map (·.result)))) =
    some ([(1, 0)], some (some .ctx)) := by decide

/-- timed run (linger = 100): the batch is opened at clock 10; the clock may reach 110 while the batch is attached, not
111 — unless its timer has fired (then it is being detached) -/
def exTimed : List Event :=
  [ .enter true, .begin_ 1 [{ size := 50, topic := "" }], .assign 1 0 ("t", 0), .batch 1, .newPW 1 1 ("t", 0),
    .tick 10, .newBatch 1 1, .add 1 1 1 0 50, .batched 1, .ret 1 .async, .tick 110 ]

example : (run { exCfg with linger := 100 } State.init exTimed).isSome = true := by decide
example : (run { exCfg with linger := 100 } State.init (exTimed ++ [.tick 111])).isSome = false := by decide
example : (run { exCfg with linger := 100 } State.init (exTimed ++ [.timerFire 1 1 true, .tick 500])).isSome = true := by decide

end KV.C08
