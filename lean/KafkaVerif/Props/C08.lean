/-
Props/C08.lean — property C08: Writer batches respect the size limits and are flushed without further input.
Property theorems only; invariants and helper lemmas live in Lemmas/WriterInv.lean.

Model: Model/Writer.lean (one LTS for writer.go).  All theorems quantify over every configuration `cfg`
(BatchSize, BatchBytes, MaxAttempts, sync/async, Completion, retry classification) and every reachable
state, i.e. every finite event sequence the LTS accepts (any number of callers, partitions, faults).
-/
import KafkaVerif.Lemmas.WriterInv

namespace KV.C08
open KV KV.Writer

/-- **batch_limits** — every produce request the broker sees (`produce` is enabled only for the batch of an
in-flight attempt) carries exactly the messages of one batch, at most BatchSize of them, at most BatchBytes
bytes in the `Message.totalSize` measure, for the single topic-partition of that batch's partition writer. -/
theorem batch_limits (cfg : Cfg) (s s' : State) (hr : Reachable cfg s) (pw : Nat) (tp : TP) (msgs : List Msg) (out : BrOut)
    (hs : step cfg s (.produce pw tp msgs out) = some s') :
    ∃ b B P k, s.pws pw = some P ∧ P.sender = .attempting b k none ∧ s.batches b = some B ∧
      B.msgs.map (·.msg) = msgs ∧ B.tp = tp ∧ P.tp = tp ∧
      msgs.length ≤ cfg.batchSize ∧ (B.msgs.map (·.size)).sum ≤ cfg.batchBytes := by
  have hI := (inv08 cfg s hr).1
  simp only [step, stepProduce] at hs
  repeat' split at hs
  all_goals (first | (cases hs; done) | skip)
  rename_i _ P hP _ b k hsend _ B hBq hg
  obtain ⟨-, h1, h2, h3⟩ := hg
  have ⟨hl, hb, hsum⟩ := hI _ _ hBq
  refine ⟨b, B, P, k, hP, hsend, hBq, h3, h1, h2, ?_, ?_⟩
  · rw [← h3, List.length_map]; exact hl
  · rw [← hsum]; exact hb

end KV.C08
