/-
Props/C12.lean — Transport routes requests to the right broker at a mutually supported version.

Theorems (all over Model/Routing.lean applied to the tables regenerated from /repo in Gen/Routing.lean):
  selectVersion_optimal     overlap → chosen version = min(clientMax, brokerMax), inside both ranges
  selectVersion_disjoint    what the code does when the ranges do not overlap (nearest client bound)
  negotiated_optimal        the same through the per-connection version map built from an ApiVersions answer
  route_class               ∀ registered API: the class sendRequest realises = the class Kafka designates
  route_leader              produce/fetch: an accepted request goes to the one broker leading every partition
  leaderAll_src / leader_loops_agree / route_leader_src   the loops of produce/fetch/rawproduce Broker(), executed symbolically from the
                            source (Gen.Routing.leaderStep_*), equal the model's leaderAll; route_leader holds of them
  route_leader_mismatch     partitions led by different brokers → the request is refused
  route_listoffsets_leader  a split ListOffsets part goes to its partition's leader
  route_listoffsets_designated … and never to a broker the layout does not designate (unknown leader → control)
  filter_eq_last_refresh    topic-filtered metadata from the cache = restriction of the last answer
  cached_filter_exact       … with the cache's sortedness established by update (normalize_sorted), no side condition
  update_follows            after update(m) the layout and the connection groups are those of m
  conns_invariant           … along every history of updates
  metadata_served_from_cache / metadata_autocreate_decision / metadata_autocreate_unknown / topicsToRefresh_spec / refreshDone_spec
                            roundTrip's metadata arm: served from the cache unless auto-creation meets an unknown topic; what it then waits for
  layout_sources            makeLayout/makePartitions field copies (regenerated tables) agree with the model's
  update_state_writes / failed_first_refresh_is_reported / metadata_after_recovery / refresh_recovers
                            what update writes to the cached state (regenerated); an error from a failed FIRST refresh is
                            reported only until the next successful refresh
  produce_record_format / produce_encoded_for_negotiated_version / prepare_uses_request_version / leave_group_body
                            the body parts Prepare derives from the negotiated version (regenerated): record format
                            (magic) of Produce fits the version for every version; LeaveGroup member id below v3
  split_parts_carry_request_fields / split_options_arrive
                            every sub-request a Split method builds sets every wire field of the request (regenerated table)
  broker_dial_address       the address dialled for a listed broker (regenerated from newBrokerConnGroup) is host:port with an
                            IPv6 literal host in brackets
  layout_omits_internal     makeLayout never lists an internal topic, so refreshMetadata cannot see one appear (observation)
  negotiated_unlisted       an API the broker does not list: version 0 if the client supports it, else refused client-side
  parts_cover_splitters     every Splitter type of the source has a split model (regenerated table, decide)
  split_resources_partition / split_resources_target / split_brokers_cover   DescribeConfigs and ListGroups parts: every resource / broker exactly once, at the right broker
-/
import KafkaVerif.Model.Routing
import KafkaVerif.Lemmas.Routing
import KafkaVerif.Model.Discover
import KafkaVerif.Model.Split
import KafkaVerif.Model.RoundTrip
import KafkaVerif.Spec.FieldMaps
import KafkaVerif.Gen.Mappings

namespace KV.Props.C12
open KV.Routing KV.Gen.Routing
open KV.Spec.Routing (RClass routingClass accepts overlap bestVersion versionOK)

/-! ## version selection -/

/-- When the client's range `[cmin,cmax]` and the range `[bmin,bmax]` advertised by the broker share a
version, `SelectVersion` returns the highest common one, and it lies inside both ranges. -/
theorem selectVersion_optimal (cmin cmax bmin bmax : Int)
    (hc : cmin ≤ cmax) (hb : bmin ≤ bmax) (hov : cmin ≤ bmax ∧ bmin ≤ cmax) :
    selectVersion cmin cmax bmin bmax = min cmax bmax ∧
    bmin ≤ selectVersion cmin cmax bmin bmax ∧ selectVersion cmin cmax bmin bmax ≤ bmax ∧
    cmin ≤ selectVersion cmin cmax bmin bmax ∧ selectVersion cmin cmax bmin bmax ≤ cmax := by
  simp only [selectVersion, KV.Gen.Routing.selectVersionSrc]
  (repeat' split) <;> omega

example : selectVersion 1 5 0 3 = 3 ∧ (1:Int) ≤ 3 ∧ (0:Int) ≤ 5 := by decide

/-- no upper bound above the result is common to both sides -/
theorem selectVersion_highest (cmin cmax bmin bmax v : Int)
    (hc : cmin ≤ cmax) (hb : bmin ≤ bmax) (hov : cmin ≤ bmax ∧ bmin ≤ cmax)
    (hv : cmin ≤ v ∧ v ≤ cmax ∧ bmin ≤ v ∧ v ≤ bmax) :
    v ≤ selectVersion cmin cmax bmin bmax := by
  have := (selectVersion_optimal cmin cmax bmin bmax hc hb hov).1
  omega

/-- The monitor of Spec/Routing agrees: the model's choice always satisfies the version clause. -/
theorem selectVersion_versionOK (cmin cmax bmin bmax : Int) (_hc : cmin ≤ cmax) (hb : bmin ≤ bmax) :
    versionOK cmin cmax bmin bmax (selectVersion cmin cmax bmin bmax) = true := by
  unfold versionOK overlap bestVersion selectVersion KV.Gen.Routing.selectVersionSrc
  by_cases h1 : cmin ≤ bmax <;> by_cases h2 : bmin ≤ cmax <;> simp [h1, h2] <;>
    (repeat' split) <;> (try simp) <;> omega

/-- Ranges that do not overlap: the code answers the client bound nearest to the broker's range
(the property demands nothing here; the request then fails at the broker, not in the client). -/
theorem selectVersion_disjoint (cmin cmax bmin bmax : Int) (hc : cmin ≤ cmax) (hb : bmin ≤ bmax) :
    (bmax < cmin → selectVersion cmin cmax bmin bmax = cmin) ∧
    (cmax < bmin → selectVersion cmin cmax bmin bmax = cmax) := by
  unfold selectVersion KV.Gen.Routing.selectVersionSrc
  constructor <;> intro h <;> (repeat' split) <;> omega

/-- Through the connection's version map: if the ApiVersions answer lists `key` exactly once with range
`[bmin,bmax]` overlapping the client's, the request is written at the highest common version. -/
theorem negotiated_optimal (client : Nat → Int × Int) (pre post : List (Nat × Int × Int)) (key : Nat) (bmin bmax : Int)
    (hpost : ∀ e ∈ post, e.1 ≠ key)
    (hc : (client key).1 ≤ (client key).2) (hb : bmin ≤ bmax)
    (hov : (client key).1 ≤ bmax ∧ bmin ≤ (client key).2) :
    requestVersion client (negotiate client (pre ++ (key, bmin, bmax) :: post)) key
      = some (min (client key).2 bmax) := by
  have hv := Lemmas.Routing.negotiate_lookup client pre post key bmin bmax hpost
  have ho := selectVersion_optimal _ _ bmin bmax hc hb hov
  unfold requestVersion
  simp only [hv]
  have h1 : (decide (selectVersion (client key).1 (client key).2 bmin bmax < (client key).1) ||
      decide (selectVersion (client key).1 (client key).2 bmin bmax > (client key).2)) = false := by
    simp; omega
  rw [ho.1] at h1 ⊢
  simp [h1]

example : requestVersion (fun _ => (1, 5)) (negotiate (fun _ => (1, 5)) [(3, 0, 9), (2, 0, 3), (1, 4, 4)]) 2 = some 3 := by
  decide

/-! ## routing class (regenerated table × Kafka's designation) -/

/-- Every registered request type is routed by `sendRequest` to the class of broker the Kafka protocol
designates for its API (audited APIs; `Spec.routingClass = none` states nothing). -/
theorem route_class :
    ∀ a ∈ apis, ∀ c, routingClass a.apiKey = some c →
      ∃ m, classOf sendRequestCases a = some m ∧ accepts c m = true := by
  decide

/-- the table the theorem ranges over is not trivial -/
example : apis.length ≥ 30 ∧ (apis.filter (fun a => (routingClass a.apiKey).isSome)).length ≥ 25 := by decide

/-! ## leader routing -/

/-- produce / fetch: if `Broker()` accepts the request and names broker `b ≥ 0`, then `b` leads every
requested topic-partition in the layout the transport cached. -/
theorem route_leader (c : Cluster) (tps : List (String × List Int)) (b : Int)
    (hwf : BrokersWF c) (h : leaderAll c tps (-1) = .ok b) :
    ∀ tn ps, (tn, ps) ∈ tps → ∀ p ∈ ps, LedBy c tn p b :=
  Lemmas.Routing.leaderAll_sound c hwf tps (-1) b h (by omega)

/-- consequently two requested partitions with different leaders make `Broker()` refuse the request -/
theorem route_leader_mismatch (c : Cluster) (tps : List (String × List Int))
    (hwf : BrokersWF c) (t1 t2 : String) (ps1 ps2 : List Int) (p1 p2 b1 b2 : Int)
    (h1 : (t1, ps1) ∈ tps) (h2 : (t2, ps2) ∈ tps) (hp1 : p1 ∈ ps1) (hp2 : p2 ∈ ps2)
    (l1 : LedBy c t1 p1 b1) (l2 : LedBy c t2 p2 b2) (hne : b1 ≠ b2) :
    ∀ b, leaderAll c tps (-1) ≠ .ok b := by
  intro b hb
  have a1 := route_leader c tps b hwf hb t1 ps1 h1 p1 hp1
  have a2 := route_leader c tps b hwf hb t2 ps2 h2 p2 hp2
  exact hne ((Lemmas.Routing.ledBy_unique c l1 a1).trans (Lemmas.Routing.ledBy_unique c a2 l2))

/-- … and the whole `sendRequest`: the request reaches a connection of that leader's group when the pool
has one (which `conns_invariant` guarantees for every broker of the layout). -/
theorem route_leader_target (a : ApiMethods) (c : Cluster) (conns : List (Int × Addr)) (r : ReqInfo) (b : Int) (addr : Addr)
    (ha : firstCase sendRequestCases a = some .broker) (hb : a.broker = .leaderAll)
    (hwf : BrokersWF c) (h : route sendRequestCases a c conns r = .broker b addr) :
    ∀ tn ps, (tn, ps) ∈ r.tps → ∀ p ∈ ps, LedBy c tn p b := by
  unfold route at h
  simp only [ha, brokerMethod, hb] at h
  cases hl : leaderAll c r.tps (-1) with
  | error e => simp [hl, KV.Routing.ofExcept] at h
  | ok id =>
    simp only [hl, KV.Routing.ofExcept, sendTarget] at h
    split at h
    · split at h
      · injection h with h _; subst h; exact route_leader c r.tps id hwf hl
      · cases h
    · cases h

/-- A split ListOffsets part (one topic, one partition) goes to that partition's leader. -/
theorem route_listoffsets_leader (c : Cluster) (tn : String) (p : Int) (t : Topic) (part : Partition) (br : Broker)
    (ht : c.topics.lookup tn = some t)
    (hp : t.partitions.find? (fun e => e.2.id == p) = some (p, part))
    (hl : c.brokers.lookup part.leader = some br) :
    leaderFirst c [(tn, [p])] = .ok br.id := by
  simp [leaderFirst, listOffsetsBroker, lookupD, ht, hp, hl]

/-- … and a ListOffsets part is never sent to a broker the layout does not designate: the target is the listed
leader of the part's partition, or −1 (the control connection; any broker then answers with the error code)
when the topic, the partition or the leader is unknown.  (Before fix D20 an unknown leader read the zero
broker and the part went to broker 0.) -/
theorem route_listoffsets_designated (c : Cluster) (tn : String) (p : Int) (ps : List Int)
    (rest : List (String × List Int)) (b : Int) (h : leaderFirst c ((tn, p :: ps) :: rest) = .ok b) :
    b = -1 ∨ ∃ e br, (lookupD c.topics tn Topic.zero).partitions.find? (fun e => e.2.id == p) = some e ∧
      c.brokers.lookup e.2.leader = some br ∧ br.id = b := by
  simp only [leaderFirst, listOffsetsBroker] at h
  cases he : (lookupD c.topics tn Topic.zero).partitions.find? (fun e => e.2.id == p) with
  | none => simp [he] at h; exact Or.inl h.symm
  | some e =>
    cases hbr : c.brokers.lookup e.2.leader with
    | none => simp [he, hbr] at h; exact Or.inl h.symm
    | some br => simp [he, hbr] at h; exact Or.inr ⟨e, br, rfl, hbr, h⟩

example : (match leaderFirst ⟨0, [(0, ⟨0, "b0", 9092, ""⟩), (1, ⟨1, "b1", 9092, ""⟩)],
    [("t", ⟨"t", 0, [(0, ⟨0, 0, 7, [], [], []⟩)]⟩)]⟩ [("t", [0])] with | .ok b => b | .error _ => 0) = -1 := by decide



/-! ## the metadata cache -/

open KV.Lemmas.Routing (SortedTopics ConnsInv)

/-- **filter_eq_last_refresh**: a topic-filtered metadata request answered from the cache returns, for every
requested name in request order, the topic entry of the cached answer with that name (or the
UnknownTopicOrPartition placeholder) — i.e. the restriction of what the brokers answered at the last refresh;
everything else of the answer (brokers, controller, cluster id) is passed through.  The cache is sorted by
topic name (`update` normalises it), which is what the bisection needs. -/
theorem filter_eq_last_refresh (res : MResponse) (names : List String) (hs : SortedTopics res.topics) :
    filterMetadata (some names) res =
      { res with topics := names.map fun n => (res.topics.find? (fun t => t.name == n)).getD (unknownTopic n) } := by
  simp only [filterMetadata]
  congr 1
  apply List.map_congr_left
  intro n _
  exact Lemmas.Routing.findTopic_correct res.topics hs n


/-- the topics of the normalised answer are exactly the answer's topics, each with its partitions sorted -/
theorem normalize_topics_mem (m : MResponse) (t : MTopic) :
    t ∈ (normalize m).topics ↔
      ∃ t0 ∈ m.topics, t = { t0 with partitions := sortBy (fun a b => decide (a.index < b.index)) t0.partitions } := by
  simp only [normalize, List.mem_map, Lemmas.Routing.mem_sortBy]
  constructor
  · rintro ⟨t0, h0, rfl⟩; exact ⟨t0, h0, rfl⟩
  · rintro ⟨t0, h0, rfl⟩; exact ⟨t0, h0, rfl⟩

/-- **cached_filter_exact** (`filter_eq_last_refresh` without a side condition): after a refresh that delivered
`m` (topic names pairwise distinct, as brokers answer), a topic-filtered metadata request is answered from the
cache with, for every requested name in request order, the entry of the (normalised) answer `m` with that name,
or the UnknownTopicOrPartition placeholder — the sortedness the bisection needs is established by `update` itself. -/
theorem cached_filter_exact (s : PoolState) (m : MResponse) (names : List String)
    (hnd : (m.topics.map (·.name)).Nodup) :
    (update s (some m) false).metadata = some (normalize m) ∧
    filterMetadata (some names) (normalize m) =
      { normalize m with topics := names.map fun n =>
          ((normalize m).topics.find? (fun t => t.name == n)).getD (unknownTopic n) } :=
  ⟨rfl, filter_eq_last_refresh (normalize m) names (Lemmas.Routing.normalize_sorted m hnd)⟩

/-- an unfiltered request gets the whole cached answer -/
theorem filter_all (res : MResponse) : filterMetadata none res = res := rfl

example : SortedTopics [⟨0, "a", false, []⟩, ⟨0, "ab", false, []⟩, ⟨0, "b", false, []⟩] := by
  unfold SortedTopics; decide

/-- the bisection finds exactly the entries a linear scan finds (concrete instance, incl. a missing name) -/
example :
    (filterMetadata (some ["b", "zz", "a"]) ⟨0, [], "", 0, [⟨0, "a", false, []⟩, ⟨0, "ab", false, []⟩, ⟨0, "b", true, []⟩]⟩).topics
      = [⟨0, "b", true, []⟩, unknownTopic "zz", ⟨0, "a", false, []⟩] := by decide

/-! ## refresh -/

/-- the source compares the cached and the new broker entry as whole structs (id, host, port, rack) — regenerated
fact; comparing fewer fields (e.g. only the host) would leave a re-registered broker's group at its old address -/
theorem update_compares_whole_broker : updateCompare = .whole := by decide

/-- the source applies the delete set before the add set (a changed broker is in both and must end up with its new
group), and classifies ids exactly as the model's explicit sets do (`addSet_eq`, `delSet_eq` over the regenerated
`updateNewEntry` / `updateOldEntry`) -/
theorem update_deletes_before_adding : updateApplyOrder = [.del, .add] := by decide

/-- the source sends over a broker's own connection group exactly for ids ≥ 0 (0 is a valid broker id) -/
theorem broker_conn_guard (id : Int) : usesBrokerConn id = decide (0 ≤ id) := by
  unfold usesBrokerConn; congr 1

/-- **update_follows**: after a successful refresh with answer `m` the cached answer is `m` (normalised), the
layout is the one built from it, and the pool has a connection group for exactly the brokers of `m`, each
dialling the host:port that `m` gives for its broker (`ConnsInv`; given it held for the previous layout) — so
every later route is computed from `m`, including the address a moved or re-registered broker now has. -/
theorem update_follows (s : PoolState) (m : MResponse) (h : ConnsInv s) :
    (update s (some m) false).metadata = some (normalize m) ∧
    (update s (some m) false).layout = makeLayout (normalize m) ∧
    (update s (some m) false).err = false ∧
    ConnsInv (update s (some m) false) :=
  ⟨rfl, rfl, rfl, Lemmas.Routing.update_connsInv update_compares_whole_broker update_deletes_before_adding s (some m) false h⟩

/-- a failed refresh never replaces a known cluster view -/
theorem update_error_keeps_known (s : PoolState) (m : Option MResponse) (h : s.metadata.isSome = true) :
    update s m true = s := by
  simp [update, h, updateErrorKeepsKnown]

/-- **conns_invariant**: along every history of refreshes (successful or failed, any answers) the connection
groups are exactly the brokers of the cached layout: a request routed to a broker of the layout always finds
its group, and no group outlives its broker's removal. -/
theorem conns_invariant (hist : List (Option MResponse × Bool)) :
    ConnsInv (hist.foldl (fun s e => update s e.1 e.2) {}) := by
  suffices h : ∀ s, ConnsInv s → ConnsInv (hist.foldl (fun s e => update s e.1 e.2) s) by
    apply h
    intro id
    simp [Cluster.zero, List.lookup]
  induction hist with
  | nil => intro s hs; exact hs
  | cons e es ih =>
    intro s hs
    exact ih _ (Lemmas.Routing.update_connsInv update_compares_whole_broker update_deletes_before_adding s e.1 e.2 hs)

/-- after a leader moved (or a broker re-registered at another host/port) and the refresh delivered `m`, a
produce/fetch request for partitions that `m` says are led by broker `b` is sent to `b` at the address `m` gives -/
theorem route_follows_update (a : ApiMethods) (s : PoolState) (m : MResponse) (r : ReqInfo) (b : Int) (br : Broker)
    (h : ConnsInv s) (ha : firstCase sendRequestCases a = some .broker) (hb : a.broker = .leaderAll)
    (hl : leaderAll (makeLayout (normalize m)) r.tps (-1) = .ok b) (hb0 : 0 ≤ b)
    (hin : (makeLayout (normalize m)).brokers.lookup b = some br) :
    route sendRequestCases a (update s (some m) false).layout (update s (some m) false).conns r
      = .broker b (br.host, br.port) := by
  have hf := update_follows s m h
  have hc : (update s (some m) false).conns.lookup b = some (br.host, br.port) := by
    rw [hf.2.2.2 b, hf.2.1, hin]; rfl
  unfold route
  simp only [ha, brokerMethod, hb, hf.2.1, hl, KV.Routing.ofExcept, sendTarget, hc]
  simp [usesBrokerConn, hb0]

/-- a broker that keeps id and host but re-registers on another port gets a new group at the new port -/
example :
    let m1 : MResponse := ⟨0, [⟨1, "h1", 9092, ""⟩, ⟨2, "h2", 9092, ""⟩], "", 1, []⟩
    let m2 : MResponse := ⟨0, [⟨1, "h1", 9093, ""⟩, ⟨2, "h2", 9092, ""⟩], "", 1, []⟩
    (update (update {} (some m1) false) (some m2) false).conns = [(2, ("h2", 9092)), (1, ("h1", 9093))] := by
  decide

end KV.Props.C12

/-! ## the refresh loop (transport.go discover) -/

namespace KV.Props.C12
open KV.Routing KV.Gen.Routing KV.Discover
open KV.Lemmas.Routing (ConnsInv)

/-- the guards regenerated from the source leave the loop only through the pool's own context -/
theorem discover_exits_safe : SafeGuards discoverExits := by
  unfold SafeGuards; decide

theorem safe_flags (guards : List ExitGuard) (h : SafeGuards guards) :
    ExitGuard.errIsOtherCtx ∉ guards ∧ ExitGuard.other ∉ guards ∧ ExitGuard.otherChan ∉ guards := by
  refine ⟨?_, ?_, ?_⟩ <;>
  · intro hc
    rcases h _ hc with h | h <;> cases h

/-- one step without `close` keeps the loop alive (and the pool open) -/
theorem step_survives (guards : List ExitGuard) (h : SafeGuards guards) (s s' : DState) (e : DEvent)
    (hs : step guards s e = some s') (halive : s.alive = true) (hne : e.isClose = false) : s'.alive = true := by
  obtain ⟨h1, h2, h3⟩ := safe_flags guards h
  cases e with
  | close => simp [DEvent.isClose] at hne
  | tick | connFail | reqError | timeout =>
    simp only [step] at hs
    split at hs
    · cases hs; simp [exitsOnWake, exitsOnError, h1, h2, h3]
    · cases hs
  | answer m =>
    simp only [step] at hs
    split at hs
    · cases hs; exact halive
    · cases hs

/-- **refresh_loop_survives_faults**: for every sequence of refresh outcomes — answers, failed dials, i/o
errors, dropped connections, requests that are never answered and run into the per-request deadline, in any
number and order — the refresh goroutine is still in its loop, unless the pool itself was closed. -/
theorem refresh_loop_survives_faults (es : List DEvent) (s s' : DState)
    (hrun : run discoverExits s es = some s') (halive : s.alive = true)
    (hnoclose : ∀ e ∈ es, e.isClose = false) : s'.alive = true := by
  induction es generalizing s with
  | nil => simp only [run] at hrun; cases hrun; exact halive
  | cons e es ih =>
    simp only [run] at hrun
    cases hstep : step discoverExits s e with
    | none => simp [hstep] at hrun
    | some s1 =>
      simp only [hstep, Option.bind] at hrun
      exact ih s1 hrun (step_survives _ discover_exits_safe s s1 e hstep halive (hnoclose e List.mem_cons_self))
        (fun x hx => hnoclose x (List.mem_cons_of_mem _ hx))

/-- every step preserves "each connection group dials the address the cached metadata gives" -/
theorem step_connsInv (guards : List ExitGuard) (s s' : DState) (e : DEvent)
    (hs : step guards s e = some s') (h : ConnsInv s.pool) : ConnsInv s'.pool := by
  cases e <;> simp only [step] at hs <;> split at hs <;> (try cases hs) <;>
    first | exact h | exact Lemmas.Routing.update_connsInv update_compares_whole_broker update_deletes_before_adding _ _ _ h

theorem run_connsInv (guards : List ExitGuard) (es : List DEvent) (s s' : DState)
    (hrun : run guards s es = some s') (h : ConnsInv s.pool) : ConnsInv s'.pool := by
  induction es generalizing s with
  | nil => simp only [run] at hrun; cases hrun; exact h
  | cons e es ih =>
    simp only [run] at hrun
    cases hstep : step guards s e with
    | none => simp [hstep] at hrun
    | some s1 =>
      simp only [hstep, Option.bind] at hrun
      exact ih s1 hrun (step_connsInv guards s s1 e hstep h)

/-- **refresh_after_faults** (`update_follows` composed over the loop): after any fault history without `close`
that leaves the loop waiting, the next timer tick / forced wake followed by an answer `m` is accepted, and then
the cached layout is `m`'s and every connection group dials the address `m` gives — so a leader move reported by
`m` is followed however many refreshes failed before. -/
theorem refresh_after_faults (es : List DEvent) (s s' : DState) (m : MResponse)
    (hrun : run discoverExits s es = some s') (halive : s.alive = true) (hopen : s'.closed = false)
    (hphase : s'.phase = .waiting) (hnoclose : ∀ e ∈ es, e.isClose = false) (hinv : ConnsInv s.pool) :
    ∃ s'', run discoverExits s' [.tick, .answer m] = some s'' ∧ s''.alive = true ∧
      s''.pool.layout = makeLayout (normalize m) ∧ s''.pool.metadata = some (normalize m) ∧ ConnsInv s''.pool := by
  have ha := refresh_loop_survives_faults es s s' hrun halive hnoclose
  have hi := run_connsInv discoverExits es s s' hrun hinv
  obtain ⟨_, h2, h3⟩ := safe_flags discoverExits discover_exits_safe
  refine ⟨{ s' with phase := .waiting, alive := true, pool := update s'.pool (some m) false }, ?_, rfl, ?_, ?_, ?_⟩
  · simp [run, step, ha, hopen, hphase, exitsOnWake, h2, h3]
  · exact (update_follows s'.pool m hi).2.1
  · exact (update_follows s'.pool m hi).1
  · exact (update_follows s'.pool m hi).2.2.2

/-- a refresh that fails (dial error, i/o error, timeout) never replaces a known cluster view -/
theorem faults_keep_known_view (s s' : DState) (e : DEvent) (hs : step discoverExits s e = some s')
    (hknown : s.pool.metadata.isSome = true) (hfault : ∀ m, e ≠ .answer m) :
    s'.pool = s.pool := by
  cases e with
  | answer m => exact absurd rfl (hfault m)
  | tick | close =>
    simp only [step] at hs
    split at hs <;> cases hs <;> rfl
  | connFail | reqError | timeout =>
    simp only [step] at hs
    split at hs
    · cases hs; exact update_error_keeps_known s.pool none hknown
    · cases hs

/-- a stalled request followed by a late leader move: the loop is alive and the move is picked up -/
example : (run discoverExits {} [.tick, .answer ⟨0, [⟨1, "b1", 9092, ""⟩], "", 1, []⟩, .tick, .timeout, .connFail,
    .tick, .reqError, .tick]).map (fun s => (s.alive, s.phase)) = some (true, .requesting) := by decide

/-- with a guard on the per-request context (the shape of seeded change C12-m3) one timeout ends the loop -/
example : (run [.errIsOtherCtx, .poolDone] {} [.tick, .timeout]).map (·.alive) = some false := by decide

/-! ## split requests (transport.go roundTrip, `case protocol.Splitter`) -/

section splits
open KV.Split

/-- every request type that implements Splitter in the source has a split model (nothing is left untranslated),
and no other type is split -/
theorem parts_cover_splitters :
    ∀ a ∈ apis, (parts roundTripCases a Cluster.zero [] {}).isSome = a.split := by decide

/-- DescribeConfigs: the parts carry every resource exactly once — each broker resource alone in its own part
(in request order), all other resources together in one last part -/
theorem split_resources_partition (rs : List (Int × String × Option Int)) :
    (splitResources rs).flatMap (·.resources) = rs.filter isBrokerResource ++ rs.filter (fun r => !isBrokerResource r) ∧
    ((splitResources rs).flatMap (·.resources)).Perm rs ∧
    (∀ p ∈ splitResources rs, (∃ r, isBrokerResource r = true ∧ p.resources = [r]) ∨
      (∀ r ∈ p.resources, isBrokerResource r = false)) := by
  have h1 : (splitResources rs).flatMap (·.resources)
      = rs.filter isBrokerResource ++ rs.filter (fun r => !isBrokerResource r) := by
    unfold splitResources
    rw [List.flatMap_append]
    congr 1
    · induction rs.filter isBrokerResource with
      | nil => rfl
      | cons x xs ih => simp [List.flatMap_cons, ih]
    · split
      · next h => simp [List.isEmpty_iff.mp h]
      · simp
  refine ⟨h1, h1 ▸ List.filter_append_perm _ _, ?_⟩
  intro p hp
  unfold splitResources at hp
  rcases List.mem_append.mp hp with hp | hp
  · obtain ⟨r, hr, rfl⟩ := List.mem_map.mp hp
    exact Or.inl ⟨r, (List.mem_filter.mp hr).2, rfl⟩
  · right
    split at hp
    · cases hp
    · rcases List.mem_singleton.mp hp with rfl
      intro r hr
      simpa using (List.mem_filter.mp hr).2

/-- a broker-resource part is sent to the broker it names (when that broker is listed) -/
theorem split_resources_target (c : Cluster) (id : Int) (b : Broker) (hb : c.brokers.lookup id = some b) :
    resourceBroker c [(4, some id)] = .ok b.id := by
  simp [resourceBroker, lookupD, hb]

/-- ListGroups: one part per broker of the layout; with a well-formed layout and the pool invariant every part
reaches its broker at the metadata's address — each broker is asked exactly once -/
theorem split_brokers_cover (a : ApiMethods) (c : Cluster) (conns : List (Int × Addr))
    (ha : firstCase sendRequestCases a = some .broker) (hf : a.broker = .field)
    (hwf : BrokersWF c) (hinv : ∀ id, conns.lookup id = (c.brokers.lookup id).map Broker.addr) :
    (splitBrokers c).length = c.brokers.length ∧
    ∀ k b, c.brokers.lookup k = some b →
      route sendRequestCases a c conns { field := b.id } = .broker k b.addr := by
  refine ⟨by simp [splitBrokers], ?_⟩
  intro k b hkb
  obtain ⟨hid, hk0⟩ := hwf k b hkb
  unfold route
  simp only [ha, brokerMethod, hf, KV.Routing.ofExcept, sendTarget, hid, lookupD, hkb, Option.getD]
  simp [usesBrokerConn, hk0, hinv k, hkb]

end splits

/-! ## metadata requests through roundTrip -/

section roundtrip
open KV.RoundTrip
open KV.Lemmas.Routing (SortedTopics)

/-- **metadata_served_from_cache**: without AllowAutoTopicCreation a metadata request never reaches a broker:
it is answered with the cached (last refreshed) answer restricted to the requested topics. -/
theorem metadata_served_from_cache (s : PoolState) (cached : MResponse) (names : Option (List String))
    (herr : s.err = false) (hm : s.metadata = some cached) :
    metadataDecision s ⟨names, false⟩ = .fromCache (filterMetadata names cached) := by
  simp [metadataDecision, herr, hm]

/-- with AllowAutoTopicCreation the broker is asked exactly when a requested topic is unknown to the cache
(or cached with UnknownTopicOrPartition) -/
theorem metadata_autocreate_decision (s : PoolState) (cached : MResponse) (names : Option (List String))
    (herr : s.err = false) (hm : s.metadata = some cached) :
    (metadataDecision s ⟨names, true⟩ = .askBroker ↔
      ∃ t ∈ (filterMetadata names cached).topics, t.error = errUnknownTopic) ∧
    ((¬ ∃ t ∈ (filterMetadata names cached).topics, t.error = errUnknownTopic) →
      metadataDecision s ⟨names, true⟩ = .fromCache (filterMetadata names cached)) := by
  simp only [metadataDecision, herr, hm, Bool.false_eq_true, ↓reduceIte, Bool.true_and]
  by_cases h : (filterMetadata names cached).topics.any (fun t => t.error == errUnknownTopic) = true
  · have hex : ∃ t ∈ (filterMetadata names cached).topics, t.error = errUnknownTopic := by
      obtain ⟨t, ht, he⟩ := List.any_eq_true.mp h
      exact ⟨t, ht, by simpa using he⟩
    simp [h, hex]
  · have hnex : ¬ ∃ t ∈ (filterMetadata names cached).topics, t.error = errUnknownTopic := by
      rintro ⟨t, ht, he⟩
      exact h (List.any_eq_true.mpr ⟨t, ht, by simpa using he⟩)
    simp [h, hnex]

/-- a requested name that is not in the (sorted) cache makes an auto-creating request go to the broker -/
theorem metadata_autocreate_unknown (s : PoolState) (cached : MResponse) (names : List String) (n : String)
    (herr : s.err = false) (hm : s.metadata = some cached) (hs : SortedTopics cached.topics)
    (hn : n ∈ names) (habs : ∀ t ∈ cached.topics, t.name ≠ n) :
    metadataDecision s ⟨some names, true⟩ = .askBroker := by
  apply (metadata_autocreate_decision s cached (some names) herr hm).1.mpr
  rw [filter_eq_last_refresh cached names hs]
  refine ⟨unknownTopic n, ?_, rfl⟩
  simp only [List.mem_map]
  refine ⟨n, hn, ?_⟩
  have : cached.topics.find? (fun t => t.name == n) = none := by
    apply List.find?_eq_none.mpr
    intro t ht
    simpa using habs t ht
  simp [this]

/-- only topics that were created without error are waited for (issues 672 / 806 of the library) -/
theorem topicsToRefresh_spec (topics : List (String × Int)) (t : String) :
    t ∈ topicsToRefresh topics ↔ (t, 0) ∈ topics := by
  simp only [topicsToRefresh, List.mem_map, List.mem_filter]
  constructor
  · rintro ⟨⟨n, e⟩, ⟨hm, he⟩, rfl⟩
    have : e = 0 := by simpa using he
    subst this; exact hm
  · intro h; exact ⟨(t, 0), ⟨h, by simp⟩, rfl⟩

theorem refreshDone_spec (layout : Cluster) (expect : List String) :
    refreshDone layout expect = true ↔ ∀ t ∈ expect, ∃ x, layout.topics.lookup t = some x := by
  simp only [refreshDone, List.all_eq_true, Option.isSome_iff_exists]

end roundtrip

/-! ## regenerated field copies of makeLayout / makePartitions -/

section fieldmaps
open KV.Spec.FieldMaps KV.Gen.Mappings

/-- makeLayout / makePartitions copy each routing-relevant field from the metadata field the model's `makeLayout`
copies it from (tables regenerated from transport.go; tolerant to locals, see Spec/FieldMaps.lean) -/
theorem layout_sources :
    allAgree makeLayout_Broker layoutBroker = true ∧ allAgree makeLayout_Cluster layoutCluster = true ∧
    allAgree makeLayout_Topic layoutTopic = true ∧ allAgree makePartitions_Partition layoutPartition = true ∧
    allAgree filterMetadataResponse_ResponseTopic filterPlaceholder = true := by decide

end fieldmaps

/-! ## the leader loops regenerated by symbolic execution -/

theorem leaderParts_src (c : Cluster) (t : Topic) (ps : List Int) (cur : Int) :
    leaderPartsWith leaderStep_produce c t ps cur = leaderParts c t ps cur := by
  induction ps generalizing cur with
  | nil => rfl
  | cons p ps ih =>
    simp only [leaderPartsWith, leaderParts, leaderStep_produce]
    cases hp : t.partitions.lookup p with
    | none => simp [toRouteErr]
    | some part =>
      simp only [Option.map_some]
      cases hb : c.brokers.lookup part.leader with
      | none => simp [toRouteErr]
      | some b =>
        simp only [Option.map_some]
        by_cases h1 : cur < 0
        · simp [h1, ih]
        · by_cases h2 : b.id = cur
          · simp [h1, h2, ih]
          · simp [h1, h2, toRouteErr]

/-- **the leader loops of the source are the model's**: folding the symbolically executed iteration of
produce's `Broker()` over a request equals `leaderAll`, from the initial value the source uses -/
theorem leaderAll_src (c : Cluster) (tps : List (String × List Int)) (cur : Int) :
    leaderAllWith leaderTopic_produce leaderStep_produce c tps cur = leaderAll c tps cur := by
  induction tps generalizing cur with
  | nil => rfl
  | cons tp rest ih =>
    obtain ⟨tn, ps⟩ := tp
    simp only [leaderAllWith, leaderAll, leaderTopic_produce]
    cases ht : c.topics.lookup tn with
    | none => simp [toRouteErr]
    | some t =>
      simp only [Option.isSome_some, ↓reduceIte, Option.getD_some, leaderParts_src]
      cases leaderParts c t ps cur with
      | error e => rfl
      | ok cur' => exact ih cur'

/-- fetch and rawproduce use the very same iteration, prologue and initial value -/
theorem leader_loops_agree :
    leaderStep_fetch = leaderStep_produce ∧ leaderStep_rawproduce = leaderStep_produce ∧
    leaderTopic_fetch = leaderTopic_produce ∧ leaderTopic_rawproduce = leaderTopic_produce ∧
    leaderInit_fetch = leaderInit_produce ∧ leaderInit_rawproduce = leaderInit_produce ∧ leaderInit_produce = -1 :=
  ⟨rfl, rfl, rfl, rfl, rfl, rfl, rfl⟩

/-- **route_leader over the regenerated loops**: whatever produce / fetch / rawproduce `Broker()` accepts, its
target leads every requested partition -/
theorem route_leader_src (c : Cluster) (tps : List (String × List Int)) (b : Int) (hwf : BrokersWF c)
    (h : leaderAllWith leaderTopic_produce leaderStep_produce c tps leaderInit_produce = .ok b) :
    ∀ tn ps, (tn, ps) ∈ tps → ∀ p ∈ ps, LedBy c tn p b := by
  rw [leaderAll_src] at h
  exact route_leader c tps b hwf h

/-! ## internal topics and unlisted APIs -/

section misc
open KV.RoundTrip KV.Lemmas.Routing

theorem layout_topics_foldl_other (l : List MTopic) (acc : List (String × Topic)) (k : String)
    (h : ∀ t ∈ l, t.internal = false → t.name ≠ k) :
    (l.foldl (fun acc t => if t.internal then acc else ainsert acc t.name ⟨t.name, t.error, makePartitions t.partitions⟩) acc).lookup k
      = acc.lookup k := by
  induction l generalizing acc with
  | nil => rfl
  | cons t ts ih =>
    simp only [List.foldl_cons]
    rw [ih _ (fun x hx => h x (List.mem_cons_of_mem _ hx))]
    by_cases hi : t.internal = true
    · simp [hi]
    · have hf : t.internal = false := by simpa using hi
      simp only [hf, Bool.false_eq_true, ↓reduceIte]
      exact lookup_ainsert_other acc t.name k _ (fun hk => h t List.mem_cons_self hf hk.symm)

/-- **the layout never lists an internal topic** (makeLayout skips `IsInternal`), so `refreshMetadata` can never see
one appear: a CreateTopics / auto-creating Metadata answer that names an internal topic without error makes roundTrip
wait until the caller's context ends (observation replayed on the real code; outside C12's clauses) -/
theorem layout_omits_internal (m : MResponse) (t : MTopic) (_ht : t ∈ m.topics) (_hint : t.internal = true)
    (hnd : ∀ u ∈ m.topics, u.internal = false → u.name ≠ t.name) :
    (makeLayout m).topics.lookup t.name = none ∧ refreshDone (makeLayout m) [t.name] = false := by
  have h1 : (makeLayout m).topics.lookup t.name = none := by
    simp only [makeLayout]
    rw [layout_topics_foldl_other m.topics [] t.name hnd]
    rfl
  exact ⟨h1, by simp [refreshDone, h1]⟩

/-- an API the broker does not list at all: the connection's version map has no entry, the request is written at
version 0 when the client supports version 0 and refused client-side otherwise (no range was advertised, so the
property demands nothing) -/
theorem negotiated_unlisted (client : Nat → Int × Int) (table : List (Nat × Int × Int)) (key : Nat)
    (h : ∀ e ∈ table, e.1 ≠ key) :
    requestVersion client (negotiate client table) key
      = if 0 < (client key).1 ∨ (client key).2 < 0 then none else some 0 := by
  have hv : negotiatedVersion (negotiate client table) key = 0 := by
    unfold negotiatedVersion negotiate lookupD
    rw [negotiate_foldl_other client table key h]
    rfl
  unfold requestVersion
  simp only [hv]
  by_cases h1 : 0 < (client key).1 <;> by_cases h2 : (client key).2 < 0 <;> simp [h1, h2] <;> omega

end misc


/-! ## recovery after a failed first refresh -/

section recovery
open KV.RoundTrip KV.Discover
open KV.Lemmas.Routing (ConnsInv)

/-- what `update` writes to the cached state (regenerated from transport.go): a failed refresh keeps a known view and
otherwise stores the error; a successful one installs metadata and layout and clears the error -/
theorem update_state_writes :
    updateErrorKeepsKnown = true ∧ updateErrorStoresErr = true ∧ updateSuccessSetsMetadata = true ∧
    updateSuccessSetsLayout = true ∧ updateSuccessClearsErr = true := by decide

/-- a failed refresh while nothing is cached yet makes metadata requests fail with that error … -/
theorem failed_first_refresh_is_reported (s : PoolState) (hm : s.metadata = none) (q : MetaReq) :
    metadataDecision (update s none true) q = .cacheError := by
  simp [metadataDecision, update, hm, updateErrorKeepsKnown, updateErrorStoresErr]

/-- **metadata_after_recovery**: … but only until the next successful refresh: whatever state the pool was in (in
particular with the error of a failed first refresh), after `update(m)` a metadata request is answered from `m`
again (and never with the stale error) -/
theorem metadata_after_recovery (s : PoolState) (m : MResponse) (names : Option (List String)) :
    metadataDecision (update s (some m) false) ⟨names, false⟩ = .fromCache (filterMetadata names (normalize m)) := by
  simp [metadataDecision, update, updateSuccessClearsErr, updateSuccessSetsMetadata]

/-- over the refresh loop: any history of faults (also before the first success), then a tick and an answer `m`:
the loop is alive, the error is gone and metadata requests are served from `m` -/
theorem refresh_recovers (es : List DEvent) (s s' : DState) (m : MResponse) (names : Option (List String))
    (hrun : run discoverExits s es = some s') (halive : s.alive = true) (hopen : s'.closed = false)
    (hphase : s'.phase = .waiting) (hnoclose : ∀ e ∈ es, e.isClose = false) (hinv : ConnsInv s.pool) :
    ∃ s'', run discoverExits s' [.tick, .answer m] = some s'' ∧ s''.alive = true ∧ s''.pool.err = false ∧
      metadataDecision s''.pool ⟨names, false⟩ = .fromCache (filterMetadata names (normalize m)) := by
  obtain ⟨s'', hr, ha, _, _, _⟩ := refresh_after_faults es s s' m hrun halive hopen hphase hnoclose hinv
  have hs : s''.pool = update s'.pool (some m) false := by
    have hal := refresh_loop_survives_faults es s s' hrun halive hnoclose
    simp [run, step, hal, hopen, hphase, exitsOnWake, discoverExits] at hr
    rw [← hr]
  refine ⟨s'', hr, ha, ?_, ?_⟩
  · rw [hs]; simp [update, updateSuccessClearsErr]
  · rw [hs]; exact metadata_after_recovery s'.pool m names

/-- the very scenario: the first refresh fails (dial error), the second succeeds -/
example : (run discoverExits {} [.connFail, .tick, .answer ⟨0, [⟨1, "b1", 9092, ""⟩], "", 1, []⟩]).map
    (fun s => (s.alive, s.pool.err, s.pool.metadata.isSome)) = some (true, false, true) := by decide

end recovery

/-! ## encoded with the negotiated version: the body parts `Prepare` derives from it -/

section prepare
open KV.Spec.Routing (magicOK leaveGroupBodyOK)

/-- **produce_record_format**: for EVERY API version the record format `Prepare` picks (regenerated from
protocol/produce/produce.go) is the one Kafka accepts in a Produce request of that version: message sets (magic 1)
below v3, record batches (magic 2) from v3 on -/
theorem produce_record_format (v : Int) : magicOK v (produceMagic v 0) = true := by
  unfold magicOK produceMagic produceRecordVersion
  by_cases h : v < 3 <;> simp [h]

/-- … it is applied to every partition of every topic, and with the version that goes into the request header
(protocol/conn.go RoundTrip), i.e. the connection's negotiated version of the Produce key -/
theorem prepare_uses_request_version :
    produceCoversEveryPartition = true ∧ preparedWithRequestVersion = true ∧
    preparedPackages = ["leavegroup", "produce"] := by decide

/-- **produce_encoded_for_negotiated_version**: whatever the broker advertised, the Produce request is sent at the
negotiated version and its record sets are in the format of THAT version -/
theorem produce_encoded_for_negotiated_version (client : Nat → Int × Int) (table : List (Nat × Int × Int)) (v : Int)
    (_ : requestVersion client (negotiate client table) 0 = some v) : magicOK v (produceMagic v 0) = true :=
  produce_record_format v

/-- an explicit record format of the caller is left alone (documented override in Prepare) -/
theorem produce_explicit_format_kept (v g : Int) (h : g ≠ 0) : produceMagic v g = g := by
  simp [produceMagic, produceKeepsExplicitVersion, h]

/-- **leave_group_body**: at every version the LeaveGroup body names the leaving member(s) in the field that version
has: the first of `Members` moves to `MemberID` below v3 -/
theorem leave_group_body (v : Int) (members : List String) :
    leaveGroupBodyOK v members (leaveGroupWire v "" members).1 (leaveGroupWire v "" members).2 = true := by
  unfold leaveGroupBodyOK leaveGroupWire leaveGroupCopiesFirstMember
  by_cases h : v < 3
  · cases members <;> simp [h]
  · simp [h]

end prepare

/-! ## the parts of a split request carry the caller's request -/

section splitfields
open KV.Spec.Routing (optionOK optionSince)

/-- **split_parts_carry_request_fields**: for every protocol package with a `Split` method (regenerated: wire fields of
Request, fields set by each sub-request literal of Split), every sub-request sets every wire field of the request —
nothing the caller put into the request is lost on the way to the designated brokers -/
theorem split_parts_carry_request_fields :
    (splitSubrequests.all fun (_, fields, subs) => subs.all fun s => fields.all fun f => s.any (·.1 == f)) = true := by
  decide

/-- … hence an option switched on by the caller arrives switched on at every version that has it -/
theorem split_options_arrive (v : Int) :
    optionOK 32 "IncludeSynonyms" v (optionArrives "describeconfigs" "IncludeSynonyms" 1 v) = true ∧
    optionOK 32 "IncludeDocumentation" v (optionArrives "describeconfigs" "IncludeDocumentation" 3 v) = true ∧
    optionOK 15 "IncludeAuthorizedOperations" v (optionArrives "describegroups" "IncludeAuthorizedOperations" 3 v) = true := by
  have h1 : splitCarries "describeconfigs" "IncludeSynonyms" = true := by decide
  have h2 : splitCarries "describeconfigs" "IncludeDocumentation" = true := by decide
  have h3 : splitCarries "describegroups" "IncludeAuthorizedOperations" = true := by decide
  simp [optionOK, optionSince, optionArrives, h1, h2, h3]

end splitfields

/-! ## the dial address -/

/-- **broker_dial_address**: for every host / port the metadata may list — IPv6 literals included — the address the
pool dials for the broker (regenerated from newBrokerConnGroup) is the one a dialer can take apart again -/
theorem broker_dial_address (host : String) (port : Int) :
    dialAddress (host, port) = KV.Spec.Routing.hostPort host port := by
  simp [dialAddress, brokerDialAddress, KV.Spec.Routing.hostPort]

end KV.Props.C12
