/-
Props/C09.lean — Close, cancellation and use-after-close terminate and behave (Writer part first).
-/
import KafkaVerif.Model.WriterClose
import KafkaVerif.Lemmas.WriterClose

namespace KV.C09
open KV.WriterClose

theorem hasPW_elim {s : State} {i : Nat} {p : PW → Bool} (h : hasPW s i p = true) :
    ∃ x ∈ s.writers, x.pid = i ∧ p x = true := by
  simp only [hasPW, List.any_eq_true, Bool.and_eq_true, decide_eq_true_eq] at h
  exact h

/-- Every internal event of a closed (repaired) Writer strictly decreases the measure `mu`. -/
theorem measure_decreases (cfg : Cfg) (s s' : State) (e : Event)
    (hfix : cfg.fixed = true) (hclosed : s.closed = true) (hint : e.internal = true)
    (hstep : step cfg s e = some s') : mu cfg s' < mu cfg s := by
  cases e with
  | callBegin c ms mf => simp [Event.internal] at hint
  | ctxCancel c => simp [Event.internal] at hint
  | closeBegin => simp [Event.internal] at hint
  | metaReq c => simp [Event.internal] at hint
  | metaRel c => simp [Event.internal] at hint
  | closeMark => simp [Event.internal] at hint
  | closeReturn => simp [Event.internal] at hint
  | enter c =>
    simp only [step] at hstep
    split at hstep
    · rename_i h
      injection hstep with hs; subst hs
      apply mu_updCalls_lt _ _ _ _ _ _ h
      intro x hx
      simp only [decide_eq_true_eq] at hx
      simp [callW, phaseW, hx, hclosed]
    · simp at hstep
  | early c r =>
    simp only [step, Option.ite_none_right_eq_some, Option.some.injEq] at hstep
    obtain ⟨h, rfl⟩ := hstep
    have h' : hasCall s c (fun x => decide (x.phase = Phase.entered)) = true := by
      simp only [hasCall, List.any_eq_true, Bool.and_eq_true] at h ⊢
      obtain ⟨x, hx, h1, h2, _⟩ := h
      exact ⟨x, hx, h1, h2⟩
    apply mu_updCalls_lt _ _ _ _ _ _ h'
    intro x hx
    simp only [decide_eq_true_eq] at hx
    simp [callW, phaseW, hx]
  | batch c =>
    simp only [step] at hstep
    split at hstep
    · simp at hstep
    · rename_i x hfind
      simp only [hfix, hclosed, Bool.and_self, if_true] at hstep
      injection hstep with hs; subst hs
      have hx := List.find?_some hfind
      have hm := List.mem_of_find?_eq_some hfind
      simp only [Bool.and_eq_true, decide_eq_true_eq] at hx
      have h' : hasCall s c (fun x => decide (x.phase = Phase.entered)) = true := by
        simp only [hasCall, List.any_eq_true, Bool.and_eq_true, decide_eq_true_eq]
        exact ⟨x, hm, hx.1.1.1, hx.1.1.2⟩
      apply mu_updCalls_lt _ _ _ _ _ _ h'
      intro y hy
      simp only [decide_eq_true_eq] at hy
      simp [callW, phaseW, hy]
  | leave c r =>
    simp only [step, Option.ite_none_right_eq_some, Option.some.injEq] at hstep
    obtain ⟨h, rfl⟩ := hstep
    have h' : hasCall s c (fun x => decide (x.phase = Phase.waiting)) = true := by
      simp only [hasCall, List.any_eq_true, Bool.and_eq_true] at h ⊢
      obtain ⟨x, hx, h1, h2, _⟩ := h
      exact ⟨x, hx, h1, h2⟩
    apply mu_updCalls_lt _ _ _ _ _ _ h'
    intro x hx
    simp only [decide_eq_true_eq] at hx
    simp [callW, phaseW, hx]
  | ret c =>
    simp only [step, Option.ite_none_right_eq_some, Option.some.injEq] at hstep
    obtain ⟨h, rfl⟩ := hstep
    apply mu_updCalls_lt _ _ _ _ _ _ h
    intro x hx
    cases hp : x.phase <;> simp [hp, Phase.isLeft] at hx
    simp [callW, phaseW, hp, Call.doReturn]
  | timer b =>
    simp only [step, Option.ite_none_right_eq_some, Option.some.injEq] at hstep
    obtain ⟨h, rfl⟩ := hstep
    have hmem : b ∈ s.awaiters := by simpa using h
    have h1 := List.length_erase_of_mem hmem
    have hpos : 0 < s.awaiters.length := List.length_pos_of_mem hmem
    have h2 : ((s.writers.map (timerPW b)).map (pwW cfg)).sum ≤ (s.writers.map (pwW cfg)).sum := by
      apply sum_map_le
      intro p _
      simp only [timerPW]
      cases hc : p.curr with
      | none => simp
      | some cb =>
        simp only
        split
        · simp only [putBatch]
          split <;> simp [pwW, hc, Nat.add_mul]
        · exact Nat.le_refl _
    simp only [mu]
    omega
  | get i =>
    simp only [step] at hstep
    split at hstep
    · rename_i h
      injection hstep with hs; subst hs
      obtain ⟨x, hx, hi, hp⟩ := hasPW_elim h
      apply mu_updPWs_lt
      · intro y hy
        simp only [Bool.and_eq_true, decide_eq_true_eq] at hy
        cases hq : y.queue with
        | nil => simp
        | cons b rest => simp [pwW, senderW, hy.1, hq, Nat.add_mul]; omega
      · refine ⟨x, hx, hi, hp, ?_⟩
        simp only [Bool.and_eq_true, decide_eq_true_eq] at hp
        cases hq : x.queue with
        | nil => simp [hq] at hp
        | cons b rest => simp [pwW, senderW, hp.1, hq, Nat.add_mul]; omega
    · split at hstep
      · rename_i h
        injection hstep with hs; subst hs
        obtain ⟨x, hx, hi, hp⟩ := hasPW_elim h
        apply mu_updPWs_lt
        · intro y hy
          simp only [Bool.and_eq_true, decide_eq_true_eq] at hy
          simp [pwW, senderW, hy.1.1]
        · refine ⟨x, hx, hi, hp, ?_⟩
          simp only [Bool.and_eq_true, decide_eq_true_eq] at hp
          simp [pwW, senderW, hp.1.1]
      · simp at hstep
  | attempt i o =>
    simp only [step] at hstep
    split at hstep
    · rename_i h
      injection hstep with hs; subst hs
      obtain ⟨x, hx, hi, hp⟩ := hasPW_elim h
      have key : ∀ (b : Batch) (k : Nat), senderW cfg (attemptNext cfg b k o) < senderW cfg (.sending b k) ∧
          attemptNext cfg b k o ≠ .exited := by
        intro b k
        cases o
        · simp [attemptNext, senderW]
        · by_cases hk : k + 1 < cfg.maxAttempts
          · simp [attemptNext, senderW, hk]; omega
          · simp [attemptNext, senderW, hk]
        · simp [attemptNext, senderW]
      apply mu_updPWs_lt
      · intro y _
        cases hs : y.sender with
        | sending b k =>
          have := key b k
          simp only [pwW, hs]
          simp [this.2]
          omega
        | _ => simp
      · refine ⟨x, hx, hi, rfl, ?_⟩
        cases hs : x.sender with
        | sending b k =>
          have := key b k
          simp only [pwW, hs]
          simp [this.2]
          omega
        | _ => simp [hs] at hp
    · simp at hstep
  | complete i =>
    simp only [step] at hstep
    split at hstep
    · rename_i p hfind
      have hpp := List.find?_some hfind
      have hm := List.mem_of_find?_eq_some hfind
      split at hstep
      · rename_i b why hsend
        injection hstep with hs; subst hs
        simp only [Bool.and_eq_true, decide_eq_true_eq] at hpp
        have : mu cfg (updPWs s i (fun q => decide (q.sender = Sender.completing b why)) fun q => { q with sender := .idle })
            < mu cfg s := by
          apply mu_updPWs_lt
          · intro y hy
            simp only [decide_eq_true_eq] at hy
            simp [pwW, senderW, hy]
          · refine ⟨p, hm, hpp.1, by simp [hsend], ?_⟩
            simp [pwW, senderW, hsend]
        simpa [mu, updPWs] using this
      · simp at hstep
    · simp at hstep

end KV.C09
