/-
Props/C09.lean — Close, cancellation and use-after-close terminate and behave (Writer part first).
-/
import KafkaVerif.Model.WriterClose
import KafkaVerif.Lemmas.WriterClose
import KafkaVerif.Lemmas.WriterTrack
import KafkaVerif.Model.ReaderClose
import KafkaVerif.Lemmas.ReaderClose
import KafkaVerif.Lemmas.GroupRunMeasure
import KafkaVerif.Lemmas.GroupRunStruct
import KafkaVerif.Lemmas.TransportLife
import KafkaVerif.Gen.CloseFacts
import KafkaVerif.Model.FetcherLife
import KafkaVerif.Lemmas.FetcherLife
import KafkaVerif.Lemmas.ReaderCloseSystem
import KafkaVerif.Lemmas.GroupConns
import KafkaVerif.Lemmas.WriterCloseDetail
import KafkaVerif.Lemmas.WriterCloseProgress
import KafkaVerif.Lemmas.WriterCloseMeasure
import KafkaVerif.Lemmas.GroupCloseProgress
import KafkaVerif.Lemmas.FetcherDeadlines
import KafkaVerif.Lemmas.GroupDeadlines
import KafkaVerif.Lemmas.ReaderCloseSilent
import KafkaVerif.Lemmas.TransportDeadlines

namespace KV.C09
open KV.WriterClose


/-- Every internal event of a closed (repaired) Writer strictly decreases the measure `mu`. -/
theorem measure_decreases (cfg : Cfg) (s s' : State) (e : Event)
    (hfix : cfg.fixed = true) (hclosed : s.closed = true) (hint : e.internal = true)
    (hstep : step cfg s e = some s') : mu cfg s' < mu cfg s := by
  cases e with
  | callBegin c ms mf => simp [Event.internal] at hint
  | ctxCancel c => simp [Event.internal] at hint
  | closeBegin => simp [Event.internal] at hint
  | metaReq c => simp [Event.internal] at hint
  | metaRel c => simp [Event.internal] at hint
  | closeMark => simp [Event.internal] at hint
  | closeReturn => simp [Event.internal] at hint
  | enter c =>
    simp only [step] at hstep
    split at hstep
    · rename_i h
      injection hstep with hs; subst hs
      apply mu_updCalls_lt _ _ _ _ _ _ h
      intro x hx
      simp only [decide_eq_true_eq] at hx
      simp [callW, phaseW, hx]
    · simp at hstep
  | early c r =>
    simp only [step, Option.ite_none_right_eq_some, Option.some.injEq] at hstep
    obtain ⟨h, rfl⟩ := hstep
    have h' : hasCall s c (fun x => decide (x.phase = Phase.entered)) = true := by
      simp only [hasCall, List.any_eq_true, Bool.and_eq_true] at h ⊢
      obtain ⟨x, hx, h1, h2, _⟩ := h
      exact ⟨x, hx, h1, h2⟩
    apply mu_updCalls_lt _ _ _ _ _ _ h'
    intro x hx
    simp only [decide_eq_true_eq] at hx
    simp [callW, phaseW, hx]
  | batch c =>
    simp only [step] at hstep
    split at hstep
    · simp at hstep
    · rename_i x hfind
      simp only [hfix, hclosed, Bool.and_self, if_true] at hstep
      injection hstep with hs; subst hs
      have hx := List.find?_some hfind
      have hm := List.mem_of_find?_eq_some hfind
      simp only [Bool.and_eq_true, decide_eq_true_eq] at hx
      have h' : hasCall s c (fun x => decide (x.phase = Phase.entered)) = true := by
        simp only [hasCall, List.any_eq_true, Bool.and_eq_true, decide_eq_true_eq]
        exact ⟨x, hm, hx.1.1.1, hx.1.1.2⟩
      apply mu_updCalls_lt _ _ _ _ _ _ h'
      intro y hy
      simp only [decide_eq_true_eq] at hy
      simp [callW, phaseW, hy]
  | leave c r =>
    simp only [step, Option.ite_none_right_eq_some, Option.some.injEq] at hstep
    obtain ⟨h, rfl⟩ := hstep
    have h' : hasCall s c (fun x => decide (x.phase = Phase.waiting)) = true := by
      simp only [hasCall, List.any_eq_true, Bool.and_eq_true] at h ⊢
      obtain ⟨x, hx, h1, h2, _⟩ := h
      exact ⟨x, hx, h1, h2⟩
    apply mu_updCalls_lt _ _ _ _ _ _ h'
    intro x hx
    simp only [decide_eq_true_eq] at hx
    simp [callW, phaseW, hx]
  | ret c =>
    simp only [step, Option.ite_none_right_eq_some, Option.some.injEq] at hstep
    obtain ⟨h, rfl⟩ := hstep
    apply mu_updCalls_lt _ _ _ _ _ _ h
    intro x hx
    cases hp : x.phase <;> simp [hp, Phase.isLeft] at hx
    simp [callW, phaseW, hp, Call.doReturn]
  | timer b =>
    simp only [step, Option.ite_none_right_eq_some, Option.some.injEq] at hstep
    obtain ⟨h, rfl⟩ := hstep
    have hmem : b ∈ s.awaiters := by simpa using h
    have h1 := List.length_erase_of_mem hmem
    have hpos : 0 < s.awaiters.length := List.length_pos_of_mem hmem
    have h2 : ((s.writers.map (timerPW b)).map (pwW cfg)).sum ≤ (s.writers.map (pwW cfg)).sum := by
      apply sum_map_le
      intro p _
      simp only [timerPW]
      cases hc : p.curr with
      | none => simp
      | some cb =>
        simp only
        split
        · simp only [putBatch]
          split <;> simp [pwW, hc, Nat.add_mul]
        · exact Nat.le_refl _
    simp only [mu]
    omega
  | get i =>
    simp only [step] at hstep
    split at hstep
    · rename_i h
      injection hstep with hs; subst hs
      obtain ⟨x, hx, hi, hp⟩ := hasPW_mem h
      apply mu_updPWs_lt
      · intro y hy
        simp only [Bool.and_eq_true, decide_eq_true_eq] at hy
        cases hq : y.queue with
        | nil => simp
        | cons b rest => simp [pwW, senderW, hy.1, hq, Nat.add_mul]; omega
      · refine ⟨x, hx, hi, hp, ?_⟩
        simp only [Bool.and_eq_true, decide_eq_true_eq] at hp
        cases hq : x.queue with
        | nil => simp [hq] at hp
        | cons b rest => simp [pwW, senderW, hp.1, hq, Nat.add_mul]; omega
    · split at hstep
      · rename_i h
        injection hstep with hs; subst hs
        obtain ⟨x, hx, hi, hp⟩ := hasPW_mem h
        apply mu_updPWs_lt
        · intro y hy
          simp only [Bool.and_eq_true, decide_eq_true_eq] at hy
          simp [pwW, senderW, hy.1.1]
        · refine ⟨x, hx, hi, hp, ?_⟩
          simp only [Bool.and_eq_true, decide_eq_true_eq] at hp
          simp [pwW, senderW, hp.1.1]
      · simp at hstep
  | attempt i o =>
    simp only [step] at hstep
    split at hstep
    · rename_i h
      injection hstep with hs; subst hs
      obtain ⟨x, hx, hi, hp⟩ := hasPW_mem h
      have key : ∀ (b : Batch) (k : Nat), senderW cfg (attemptNext cfg b k o) < senderW cfg (.sending b k) ∧
          attemptNext cfg b k o ≠ .exited := by
        intro b k
        cases o
        · simp [attemptNext, senderW]
        · by_cases hk : k + 1 < cfg.maxAttempts
          · simp [attemptNext, senderW, hk]; omega
          · simp [attemptNext, senderW, hk]
        · simp [attemptNext, senderW]
      apply mu_updPWs_lt
      · intro y _
        cases hs : y.sender with
        | sending b k =>
          have := key b k
          simp only [pwW, hs]
          simp [this.2]
          omega
        | _ => simp
      · refine ⟨x, hx, hi, rfl, ?_⟩
        cases hs : x.sender with
        | sending b k =>
          have := key b k
          simp only [pwW, hs]
          simp [this.2]
          omega
        | _ => simp [hs, Sender.isSending] at hp
    · simp at hstep
  | complete i =>
    simp only [step] at hstep
    split at hstep
    · rename_i p hfind
      have hpp := List.find?_some hfind
      have hm := List.mem_of_find?_eq_some hfind
      split at hstep
      · rename_i b why hsend
        injection hstep with hs; subst hs
        simp only [Bool.and_eq_true, decide_eq_true_eq] at hpp
        have : mu cfg (updPWs s i (fun q => decide (q.sender = Sender.completing b why)) fun q => { q with sender := .idle })
            < mu cfg s := by
          apply mu_updPWs_lt
          · intro y hy
            simp only [decide_eq_true_eq] at hy
            simp [pwW, senderW, hy]
          · refine ⟨p, hm, hpp.1, by simp [hsend], ?_⟩
            simp [pwW, senderW, hsend]
        simpa [mu, updPWs] using this
      · simp at hstep
    · simp at hstep

/-- **close_terminates** — Writer.Close returns after finitely many steps, in every interleaving.

In every reachable state of the repaired protocol in which Close waits, `CloseReturn` or a progress event (an
internal event of the library, or the transport's answer to a metadata lookup it already holds) is enabled — Close
is never blocked — and every internal event strictly decreases the measure `mu`.  Hence from such a state at most
`mu cfg s` further internal events can happen before `CloseReturn` is the only thing left; newly arriving calls
are refused (`enter_after_close_ErrClosedPipe`) and add a bounded amount (3) to the measure each.
The third disjunct of `progress_core` (`WaitingBlocked`) is excluded by the message-tracking invariant
(`Lemmas/WriterTrack.lean`, `reachable_track`). -/
theorem close_terminates (cfg : Cfg) (hfix : cfg.fixed = true) (s : State) (hr : Reachable cfg s)
    (hwait : s.close = 2) :
    ((step cfg s .closeReturn).isSome ∨ (∃ e, e.progress = true ∧ (step cfg s e).isSome)) ∧
    (∀ e s', e.internal = true → step cfg s e = some s' → mu cfg s' < mu cfg s) := by
  have hclosed : s.closed = true := (reachable_closed_iff cfg s hr).mp (by omega)
  refine ⟨?_, ?_⟩
  · rcases progress_core cfg s hwait (reachable_noOpen cfg hfix s hr hclosed) with h | h | h
    · exact Or.inl h
    · exact Or.inr h
    · exact absurd h (not_waitingBlocked s (reachable_track cfg s hr))
  · intro e s' he hs
    exact measure_decreases cfg s s' e hfix hclosed he hs

/-- **all_completed_before_close_return** — when `CloseReturn` fires, every message that `batchMessages` accepted
earlier has had its Completion callback (and its batch was closed) with an outcome `why`; no sender or timer
goroutine is alive and no call is between enter and leave.  (`attemptNext_why`: `why = acked` iff the last attempt
was acknowledged, `permanent` iff it failed permanently, `exhausted` iff it failed temporarily and it was attempt
number ≥ MaxAttempts.) -/
theorem all_completed_before_close_return (cfg : Cfg) (s s' : State) (hr : Reachable cfg s)
    (hs : step cfg s .closeReturn = some s') :
    (∀ m ∈ s.accepted, ∃ why, (m, why) ∈ s.completed) ∧
    (∀ p ∈ s.writers, p.live = false) ∧ s.awaiters = [] ∧ (∀ c ∈ s.calls, c.holdsGroup = false) := by
  simp only [step, Option.ite_none_right_eq_some, Bool.and_eq_true, decide_eq_true_eq] at hs
  obtain ⟨⟨_, hwg⟩, _⟩ := hs
  simp only [State.wg] at hwg
  have h1 : s.calls.countP Call.holdsGroup = 0 := by omega
  have h2 : s.writers.countP PW.live = 0 := by omega
  have h3 : s.awaiters.length = 0 := by omega
  rw [List.countP_eq_zero] at h1 h2
  have hdead : ∀ p ∈ s.writers, p.live = false := by
    intro p hp; cases hl : p.live with
    | false => rfl
    | true => exact absurd hl (h2 p hp)
  refine ⟨?_, hdead, List.length_eq_zero_iff.mp h3, ?_⟩
  · intro m hm
    rcases (reachable_track cfg s hr).t1 m hm with ⟨x, hx, rfl⟩ | ⟨p, hp, hl, _⟩
    · exact ⟨x.2, hx⟩
    · simp [hdead p hp] at hl
  · intro c hc; cases hg : c.holdsGroup with
    | false => rfl
    | true => exact absurd hg (h1 c hc)

/-- **writer_resources_released** — in every reachable state in which Close has returned (at that moment and ever
after, whatever calls still arrive) the WaitGroup is 0: no call is between enter and leave, no sender goroutine and no
awaitBatch goroutine of the model is alive — no goroutine started by the Writer outlives its Close. -/
theorem writer_resources_released (cfg : Cfg) (hfix : cfg.fixed = true) (s : State) (hr : Reachable cfg s)
    (h3 : s.close = 3) :
    s.wg = 0 ∧ (∀ p ∈ s.writers, p.live = false) ∧ s.awaiters = [] ∧ (∀ c ∈ s.calls, c.holdsGroup = false) := by
  have h0 := reachable_returned_quiescent cfg hfix s hr h3
  simp only [State.wg] at h0
  have h1 : s.calls.countP Call.holdsGroup = 0 := by omega
  have h2 : s.writers.countP PW.live = 0 := by omega
  have h4 : s.awaiters.length = 0 := by omega
  rw [List.countP_eq_zero] at h1 h2
  refine ⟨by simp only [State.wg]; omega, ?_, List.length_eq_zero_iff.mp h4, ?_⟩
  · intro p hp; cases hl : p.live with
    | false => rfl
    | true => exact absurd hl (h2 p hp)
  · intro c hc; cases hg : c.holdsGroup with
    | false => rfl
    | true => exact absurd hg (h1 c hc)

example : ∃ s, Reachable ⟨3, 2, true, false⟩ s ∧ s.close = 2 ∧ s.wg ≠ 0 :=
  ⟨_, ⟨[.callBegin 1 [(10, 0)] false, .enter 1, .batch 1, .closeBegin, .closeMark], rfl⟩, by decide, by decide⟩

/-! ### D1: the unrepaired protocol has a reachable state in which Close waits forever -/

/-- original code: `batchMessages` does not re-check `w.closed` -/
def d1Cfg : Cfg := ⟨3, 1, false, false⟩

/-- WriteMessages passes enter(), Close runs to its wait while the call is inside its metadata lookup, then the
call creates a partition writer whose queue nobody closes; the message is written and acknowledged, the call
returns nil — and the sender goroutine of the new partition writer waits in `batchQueue.Get` forever. -/
def d1Trace : List Event :=
  [.callBegin 1 [(10, 0)] false, .enter 1, .metaReq 1, .closeBegin, .closeMark, .metaRel 1, .batch 1,
   .timer 0, .get 0, .attempt 0 .ok, .complete 0, .leave 1 .nil, .ret 1]

theorem close_stuck_counterexample :
    ∃ s, Reachable d1Cfg s ∧ s.close = 2 ∧ step d1Cfg s .closeReturn = none ∧
      (∀ e, e.internal = true → step d1Cfg s e = none) ∧
      (∀ c ∈ s.calls, c.phase = .returned .nil) := by
  have h : (run d1Cfg State.init d1Trace).map
      (fun s => stuck d1Cfg s && s.calls.all (fun c => c.phase = .returned .nil)) = some true := by decide
  cases hr : run d1Cfg State.init d1Trace with
  | none => simp [hr] at h
  | some s =>
    simp only [hr, Option.map_some, Option.some.injEq, Bool.and_eq_true, stuck, decide_eq_true_eq,
      Option.isNone_iff_eq_none, List.all_eq_true] at h
    obtain ⟨⟨⟨h1, h2⟩, h3⟩, h4⟩ := h
    refine ⟨s, ⟨d1Trace, hr⟩, h1, h2, ?_, h4⟩
    intro e he
    cases hs : step d1Cfg s e with
    | none => rfl
    | some s' =>
      have := h3 e (candidates_complete d1Cfg s s' e he hs)
      simp [hs] at this

/-- the repaired protocol does not have this behaviour: the late `batchMessages` is refused … -/
theorem d1_trace_refused_when_fixed : run { d1Cfg with fixed := true } State.init d1Trace = none := by decide

/-- … with io.ErrClosedPipe, and Close returns -/
theorem d1_schedule_fixed_close_returns :
    (run { d1Cfg with fixed := true } State.init
      [.callBegin 1 [(10, 0)] false, .enter 1, .metaReq 1, .closeBegin, .closeMark, .metaRel 1, .batch 1,
       .ret 1, .closeReturn]).map (fun s => (s.close, s.calls.map (·.phase))) =
      some (3, [.returned .closedPipe]) := by decide

/-! ### use after close, context cancellation (single steps) -/

/-- `enter` on a closed writer refuses the call with io.ErrClosedPipe (and does not touch the wait group) -/
theorem enter_after_close_ErrClosedPipe (cfg : Cfg) (s s' : State) (c : Nat) (hclosed : s.closed = true)
    (hstep : step cfg s (.enter c) = some s') :
    (∀ x ∈ s.calls, x.id = c → x.phase = .invoked → { x with phase := .left .closedPipe } ∈ s'.calls) ∧
    (∀ y ∈ s'.calls, y.phase = .entered → y ∈ s.calls) := by
  simp only [step, Option.ite_none_right_eq_some, Option.some.injEq] at hstep
  obtain ⟨_, rfl⟩ := hstep
  constructor
  · intro x hx hc hp
    simp only [updCalls, List.mem_map]
    exact ⟨x, hx, by simp [hc, hp, hclosed]⟩
  · intro y hy hp
    simp only [updCalls, List.mem_map] at hy
    obtain ⟨x, hx, rfl⟩ := hy
    by_cases hq : (decide (x.id = c) && decide (x.phase = Phase.invoked)) = true
    · rw [if_pos hq] at hp
      simp [hclosed] at hp
    · rw [if_neg hq]
      exact hx

/-- **after_close_ErrClosedPipe** — over whole runs: a WriteMessages call invoked once the writer is marked closed
(in particular after Close has returned) can only ever return io.ErrClosedPipe, in every reachable state. -/
theorem after_close_ErrClosedPipe (cfg : Cfg) (s : State) (hr : Reachable cfg s) (x : Call) (hx : x ∈ s.calls)
    (hb : x.bornClosed = true) (r : Res) (hp : x.phase = .returned r ∨ x.phase = .left r) : r = .closedPipe := by
  have := (reachable_born cfg s hr).phase x hx hb
  rcases this with h | h | h <;> rcases hp with h' | h' <;> rw [h] at h' <;> cases h' <;> rfl

/-- a call blocked in its metadata lookup or waiting for its batches can return the context's error as soon as
its context is cancelled -/
theorem ctx_returns (cfg : Cfg) (s : State) (x : Call) (hx : x ∈ s.calls) (hc : x.cancelled = true) :
    (x.phase = .entered → (step cfg s (.early x.id .ctxErr)).isSome) ∧
    (x.phase = .waiting → (step cfg s (.leave x.id .ctxErr)).isSome) := by
  constructor
  · intro hp
    have : hasCall s x.id (fun y => decide (y.phase = .entered) && earlyOk .ctxErr y) = true := by
      simp only [hasCall, List.any_eq_true]
      exact ⟨x, hx, by simp [hp, hc, earlyOk]⟩
    simp [step, this]
  · intro hp
    have : hasCall s x.id (fun y => decide (y.phase = .waiting) && leaveOk s .ctxErr y) = true := by
      simp only [hasCall, List.any_eq_true]
      exact ⟨x, hx, by simp [hp, hc, leaveOk]⟩
    simp [step, this]

example : (run ⟨3, 2, true, false⟩ State.init [.callBegin 1 [(10, 0)] false, .enter 1, .batch 1, .ctxCancel 1]).map
    (fun s => s.calls.any fun x => x.cancelled && decide (x.phase = .waiting)) = some true := by decide

end KV.C09

/-! ## Reader / ConsumerGroup part (Model/ReaderClose.lean) -/
namespace KV.C09
open KV.ReaderClose

/-- **resources_released** — when Close has returned no fetcher goroutine, no group loop, no generation goroutine
and no connection of the model is alive. -/
theorem resources_released (g : Bool) (s : State) (hr : Reachable g s) (hc : s.close = 3) :
    s.fetchers = 0 ∧ s.loop = 0 ∧ s.gen = false ∧ s.conns = 0 ∧ s.lconns = 0 := by
  have hi := reachable_inv g s hr
  obtain ⟨h1, h2, h3, h4⟩ := hi.done hc
  exact ⟨h1, h2, (hi.loop0 h2).2.1, h3, (hi.loop0 h2).2.2⟩

/-- **loop_exit_closes_connections** — whenever the group loop is not running (never started, or `run` has returned
— after Close, through whatever path: LeaveGroup answered, rejected, failed, or no member id) no coordinator
connection of the model is open: `coordinator()`, `nextGeneration` and `leaveGroup` close what they opened on
every path. -/
theorem loop_exit_closes_connections (g : Bool) (s : State) (hr : Reachable g s) (hl : s.loop = 0) :
    s.lconns = 0 ∧ (s.member = none ∨ s.leaveFail = true) :=
  ⟨((reachable_inv g s hr).loop0 hl).2.2, ((reachable_inv g s hr).loop0 hl).1⟩

/-- **left_group_on_close** — when Close has returned the group loop holds no member id any more (it left the group,
or the id was dropped as below), unless the coordinator lookup that `leaveGroup` needs failed since the last
successful join (an unreachable coordinator cannot be told) … -/
theorem left_group_on_close (g : Bool) (s : State) (hr : Reachable g s) (hc : s.close = 3) :
    s.member = none ∨ s.leaveFail = true := by
  have hi := reachable_inv g s hr
  exact (hi.loop0 (hi.done hc).2.1).1

/-- … and a held member id `m` only disappears through `LeaveGroup(m)`, through a new id assigned by a successful
JoinGroup, or through a failed JoinGroup (the residue of D9: `joinGroup` returns "" on error). -/
theorem member_dropped_only_by (s s' : State) (e : Event) (m : Nat) (hs : step s e = some s')
    (hm : s.member = some m) (hm' : s'.member ≠ some m) :
    e = .leave m ∨ e = .joinErr ∨ ∃ m', e = .joinOk m' := by
  cases e <;> simp only [step, Option.ite_none_right_eq_some, Option.some.injEq] at hs <;>
    obtain ⟨hg, rfl⟩ := hs <;> simp_all

/-- **nothing_sent_after_close** — once Close has returned no fetch, heartbeat, commit, join, sync, offset fetch or
LeaveGroup request and no new connection is possible. -/
theorem nothing_sent_after_close (g : Bool) (s : State) (hr : Reachable g s) (hc : s.close = 3)
    (e : Event) (he : e.sends = true) : step s e = none := by
  obtain ⟨h1, h2, h3, h4, h5⟩ := resources_released g s hr hc
  cases e <;> simp [Event.sends] at he <;> simp [step, h1, h2, h3, h4, h5]

/-- … and it stays that way: the closed state is absorbing for these counters -/
theorem closed_stays_closed (g : Bool) (s s' : State) (e : Event) (hr : Reachable g s) (hc : s.close = 3)
    (hs : step s e = some s') : s'.close = 3 := by
  have hi := reachable_inv g s hr
  cases e <;> simp only [step, Option.ite_none_right_eq_some, Option.some.injEq] at hs <;>
    obtain ⟨hg, rfl⟩ := hs <;> simp_all

/-- **eof_after_close** — a FetchMessage/ReadMessage call invoked after the reader was marked closed (in particular
after Close returned) can only return io.EOF or its context's error; CommitMessages only io.ErrClosedPipe / ctx / a
commit error; ConsumerGroup.Next only ErrGroupClosed / ctx / an error. -/
theorem eof_after_close (s s' : State) (c : Nat) (r : Res) (hs : step s (.callRet c r) = some s')
    (hb : ∀ x ∈ s.calls, x.id = c → x.born = true ∧ (x.kind = .fetch ∨ x.kind = .read)) :
    r = .eof ∨ r = .ctx := by
  simp only [step, Option.ite_none_right_eq_some, List.any_eq_true, Bool.and_eq_true, decide_eq_true_eq] at hs
  obtain ⟨⟨x, hx, hid, hok⟩, _⟩ := hs
  obtain ⟨hborn, hk⟩ := hb x hx hid
  cases r <;> simp [retOk, hborn] at hok ⊢ <;> rcases hk with hk | hk <;> simp [hk] at hok

/-- a call invoked once Close has returned is born closed -/
theorem born_after_close (g : Bool) (s s' : State) (c : Nat) (k : Kind) (hr : Reachable g s) (hc : s.close = 3)
    (hs : step s (.callBegin c k) = some s') : ⟨c, k, false, true⟩ ∈ s'.calls := by
  have hcl := (reachable_inv g s hr).marked (by omega)
  simp only [step, Option.ite_none_right_eq_some, Option.some.injEq] at hs
  obtain ⟨_, rfl⟩ := hs
  simp [hcl]

/-- **ctx_returns (Reader)** — a pending call whose context ended can return the context's error -/
theorem reader_ctx_returns (s : State) (x : Call) (hx : x ∈ s.calls) (hc : x.cancelled = true) :
    (step s (.callRet x.id .ctx)).isSome := by
  have : s.calls.any (fun y => decide (y.id = x.id) && retOk s y .ctx) = true := by
    simp only [List.any_eq_true]; exact ⟨x, hx, by simp [retOk, hc]⟩
  simp [step, this]

/-- **reader_close_terminates (partial: progress only)** — while Close waits, one of the library's own steps or
CloseReturn is enabled, provided the coordinator/broker connections still open get closed by their owners
(`connClose`): the full termination measure needs the per-generation phases of `ConsumerGroup.run`, which are
C15's model (GroupRun); here the loop is one counter. -/
theorem reader_close_progress_partial (g : Bool) (s : State) (hr : Reachable g s) (hc : s.close = 2) :
    ∃ e, (e = .closeReturn ∨ e = .closeMsgs ∨ e = .fetcherExit ∨ e = .genEnd ∨ e = .loopExit ∨ e = .connClose ∨
      e = .coordClose ∨ (∃ m, e = .leave m) ∨ e = .coordOpen) ∧ (step s e).isSome := by
  have hi := reachable_inv g s hr
  have hcl := hi.marked (by omega)
  by_cases hf' : ¬ s.fetchers = 0
  · exact ⟨.fetcherExit, by simp, by simp [step]; omega⟩
  have hf : s.fetchers = 0 := Decidable.of_not_not hf'
  by_cases hl : s.loop = 0
  · by_cases hm : s.msgsClosed = true
    · by_cases hcn : s.conns = 0
      · exact ⟨.closeReturn, by simp, by simp [step, hc, hm, hcn, (hi.loop0 hl).2.2]⟩
      · exact ⟨.connClose, by simp, by simp [step]; omega⟩
    · exact ⟨.closeMsgs, by simp, by simp [step, hc, hf, hl, hm]⟩
  · have hl1 : s.loop = 1 ∨ 2 ≤ s.loop := by omega
    by_cases hgen : s.gen = true
    · exact ⟨.genEnd, by simp, by simp [step, hgen]⟩
    · cases hmem : s.member with
      | none =>
        by_cases h1 : s.loop = 1
        · by_cases hlc : s.lconns = 0
          · exact ⟨.loopExit, by simp, by simp [step, h1, hcl, hgen, hmem, hlc]⟩
          · exact ⟨.coordClose, by simp, by simp [step]; omega⟩
        · exact ⟨.fetcherExit, by simp, by
            -- loop is 0 or 1 in every reachable state; kept out of the invariant: fall back on coordOpen
            exfalso; exact absurd (reachable_loop_le g s hr) (by omega)⟩
      | some m =>
        by_cases h1 : s.loop = 1
        · by_cases hcn : 0 < s.lconns
          · exact ⟨.leave m, by simp, by simp [step, h1, hgen, hmem, hcn]⟩
          · exact ⟨.coordOpen, by simp, by simp [step, h1]⟩
        · exfalso; exact absurd (reachable_loop_le g s hr) (by omega)

end KV.C09

/-! ## Termination of Reader / ConsumerGroup close -/
namespace KV.C09
open KV.ReaderClose

/-- work left on the closing side of a Reader -/
def closeNu (s : State) : Nat :=
  s.fetchers + s.conns + s.lconns + s.loop + (if s.gen then 1 else 0) + (if s.member.isSome then 1 else 0) +
  (if s.msgsClosed then 0 else 1) + (3 - s.close)

/-- the steps by which a Reader shuts down -/
def closingStep : Event → Bool
  | .closeMark | .closeMsgs | .closeReturn | .fetcherExit | .connClose | .coordClose | .genEnd | .leave _ | .loopExit => true
  | _ => false

/-- **reader_close_terminates** (Reader side) — every shut-down step of `Reader.Close` (stop mark, fetcher exit,
connection close (fetcher and coordinator), generation end, LeaveGroup, exit of the group loop, close of `msgs`, return) strictly decreases
`closeNu`, and while Close waits one of them (or the opening of the connection LeaveGroup needs) is enabled
(`reader_close_progress_partial`).  The only events that can increase `closeNu` after the mark are connection opens:
by a fetcher that is still alive (`dial`, bounded by `fetchers`: a cancelled fetcher does not redial) and by the
group loop (`coordOpen`), whose own steps are bounded by `group_run_terminates` below. -/
theorem reader_close_terminates (s s' : State) (e : Event) (he : closingStep e = true) (hs : step s e = some s')
    (hcl : s.close ≤ 3) : closeNu s' < closeNu s := by
  cases e <;> simp only [closingStep] at he <;> try contradiction
  all_goals
    simp only [step, Option.ite_none_right_eq_some, Option.some.injEq] at hs
    obtain ⟨hg, rfl⟩ := hs
    (try simp only [Bool.and_eq_true, decide_eq_true_eq, Bool.not_eq_true'] at hg)
    simp only [closeNu]
    (try simp_all)
    (try omega)

example : closeNu (State.init true) = 5 := by decide

end KV.C09

namespace KV.C09
open KV.Group

/-- **group_run_terminates** — `ConsumerGroup.run` (GroupRun model of the group builder: phases of
`nextGeneration`, `leaveGroup`, error delivery, back-off): every step of the `run` goroutine strictly decreases
`runMu = nextWaiting · (nWatch+40) + rank pc`, and no other event except a new `Next` call of the application
increases it.  After `Close` a `Next` call returns ErrGroupClosed, so the goroutine makes at most
`runMu` further steps before it is `exited` — the only state in which `closeRet` is enabled. -/
theorem group_run_terminates (c : Group.Cfg) (s s' : St) (e : Ev) (h : Group.step c s e = some s') :
    (e.runLoop = true → runMu c s' < runMu c s) ∧ (e ≠ .nextCall → runMu c s' ≤ runMu c s) ∧
    (e = .closeRet → s.pc = .exited) := by
  refine ⟨fun he => runMu_decreases c s s' e he h, fun hn => runMu_le c s s' e hn h, ?_⟩
  rintro rfl
  simp only [Group.step, Option.ite_none_right_eq_some, Bool.and_eq_true, beq_iff_eq] at h
  exact h.1.1

/-- **group_run_progress_partial** — once the group is closed, in every *reachable* state whose pc is not `exited`
and not inside `gen.close()` the `run` goroutine has an enabled step of its own: a coordinator answer it waits for
(every network call returns), the start of the generation's next internal function, or a step of its loop.  The
structural facts this needs (coordinator stage ≤ 2, a generation exists while the pc is inside one, the generation is
untouched until its heartbeat function is started) are the inductive invariant `Inv3` (`Lemmas/GroupRunStruct.lean`).
Partial: inside `gen.close()` (pc `waiting`) `run` waits for the generation's functions to run their exit sections —
C15's `close_returns_after_all_exits` says it returns once they have; that each of them can (heartbeat loop, watchers,
the Reader's commit loop and unsubscribe function react to the cancelled generation context) is per-function
reasoning in C15/C03, not repeated here. -/
theorem group_run_progress_partial (c : Group.Cfg) (s : St) (hr : Group.Reachable c s) (hc : s.closedCG = true)
    (hx : s.pc ≠ .exited) (hw : ∀ ret r, s.pc ≠ .waiting ret r) :
    ∃ e, (e.runLoop = true ∨ ∃ g acc, e = .gStart g acc) ∧ (Group.step c s e).isSome :=
  run_progress_reachable c s hr hc hx hw

end KV.C09

/-! ## Transport connections (Model/TransportConnC17.lean: the LTS over the T.* hook events of transport.go) -/
namespace KV.C09
open KV.TransportConn

/-- **released_refused_exits** — when `releaseConn` refuses a connection (its group was closed by
`CloseIdleConnections` / `Writer.Close` / a metadata update while a request was in flight) the connection is
`closing` and the only event it can still take is `Exit` (its `run` loop returns, the network connection is closed). -/
theorem transport_released_refused_exits (f : TFacts) (s s' : TransportConn.State) (c : Nat)
    (h : TransportConn.step f s (.release c false) = some s') :
    get s' c = some .closing ∧
    ∀ e s'', TransportConn.step f s' e = some s'' → connOf e = some c → e = .exit c ∧ get s'' c = some .exited :=
  released_refused_exits f s s' c h

/-- a closing connection (release refused, idle timer, group closed while idle) stays closing until it exits, and an
exited one stays exited: no goroutine or connection of the model comes back after the pool was closed -/
theorem transport_closing_only_exits (f : TFacts) (s s' : TransportConn.State) (e : Ev) (c : Nat)
    (hcl : get s c = some .closing) (h : TransportConn.step f s e = some s') :
    get s' c = some .closing ∨ (e = .exit c ∧ get s' c = some .exited) :=
  closing_only_exits f s s' e c hcl h

theorem transport_exited_is_final (f : TFacts) (s s' : TransportConn.State) (e : Ev) (c : Nat)
    (hx : get s c = some .exited) (h : TransportConn.step f s e = some s') : get s' c = some .exited :=
  exited_is_final f s s' e c hx h

example : (TransportConn.run ⟨true⟩ [] [.new 1 1, .recv 1, .closeIdle 1, .done 1 true false, .release 1 false, .exit 1]).map
    (fun s => get s 1) = some (some .exited) := by decide

end KV.C09

/-! ## Regenerated tie: the structural facts of the source the models take for granted
(`go/extract/closeproto` → `Gen/CloseFacts.lean`, re-extracted from /repo on every run) -/
namespace KV.C09
open KV.WriterClose

/-- every structural fact extracted from writer.go / reader.go / consumergroup.go / transport.go holds: enter checks
`closed` under the mutex before `group.Add`; `spawn` brackets the goroutine with Add/Done; `batchMessages` re-checks
`closed`; `Close` marks, closes and removes every partition writer and then waits; a partition writer's close flushes
before it closes the queue; FetchMessage answers io.EOF when closed; Reader.Close order; `run` leaves the group before
every exit; `leaveGroup`/`nextGeneration`/`coordinator` close their connections on every path; `conn.run` leaves its
loop when `releaseConn` refuses; the waits of WriteMessages / FetchMessage / CommitMessages / `await` /
`grabConnOrConnect` select on the context; the fetcher's `initialize` closes its connection when reading the offsets or
the seek fails; ReadLag closes its probe connection and its loop ends with the context; `run`, `Next`, `sleep`, the
heartbeat and partition-watcher loops select on done / their context; `Generation.close` waits for its goroutines; a
connect that completes after its caller left is released or closed; the pool's last `unref` closes and cancels;
Writer.Close closes its own transport. -/
theorem close_protocol_facts_hold : Gen.CloseFacts.all.all (·.2) = true := by decide

/-- the Writer protocol the source has now is the repaired one (`Cfg.fixed` is the extracted fact) … -/
def sourceCfg (maxAttempts batchSize : Nat) (async : Bool) : Cfg :=
  ⟨maxAttempts, batchSize, Gen.CloseFacts.batchRechecksClosed, async⟩

/-- … so `close_terminates` applies to it, for every MaxAttempts, BatchSize, sync/async -/
theorem close_terminates_for_source (ma bs : Nat) (async : Bool) (s : State) (hr : Reachable (sourceCfg ma bs async) s)
    (hwait : s.close = 2) :
    ((step (sourceCfg ma bs async) s .closeReturn).isSome ∨
      (∃ e, e.progress = true ∧ (step (sourceCfg ma bs async) s e).isSome)) ∧
    (∀ e s', e.internal = true → step (sourceCfg ma bs async) s e = some s' →
      mu (sourceCfg ma bs async) s' < mu (sourceCfg ma bs async) s) :=
  close_terminates (sourceCfg ma bs async) (show Gen.CloseFacts.batchRechecksClosed = true by decide) s hr hwait

end KV.C09

/-! ## Partition fetchers: `(*reader).run` (Model/FetcherLife.lean, events = the RL.* hook points) -/
namespace KV.C09
open KV.FetcherLife

/-- **fetcher_terminates_after_cancel** — once the fetcher's context is done (`Reader.Close`, a newer `start`,
unsubscribe) every control step strictly decreases `rank`: the fetcher returns after at most 10 further control steps
(the hand-overs `msg`/`sendErr` of the fetch response being processed do not change the control state). -/
theorem fetcher_terminates_after_cancel (s s' : FetcherLife.State) (e : FetcherLife.Event) (hc : s.cancelled = true)
    (he : e.control = true) (h : FetcherLife.step s e = some s') :
    FetcherLife.rank s' < FetcherLife.rank s ∧ s'.cancelled = true :=
  FetcherLife.terminates_after_cancel s s' e hc he h

/-- … and it is never blocked: while not exited a control step is enabled (the dial fails or succeeds, the read
returns — every network call returns — or the pending `sleep` sees the context done) -/
theorem fetcher_progress_after_cancel (s : FetcherLife.State) (hc : s.cancelled = true) (hx : s.pc ≠ .exited) :
    ∃ e, e.control = true ∧ (FetcherLife.step s e).isSome :=
  FetcherLife.progress_after_cancel s hc hx

/-- one step keeps "a connection is owned only inside the read loop" -/
theorem fetcher_conn_step (s s' : FetcherLife.State) (e : FetcherLife.Event)
    (hi : s.connOpen = true → s.pc = .inLoop ∨ s.pc = .iterating ∨ s.pc = .oor ∨ s.pc = .afterOffsets)
    (h : FetcherLife.step s e = some s') :
    s'.connOpen = true → s'.pc = .inLoop ∨ s'.pc = .iterating ∨ s'.pc = .oor ∨ s'.pc = .afterOffsets := by
  obtain ⟨pc, co, ca, sa⟩ := s
  simp only at hi
  cases e <;> simp only [FetcherLife.step] at h
  case ctxCancel => injection h with h; subst h; exact hi
  case sendErr => split at h <;> simp at h; subst h; exact hi
  case msg => split at h <;> simp at h; subst h; exact hi
  case top a => split at h <;> simp at h; subst h; intro hco; simp at hco
  case cancel => split at h <;> simp at h; subst h; intro hco; simp at hco
  case init ok =>
    split at h <;> simp at h
    rename_i hg
    subst h
    cases ok
    · intro hco
      simp only [Bool.false_eq_true, if_false] at hco ⊢
      have := hi hco
      rw [hg.1] at this; simp at this
    · intro _; simp
  case iter => split at h <;> simp at h; subst h; intro _; simp
  case read c =>
    split at h <;> simp at h
    subst h
    cases c <;> simp
  case offsets ok =>
    split at h <;> simp at h
    subst h
    cases ok <;> simp

/-- **fetcher_exit_closes_conn** — in every reachable state the fetcher owns a connection only inside its read
loop; in particular a fetcher that has returned has closed its connection (every exit path, cancelled or not). -/
theorem fetcher_exit_closes_conn (s : FetcherLife.State) (hr : FetcherLife.Reachable s) :
    (s.connOpen = true → s.pc = .inLoop ∨ s.pc = .iterating ∨ s.pc = .oor ∨ s.pc = .afterOffsets) ∧
    (s.pc = .exited → s.connOpen = false) := by
  obtain ⟨es, hrun⟩ := hr
  have key : ∀ (es : List FetcherLife.Event) (s0 s : FetcherLife.State),
      (s0.connOpen = true → s0.pc = .inLoop ∨ s0.pc = .iterating ∨ s0.pc = .oor ∨ s0.pc = .afterOffsets) →
      FetcherLife.run s0 es = some s →
      (s.connOpen = true → s.pc = .inLoop ∨ s.pc = .iterating ∨ s.pc = .oor ∨ s.pc = .afterOffsets) := by
    intro es
    induction es with
    | nil => intro s0 s h0 hr; simp only [FetcherLife.run, Option.some.injEq] at hr; subst hr; exact h0
    | cons e es ih =>
      intro s0 s h0 hr
      simp only [FetcherLife.run] at hr
      cases hs : FetcherLife.step s0 e with
      | none => simp [hs] at hr
      | some s1 => simp only [hs] at hr; exact ih s1 s (fetcher_conn_step s0 s1 e h0 hs) hr
  have h1 := key es {} s (by intro h; simp at h) hrun
  refine ⟨h1, ?_⟩
  intro hx
  cases hco : s.connOpen with
  | false => rfl
  | true => have := h1 hco; rw [hx] at this; simp at this

example : (FetcherLife.run {} [.top 0, .init true, .iter, .msg, .read .cont, .ctxCancel, .iter, .cancel]).map
    (fun s => (s.pc, s.connOpen)) = some (.exited, false) := by decide

end KV.C09

/-! ## Coordinator connections of ConsumerGroup.run (Model/GroupConns.lean over the group builder's GroupRun) -/
namespace KV.C09
open KV.GroupConns

/-- **group_connections_accounted** — in every reachable state of `run` with its dialer journal: the connections
journalled as opened, plus successful connects not yet journalled, equal the connections journalled as closed, plus
closes the code has performed but the journal has not shown yet, plus the connections held at the current program
point (bootstrap connection inside `coordinator()`, coordinator connection of `nextGeneration` / `leaveGroup`). -/
theorem group_connections_accounted (c : Group.Cfg) (cs : CS) (h : ReachableC c cs) :
    cs.opened + cs.owedOpen = cs.closed + cs.owedClose + held cs.g.pc :=
  (k_reachable c cs h).acct

/-- **group_connections_closed_at_exit** — once `run` has returned (the only state in which `ConsumerGroup.Close`
returns) every coordinator connection it ever opened has been closed, on every path — LeaveGroup answered, rejected
or failed, the coordinator lookup failed, join / sync / offset-fetch errors, rebalances. -/
theorem group_connections_closed_at_exit (c : Group.Cfg) (cs : CS) (h : ReachableC c cs) (hx : cs.g.pc = .exited) :
    cs.opened = cs.closed ∧ cs.owedOpen = 0 ∧ cs.owedClose = 0 := by
  have k := k_reachable c cs h
  obtain ⟨h1, h2⟩ := k.gone hx
  have := k.acct
  simp [hx, held, bootPC, connPC, b2n, h1, h2] at this
  exact ⟨this, h1, h2⟩

example : (runC ⟨0, true⟩ {} [.ev (.connectRes none), .copen, .ev (.findRes none), .ev (.connectRes none), .copen, .cclose,
    .ev (.joinErr "" .kafka), .cclose, .ev (.nextGenRet "" (some .kafka)), .ev (.leave ""), .ev .closeCall,
    .ev (.errDeliver .kafka false), .ev (.leave ""), .ev .runExit]).map (fun s => (s.opened, s.closed)) = some (2, 2) := by
  decide

end KV.C09

/-! ## Reader.Close as a system of its components (Model/ReaderCloseSystem.lean) -/
namespace KV.C09
open KV

/-- **reader_system_close_terminates** — `Reader.Close` over its components (fetchers = Model/FetcherLife, the group's
`run` goroutine = the group builder's Model/GroupRun, glued as in `(*Reader).Close`): in every state satisfying the
system invariant (after the mark every fetcher's context is done, the group is closed and its state reachable), every
internal step of any component, `closeMsgs` and `closeReturn` strictly lower
`mu` = Σ fetcher ranks + runMu(group) + pending close steps. -/
theorem reader_system_close_terminates (c : Group.Cfg) (s s' : ReaderCloseSystem.State) (e : ReaderCloseSystem.Event)
    (hi : ReaderCloseSystem.Inv c s) (hm : s.close = 2) (he : ReaderCloseSystem.internal e = true)
    (h : ReaderCloseSystem.step c s e = some s') : ReaderCloseSystem.mu c s' < ReaderCloseSystem.mu c s :=
  ReaderCloseSystem.mu_decreases c s s' e hi hm he h

/-- the invariant holds initially and is preserved by every step of the system -/
theorem reader_system_invariant (c : Group.Cfg) (grp : Bool) :
    ReaderCloseSystem.Inv c { group := if grp then some {} else none } ∧
    ∀ s s' e, ReaderCloseSystem.Inv c s → ReaderCloseSystem.step c s e = some s' → ReaderCloseSystem.Inv c s' :=
  ⟨ReaderCloseSystem.inv_init c grp, fun s s' e hi h => ReaderCloseSystem.inv_step c s s' e hi h⟩

/-- **reader_system_close_progress** — while Close waits after the mark, a control step of a fetcher, a step of the
group's `run` goroutine (or the start of a generation's internal function), `closeMsgs` or `closeReturn` is enabled —
except while `run` is inside `gen.close()` (C15 `close_returns_after_all_exits`). -/
theorem reader_system_close_progress (c : Group.Cfg) (s : ReaderCloseSystem.State) (hi : ReaderCloseSystem.Inv c s)
    (hm : s.close = 2) (hw : ∀ g, s.group = some g → ∀ ret r, g.pc ≠ .waiting ret r) :
    ∃ e, (ReaderCloseSystem.internal e = true ∨ ∃ gi acc, e = .group (.gStart gi acc)) ∧
      (ReaderCloseSystem.step c s e).isSome :=
  ReaderCloseSystem.system_progress c s hi hm hw

end KV.C09

/-! ## Writer.Close on the detailed Writer model (Model/Writer.lean, tied deterministically by C01/C07/C08) -/
namespace KV.C09

/-- **writer_detail_close_return_complete** — on the writer builder's 25-event Writer LTS (every hook event of
writer.go is one model event; C01/C07/C08 replay the recorded hook traces through it one-to-one): in every reachable
state in which `Close` may return (`closeReturn` enabled: closed, WaitGroup counter zero, every partition writer's
goroutine exited)
* every WriteMessages call that ever began has returned,
* every batch ever created is done, and with a Completion callback configured the callback ran exactly once for it,
  with the batch's final error code,
* every message of every call that got through `batchMessages` (result ok / async / ctx / write errors) sits in such
  a batch: it was sent, or its attempts were exhausted, before Close returned.
This is `all_completed_before_close_return` restated on the model whose tie is deterministic; the liveness half
(`close_terminates`) stays on Model/WriterClose. -/
theorem writer_detail_close_return_complete (cfg : KV.Writer.Cfg) (s s' : KV.Writer.State)
    (hr : KV.Writer.Reachable cfg s) (hs : KV.Writer.step cfg s .closeReturn = some s') :
    (∀ c C, s.calls c = some C → C.phase = .returned) ∧
    (∀ b B, s.batches b = some B → ∃ code, B.done = some code ∧
       (cfg.completion = true → B.ncompl = 1 ∧ B.cbCode = some code) ∧ (cfg.completion = false → B.ncompl = 0)) ∧
    (∀ c C, s.calls c = some C → KV.WriterCloseDetail.accepted C = true → ∀ i, i < C.msgs.length →
       ∃ b B code, C.place i = some b ∧ s.batches b = some B ∧ (∃ m ∈ B.msgs, m.msg = (c, i)) ∧ B.done = some code) :=
  KV.WriterCloseDetail.close_return_complete cfg s s' hr hs

/-- the invariants behind it hold in every reachable state of the detailed model -/
theorem writer_detail_close_invariants (cfg : KV.Writer.Cfg) (s : KV.Writer.State) (hr : KV.Writer.Reachable cfg s) :
    KV.WriterCloseDetail.DI s ∧ KV.WriterCloseDetail.CI s ∧ KV.WriterCloseDetail.AI s :=
  ⟨KV.WriterCloseDetail.di_reachable cfg s hr, KV.WriterCloseDetail.ci_reachable cfg s hr,
   KV.WriterCloseDetail.ai_reachable cfg s hr⟩

/-- **writer_detail_close_progress** — Close cannot get stuck on the detailed Writer model: in every reachable state
with the writer closed in which `closeReturn` is not yet enabled, some driven event is enabled — a step of Close (detach
the open batch, queue it, close a queue, release the mutex), of a partition writer's goroutine (take a batch, attempt,
broker decision, Completion, complete, exit on the closed empty queue), or of a call already inside WriteMessages (next
balancing step, ErrClosedPipe, return).  No new caller, no context cancellation and no batch timer is needed.
(`MaxAttempts ≥ 1` is the library's own normalisation.)  The original D1 window is excluded by the model's guards
`batch` / `newPW` requiring `closed = false`, which C01/C07/C08 tie to the code trace by trace. -/
theorem writer_detail_close_progress (cfg : KV.Writer.Cfg) (hmax : 1 ≤ cfg.maxAttempts) (s : KV.Writer.State)
    (hr : KV.Writer.Reachable cfg s) (hc : s.closed = true) (hn : KV.Writer.step cfg s .closeReturn = none) :
    ∃ e, KV.WriterCloseDetail.driven e = true ∧ (KV.Writer.step cfg s e).isSome = true :=
  KV.WriterCloseDetail.close_progress cfg hmax s hr hc hn

/-- the invariants the progress proof adds -/
theorem writer_detail_progress_invariants (cfg : KV.Writer.Cfg) (s : KV.Writer.State) (hr : KV.Writer.Reachable cfg s) :
    KV.WriterCloseDetail.PI s ∧ KV.WriterCloseDetail.QI s ∧ KV.WriterCloseDetail.CS cfg s :=
  ⟨KV.WriterCloseDetail.pi_reachable cfg s hr, KV.WriterCloseDetail.qi_reachable cfg s hr,
   KV.WriterCloseDetail.cs_reachable cfg s hr⟩

/-- **writer_detail_close_measure_decreases** — on the detailed Writer model every *closing* event (a step of Close after
its begin, of a partition writer's goroutine, of the broker, of a call already past `enter()`) strictly lowers
`closeMu` = [Close holds the mutex] + calls between `enter()` and their identification + Σ partition writers (sender
steps left, queued / pending / open batches, queue still open, goroutine not exited) + Σ calls (steps to their return),
in every reachable state — except that a call identifying itself (`begin_`) first brings its own work (`evCost`). -/
theorem writer_detail_close_measure_decreases (cfg : KV.Writer.Cfg) (hmax : 1 ≤ cfg.maxAttempts) (s s' : KV.Writer.State)
    (hr : KV.Writer.Reachable cfg s) (e : KV.Writer.Event) (hcl : KV.WriterCloseDetail.closing s e = true)
    (hs : KV.Writer.step cfg s e = some s') :
    KV.WriterCloseDetail.closeMu cfg s' < KV.WriterCloseDetail.closeMu cfg s + KV.WriterCloseDetail.evCost e :=
  KV.WriterCloseDetail.closing_decreases cfg hmax s s' hr e hcl hs

/-- **writer_detail_close_terminates** — Close terminates on the detailed Writer model in every schedule: from a
reachable state with the writer closed, every run of closing events has at most `closeMu` + `runCost` steps (`runCost`:
the work of the at most `entered` calls that passed `enter()` before Close and identify themselves during the run), and
a run that cannot be extended ends in a state in which `closeReturn` is enabled.  (Outside the closing set: new callers,
further Close calls, timers — Close needs none —, and the events that need an open writer, which are disabled once
`closed`.)  With `writer_detail_close_return_complete` this is the whole Writer clause of C09 on the model that
C01/C07/C08 replay hook traces through one event at a time. -/
theorem writer_detail_close_terminates (cfg : KV.Writer.Cfg) (hmax : 1 ≤ cfg.maxAttempts) (s : KV.Writer.State)
    (hr : KV.Writer.Reachable cfg s) (hc : s.closed = true) (es : List KV.Writer.Event)
    (s' : KV.Writer.State) (hrun : KV.WriterCloseDetail.closingRun cfg s es = some s') :
    es.length ≤ KV.WriterCloseDetail.closeMu cfg s + KV.WriterCloseDetail.runCost es ∧
    ((∀ e, KV.WriterCloseDetail.closing s' e = true → KV.Writer.step cfg s' e = none) →
      (KV.Writer.step cfg s' .closeReturn).isSome = true) :=
  KV.WriterCloseDetail.close_terminates_detail cfg hmax s hr hc es s' hrun

/-- not vacuous: a run of the detailed model in which Close begins while a batch is still queued, the batch is then
sent, its Completion runs, the call returns, the sender exits and Close returns -/
def detailCfg : KV.Writer.Cfg :=
  { batchSize := 1, batchBytes := 100, maxAttempts := 1, async := false, completion := true, topic := "t",
    retriable := fun _ => false }

example : KV.Writer.accepts detailCfg
    [.enter true, .begin_ 1 [{ size := 1, topic := "" }], .assign 1 0 ("t", 0), .batch 1,
     .newPW 1 1 ("t", 0), .newBatch 1 1, .add 1 1 1 0 1, .detach 1 1 .full 0, .qput 1 1 true, .batched 1,
     .closeBegin, .qclose 1, .closeMarked 1,
     .qget 1 (some 1), .attempt 1 1 0, .produce 1 ("t", 0) [(1, 0)] .acked, .attemptDone 1 1 0 0,
     .completion 1 1 0, .complete 1 1 0, .ret 1 .ok, .qget 1 none, .closeReturn] = true := by decide

/-- … and everything between CloseBegin and CloseReturn in that run is a closing event -/
example : ((KV.Writer.run detailCfg KV.Writer.State.init
    [.enter true, .begin_ 1 [{ size := 1, topic := "" }], .assign 1 0 ("t", 0), .batch 1,
     .newPW 1 1 ("t", 0), .newBatch 1 1, .add 1 1 1 0 1, .detach 1 1 .full 0, .qput 1 1 true, .batched 1,
     .closeBegin]).bind (fun s => KV.WriterCloseDetail.closingRun detailCfg s
    [.qclose 1, .closeMarked 1, .qget 1 (some 1), .attempt 1 1 0, .produce 1 ("t", 0) [(1, 0)] .acked,
     .attemptDone 1 1 0 0, .completion 1 1 0, .complete 1 1 0, .ret 1 .ok, .qget 1 none])).isSome = true := by decide

end KV.C09

/-! ## inside `gen.close()` (Lemmas/GroupCloseProgress.lean) -/
namespace KV.C09

/-- **group_close_wait_progress** — while the `run` goroutine waits inside `(*Generation).close` (`<-g.joined`), in
every reachable state either `close()` can return or one of the generation's functions can take a step towards its
exit: a pending exit section, the heartbeat loop, a partition watcher (their coordinator calls return; they see the
cancelled generation context), or an application function still inside its body (`Generation.Start`'s contract; for
the Reader: the commit loop and the unsubscribe function).  Rests on the accounting invariant `routines` = pending exit
sections + live heartbeat + live accounted watchers + application functions inside their body. -/
theorem group_close_wait_progress (c : Group.Cfg) (s : Group.St) (hr : Group.Reachable c s) (ret : Option Group.Err)
    (r : Nat) (hp : s.pc = .waiting ret r) :
    ∃ e, GroupClose.genEv e = true ∧ (Group.step c s e).isSome = true :=
  GroupClose.waiting_progress c s hr ret r hp

/-- **group_run_progress** — `group_run_progress_partial` without its exception: once the group is closed the `run`
goroutine (or, inside `gen.close()`, a function of the generation it waits for) has an enabled step in every reachable
state until `run` has exited. -/
theorem group_run_progress (c : Group.Cfg) (s : Group.St) (hr : Group.Reachable c s) (hc : s.closedCG = true)
    (hx : s.pc ≠ .exited) :
    ∃ e, (e.runLoop = true ∨ (∃ g acc, e = .gStart g acc) ∨ GroupClose.genEv e = true) ∧
      (Group.step c s e).isSome = true :=
  GroupClose.run_progress_full c s hr hc hx

/-- **reader_system_close_progress_full** — `reader_system_close_progress` without its exception: while Reader.Close
waits after the mark some component can always move. -/
theorem reader_system_close_progress_full (c : Group.Cfg) (s : ReaderCloseSystem.State)
    (hi : ReaderCloseSystem.Inv c s) (hm : s.close = 2) :
    ∃ e, (ReaderCloseSystem.internal e = true ∨ (∃ gi acc, e = .group (.gStart gi acc)) ∨
          ∃ ge, e = .group ge ∧ GroupClose.genEv ge = true) ∧ (ReaderCloseSystem.step c s e).isSome = true :=
  GroupClose.system_progress_full c s hi hm

end KV.C09

/-! ## Blocking network operations of a fetcher and their deadlines (Model/FetcherDeadlines.lean; round 6, C09-m8) -/
namespace KV.C09
open KV.FetcherLife

/-- the deadline facts of the source: regenerated by go/extract closeproto from reader.go on every run -/
def sourceNet : NetFacts :=
  ⟨Gen.CloseFacts.fetcherOffsetRequestsHaveDeadline, Gen.CloseFacts.fetcherReadHasDeadline⟩

/-- **fetcher_never_blocked_silent_broker** — with a deadline on every blocking network operation of `(*reader).run`
(the offsets requests of `initialize` and of the OffsetOutOfRange recovery: `SetDeadline`; the fetch: `SetReadDeadline`)
a cancelled fetcher that has not exited always has an enabled control step even when the broker has stopped answering
(`stepSilent`: the return of an operation is possible only through its deadline); it is `cancel` only when the pending
sleep really sees the context done, inside a network operation it is that operation's failed return.  Every such step
lowers `rank` (≤ 10 steps). -/
theorem fetcher_never_blocked_silent_broker (f : NetFacts) (ho : f.offsets = true) (hr : f.read = true)
    (s : FetcherLife.State) (hc : s.cancelled = true) (hx : s.pc ≠ .exited) :
    (∃ e, e.control = true ∧ (stepSilent f s e).isSome = true ∧ (e = .cancel → s.sampled = true)) ∧
    (∀ e s', e.control = true → stepSilent f s e = some s' → FetcherLife.rank s' < FetcherLife.rank s) :=
  ⟨progress_after_cancel_silent f ho hr s hc hx,
   fun e s' he h => (terminates_after_cancel_silent f s s' e hc he h).1⟩

/-- **fetcher_never_blocked_for_source** — the same for the code as it is: the two deadline facts are the ones
extracted from reader.go, so replacing `r.readOffsets(conn)` by a bare `conn.ReadOffsets()` (C09-m8), or dropping a
`SetDeadline` / `SetReadDeadline`, breaks this theorem. -/
theorem fetcher_never_blocked_for_source (s : FetcherLife.State) (hc : s.cancelled = true) (hx : s.pc ≠ .exited) :
    ∃ e, e.control = true ∧ (stepSilent sourceNet s e).isSome = true ∧ (e = .cancel → s.sampled = true) :=
  progress_after_cancel_silent sourceNet (by decide) (by decide) s hc hx

/-- **fetcher_blocked_without_deadline** — the converse, which is the hang of C09-m8: blocked in a network operation
that no deadline bounds, against a silent broker the fetcher has no step left (its context being cancelled changes
nothing: a blocked socket read does not observe it), so `Reader.Close` waits in `r.join.Wait()` for ever. -/
theorem fetcher_blocked_without_deadline (f : NetFacts) (s : FetcherLife.State) (b : NetFacts → Bool)
    (hb : blockedIn s = some b) (hf : b f = false) (e : FetcherLife.Event) (he : e.control = true)
    (hne : e ≠ .cancel ∨ s.pc = .oor) : stepSilent f s e = none :=
  blocked_without_deadline f s b hb hf e he hne

/-- the schedule of C09-m8 in the model: fetch answered OffsetOutOfRange, the follow-up offsets request unanswered, the
context cancelled by Close — with the helper's deadline the request fails and the fetcher exits; without it nothing
is enabled -/
example : (FetcherLife.run {} [.top 0, .init true, .iter, .read .outOfRange, .ctxCancel]).bind
    (fun s => (stepSilent ⟨true, true⟩ s (.offsets false)).bind fun s1 => (stepSilent ⟨true, true⟩ s1 (.top 1)).bind
      fun s2 => (stepSilent ⟨true, true⟩ s2 .cancel).map (·.pc)) = some .exited := by decide
example : (FetcherLife.run {} [.top 0, .init true, .iter, .read .outOfRange, .ctxCancel]).bind
    (fun s => stepSilent ⟨false, true⟩ s (.offsets false)) = none := by decide

end KV.C09

/-! ## Coordinator requests and their deadlines (Model/GroupDeadlines.lean; round 6) -/
namespace KV.C09

/-- **group_run_progress_silent_coordinator** — `group_run_progress` against a coordinator that accepts connections and
reads requests but never answers (`stepSilentG`: an answer is impossible, a request fails locally only through its
deadline): with a deadline on every coordinator request the `run` goroutine of a closed group — or, inside
`gen.close()`, a function of the generation it waits for — still has an enabled step in every reachable state until
`run` has exited; where it waits for the coordinator, the step is the request's failure. -/
theorem group_run_progress_silent_coordinator (c : Group.Cfg) (s : Group.St) (hr : Group.Reachable c s)
    (hc : s.closedCG = true) (hx : s.pc ≠ .exited) :
    ∃ e, (e.runLoop = true ∨ (∃ g acc, e = .gStart g acc) ∨ GroupClose.genEvS e = true) ∧
      (Group.stepSilentG true c s e).isSome = true :=
  GroupClose.run_progress_full_silent c s hr hc hx

/-- **group_run_progress_for_source** — the same with the deadline fact extracted from consumergroup.go (every request
method of `timeoutCoordinator` arms `conn.SetDeadline` before it delegates): dropping one of them breaks this theorem. -/
theorem group_run_progress_for_source (c : Group.Cfg) (s : Group.St) (hr : Group.Reachable c s)
    (hc : s.closedCG = true) (hx : s.pc ≠ .exited) :
    ∃ e, (e.runLoop = true ∨ (∃ g acc, e = .gStart g acc) ∨ GroupClose.genEvS e = true) ∧
      (Group.stepSilentG Gen.CloseFacts.coordinatorCallsHaveDeadline c s e).isSome = true := by
  have h : Gen.CloseFacts.coordinatorCallsHaveDeadline = true := by decide
  rw [h]
  exact GroupClose.run_progress_full_silent c s hr hc hx

/-- **group_run_blocked_without_deadline** — the converse: waiting for the answer of FindCoordinator, JoinGroup,
SyncGroup or LeaveGroup without a deadline, against a silent coordinator `run` has no step left; `ConsumerGroup.Close`
(and `Reader.Close` behind it) waits for ever. -/
theorem group_run_blocked_without_deadline (c : Group.Cfg) (s : Group.St)
    (hp : (∃ lv, s.pc = .coord 1 lv) ∨ s.pc = .joining ∨ s.pc = .syncing ∨ ∃ a, s.pc = .leaveCall a)
    (e : Group.Ev) (he : e.runLoop = true) : Group.stepSilentG false c s e = none :=
  GroupClose.run_blocked_without_deadline c s hp e he

end KV.C09

/-! ## Reader.Close as a system against a silent broker and coordinator (Lemmas/ReaderCloseSilent.lean) -/
namespace KV.C09

/-- **reader_system_close_progress_for_source** — `reader_system_close_progress_full` when broker and coordinator have
stopped answering (`stepSilentSys`: a network operation returns only through its deadline, and then as a failure), for
the code as it is: the fetchers' deadline facts and the coordinator's are the ones extracted from reader.go /
consumergroup.go.  While Reader.Close waits after the mark some component can always move — a cancelled fetcher leaves
its blocked request at the deadline, `run` leaves its coordinator request at the deadline, and so do the generation's
functions.  C09-m8 (and any request that loses its deadline) breaks this theorem. -/
theorem reader_system_close_progress_for_source (c : Group.Cfg) (s : ReaderCloseSystem.State)
    (hi : ReaderCloseSystem.Inv c s) (hm : s.close = 2) :
    ∃ e, (ReaderCloseSystem.internal e = true ∨ (∃ gi acc, e = .group (.gStart gi acc)) ∨
          ∃ ge, e = .group ge ∧ GroupClose.genEvS ge = true) ∧
      (GroupClose.stepSilentSys sourceNet Gen.CloseFacts.coordinatorCallsHaveDeadline c s e).isSome = true := by
  have h : Gen.CloseFacts.coordinatorCallsHaveDeadline = true := by decide
  rw [h]
  exact GroupClose.system_progress_silent sourceNet (by decide) (by decide) c s hi hm

end KV.C09

/-! ## A Transport connection whose exchange is never answered (Model/TransportDeadlines.lean; round 7, C09-m10) -/
namespace KV.C09
open KV.TransportConn

/-- **transport_pool_request_reclaimed_for_source** — a connection serving one of the requests the pool queues for itself
(the background metadata refresh of `connPool.discover`) against a broker that never answers it: the exchange fails at
the request's deadline and the connection exits (goroutine gone, socket closed).  `bounded` is the regenerated fact
`poolOwnRequestsAreBounded` ∧ `connRoundTripArmsDeadlineFromContext` (the request carries the MetadataTTL-bounded context
and `(*conn).roundTrip` arms the socket deadline from it), so C09-m10 breaks this theorem. -/
theorem transport_pool_request_reclaimed_for_source (f : TFacts) (s : TransportConn.State) (c : Nat)
    (hs : get s c = some .serving) :
    ∃ s1 s2, stepSilentT f (fun _ => Gen.CloseFacts.poolOwnRequestsAreBounded && Gen.CloseFacts.connRoundTripArmsDeadlineFromContext)
               s (.done c false false) = some s1 ∧
      stepSilentT f (fun _ => Gen.CloseFacts.poolOwnRequestsAreBounded && Gen.CloseFacts.connRoundTripArmsDeadlineFromContext)
               s1 (.exit c) = some s2 ∧ get s2 c = some .exited :=
  serving_bounded_exits f _ s c hs (by decide)

/-- **transport_unbounded_request_stranded** — the converse (the leak of C09-m10, and of any round trip whose context
has no deadline): the connection stays `serving` under every event possible against a silent broker — neither the
caller's cancellation nor `CloseIdleConnections` / `Writer.Close` reclaims it. -/
theorem transport_unbounded_request_stranded (f : TFacts) (bounded : Nat → Bool) (s s' : TransportConn.State) (c : Nat)
    (e : TransportConn.Ev) (hs : get s c = some .serving) (hb : bounded c = false)
    (h : stepSilentT f bounded s e = some s') : get s' c = some .serving :=
  serving_unbounded_stranded f bounded s s' c e hs hb h

end KV.C09
