/-
Props/C05.lean — "Record batches: what is produced is exactly what a consumer decodes".

Reference side: `Spec/RecordBatch.lean` (independent strict decoder + encoder for message sets v0/v1 and
record batches v2).  Library side: `Model/RecordWriter.lean` (kafka-go's writers), `Model/Pages.lean`
(reference-counted pages of protocol/buffer.go).

Part A  wire primitives: varint / zig-zag / fixed-width round trips, computed size = actual length.
Part B  the reference codec is a codec: decode (encode x ++ rest) = (x, rest) for records, v2 frames, v0/v1
        messages, and whole record sets (any mix of entries, any number of them).
Part C  what the library's writers emit is the Spec encoding of exactly the records given
        (→ an independent decoder accepts it and returns them: order, offset deltas 0..n-1, millisecond
        timestamps, null ≠ empty, headers), for the protocol path and for the Conn path, plain AND compressed
        (abstract compressor with dec∘comp = id), v1 and v2; the computed sizes are the actual lengths; D6: the pre-repair timestamp-delta formula is wrong (counterexample).
Part D  pages: refcount/pool invariant over all op sequences; a page with a live count is never recycled.
Part G  the page buffer's DATA path (Write / WriteAt / ReadAt / scan / Truncate / pageRef reads through the index
        arithmetic of contiguousPages) behaves like one flat byte string (`pagebuffer_*`), tied by op `pbuf`.

Part F  the Client.Fetch-path DECODER (Model/RecordReader: readFromVersion2, readMessage/readFromVersion1,
        RecordSet.ReadFrom, RecordStream) returns on every valid response what the reference decoder returns
        (`decoders_agree_client`), hides control batches (`control_hidden`) and surfaces nothing of a batch with
        a wrong checksum (`bad_crc_yields_no_records`).
        `decoders_agree_bytes`: the Conn/Batch reader model of the C02 builder (Model/MessageSetReader + Batch) fed with
        the tokens read off the same bytes (Spec/ByteTokens) delivers the same records — all formats of the property.
        `decoders_agree_content`: a field-by-field byte-level model of message_reader.go (Model/ConnReader) returns
        the same CONTENT (keys, values, headers, timestamps, offsets) up to null ≈ empty.
Modelling level of the C02 token model: the byte → token step is done by the reference reader (the Go code's field-by-field
reads inside one token are not re-modelled); that step and truncated responses stay tied by correspondence.
-/
import KafkaVerif.Lemmas.RecordBatchSpec
import KafkaVerif.Lemmas.RecordWriter
import KafkaVerif.Lemmas.Pages
import KafkaVerif.Lemmas.PageHeap
import KafkaVerif.Lemmas.RecordReader
import KafkaVerif.Props.C02
import KafkaVerif.Lemmas.ByteTokens
import KafkaVerif.Lemmas.ByteItems
import KafkaVerif.Lemmas.ConnReader
import KafkaVerif.Lemmas.PageBuffer
import KafkaVerif.Lemmas.RecordWriterPaged
import KafkaVerif.Gen.RecordConsts
import KafkaVerif.Gen.RecordLayout

namespace KV.Props.C05
open KV KV.RW KV.Spec.RB

/-! ## Part A — wire primitives -/

theorem zigzag_roundtrip (x : Int) : unzigzag (zigzag x) = x := unzigzag_zigzag x

/-- every varint decodes to itself, whatever follows (no bound on the value) -/
theorem varint_roundtrip (x : Int) (rest : Bytes) : readVarint (varint x ++ rest) = some (x, rest) :=
  readVarint_varint x rest

/-- `sizeOfVarInt` (protocol/size.go, `bits.Len64` formula) and `varIntLen` (write.go, loop) are both the
actual encoded length -/
theorem varint_size (x : Int) :
    Model.RecordWriter.sizeOfVarInt x = (varint x).length ∧ Model.RecordWriter.varIntLen x = (varint x).length :=
  ⟨Model.RecordWriter.sizeOfVarInt_eq x, Model.RecordWriter.varIntLen_eq x⟩

theorem int64_roundtrip (x : Int) (rest : Bytes) (h : InRange M64 x) : readI64 (i64 x ++ rest) = some (x, rest) :=
  readI64_i64 x rest h

example : InRange M64 (-9223372036854775808) ∧ InRange M64 9223372036854775807 := by decide

/-! ## Part B — the reference codec round-trips -/

/-- records of a v2 batch: keys/values/headers (null ≠ empty), deltas, order; exactly `n` records -/
theorem v2_records_roundtrip (xs : List RecV2) : decodeRecs (xs.length : Int) (encRecs xs) = some xs :=
  decodeRecs_encRecs xs

/-- null and empty are different on the wire -/
theorem null_ne_empty : varbytes none ≠ varbytes (some []) ∧ nbytes none ≠ nbytes (some []) := by
  constructor
  · simp only [varbytes, varint]
    rw [uvarint, uvarint]
    simp [zigzag, byte]
    rw [uvarint]
    simp [byte]
  · simp [nbytes, i32, beN, toU, M32, byte]

theorem v2_frame_roundtrip (crc : Bytes → Nat) (hcrc : ∀ b, crc b < M32) (f : FrameV2) (h : f.WF) (rest : Bytes) :
    readFrame crc (encFrame crc f ++ rest) = some (f, rest) :=
  readFrame_encFrame crc hcrc f h rest

theorem msg_roundtrip (crc : Bytes → Nat) (hcrc : ∀ b, crc b < M32) (m : Msg) (h : m.WF) (rest : Bytes) :
    readMsg crc (encMsg crc m ++ rest) = some (m, rest) :=
  readMsg_encMsg crc hcrc m h rest

def Entry.WF : Entry → Prop
  | .msg m => m.WF
  | .batch f => f.WF

/-- several batches per response, any mix of formats: the whole set decodes to the entries, in order -/
theorem set_roundtrip (c : Crcs) (h1 : ∀ b, c.ieee b < M32) (h2 : ∀ b, c.castagnoli b < M32)
    (es : List Entry) (h : ∀ e ∈ es, Entry.WF e) : decodeSet c (encSet c es) = some es :=
  decodeSet_encSet c h1 h2 es (fun e he => by have := h e he; cases e <;> simpa [Entry.WF] using this)

/-- a checksum that does not match makes the strict decoder reject the entry -/
theorem bad_crc_rejected_v2 (crc : Bytes → Nat) (hcrc : ∀ b, crc b < M32) (f : FrameV2) (h : f.WF) (rest : Bytes)
    (c' : Nat) (hc : c' < M32) (hne : c' ≠ crc (frameBody f)) :
    readFrame crc (i64 f.baseOffset ++ (i32 ((9 + (frameBody f).length : Nat) : Int) ++ (i32 f.leaderEpoch ++
      (i8 2 ++ (u32 c' ++ frameBody f)))) ++ rest) = none :=
  readFrame_badcrc crc hcrc f h rest c' hc hne

/-- hypotheses are satisfiable: a concrete batch header and a concrete message -/
example : (⟨100, 0, 0, 1, 1600000000000, 1600000000001, -1, -1, -1, 2, [12, 0, 0, 0, 1, 0]⟩ : FrameV2).WF := by
  unfold FrameV2.WF; decide

example : (⟨7, 1, 0, 1600000000000, none, some [1, 2]⟩ : Msg).WF := by
  unfold Msg.WF; decide

/-! ## Part C — the writers -/

open Model.RecordWriter

/- `expected times recs` (Lemmas/RecordWriter): the logical records a consumer must see for a produced list:
offsets 0..n-1, the given millisecond timestamps, keys/values/headers untouched, same order. -/
example : expected [5, 7] [⟨0, none, some [], []⟩, ⟨0, some [1], none, [⟨[2], none⟩]⟩]
    = [⟨0, 5, none, some [], []⟩, ⟨1, 7, some [1], none, [⟨[2], none⟩]⟩] := by decide

/-- `protocol/record_v2.go writeToVersion2` (uncompressed): the bytes are one well-formed v2 batch which the
independent decoder accepts (consistent lengths, valid checksum, count, deltas 0..n-1) and which carries
exactly the given records, in order, with their millisecond timestamps. -/
theorem v2_write_spec (crc : Bytes → Nat) (hcrc : ∀ b, crc b < M32) (attrs now : Int) (recs : List PRec)
    (hne : recs ≠ []) (hwf : (frameOfV2 attrs now recs).WF) (hcodec : codecOf attrs = 0)
    (hlog : logAppend attrs = false) :
    ∃ bytes f, writeV2 crc attrs now recs = some bytes ∧
      readFrame crc bytes = some (f, []) ∧ f.baseOffset = 0 ∧ f.count = recs.length ∧
      f.lastOffsetDelta = (recs.length : Int) - 1 ∧
      flattenEntry ⟨crc, crc⟩ (fun _ _ => none) (.batch f) =
        some (isControl attrs, expected (recs.map (effTime now)) recs) :=
  writeV2_spec crc hcrc attrs now recs hne hwf hcodec hlog

/-- `Conn.WriteMessages` (produce v3/v7, uncompressed): `recordBatch.writeTo` + `writeRecordBatch` +
`writeRecord` emit a batch the independent decoder accepts, with the length field computed by
`recordBatchSize` equal to the real length, and each record's timestamp = ms(t) exactly (times in ns). -/
theorem legacy_v2_write_spec (crc : Bytes → Nat) (hcrc : ∀ b, crc b < M32) (recs : List PRec)
    (hne : recs ≠ []) (hwf : (legacyFrame recs).WF) :
    ∃ f, readFrame crc (legacyBatch crc recs) = some (f, []) ∧ f.baseOffset = 0 ∧ f.count = recs.length ∧
      f.lastOffsetDelta = (recs.length : Int) - 1 ∧
      flattenEntry ⟨crc, crc⟩ (fun _ _ => none) (.batch f) =
        some (false, expected (recs.map (fun r => timestampOf r.time)) recs) :=
  legacyBatch_spec crc hcrc recs hne hwf

/-- protocol `writeToVersion2` WITH compression (any codec: abstract compressor `comp`, decompressor `dec` with
`dec (comp p) = p`): header fields, count, deltas as in the plain case, CRC over attributes..end of the compressed
payload; decompressing and decoding gives back exactly the given records -/
theorem v2_write_compressed_spec (crc : Bytes → Nat) (hcrc : ∀ b, crc b < M32) (comp : Bytes → Bytes)
    (dec : Int → Bytes → Option Bytes) (attrs now : Int) (recs : List PRec)
    (hne : recs ≠ []) (hwf : (frameOfV2C comp attrs now recs).WF) (hcodec : codecOf attrs ≠ 0)
    (hlog : logAppend attrs = false) (hdec : ∀ p, dec (codecOf attrs) (comp p) = some p) :
    ∃ bytes f, writeV2C crc comp attrs now recs = some bytes ∧
      readFrame crc bytes = some (f, []) ∧ f.baseOffset = 0 ∧ f.count = recs.length ∧
      f.lastOffsetDelta = (recs.length : Int) - 1 ∧
      flattenEntry ⟨crc, crc⟩ dec (.batch f) = some (isControl attrs, expected (recs.map (effTime now)) recs) :=
  writeV2C_spec crc hcrc comp dec attrs now recs hne hwf hcodec hlog hdec

/-- Conn `WriteCompressedMessages`, produce v3/v7 (`compressRecordBatch` + `writeRecordBatch`) -/
theorem legacy_v2_write_compressed_spec (crc : Bytes → Nat) (hcrc : ∀ b, crc b < M32) (comp : Bytes → Bytes)
    (dec : Int → Bytes → Option Bytes) (code : Int) (recs : List PRec)
    (hne : recs ≠ []) (hwf : (legacyFrameC comp code recs).WF) (hcodec : codecOf code ≠ 0)
    (hlog : logAppend code = false) (hdec : ∀ p, dec (codecOf code) (comp p) = some p) :
    ∃ f, readFrame crc (legacyBatchC crc comp code recs) = some (f, []) ∧ f.baseOffset = 0 ∧ f.count = recs.length ∧
      f.lastOffsetDelta = (recs.length : Int) - 1 ∧
      flattenEntry ⟨crc, crc⟩ dec (.batch f) =
        some (isControl code, expected (recs.map (fun r => timestampOf r.time)) recs) :=
  legacyBatchC_spec crc hcrc comp dec code recs hne hwf hcodec hlog hdec

/-- protocol `writeToVersion1` WITH compression: exactly one wrapper message (null key, value = compressed set) that
the reference decoder accepts, and the uncompressed set it wraps decodes to the given records, offsets 0..n-1 -/
theorem v1_write_compressed_spec (c : Crcs) (h1 : ∀ b, c.ieee b < M32) (h2 : ∀ b, c.castagnoli b < M32)
    (comp : Bytes → Bytes) (attrs now : Int) (recs : List PRec)
    (hw : (⟨0, 1, attrs, now, none, some (comp (writeV1 c.ieee (attrs - attrs % 8) now 0 recs))⟩ : Msg).WF)
    (hwf : ∀ m ∈ msgsOfV1 (attrs - attrs % 8) now 0 recs, m.WF) :
    decodeSet c (writeV1C c.ieee comp attrs now recs) =
      some [.msg ⟨0, 1, attrs, now, none, some (comp (writeV1 c.ieee (attrs - attrs % 8) now 0 recs))⟩] ∧
    decodeSet c (writeV1 c.ieee (attrs - attrs % 8) now 0 recs) =
      some ((msgsOfV1 (attrs - attrs % 8) now 0 recs).map Entry.msg) :=
  writeV1C_spec c h1 h2 comp attrs now recs hw hwf

/-- Conn produce v2 (`writeMessage`, `compressMessageSet`): `messageSize` is the real size; the plain set and the set
inside a wrapper decode to the given messages; the wrapper is `encMsg ⟨0, 1, code, 0, null, compressed⟩` -/
theorem legacy_v1_write_spec (c : Crcs) (h1 : ∀ b, c.ieee b < M32) (h2 : ∀ b, c.castagnoli b < M32)
    (comp : Bytes → Bytes) (code : Int) (recs : List PRec)
    (hwf0 : ∀ m ∈ legacyMsgs 0 (fun _ => 0) 0 recs, m.WF) (hwf1 : ∀ m ∈ legacyMsgs 0 (fun j => (j : Int)) 0 recs, m.WF) :
    decodeSet c (legacyMessageSet c.ieee recs) = some ((legacyMsgs 0 (fun _ => 0) 0 recs).map Entry.msg) ∧
    decodeSet c (legacyInner c.ieee 0 recs) = some ((legacyMsgs 0 (fun j => (j : Int)) 0 recs).map Entry.msg) ∧
    legacyWrapper c.ieee comp code recs = encMsg c.ieee ⟨0, 1, code, 0, none, some (comp (legacyInner c.ieee 0 recs))⟩ :=
  ⟨(Model.RecordWriter.legacy_v1_write_spec c h1 h2 recs hwf0 hwf1).1,
   (Model.RecordWriter.legacy_v1_write_spec c h1 h2 recs hwf0 hwf1).2, legacyWrapper_eq c.ieee comp code recs⟩

/-- the size announced in front of the batch (`recordBatch.size`, also used for the request size) is the
number of bytes written -/
theorem legacy_size_exact (crc : Bytes → Nat) (recs : List PRec) (hne : recs ≠ []) :
    (legacyBatch crc recs).length = recordBatchSizeWith tsDelta (recs.head hne).time 0 recs :=
  legacyBatch_length crc recs hne

/-- D6: with the pinned formula `milliseconds(t - base)` the decoded timestamp differs from ms(t):
base 0.9 ms, t 1.1 ms → firstTimestamp 0 + delta 0 = 0 although ms(t) = 1 (and the other direction for
t < base).  The repaired formula is exact (`legacy_v2_write_spec`). -/
theorem legacy_v2_timestamp_counterexample :
    timestampOf 900000 + tsDeltaOld 900000 1100000 ≠ timestampOf 1100000 ∧
    timestampOf 1100000 + tsDeltaOld 1100000 900000 ≠ timestampOf 900000 := by decide

/-- the repaired delta is exact for all times -/
theorem legacy_timestamp_exact (base t : Int) : timestampOf base + tsDelta base t = timestampOf t := by
  unfold tsDelta; omega

/-- `protocol/record_v1.go writeToVersion1` (uncompressed) and the Conn v1 writer: the message set decodes to
the given records (v1 has no headers), offsets 0..n-1 -/
theorem v1_write_spec (c : Crcs) (h1 : ∀ b, c.ieee b < M32) (h2 : ∀ b, c.castagnoli b < M32)
    (attrs now : Int) (recs : List PRec) (hwf : ∀ m ∈ msgsOfV1 attrs now 0 recs, m.WF) :
    decodeSet c (writeV1 c.ieee attrs now 0 recs) = some ((msgsOfV1 attrs now 0 recs).map Entry.msg) :=
  writeV1_spec c h1 h2 attrs now recs hwf

/-- known finding C05-D32, at model level: the format-1 writer never looks at the headers — records that differ only in
their headers produce the same bytes (so the headers cannot reach a consumer; the code returns no error either) -/
theorem v1_drops_headers (crc : Bytes → Nat) (attrs now : Int) : ∀ (rs : List PRec) (i : Nat),
    writeV1 crc attrs now i rs = writeV1 crc attrs now i (rs.map fun r => { r with headers := [] })
  | [], _ => rfl
  | r :: rs, i => by
    simp only [writeV1, List.map_cons, v1_drops_headers crc attrs now rs (i + 1)]
    rfl

/-- **the sizing and the writing of the variable-length record fields agree, in the source as it is now** (go/ast,
`go/extract sizefns` → Gen/SizeFns): `sizeOfVarString` / `sizeOfVarNullBytes` / `sizeOfVarNullBytesIface` size their length
prefix with the zig-zag `sizeOfVarInt`, exactly as `writeVarString` / `writeVarNullBytes` / `writeVarNullBytesFrom` write it
with `writeVarInt`; both zig-zag maps shift by 1 and 63; `sizeOfUnsignedVarInt` is `(bits.Len64(i|1) + 6) / 7`; and the
per-record length of `writeToVersion2` adds up the sizers of exactly the fields the record loop writes, in their order.
(The writer model computes the length with the extracted names: `recordV2_eq` depends on them.) -/
theorem gen_size_calls :
    Gen.SizeFns.varStringCalls = ["sizeOfVarInt"] ∧ Gen.SizeFns.writeVarStringCalls = ["writeVarInt"] ∧
    Gen.SizeFns.varNullBytesCalls = ["sizeOfVarInt", "sizeOfVarInt"] ∧
    Gen.SizeFns.writeVarNullBytesCalls = ["writeVarInt", "writeVarInt"] ∧
    Gen.SizeFns.varNullBytesIfaceCalls = ["sizeOfVarInt", "sizeOfVarInt"] ∧
    Gen.SizeFns.writeVarNullBytesFromCalls = ["writeVarInt", "writeVarInt"] ∧
    Gen.SizeFns.varIntCalls = ["sizeOfUnsignedVarInt"] ∧ Gen.SizeFns.writeVarIntCalls = ["writeUnsignedVarInt"] ∧
    Gen.SizeFns.varIntShifts = [1, 63] ∧ Gen.SizeFns.writeVarIntShifts = [1, 63] ∧
    Gen.SizeFns.unsignedConsts = [1, 6, 7] ∧
    Gen.SizeFns.recordLengthCalls = ["sizeOfVarInt", "sizeOfVarInt", "sizeOfVarNullBytesIface", "sizeOfVarNullBytesIface",
      "sizeOfVarInt", "sizeOfVarString", "sizeOfVarNullBytes"] := by decide

/-- the same for the Conn path (write.go / recordbatch.go): `recordSize` adds up `var…Len` of exactly what `writeRecord`
writes, in its order; every `var…Len` helper sizes its prefix with `varIntLen`, whose zig-zag shifts are 1 and 63 and which
counts 7 bits per byte from the threshold 0x80 (Model/RecordWriter `varIntLen`, `recordSize`; `legacyBatch_spec`) -/
theorem gen_legacy_size_calls :
    Gen.SizeFns.legacyRecordSizeCalls =
      ["varIntLen", "varIntLen", "varBytesLen", "varBytesLen", "varArrayLen", "varStringLen", "varBytesLen"] ∧
    Gen.SizeFns.legacyWriteRecordCalls =
      ["writeVarInt", "writeInt8", "writeVarInt", "writeVarInt", "writeVarBytes", "writeVarBytes", "writeVarArray",
        "writeVarString", "writeVarBytes"] ∧
    Gen.SizeFns.legacyVarBytesLenCalls = ["varIntLen"] ∧ Gen.SizeFns.legacyVarStringLenCalls = ["varIntLen"] ∧
    Gen.SizeFns.legacyVarArrayLenCalls = ["varIntLen"] ∧
    Gen.SizeFns.legacyVarIntLenShifts = [1, 63] ∧ Gen.SizeFns.legacyVarIntLenLits = [1, 63, 0, 128, 7, 1] := by decide

/-- the record length the v2 writer announces is the number of bytes the record body occupies — for EVERY record, in
particular at the sizes where the zig-zag varint of a length is one byte longer than the unsigned one (64..127,
8192..16383, …: seeded change C05-m7) -/
theorem v2_record_length_exact (first : Int) (i : Nat) (t : Int) (r : PRec) :
    ∃ body, recordV2 first i t r = varint (body.length : Int) ++ body ∧
      readRec (recordV2 first i t r) = some (specRec (t - first) i r, []) := by
  refine ⟨recBody (specRec (t - first) i r), by rw [recordV2_eq]; rfl, ?_⟩
  rw [recordV2_eq]
  have := readRec_encRec (specRec (t - first) i r) []
  simpa using this

/-! ## Part F — the library's DECODER on the Client.Fetch path (Model/RecordReader) -/

open Model.RecordReader in
/-- `decoders_agree`, Client.Fetch side: on every valid response — any sequence of v2 batches (any codec whose
decompressor returns the encoded records, any attribute bits: transactional, control, timestamp type, delete
horizon, unknown bits; compaction gaps: any deltas), plain v0/v1 messages and compressed v1 WRAPPERS with relative
inner offsets (also compacted: any inner offsets), any number of entries — the decoder model (`RecordSet.ReadFrom` + `RecordStream`) returns exactly
the records and absolute offsets of the reference decoder, minus control batches. -/
theorem decoders_agree_client (c : Crcs) (h1 : ∀ b, c.ieee b < M32) (h2 : ∀ b, c.castagnoli b < M32)
    (dec : Int → Bytes → Option Bytes) (es : List Entry) (gs : List (Bool × List Rec)) (h : AllGood c dec es gs) :
    flattenAll c dec es = some gs ∧ clientFetch c dec (encSet c es) = surfaced gs := by
  refine ⟨flattenAll_good c h1 h2 dec es gs h, ?_⟩
  have := libReadSet_encSet c h1 h2 dec es gs h [] (encSet c es).length (encSet_length_ge c es)
  simp only [List.append_nil] at this
  simp only [clientFetch, this]
  cases (encSet c es).length - es.length <;> simp [libReadSet]

open Model.RecordReader in
/-- `control_hidden`: nothing of a control batch is surfaced; everything else is, in order -/
theorem control_hidden (c : Crcs) (h1 : ∀ b, c.ieee b < M32) (h2 : ∀ b, c.castagnoli b < M32)
    (dec : Int → Bytes → Option Bytes) (es : List Entry) (gs : List (Bool × List Rec)) (h : AllGood c dec es gs) :
    clientFetch c dec (encSet c es) = ((gs.filter (fun g => !g.1)).flatMap (·.2)) ∧
    (∀ g ∈ gs, g.1 = true → ∀ r ∈ g.2, r ∈ clientFetch c dec (encSet c es) →
        ∃ g' ∈ gs, g'.1 = false ∧ r ∈ g'.2) := by
  have hc := (decoders_agree_client c h1 h2 dec es gs h).2
  refine ⟨hc, ?_⟩
  intro g _ _ r _ hr
  rw [hc] at hr
  simp only [surfaced, List.mem_flatMap, List.mem_filter] at hr
  obtain ⟨g', ⟨hg', hf⟩, hr'⟩ := hr
  exact ⟨g', hg', by simpa using hf, hr'⟩

open Model.RecordReader in
/-- `bad_crc_yields_no_records`: a batch whose stored checksum differs from the computed one ends decoding: the
records of the entries before it are surfaced, none of the corrupt batch (nor anything after it) -/
theorem bad_crc_yields_no_records (c : Crcs) (h1 : ∀ b, c.ieee b < M32) (h2 : ∀ b, c.castagnoli b < M32)
    (dec : Int → Bytes → Option Bytes) (es : List Entry) (gs : List (Bool × List Rec)) (h : AllGood c dec es gs)
    (f : FrameV2) (xs : List RecV2) (hf : GoodBatch dec f xs) (c' : Nat) (hc : c' < M32)
    (hne : c' ≠ c.castagnoli (frameBody f)) (tail : Bytes) :
    clientFetch c dec (encSet c es ++ (i64 f.baseOffset ++ (i32 ((9 + (frameBody f).length : Nat) : Int) ++
      (i32 f.leaderEpoch ++ (i8 2 ++ (u32 c' ++ frameBody f)))) ++ tail)) = surfaced gs := by
  generalize hbad : (i64 f.baseOffset ++ (i32 ((9 + (frameBody f).length : Nat) : Int) ++
      (i32 f.leaderEpoch ++ (i8 2 ++ (u32 c' ++ frameBody f))))) = bad
  have hbl : bad.length = 21 + (frameBody f).length := by rw [← hbad]; simp; omega
  have hfuel : es.length ≤ (encSet c es ++ (bad ++ tail)).length := by
    have := encSet_length_ge c es; simp; omega
  have := libReadSet_encSet c h1 h2 dec es gs h (bad ++ tail) _ hfuel
  simp only [clientFetch, this]
  have hk : ∃ k, (encSet c es ++ (bad ++ tail)).length - es.length = k + 1 := by
    have := encSet_length_ge c es
    refine ⟨(encSet c es ++ (bad ++ tail)).length - es.length - 1, ?_⟩
    simp; omega
  obtain ⟨k, hk⟩ := hk
  rw [hk]
  have hnil : libReadSet c dec (k + 1) (bad ++ tail) = [] := by
    have hl : ¬ (bad ++ tail).length < 17 := by simp; omega
    have h16 : (bad ++ tail)[16]? = some 2 := by
      rw [← hbad]; simp only [List.append_assoc]
      rw [getElem?_skip _ _ _ (by simp), getElem?_skip _ _ _ (by simp), getElem?_skip _ _ _ (by simp)]
      simp [i8_eq]; decide
    have hv2 := libReadV2_bytes c.castagnoli dec f xs hf c' hc tail
    rw [hbad] at hv2
    have hne' : ¬ c.castagnoli (frameBody f) = c' := fun e => hne e.symm
    simp only [hne', if_false] at hv2
    cases hbs : bad ++ tail with
    | nil => rw [hbs] at hl; simp at hl
    | cons x t =>
      rw [hbs] at hl h16 hv2
      simp only [libReadSet, hl, if_false, h16, if_true, hv2]
  rw [hnil]; simp

open Model.RecordReader in
/-- v1 wrappers on the Client.Fetch path: a compressed message whose value holds inner messages with relative offsets
(any, also with compaction gaps) and which carries the absolute offset of the last one decodes to the inner records
at `wrapperOffset - lastRelative + relative` — on the decoder model and on the reference decoder alike -/
theorem v1_wrapper_offsets (c : Crcs) (h1 : ∀ b, c.ieee b < M32) (h2 : ∀ b, c.castagnoli b < M32)
    (dec : Int → Bytes → Option Bytes) (m : Msg) (inner : List Msg) (h : GoodWrapper c dec m inner) :
    clientFetch c dec (encSet c [.msg m]) = wrapperRecs m inner ∧
    flattenEntry c dec (.msg m) = some (false, wrapperRecs m inner) := by
  have hg : AllGood c dec [.msg m] [(false, wrapperRecs m inner)] := .cons (.wrapper m inner h) .nil
  have := (decoders_agree_client c h1 h2 dec _ _ hg).2
  exact ⟨by simpa [surfaced] using this, spec_flatten_wrapper c h1 h2 dec m inner h⟩

/-! ### both read paths on the same bytes

`C02.readAll` (Model/MessageSetReader + Model/Batch, the C02 builder's model of message_reader.go / batch.go) consumes
a token stream read off the BYTES; `clientFetch` is this file's model of the Client path.  Two tokenizers are
composed with it below: this property's `tokenizeAll` (any attribute bits; complete responses) and, further down
(`decoders_agree_items`), the C02 builder's `C02.tokenize` (any cut of the response). -/

open Model.RecordReader in
/-- `decoders_agree` on bytes for EVERY format the property names: any sequence of plain and compressed v2 batches
(any codec whose decompressor returns the encoded records; transactional / control / any attribute bits), plain v0/v1
messages and compressed v1 wrappers with relative inner offsets, laid out as a broker lays out a log (`LWF`: ranges
increasing, compaction gaps allowed; `Safe`: the fetch contract for mixed v1→v2 logs).
The bytes of the reference encoder tokenize (`tokenizeAll`, the Spec reader doing the byte work) to a stream on which
the Conn/Batch reader model (`C02.readAll`: message_reader.go + batch.go) delivers exactly the logical records at or
above the fetch offset; the Client.Fetch decoder model returns the same records from the same bytes, minus control
batches — so when the response holds no control batch both paths return the same records, absolute offsets and order. -/
theorem decoders_agree_bytes (c : Crcs) (h1 : ∀ b, c.ieee b < M32) (h2 : ∀ b, c.castagnoli b < M32)
    (dec : Int → Bytes → Option Bytes) (tagOf : Rec → Nat) (ds : List Desc) (hgood : ∀ d ∈ ds, d.Good c dec)
    (nb : Int) (hnb : 0 ≤ nb) (hwf : C02.LWF nb (ds.map (Desc.item c tagOf)))
    (o hwm : Int) (ho : 0 ≤ o) (hsafe : C02.Safe o (ds.map (Desc.item c tagOf))) (hne : hwm ≠ o) (expired : Bool) :
    ∃ toks, tokenizeAll c dec tagOf (encSet c (ds.map Desc.entry)).length (encSet c (ds.map Desc.entry)) = some toks ∧
      (C02.readAll .fixed expired o hwm toks).1 =
        ((((ds.map Desc.group).flatMap (·.2))).filter (fun r => o ≤ r.offset)).map (fun r => (r.offset, tagOf r)) ∧
      clientFetch c dec (encSet c (ds.map Desc.entry)) = surfaced (ds.map Desc.group) ∧
      ((∀ d ∈ ds, d.group.1 = false) → (C02.readAll .fixed expired o hwm toks).1 =
        ((clientFetch c dec (encSet c (ds.map Desc.entry))).filter (fun r => o ≤ r.offset)).map (fun r => (r.offset, tagOf r))) := by
  have htok := tokenizeAll_encSet c h1 h2 dec tagOf ds hgood (encSet c (ds.map Desc.entry)).length
    (by have := encSet_length_ge c (ds.map Desc.entry); simpa using this)
  have hsf := C02.single_fetch (ds.map (Desc.item c tagOf)) nb hnb hwf o hwm ho hsafe hne (-1) expired
  simp only [C02.responseTokens, C02.containedRecords, show ((-1 : Int) < 0) from by decide, if_true] at hsf
  have hcf := (decoders_agree_client c h1 h2 dec _ _ (allGood_descs c dec ds hgood)).2
  have hconn : (C02.readAll .fixed expired o hwm (C02.allTokens (ds.map (Desc.item c tagOf)))).1 =
      ((((ds.map Desc.group).flatMap (·.2))).filter (fun r => o ≤ r.offset)).map (fun r => (r.offset, tagOf r)) := by
    rw [hsf.1, allRecords_descs, List.filter_map]; rfl
  refine ⟨_, htok, hconn, hcf, ?_⟩
  intro hnc
  rw [hconn, hcf]
  have hs : surfaced (ds.map Desc.group) = (ds.map Desc.group).flatMap (·.2) := by
    simp only [surfaced]
    congr 1
    apply List.filter_eq_self.mpr
    intro g hg
    simp only [List.mem_map] at hg
    obtain ⟨d, hd, rfl⟩ := hg
    simp [hnc d hd]
  rw [hs]

open Model.RecordReader Model.ConnReader in
/-- `decoders_agree`, CONTENT, at byte level on both sides: the field-by-field model of message_reader.go
(`Model/ConnReader`: readHeader, readMessageV1 incl. wrappers and extractOffset, readMessageV2 incl. compressed
batches) applied to a complete valid response returns exactly the records of the reference decoder at or above the
fetch offset — keys, values, headers, timestamps (the append time for LogAppendTime batches), absolute offsets, order —
EXACTLY: since fixes 4db07b4 / a925b8a / 795ac84 / 314fa1c null and empty are told apart on this path too, both paths
apply the timestamp type and both pass over control batches (before, the statement held only up to null ≈ empty and
for sets without control batches; and since fix C05-D31 a wrapper message may carry a key — the hypothesis `hkey`
"wrappers have a null key" is gone); and that is, unconditionally, what the Client.Fetch model returns from the same bytes. -/
theorem decoders_agree_content (c : Crcs) (h1 : ∀ b, c.ieee b < M32) (h2 : ∀ b, c.castagnoli b < M32)
    (dec : Int → Bytes → Option Bytes) (es : List Entry) (gs : List (Bool × List Rec)) (h : AllGood c dec es gs) (o : Int) :
    connFetch dec o (encSet c es) = some ((surfaced gs).filter (fun r => o ≤ r.offset)) ∧
    connFetch dec o (encSet c es) = some ((clientFetch c dec (encSet c es)).filter (fun r => o ≤ r.offset)) := by
  have hconn := connReadSet_encSet c h1 h2 dec es gs h (encSet c es).length (encSet_length_ge c es)
  have hfirst : connFetch dec o (encSet c es) = some ((surfaced gs).filter (fun r => o ≤ r.offset)) := by
    simp only [connFetch, hconn, Option.map_some]
  exact ⟨hfirst, by rw [hfirst, (decoders_agree_client c h1 h2 dec es gs h).2]⟩

open Model.RecordReader in
/-- **Both read paths on the same bytes, with the C02 builder's own byte-level tokenizer.**  `its` is any sequence the
reference encoder can emit (`C02.BItem`: plain and compressed v2 batches, v0/v1 messages, compressed wrappers; `enc` any
compressor that `dec` inverts), laid out like a log (`LWF`, `Safe`).  The Conn/Batch reader model (`C02.readAll`,
message_reader.go + batch.go) run on the tokens that `C02.tokenize` reads off the encoded bytes delivers exactly the
records — absolute offsets and content digests `tagC ts key value headers`, in order — that the Client.Fetch model
(`clientFetch`, protocol.RecordSet.ReadFrom) decodes from those same bytes at or above the fetch offset.
(For responses cut after `n` bytes `C02.single_fetch_bytes` says what the Conn path delivers: `contained layout n`.) -/
theorem decoders_agree_items (c : Crcs) (h1 : ∀ b, c.ieee b < M32) (h2 : ∀ b, c.castagnoli b < M32)
    (dec : Int → Bytes → Option Bytes) (enc : Int → Bytes → Bytes) (hdec : ∀ k b, dec k (enc k b) = some b)
    (hpos : ∀ k b, 0 < (enc k b).length) (tagC : Int → Option Bytes → Option Bytes → List Hdr → Nat)
    (its : List C02.BItem) (hitems : ∀ it ∈ its, it.WF (cfgOf tagC c dec) enc) (hextra : ∀ it ∈ its, itemExtra it)
    (nb : Int) (hnb : 0 ≤ nb) (hwf : C02.LWF nb (C02.layoutOfItems (cfgOf tagC c dec) enc its))
    (o hwm : Int) (ho : 0 ≤ o) (hsafe : C02.Safe o (C02.layoutOfItems (cfgOf tagC c dec) enc its)) (hne : hwm ≠ o)
    (expired : Bool) :
    clientFetch c dec (C02.encItems (cfgOf tagC c dec) enc its) = surfaced ((its.map (descOf c enc)).map Desc.group) ∧
    (C02.readAll .fixed expired o hwm
        (C02.tokenize (cfgOf tagC c dec) ((C02.encItems (cfgOf tagC c dec) enc its).length + 1) .hdr (C02.encItems (cfgOf tagC c dec) enc its))).1 =
      ((clientFetch c dec (C02.encItems (cfgOf tagC c dec) enc its)).filter (fun r => o ≤ r.offset)).map
        (fun r => (r.offset, contentTag tagC r)) := by
  have hsf := (C02.single_fetch_bytes (cfgOf tagC c dec) enc hdec hpos h1 h2 its hitems nb hnb hwf o hwm ho hsafe hne
    expired (C02.encItems (cfgOf tagC c dec) enc its).length).1
  simp only [List.take_length] at hsf
  have hall := C02.contained_all (C02.layoutOfItems (cfgOf tagC c dec) enc its) (C02.encItems (cfgOf tagC c dec) enc its).length
    (by rw [itemsSize_bytes]; exact Nat.le_refl _)
  have hlay : C02.layoutOfItems (cfgOf tagC c dec) enc its = (its.map (descOf c enc)).map (Desc.item c (contentTag tagC)) := by
    simp only [C02.layoutOfItems, List.map_map]
    apply List.map_congr_left
    intro it hit
    exact item_descOf tagC c dec enc it (hitems it hit)
  have hgood : ∀ d ∈ its.map (descOf c enc), d.Good c dec := by
    intro d hd
    simp only [List.mem_map] at hd
    obtain ⟨it, hit, rfl⟩ := hd
    exact good_descOf tagC c dec enc hdec it (hitems it hit) (hextra it hit)
  have hcf : clientFetch c dec (C02.encItems (cfgOf tagC c dec) enc its) = surfaced ((its.map (descOf c enc)).map Desc.group) := by
    rw [encItems_descs]
    exact (decoders_agree_client c h1 h2 dec _ _ (allGood_descs c dec _ hgood)).2
  refine ⟨hcf, ?_⟩
  rw [hsf, hall, hlay, allRecords_descs, hcf]
  have hs : surfaced ((its.map (descOf c enc)).map Desc.group) = ((its.map (descOf c enc)).map Desc.group).flatMap (·.2) := by
    simp only [surfaced]
    congr 1
    apply List.filter_eq_self.mpr
    intro g hg
    simp only [List.mem_map] at hg
    obtain ⟨d, ⟨it, hit, rfl⟩, rfl⟩ := hg
    cases it with
    | plain2 b => simp [descOf, Desc.group, C02.BBatch.frame, isControl]
    | comp2 hdr codec recs =>
      obtain ⟨_, h0, h8, _⟩ := hitems _ hit
      simp [descOf, Desc.group, C02.comp2Frame, (codec_facts codec h0 h8).2.2]
    | msg m => simp [descOf, Desc.group]
    | wrap m codec inner => simp [descOf, Desc.group]
  rw [hs, List.filter_map]
  rfl

open Model.RecordReader in
section
/-- hypotheses of `decoders_agree_bytes` are satisfiable: an (empty, retained) v2 batch [10,12] followed by a v1
message at 13 with the LogAppendTime bit set -/
def exBatch : FrameV2 := ⟨10, 0, 0, 2, 1600000000000, 1600000000000, -1, -1, -1, 0, encRecs []⟩
def exMsg : Msg := ⟨13, 1, 8, 1600000000001, none, some [1, 2]⟩
def exLayout : List Desc := [.batch exBatch [], .msg exMsg]

example (c : Crcs) (dec : Int → Bytes → Option Bytes) (tagOf : Rec → Nat) :
    (∀ d ∈ exLayout, d.Good c dec) ∧ C02.LWF 0 (exLayout.map (Desc.item c tagOf)) ∧ C02.Safe 0 (exLayout.map (Desc.item c tagOf)) := by
  refine ⟨?_, ?_, ?_⟩
  · intro d hd
    simp only [exLayout, List.mem_cons, List.mem_singleton, List.not_mem_nil, or_false] at hd
    rcases hd with rfl | rfl
    · exact ⟨by unfold FrameV2.WF; decide, rfl, rfl⟩
    · exact ⟨by unfold Msg.WF; decide, by decide⟩
  · simp [exLayout, C02.LWF, Desc.item, exBatch, exMsg, recToks, C02.RecsWF, C02.sumSizes, encRecs, codecOf, C02.hdr1Size, encMsg, msgBody, nbytes]
  · simp [exLayout, C02.Safe, Desc.item, C02.headB2, C02.isB2]
end

/-! ## Part E — constants regenerated from the Go sources on every run (`go/extract records`) -/

/-- The header sizes, back-patch offsets, attribute masks and magic-byte offset that kafka-go's sources state NOW
are the ones of the reference layout (`Spec/RecordBatch`) and of the writer models: 61 = length of a Spec batch
without records; 49 = what follows the length field; the positions patched by `writeToVersion2` are the Spec's
field offsets of lastOffsetDelta, firstTimestamp, maxTimestamp, count, (CRC start), batchLength, crc;
compression = attributes mod 8; control = bit 5; magic byte at 16. -/
theorem gen_consts_match_spec :
    (encFrame (fun _ => 0) ⟨0, 0, 0, 0, 0, 0, 0, 0, 0, 0, []⟩).length = Gen.RecordConsts.recordBatchHeaderSize
    ∧ Gen.RecordConsts.legacyHeaderAfterLength + (i64 0 ++ i32 0).length = Gen.RecordConsts.recordBatchHeaderSize
    ∧ Model.RecordWriter.recordBatchSizeWith Model.RecordWriter.tsDelta 0 0 [] = Gen.RecordConsts.recordBatchHeaderSize
    ∧ Gen.RecordConsts.v2PatchOffsets =
        [ (i64 0 ++ i32 0 ++ i32 0 ++ i8 0 ++ u32 0 ++ i16 0).length,
          (i64 0 ++ i32 0 ++ i32 0 ++ i8 0 ++ u32 0 ++ i16 0 ++ i32 0).length,
          (i64 0 ++ i32 0 ++ i32 0 ++ i8 0 ++ u32 0 ++ i16 0 ++ i32 0 ++ i64 0).length,
          (i64 0 ++ i32 0 ++ i32 0 ++ i8 0 ++ u32 0 ++ i16 0 ++ i32 0 ++ i64 0 ++ i64 0 ++ i64 0 ++ i16 0 ++ i32 0).length,
          (i64 0 ++ i32 0 ++ i32 0 ++ i8 0 ++ u32 0).length,
          (i64 0).length,
          (i64 0 ++ i32 0 ++ i32 0 ++ i8 0).length ]
    ∧ Gen.RecordConsts.v2LengthPrefix = [(i64 0 ++ i32 0).length]
    ∧ (∀ a : Int, codecOf a = a % ((Gen.RecordConsts.compressionMask + 1 : Nat) : Int))
    ∧ Gen.RecordConsts.legacyCompressionMask = Gen.RecordConsts.compressionMask
    ∧ (∀ a : Int, isControl a = decide ((a / (Gen.RecordConsts.controlConst : Int)) % 2 = 1))
    ∧ Gen.RecordConsts.transactionalConst * 2 = Gen.RecordConsts.controlConst
    ∧ (∀ bs : Bytes, magicOf bs = bs[Gen.RecordConsts.magicByteOffsetConst]?) := by
  refine ⟨by simp [encFrame, frameBody, Gen.RecordConsts.recordBatchHeaderSize], by decide, rfl, ?_, ?_, ?_, rfl, ?_, rfl, ?_⟩
  · simp [Gen.RecordConsts.v2PatchOffsets]
  · simp [Gen.RecordConsts.v2LengthPrefix]
  · intro a; rfl
  · intro a; simp only [isControl, Gen.RecordConsts.controlConst]; rfl
  · intro bs; rfl

/-- wire fields of the reference layout in order (kinds: 1/2/4/8 = fixed width in bytes, 10 varint, 11 varbytes,
12 varstring, 13 bytes with int32 length, 14 var array count): a v2 batch header; a v2 record up to the header count;
one record header; a v1 message from its offset field on -/
def specFrameFields : List Nat := [8, 4, 4, 1, 4, 2, 4, 8, 8, 8, 2, 4, 4]
def specRecordFields : List Nat := [10, 1, 10, 10, 11, 11, 10]
def specHeaderFields : List Nat := [12, 11]
def specMsgFields : List Nat := [8, 4, 4, 1, 1, 8, 13, 13]

/-- the fixed-width part of that list is the Spec encoder's: 61 bytes before the records, in this order -/
theorem spec_frame_fields (crc : Bytes → Nat) (f : FrameV2) :
    specFrameFields.foldl (· + ·) 0 = (encFrame crc { f with payload := [] }).length ∧
    encFrame crc f = i64 f.baseOffset ++ (i32 ((9 + (frameBody f).length : Nat) : Int) ++ (i32 f.leaderEpoch ++ (i8 2 ++
      (u32 (crc (frameBody f)) ++ (i16 f.attributes ++ (i32 f.lastOffsetDelta ++ (i64 f.firstTs ++ (i64 f.maxTs ++
      (i64 f.producerId ++ (i16 f.producerEpoch ++ (i32 f.baseSeq ++ (i32 f.count ++ f.payload)))))))))))) := by
  refine ⟨by simp [specFrameFields, encFrame, frameBody], rfl⟩

/-- The ORDER and WIDTH of the fields every writer writes and every reader reads, extracted from the sequence of
read*/write* calls in the Go sources on every run (`go/extract recordlayout`), are the reference layout's:
`writeToVersion2`, `readFromVersion2` (which reads key/value lengths as bare varints), `writeToVersion1`,
`readMessage` (key/value lengths as int32), Conn `writeRecordBatch` (CRC dry run over attributes..count on one
writer, then the full header on the other), `writeRecord`, `writeMessage` (CRC dry run from the magic byte on),
and `messageSetReader.readHeader` for magic 0, 1 and 2. -/
theorem gen_field_order :
    Gen.RecordLayout.protoWriteV2.map (·.2) = specFrameFields ++ specRecordFields ++ specHeaderFields
    ∧ Gen.RecordLayout.protoReadV2.map (·.2) = specFrameFields ++ [10, 1, 10, 10, 10, 10, 10] ++ specHeaderFields
    ∧ Gen.RecordLayout.protoWriteV1.map (·.2) = specMsgFields
    ∧ Gen.RecordLayout.protoReadMsg.map (·.2) = [8, 4, 4, 1, 1, 8, 4, 4]
    ∧ Gen.RecordLayout.connWriteBatch = (specFrameFields.drop 5).map (fun k => (0, k)) ++ specFrameFields.map (fun k => (1, k))
    ∧ Gen.RecordLayout.connWriteRecord.map (·.2) = [10, 1, 10, 10, 11, 11, 14] ++ specHeaderFields
    ∧ Gen.RecordLayout.connWriteMessage = (specMsgFields.drop 3).map (fun k => (0, k)) ++ specMsgFields.map (fun k => (1, k))
    ∧ (Gen.RecordLayout.connReadHeaderPrefix ++ Gen.RecordLayout.connReadHeaderMagic2).map (·.2) = specFrameFields
    ∧ (Gen.RecordLayout.connReadHeaderPrefix ++ Gen.RecordLayout.connReadHeaderMagic1).map (·.2) = specMsgFields.take 6
    ∧ (Gen.RecordLayout.connReadHeaderPrefix ++ Gen.RecordLayout.connReadHeaderMagic0).map (·.2) = specMsgFields.take 5 := by
  decide

/-! ## Part D — pages (protocol/buffer.go) -/

open Model.Pages in
/-- "a page is in the pool only if its count is 0; every count is held by a live holder; the pool has no
duplicates" after EVERY accepted sequence of page operations (alloc, reuse from pool, ref, unref, pool drop) -/
theorem pages_inv (es : List PEvent) (s : PState) (h : run init es = some s) : Inv s :=
  Model.Pages.pages_inv es s h

open Model.Pages in
/-- while a live `pageRef`/`pageBuffer` keeps a count on page `p`, no operation sequence hands `p` out again:
the bytes read through the live ref are the bytes written, whatever else is decoded in between -/
theorem pages_safe (pre es : List PEvent) (s : PState) (h : run init pre = some s) (p : Nat) (hp : p ∈ s.held) :
    ∀ s', run s es = some s' → (∀ k, k ≤ es.length → ∀ sk, run s (es.take k) = some sk → p ∈ sk.held) →
      s'.ver p = s.ver p :=
  Model.Pages.pages_safe pre es s h p hp

/-! ## Part G — the page buffer's data path (protocol/buffer.go: pageBuffer, contiguousPages, page, pageRef)

The bytes of a request / record set / decoded batch live in 64 KiB pages and are addressed through index arithmetic
(`indexOf`, `slice`, `page.slice`).  `Model/PageBuffer` follows that arithmetic; these theorems say it is invisible:
the buffer behaves like ONE flat byte string, for every page size > 0, every content and every offset — across any
number of page boundaries.  `Contig` (all pages but the last are full) is the invariant `Write`, `WriteAt` and
`Truncate` maintain from the empty buffer; the page size is the one extracted from buffer.go. -/

open Model.PageBuffer in
/-- `Write` appends; `Truncate(n)` keeps the first `n` bytes; `WriteAt` inside the written part (how sizes, counts
and checksums are back-patched) replaces exactly its range; all three keep the pages contiguous -/
theorem pagebuffer_writes (P : Nat) (hP : 0 < P) (pb : PB) (hc : Contig P pb.pages) (b : Bytes) (n off : Nat)
    (hbase : pb.base ≤ off) (hfit : off + b.length ≤ pb.base + (flat pb).length) :
    (flat (write P pb b) = flat pb ++ b ∧ Contig P (write P pb b).pages) ∧
    (flat (truncate pb n) = (flat pb).take n ∧ Contig P (truncate pb n).pages) ∧
    (flat (writeAt P pb b off) = patch (flat pb) (off - pb.base) b ∧ Contig P (writeAt P pb b off).pages) :=
  ⟨⟨(write_spec P hP pb b hc).1, (write_spec P hP pb b hc).2.1⟩, truncate_spec P pb n hc,
   writeAt_spec P hP pb b off hc hbase hfit⟩

open Model.PageBuffer in
/-- `scan(begin, end)` (what the CRC and `WriteTo` see) and `ReadAt(buf, off)` return the corresponding bytes of the
flat content, whatever page boundaries lie in between -/
theorem pagebuffer_reads (P : Nat) (hP : 0 < P) (pb : PB) (hc : Contig P pb.pages) (b e off n : Nat) (hbe : b ≤ e)
    (hbase : pb.base ≤ off) :
    scan P pb b e = ((flat pb).take (e - pb.base)).drop (b - pb.base) ∧
    readAt P pb off n = ((flat pb).drop (off - pb.base)).take n :=
  ⟨scan_eq P hP pb hc b e hbe, readAt_eq P hP pb hc off n hbase⟩

open Model.PageBuffer in
/-- a `pageRef` to `[begin, end)` (a decoded key or value) reads exactly the bytes of its range — its pages start at
page `indexOf(begin)`, not at page 0, and `indexOf` compensates with `pages[0].offset` -/
theorem pagebuffer_ref_read (P : Nat) (hP : 0 < P) (pb : PB) (hc : Contig P pb.pages) (hb0 : pb.base = 0)
    (b e off n : Nat) (hbe : b ≤ e) (he : e ≤ (flat pb).length) :
    refReadAt P (refTo P pb b e) b (e - b) off n = (((flat pb).take e).drop (b + off)).take n :=
  refReadAt_eq P hP pb hc hb0 b e off n hbe he

/-- the extracted page size is positive (premise `0 < P` of the three theorems above for the real constant) -/
theorem gen_page_size : 0 < Gen.RecordConsts.pageSize := by decide

open Model.PageBuffer in
example : Contig 4 [[1, 2, 3, 4], [5, 6, 7, 8], [9]] ∧
    scan 4 ⟨0, [[1, 2, 3, 4], [5, 6, 7, 8], [9]]⟩ 3 9 = [4, 5, 6, 7, 8, 9] ∧
    flat (writeAt 4 ⟨0, [[1, 2, 3, 4], [5, 6, 7, 8], [9]]⟩ [0, 0, 0] 3) = [1, 2, 3, 0, 0, 0, 7, 8, 9] :=
  ⟨⟨rfl, rfl, by simp [Contig]⟩, by decide, by decide⟩

open Model.PageBuffer in
/-- **`writeToVersion2` as it really runs — on the page buffer.**  The header is first written with placeholders, the
records appended (crossing page boundaries wherever they fall), then lastOffsetDelta/firstTimestamp/maxTimestamp/
numRecords are back-patched with `WriteAt` at offsets +23/+27/+35/+57, the CRC-32C is computed over
`pages.scan(offset+21, end)` and length and checksum are back-patched at +8/+17.  Whatever the page size, whatever the
buffer already held (`flat pb`, e.g. the request header and earlier partitions, so the batch starts anywhere in a
page): afterwards the buffer holds the old content followed by one batch that the independent decoder accepts and that
carries exactly the given records. -/
theorem v2_write_paged_spec (P : Nat) (hP : 0 < P) (crc : Bytes → Nat) (hcrc : ∀ b, crc b < M32) (attrs now : Int)
    (recs : List PRec) (pb : PB) (hc : Contig P pb.pages) (hb0 : pb.base = 0)
    (hne : recs ≠ []) (hwf : (frameOfV2 attrs now recs).WF) (hcodec : codecOf attrs = 0)
    (hlog : logAppend attrs = false) :
    ∃ pb' bytes f, writeV2Paged P crc attrs now recs pb = some pb' ∧ flat pb' = flat pb ++ bytes ∧
      Contig P pb'.pages ∧
      readFrame crc bytes = some (f, []) ∧ f.count = recs.length ∧
      flattenEntry ⟨crc, crc⟩ (fun _ _ => none) (.batch f) =
        some (isControl attrs, expected (recs.map (effTime now)) recs) := by
  obtain ⟨pb', bytes, h1, h2, h3, h4, _⟩ := writeV2Paged_spec P hP crc attrs now recs pb hc hb0 hne
  obtain ⟨bytes', f, g1, g2, _, g4, _, g6⟩ := writeV2_spec crc hcrc attrs now recs hne hwf hcodec hlog
  rw [h2] at g1; cases g1
  exact ⟨pb', bytes, f, h1, h3, h4, g2, g4, g6⟩

open Model.PageBuffer in
/-- **`RecordSet.WriteTo` on the request's page buffer** (protocol/record.go, the `w.(*pageBuffer)` fast path used by
`WriteRequest`): a size placeholder, the batch at `bufferOffset+4`, the size back-patched.  The buffer then holds the
old content, the 4-byte length of the batch, and the batch — which the independent decoder reads back to exactly the
records given. -/
theorem recordset_write_paged_spec (P : Nat) (hP : 0 < P) (crc : Bytes → Nat) (hcrc : ∀ b, crc b < M32) (attrs now : Int)
    (recs : List PRec) (pb : PB) (hc : Contig P pb.pages) (hb0 : pb.base = 0)
    (hne : recs ≠ []) (hwf : (frameOfV2 attrs now recs).WF) (hcodec : codecOf attrs = 0)
    (hlog : logAppend attrs = false) :
    ∃ pb' bytes f, writeSetV2Paged P crc attrs now recs pb = some pb' ∧
      flat pb' = flat pb ++ (u32 bytes.length ++ bytes) ∧ Contig P pb'.pages ∧
      readFrame crc bytes = some (f, []) ∧ f.count = recs.length ∧
      flattenEntry ⟨crc, crc⟩ (fun _ _ => none) (.batch f) =
        some (isControl attrs, expected (recs.map (effTime now)) recs) := by
  obtain ⟨pb', bytes, h1, h2, h3, h4, _⟩ := writeSetV2Paged_spec P hP crc attrs now recs pb hc hb0 hne
  obtain ⟨bytes', f, g1, g2, _, g4, _, g6⟩ := writeV2_spec crc hcrc attrs now recs hne hwf hcodec hlog
  rw [h2] at g1; cases g1
  exact ⟨pb', bytes, f, h1, h3, h4, g2, g4, g6⟩

open Model.PageBuffer in
/-- **the compressed `writeToVersion2` on the page buffer**: the record loop writes into the compressor, which writes
into the buffer whatever chunks it likes, when it likes (`chunks`, adding up to `comp records`); the placeholders,
the back-patches and the CRC over `scan(offset+21, end)` then cover the COMPRESSED bytes.  The buffer ends with the
old content followed by one batch that the independent decoder accepts and that decompresses to exactly the records. -/
theorem v2_write_compressed_paged_spec (P : Nat) (hP : 0 < P) (crc : Bytes → Nat) (hcrc : ∀ b, crc b < M32)
    (comp : Bytes → Bytes) (dec : Int → Bytes → Option Bytes) (chunks : List Bytes) (attrs now : Int)
    (recs : List PRec) (pb : PB) (hc : Contig P pb.pages) (hb0 : pb.base = 0)
    (hne : recs ≠ []) (hwf : (frameOfV2C comp attrs now recs).WF) (hcodec : codecOf attrs ≠ 0)
    (hlog : logAppend attrs = false) (hdec : ∀ p, dec (codecOf attrs) (comp p) = some p)
    (hch : chunks.flatten = comp (recordsV2 now (firstTime now recs) 0 recs)) :
    ∃ pb' bytes f, writeV2PagedC P crc chunks attrs now recs pb = some pb' ∧ flat pb' = flat pb ++ bytes ∧
      Contig P pb'.pages ∧
      readFrame crc bytes = some (f, []) ∧ f.count = recs.length ∧
      flattenEntry ⟨crc, crc⟩ dec (.batch f) = some (isControl attrs, expected (recs.map (effTime now)) recs) := by
  obtain ⟨pb', bytes, h1, h2, h3, h4, _⟩ := writeV2PagedC_spec P hP crc comp chunks attrs now recs pb hc hb0 hne hch
  obtain ⟨bytes', f, g1, g2, _, g4, _, g6⟩ := writeV2C_spec crc hcrc comp dec attrs now recs hne hwf hcodec hlog hdec
  rw [h2] at g1; cases g1
  exact ⟨pb', bytes, f, h1, h3, h4, g2, g4, g6⟩

open Model.PageBuffer in
/-- **`writeToVersion1` as it really runs — on the page buffer**, uncompressed and compressed.  Per message: offset, size
and CRC placeholders, magic, attributes, timestamp, key, value, then size and CRC back-patched with `WriteAt` at
`messageOffset+8` / `+12`.  With a codec the uncompressed set is first rendered into the SAME buffer, read back through
`pages.scan(bufferOffset, Size())` into the compressor, the buffer truncated to `bufferOffset`, and one wrapper message
written over it.  Whatever the page size and whatever the buffer held before: afterwards it holds the old content
followed by a message set the independent decoder accepts — the messages themselves, or exactly one wrapper whose
(compressed) value is the set of the messages with relative offsets 0..n-1. -/
theorem v1_write_paged_spec (P : Nat) (hP : 0 < P) (c : Crcs) (h1 : ∀ b, c.ieee b < M32) (h2 : ∀ b, c.castagnoli b < M32)
    (comp : Bytes → Bytes) (attrs now : Int) (recs : List PRec) (pb : PB) (hc : Contig P pb.pages) (hb0 : pb.base = 0)
    (hw : (⟨0, 1, attrs, now, none, some (comp (writeV1 c.ieee (attrs - attrs % 8) now 0 recs))⟩ : Msg).WF)
    (hwf : ∀ m ∈ msgsOfV1 attrs now 0 recs, m.WF) (hwf' : ∀ m ∈ msgsOfV1 (attrs - attrs % 8) now 0 recs, m.WF) :
    (∃ bytes, flat (writeV1Paged P c.ieee attrs now 0 recs pb) = flat pb ++ bytes ∧
      Contig P (writeV1Paged P c.ieee attrs now 0 recs pb).pages ∧
      decodeSet c bytes = some ((msgsOfV1 attrs now 0 recs).map Entry.msg)) ∧
    (∃ bytes, flat (writeV1PagedC P c.ieee comp attrs now recs pb) = flat pb ++ bytes ∧
      Contig P (writeV1PagedC P c.ieee comp attrs now recs pb).pages ∧
      decodeSet c bytes =
        some [.msg ⟨0, 1, attrs, now, none, some (comp (writeV1 c.ieee (attrs - attrs % 8) now 0 recs))⟩] ∧
      decodeSet c (writeV1 c.ieee (attrs - attrs % 8) now 0 recs) =
        some ((msgsOfV1 (attrs - attrs % 8) now 0 recs).map Entry.msg)) := by
  have a := writeV1Paged_spec P hP c.ieee attrs now recs 0 pb hc hb0
  have b := writeV1PagedC_spec P hP c.ieee comp attrs now recs pb hc hb0
  have sc := writeV1C_spec c h1 h2 comp attrs now recs hw hwf'
  exact ⟨⟨_, a.1, a.2.1, writeV1_spec c h1 h2 attrs now recs hwf⟩, ⟨_, b.1, b.2.1, sc.1, sc.2⟩⟩

/-! ### The bytes handed out stay intact (pages WITH their content) -/

open Model.Pages in
/-- **"the key/value bytes it hands out stay intact until released, whatever else is decoded meanwhile"**, at the level
of the bytes: in the heap of pages with contents (`Model/PageHeap`: only a live pageBuffer stores into its pages;
`newPage` takes a page from the pool or allocates one), after ANY history `pre`, take a page `p` on which some holder
keeps a count (a `pageRef` = the Bytes of a key or a value) and whose buffer is gone (no writer: the decode that produced
it has finished).  Then over EVERY continuation `es` — other buffers allocating, recycling pooled pages, writing
arbitrary bytes, taking and dropping references, the runtime emptying the pool — as long as that holder keeps its count,
the content of `p` is exactly what it was, and no buffer ever becomes its writer again. -/
theorem held_bytes_intact (pre es : List HEvent) (s : HState) (h : hrun hinit pre = some s) (p : Nat)
    (hp : p ∈ s.ps.held) (hw : s.writer p = false) :
    ∀ s', hrun s es = some s' → (∀ k, k ≤ es.length → ∀ sk, hrun s (es.take k) = some sk → p ∈ sk.ps.held) →
      s'.content p = s.content p ∧ s'.writer p = false :=
  heap_stable_aux es s (hinv_run pre hinit s inv_init h) p hp hw

open Model.Pages in
/-- non-vacuity: a decode fills page 0 and hands out a reference, its buffer goes away; a second decode allocates page 1,
fills and releases it; a third one recycles page 1 from the pool and overwrites it — page 0 still reads `[1, 2, 3]` -/
example : ∃ s, hrun hinit [.allocPage, .write 0 [1, 2, 3], .refTo 0, .unrefBuf 0, .allocPage, .write 1 [9], .unrefBuf 1,
    .reusePage 0, .write 1 [7, 7]] = some s ∧ 0 ∈ s.ps.held ∧ s.writer 0 = false ∧ s.content 0 = [1, 2, 3] ∧
    s.content 1 = [7, 7] := by
  refine ⟨_, rfl, ?_, ?_, ?_, ?_⟩ <;> decide

open Model.Pages in
/-- the same while the page's buffer is STILL decoding (`readMessage` of a v0/v1 set appends the next message's key and
value to the buffer whose earlier ranges are already handed out): as long as nobody overwrites the page (`noOverwrite`:
appends at its end are allowed — the only stores a decode buffer performs) and the holder keeps its count, the bytes a
reference reads are a prefix of the page's content at every later time: they are never changed, only followed. -/
theorem held_bytes_only_grow (pre es : List HEvent) (s : HState) (h : hrun hinit pre = some s) (p : Nat)
    (hp : p ∈ s.ps.held) (hno : noOverwrite p es = true) :
    ∀ s', hrun s es = some s' → (∀ k, k ≤ es.length → ∀ sk, hrun s (es.take k) = some sk → p ∈ sk.ps.held) →
      s.content p <+: s'.content p :=
  heap_grow_aux es s (hinv_run pre hinit s inv_init h) p hp hno

open Model.Pages in
/-- non-vacuity: key bytes referenced, then the same buffer appends the next message, another decode recycles a page -/
example : ∃ s, hrun hinit [.allocPage, .append 0 [1, 2], .refTo 0, .append 0 [3, 4, 5], .allocPage, .unrefBuf 1,
    .reusePage 0, .write 1 [7]] = some s ∧ 0 ∈ s.ps.held ∧ s.content 0 = [1, 2, 3, 4, 5] := by
  refine ⟨_, rfl, ?_, ?_⟩ <;> decide

/-! ### Timestamp type (attributes bit 3) -/

/-- LogAppendTime: every record of the batch carries the batch's append time (`maxTimestamp`), whatever its delta -/
theorem log_append_time_v2 (f : FrameV2) (r : RecV2) (h : logAppend f.attributes = true) :
    (recOfV2 f r).ts = f.maxTs ∧ (recOfV2 f r).offset = f.baseOffset + r.offDelta ∧ (recOfV2 f r).key = r.key ∧
      (recOfV2 f r).value = r.value ∧ (recOfV2 f r).headers = r.headers := by
  simp [recOfV2, recOfV2c, stamp, h]

/-- CreateTime (what kafka-go's writers produce: they never set bit 3): first timestamp + delta -/
theorem create_time_v2 (f : FrameV2) (r : RecV2) (h : logAppend f.attributes = false) :
    (recOfV2 f r).ts = f.firstTs + r.tsDelta := by
  simp [recOfV2, recOfV2c, stamp, h]

open Model.RecordReader Model.ConnReader in
/-- the timestamp-type tests found in the FOUR decoders now (protocol readFromVersion2 / readFromVersion1,
message_reader.go readMessageV2 / readMessageV1; go/ast extraction of every `attributes & <mask>`) are the Spec's bit:
a decoder that stops looking at the bit, or looks at another one, breaks this theorem on the next run -/
theorem gen_timestamp_type (a : Int) :
    libLogAppendV2 a = logAppend a ∧ libLogAppendV1 a = logAppend a ∧ connLogAppendV2 a = logAppend a ∧
      connLogAppendV1 a = logAppend a :=
  ⟨libLogAppendV2_eq a, libLogAppendV1_eq a, connLogAppendV2_eq a, connLogAppendV1_eq a⟩

end KV.Props.C05
