/-
Props/C10.lean — property C10: types documented as goroutine-safe are free of data races.

Model: Model/Lockset.lean (abstract lock semantics, happens-before, access table, `raceFree`).
Table: Gen/Accesses.lean — REGENERATED from /repo by go/extract/accesses/accesses.go on every run
(one row per read/write site of a field of a goroutine-safe type, with the must-lockset).
Lemmas: Lemmas/Lockset.lean.

Level: a proof over an extracted abstraction.  `lockset_sound` is generic and proved once; what ties it
to kafka-go is (i) `repo_race_free`, evaluated by the kernel on the regenerated table, and (ii) the
assumption `Respects` (each access really happens under the recorded locks, and every access of a real
execution is a row of the table), which is what the extractor claims and what the race-detector runs of
go/cmd/c10 sample.  See docs/notes/C10.md.
-/
import KafkaVerif.Lemmas.Lockset
import KafkaVerif.Gen.Accesses
import KafkaVerif.Lemmas.LockProg
import KafkaVerif.Lemmas.LockCompose
import KafkaVerif.Gen.Skeletons
import KafkaVerif.Gen.LockFacts

namespace KV.C10
open KV.Lockset

/-! ## 1. The lockset discipline is sound (generic, for every table and every execution) -/

theorem mem_pairOk {tbl : List Access} (h : raceFree tbl = true) {a b : Access} (ha : a ∈ tbl) (hb : b ∈ tbl) :
    pairOk a b = true := by
  unfold raceFree at h
  rw [List.all_eq_true] at h
  have := h a ha
  rw [List.all_eq_true] at this
  exact this b hb

/-- The core of the lockset argument on executions: `t` holds a mutex when it performs an access at `i`, a different
    goroutine `u` holds the same mutex at a later access `j`, one of the two (recorded) holds exclusive: then the
    accesses are ordered by happens-before (release of `t`, acquisition of `u`). -/
theorem hb_of_common_lock {tr : List Ev} {i j : Nat} {t u : Tid} {a b : Access} {h k : Hold} (hij : i < j)
    (hi : tr[i]? = some (.acc t a)) (hj : tr[j]? = some (.acc u b)) (htu : t ≠ u)
    (hal : HoldsAtLeast tr i t h) (hbl : HoldsAtLeast tr j u k)
    (hm : h.m = k.m) (hx : h.mode = .excl ∨ k.mode = .excl) : HB tr i j := by
  -- the actual holds: the recorded mode, or exclusive where shared was recorded
  obtain ⟨mh, hmh, si, hsi, hhi⟩ : ∃ mh : Mode, (h.mode = .excl → mh = .excl) ∧ HoldsAt tr i t ⟨h.m, mh⟩ := by
    rcases hal with hA | ⟨_, hA⟩
    · exact ⟨h.mode, fun e => e, hA⟩
    · exact ⟨.excl, fun _ => rfl, hA⟩
  obtain ⟨mk, hmk', sj, hsj, hhj⟩ : ∃ mk : Mode, (k.mode = .excl → mk = .excl) ∧ HoldsAt tr j u ⟨k.m, mk⟩ := by
    rcases hbl with hA | ⟨_, hA⟩
    · exact ⟨k.mode, fun e => e, hA⟩
    · exact ⟨.excl, fun _ => rfl, hA⟩
  have hx' : mh = .excl ∨ mk = .excl := hx.imp hmh hmk'
  -- split the prefix of length j at i
  obtain ⟨d, rfl⟩ : ∃ d, j = i + d := ⟨j - i, by omega⟩
  have hd : 0 < d := by omega
  rw [List.take_add, runL_append, hsi] at hsj
  simp only [Option.bind] at hsj
  have hI : Inv si := inv_run inv_init hsi
  have hhi' : holdsIn si t ⟨h.m, mh⟩ := hhi
  have hhj' : holdsIn sj u ⟨h.m, mk⟩ := by rw [hm]; exact hhj
  obtain ⟨p, q, hpq, hp', hq'⟩ := release_then_acquire hI hsj hhi' hhj' htu hx'
  -- positions inside the segment are positions i+p, i+q of the execution
  have seg : ∀ (n : Nat) (e : Ev), (List.take d (List.drop i tr))[n]? = some e → tr[i + n]? = some e ∧ n < d := by
    intro n e hn
    have hlt : n < d := by
      have := (List.getElem?_eq_some_iff.1 hn).1
      have h2 := List.length_take_le d (List.drop i tr)
      omega
    rw [List.getElem?_take_of_lt hlt, List.getElem?_drop] at hn
    exact ⟨hn, hlt⟩
  obtain ⟨hP, _⟩ := seg p _ hp'
  obtain ⟨hQ, hqd⟩ := seg q _ hq'
  have hp0 : p ≠ 0 := by
    intro h0; subst h0
    rw [Nat.add_zero, hi] at hP; cases hP
  have e1 : HB tr i (i + p) := HB.po (by omega) hi hP rfl
  have e2 : HB tr (i + p) (i + q) := HB.sync (by omega) hP hQ hx'
  have e3 : HB tr (i + q) (i + d) := HB.po (by omega) hQ hj rfl
  exact HB.trans e1 (HB.trans e2 e3)

/-- what `raceFree` gives for a conflicting pair of rows: a mutex recorded at both, once exclusively -/
theorem common_hold {tbl : List Access} (hrf : raceFree tbl = true) {a b : Access} (ha : a ∈ tbl) (hb : b ∈ tbl)
    (hc : conflict a b = true) :
    ∃ h, h ∈ a.locks ∧ ∃ k, k ∈ b.locks ∧ h.m = k.m ∧ (h.mode = .excl ∨ k.mode = .excl) := by
  have hp := mem_pairOk hrf ha hb
  have hsh : sharesLock a b = true := by
    unfold pairOk at hp; rw [hc] at hp; simpa using hp
  unfold sharesLock at hsh
  rw [List.any_eq_true] at hsh
  obtain ⟨h, hh, hsh⟩ := hsh
  rw [List.any_eq_true] at hsh
  obtain ⟨k, hk, hmk⟩ := hsh
  have hmk' : h.m = k.m ∧ (h.mode = .excl ∨ k.mode = .excl) := by simpa using hmk
  exact ⟨h, hh, k, hk, hmk'.1, hmk'.2⟩

/-- Two conflicting accesses by different threads, both rows of a table that satisfies the lockset
    discipline and both performed under their recorded locks, are ordered by happens-before. -/
theorem lockset_orders {tbl : List Access} {tr : List Ev} (hrf : raceFree tbl = true)
    (_hwf : WF tr) (hres : Respects tbl tr)
    {i j : Nat} {t u : Tid} {a b : Access} (hij : i < j)
    (hi : tr[i]? = some (.acc t a)) (hj : tr[j]? = some (.acc u b)) (htu : t ≠ u)
    (hc : conflict a b = true) : HB tr i j := by
  obtain ⟨hat, hal⟩ := hres i t a hi
  obtain ⟨hbt, hbl⟩ := hres j u b hj
  obtain ⟨h, hh, k, hk, hm, hx⟩ := common_hold hrf hat hbt hc
  exact hb_of_common_lock hij hi hj htu (hal h hh) (hbl k hk) hm hx

/-! ### tokens as what they are: ordering assumptions

A token (`own:writeBatch`, `once:Writer.once`, …) is not a mutex: no acquire/release event of it exists in a real
execution.  Instead of pretending (hypothesis "the token is held"), the following variant takes the claim of a token
annotation literally: two conflicting accesses whose rows share the token are ordered by the hand-off it names. -/

/-- conflicting accesses of different goroutines whose rows share a token are ordered (the annotation's claim) -/
def TokenOrdered (tokens : List Mutex) (tr : List Ev) : Prop :=
  ∀ (i j : Nat) t u a b, i < j → tr[i]? = some (Ev.acc t a) → tr[j]? = some (Ev.acc u b) → t ≠ u → conflict a b = true →
    (∃ h, h ∈ a.locks ∧ ∃ k, k ∈ b.locks ∧ h.m = k.m ∧ tokens.contains h.m = true) → HB tr i j

/-- every access is a table row performed while its recorded REAL locks are held -/
def RespectsReal (tokens : List Mutex) (tbl : List Access) (tr : List Ev) : Prop :=
  ∀ (i : Nat) t a, tr[i]? = some (Ev.acc t a) → a ∈ tbl ∧ ∀ h, h ∈ a.locks → tokens.contains h.m = false → HoldsAtLeast tr i t h

/-- **lockset_sound_tokens** — the lockset discipline with tokens read as ordering assumptions. -/
theorem lockset_sound_tokens {tbl : List Access} (tokens : List Mutex) (hrf : raceFree tbl = true) :
    ∀ tr : List Ev, WF tr → RespectsReal tokens tbl tr → TokenOrdered tokens tr → ¬ Race tr := by
  intro tr _ hres htok ⟨i, j, t, u, a, b, hij, hi, hj, htu, hc, hn⟩
  apply hn
  obtain ⟨hat, hal⟩ := hres i t a hi
  obtain ⟨hbt, hbl⟩ := hres j u b hj
  obtain ⟨h, hh, k, hk, hm, hx⟩ := common_hold hrf hat hbt hc
  by_cases htk : tokens.contains h.m = true
  · exact htok i j t u a b hij hi hj htu hc ⟨h, hh, k, hk, hm, htk⟩
  · have htk' : tokens.contains h.m = false := by simpa using htk
    have htk'' : tokens.contains k.m = false := by rw [← hm]; exact htk'
    exact hb_of_common_lock hij hi hj htu (hal h hh htk') (hbl k hk htk'') hm hx


/-- after a successful exclusive acquire at position `c`, the acquirer holds the mutex at position `c+1` -/
theorem holdsAt_after_acq {tr : List Ev} (hwf : WF tr) {c : Nat} {u : Tid} {m : Mutex}
    (hc : tr[c]? = some (.acq u m .excl)) : HoldsAt tr (c + 1) u ⟨m, .excl⟩ := by
  obtain ⟨sf, hsf⟩ := hwf
  have hsplit : runL LState.init (tr.take (c + 1) ++ tr.drop (c + 1)) = some sf := by
    rw [List.take_append_drop]; exact hsf
  rw [runL_append] at hsplit
  cases h1 : runL LState.init (tr.take (c + 1)) with
  | none => rw [h1] at hsplit; cases hsplit
  | some s1 =>
    refine ⟨s1, h1, ?_⟩
    have ht : tr.take (c + 1) = tr.take c ++ [Ev.acq u m .excl] := by
      rw [List.take_add_one, hc]; rfl
    rw [ht, runL_append] at h1
    cases h0 : runL LState.init (tr.take c) with
    | none => rw [h0] at h1; cases h1
    | some s0 =>
      rw [h0] at h1
      simp only [Option.bind, runL] at h1
      cases hs : stepL s0 (Ev.acq u m .excl) with
      | none => rw [hs] at h1; cases h1
      | some s2 =>
        rw [hs] at h1
        simp only [Option.some.injEq] at h1
        subst h1
        simp only [stepL] at hs
        by_cases hf : (s0 m).writer = none ∧ (s0 m).readers = []
        · rw [if_pos hf] at hs
          simp only [Option.some.injEq] at hs
          subst hs
          simp [holdsIn, LState.set]
        · rw [if_neg hf] at hs; cases hs

/-- **closed-flag barrier.**  `t` performs an access at `i` inside a critical section of `m` (exclusive, or shared);
    a different goroutine `u` later enters an exclusive critical section of `m` at `c > i` (the section that sets the
    `closed` flag) and performs an access at `j > c` — possibly after leaving the section, holding nothing.  Then the
    two accesses are ordered by happens-before: `t`'s release of `m`, `u`'s acquisition at or before `c`, program order. -/
theorem barrier_orders {tr : List Ev} (hwf : WF tr) {i c j : Nat} {t u : Tid} {a b : Access} {m : Mutex} {mode : Mode}
    (hi : tr[i]? = some (.acc t a)) (hj : tr[j]? = some (.acc u b)) (htu : t ≠ u)
    (hh : HoldsAt tr i t ⟨m, mode⟩)
    (hic : i < c) (hcj : c < j) (hc : tr[c]? = some (.acq u m .excl)) : HB tr i j := by
  obtain ⟨si, hsi, hhi⟩ := hh
  obtain ⟨sc, hsc, hhc⟩ := holdsAt_after_acq hwf hc
  obtain ⟨d, hd⟩ : ∃ d, c + 1 = i + d := ⟨c + 1 - i, by omega⟩
  rw [hd, List.take_add, runL_append, hsi] at hsc
  simp only [Option.bind] at hsc
  have hI : Inv si := inv_run inv_init hsi
  obtain ⟨p, q, hpq, hp', hq'⟩ := release_then_acquire hI hsc hhi hhc htu (Or.inr rfl)
  have seg : ∀ (n : Nat) (e : Ev), (List.take d (List.drop i tr))[n]? = some e → tr[i + n]? = some e ∧ n < d := by
    intro n e hn
    have hlt : n < d := by
      have := (List.getElem?_eq_some_iff.1 hn).1
      have h2 := List.length_take_le d (List.drop i tr)
      omega
    rw [List.getElem?_take_of_lt hlt, List.getElem?_drop] at hn
    exact ⟨hn, hlt⟩
  obtain ⟨hP, _⟩ := seg p _ hp'
  obtain ⟨hQ, hqd⟩ := seg q _ hq'
  have hp0 : p ≠ 0 := by
    intro h0; subst h0
    rw [Nat.add_zero, hi] at hP; cases hP
  have e1 : HB tr i (i + p) := HB.po (by omega) hi hP rfl
  have e2 : HB tr (i + p) (i + q) := HB.sync (by omega) hP hQ (Or.inr rfl)
  have e3 : HB tr (i + q) j := HB.po (by omega) hQ hj rfl
  exact HB.trans e1 (HB.trans e2 e3)


/-! ### barrier tokens: the ordering claim reduced to lock events

A `barrier:` / `order:` token stands for the *closed-flag barrier*: guarded accesses (`wg.Add`, `r.cancel = …`) are
performed under the guard mutex `g` and only while `!closed`; the closing goroutine sets `closed` in an exclusive
critical section of `g` and performs its access (`wg.Wait()`, the read of `r.cancel`) afterwards, holding nothing.  In
terms of events: for two conflicting accesses that share the token, either both sit in critical sections of `g` (two
guarded accesses), or the earlier one does and the later one's goroutine entered an exclusive section of `g` in
between (guarded, then closing).  The remaining order — closing access first, guarded access later — is what the
guard excludes; `BarrierProtocol` claims that it does not occur. -/
def BarrierProtocol (tok g : Mutex) (tr : List Ev) : Prop :=
  ∀ (i j : Nat) t u a b, i < j → tr[i]? = some (Ev.acc t a) → tr[j]? = some (Ev.acc u b) → t ≠ u → conflict a b = true →
    (∃ h, h ∈ a.locks ∧ ∃ k, k ∈ b.locks ∧ h.m = k.m ∧ h.m = tok) →
    (∃ m₁ m₂, HoldsAt tr i t ⟨g, m₁⟩ ∧ HoldsAt tr j u ⟨g, m₂⟩ ∧ (m₁ = .excl ∨ m₂ = .excl)) ∨
    ((∃ m₁, HoldsAt tr i t ⟨g, m₁⟩) ∧ ∃ c, i < c ∧ c < j ∧ tr[c]? = some (Ev.acq u g .excl))

/-- the ordering claim of a barrier token follows from the lock events: no assumption about "hand-offs" is left,
    only the shape of the critical sections -/
theorem tokenOrdered_of_barrier {tok g : Mutex} {tr : List Ev} (hwf : WF tr) (hb : BarrierProtocol tok g tr) :
    TokenOrdered [tok] tr := by
  intro i j t u a b hij hi hj htu hc ⟨h, hh, k, hk, hm, htk⟩
  have htok : h.m = tok := by simpa using htk
  rcases hb i j t u a b hij hi hj htu hc ⟨h, hh, k, hk, hm, htok⟩ with ⟨m₁, m₂, h₁, h₂, hx⟩ | ⟨⟨m₁, h₁⟩, c, hic, hcj, hcq⟩
  · exact hb_of_common_lock (h := ⟨g, m₁⟩) (k := ⟨g, m₂⟩) hij hi hj htu (Or.inl h₁) (Or.inl h₂) rfl hx
  · exact barrier_orders hwf hi hj htu h₁ hic hcj hcq

theorem tokenOrdered_mem {toks : List Mutex} {tr : List Ev} (h : TokenOrdered toks tr) {x : Mutex} (hx : x ∈ toks) :
    TokenOrdered [x] tr := by
  intro i j t u a b hij hi hj htu hc ⟨p, hp, k, hk, hm, htk⟩
  have : p.m = x := by simpa using htk
  exact h i j t u a b hij hi hj htu hc ⟨p, hp, k, hk, hm, by rw [this]; simpa using hx⟩

theorem tokenOrdered_of_forall {toks : List Mutex} {tr : List Ev} (h : ∀ x, x ∈ toks → TokenOrdered [x] tr) :
    TokenOrdered toks tr := by
  intro i j t u a b hij hi hj htu hc ⟨p, hp, k, hk, hm, htk⟩
  have hmem : p.m ∈ toks := by simpa using htk
  exact h p.m hmem i j t u a b hij hi hj htu hc ⟨p, hp, k, hk, hm, by simp⟩

/-- **lockset_sound** — if the table satisfies the lockset discipline then no well-formed execution
    that respects the table contains a data race. -/
theorem lockset_sound {tbl : List Access} (hrf : raceFree tbl = true) :
    ∀ tr : List Ev, WF tr → Respects tbl tr → ¬ Race tr := by
  intro tr hwf hres ⟨i, j, t, u, a, b, hij, hi, hj, htu, hc, hn⟩
  exact hn (lockset_orders hrf hwf hres hij hi hj htu hc)

/-- Construction before publication: what a constructor does before it starts a goroutine
    happens-before everything that goroutine does (why `ctor`-phase rows are exempt). -/
theorem ctor_before_spawned {tr : List Ev} {i s j : Nat} {t c : Tid} {a : Access} {b : Ev}
    (his : i < s) (hsj : s < j) (hi : tr[i]? = some (.acc t a)) (hs : tr[s]? = some (.spawn t c))
    (hj : tr[j]? = some b) (hb : b.tid = c) : HB tr i j :=
  HB.trans (HB.po his hi hs rfl) (HB.go hsj hs hj hb)

/-- Hand-off (what an ownership *token* stands for): what `t` does before it signals on a channel-like
    object (close(ch), send, end of the once.Do body, wg.Done) happens-before what `u` does after the
    matching wait (receive, return of once.Do, wg.Wait) that follows the signal. -/
theorem handoff_orders {tr : List Ev} {i s w j : Nat} {t u : Tid} {c : Nat} {a : Access} {b : Ev}
    (his : i < s) (hsw : s < w) (hwj : w < j) (hi : tr[i]? = some (.acc t a)) (hs : tr[s]? = some (.signal t c))
    (hw : tr[w]? = some (.wait u c)) (hj : tr[j]? = some b) (hb : b.tid = u) : HB tr i j :=
  HB.trans (HB.po his hi hs rfl) (HB.trans (HB.chan hsw hs hw) (HB.po hwj hw hj hb.symm))

/-- `raceFree` is exactly "no offending pair" (the list the check prints) -/
theorem raceFree_iff_no_racyPairs (tbl : List Access) : raceFree tbl = true ↔ racyPairs tbl = [] := by
  unfold raceFree racyPairs
  rw [List.all_eq_true, List.flatMap_eq_nil_iff]
  constructor
  · intro h a ha
    rw [List.map_eq_nil_iff, List.filter_eq_nil_iff]
    intro b hb
    have := h a ha
    rw [List.all_eq_true] at this
    simp [this b hb]
  · intro h a ha
    rw [List.all_eq_true]
    intro b hb
    have := h a ha
    rw [List.map_eq_nil_iff, List.filter_eq_nil_iff] at this
    simpa using this b hb

/-! ## 2. Non-vacuity and sharpness on concrete executions -/

/-- rows: field 0 written under mutex 7 (exclusive); read under mutex 7 (shared); written with no lock -/
def exW : Access := { field := 0, write := true, atomic := false, locks := [⟨7, .excl⟩], phase := .published, site := 0 }
def exR : Access := { field := 0, write := false, atomic := false, locks := [⟨7, .shared⟩], phase := .published, site := 1 }
def exU : Access := { field := 0, write := true, atomic := false, locks := [], phase := .published, site := 2 }

/-- thread 1 writes under Lock, thread 2 reads under RLock -/
def exTrace : List Ev :=
  [.spawn 0 1, .spawn 0 2, .acq 1 7 .excl, .acc 1 exW, .rel 1 7 .excl, .acq 2 7 .shared, .acc 2 exR, .rel 2 7 .shared]

example : raceFree [exW, exR] = true := by decide
example : wfB exTrace = true := by decide
/-- the hypotheses of `lockset_sound` are met by a concrete non-trivial execution … -/
example : WF exTrace := ⟨_, rfl⟩
example : Respects [exW, exR] exTrace := respectsB_sound (by decide)
/-- … whose two accesses conflict, so the conclusion says something -/
example : conflict exW exR = true := by decide

/-- Sharpness: the table with the unlocked writer is rejected, and there is a well-formed execution of
    it with a race in the sense of the model (no happens-before path between the two writes):
    the discipline is not vacuous. -/
theorem unlocked_rejected : raceFree [exW, exU] = false := by decide

/-- … and such a table really has a racy execution in the model: two goroutines performing the unlocked write, nothing
    else — well formed, respects the table, and the two writes are not ordered by happens-before.  The discipline is
    sharp: what it rejects here is a race, not an artefact. -/
def racyTrace : List Ev := [.acc 1 exU, .acc 2 exU]

theorem racyTrace_quiet : Quiet racyTrace := by
  intro i e h
  have : e = .acc 1 exU ∨ e = .acc 2 exU := by
    match i, h with
    | 0, h => left; simpa [racyTrace] using h.symm
    | 1, h => right; simpa [racyTrace] using h.symm
    | n + 2, h => simp [racyTrace] at h
  rcases this with rfl | rfl <;>
    exact ⟨(fun _ _ _ h => by cases h), (fun _ _ h => by cases h), (fun _ _ h => by cases h)⟩

theorem unlocked_pair_races : WF racyTrace ∧ Respects [exU] racyTrace ∧ Race racyTrace := by
  refine ⟨⟨_, rfl⟩, ?_, ?_⟩
  · intro i t a h
    have : a = exU := by
      match i, h with
      | 0, h => have := h; simp [racyTrace] at this; exact this.2.symm
      | 1, h => have := h; simp [racyTrace] at this; exact this.2.symm
      | n + 2, h => simp [racyTrace] at h
    subst this
    exact ⟨List.mem_singleton.2 rfl, fun h hh => absurd hh List.not_mem_nil⟩
  · refine ⟨0, 1, 1, 2, exU, exU, by decide, rfl, rfl, by decide, by decide, ?_⟩
    intro hb
    obtain ⟨a, b, ha, hb', hab⟩ := hb_same_tid_of_quiet racyTrace_quiet hb
    have ea : a = .acc 1 exU := by simpa [racyTrace] using ha.symm
    have eb : b = .acc 2 exU := by simpa [racyTrace] using hb'.symm
    subst ea; subst eb
    exact absurd hab (by decide)

/-- shared/shared does not protect a write: two RLock holders, one of them writing, is rejected -/
theorem shared_shared_rejected :
    raceFree [{ exW with locks := [⟨7, .shared⟩] }, exR] = false := by decide

/-- an atomic pair is accepted without locks; atomic against plain is not -/
theorem atomic_pair_ok : raceFree [{ exU with atomic := true }] = true := by decide
theorem atomic_plain_rejected : raceFree [{ exU with atomic := true }, { exU with write := false }] = false := by decide

/-- `sync.WaitGroup` reuse contract ("an `Add` that starts from zero must happen before `Wait`"; finding C10-D30).  The
    WaitGroup's own methods are internally synchronised (rows of `T.f`, atomic), but the *contract* is a discipline of
    the caller: the extractor emits `Add`/`Go` as a plain write and `Wait` as a plain read of the virtual field
    `T.f/reuse`, so `Add ∥ Wait` is a conflicting pair like any other.  Shape of `Reader.join` before /repo 6e8933d:
    `start` adds under the mutex (7) inside the closed-flag barrier (token 22), `Close` waits behind the barrier, and
    the generation goroutine's `unsubscribe` waits holding nothing — rejected; without that row, accepted. -/
def wgAdd : Access := { field := 1, write := true, atomic := false, locks := [⟨7, .excl⟩, ⟨22, .excl⟩], phase := .published, site := 10 }
def wgWaitClose : Access := { field := 1, write := false, atomic := false, locks := [⟨22, .excl⟩], phase := .published, site := 11 }
def wgWaitGen : Access := { field := 1, write := false, atomic := false, locks := [], phase := .published, site := 12 }
theorem waitgroup_reuse_rejected : raceFree [wgAdd, wgWaitClose, wgWaitGen] = false := by decide
theorem waitgroup_barrier_ok : raceFree [wgAdd, wgWaitClose] = true := by decide

/-- a concrete execution of the protocol: goroutine 1 adds inside a critical section of mutex 7, goroutine 2 closes
    (critical section of 7) and then waits holding nothing; the two accesses share no lock at the moment they are
    performed, and are ordered. -/
def barrierTrace : List Ev :=
  [.acq 1 7 .excl, .acc 1 wgAdd, .rel 1 7 .excl, .acq 2 7 .excl, .rel 2 7 .excl, .acc 2 wgWaitClose]

theorem barrierTrace_ordered : HB barrierTrace 1 5 :=
  barrier_orders (m := 7) (mode := .excl) (c := 3) ⟨_, rfl⟩ rfl rfl (by decide) ⟨_, rfl, rfl⟩ (by decide) (by decide) rfl

/-- A row the extractor emits for "write to the pointee after publication" / "use after Pool.Put" / "object
    retained in a field after Put" is a published, non-atomic write with no lock: such a row conflicts with
    itself (the same statement run by two goroutines, or by the new owner of the object), so **every** table
    containing one is rejected — this is what makes those extractor patterns proof-visible. -/
theorem unlocked_write_row_rejected {tbl : List Access} {a : Access} (hmem : a ∈ tbl)
    (hw : a.write = true) (hna : a.atomic = false) (hp : a.phase = .published) (hl : a.locks = []) :
    raceFree tbl = false := by
  have hbad : pairOk a a = false := by
    simp [pairOk, conflict, sharesLock, hw, hna, hp, hl]
  cases h : raceFree tbl with
  | false => rfl
  | true => rw [mem_pairOk h hmem hmem] at hbad; cases hbad

/-! ## 3. The regenerated access table of /repo -/

/-- the grouped table emitted by the extractor passes the grouped check (kernel evaluation:
    per-field pair checks, keys strictly increasing, every row filed under its own field) -/
theorem repo_groups_ok : groupsOk Gen.groups = true := by decide +kernel

/-- **repo_race_free** — the access table regenerated from the working tree satisfies the lockset
    discipline.  Rows that a recorded finding excludes are not in `Gen.accesses` but in `Gen.excluded`
    (see `repo_excluded_are_racy`); with no exclusions this is the full statement. -/
theorem repo_race_free : raceFree Gen.accesses = true := groupsOk_raceFree repo_groups_ok

/-- so: no execution that respects the regenerated table has a data race -/
theorem repo_no_race : ∀ tr : List Ev, WF tr → Respects Gen.accesses tr → ¬ Race tr :=
  lockset_sound repo_race_free

/-- Exclusions are not padding: every excluded row is in an unprotected conflicting pair with an
    excluded row or with a row of the table (so the full statement `raceFree (accesses ++ excluded)`
    is false exactly when there are exclusions, and `repo_race_free` is then the `_partial` form). -/
theorem repo_excluded_are_racy :
    Gen.excluded.all (fun a => (Gen.excluded ++ rowsOf Gen.groups a.field).any (fun b => !pairOk a b || !pairOk b a)) = true := by
  decide +kernel

/-! ## 4. The locksets of the table are re-derived by a verified analysis of the program skeletons

`Gen/Skeletons.lean` (regenerated) holds the control structure of every function that matters for locksets;
`Lemmas/LockProg.lean` proves the must-lockset analysis `an` sound for all runs of such skeletons
(`an_sound`, `prog_sound`).  Here the analysis is *evaluated by the kernel* on the regenerated skeletons: the side
conditions of the soundness theorem hold, and every lockset the extractor wrote into the access table — except the
rows listed in `Gen.unjustifiedOcc` / `Gen.exemptOcc` — is contained in what the analysis derives for that site. -/

open KV.LockProg

theorem repo_skeleton_rel_ok : relOkB Gen.skeletons Gen.skRel = true := by decide +kernel

/-- one kernel evaluation of the analysis over all skeletons: the entry locksets hold at every call site and the
    indexed copy `Gen.skRowsT` of the rows agrees with the analysis -/
theorem repo_skeleton_check : checkAllB Gen.skeletons Gen.skRel Gen.skEntryR Gen.skRowsT = true := by decide +kernel

theorem repo_skeleton_entry_ok : entryOkB Gen.skeletons Gen.skRel Gen.skEntryR = true := checkAll_entry repo_skeleton_check

theorem repo_rows_indexed : rowsIndexedB (allRows Gen.skeletons Gen.skRel Gen.skEntryR) Gen.skRowsT = true :=
  checkAll_rows repo_skeleton_check

/-- the skeletons are numbered consecutively and no call is dangling (`targets_resolve`: every call target has a body) -/
theorem repo_calls_resolve : indexedB Gen.skeletons = true ∧ targetsOkB Gen.skeletons = true := by decide +kernel

/-- only function literals and functions with an unexported name start from a non-empty entry lockset: whatever can be
    entered from another package is analysed from ∅ -/
theorem repo_entry_roots_ok : entryRootsOkB Gen.skeletonNames Gen.skEntryR = true := by decide +kernel

/-- every table row outside the two listed sets is justified by the analysis -/
theorem repo_table_justified :
    Gen.accesses.all (fun a => justT Gen.skRowsT Gen.tokenIds a || Gen.exemptOcc.contains a.site ||
      Gen.unjustifiedOcc.contains a.site) = true := by decide +kernel

/-- **repo_locks_held** — for every function skeleton `g`, every run of its body that starts with at least its
    entry lockset held, every access `(k, hk)` of that run (in the body, in callees, in closures), and every table
    row `a` of site `k` that is not in the listed sets: the real locks recorded in row `a` are held (`⊆ hk`).
    This is the `Respects` hypothesis of `repo_no_race`, proved for the skeleton semantics instead of assumed. -/
theorem repo_locks_held {g : Nat} {body : Cmd} (hb : envOf Gen.skeletons g = some body)
    {h h' : LS} {obs : List LEv} {t : Out}
    (hs : Sub (getLS Gen.skEntryR g) h) (hrun : Run (envOf Gen.skeletons) body h obs h' t)
    {a : Access} (ha : a ∈ Gen.accesses) (hnu : Gen.unjustifiedOcc.contains a.site = false)
    (hne : Gen.exemptOcc.contains a.site = false) {hk : LS} (hobs : LEv.acc a.site hk ∈ obs) :
    Sub (realLocks Gen.tokenIds a) hk := by
  obtain ⟨L, hrow, hsub⟩ := prog_sound repo_skeleton_rel_ok repo_skeleton_entry_ok hb hs hrun a.site hk hobs
  have hj := (List.all_eq_true.1 repo_table_justified) a ha
  rw [hnu, hne] at hj
  exact justT_held repo_rows_indexed (by simpa using hj) hrow hsub

/-! ## 5. From goroutines that follow the skeletons to `Respects`, and to race freedom

`Respects Gen.accesses tr` was the assumption of `repo_no_race`.  Its clause "the recorded locks are held" is now a
theorem for every well-formed global execution whose goroutines follow skeletons (`Conforms`): simulation of the
global lock state by the per-goroutine runs (`Lemmas/LockCompose.lean: sim`) + `repo_locks_held`.  What stays
assumed is stated as hypotheses: every access event is a table row (completeness of the table, R1), the tokens
(ordering protocols) are respected, and the annotated assumptions `asm` (func_holds, call_acquires) hold where the
execution marks them (`AsmOk`). -/

/-- goroutine `t` of `tr` follows a skeleton: its events (Lock = an exclusive + a shared hold, Unlock/RUnlock = release,
    access = site of the row) are a prefix of the events of a run of a function body entered with no lock held -/
def Conforms (tr : List Ev) (t : Tid) : Prop :=
  ∃ g body evs h' o, envOf Gen.skeletons g = some body ∧ getLS Gen.skEntryR g = [] ∧
    Run (envOf Gen.skeletons) body [] evs h' o ∧ projT t tr <+: evs.map shapeOf

/-- non-vacuity of the skeleton semantics and of the simulation hypotheses: `mu.Lock(); x.f++; mu.Unlock()` -/
def exBody : Cmd := .seq (.acq ⟨7, .excl⟩) (.seq (.acq ⟨7, .shared⟩) (.seq (.acc 0) (.rel 7)))

example : Run (envOf [(0, exBody)]) exBody []
    [.acq ⟨7, .excl⟩, .acq ⟨7, .shared⟩, .acc 0 [⟨7, .shared⟩, ⟨7, .excl⟩], .rel 7] (dropM 7 [⟨7, .shared⟩, ⟨7, .excl⟩]) .normal :=
  Run.seqN Run.acq (Run.seqN Run.acq (Run.seqN Run.acc Run.rel))

/-- the global execution `Lock; access; Unlock` of goroutine 1 projects onto exactly those events -/
example : projT 1 [.acq 1 7 .excl, .acc 1 exW, .rel 1 7 .excl] =
    ([.acq ⟨7, .excl⟩, .acq ⟨7, .shared⟩, .acc 0 [⟨7, .shared⟩, ⟨7, .excl⟩], .rel 7] : List LEv).map shapeOf := by decide

/-- a row whose locks are not re-derived from the skeletons: listed as unjustified (the check fails then) or exempt
    (its function uses control flow the skeletons do not express: `goto`, `fallthrough`); for such rows the Go-side
    lockset is an assumption of the theorems below (`hext`).  Both lists are empty on the pinned tree. -/
def NotRederived (a : Access) : Prop := Gen.unjustifiedOcc.contains a.site = true ∨ Gen.exemptOcc.contains a.site = true

/-- the real locks of a re-derived table row are held — in the global lock state — whenever a conforming goroutine performs it -/
theorem repo_real_locks_held {tr : List Ev} (hwf : WF tr) {t : Tid} (hconf : Conforms tr t)
    (hasm : AsmOk t LState.init tr) {i : Nat} {a : Access} (hi : tr[i]? = some (Ev.acc t a)) (ha : a ∈ Gen.accesses)
    (hre : ¬ NotRederived a) :
    ∀ x, x ∈ realLocks Gen.tokenIds a → HoldsAtLeast tr i t x := by
  obtain ⟨g, body, evs, h', o, hb, he, hrun, hpre⟩ := hconf
  obtain ⟨send, hsend⟩ := hwf
  have hcons : consistent [] evs := by
    have := run_consistent hrun [] trivial
    simpa using this
  obtain ⟨sj, hk, hr, hmem, hheld⟩ :=
    sim t hsend (fun x hx => absurd hx List.not_mem_nil) hcons hpre hasm i a hi
  have hnu : Gen.unjustifiedOcc.contains a.site = false := by
    cases h : Gen.unjustifiedOcc.contains a.site with
    | false => rfl
    | true => exact absurd (Or.inl h) hre
  have hne : Gen.exemptOcc.contains a.site = false := by
    cases h : Gen.exemptOcc.contains a.site with
    | false => rfl
    | true => exact absurd (Or.inr h) hre
  have hsub : Sub (realLocks Gen.tokenIds a) hk :=
    repo_locks_held hb (by rw [he]; exact sub_nil _) hrun ha hnu hne hmem
  intro x hx
  rcases hheld x (hsub x hx) with h1 | ⟨hm, h2⟩
  · exact Or.inl ⟨sj, hr, h1⟩
  · exact Or.inr ⟨hm, sj, hr, h2⟩

/-- **repo_respects_of_conformance** -/
theorem repo_respects_of_conformance {tr : List Ev} (hwf : WF tr)
    (hconf : ∀ t, Conforms tr t) (hasm : ∀ t, AsmOk t LState.init tr)
    (hrows : ∀ (i : Nat) t a, tr[i]? = some (Ev.acc t a) → a ∈ Gen.accesses)
    (htok : ∀ (i : Nat) t a, tr[i]? = some (Ev.acc t a) → ∀ h, h ∈ a.locks → Gen.tokenIds.contains h.m = true → HoldsAtLeast tr i t h)
    (hext : ∀ (i : Nat) t a, tr[i]? = some (Ev.acc t a) → NotRederived a → ∀ h, h ∈ a.locks → HoldsAtLeast tr i t h) :
    Respects Gen.accesses tr := by
  intro i t a hi
  refine ⟨hrows i t a hi, fun h hh => ?_⟩
  by_cases hre : NotRederived a
  · exact hext i t a hi hre h hh
  by_cases htk : Gen.tokenIds.contains h.m = true
  · exact htok i t a hi h hh htk
  · have hreal : h ∈ realLocks Gen.tokenIds a := by
      unfold realLocks
      exact List.mem_filter.2 ⟨hh, by simpa using htk⟩
    exact repo_real_locks_held hwf (hconf t) (hasm t) hi (hrows i t a hi) hre h hreal

/-- **repo_no_race_of_conformance** — no data race in any well-formed execution whose goroutines follow the
    regenerated skeletons, whose accesses are table rows, and in which tokens and annotated assumptions hold. -/
theorem repo_no_race_of_conformance {tr : List Ev} (hwf : WF tr)
    (hconf : ∀ t, Conforms tr t) (hasm : ∀ t, AsmOk t LState.init tr)
    (hrows : ∀ (i : Nat) t a, tr[i]? = some (Ev.acc t a) → a ∈ Gen.accesses)
    (htok : ∀ (i : Nat) t a, tr[i]? = some (Ev.acc t a) → ∀ h, h ∈ a.locks → Gen.tokenIds.contains h.m = true → HoldsAtLeast tr i t h)
    (hext : ∀ (i : Nat) t a, tr[i]? = some (Ev.acc t a) → NotRederived a → ∀ h, h ∈ a.locks → HoldsAtLeast tr i t h) :
    ¬ Race tr :=
  repo_no_race tr hwf (repo_respects_of_conformance hwf hconf hasm hrows htok hext)

/-- **repo_no_race_of_conformance_tokens** — the same with the tokens read as ordering assumptions (no fictitious
    token events): goroutines follow the skeletons, accesses are table rows, annotated assumptions hold where marked,
    and accesses protected by a token are ordered by its hand-off. -/
theorem repo_no_race_of_conformance_tokens {tr : List Ev} (hwf : WF tr)
    (hconf : ∀ t, Conforms tr t) (hasm : ∀ t, AsmOk t LState.init tr)
    (hrows : ∀ (i : Nat) t a, tr[i]? = some (Ev.acc t a) → a ∈ Gen.accesses)
    (htok : TokenOrdered Gen.tokenIds tr)
    (hext : ∀ (i : Nat) t a, tr[i]? = some (Ev.acc t a) → NotRederived a → ∀ h, h ∈ a.locks → HoldsAtLeast tr i t h) :
    ¬ Race tr := by
  refine lockset_sound_tokens Gen.tokenIds repo_race_free tr hwf ?_ htok
  intro i t a hi
  refine ⟨hrows i t a hi, fun h hh hnt => ?_⟩
  by_cases hre : NotRederived a
  · exact hext i t a hi hre h hh
  have hreal : h ∈ realLocks Gen.tokenIds a := by
    unfold realLocks
    exact List.mem_filter.2 ⟨hh, by simpa using hnt⟩
  exact repo_real_locks_held hwf (hconf t) (hasm t) hi (hrows i t a hi) hre h hreal

/-- No `Lock`/`Unlock` of the tracked code operates on a by-value copy of its mutex (a method with a value receiver, a
    struct passed by value: `func (h ReferenceHash) Balance` locks a fresh copy of `h.lock` on every call).  The
    skeletons identify a mutex by `Type.field`; an `acq` event of that identity is an acquisition of the one mutex the
    instance owns only if the operand is not a copy — this fact is what makes `Conforms` meaningful for lock events.
    The extractor drops such operations from the locksets (the rows they were meant to protect then fail
    `repo_groups_ok`) and counts them here. -/
theorem repo_no_copied_locks : Gen.copiedLockOps = 0 := by decide

/-- every token of the table is a plain (assumed) token or a barrier token with its guard mutex -/
theorem repo_tokens_covered :
    Gen.tokenIds.all (fun x => Gen.plainTokenIds.contains x || Gen.barrierTokens.any (fun p => p.1 == x)) = true := by
  decide

/-- **repo_no_race_of_conformance_barriers** — as `repo_no_race_of_conformance_tokens`, with the ordering claim of the
    closed-flag barrier tokens (`order:Reader.cancel`, `barrier:Reader.closed`, `barrier:Writer.closed`) no longer
    assumed but derived from the lock events of the execution (`BarrierProtocol`: shape of the critical sections of the
    guard mutex); only the ownership / `sync.Once` tokens remain ordering assumptions. -/
theorem repo_no_race_of_conformance_barriers {tr : List Ev} (hwf : WF tr)
    (hconf : ∀ t, Conforms tr t) (hasm : ∀ t, AsmOk t LState.init tr)
    (hrows : ∀ (i : Nat) t a, tr[i]? = some (Ev.acc t a) → a ∈ Gen.accesses)
    (hbar : ∀ p, p ∈ Gen.barrierTokens → BarrierProtocol p.1 p.2 tr)
    (htok : TokenOrdered Gen.plainTokenIds tr)
    (hext : ∀ (i : Nat) t a, tr[i]? = some (Ev.acc t a) → NotRederived a → ∀ h, h ∈ a.locks → HoldsAtLeast tr i t h) :
    ¬ Race tr := by
  refine repo_no_race_of_conformance_tokens hwf hconf hasm hrows (tokenOrdered_of_forall ?_) hext
  intro x hx
  have hc := List.all_eq_true.1 repo_tokens_covered x hx
  simp only [Bool.or_eq_true, List.any_eq_true] at hc
  rcases hc with hp | ⟨p, hp, hpx⟩
  · exact tokenOrdered_mem htok (by simpa using hp)
  · have hpx' : p.1 = x := by simpa using hpx
    rw [← hpx']
    exact tokenOrdered_of_barrier hwf (hbar p hp)

-- On the pinned tree `Gen.unjustifiedOcc = []` and `Gen.exemptOcc = []`, i.e. `hext` is vacuous; the check reports a
-- non-empty `unjustifiedOcc` as a broken obligation and a non-empty `exemptOcc` as a note in the evidence.

end KV.C10
