/-
Props/C11.lean — "A Conn stays usable after broker-reported errors and is never reused misaligned".

Model: Base/Reader.lean (read.go/discard.go), Model/ConnOps.lean (parser programs, (*Conn).do, waitResponse,
ReadBatchWith/Batch), Model/ConnSpecs.lean (the table of operations over the REGENERATED `readFrom` programs, struct
layouts and call table of Gen/ConnLegacy.lean).

Statement proved (for every operation that goes through (*Conn).do, every negotiated version, every response frame
`hdr ++ body` that is fully delivered, *whatever bytes* `body` holds — in particular with any int16 in any error field —
and whatever follows on the stream):
  after the operation either the result is ok / a kafka error, exactly the frame was consumed, the Conn is open and its
  state is the state of a fresh Conn positioned at the next frame (`aligned_or_closed`, `next_op_as_fresh`); or the
  result is a non-kafka error and the Conn is closed, after which every operation fails (`closed_stays_failed`).
No well-formedness of `body` is needed for this: it follows from byte conservation of every parser program
(`parser_conserves`, proved once for ALL programs, so it also covers whatever the translator regenerates) plus
`expectZeroSize` and the drain on kafka errors (`discardOnKafkaError`, the D2 fix).

Operations that needed more than the table entry, and why:
  * listOffsets (`readOffset`): inside the main theorems since the fix C11-D34 (the kafka error left the partition
    loop without a drain: `listOffsets_two_partitions_counterexample` keeps that shape); `listOffsets_aligned_wf`
    adds that every frame of the shape a broker answers a one-partition request with (∀ topic name, partition, error
    code, timestamp, offset, trailing bytes) gives ok / that kafka error with exactly the frame consumed — for the
    regenerated operation by `listOffsets_gen_shape`; `listOffsets_wf_example` is a concrete instance.
  * fetch (`ReadBatchWith`/`Batch`): `fetch_aligned_or_closed`, for every message-set reader that conserves bytes (the
    hypothesis is discharged for the reader stack of message_reader.go: `stackBody_conserves`); unconditional since the
    fix C11-D32 (`fetch_at_watermark_counterexample` keeps the unfixed shape).
  * apiVersions: inside the main theorems since the fix C11-D33 (`expectZeroSize` and close on non-kafka errors, both
    regenerated; before it nothing could be said about arbitrary bytes: `apiVersions_trailing_counterexample`);
    `apiVersions_aligned_wf` adds that on every well-formed v0 frame (any error code, any number of entries, anything
    after the frame) the result is ok / that kafka error and exactly the frame is consumed — the count of entries is
    checked before the loop (`.arrB 6`, regenerated from `arrSize < 0 || int(arrSize) > size/6`).
The D2 shape (no drain) is kept as `d2_regression_counterexample`: the theorem is false for it.
-/
import KafkaVerif.Lemmas.ConnOps
import KafkaVerif.Lemmas.ConnLocal
import KafkaVerif.Model.ConnSpecs
import KafkaVerif.Spec.ConnFrames
import KafkaVerif.Model.ReaderStack

namespace KV.C11
open KV KV.Reader KV.ConnOps

/-- every parser program conserves bytes: consumed bytes and the frame counter move together, on success and on error -/
theorem parser_conserves (ps : List Step) (c : Ctx) (s : RS) : Adv s (runSteps ps c s).2 :=
  runSteps_adv ps c s

/-- a broker error code can only surface from inside a parse through an explicit early exit -/
theorem kafka_error_needs_check (ps : List Step) (h : hasFailList ps = false) (c : Ctx) (s : RS) :
    isKafka (runSteps ps c s).1 = false :=
  runSteps_nok ps h c s

/-- one exchange: a good operation that does not fail consumed exactly the announced `sz` bytes -/
theorem exchange_aligned (o : OpSpec) (v : Nat) (topic : Bytes) (s : RS) (hgood : o.good v = true)
    (hnf : (opRead o v topic s).1.isFail = false) :
    s.sz ≤ s.inp.length ∧ (opRead o v topic s).2 = ⟨s.inp.drop s.sz, 0⟩ := by
  have hg : o.expectZero = true ∧ (o.drain = true ∨ hasFailList (o.parse v) = false) := by
    simpa [OpSpec.good] using hgood
  have hz := opRead_not_fail_zero o v topic s hg.1 hg.2 hnf
  have ha := (opRead_adv o v topic s).consumed_all hz
  refine ⟨ha.1, ?_⟩
  cases hr : (opRead o v topic s).2 with
  | mk i z => rw [hr] at hz ha; simp only at hz ha; rw [hz, ha.2]

/-! ### framing facts used by the Conn-level theorems -/

/-- waitResponse on a stream that starts with a response header for the expected correlation id -/
theorem wait_hdr (c : Conn) (hdr tail : Bytes) (n : Nat) (hstream : c.stream = hdr ++ tail) (hlen : hdr.length = 8)
    (hsize : beInt (hdr.take 4) = n + 4) (hid : beInt (hdr.drop 4) = c.nextId) :
    waitResponse c = .ok (n, tail) := by
  unfold waitResponse
  have h1 : ¬ c.stream.length < 8 := by rw [hstream]; simp only [List.length_append]; omega
  have h2 : c.stream.take 4 = hdr.take 4 := by
    rw [hstream, List.take_append_of_le_length (by omega)]
  have h3 : (c.stream.drop 4).take 4 = hdr.drop 4 := by
    rw [hstream, List.drop_append_of_le_length (by omega)]
    rw [List.take_append_of_le_length (by simp; omega)]
    exact List.take_of_length_le (by simp; omega)
  have h4 : c.stream.drop 8 = tail := by
    rw [hstream, ← hlen, List.drop_left]
  simp only [h1, ↓reduceIte, h2, h3, hsize, hid, h4, ne_eq, not_true_eq_false]
  congr 2
  omega

theorem wait_ok (c : Conn) (hdr body rest : Bytes) (hstream : c.stream = hdr ++ body ++ rest) (hlen : hdr.length = 8)
    (hsize : beInt (hdr.take 4) = body.length + 4) (hid : beInt (hdr.drop 4) = c.nextId) :
    waitResponse c = .ok (body.length, body ++ rest) :=
  wait_hdr c hdr (body ++ rest) body.length (by rw [hstream, List.append_assoc]) hlen hsize hid

/-- THE C11 THEOREM for the operations going through (*Conn).do. -/
theorem aligned_or_closed (o : OpSpec) (v : Nat) (topic : Bytes) (c : Conn) (hdr body rest : Bytes)
    (hgood : o.good v = true) (hclose : o.closeOnErr = true) (hopen : c.closed = false)
    (hstream : c.stream = hdr ++ body ++ rest) (hlen : hdr.length = 8)
    (hsize : beInt (hdr.take 4) = body.length + 4) (hid : beInt (hdr.drop 4) = c.nextId) :
    ((connDo o v topic c).1.isFail = false ∧
        (connDo o v topic c).2 = { stream := rest, nextId := c.nextId + 1, closed := false }) ∨
    ((connDo o v topic c).1.isFail = true ∧ (connDo o v topic c).2.closed = true) := by
  have hw := wait_ok c hdr body rest hstream hlen hsize hid
  unfold connDo
  simp only [hopen, Bool.false_eq_true, ↓reduceIte, hw]
  cases hf : (opRead o v topic ⟨body ++ rest, body.length⟩).1.isFail with
  | true => right; simp [hclose]
  | false =>
    left
    have ha := exchange_aligned o v topic ⟨body ++ rest, body.length⟩ hgood hf
    simp only [List.drop_left] at ha
    simp [ha.2]

/-- aligned ⇒ the next operation runs from exactly the state of a fresh connection positioned at the next frame:
its result is the fresh connection's result (both are the same function applied to the same state). -/
theorem next_op_as_fresh (o : OpSpec) (v : Nat) (topic : Bytes) (c : Conn) (hdr body rest : Bytes)
    (hgood : o.good v = true) (hclose : o.closeOnErr = true) (hopen : c.closed = false)
    (hstream : c.stream = hdr ++ body ++ rest) (hlen : hdr.length = 8)
    (hsize : beInt (hdr.take 4) = body.length + 4) (hid : beInt (hdr.drop 4) = c.nextId)
    (hnf : (connDo o v topic c).1.isFail = false) (o₂ : OpSpec) (v₂ : Nat) :
    connDo o₂ v₂ topic (connDo o v topic c).2 =
      connDo o₂ v₂ topic { stream := rest, nextId := c.nextId + 1, closed := false } := by
  rcases aligned_or_closed o v topic c hdr body rest hgood hclose hopen hstream hlen hsize hid with h | h
  · rw [h.2]
  · rw [h.1] at hnf; cases hnf

/-- **no byte of another response is ever looked at**: for EVERY operation (good or not), every version and every
body, the result of an exchange is a function of the bytes of its own frame alone, and whatever follows the frame on
the stream is still there, untouched, after whatever part of the frame was left unread.  (Locality of every parser
program: `runSteps_local`, by the same mutual induction as conservation.) -/
theorem result_depends_only_on_frame (o : OpSpec) (v : Nat) (topic : Bytes) (c : Conn) (hdr body rest : Bytes)
    (hopen : c.closed = false)
    (hstream : c.stream = hdr ++ body ++ rest) (hlen : hdr.length = 8)
    (hsize : beInt (hdr.take 4) = body.length + 4) (hid : beInt (hdr.drop 4) = c.nextId) :
    (connDo o v topic c).1 = (opRead o v topic ⟨body, body.length⟩).1 ∧
    (connDo o v topic c).2.stream = (opRead o v topic ⟨body, body.length⟩).2.inp ++ rest := by
  have hw := wait_ok c hdr body rest hstream hlen hsize hid
  have hl := opRead_local o v topic rest ⟨body, body.length⟩ (by simp [Enough])
  simp only [ext] at hl
  unfold connDo
  simp only [hopen, Bool.false_eq_true, ↓reduceIte, hw, hl]
  exact ⟨trivial, trivial⟩

/-- after a transport / framing error the Conn is closed and every later operation fails, forever -/
theorem closed_stays_failed (o : OpSpec) (v : Nat) (topic : Bytes) (c : Conn) (h : c.closed = true) :
    (connDo o v topic c).1.isFail = true ∧ (connDo o v topic c).2 = c := by
  unfold connDo; simp [h, Outcome.isFail]

/-- a response nobody asked for (foreign correlation id at the head of the stream, one waiter): io.ErrNoProgress AND the
Conn is closed (fix C11-D30) — so by `closed_stays_failed` every later operation fails, whatever ids it uses; before
the fix a later request whose id happened to equal the stale frame's took it for its own response. -/
theorem desync_closes (o : OpSpec) (v : Nat) (topic : Bytes) (c : Conn) (hopen : c.closed = false)
    (hlen : 8 ≤ c.stream.length) (hid : beInt ((c.stream.drop 4).take 4) ≠ c.nextId) :
    (connDo o v topic c).1.isFail = true ∧ (connDo o v topic c).2.closed = true ∧
    ∀ o₂ v₂, (connDo o₂ v₂ topic (connDo o v topic c).2).1.isFail = true := by
  have hw : waitResponse c = .error (.other "io.ErrNoProgress") := by
    unfold waitResponse
    have : ¬ c.stream.length < 8 := by omega
    simp [this, hid]
  have h1 : connDo o v topic c = (.fail (.other "io.ErrNoProgress"), { c with nextId := c.nextId + 1, closed := true }) := by
    unfold connDo
    simp [hopen, hw]
  rw [h1]
  refine ⟨rfl, rfl, fun o₂ v₂ => ?_⟩
  exact (closed_stays_failed o₂ v₂ topic _ rfl).1

theorem closed_stays_failed_fetch (fixed : Bool) (v : Nat) (off : Int) (b : Body) (c : Conn) (h : c.closed = true) :
    (connFetch fixed v off b c).1.isFail = true ∧ (connFetch fixed v off b c).2 = c := by
  unfold connFetch; simp [h, Outcome.isFail]

/-! ### the operation table satisfies the hypotheses (facts regenerated from /repo on every run) -/

/-- operations covered by `aligned_or_closed` -/
def coveredOps : List String := doOps      -- all of them since list-offsets drains on kafka errors (fix C11-D34)

def goodFor (name : String) (vs : List Nat) : Bool :=
  match specOf name with
  | some o => vs.all (fun v => o.good v) && o.closeOnErr
  | none => false

/-- versions each operation can negotiate (single-version operations: the version conn.go hard-codes) -/
def versionsFor (name : String) : List Nat :=
  match name with
  | "produce" => Gen.ConnLegacy.versionsOf "writeCompressedMessages"
  | "metadata" => Gen.ConnLegacy.versionsOf "ReadPartitions"
  | "joinGroup" => Gen.ConnLegacy.versionsOf "joinGroup"
  | "createTopics" => Gen.ConnLegacy.versionsOf "createTopics"
  | "deleteTopics" => Gen.ConnLegacy.versionsOf "deleteTopics"
  | "saslHandshake" => Gen.ConnLegacy.versionsOf "saslHandshake"
  | _ => [0, 1, 2]

theorem covered_ops_good : coveredOps.all (fun n => goodFor n (versionsFor n)) = true := by decide

/-- produce: all three negotiated versions drain on kafka errors (this is the D2 fix; false before it) -/
theorem produce_good : goodFor "produce" [2, 3, 7] = true := by decide

theorem fetch_fixed : fetchFixed = true := by decide

/-- `do` and `Batch.close` close the connection on exactly the non-kafka errors (regenerated; `connFetch` closes on every
failed outcome, and failed = non-kafka there) -/
theorem close_rules_hold : Gen.ConnLegacy.doClosesNonKafka = true ∧ Gen.ConnLegacy.batchClosesNonKafka = true := by decide

/-! ### a size prefix below 4 (negative ones included)

conn.go waitResponse hands `size − 4` to the read closure; with a prefix below 4 (the correlation id alone takes 4
bytes) that is ≤ 0 and every `readIntN` / `discardN` of read.go answers errShortRead without touching the stream: the
operation fails and `do` closes the Conn.  This removes the assumption "size prefix ≥ 4" from the main theorems: a
fully delivered frame either has an honest prefix (`aligned_or_closed`) or a prefix below 4 (`bad_size_closes`) — a
prefix that is ≥ 4 but wrong is some other frame's honest prefix as far as the client can tell. -/

/-- the program, run on a frame of announced size 0 (and nothing to read), stops with errShortRead having touched
nothing — a closed computation, decided per operation and version below -/
def shortAtZero (ps : List Step) (v : Nat) : Bool :=
  match runSteps ps { ver := v } ⟨[], 0⟩ with
  | (.error .shortRead, ⟨[], 0⟩) => true
  | _ => false

/-- … and then it does so whatever the stream holds (locality: the program cannot look beyond the announced size) -/
theorem opRead_zero (o : OpSpec) (v : Nat) (topic inp : Bytes) (h : shortAtZero (o.parse v) v = true) :
    opRead o v topic ⟨inp, 0⟩ = (.fail .shortRead, ⟨inp, 0⟩) := by
  have hl := runSteps_local (o.parse v) inp { ver := v } ⟨[], 0⟩ (by simp [Enough])
  simp only [ext, List.nil_append] at hl
  unfold shortAtZero at h
  unfold opRead
  rw [hl]
  cases hr : runSteps (o.parse v) { ver := v } ⟨[], 0⟩ with
  | mk r s' =>
    rw [hr] at h
    obtain ⟨i, z⟩ := s'
    cases r with
    | ok _ => simp at h
    | error e =>
      cases e <;> cases i <;> cases z <;> simp at h
      simp

def startsFor (name : String) (vs : List Nat) : Bool :=
  match specOf name with
  | some o => vs.all (fun v => shortAtZero (o.parse v) v)
  | none => false

/-- every operation of the table (list-offsets included), every negotiated version, on the regenerated programs -/
theorem ops_short_at_zero : doOps.all (fun n => startsFor n (versionsFor n)) = true := by decide

/-- waitResponse on a header for the expected id whose size prefix is below 4: the read closure gets size 0 -/
theorem wait_bad_size (c : Conn) (hdr rest : Bytes) (hstream : c.stream = hdr ++ rest) (hlen : hdr.length = 8)
    (hsize : beInt (hdr.take 4) < 4) (hid : beInt (hdr.drop 4) = c.nextId) :
    waitResponse c = .ok (0, rest) := by
  have h1 : ¬ c.stream.length < 8 := by rw [hstream]; simp only [List.length_append]; omega
  have h2 : c.stream.take 4 = hdr.take 4 := by
    rw [hstream, List.take_append_of_le_length (by omega)]
  have h3 : (c.stream.drop 4).take 4 = hdr.drop 4 := by
    rw [hstream, List.drop_append_of_le_length (by omega)]
    rw [List.take_append_of_le_length (by simp; omega)]
    exact List.take_of_length_le (by simp; omega)
  have h4 : c.stream.drop 8 = rest := by
    rw [hstream, ← hlen, List.drop_left]
  have hz : (beInt (hdr.take 4) - 4).toNat = 0 := by omega
  unfold waitResponse
  simp only [h1, ↓reduceIte, h2, h3, hid, h4, ne_eq, not_true_eq_false, hz]

/-- a response for the expected correlation id whose size prefix is below 4: the operation fails (errShortRead) and the
Conn is closed — for every such prefix, negative ones included, and whatever follows. -/
theorem bad_size_closes (o : OpSpec) (v : Nat) (topic : Bytes) (c : Conn) (hdr rest : Bytes)
    (hstart : shortAtZero (o.parse v) v = true) (hclose : o.closeOnErr = true) (hopen : c.closed = false)
    (hstream : c.stream = hdr ++ rest) (hlen : hdr.length = 8)
    (hsize : beInt (hdr.take 4) < 4) (hid : beInt (hdr.drop 4) = c.nextId) :
    (connDo o v topic c).1 = .fail .shortRead ∧ (connDo o v topic c).2.closed = true := by
  have hw := wait_bad_size c hdr rest hstream hlen hsize hid
  unfold connDo
  simp only [hopen, Bool.false_eq_true, ↓reduceIte, hw, opRead_zero o v topic rest hstart]
  simp [Outcome.isFail, hclose]

/-- fetch: the three header programs stop with errShortRead at size 0 (ReadBatchWith maps it to io.ErrUnexpectedEOF) -/
theorem fetch_headers_short_at_zero : [2, 5, 10].all (fun v => shortAtZero (fetchHeader v) v) = true := by decide

theorem bad_size_closes_fetch (fixed : Bool) (v : Nat) (off : Int) (b : Body) (c : Conn) (hdr rest : Bytes)
    (hstart : shortAtZero (fetchHeader v) v = true) (hopen : c.closed = false)
    (hstream : c.stream = hdr ++ rest) (hlen : hdr.length = 8)
    (hsize : beInt (hdr.take 4) < 4) (hid : beInt (hdr.drop 4) = c.nextId) :
    (connFetch fixed v off b c).1 = .fail .unexpectedEOF ∧ (connFetch fixed v off b c).2.closed = true := by
  have hw := wait_bad_size c hdr rest hstream hlen hsize hid
  have hl := runSteps_local (fetchHeader v) rest { ver := v } ⟨[], 0⟩ (by simp [Enough])
  simp only [ext, List.nil_append] at hl
  unfold shortAtZero at hstart
  have hr : fetchRead fixed v off b ⟨rest, 0⟩ = (.fail .unexpectedEOF, ⟨rest, 0⟩) := by
    unfold fetchRead
    rw [hl]
    cases hr : runSteps (fetchHeader v) { ver := v } ⟨[], 0⟩ with
    | mk r s' =>
      rw [hr] at hstart
      obtain ⟨i, z⟩ := s'
      cases r with
      | ok _ => simp at hstart
      | error e =>
        cases e <;> cases i <;> cases z <;> simp at hstart
        simp
  unfold connFetch
  simp only [hopen, Bool.false_eq_true, ↓reduceIte, hw, hr]
  simp [Outcome.isFail]

/-! ### the regenerated parser programs are the Kafka layouts (Spec/ConnFrames.lean, transcribed independently) -/

open KV.Gen.ConnLegacy KV.Spec.ConnFrames in
/-- (operation, versions, generated program): with the version conditionals resolved, the program read by the Go code
is token-for-token the layout of the protocol guide -/
def genSpecPairs : List (String × List Nat × List Step) :=
  [ ("findCoordinator", [0], findCoordinatorResponseV0), ("heartbeat", [0], heartbeatResponseV0),
    ("joinGroup", [1, 2], joinGroupResponse), ("leaveGroup", [0], leaveGroupResponseV0),
    ("listGroups", [1], listGroupsResponseV1), ("offsetCommit", [2], offsetCommitResponseV2),
    ("offsetFetch", [1], offsetFetchResponseV1), ("syncGroup", [0], syncGroupResponseV0),
    ("saslHandshake", [0, 1], saslHandshakeResponseV0), ("saslAuthenticate", [0], saslAuthenticateResponseV0),
    ("createTopics", [0, 1, 2], createTopicsResponse), ("deleteTopics", [0, 1], deleteTopicsResponse),
    ("metadata", [1], metadataResponseV1), ("metadata", [6], metadataResponseV6), ("brokers", [1], metadataResponseV1) ]

open KV.Spec.ConnFrames in
theorem gen_matches_spec :
    genSpecPairs.all (fun p => p.2.1.all fun v => (layout p.1 v).map (renderSteps v) == some (renderSteps v p.2.2)) = true := by
  decide

open KV.Gen.ConnLegacy KV.Spec.ConnFrames in
theorem gen_partitions_match_spec :
    renderSteps 1 partitionOffsetV1 = renderSteps 1 listOffsetsPartition ∧
    renderSteps 2 produceResponsePartitionV2 = renderSteps 2 (producePartition 2) ∧
    renderSteps 3 produceResponsePartitionV2 = renderSteps 3 (producePartition 3) ∧
    renderSteps 7 produceResponsePartitionV7 = renderSteps 7 (producePartition 7) := by decide

/-! ### the transcribed closures / fetch headers are what the translator regenerates from read.go and conn.go -/

open KV.Gen.ConnLegacy in
theorem closures_regenerated :
    stepsEq fetchHeaderV2Gen fetchHeaderV2 = true ∧ stepsEq fetchHeaderV5Gen fetchHeaderV5 = true ∧
    stepsEq fetchHeaderV10Gen fetchHeaderV10 = true ∧
    stepsEq readOffsetClosureGen (readOffsetClosure partitionOffsetV1) = true ∧
    produceClosureGen.all (fun vp => match specOf "produce" with
                                     | some o => stepsEq vp.2 (o.parse vp.1)
                                     | none => false) = true ∧
    produceClosureGen.map (·.1) = versionsOf "writeCompressedMessages" ∧
    stepsEq apiVersionsParseGen apiVersionsParse = true ∧ apiVersionsErrAfter = true := by decide

/-! `stepsEq` is sound: it only accepts equal programs, so the theorems about the transcriptions are theorems about
the regenerated programs -/
mutual
theorem eqv_sound : ∀ (a b : Step), a.eqv b = true → a = b := by
  intro a b h
  cases a <;> cases b <;> simp only [Step.eqv, Bool.and_eq_true, beq_iff_eq, Bool.false_eq_true] at h
  all_goals first
    | rfl
    | (subst h; rfl)
    | (rename_i x y; rw [stepsEq_sound x y h])
    | (rename_i v x w y; obtain ⟨h1, h2⟩ := h; subst h1; rw [stepsEq_sound x y h2])
theorem stepsEq_sound : ∀ (a b : List Step), stepsEq a b = true → a = b := by
  intro a b h
  cases a <;> cases b <;> simp only [stepsEq, Bool.and_eq_true, Bool.false_eq_true] at h
  · rfl
  · rename_i x xs y ys
    rw [eqv_sound x y h.1, stepsEq_sound xs ys h.2]
end

/-! ### D2: what the fix repairs (regression witness; the unfixed shape violates the theorem) -/

def produceUnfixed : OpSpec :=
  { parse := fun v => produceClosure (if v ≥ 7 then Gen.ConnLegacy.produceResponsePartitionV7 else Gen.ConnLegacy.produceResponsePartitionV2),
    drain := false, expectZero := true, post := .none, closeOnErr := true }

/-- produce v2 response: 1 topic "t", 1 partition 0, error 6 (NotLeaderForPartition), offset −1, timestamp −1, throttle 0 -/
def d2Body : Bytes :=
  [0,0,0,1, 0,1,116, 0,0,0,1, 0,0,0,0, 0,6, 255,255,255,255,255,255,255,255, 255,255,255,255,255,255,255,255, 0,0,0,0]
def d2Frame (id : UInt8) : Bytes := [0,0,0,41, 0,0,0,id] ++ d2Body
def d2Next : Bytes := [0,0,0,6, 0,0,0,2, 0,0]     -- a heartbeat response for request 2

/-- without the drain: kafka error 6, Conn kept, 4 bytes of the frame left → the next operation reads mid-frame and
reports io.ErrNoProgress -/
theorem d2_regression_counterexample :
    (connDo produceUnfixed 2 [116] ⟨d2Frame 1 ++ d2Next, 1, false⟩).1 = .kafka 6 ∧
    (connDo produceUnfixed 2 [116] ⟨d2Frame 1 ++ d2Next, 1, false⟩).2 = ⟨[0,0,0,0] ++ d2Next, 2, false⟩ ∧
    (connDo (simpleOp "heartbeat" Gen.ConnLegacy.heartbeatResponseV0) 0 [116]
        (connDo produceUnfixed 2 [116] ⟨d2Frame 1 ++ d2Next, 1, false⟩).2).1 = .fail (.other "io.ErrNoProgress") := by
  decide

/-- the same frame through the current (regenerated) produce operation: aligned, next operation succeeds.
Non-vacuity of `aligned_or_closed` / `next_op_as_fresh` on a concrete error frame. -/
theorem d2_fixed_example :
    ((specOf "produce").map fun o => (connDo o 2 [116] ⟨d2Frame 1 ++ d2Next, 1, false⟩)) =
      some (.kafka 6, ⟨d2Next, 2, false⟩) ∧
    (connDo (simpleOp "heartbeat" Gen.ConnLegacy.heartbeatResponseV0) 0 [116] ⟨d2Next, 2, false⟩).1 = .ok := by
  decide

example : d2Body.length = 37 ∧ beInt ((d2Frame 1).take 4) = d2Body.length + 4 ∧ beInt (((d2Frame 1).take 8).drop 4) = 1 := by decide

/-! ### fetch -/

/-- C11 for fetch (ReadBatchWith, reading the batch to its end, Batch.Close), for EVERY message-set reader that
conserves bytes — no hypothesis on the frame (since the fix C11-D32 the message set of a response at the high watermark is
skipped as well). -/
theorem fetch_aligned_or_closed (v : Nat) (offset : Int) (b : Body) (c : Conn) (hdr body rest : Bytes)
    (hb : b.Conserves) (hopen : c.closed = false)
    (hstream : c.stream = hdr ++ body ++ rest) (hlen : hdr.length = 8)
    (hsize : beInt (hdr.take 4) = body.length + 4) (hid : beInt (hdr.drop 4) = c.nextId)
    :
    ((connFetch true v offset b c).1.isFail = false ∧
        (connFetch true v offset b c).2 = { stream := rest, nextId := c.nextId + 1, closed := false }) ∨
    ((connFetch true v offset b c).1.isFail = true ∧ (connFetch true v offset b c).2.closed = true) := by
  have hw := wait_ok c hdr body rest hstream hlen hsize hid
  unfold connFetch
  simp only [hopen, Bool.false_eq_true, ↓reduceIte, hw]
  cases hf : (fetchRead true v offset b ⟨body ++ rest, body.length⟩).1.isFail with
  | true => right; simp
  | false =>
    left
    have hz := fetchRead_full v offset b ⟨body ++ rest, body.length⟩ hb (by simp) hf
    have ha := (fetchRead_adv true v offset b ⟨body ++ rest, body.length⟩ hb).consumed_all hz
    simp only [List.drop_left] at ha
    simp [ha.2]

/-- C11-D32 (fixed): header ok, high watermark = fetch offset, but a non-empty set — the Go code takes the
`messageSetReader{empty: true}` path and reports RequestTimedOut; before the fix it left the set unread on a Conn it
keeps (first line, the unfixed shape), now it skips it (second line). -/
def atWatermarkBody : Bytes :=
  [0,0,0,0, 0,0,0,1, 0,1,116, 0,0,0,1, 0,0,0,0, 0,0, 0,0,0,0,0,0,0,5, 0,0,0,3, 1,2,3]
theorem fetch_at_watermark_counterexample :
    fetchRead false 2 5 idealBody ⟨atWatermarkBody, atWatermarkBody.length⟩ = (.kafka 7, ⟨[1,2,3], 3⟩) ∧
    fetchRead true 2 5 idealBody ⟨atWatermarkBody, atWatermarkBody.length⟩ = (.kafka 7, ⟨[], 0⟩) := by decide

/-- D2 for fetch v10 (top-level error) and v5 (partition error): unfixed shape leaves bytes, fixed shape does not -/
def fetchErrV10 : Bytes := [0,0,0,0, 0,6, 0,0,0,9, 0,0,0,0]
theorem d2_fetch_regression_counterexample :
    fetchRead false 10 0 idealBody ⟨fetchErrV10, fetchErrV10.length⟩ = (.kafka 6, ⟨[0,0,0,9, 0,0,0,0], 8⟩) ∧
    fetchRead true 10 0 idealBody ⟨fetchErrV10, fetchErrV10.length⟩ = (.kafka 6, ⟨[], 0⟩) := by decide

theorem idealBody_conserves : idealBody.Conserves := by
  constructor
  · intro s; unfold idealBody; simp only; split <;> exact Adv.refl s
  · intro s; unfold idealBody; simp only
    split
    · refine ⟨s.inp, by simp, ?_⟩; simp only; omega
    · refine ⟨s.inp.take s.sz, (List.take_append_drop _ _).symm, ?_⟩
      simp only [List.length_take]; omega

/-! ### message_reader.go: the reader stack keeps the frame accounting (the `Body` hypothesis, discharged)

`fetch_aligned_or_closed` assumes the message-set reader conserves bytes.  Model/ReaderStack.lean models what in
message_reader.go decides that: which reader of the stack a read touches, how a compressed batch / wrapper is charged
to the root's `remain`, and what `discard()` discards.  The three statements involved are regenerated facts. -/

section ReaderStackSec
open KV.ReaderStack

theorem rootTake_adv (r : RS) (k : Nat) (h1 : k ≤ r.sz) (h2 : k ≤ r.inp.length) : Adv r (rootTake r k k) :=
  ⟨r.inp.take k, (List.take_append_drop k r.inp).symm, by simp only [rootTake, List.length_take]; omega⟩

/-- with the three accounting facts, every operation of the reader stack keeps the root's `remain` in step with the bytes
taken from the Conn -/
theorem stack_step_adv (f : Facts) (hf : f.all = true) (m : MSR) (o : Op) : Adv m.root (ReaderStack.step f m o).root := by
  have h : f.discardRewinds = true ∧ f.v2AccountsConsumed = true ∧ f.v1AccountsConsumed = true := by
    simpa [Facts.all, and_assoc] using hf
  cases o with
  | read n =>
    simp only [ReaderStack.step]
    cases m.children with
    | nil => exact conserves_discardN n m.root
    | cons c cs => exact Adv.refl _
  | pushV2 b u d =>
    simp only [ReaderStack.step]
    cases m.children with
    | nil => simp only [h.2.1, ↓reduceIte]; exact rootTake_adv _ _ (by omega) (by omega)
    | cons c cs => exact Adv.refl _
  | pushV1 n u d =>
    simp only [ReaderStack.step]
    cases m.children with
    | nil => simp only [h.2.2, ↓reduceIte]; exact rootTake_adv _ _ (by omega) (by omega)
    | cons c cs => exact Adv.refl _
  | pop => exact Adv.refl _
  | discard =>
    simp only [ReaderStack.step, h.1, ↓reduceIte]
    exact conserves_discardN _ m.root

theorem stack_run_adv (f : Facts) (hf : f.all = true) : ∀ (os : List Op) (m : MSR), Adv m.root (ReaderStack.run f m os).root
  | [], m => Adv.refl _
  | o :: os, m => Adv.trans (stack_step_adv f hf m o) (stack_run_adv f hf os _)

/-- `discard()` (Batch.close, end of batch) leaves nothing of the fetch response unread, whatever is on the stack -/
theorem stack_discard_empties (f : Facts) (hf : f.all = true) (m : MSR) (he : m.root.sz ≤ m.root.inp.length) :
    (ReaderStack.step f m .discard).root = ⟨m.root.inp.drop m.root.sz, 0⟩ ∧ (ReaderStack.step f m .discard).children = [] := by
  have h : f.discardRewinds = true := by
    have : f.discardRewinds = true ∧ f.v2AccountsConsumed = true ∧ f.v1AccountsConsumed = true := by
      simpa [Facts.all, and_assoc] using hf
    exact this.1
  simp only [ReaderStack.step, h, ↓reduceIte, discardN_all_enough m.root he, and_self]

/-- the code as it is now has the three accounting statements (regenerated) -/
theorem reader_stack_facts_hold : Gen.ConnLegacy.readerStackFacts.all = true := by decide

/-- the modelled message-set reader is a `Body` that conserves bytes: the hypothesis of `fetch_aligned_or_closed` /
`fetch_cut_is_error` is discharged for it (any operation sequences, any error it ends with) -/
def stackBody (f : Facts) (ops1 ops2 : List Op) (e1 : Option Err) (e2 : Err) : Body where
  first := fun s => (match e1 with | some e => .error e | none => .ok (), (ReaderStack.run f ⟨s, []⟩ ops1).root)
  rest := fun s => (e2, (ReaderStack.run f ⟨s, []⟩ ops2).root)

theorem stackBody_conserves (f : Facts) (hf : f.all = true) (ops1 ops2 : List Op) (e1 : Option Err) (e2 : Err) :
    (stackBody f ops1 ops2 e1 e2).Conserves :=
  ⟨fun s => stack_run_adv f hf ops1 ⟨s, []⟩, fun s => stack_run_adv f hf ops2 ⟨s, []⟩⟩

/-- the two seeded shapes, as runs of the model: (1) `discard()` that only unwinds exhausted readers — closing part-way
through a compressed batch leaves the rest of the response on the Conn; (2) a compressed v2 batch always counted as
fully consumed — `remain` reaches 0 although the stream ended inside the payload. -/
theorem reader_stack_counterexamples :
    (let f : Facts := ⟨false, true, true⟩
     let m := ReaderStack.run f ⟨⟨List.replicate 100 0, 100⟩, []⟩ [.read 61, .pushV2 20 20 50, .read 10, .discard]
     m.root.sz = 19 ∧ m.root.inp.length = 19) ∧
    (let f : Facts := ⟨true, false, true⟩
     let m := ReaderStack.run f ⟨⟨List.replicate 70 0, 100⟩, []⟩ [.read 61, .pushV2 39 39 0, .pop, .discard]
     m.root.sz = 0 ∧ m.root.inp.length = 0) ∧
    (let f : Facts := ⟨true, true, true⟩
     let m := ReaderStack.run f ⟨⟨List.replicate 70 0, 100⟩, []⟩ [.read 61, .pushV2 39 39 0, .pop, .discard]
     m.root.sz = 30) := by decide

end ReaderStackSec

/-! ### listOffsets: inside the main theorems since it drains on kafka errors (fix C11-D34); the shape theorem stays -/

/-- list-offsets as it was before the fix C11-D34: the kafka error leaves the partition loop without a drain -/
def listOffsetsUnfixed : OpSpec :=
  { parse := fun _ => readOffsetClosure Gen.ConnLegacy.partitionOffsetV1, drain := false, expectZero := true, post := .none, closeOnErr := true }

/-- two partitions in one list-offsets response (never sent for a one-partition request), error in the first:
without the drain the second entry stayed unread on a Conn that is kept; the current (regenerated) operation skips it. -/
def listOffsets2 : Bytes :=
  [0,0,0,1, 0,1,116, 0,0,0,2, 0,0,0,0, 0,6, 0,0,0,0,0,0,0,0, 0,0,0,0,0,0,0,0,
                               0,0,0,1, 0,0, 0,0,0,0,0,0,0,0, 0,0,0,0,0,0,0,9]
theorem listOffsets_two_partitions_counterexample :
    (opRead listOffsetsUnfixed 1 [116] ⟨listOffsets2, listOffsets2.length⟩).1 = .kafka 6 ∧
    (opRead listOffsetsUnfixed 1 [116] ⟨listOffsets2, listOffsets2.length⟩).2.sz = 22 ∧
    ((specOf "listOffsets").map fun o => (opRead o 1 [116] ⟨listOffsets2 ++ [9], listOffsets2.length⟩)) =
      some (.kafka 6, ⟨[9], 0⟩) := by
  decide

theorem readInt_app (a r : Bytes) (n sz : Nat) (h : a.length = n) (hn : n ≤ sz) :
    readInt n ⟨a ++ r, sz⟩ = (.ok (beInt a), ⟨r, sz - n⟩) := by
  unfold readInt peekRead
  have h1 : ¬ n > sz := by omega
  have h2 : ¬ (a ++ r).length < n := by simp; omega
  simp only [h1, h2, ↓reduceIte]
  subst h
  simp

theorem discardN_app (a r : Bytes) (n : Int) (sz : Nat) (h : (a.length : Int) = n) (hn : a.length ≤ sz) :
    discardN n ⟨a ++ r, sz⟩ = (.ok (), ⟨r, sz - a.length⟩) := by
  unfold discardN
  subst h
  have h1 : ((a.length : Int) ≤ (sz : Int)) := by omega
  have h2 : ¬ ((a.length : Int) < 0) := by omega
  simp [h1, h2]

/-- list-offsets v1, the shape a broker answers a one-partition request with: any topic name, partition, error code,
timestamp, offset; any bytes after the frame.  Result: ok / that kafka error, frame exactly consumed. -/
theorem listOffsets_aligned_wf (o : OpSpec) (topic c1 lenb name c2 part err ts off rest : Bytes)
    (hparse : o.parse 1 = readOffsetClosure [.int 4, .err, .int 8, .int 8])
    (hzero : o.expectZero = true) (hpost : o.post.eval topic = fun _ => none)
    (h1 : c1.length = 4) (h1v : beInt c1 = 1) (hl : lenb.length = 2) (hn : beInt lenb = name.length)
    (h2 : c2.length = 4) (h2v : beInt c2 = 1)
    (hp : part.length = 4) (he : err.length = 2) (ht : ts.length = 8) (ho : off.length = 8) :
    opRead o 1 topic ⟨c1 ++ (lenb ++ (name ++ (c2 ++ (part ++ (err ++ (ts ++ (off ++ rest))))))),
                      4 + (2 + (name.length + (4 + (4 + (2 + (8 + 8))))))⟩ =
      (if beInt err = 0 then .ok else .kafka (beInt err), ⟨rest, 0⟩) := by
  unfold opRead
  rw [hparse]
  simp only [readOffsetClosure, runSteps, runStep, List.cons_append, List.nil_append]
  rw [readInt_app c1 _ 4 _ h1 (by omega)]
  simp only [h1v, Int.toNat_one, iter, lift, discardLen, readLenWith]
  rw [readInt_app lenb _ 2 _ hl (by omega)]
  simp only [hn]
  have hle : ¬ ((name.length : Int) > ((4 + (2 + (name.length + (4 + (4 + (2 + (8 + 8)))))) - 4 - 2 : Nat) : Int)) := by omega
  have hnn : ¬ ((name.length : Int) < 0) := by omega
  simp only [hle, hnn, ↓reduceIte]
  rw [discardN_app name _ _ _ rfl (by omega)]
  simp only []
  rw [readInt_app c2 _ 4 _ h2 (by omega)]
  simp only [h2v, Int.toNat_one, iter]
  rw [readInt_app part _ 4 _ hp (by omega)]
  simp only []
  rw [readInt_app err _ 2 _ he (by omega)]
  simp only []
  rw [readInt_app ts _ 8 _ ht (by omega)]
  simp only []
  rw [readInt_app off _ 8 _ ho (by omega)]
  simp only []
  by_cases hz : beInt err = 0
  · simp [hz, hzero, hpost]
  · simp [hz]

/-- the regenerated list-offsets operation has exactly the shape `listOffsets_aligned_wf` is about -/
theorem listOffsets_gen_shape : ∃ o, specOf "listOffsets" = some o ∧
    o.parse 1 = readOffsetClosure [.int 4, .err, .int 8, .int 8] ∧ o.expectZero = true ∧
    (∀ t, o.post.eval t = fun _ => none) :=
  ⟨_, rfl, rfl, by decide, fun _ => rfl⟩

/-! ### the read lock is released on every exit path (regenerated facts), a leaked lock blocks forever -/

theorem lock_facts_hold : Gen.ConnLegacy.lockFacts.all = true := by decide

/-- with the regenerated lock facts, whatever the exchange does (peek error, ErrNoProgress, body read with any result,
request not even sent), the read lock is free afterwards; and the exchange itself is `connDo` -/
theorem lock_released_on_every_path (lf : LockFacts) (h : lf.all = true) (inflight : Bool) (o : OpSpec) (v : Nat)
    (topic : Bytes) (c : Conn) :
    (connDoL lf inflight o v topic (c, false)).2.2 = false ∧
    (inflight = false → (connDoL lf inflight o v topic (c, false)).1 = (connDo o v topic c).1 ∧
                        (connDoL lf inflight o v topic (c, false)).2.1 = (connDo o v topic c).2) := by
  have hh : lf.peekErr = true ∧ lf.noProgress = true ∧ lf.desyncCloses = true ∧ lf.yield = true ∧ lf.take = true ∧ lf.leave = true ∧ lf.doBody = true ∧
      lf.apiVersions = true ∧ lf.batchHandover = true ∧ lf.batchClose = true := by
    simpa [LockFacts.all, and_assoc] using h
  obtain ⟨h1, h2, hd, _, h4, hl, h5, h6, _, _⟩ := hh
  have hrel : ∀ p, released lf o.closeOnErr p = true := by
    intro p; cases p <;> simp [released, h1, h2, h4, h5, h6, hl]
  refine ⟨by simp [connDoL, hrel], ?_⟩
  intro hi
  subst hi
  simp [connDoL, hd]

theorem lock_released_fetch (lf : LockFacts) (h : lf.all = true) (fixed : Bool) (v : Nat) (off : Int) (b : Body) (c : Conn) :
    (connFetchL lf fixed v off b (c, false)).2.2 = false := by
  have hh : lf.peekErr = true ∧ lf.noProgress = true ∧ lf.desyncCloses = true ∧ lf.yield = true ∧ lf.take = true ∧ lf.leave = true ∧ lf.doBody = true ∧
      lf.apiVersions = true ∧ lf.batchHandover = true ∧ lf.batchClose = true := by
    simpa [LockFacts.all, and_assoc] using h
  obtain ⟨h1, h2, _, _, h4, hl, h5, _, h7, h8⟩ := hh
  unfold connFetchL
  simp only [Bool.false_and, Bool.false_eq_true, ↓reduceIte, Bool.false_or, Bool.not_eq_eq_eq_not, Bool.not_false]
  cases exitPath false c <;> simp [released, h1, h2, h4, h5, h7, h8, hl]

/-- once the lock is leaked, every operation whose request goes out blocks — result and state never change again -/
theorem leaked_lock_blocks (lf : LockFacts) (inflight : Bool) (o : OpSpec) (v : Nat) (topic : Bytes) (c : Conn)
    (hsent : exitPath inflight c ≠ .notSent) :
    connDoL lf inflight o v topic (c, true) = (blocked, (c, true)) := by
  simp [connDoL, hsent]

/-- the two seeded shapes this guards against, as concrete runs of the model:
(1) waitResponse without the unlock on the peek-error exit: two requests in flight, the response stream ends after 3
bytes — the first caller fails and leaks the lock, the second blocks forever;
(2) Batch.close that does not unlock: fetch answered with an error code, Close, then any operation blocks. -/
theorem leaked_lock_counterexamples :
    (let lf := { Gen.ConnLegacy.lockFacts with peekErr := false }
     let hb := simpleOp "heartbeat" Gen.ConnLegacy.heartbeatResponseV0
     let r1 := connDoL lf true hb 0 [116] (⟨[0, 0, 0], 1, false⟩, false)
     let r2 := connDoL lf true hb 0 [116] r1.2
     r1.1.isFail = true ∧ r1.2.2 = true ∧ r2.1 = blocked) ∧
    (let lf := { Gen.ConnLegacy.lockFacts with batchClose := false }
     let hb := simpleOp "heartbeat" Gen.ConnLegacy.heartbeatResponseV0
     let r1 := connFetchL lf true 10 0 idealBody (⟨[0,0,0,18, 0,0,0,1] ++ fetchErrV10 ++ d2Next, 1, false⟩, false)
     let r2 := connDoL lf false hb 0 [116] r1.2
     r1.1 = .kafka 6 ∧ r1.2.2 = true ∧ r2.1 = blocked) := by decide

/-! ### ApiVersions -/

def encEntries : List (Bytes × Bytes × Bytes) → Bytes
  | [] => []
  | (a, b, c) :: r => a ++ (b ++ (c ++ encEntries r))

def EntriesWF (es : List (Bytes × Bytes × Bytes)) : Prop := ∀ e ∈ es, e.1.length = 2 ∧ e.2.1.length = 2 ∧ e.2.2.length = 2

theorem encEntries_length (es : List (Bytes × Bytes × Bytes)) (h : EntriesWF es) : (encEntries es).length = 6 * es.length := by
  induction es with
  | nil => rfl
  | cons e r ih =>
    obtain ⟨a, b, c⟩ := e
    have he := h (a, b, c) (by simp)
    have hr : EntriesWF r := fun x hx => h x (by simp [hx])
    simp only [encEntries, List.length_append, List.length_cons, ih hr]
    simp only at he
    omega

theorem errs_int (c : Ctx) (v : Int) : ({ c with evs := .int v :: c.evs } : Ctx).errs = c.errs := by
  simp [Ctx.errs]

/-- the entry loop of ApiVersions consumes exactly the entries and leaves the recorded error codes alone -/
theorem iter_entries (es : List (Bytes × Bytes × Bytes)) (h : EntriesWF es) (rest : Bytes) (m : Nat) (c : Ctx) :
    ∃ c', iter es.length (runSteps [.int 2, .int 2, .int 2]) c ⟨encEntries es ++ rest, 6 * es.length + m⟩ = (.ok c', ⟨rest, m⟩) ∧
      c'.errs = c.errs := by
  induction es generalizing c with
  | nil => exact ⟨c, by simp [iter, encEntries], rfl⟩
  | cons e r ih =>
    obtain ⟨a, b, d⟩ := e
    have he := h (a, b, d) (by simp)
    simp only at he
    have hr : EntriesWF r := fun x hx => h x (by simp [hx])
    simp only [List.length_cons, iter, runSteps, runStep, lift, encEntries, List.append_assoc]
    rw [readInt_app a _ 2 _ he.1 (by omega)]
    simp only []
    rw [readInt_app b _ 2 _ he.2.1 (by omega)]
    simp only []
    rw [readInt_app d _ 2 _ he.2.2 (by omega)]
    simp only []
    have hsz : 6 * (r.length + 1) + m - 2 - 2 - 2 = 6 * r.length + m := by omega
    rw [hsz]
    obtain ⟨c', h1, h2⟩ := ih hr { evs := .int (beInt d) :: .int (beInt b) :: .int (beInt a) :: c.evs, ver := c.ver, lastErr := c.lastErr, hwm := c.hwm, setSize := c.setSize }
    refine ⟨c', h1, ?_⟩
    rw [h2]
    simp [Ctx.errs]

/-- ApiVersions v0 (conn.go ApiVersions): on every well-formed frame — any error code, any number
of entries, anything after the frame — the result is ok / that kafka error and exactly the frame is consumed. -/
theorem apiVersions_aligned_wf (topic err cnt rest : Bytes) (es : List (Bytes × Bytes × Bytes))
    (he : err.length = 2) (hc : cnt.length = 4) (hcv : beInt cnt = es.length) (hes : EntriesWF es) :
    ((specOf "apiVersions").map fun o =>
      opRead o 0 topic ⟨err ++ (cnt ++ (encEntries es ++ rest)), 2 + (4 + 6 * es.length)⟩) =
      some (if beInt err = 0 then .ok else .kafka (beInt err), ⟨rest, 0⟩) := by
  obtain ⟨c', h1, h2⟩ := iter_entries es hes rest 0 { ver := 0, evs := [.err (beInt err)], lastErr := beInt err }
  simp only [specOf, Option.map_some, opRead, apiVersionsParse]
  generalize hB : [Step.int 2, Step.int 2, Step.int 2] = B at h1 ⊢
  simp only [runSteps, runStep, lift]
  rw [readInt_app err _ 2 _ he (by omega)]
  simp only []
  rw [readInt_app cnt _ 4 _ hc (by omega)]
  simp only [hcv, Int.toNat_natCast]
  have hsz : 2 + (4 + 6 * es.length) - 2 - 4 = 6 * es.length + 0 := by omega
  rw [hsz]
  rw [h1]
  have hb : ¬ ((es.length : Int) < 0 ∨ (es.length : Int) > ((6 * es.length + 0) / 6 : Nat)) := by omega
  rw [if_neg hb]
  simp only [Nat.add_zero, not_true_eq_false, and_false, ↓reduceIte, Post.eval, h2]
  by_cases hz : beInt err = 0
  · simp [hz, Ctx.errs]
  · simp [hz, Ctx.errs]

/-- ApiVersions as it was before the fix C11-D33: no `expectZeroSize`, Conn kept on every error -/
def apiVersionsUnfixed : OpSpec :=
  { parse := fun _ => Gen.ConnLegacy.apiVersionsParseGen, drain := false, expectZero := false, post := .firstErr [], closeOnErr := false }

/-- an ApiVersions v0 response (request 1) with one entry and 4 more bytes in the frame -/
def avFrame : Bytes := [0,0,0,20, 0,0,0,1] ++ [0,0, 0,0,0,1, 0,3, 0,0, 0,9] ++ [7,7,7,7]

/-- C11-D33, the unfixed shape: ok, Conn kept, 4 bytes of the frame left in the stream → the next operation reads
mid-frame (io.ErrNoProgress); and a cut entry list: error, Conn kept and misaligned all the same -/
theorem apiVersions_trailing_counterexample :
    (connDo apiVersionsUnfixed 0 [] ⟨avFrame ++ d2Next, 1, false⟩).1 = .ok ∧
    (connDo apiVersionsUnfixed 0 [] ⟨avFrame ++ d2Next, 1, false⟩).2 = ⟨[7,7,7,7] ++ d2Next, 2, false⟩ ∧
    (connDo (simpleOp "heartbeat" Gen.ConnLegacy.heartbeatResponseV0) 0 []
        (connDo apiVersionsUnfixed 0 [] ⟨avFrame ++ d2Next, 1, false⟩).2).1 = .fail (.other "io.ErrNoProgress") ∧
    (connDo apiVersionsUnfixed 0 [] ⟨[0,0,0,12, 0,0,0,1, 0,0, 0,0,0,1, 0,3] ++ d2Next, 1, false⟩).2.closed = false := by
  decide

/-- the same frames through the current (regenerated) operation: an error and the Conn is closed -/
theorem apiVersions_fixed_example :
    ((specOf "apiVersions").map fun o => ((connDo o 0 [] ⟨avFrame ++ d2Next, 1, false⟩).1 matches .fail _,
        (connDo o 0 [] ⟨avFrame ++ d2Next, 1, false⟩).2.closed,
        (connDo o 0 [] ⟨[0,0,0,12, 0,0,0,1, 0,0, 0,0,0,1, 0,3] ++ d2Next, 1, false⟩).2.closed)) = some (true, true, true) := by
  decide

/-- a well-formed one-partition list-offsets error frame (error 3 = UnknownTopicOrPartition): aligned -/
def listOffsets1 : Bytes :=
  [0,0,0,1, 0,1,116, 0,0,0,1, 0,0,0,0, 0,3, 255,255,255,255,255,255,255,255, 255,255,255,255,255,255,255,255]
theorem listOffsets_wf_example :
    ((specOf "listOffsets").map fun o => opRead o 1 [116] ⟨listOffsets1 ++ [9, 9], listOffsets1.length⟩) =
      some (.kafka 3, ⟨[9, 9], 0⟩) := by decide

end KV.C11
