/-
Props/C11.lean — "A Conn stays usable after broker-reported errors and is never reused misaligned".

Model: Base/Reader.lean (read.go/discard.go), Model/ConnOps.lean (parser programs, (*Conn).do, waitResponse,
ReadBatchWith/Batch), Model/ConnSpecs.lean (the table of operations over the REGENERATED `readFrom` programs, struct
layouts and call table of Gen/ConnLegacy.lean).

Statement proved (for every operation that goes through (*Conn).do, every negotiated version, every response frame
`hdr ++ body` that is fully delivered, *whatever bytes* `body` holds — in particular with any int16 in any error field —
and whatever follows on the stream):
  after the operation either the result is ok / a kafka error, exactly the frame was consumed, the Conn is open and its
  state is the state of a fresh Conn positioned at the next frame (`aligned_or_closed`, `next_op_as_fresh`); or the
  result is a non-kafka error and the Conn is closed, after which every operation fails (`closed_stays_failed`).
No well-formedness of `body` is needed for this: it follows from byte conservation of every parser program
(`parser_conserves`, proved once for ALL programs, so it also covers whatever the translator regenerates) plus
`expectZeroSize` and the drain on kafka errors (`discardOnKafkaError`, the D2 fix).

Operations that needed more than the table entry, and why:
  * listOffsets (`readOffset`): inside the main theorems since the fix C11-D34 (the kafka error left the partition
    loop without a drain: `listOffsets_two_partitions_counterexample` keeps that shape); `listOffsets_aligned_wf`
    adds that every frame of the shape a broker answers a one-partition request with (∀ topic name, partition, error
    code, timestamp, offset, trailing bytes) gives ok / that kafka error with exactly the frame consumed — for the
    regenerated operation by `listOffsets_gen_shape`; `listOffsets_wf_example` is a concrete instance.
  * fetch (`ReadBatchWith`/`Batch`): `fetch_aligned_or_closed`, for every message-set reader that conserves bytes (the
    hypothesis is discharged for the reader stack of message_reader.go: `stackBody_conserves`); unconditional since the
    fix C11-D32 (`fetch_at_watermark_counterexample` keeps the unfixed shape).
  * apiVersions: inside the main theorems since the fix C11-D33 (`expectZeroSize` and close on non-kafka errors, both
    regenerated; before it nothing could be said about arbitrary bytes: `apiVersions_trailing_counterexample`);
    `apiVersions_aligned_wf` adds that on every well-formed v0 frame (any error code, any number of entries, anything
    after the frame) the result is ok / that kafka error and exactly the frame is consumed — the count of entries is
    checked before the loop (`.arrB 6`, regenerated from `arrSize < 0 || int(arrSize) > size/6`).
The D2 shape (no drain) is kept as `d2_regression_counterexample`: the theorem is false for it.
-/
import KafkaVerif.Lemmas.ConnOps
import KafkaVerif.Lemmas.ConnLocal
import KafkaVerif.Model.ConnSpecs
import KafkaVerif.Spec.ConnFrames
import KafkaVerif.Model.ReaderStack
import KafkaVerif.Model.ConnVersions

namespace KV.C11
open KV KV.Reader KV.ConnOps

/-- every parser program conserves bytes: consumed bytes and the frame counter move together, on success and on error -/
theorem parser_conserves (ps : List Step) (c : Ctx) (s : RS) : Adv s (runSteps ps c s).2 :=
  runSteps_adv ps c s

/-- a broker error code can only surface from inside a parse through an explicit early exit -/
theorem kafka_error_needs_check (ps : List Step) (h : hasFailList ps = false) (c : Ctx) (s : RS) :
    isKafka (runSteps ps c s).1 = false :=
  runSteps_nok ps h c s

/-- one exchange: a good operation that does not fail consumed exactly the announced `sz` bytes -/
theorem exchange_aligned (o : OpSpec) (v : Nat) (topic : Bytes) (s : RS) (hgood : o.good v = true)
    (hnf : (opRead o v topic s).1.isFail = false) :
    s.sz ≤ s.inp.length ∧ (opRead o v topic s).2 = ⟨s.inp.drop s.sz, 0⟩ := by
  have hg : o.expectZero = true ∧ (o.drain = true ∨ hasFailList (o.parse v) = false) := by
    simpa [OpSpec.good] using hgood
  have hz := opRead_not_fail_zero o v topic s hg.1 hg.2 hnf
  have ha := (opRead_adv o v topic s).consumed_all hz
  refine ⟨ha.1, ?_⟩
  cases hr : (opRead o v topic s).2 with
  | mk i z => rw [hr] at hz ha; simp only at hz ha; rw [hz, ha.2]

/-! ### framing facts used by the Conn-level theorems -/

/-- waitResponse on a stream that starts with a response header for the expected correlation id -/
theorem wait_hdr (c : Conn) (hdr tail : Bytes) (n : Nat) (hstream : c.stream = hdr ++ tail) (hlen : hdr.length = 8)
    (hsize : beInt (hdr.take 4) = n + 4) (hid : beInt (hdr.drop 4) = c.nextId) :
    waitResponse c = .ok (n, tail) := by
  unfold waitResponse
  have h1 : ¬ c.stream.length < 8 := by rw [hstream]; simp only [List.length_append]; omega
  have h2 : c.stream.take 4 = hdr.take 4 := by
    rw [hstream, List.take_append_of_le_length (by omega)]
  have h3 : (c.stream.drop 4).take 4 = hdr.drop 4 := by
    rw [hstream, List.drop_append_of_le_length (by omega)]
    rw [List.take_append_of_le_length (by simp; omega)]
    exact List.take_of_length_le (by simp; omega)
  have h4 : c.stream.drop 8 = tail := by
    rw [hstream, ← hlen, List.drop_left]
  simp only [h1, ↓reduceIte, h2, h3, hsize, hid, h4, ne_eq, not_true_eq_false]
  congr 2
  omega

theorem wait_ok (c : Conn) (hdr body rest : Bytes) (hstream : c.stream = hdr ++ body ++ rest) (hlen : hdr.length = 8)
    (hsize : beInt (hdr.take 4) = body.length + 4) (hid : beInt (hdr.drop 4) = c.nextId) :
    waitResponse c = .ok (body.length, body ++ rest) :=
  wait_hdr c hdr (body ++ rest) body.length (by rw [hstream, List.append_assoc]) hlen hsize hid

/-- THE C11 THEOREM for the operations going through (*Conn).do. -/
theorem aligned_or_closed (o : OpSpec) (v : Nat) (topic : Bytes) (c : Conn) (hdr body rest : Bytes)
    (hgood : o.good v = true) (hclose : o.closeOnErr = true) (hopen : c.closed = false)
    (hstream : c.stream = hdr ++ body ++ rest) (hlen : hdr.length = 8)
    (hsize : beInt (hdr.take 4) = body.length + 4) (hid : beInt (hdr.drop 4) = c.nextId) :
    ((connDo o v topic c).1.isFail = false ∧
        (connDo o v topic c).2 = { stream := rest, nextId := c.nextId + 1, closed := false }) ∨
    ((connDo o v topic c).1.isFail = true ∧ (connDo o v topic c).2.closed = true) := by
  have hw := wait_ok c hdr body rest hstream hlen hsize hid
  unfold connDo
  simp only [hopen, Bool.false_eq_true, ↓reduceIte, hw]
  cases hf : (opRead o v topic ⟨body ++ rest, body.length⟩).1.isFail with
  | true => right; simp [hclose]
  | false =>
    left
    have ha := exchange_aligned o v topic ⟨body ++ rest, body.length⟩ hgood hf
    simp only [List.drop_left] at ha
    simp [ha.2]

/-- aligned ⇒ the next operation runs from exactly the state of a fresh connection positioned at the next frame:
its result is the fresh connection's result (both are the same function applied to the same state). -/
theorem next_op_as_fresh (o : OpSpec) (v : Nat) (topic : Bytes) (c : Conn) (hdr body rest : Bytes)
    (hgood : o.good v = true) (hclose : o.closeOnErr = true) (hopen : c.closed = false)
    (hstream : c.stream = hdr ++ body ++ rest) (hlen : hdr.length = 8)
    (hsize : beInt (hdr.take 4) = body.length + 4) (hid : beInt (hdr.drop 4) = c.nextId)
    (hnf : (connDo o v topic c).1.isFail = false) (o₂ : OpSpec) (v₂ : Nat) :
    connDo o₂ v₂ topic (connDo o v topic c).2 =
      connDo o₂ v₂ topic { stream := rest, nextId := c.nextId + 1, closed := false } := by
  rcases aligned_or_closed o v topic c hdr body rest hgood hclose hopen hstream hlen hsize hid with h | h
  · rw [h.2]
  · rw [h.1] at hnf; cases hnf

/-- **no byte of another response is ever looked at**: for EVERY operation (good or not), every version and every
body, the result of an exchange is a function of the bytes of its own frame alone, and whatever follows the frame on
the stream is still there, untouched, after whatever part of the frame was left unread.  (Locality of every parser
program: `runSteps_local`, by the same mutual induction as conservation.) -/
theorem result_depends_only_on_frame (o : OpSpec) (v : Nat) (topic : Bytes) (c : Conn) (hdr body rest : Bytes)
    (hopen : c.closed = false)
    (hstream : c.stream = hdr ++ body ++ rest) (hlen : hdr.length = 8)
    (hsize : beInt (hdr.take 4) = body.length + 4) (hid : beInt (hdr.drop 4) = c.nextId) :
    (connDo o v topic c).1 = (opRead o v topic ⟨body, body.length⟩).1 ∧
    (connDo o v topic c).2.stream = (opRead o v topic ⟨body, body.length⟩).2.inp ++ rest := by
  have hw := wait_ok c hdr body rest hstream hlen hsize hid
  have hl := opRead_local o v topic rest ⟨body, body.length⟩ (by simp [Enough])
  simp only [ext] at hl
  unfold connDo
  simp only [hopen, Bool.false_eq_true, ↓reduceIte, hw, hl]
  exact ⟨trivial, trivial⟩

/-- after a transport / framing error the Conn is closed and every later operation fails, forever -/
theorem closed_stays_failed (o : OpSpec) (v : Nat) (topic : Bytes) (c : Conn) (h : c.closed = true) :
    (connDo o v topic c).1.isFail = true ∧ (connDo o v topic c).2 = c := by
  unfold connDo; simp [h, Outcome.isFail]

/-- a response nobody asked for (foreign correlation id at the head of the stream, one waiter): io.ErrNoProgress AND the
Conn is closed (fix C11-D30) — so by `closed_stays_failed` every later operation fails, whatever ids it uses; before
the fix a later request whose id happened to equal the stale frame's took it for its own response. -/
theorem desync_closes (o : OpSpec) (v : Nat) (topic : Bytes) (c : Conn) (hopen : c.closed = false)
    (hlen : 8 ≤ c.stream.length) (hid : beInt ((c.stream.drop 4).take 4) ≠ c.nextId) :
    (connDo o v topic c).1.isFail = true ∧ (connDo o v topic c).2.closed = true ∧
    ∀ o₂ v₂, (connDo o₂ v₂ topic (connDo o v topic c).2).1.isFail = true := by
  have hw : waitResponse c = .error (.other "io.ErrNoProgress") := by
    unfold waitResponse
    have : ¬ c.stream.length < 8 := by omega
    simp [this, hid]
  have h1 : connDo o v topic c = (.fail (.other "io.ErrNoProgress"), { c with nextId := c.nextId + 1, closed := true }) := by
    unfold connDo
    simp [hopen, hw]
  rw [h1]
  refine ⟨rfl, rfl, fun o₂ v₂ => ?_⟩
  exact (closed_stays_failed o₂ v₂ topic _ rfl).1

theorem closed_stays_failed_fetch (fixed : Bool) (v : Nat) (off : Int) (b : Body) (c : Conn) (h : c.closed = true) :
    (connFetch fixed v off b c).1.isFail = true ∧ (connFetch fixed v off b c).2 = c := by
  unfold connFetch; simp [h, Outcome.isFail]

/-! ### the operation table satisfies the hypotheses (facts regenerated from /repo on every run) -/

/-- operations covered by `aligned_or_closed` -/
def coveredOps : List String := doOps      -- all of them since list-offsets drains on kafka errors (fix C11-D34)

def goodFor (name : String) (vs : List Nat) : Bool :=
  match specOf name with
  | some o => vs.all (fun v => o.good v) && o.closeOnErr
  | none => false

/-- versions each operation can negotiate (single-version operations: the version conn.go hard-codes) -/
def versionsFor (name : String) : List Nat :=
  match name with
  | "produce" => Gen.ConnLegacy.versionsOf "writeCompressedMessages"
  | "metadata" => Gen.ConnLegacy.versionsOf "ReadPartitions"
  | "joinGroup" => Gen.ConnLegacy.versionsOf "joinGroup"
  | "createTopics" => Gen.ConnLegacy.versionsOf "createTopics"
  | "deleteTopics" => Gen.ConnLegacy.versionsOf "deleteTopics"
  | "saslHandshake" => Gen.ConnLegacy.versionsOf "saslHandshake"
  | _ => [0, 1, 2]

theorem covered_ops_good : coveredOps.all (fun n => goodFor n (versionsFor n)) = true := by decide

/-- produce: all three negotiated versions drain on kafka errors (this is the D2 fix; false before it) -/
theorem produce_good : goodFor "produce" [2, 3, 7] = true := by decide

theorem fetch_fixed : fetchFixed = true := by decide

/-- `do` and `Batch.close` close the connection on exactly the non-kafka errors (regenerated; `connFetch` closes on every
failed outcome, and failed = non-kafka there) -/
theorem close_rules_hold : Gen.ConnLegacy.doClosesNonKafka = true ∧ Gen.ConnLegacy.batchClosesNonKafka = true := by decide

/-! ### any number of operations in a row

The one-step theorems compose: over a stream of honestly framed responses, a whole sequence of operations on one Conn
gives, operation by operation, exactly what each would give alone on a fresh connection holding only its own frame —
up to the first one that fails (a framing error or a transport error in its own frame); from there on every operation
fails with "use of closed connection".  This is the property as the title states it: usable after broker-reported
errors, never reused misaligned. -/

/-- one exchange of a sequence: the operation, its version, the 8-byte header and the body the broker sends for it -/
structure Exch where
  o : OpSpec
  v : Nat
  hdr : Bytes
  body : Bytes

/-- honest framing for correlation id `id`, operation inside the main theorems (all of the table: `covered_ops_good`) -/
def Exch.WF (e : Exch) (id : Int) : Prop :=
  e.hdr.length = 8 ∧ beInt (e.hdr.take 4) = e.body.length + 4 ∧ beInt (e.hdr.drop 4) = id ∧
  e.o.good e.v = true ∧ e.o.closeOnErr = true

def seqWF : List Exch → Int → Prop
  | [], _ => True
  | e :: r, id => e.WF id ∧ seqWF r (id + 1)

def streamOf : List Exch → Bytes
  | [] => []
  | e :: r => e.hdr ++ e.body ++ streamOf r

def runOps (topic : Bytes) : List Exch → Conn → List Outcome × Conn
  | [], c => ([], c)
  | e :: r, c => ((connDo e.o e.v topic c).1 :: (runOps topic r (connDo e.o e.v topic c).2).1,
                  (runOps topic r (connDo e.o e.v topic c).2).2)

def closedOutcome : Outcome := .fail (.other "use of closed connection")

/-- what each operation gives ALONE, on a fresh connection that holds its own frame and nothing else; after the first
failure: closed -/
def expectedOuts (topic : Bytes) : List Exch → List Outcome
  | [] => []
  | e :: r =>
    let out := (opRead e.o e.v topic ⟨e.body, e.body.length⟩).1
    if out.isFail then out :: r.map (fun _ => closedOutcome) else out :: expectedOuts topic r

theorem runOps_closed (topic : Bytes) (es : List Exch) (c : Conn) (h : c.closed = true) :
    runOps topic es c = (es.map (fun _ => closedOutcome), c) := by
  induction es with
  | nil => rfl
  | cons e r ih =>
    have h1 : connDo e.o e.v topic c = (closedOutcome, c) := by unfold connDo; simp [h, closedOutcome]
    simp only [runOps, h1, ih, List.map_cons]

theorem sequence_aligned (topic : Bytes) (es : List Exch) (c : Conn) (rest : Bytes)
    (hopen : c.closed = false) (hwf : seqWF es c.nextId) (hs : c.stream = streamOf es ++ rest) :
    (runOps topic es c).1 = expectedOuts topic es ∧
    ((expectedOuts topic es).all (fun o => !o.isFail) = true →
      (runOps topic es c).2 = { stream := rest, nextId := c.nextId + es.length, closed := false }) := by
  induction es generalizing c with
  | nil =>
    simp only [streamOf, List.nil_append] at hs
    refine ⟨rfl, fun _ => ?_⟩
    cases c; simp_all [runOps]
  | cons e r ih =>
    obtain ⟨⟨hlen, hsize, hid, hgood, hclose⟩, hr⟩ := hwf
    have hs' : c.stream = e.hdr ++ e.body ++ (streamOf r ++ rest) := by
      rw [hs]; simp [streamOf, List.append_assoc]
    have hloc := result_depends_only_on_frame e.o e.v topic c e.hdr e.body (streamOf r ++ rest) hopen hs' hlen hsize hid
    have hac := aligned_or_closed e.o e.v topic c e.hdr e.body (streamOf r ++ rest) hgood hclose hopen hs' hlen hsize hid
    simp only [runOps, expectedOuts]
    rw [← hloc.1]
    rcases hac with ⟨hnf, hc'⟩ | ⟨hf, hcl⟩
    · -- aligned: the rest of the sequence runs from a Conn positioned at the next frame
      have ih' := ih (connDo e.o e.v topic c).2 (by rw [hc']) (by rw [hc']; exact hr) (by rw [hc'])
      simp only [hnf, Bool.false_eq_true, ↓reduceIte]
      refine ⟨by rw [ih'.1], fun hall => ?_⟩
      simp only [List.all_cons, Bool.and_eq_true] at hall
      rw [ih'.2 hall.2, hc']
      simp only [List.length_cons, Conn.mk.injEq, true_and, and_true]
      omega
    · -- failed: closed, every later operation fails
      simp only [hf, ↓reduceIte]
      rw [runOps_closed topic r _ hcl]
      refine ⟨rfl, fun hall => ?_⟩
      simp [hf] at hall

/-! ### the version cache (conn.go loadVersions / negotiateVersion) — Conn state next to the stream

"After a broker-reported error the next operation behaves as on a fresh connection" also speaks about the versions a
Conn remembers: an ApiVersions answer that carries an error code must not become the Conn's version map.
`Model/ConnVersions.lean`; `strict` is the regenerated fact `Gen.ConnLegacy.loadVersionsStrict`. -/

section Versions
open KV.ConnVersions

theorem load_versions_strict_holds : Gen.ConnLegacy.loadVersionsStrict = true := by decide

/-- a Conn that has its versions never asks again and does not touch the stream for it -/
theorem cached_versions_are_final (strict : Bool) (av : OpSpec) (topic : Bytes) (vc : VConn) (m : List Entry)
    (h : vc.cache = some m) : loadVersions strict av topic vc = (some m, .ok, vc) := by
  unfold loadVersions; rw [h]

/-- the negotiation that meets a broker-reported error on its ApiVersions exchange (honest frame, any content): the
caller gets THAT error, nothing is cached, and the Conn is exactly a fresh one positioned at the next frame — so the
next operation, negotiating or not, behaves as on a fresh connection (it asks the broker again). -/
theorem negotiation_error_leaves_fresh_conn (av : OpSpec) (key : Int) (cands : List Nat) (run : Nat → Conn → Outcome × Conn)
    (topic : Bytes) (c : Conn) (hdr body rest : Bytes) (k : Int)
    (hgood : av.good 0 = true) (hclose : av.closeOnErr = true) (hopen : c.closed = false)
    (hstream : c.stream = hdr ++ body ++ rest) (hlen : hdr.length = 8)
    (hsize : beInt (hdr.take 4) = body.length + 4) (hid : beInt (hdr.drop 4) = c.nextId)
    (hk : (connDo av 0 topic c).1 = .kafka k) :
    vRun true av key cands run topic ⟨c, none⟩ = (.kafka k, VConn.fresh rest (c.nextId + 1)) := by
  have hac := aligned_or_closed av 0 topic c hdr body rest hgood hclose hopen hstream hlen hsize hid
  have hst : (connDo av 0 topic c).2 = { stream := rest, nextId := c.nextId + 1, closed := false } := by
    rcases hac with h | h
    · exact h.2
    · rw [hk] at h; simp [Outcome.isFail] at h
  simp only [vRun, loadVersions, hk, hst, VConn.fresh, Bool.not_true, Bool.false_and, Bool.false_eq_true, ↓reduceIte]

/-- … hence two negotiating operations in a row, the first meeting the error: the second runs exactly as the first
operation of a fresh connection on what follows -/
theorem next_negotiating_op_as_fresh (av : OpSpec) (key key₂ : Int) (cands cands₂ : List Nat)
    (run run₂ : Nat → Conn → Outcome × Conn) (topic : Bytes)
    (c : Conn) (hdr body rest : Bytes) (k : Int)
    (hgood : av.good 0 = true) (hclose : av.closeOnErr = true) (hopen : c.closed = false)
    (hstream : c.stream = hdr ++ body ++ rest) (hlen : hdr.length = 8)
    (hsize : beInt (hdr.take 4) = body.length + 4) (hid : beInt (hdr.drop 4) = c.nextId)
    (hk : (connDo av 0 topic c).1 = .kafka k) :
    vRun true av key₂ cands₂ run₂ topic (vRun true av key cands run topic ⟨c, none⟩).2 =
      vRun true av key₂ cands₂ run₂ topic (VConn.fresh rest (c.nextId + 1)) := by
  rw [negotiation_error_leaves_fresh_conn av key cands run topic c hdr body rest k hgood hclose hopen hstream hlen hsize hid hk]

/-- request 1: ApiVersions answered with UnsupportedVersion (35) and the one entry brokers send with it (ApiVersions
0..3); request 2: ApiVersions answered normally (Metadata 0..1); request 3: a Metadata v1 answer (no broker, no topic) -/
def versionsStream : Bytes :=
  [0,0,0,16, 0,0,0,1, 0,35, 0,0,0,1, 0,18, 0,0, 0,3] ++
  [0,0,0,16, 0,0,0,2, 0,0, 0,0,0,1, 0,3, 0,0, 0,1] ++
  [0,0,0,16, 0,0,0,3, 0,0,0,0, 0,0,0,1, 0,0,0,0]

/-- the seeded shape (C11-m8: the list that came with the error is cached): the caller does not see the broker's error
but "no matching versions", and the next call fails the same way without asking the broker again (the stream is not
touched); the code as it is: the broker's error, then a fresh negotiation and the answer. -/
theorem version_cache_counterexample :
    ((specOf "apiVersions").bind fun av => (specOf "metadata").map fun md =>
      let bad1 := vDo false av 3 [1, 6] md [116] (VConn.fresh versionsStream 1)
      let bad2 := vDo false av 3 [1, 6] md [116] bad1.2
      let ok1 := vDo true av 3 [1, 6] md [116] (VConn.fresh versionsStream 1)
      let ok2 := vDo true av 3 [1, 6] md [116] ok1.2
      (bad1.1 == noMatch && bad2.1 == noMatch && bad2.2.conn.stream == bad1.2.conn.stream &&
       ok1.1 == .kafka 35 && ok1.2.cache.isNone && ok2.1 == .ok && ok2.2.conn.stream == [] && ok2.2.cache == some [(3, 0, 1)])) = some true := by
  decide

/-- Everything a Conn carries from one operation to the next, and where each piece is accounted for — the fields of
`type Conn struct`, regenerated.  A new field breaks `conn_state_accounted` until somebody has decided whether
"the next operation behaves as on a fresh connection" speaks about it (the version cache was such a piece). -/
def accountedFields : List (String × String) :=
  [("conn", "the byte stream: Conn.stream / closed"), ("rbuf", "the byte stream (read buffer): Conn.stream; dropped on close: dropsBuffer"),
   ("inflight", "LockFacts.leave, exitPath"), ("rlock", "LockFacts / released"), ("correlationID", "Conn.nextId"),
   ("apiVersions", "VConn.cache (Model/ConnVersions.lean)"),
   ("mutex", "guards offset"), ("offset", "the fetch position: C02 (Reader delivery) and C19 (Seek); every fetch of the C11 driver seeks first"),
   ("wlock", "request side"), ("wbuf", "request side"), ("wb", "request side"),
   ("wdeadline", "deadlines: observed (c17s, c11w, c2x), C06 models attach/detach"), ("rdeadline", "deadlines: observed, C06"),
   ("clientID", "immutable"), ("topic", "immutable"), ("partition", "immutable"), ("fetchMaxBytes", "immutable"),
   ("fetchMinSize", "immutable"), ("broker", "immutable"), ("rack", "immutable"), ("requiredAcks", "set by the caller, request side"),
   ("transactionalID", "immutable")]

theorem conn_state_accounted :
    Gen.ConnLegacy.connFields.all (fun f => accountedFields.any (·.1 == f)) = true := by decide

end Versions

/-! ### nothing else reads the Conn's buffer

The theorems speak about the operations of the table, the framing code (`waitResponse`, `do`, `ApiVersions`) and the
batch path.  `Gen.ConnLegacy.rbufUsers` is regenerated: every function of package kafka that touches a Conn's read
buffer.  Each is one of the modelled sites, or a helper called only from modelled sites (an extracted helper does not
raise an alarm; a new method that reads responses on its own does). -/

/-- the modelled readers of the buffer: the read closures of the operation table, the framing functions, the batch path -/
def modelledReaders : List String :=
  ["Conn.findCoordinator", "Conn.heartbeat", "Conn.joinGroup", "Conn.leaveGroup", "Conn.listGroups", "Conn.offsetCommit",
   "Conn.offsetFetch", "Conn.syncGroup", "Conn.createTopics", "Conn.deleteTopics", "Conn.saslHandshake",
   "Conn.saslAuthenticate",                      -- framed (v1 handshake) and the raw token exchange (`rawToken`, C17)
   "Conn.readOffset", "Conn.readResponse", "Conn.writeCompressedMessages",
   "Conn.ApiVersions", "Conn.readApiVersions",
   "Conn.waitResponse", "Conn.peekResponseSizeAndID", "Conn.skipResponseSizeAndID", "Conn.do", "Conn.abortRead",
   "Conn.ReadBatchWith", "Batch.close",
   -- the exported entry points of those operations (a renamed unexported helper is accepted through its callers)
   "Conn.ReadOffset", "Conn.ReadFirstOffset", "Conn.ReadLastOffset", "Conn.ReadOffsets", "Conn.Brokers", "Conn.Controller",
   "Conn.ReadPartitions", "Conn.readPartitionsResponse", "Conn.CreateTopics", "Conn.DeleteTopics",
   "Conn.WriteCompressedMessages", "Conn.WriteCompressedMessagesAt", "Conn.ReadBatch"]

def readerAccepted (u : String × List String) : Bool :=
  modelledReaders.contains u.1 || (!u.2.isEmpty && u.2.all modelledReaders.contains)

theorem buffer_readers_are_modelled : Gen.ConnLegacy.rbufUsers.all readerAccepted = true := by decide

/-! ### a size prefix below 4 (negative ones included)

conn.go waitResponse hands `size − 4` to the read closure; with a prefix below 4 (the correlation id alone takes 4
bytes) that is ≤ 0 and every `readIntN` / `discardN` of read.go answers errShortRead without touching the stream: the
operation fails and `do` closes the Conn.  This removes the assumption "size prefix ≥ 4" from the main theorems: a
fully delivered frame either has an honest prefix (`aligned_or_closed`) or a prefix below 4 (`bad_size_closes`) — a
prefix that is ≥ 4 but wrong is some other frame's honest prefix as far as the client can tell. -/

/-- the program, run on a frame of announced size 0 (and nothing to read), stops with errShortRead having touched
nothing — a closed computation, decided per operation and version below -/
def shortAtZero (ps : List Step) (v : Nat) : Bool :=
  match runSteps ps { ver := v } ⟨[], 0⟩ with
  | (.error .shortRead, ⟨[], 0⟩) => true
  | _ => false

/-- … and then it does so whatever the stream holds (locality: the program cannot look beyond the announced size) -/
theorem opRead_zero (o : OpSpec) (v : Nat) (topic inp : Bytes) (h : shortAtZero (o.parse v) v = true) :
    opRead o v topic ⟨inp, 0⟩ = (.fail .shortRead, ⟨inp, 0⟩) := by
  have hl := runSteps_local (o.parse v) inp { ver := v } ⟨[], 0⟩ (by simp [Enough])
  simp only [ext, List.nil_append] at hl
  unfold shortAtZero at h
  unfold opRead
  rw [hl]
  cases hr : runSteps (o.parse v) { ver := v } ⟨[], 0⟩ with
  | mk r s' =>
    rw [hr] at h
    obtain ⟨i, z⟩ := s'
    cases r with
    | ok _ => simp at h
    | error e =>
      cases e <;> cases i <;> cases z <;> simp at h
      simp

def startsFor (name : String) (vs : List Nat) : Bool :=
  match specOf name with
  | some o => vs.all (fun v => shortAtZero (o.parse v) v)
  | none => false

/-- every operation of the table (list-offsets included), every negotiated version, on the regenerated programs -/
theorem ops_short_at_zero : doOps.all (fun n => startsFor n (versionsFor n)) = true := by decide

/-- waitResponse on a header for the expected id whose size prefix is below 4: the read closure gets size 0 -/
theorem wait_bad_size (c : Conn) (hdr rest : Bytes) (hstream : c.stream = hdr ++ rest) (hlen : hdr.length = 8)
    (hsize : beInt (hdr.take 4) < 4) (hid : beInt (hdr.drop 4) = c.nextId) :
    waitResponse c = .ok (0, rest) := by
  have h1 : ¬ c.stream.length < 8 := by rw [hstream]; simp only [List.length_append]; omega
  have h2 : c.stream.take 4 = hdr.take 4 := by
    rw [hstream, List.take_append_of_le_length (by omega)]
  have h3 : (c.stream.drop 4).take 4 = hdr.drop 4 := by
    rw [hstream, List.drop_append_of_le_length (by omega)]
    rw [List.take_append_of_le_length (by simp; omega)]
    exact List.take_of_length_le (by simp; omega)
  have h4 : c.stream.drop 8 = rest := by
    rw [hstream, ← hlen, List.drop_left]
  have hz : (beInt (hdr.take 4) - 4).toNat = 0 := by omega
  unfold waitResponse
  simp only [h1, ↓reduceIte, h2, h3, hid, h4, ne_eq, not_true_eq_false, hz]

/-- a response for the expected correlation id whose size prefix is below 4: the operation fails (errShortRead) and the
Conn is closed — for every such prefix, negative ones included, and whatever follows. -/
theorem bad_size_closes (o : OpSpec) (v : Nat) (topic : Bytes) (c : Conn) (hdr rest : Bytes)
    (hstart : shortAtZero (o.parse v) v = true) (hclose : o.closeOnErr = true) (hopen : c.closed = false)
    (hstream : c.stream = hdr ++ rest) (hlen : hdr.length = 8)
    (hsize : beInt (hdr.take 4) < 4) (hid : beInt (hdr.drop 4) = c.nextId) :
    (connDo o v topic c).1 = .fail .shortRead ∧ (connDo o v topic c).2.closed = true := by
  have hw := wait_bad_size c hdr rest hstream hlen hsize hid
  unfold connDo
  simp only [hopen, Bool.false_eq_true, ↓reduceIte, hw, opRead_zero o v topic rest hstart]
  simp [Outcome.isFail, hclose]

/-- fetch: the three header programs stop with errShortRead at size 0 (ReadBatchWith maps it to io.ErrUnexpectedEOF) -/
theorem fetch_headers_short_at_zero : [2, 5, 10].all (fun v => shortAtZero (fetchHeader v) v) = true := by decide

theorem bad_size_closes_fetch (fixed : Bool) (v : Nat) (off : Int) (b : Body) (c : Conn) (hdr rest : Bytes)
    (hstart : shortAtZero (fetchHeader v) v = true) (hopen : c.closed = false)
    (hstream : c.stream = hdr ++ rest) (hlen : hdr.length = 8)
    (hsize : beInt (hdr.take 4) < 4) (hid : beInt (hdr.drop 4) = c.nextId) :
    (connFetch fixed v off b c).1 = .fail .unexpectedEOF ∧ (connFetch fixed v off b c).2.closed = true := by
  have hw := wait_bad_size c hdr rest hstream hlen hsize hid
  have hl := runSteps_local (fetchHeader v) rest { ver := v } ⟨[], 0⟩ (by simp [Enough])
  simp only [ext, List.nil_append] at hl
  unfold shortAtZero at hstart
  have hr : fetchRead fixed v off b ⟨rest, 0⟩ = (.fail .unexpectedEOF, ⟨rest, 0⟩) := by
    unfold fetchRead
    rw [hl]
    cases hr : runSteps (fetchHeader v) { ver := v } ⟨[], 0⟩ with
    | mk r s' =>
      rw [hr] at hstart
      obtain ⟨i, z⟩ := s'
      cases r with
      | ok _ => simp at hstart
      | error e =>
        cases e <;> cases i <;> cases z <;> simp at hstart
        simp
  unfold connFetch
  simp only [hopen, Bool.false_eq_true, ↓reduceIte, hw, hr]
  simp [Outcome.isFail]

/-! ### the regenerated parser programs are the Kafka layouts (Spec/ConnFrames.lean, transcribed independently) -/

open KV.Gen.ConnLegacy KV.Spec.ConnFrames in
/-- (operation, versions, generated program): with the version conditionals resolved, the program read by the Go code
is token-for-token the layout of the protocol guide -/
def genSpecPairs : List (String × List Nat × List Step) :=
  [ ("findCoordinator", [0], findCoordinatorResponseV0), ("heartbeat", [0], heartbeatResponseV0),
    ("joinGroup", [1, 2], joinGroupResponse), ("leaveGroup", [0], leaveGroupResponseV0),
    ("listGroups", [1], listGroupsResponseV1), ("offsetCommit", [2], offsetCommitResponseV2),
    ("offsetFetch", [1], offsetFetchResponseV1), ("syncGroup", [0], syncGroupResponseV0),
    ("saslHandshake", [0, 1], saslHandshakeResponseV0), ("saslAuthenticate", [0], saslAuthenticateResponseV0),
    ("createTopics", [0, 1, 2], createTopicsResponse), ("deleteTopics", [0, 1], deleteTopicsResponse),
    ("metadata", [1], metadataResponseV1), ("metadata", [6], metadataResponseV6), ("brokers", [1], metadataResponseV1) ]

open KV.Spec.ConnFrames in
theorem gen_matches_spec :
    genSpecPairs.all (fun p => p.2.1.all fun v => (layout p.1 v).map (renderSteps v) == some (renderSteps v p.2.2)) = true := by
  decide

open KV.Gen.ConnLegacy KV.Spec.ConnFrames in
theorem gen_partitions_match_spec :
    renderSteps 1 partitionOffsetV1 = renderSteps 1 listOffsetsPartition ∧
    renderSteps 2 produceResponsePartitionV2 = renderSteps 2 (producePartition 2) ∧
    renderSteps 3 produceResponsePartitionV2 = renderSteps 3 (producePartition 3) ∧
    renderSteps 7 produceResponsePartitionV7 = renderSteps 7 (producePartition 7) := by decide

/-! ### the transcribed closures / fetch headers are what the translator regenerates from read.go and conn.go -/

open KV.Gen.ConnLegacy in
theorem closures_regenerated :
    stepsEq fetchHeaderV2Gen fetchHeaderV2 = true ∧ stepsEq fetchHeaderV5Gen fetchHeaderV5 = true ∧
    stepsEq fetchHeaderV10Gen fetchHeaderV10 = true ∧
    stepsEq readOffsetClosureGen (readOffsetClosure partitionOffsetV1) = true ∧
    produceClosureGen.all (fun vp => match specOf "produce" with
                                     | some o => stepsEq vp.2 (o.parse vp.1)
                                     | none => false) = true ∧
    produceClosureGen.map (·.1) = versionsOf "writeCompressedMessages" ∧
    stepsEq apiVersionsParseGen apiVersionsParse = true ∧ apiVersionsErrAfter = true := by decide

/-! `stepsEq` is sound: it only accepts equal programs, so the theorems about the transcriptions are theorems about
the regenerated programs -/
mutual
theorem eqv_sound : ∀ (a b : Step), a.eqv b = true → a = b := by
  intro a b h
  cases a <;> cases b <;> simp only [Step.eqv, Bool.and_eq_true, beq_iff_eq, Bool.false_eq_true] at h
  all_goals first
    | rfl
    | (subst h; rfl)
    | (rename_i x y; rw [stepsEq_sound x y h])
    | (rename_i v x w y; obtain ⟨h1, h2⟩ := h; subst h1; rw [stepsEq_sound x y h2])
theorem stepsEq_sound : ∀ (a b : List Step), stepsEq a b = true → a = b := by
  intro a b h
  cases a <;> cases b <;> simp only [stepsEq, Bool.and_eq_true, Bool.false_eq_true] at h
  · rfl
  · rename_i x xs y ys
    rw [eqv_sound x y h.1, stepsEq_sound xs ys h.2]
end

/-! ### D2: what the fix repairs (regression witness; the unfixed shape violates the theorem) -/

def produceUnfixed : OpSpec :=
  { parse := fun v => produceClosure (if v ≥ 7 then Gen.ConnLegacy.produceResponsePartitionV7 else Gen.ConnLegacy.produceResponsePartitionV2),
    drain := false, expectZero := true, post := .none, closeOnErr := true }

/-- produce v2 response: 1 topic "t", 1 partition 0, error 6 (NotLeaderForPartition), offset −1, timestamp −1, throttle 0 -/
def d2Body : Bytes :=
  [0,0,0,1, 0,1,116, 0,0,0,1, 0,0,0,0, 0,6, 255,255,255,255,255,255,255,255, 255,255,255,255,255,255,255,255, 0,0,0,0]
def d2Frame (id : UInt8) : Bytes := [0,0,0,41, 0,0,0,id] ++ d2Body
def d2Next : Bytes := [0,0,0,6, 0,0,0,2, 0,0]     -- a heartbeat response for request 2

/-- without the drain: kafka error 6, Conn kept, 4 bytes of the frame left → the next operation reads mid-frame and
reports io.ErrNoProgress -/
theorem d2_regression_counterexample :
    (connDo produceUnfixed 2 [116] ⟨d2Frame 1 ++ d2Next, 1, false⟩).1 = .kafka 6 ∧
    (connDo produceUnfixed 2 [116] ⟨d2Frame 1 ++ d2Next, 1, false⟩).2 = ⟨[0,0,0,0] ++ d2Next, 2, false⟩ ∧
    (connDo (simpleOp "heartbeat" Gen.ConnLegacy.heartbeatResponseV0) 0 [116]
        (connDo produceUnfixed 2 [116] ⟨d2Frame 1 ++ d2Next, 1, false⟩).2).1 = .fail (.other "io.ErrNoProgress") := by
  decide

/-- the same frame through the current (regenerated) produce operation: aligned, next operation succeeds.
Non-vacuity of `aligned_or_closed` / `next_op_as_fresh` on a concrete error frame. -/
theorem d2_fixed_example :
    ((specOf "produce").map fun o => (connDo o 2 [116] ⟨d2Frame 1 ++ d2Next, 1, false⟩)) =
      some (.kafka 6, ⟨d2Next, 2, false⟩) ∧
    (connDo (simpleOp "heartbeat" Gen.ConnLegacy.heartbeatResponseV0) 0 [116] ⟨d2Next, 2, false⟩).1 = .ok := by
  decide

/-- non-vacuity on the regenerated table: heartbeat (ok), produce v2 answered with NotLeaderForPartition (kafka 6, the
D2 frame), heartbeat again, then a heartbeat whose frame has a byte too many (fails, closes), then one more: the run
on one Conn is `[ok, kafka 6, ok, fail, closed]`, i.e. `expectedOuts`; the hypotheses of `sequence_aligned` hold for
the first three (honest frames, operations of the table). -/
def exampleSeq (hb pr : OpSpec) : List Exch :=
  [⟨hb, 0, [0,0,0,6, 0,0,0,1], [0,0]⟩, ⟨pr, 2, [0,0,0,41, 0,0,0,2], d2Body⟩, ⟨hb, 0, [0,0,0,6, 0,0,0,3], [0,0]⟩,
   ⟨hb, 0, [0,0,0,7, 0,0,0,4], [0,0,9]⟩, ⟨hb, 0, [0,0,0,6, 0,0,0,5], [0,0]⟩]

def exampleHolds (hb pr : OpSpec) : Bool :=
  let es := exampleSeq hb pr
  (runOps [116] es ⟨streamOf es, 1, false⟩).1 == expectedOuts [116] es &&
  (expectedOuts [116] es).map Outcome.isFail == [false, false, false, true, true] &&
  expectedOuts [116] (es.take 3) == [.ok, .kafka 6, .ok] &&
  (runOps [116] (es.take 3) ⟨streamOf es, 1, false⟩).2.nextId == 4

theorem sequence_example :
    ((specOf "heartbeat").bind fun hb => (specOf "produce").map fun pr => exampleHolds hb pr) = some true := by decide


example : d2Body.length = 37 ∧ beInt ((d2Frame 1).take 4) = d2Body.length + 4 ∧ beInt (((d2Frame 1).take 8).drop 4) = 1 := by decide

/-! ### fetch -/

/-- C11 for fetch (ReadBatchWith, reading the batch to its end, Batch.Close), for EVERY message-set reader that
conserves bytes — no hypothesis on the frame (since the fix C11-D32 the message set of a response at the high watermark is
skipped as well). -/
theorem fetch_aligned_or_closed (v : Nat) (offset : Int) (b : Body) (c : Conn) (hdr body rest : Bytes)
    (hb : b.Conserves) (hopen : c.closed = false)
    (hstream : c.stream = hdr ++ body ++ rest) (hlen : hdr.length = 8)
    (hsize : beInt (hdr.take 4) = body.length + 4) (hid : beInt (hdr.drop 4) = c.nextId)
    :
    ((connFetch true v offset b c).1.isFail = false ∧
        (connFetch true v offset b c).2 = { stream := rest, nextId := c.nextId + 1, closed := false }) ∨
    ((connFetch true v offset b c).1.isFail = true ∧ (connFetch true v offset b c).2.closed = true) := by
  have hw := wait_ok c hdr body rest hstream hlen hsize hid
  unfold connFetch
  simp only [hopen, Bool.false_eq_true, ↓reduceIte, hw]
  cases hf : (fetchRead true v offset b ⟨body ++ rest, body.length⟩).1.isFail with
  | true => right; simp
  | false =>
    left
    have hz := fetchRead_full v offset b ⟨body ++ rest, body.length⟩ hb (by simp) hf
    have ha := (fetchRead_adv true v offset b ⟨body ++ rest, body.length⟩ hb).consumed_all hz
    simp only [List.drop_left] at ha
    simp [ha.2]

/-- C11-D32 (fixed): header ok, high watermark = fetch offset, but a non-empty set — the Go code takes the
`messageSetReader{empty: true}` path and reports RequestTimedOut; before the fix it left the set unread on a Conn it
keeps (first line, the unfixed shape), now it skips it (second line). -/
def atWatermarkBody : Bytes :=
  [0,0,0,0, 0,0,0,1, 0,1,116, 0,0,0,1, 0,0,0,0, 0,0, 0,0,0,0,0,0,0,5, 0,0,0,3, 1,2,3]
theorem fetch_at_watermark_counterexample :
    fetchRead false 2 5 idealBody ⟨atWatermarkBody, atWatermarkBody.length⟩ = (.kafka 7, ⟨[1,2,3], 3⟩) ∧
    fetchRead true 2 5 idealBody ⟨atWatermarkBody, atWatermarkBody.length⟩ = (.kafka 7, ⟨[], 0⟩) := by decide

/-- D2 for fetch v10 (top-level error) and v5 (partition error): unfixed shape leaves bytes, fixed shape does not -/
def fetchErrV10 : Bytes := [0,0,0,0, 0,6, 0,0,0,9, 0,0,0,0]
theorem d2_fetch_regression_counterexample :
    fetchRead false 10 0 idealBody ⟨fetchErrV10, fetchErrV10.length⟩ = (.kafka 6, ⟨[0,0,0,9, 0,0,0,0], 8⟩) ∧
    fetchRead true 10 0 idealBody ⟨fetchErrV10, fetchErrV10.length⟩ = (.kafka 6, ⟨[], 0⟩) := by decide

/-- C02-D33: a reader that stops on a broker-reported error (or whose caller closes the batch early) leaves the rest of
the response to `Batch.close`; when that cannot be skipped — here the stream ends 3 bytes short — the code before the fix
dropped the error of `msgs.discard()`: kafka error 7, Conn KEPT in mid-response (first line); now: failed and closed. -/
def stopsEarly : Body := { first := fun s => (.ok (), s), rest := fun s => (.kafka 7, s) }
def shortOf3 : Bytes := [0,0,0,40, 0,0,0,1] ++ (atWatermarkBody.take 33)   -- announces 36 bytes, 33 arrive
theorem batch_close_discard_counterexample :
    ((connFetch false 2 4 stopsEarly ⟨shortOf3, 1, false⟩).1 = .kafka 7 ∧
     (connFetch false 2 4 stopsEarly ⟨shortOf3, 1, false⟩).2.closed = false) ∧
    ((connFetch true 2 4 stopsEarly ⟨shortOf3, 1, false⟩).1.isFail = true ∧
     (connFetch true 2 4 stopsEarly ⟨shortOf3, 1, false⟩).2.closed = true) := by decide

theorem idealBody_conserves : idealBody.Conserves := by
  constructor
  · intro s; unfold idealBody; simp only; split <;> exact Adv.refl s
  · intro s; unfold idealBody; simp only
    split
    · refine ⟨s.inp, by simp, ?_⟩; simp only; omega
    · refine ⟨s.inp.take s.sz, (List.take_append_drop _ _).symm, ?_⟩
      simp only [List.length_take]; omega

/-! ### message_reader.go: the reader stack keeps the frame accounting (the `Body` hypothesis, discharged)

`fetch_aligned_or_closed` assumes the message-set reader conserves bytes.  Model/ReaderStack.lean models what in
message_reader.go decides that: which reader of the stack a read touches, how a compressed batch / wrapper is charged
to the root's `remain`, and what `discard()` discards.  The three statements involved are regenerated facts. -/

section ReaderStackSec
open KV.ReaderStack

theorem rootTake_adv (r : RS) (k : Nat) (h1 : k ≤ r.sz) (h2 : k ≤ r.inp.length) : Adv r (rootTake r k k) :=
  ⟨r.inp.take k, (List.take_append_drop k r.inp).symm, by simp only [rootTake, List.length_take]; omega⟩

/-- with the three accounting facts, every operation of the reader stack keeps the root's `remain` in step with the bytes
taken from the Conn -/
theorem stack_step_adv (f : Facts) (hf : f.all = true) (m : MSR) (o : Op) : Adv m.root (ReaderStack.step f m o).root := by
  have h : f.discardRewinds = true ∧ f.v2AccountsConsumed = true ∧ f.v1AccountsConsumed = true := by
    simpa [Facts.all, and_assoc] using hf
  cases o with
  | read n =>
    simp only [ReaderStack.step]
    cases m.children with
    | nil => exact conserves_discardN n m.root
    | cons c cs => exact Adv.refl _
  | pushV2 b u d =>
    simp only [ReaderStack.step]
    cases m.children with
    | nil => simp only [h.2.1, ↓reduceIte]; exact rootTake_adv _ _ (by omega) (by omega)
    | cons c cs => exact Adv.refl _
  | pushV1 n u d =>
    simp only [ReaderStack.step]
    cases m.children with
    | nil => simp only [h.2.2, ↓reduceIte]; exact rootTake_adv _ _ (by omega) (by omega)
    | cons c cs => exact Adv.refl _
  | pop => exact Adv.refl _
  | discard =>
    simp only [ReaderStack.step, h.1, ↓reduceIte]
    exact conserves_discardN _ m.root

theorem stack_run_adv (f : Facts) (hf : f.all = true) : ∀ (os : List Op) (m : MSR), Adv m.root (ReaderStack.run f m os).root
  | [], m => Adv.refl _
  | o :: os, m => Adv.trans (stack_step_adv f hf m o) (stack_run_adv f hf os _)

/-- `discard()` (Batch.close, end of batch) leaves nothing of the fetch response unread, whatever is on the stack -/
theorem stack_discard_empties (f : Facts) (hf : f.all = true) (m : MSR) (he : m.root.sz ≤ m.root.inp.length) :
    (ReaderStack.step f m .discard).root = ⟨m.root.inp.drop m.root.sz, 0⟩ ∧ (ReaderStack.step f m .discard).children = [] := by
  have h : f.discardRewinds = true := by
    have : f.discardRewinds = true ∧ f.v2AccountsConsumed = true ∧ f.v1AccountsConsumed = true := by
      simpa [Facts.all, and_assoc] using hf
    exact this.1
  simp only [ReaderStack.step, h, ↓reduceIte, discardN_all_enough m.root he, and_self]

/-- the code as it is now has the three accounting statements (regenerated) -/
theorem reader_stack_facts_hold : Gen.ConnLegacy.readerStackFacts.all = true := by decide

/-- the modelled message-set reader is a `Body` that conserves bytes: the hypothesis of `fetch_aligned_or_closed` /
`fetch_cut_is_error` is discharged for it (any operation sequences, any error it ends with) -/
def stackBody (f : Facts) (ops1 ops2 : List Op) (e1 : Option Err) (e2 : Err) : Body where
  first := fun s => (match e1 with | some e => .error e | none => .ok (), (ReaderStack.run f ⟨s, []⟩ ops1).root)
  rest := fun s => (e2, (ReaderStack.run f ⟨s, []⟩ ops2).root)

theorem stackBody_conserves (f : Facts) (hf : f.all = true) (ops1 ops2 : List Op) (e1 : Option Err) (e2 : Err) :
    (stackBody f ops1 ops2 e1 e2).Conserves :=
  ⟨fun s => stack_run_adv f hf ops1 ⟨s, []⟩, fun s => stack_run_adv f hf ops2 ⟨s, []⟩⟩

/-- the reader stack looks at the bytes of its own fetch response only: with what follows the frame appended to the
stream, every operation does the same and leaves the appended bytes where they were -/
theorem stack_step_local (f : Facts) (hf : f.all = true) (m : MSR) (o : Op) (rest : Bytes) (he : Enough m.root) :
    ReaderStack.step f ⟨ext rest m.root, m.children⟩ o =
      ⟨ext rest (ReaderStack.step f m o).root, (ReaderStack.step f m o).children⟩ := by
  have h : f.discardRewinds = true ∧ f.v2AccountsConsumed = true ∧ f.v1AccountsConsumed = true := by
    simpa [Facts.all, and_assoc] using hf
  obtain ⟨root, ch⟩ := m
  simp only at he ⊢
  have hlen : root.sz ≤ root.inp.length := he
  cases o with
  | read n =>
    cases ch with
    | nil => simp only [ReaderStack.step]; rw [rlocal_discardN n rest root he]
    | cons c cs => rfl
  | pushV2 b u d =>
    cases ch with
    | nil =>
      simp only [ReaderStack.step, h.2.1, ↓reduceIte, ext, List.length_append, rootTake]
      have e1 : min root.sz (root.inp.length + rest.length) = root.sz := by omega
      have e2 : min root.sz root.inp.length = root.sz := by omega
      rw [e1, e2, drop_app_le _ _ _ (by omega)]
    | cons c cs => rfl
  | pushV1 n u d =>
    cases ch with
    | nil =>
      simp only [ReaderStack.step, h.2.2, ↓reduceIte, ext, List.length_append, rootTake]
      have e1 : min root.sz (root.inp.length + rest.length) = root.sz := by omega
      have e2 : min root.sz root.inp.length = root.sz := by omega
      rw [e1, e2, drop_app_le _ _ _ (by omega)]
    | cons c cs => rfl
  | pop => rfl
  | discard =>
    simp only [ReaderStack.step, h.1, ↓reduceIte]
    have := rlocal_discardN (↑root.sz) rest root he
    have e : ((ext rest root).sz : Int) = (root.sz : Int) := rfl
    rw [e, this]

theorem stack_run_local (f : Facts) (hf : f.all = true) (rest : Bytes) :
    ∀ (os : List Op) (m : MSR), Enough m.root →
      ReaderStack.run f ⟨ext rest m.root, m.children⟩ os =
        ⟨ext rest (ReaderStack.run f m os).root, (ReaderStack.run f m os).children⟩
  | [], m, _ => rfl
  | o :: os, m, he => by
    simp only [ReaderStack.run]
    rw [stack_step_local f hf m o rest he]
    exact stack_run_local f hf rest os (ReaderStack.step f m o) (Adv_enough (stack_step_adv f hf m o) he)

/-- … so the modelled message-set reader also meets the locality hypothesis of `fetch_depends_only_on_frame` /
`fetch_exchange_ok` -/
theorem stackBody_local (f : Facts) (hf : f.all = true) (ops1 ops2 : List Op) (e1 : Option Err) (e2 : Err) :
    (stackBody f ops1 ops2 e1 e2).Local := by
  refine ⟨fun rest s he => ?_, fun rest s he => ?_⟩
  · simp only [stackBody]
    have := stack_run_local f hf rest ops1 ⟨s, []⟩ he
    simp only at this
    rw [this]
  · simp only [stackBody]
    have := stack_run_local f hf rest ops2 ⟨s, []⟩ he
    simp only at this
    rw [this]

/-- the two seeded shapes, as runs of the model: (1) `discard()` that only unwinds exhausted readers — closing part-way
through a compressed batch leaves the rest of the response on the Conn; (2) a compressed v2 batch always counted as
fully consumed — `remain` reaches 0 although the stream ended inside the payload. -/
theorem reader_stack_counterexamples :
    (let f : Facts := ⟨false, true, true⟩
     let m := ReaderStack.run f ⟨⟨List.replicate 100 0, 100⟩, []⟩ [.read 61, .pushV2 20 20 50, .read 10, .discard]
     m.root.sz = 19 ∧ m.root.inp.length = 19) ∧
    (let f : Facts := ⟨true, false, true⟩
     let m := ReaderStack.run f ⟨⟨List.replicate 70 0, 100⟩, []⟩ [.read 61, .pushV2 39 39 0, .pop, .discard]
     m.root.sz = 0 ∧ m.root.inp.length = 0) ∧
    (let f : Facts := ⟨true, true, true⟩
     let m := ReaderStack.run f ⟨⟨List.replicate 70 0, 100⟩, []⟩ [.read 61, .pushV2 39 39 0, .pop, .discard]
     m.root.sz = 30) := by decide

end ReaderStackSec

/-! ### fetch in the sequences: locality of ReadBatchWith + Batch, mixed runs of operations and fetches -/

/-- the fetch analogue of `result_depends_only_on_frame`: for every message-set reader that conserves bytes and looks at
its own frame only, what ReadBatchWith + reading the batch + Close return is a function of the frame's bytes, and what
follows the frame is still there, untouched -/
theorem fetch_depends_only_on_frame (fixed : Bool) (v : Nat) (offset : Int) (b : Body) (hb : b.Conserves) (hl : b.Local)
    (c : Conn) (hdr body rest : Bytes) (hopen : c.closed = false)
    (hstream : c.stream = hdr ++ body ++ rest) (hlen : hdr.length = 8)
    (hsize : beInt (hdr.take 4) = body.length + 4) (hid : beInt (hdr.drop 4) = c.nextId) :
    (connFetch fixed v offset b c).1 = (fetchRead fixed v offset b ⟨body, body.length⟩).1 ∧
    (connFetch fixed v offset b c).2.stream = (fetchRead fixed v offset b ⟨body, body.length⟩).2.inp ++ rest := by
  have hw := wait_ok c hdr body rest hstream hlen hsize hid
  have hloc := fetchRead_local fixed v offset b hb hl rest ⟨body, body.length⟩ (by simp [Enough])
  simp only [ext] at hloc
  unfold connFetch
  simp only [hopen, Bool.false_eq_true, ↓reduceIte, hw, hloc]
  exact ⟨trivial, trivial⟩

/-- the ideal reader (reads the set to its end) is local -/
theorem idealBody_local : idealBody.Local := by
  refine ⟨fun rest s _ => ?_, fun rest s he => ?_⟩
  · simp only [idealBody, ext]
    by_cases hz : s.sz = 0 <;> simp [hz]
  · simp only [idealBody, ext, Enough] at he ⊢
    have h1 : ¬ s.inp.length < s.sz := by omega
    have h2 : ¬ (s.inp ++ rest).length < s.sz := by simp only [List.length_append]; omega
    simp only [h1, h2, ↓reduceIte]
    rw [List.drop_append_of_le_length he]

/-- the oracle's reader (`headerBody`: to the end of the set, refusing a set too short for one header) conserves and is
local: the fetch theorems apply to it -/
theorem headerBody_conserves : headerBody.Conserves := by
  refine ⟨fun s => ?_, idealBody_conserves.2⟩
  simp only [headerBody]
  split
  · exact Adv.refl s
  · split
    · exact Adv.refl s
    · split <;> exact Adv.refl s

/-- the header sizes are those of message_reader.go readHeader (regenerated: the readIntN calls before the switch on the
magic byte plus those of each case) -/
theorem header_sizes_regenerated :
    Gen.ConnLegacy.headerSizes = [(0, headerNeed 0), (1, headerNeed 1), (2, headerNeed 2)] := by decide

theorem headerBody_local : headerBody.Local := by
  refine ⟨fun rest s he => ?_, idealBody_local.2⟩
  simp only [headerBody, ext]
  by_cases h17 : s.sz < 17
  · simp [h17]
  · have hlen : 16 < s.inp.length := by simp only [Enough] at he; omega
    have hget : (s.inp ++ rest).getD 16 0 = s.inp.getD 16 0 := by
      simp [List.getD_eq_getElem?_getD, List.getElem?_append_left hlen]
    simp only [h17, ↓reduceIte, hget]
    split
    · rfl
    · split <;> rfl

/-- one exchange of a mixed run, abstractly: how it acts on a Conn, what it gives alone, the frame the broker sends -/
structure Xch where
  run : Conn → Outcome × Conn
  alone : Outcome
  frame : Bytes

/-- the two one-step facts a run needs: on a closed Conn nothing happens; on an open Conn positioned at this frame the
result is the `alone` one and the Conn ends either exactly after the frame or closed -/
def Xch.OK (x : Xch) (id : Int) : Prop :=
  (∀ c, c.closed = true → x.run c = (closedOutcome, c)) ∧
  (∀ c rest, c.closed = false → c.nextId = id → c.stream = x.frame ++ rest →
     (x.run c).1 = x.alone ∧
     ((x.alone.isFail = false ∧ (x.run c).2 = { stream := rest, nextId := id + 1, closed := false }) ∨
      (x.alone.isFail = true ∧ (x.run c).2.closed = true)))

def xseqOK : List Xch → Int → Prop
  | [], _ => True
  | x :: r, id => x.OK id ∧ xseqOK r (id + 1)

def xstream : List Xch → Bytes
  | [] => []
  | x :: r => x.frame ++ xstream r

def xrun : List Xch → Conn → List Outcome × Conn
  | [], c => ([], c)
  | x :: r, c => ((x.run c).1 :: (xrun r (x.run c).2).1, (xrun r (x.run c).2).2)

def xexpected : List Xch → List Outcome
  | [] => []
  | x :: r => if x.alone.isFail then x.alone :: r.map (fun _ => closedOutcome) else x.alone :: xexpected r

theorem xrun_closed (xs : List Xch) (id : Int) (h : xseqOK xs id) (c : Conn) (hc : c.closed = true) :
    xrun xs c = (xs.map (fun _ => closedOutcome), c) := by
  induction xs generalizing id with
  | nil => rfl
  | cons x r ih =>
    have h1 := h.1.1 c hc
    simp only [xrun, h1, ih (id + 1) h.2, List.map_cons]

/-- **mixed runs**: operations of the table and fetches in any order on one Conn — each gives what it gives alone on a
fresh connection holding only its own frame, up to the first failure; then all fail -/
theorem mixed_sequence_aligned (xs : List Xch) (c : Conn) (rest : Bytes)
    (hopen : c.closed = false) (hok : xseqOK xs c.nextId) (hs : c.stream = xstream xs ++ rest) :
    (xrun xs c).1 = xexpected xs ∧
    ((xexpected xs).all (fun o => !o.isFail) = true →
      (xrun xs c).2 = { stream := rest, nextId := c.nextId + xs.length, closed := false }) := by
  induction xs generalizing c with
  | nil =>
    simp only [xstream, List.nil_append] at hs
    refine ⟨rfl, fun _ => ?_⟩
    cases c; simp_all [xrun]
  | cons x r ih =>
    obtain ⟨hx, hr⟩ := hok
    have hs' : c.stream = x.frame ++ (xstream r ++ rest) := by rw [hs]; simp [xstream, List.append_assoc]
    obtain ⟨hres, hac⟩ := hx.2 c (xstream r ++ rest) hopen rfl hs'
    simp only [xrun, xexpected]
    rw [hres]
    rcases hac with ⟨hnf, hc'⟩ | ⟨hf, hcl⟩
    · have ih' := ih (x.run c).2 (by rw [hc']) (by rw [hc']; exact hr) (by rw [hc'])
      simp only [hnf, Bool.false_eq_true, ↓reduceIte]
      refine ⟨by rw [ih'.1], fun hall => ?_⟩
      simp only [List.all_cons, Bool.and_eq_true] at hall
      rw [ih'.2 hall.2, hc']
      simp only [List.length_cons, Conn.mk.injEq, true_and, and_true]
      omega
    · simp only [hf, ↓reduceIte]
      rw [xrun_closed r (c.nextId + 1) hr _ hcl]
      refine ⟨rfl, fun hall => ?_⟩
      simp [hf] at hall

/-- an operation of the table is such an exchange -/
def Xch.ofOp (topic : Bytes) (e : Exch) : Xch :=
  { run := connDo e.o e.v topic, alone := (opRead e.o e.v topic ⟨e.body, e.body.length⟩).1, frame := e.hdr ++ e.body }

theorem op_exchange_ok (topic : Bytes) (e : Exch) (id : Int) (h : e.WF id) : (Xch.ofOp topic e).OK id := by
  obtain ⟨hlen, hsize, hid, hgood, hclose⟩ := h
  refine ⟨fun c hc => ?_, fun c rest hopen hn hs => ?_⟩
  · simp only [Xch.ofOp]; unfold connDo; simp [hc, closedOutcome]
  · simp only [Xch.ofOp] at hs ⊢
    have hid' : beInt (e.hdr.drop 4) = c.nextId := by rw [hn]; exact hid
    have hloc := result_depends_only_on_frame e.o e.v topic c e.hdr e.body rest hopen hs hlen hsize hid'
    have hac := aligned_or_closed e.o e.v topic c e.hdr e.body rest hgood hclose hopen hs hlen hsize hid'
    refine ⟨hloc.1, ?_⟩
    rw [← hloc.1, ← hn]
    exact hac

/-- a fetch (ReadBatchWith, the batch read to its end or abandoned, Close) with a conserving, local message-set reader
is such an exchange -/
def Xch.ofFetch (v : Nat) (offset : Int) (b : Body) (hdr body : Bytes) : Xch :=
  { run := connFetch true v offset b, alone := (fetchRead true v offset b ⟨body, body.length⟩).1, frame := hdr ++ body }

theorem fetch_exchange_ok (v : Nat) (offset : Int) (b : Body) (hb : b.Conserves) (hl : b.Local) (hdr body : Bytes) (id : Int)
    (hlen : hdr.length = 8) (hsize : beInt (hdr.take 4) = body.length + 4) (hid : beInt (hdr.drop 4) = id) :
    (Xch.ofFetch v offset b hdr body).OK id := by
  refine ⟨fun c hc => ?_, fun c rest hopen hn hs => ?_⟩
  · simp only [Xch.ofFetch]; unfold connFetch; simp [hc, closedOutcome]
  · simp only [Xch.ofFetch] at hs ⊢
    have hid' : beInt (hdr.drop 4) = c.nextId := by rw [hn]; exact hid
    have hloc := fetch_depends_only_on_frame true v offset b hb hl c hdr body rest hopen hs hlen hsize hid'
    have hac := fetch_aligned_or_closed v offset b c hdr body rest hb hopen hs hlen hsize hid'
    refine ⟨hloc.1, ?_⟩
    rw [← hloc.1, ← hn]
    exact hac

/-- non-vacuity: heartbeat, a fetch v10 answered with NotLeaderForPartition (`fetchErrV10`), heartbeat — one Conn -/
def mixedExample : List Xch :=
  let hb := simpleOp "heartbeat" Gen.ConnLegacy.heartbeatResponseV0
  [Xch.ofOp [116] ⟨hb, 0, [0,0,0,6, 0,0,0,1], [0,0]⟩,
   Xch.ofFetch 10 0 idealBody [0,0,0,(4 + fetchErrV10.length).toUInt8, 0,0,0,2] fetchErrV10,
   Xch.ofOp [116] ⟨hb, 0, [0,0,0,6, 0,0,0,3], [0,0]⟩]

theorem mixed_example :
    ((xrun mixedExample ⟨xstream mixedExample ++ [7], 1, false⟩).1 == [.ok, .kafka 6, .ok] &&
     xexpected mixedExample == [.ok, .kafka 6, .ok] &&
     (xrun mixedExample ⟨xstream mixedExample ++ [7], 1, false⟩).2 == ⟨[7], 4, false⟩) = true := by decide

/-! ### listOffsets: inside the main theorems since it drains on kafka errors (fix C11-D34); the shape theorem stays -/

/-- list-offsets as it was before the fix C11-D34: the kafka error leaves the partition loop without a drain -/
def listOffsetsUnfixed : OpSpec :=
  { parse := fun _ => readOffsetClosure Gen.ConnLegacy.partitionOffsetV1, drain := false, expectZero := true, post := .none, closeOnErr := true }

/-- two partitions in one list-offsets response (never sent for a one-partition request), error in the first:
without the drain the second entry stayed unread on a Conn that is kept; the current (regenerated) operation skips it. -/
def listOffsets2 : Bytes :=
  [0,0,0,1, 0,1,116, 0,0,0,2, 0,0,0,0, 0,6, 0,0,0,0,0,0,0,0, 0,0,0,0,0,0,0,0,
                               0,0,0,1, 0,0, 0,0,0,0,0,0,0,0, 0,0,0,0,0,0,0,9]
theorem listOffsets_two_partitions_counterexample :
    (opRead listOffsetsUnfixed 1 [116] ⟨listOffsets2, listOffsets2.length⟩).1 = .kafka 6 ∧
    (opRead listOffsetsUnfixed 1 [116] ⟨listOffsets2, listOffsets2.length⟩).2.sz = 22 ∧
    ((specOf "listOffsets").map fun o => (opRead o 1 [116] ⟨listOffsets2 ++ [9], listOffsets2.length⟩)) =
      some (.kafka 6, ⟨[9], 0⟩) := by
  decide

theorem readInt_app (a r : Bytes) (n sz : Nat) (h : a.length = n) (hn : n ≤ sz) :
    readInt n ⟨a ++ r, sz⟩ = (.ok (beInt a), ⟨r, sz - n⟩) := by
  unfold readInt peekRead
  have h1 : ¬ n > sz := by omega
  have h2 : ¬ (a ++ r).length < n := by simp; omega
  simp only [h1, h2, ↓reduceIte]
  subst h
  simp

theorem discardN_app (a r : Bytes) (n : Int) (sz : Nat) (h : (a.length : Int) = n) (hn : a.length ≤ sz) :
    discardN n ⟨a ++ r, sz⟩ = (.ok (), ⟨r, sz - a.length⟩) := by
  unfold discardN
  subst h
  have h1 : ((a.length : Int) ≤ (sz : Int)) := by omega
  have h2 : ¬ ((a.length : Int) < 0) := by omega
  simp [h1, h2]

/-- list-offsets v1, the shape a broker answers a one-partition request with: any topic name, partition, error code,
timestamp, offset; any bytes after the frame.  Result: ok / that kafka error, frame exactly consumed. -/
theorem listOffsets_aligned_wf (o : OpSpec) (topic c1 lenb name c2 part err ts off rest : Bytes)
    (hparse : o.parse 1 = readOffsetClosure [.int 4, .err, .int 8, .int 8])
    (hzero : o.expectZero = true) (hpost : o.post.eval topic = fun _ => none)
    (h1 : c1.length = 4) (h1v : beInt c1 = 1) (hl : lenb.length = 2) (hn : beInt lenb = name.length)
    (h2 : c2.length = 4) (h2v : beInt c2 = 1)
    (hp : part.length = 4) (he : err.length = 2) (ht : ts.length = 8) (ho : off.length = 8) :
    opRead o 1 topic ⟨c1 ++ (lenb ++ (name ++ (c2 ++ (part ++ (err ++ (ts ++ (off ++ rest))))))),
                      4 + (2 + (name.length + (4 + (4 + (2 + (8 + 8))))))⟩ =
      (if beInt err = 0 then .ok else .kafka (beInt err), ⟨rest, 0⟩) := by
  unfold opRead
  rw [hparse]
  simp only [readOffsetClosure, runSteps, runStep, List.cons_append, List.nil_append]
  rw [readInt_app c1 _ 4 _ h1 (by omega)]
  simp only [h1v, Int.toNat_one, iter, lift, discardLen, readLenWith]
  rw [readInt_app lenb _ 2 _ hl (by omega)]
  simp only [hn]
  have hle : ¬ ((name.length : Int) > ((4 + (2 + (name.length + (4 + (4 + (2 + (8 + 8)))))) - 4 - 2 : Nat) : Int)) := by omega
  have hnn : ¬ ((name.length : Int) < 0) := by omega
  simp only [hle, hnn, ↓reduceIte]
  rw [discardN_app name _ _ _ rfl (by omega)]
  simp only []
  rw [readInt_app c2 _ 4 _ h2 (by omega)]
  simp only [h2v, Int.toNat_one, iter]
  rw [readInt_app part _ 4 _ hp (by omega)]
  simp only []
  rw [readInt_app err _ 2 _ he (by omega)]
  simp only []
  rw [readInt_app ts _ 8 _ ht (by omega)]
  simp only []
  rw [readInt_app off _ 8 _ ho (by omega)]
  simp only []
  by_cases hz : beInt err = 0
  · simp [hz, hzero, hpost]
  · simp [hz]

/-- the regenerated list-offsets operation has exactly the shape `listOffsets_aligned_wf` is about -/
theorem listOffsets_gen_shape : ∃ o, specOf "listOffsets" = some o ∧
    o.parse 1 = readOffsetClosure [.int 4, .err, .int 8, .int 8] ∧ o.expectZero = true ∧
    (∀ t, o.post.eval t = fun _ => none) :=
  ⟨_, rfl, rfl, by decide, fun _ => rfl⟩

/-! ### the read lock is released on every exit path (regenerated facts), a leaked lock blocks forever -/

theorem lock_facts_hold : Gen.ConnLegacy.lockFacts.all = true := by decide

/-- with the regenerated lock facts, whatever the exchange does (peek error, ErrNoProgress, body read with any result,
request not even sent), the read lock is free afterwards; and the exchange itself is `connDo` -/
theorem lock_released_on_every_path (lf : LockFacts) (h : lf.all = true) (inflight : Bool) (o : OpSpec) (v : Nat)
    (topic : Bytes) (c : Conn) :
    (connDoL lf inflight o v topic (c, false)).2.2 = false ∧
    (inflight = false → (connDoL lf inflight o v topic (c, false)).1 = (connDo o v topic c).1 ∧
                        (connDoL lf inflight o v topic (c, false)).2.1 = (connDo o v topic c).2) := by
  have hh : lf.peekErr = true ∧ lf.noProgress = true ∧ lf.desyncCloses = true ∧ lf.yield = true ∧ lf.take = true ∧ lf.leave = true ∧ lf.doBody = true ∧
      lf.apiVersions = true ∧ lf.batchHandover = true ∧ lf.batchClose = true := by
    simpa [LockFacts.all, and_assoc] using h
  obtain ⟨h1, h2, hd, _, h4, hl, h5, h6, _, _⟩ := hh
  have hrel : ∀ p, released lf o.closeOnErr p = true := by
    intro p; cases p <;> simp [released, h1, h2, h4, h5, h6, hl]
  refine ⟨by simp [connDoL, hrel], ?_⟩
  intro hi
  subst hi
  simp [connDoL, hd]

theorem lock_released_fetch (lf : LockFacts) (h : lf.all = true) (fixed : Bool) (v : Nat) (off : Int) (b : Body) (c : Conn) :
    (connFetchL lf fixed v off b (c, false)).2.2 = false := by
  have hh : lf.peekErr = true ∧ lf.noProgress = true ∧ lf.desyncCloses = true ∧ lf.yield = true ∧ lf.take = true ∧ lf.leave = true ∧ lf.doBody = true ∧
      lf.apiVersions = true ∧ lf.batchHandover = true ∧ lf.batchClose = true := by
    simpa [LockFacts.all, and_assoc] using h
  obtain ⟨h1, h2, _, _, h4, hl, h5, _, h7, h8⟩ := hh
  unfold connFetchL
  simp only [Bool.false_and, Bool.false_eq_true, ↓reduceIte, Bool.false_or, Bool.not_eq_eq_eq_not, Bool.not_false]
  cases exitPath false c <;> simp [released, h1, h2, h4, h5, h7, h8, hl]

/-- once the lock is leaked, every operation whose request goes out blocks — result and state never change again -/
theorem leaked_lock_blocks (lf : LockFacts) (inflight : Bool) (o : OpSpec) (v : Nat) (topic : Bytes) (c : Conn)
    (hsent : exitPath inflight c ≠ .notSent) :
    connDoL lf inflight o v topic (c, true) = (blocked, (c, true)) := by
  have hopen : ∀ c' : Conn, c'.closed = false → exitPath inflight c' ≠ .notSent := by
    intro c' hc
    unfold exitPath
    simp only [hc, Bool.false_eq_true, ↓reduceIte]
    split <;> simp
  unfold connDoL
  by_cases hs : (inflight && c.closed && !lf.dropsBuffer) = true
  · simp only [hs, ↓reduceIte, Bool.true_and]
    simp [hopen { c with closed := false } rfl]
  · simp only [hs, Bool.false_eq_true, ↓reduceIte, Bool.true_and]
    simp [hsent]

/-- a caller that was already in flight when the Conn was closed fails — provided the closing path dropped what was
left in the read buffer (regenerated: `drops_buffer_holds`); `inflight_served_leftover_counterexample` is the run
without it: the second caller is handed the frame forged inside the first response. -/
theorem inflight_caller_fails_after_close (lf : LockFacts) (hd : lf.dropsBuffer = true) (o : OpSpec) (v : Nat)
    (topic : Bytes) (c : Conn) (hc : c.closed = true) :
    (connDoL lf true o v topic (c, false)).1 = .fail .eof ∧ (connDoL lf true o v topic (c, false)).2.1.closed = true := by
  simp [connDoL, hd, hc, exitPath]

/-- on an open Conn a request already in flight is served exactly like one issued now: pipelining (responses in request
order) does not change what a caller gets — the sequence theorems apply to callers in flight as they are -/
theorem inflight_as_sequential (lf : LockFacts) (o : OpSpec) (v : Nat) (topic : Bytes) (c : Conn) (w : Bool)
    (hopen : c.closed = false) :
    connDoL lf true o v topic (c, w) = connDoL lf false o v topic (c, w) := by
  simp [connDoL, hopen, exitPath]

theorem drops_buffer_holds : Gen.ConnLegacy.lockFacts.dropsBuffer = true := by decide

/-- heartbeat (request 1) answered with `0000` followed, inside the same frame, by a complete frame for request 2;
then the real answer to request 2 -/
def forgedStream : Bytes := [0,0,0,16, 0,0,0,1, 0,0] ++ [0,0,0,6, 0,0,0,2, 0,41] ++ d2Next

theorem inflight_served_leftover_counterexample :
    (let hb := simpleOp "heartbeat" Gen.ConnLegacy.heartbeatResponseV0
     let lf := { Gen.ConnLegacy.lockFacts with dropsBuffer := false }
     let r1 := connDoL lf true hb 0 [] (⟨forgedStream, 1, false⟩, false)
     let r2 := connDoL lf true hb 0 [] r1.2
     r1.1.isFail = true ∧ r1.2.1.closed = true ∧ r2.1 = .kafka 41) ∧
    (let hb := simpleOp "heartbeat" Gen.ConnLegacy.heartbeatResponseV0
     let r1 := connDoL Gen.ConnLegacy.lockFacts true hb 0 [] (⟨forgedStream, 1, false⟩, false)
     let r2 := connDoL Gen.ConnLegacy.lockFacts true hb 0 [] r1.2
     r1.1.isFail = true ∧ r2.1 = .fail .eof) := by decide

/-- the two seeded shapes this guards against, as concrete runs of the model:
(1) waitResponse without the unlock on the peek-error exit: two requests in flight, the response stream ends after 3
bytes — the first caller fails and leaks the lock, the second blocks forever;
(2) Batch.close that does not unlock: fetch answered with an error code, Close, then any operation blocks. -/
theorem leaked_lock_counterexamples :
    (let lf := { Gen.ConnLegacy.lockFacts with peekErr := false }
     let hb := simpleOp "heartbeat" Gen.ConnLegacy.heartbeatResponseV0
     let r1 := connDoL lf true hb 0 [116] (⟨[0, 0, 0], 1, false⟩, false)
     let r2 := connDoL lf true hb 0 [116] r1.2
     r1.1.isFail = true ∧ r1.2.2 = true ∧ r2.1 = blocked) ∧
    (let lf := { Gen.ConnLegacy.lockFacts with batchClose := false }
     let hb := simpleOp "heartbeat" Gen.ConnLegacy.heartbeatResponseV0
     let r1 := connFetchL lf true 10 0 idealBody (⟨[0,0,0,18, 0,0,0,1] ++ fetchErrV10 ++ d2Next, 1, false⟩, false)
     let r2 := connDoL lf false hb 0 [116] r1.2
     r1.1 = .kafka 6 ∧ r1.2.2 = true ∧ r2.1 = blocked) := by decide

/-! ### ApiVersions -/

def encEntries : List (Bytes × Bytes × Bytes) → Bytes
  | [] => []
  | (a, b, c) :: r => a ++ (b ++ (c ++ encEntries r))

def EntriesWF (es : List (Bytes × Bytes × Bytes)) : Prop := ∀ e ∈ es, e.1.length = 2 ∧ e.2.1.length = 2 ∧ e.2.2.length = 2

theorem encEntries_length (es : List (Bytes × Bytes × Bytes)) (h : EntriesWF es) : (encEntries es).length = 6 * es.length := by
  induction es with
  | nil => rfl
  | cons e r ih =>
    obtain ⟨a, b, c⟩ := e
    have he := h (a, b, c) (by simp)
    have hr : EntriesWF r := fun x hx => h x (by simp [hx])
    simp only [encEntries, List.length_append, List.length_cons, ih hr]
    simp only at he
    omega

theorem errs_int (c : Ctx) (v : Int) : ({ c with evs := .int v :: c.evs } : Ctx).errs = c.errs := by
  simp [Ctx.errs]

/-- the entry loop of ApiVersions consumes exactly the entries and leaves the recorded error codes alone -/
theorem iter_entries (es : List (Bytes × Bytes × Bytes)) (h : EntriesWF es) (rest : Bytes) (m : Nat) (c : Ctx) :
    ∃ c', iter es.length (runSteps [.int 2, .int 2, .int 2]) c ⟨encEntries es ++ rest, 6 * es.length + m⟩ = (.ok c', ⟨rest, m⟩) ∧
      c'.errs = c.errs := by
  induction es generalizing c with
  | nil => exact ⟨c, by simp [iter, encEntries], rfl⟩
  | cons e r ih =>
    obtain ⟨a, b, d⟩ := e
    have he := h (a, b, d) (by simp)
    simp only at he
    have hr : EntriesWF r := fun x hx => h x (by simp [hx])
    simp only [List.length_cons, iter, runSteps, runStep, lift, encEntries, List.append_assoc]
    rw [readInt_app a _ 2 _ he.1 (by omega)]
    simp only []
    rw [readInt_app b _ 2 _ he.2.1 (by omega)]
    simp only []
    rw [readInt_app d _ 2 _ he.2.2 (by omega)]
    simp only []
    have hsz : 6 * (r.length + 1) + m - 2 - 2 - 2 = 6 * r.length + m := by omega
    rw [hsz]
    obtain ⟨c', h1, h2⟩ := ih hr { evs := .int (beInt d) :: .int (beInt b) :: .int (beInt a) :: c.evs, ver := c.ver, lastErr := c.lastErr, hwm := c.hwm, setSize := c.setSize }
    refine ⟨c', h1, ?_⟩
    rw [h2]
    simp [Ctx.errs]

/-- ApiVersions v0 (conn.go ApiVersions): on every well-formed frame — any error code, any number
of entries, anything after the frame — the result is ok / that kafka error and exactly the frame is consumed. -/
theorem apiVersions_aligned_wf (topic err cnt rest : Bytes) (es : List (Bytes × Bytes × Bytes))
    (he : err.length = 2) (hc : cnt.length = 4) (hcv : beInt cnt = es.length) (hes : EntriesWF es) :
    ((specOf "apiVersions").map fun o =>
      opRead o 0 topic ⟨err ++ (cnt ++ (encEntries es ++ rest)), 2 + (4 + 6 * es.length)⟩) =
      some (if beInt err = 0 then .ok else .kafka (beInt err), ⟨rest, 0⟩) := by
  obtain ⟨c', h1, h2⟩ := iter_entries es hes rest 0 { ver := 0, evs := [.err (beInt err)], lastErr := beInt err }
  simp only [specOf, Option.map_some, opRead, apiVersionsParse]
  generalize hB : [Step.int 2, Step.int 2, Step.int 2] = B at h1 ⊢
  simp only [runSteps, runStep, lift]
  rw [readInt_app err _ 2 _ he (by omega)]
  simp only []
  rw [readInt_app cnt _ 4 _ hc (by omega)]
  simp only [hcv, Int.toNat_natCast]
  have hsz : 2 + (4 + 6 * es.length) - 2 - 4 = 6 * es.length + 0 := by omega
  rw [hsz]
  rw [h1]
  have hb : ¬ ((es.length : Int) < 0 ∨ (es.length : Int) > ((6 * es.length + 0) / 6 : Nat)) := by omega
  rw [if_neg hb]
  simp only [Nat.add_zero, not_true_eq_false, and_false, ↓reduceIte, Post.eval, h2]
  by_cases hz : beInt err = 0
  · simp [hz, Ctx.errs]
  · simp [hz, Ctx.errs]

/-- ApiVersions as it was before the fix C11-D33: no `expectZeroSize`, Conn kept on every error -/
def apiVersionsUnfixed : OpSpec :=
  { parse := fun _ => Gen.ConnLegacy.apiVersionsParseGen, drain := false, expectZero := false, post := .firstErr [], closeOnErr := false }

/-- an ApiVersions v0 response (request 1) with one entry and 4 more bytes in the frame -/
def avFrame : Bytes := [0,0,0,20, 0,0,0,1] ++ [0,0, 0,0,0,1, 0,3, 0,0, 0,9] ++ [7,7,7,7]

/-- C11-D33, the unfixed shape: ok, Conn kept, 4 bytes of the frame left in the stream → the next operation reads
mid-frame (io.ErrNoProgress); and a cut entry list: error, Conn kept and misaligned all the same -/
theorem apiVersions_trailing_counterexample :
    (connDo apiVersionsUnfixed 0 [] ⟨avFrame ++ d2Next, 1, false⟩).1 = .ok ∧
    (connDo apiVersionsUnfixed 0 [] ⟨avFrame ++ d2Next, 1, false⟩).2 = ⟨[7,7,7,7] ++ d2Next, 2, false⟩ ∧
    (connDo (simpleOp "heartbeat" Gen.ConnLegacy.heartbeatResponseV0) 0 []
        (connDo apiVersionsUnfixed 0 [] ⟨avFrame ++ d2Next, 1, false⟩).2).1 = .fail (.other "io.ErrNoProgress") ∧
    (connDo apiVersionsUnfixed 0 [] ⟨[0,0,0,12, 0,0,0,1, 0,0, 0,0,0,1, 0,3] ++ d2Next, 1, false⟩).2.closed = false := by
  decide

/-- the same frames through the current (regenerated) operation: an error and the Conn is closed -/
theorem apiVersions_fixed_example :
    ((specOf "apiVersions").map fun o => ((connDo o 0 [] ⟨avFrame ++ d2Next, 1, false⟩).1 matches .fail _,
        (connDo o 0 [] ⟨avFrame ++ d2Next, 1, false⟩).2.closed,
        (connDo o 0 [] ⟨[0,0,0,12, 0,0,0,1, 0,0, 0,0,0,1, 0,3] ++ d2Next, 1, false⟩).2.closed)) = some (true, true, true) := by
  decide

/-- a well-formed one-partition list-offsets error frame (error 3 = UnknownTopicOrPartition): aligned -/
def listOffsets1 : Bytes :=
  [0,0,0,1, 0,1,116, 0,0,0,1, 0,0,0,0, 0,3, 255,255,255,255,255,255,255,255, 255,255,255,255,255,255,255,255]
theorem listOffsets_wf_example :
    ((specOf "listOffsets").map fun o => opRead o 1 [116] ⟨listOffsets1 ++ [9, 9], listOffsets1.length⟩) =
      some (.kafka 3, ⟨[9, 9], 0⟩) := by decide

end KV.C11
