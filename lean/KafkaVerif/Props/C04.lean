/-
Props/C04.lean — "Every frame on the wire is the canonical Kafka encoding; decoding inverts it".

Model: Model/Codec.lean (encode.go, decode.go, request.go, response.go of /repo/protocol), over schemas
resolved by Model/Resolve.lean from the raw struct tags in Gen/Schemas.lean (re-extracted on every run).
All theorems are for EVERY resolved schema type `t` with `t.wf` and every well-typed value — no bound on
sizes, nesting or versions; `t.wf` is evaluated on every registered API × version by the oracle on every
run (`wf` op), and by `decide` for the examples below.

Tagged fields: the pinned tree declares no `tag=N` field (only the zero-size `_ struct{}` markers), and `Ty.wf`
(hypothesis of `decode_encode`) demands that; the codec's support for them is covered by two further theorems:
`skip_unknown_tags` (any number of tagged fields the schema does not know are skipped, value unchanged) and
`decode_encode_tagged` (a flexible struct with id-tagged fields of arbitrary well-formed types round-trips,
whatever the order of the distinct ids), tied to the code by a driver-registered test type with real tag=N fields.
Partial: the hand-written Conn codec is covered by Gen/Legacy.lean (`legacy_size` per request type) and by the
c04conn correspondence, not by a `legacy_eq_spec` theorem (see docs/notes/C04.md).
-/
import KafkaVerif.Lemmas.CodecRT
import KafkaVerif.Spec.KafkaWire
import KafkaVerif.Lemmas.GrowthSource
import KafkaVerif.Gen.Routing
import KafkaVerif.Gen.DecoderCfg

namespace KV.C04
open KV KV.Wire KV.Codec

/-! ### the mutual induction over the nested type `Ty` -/

mutual
theorem pw_all (t : Ty) : PW t :=
  match t with
  | .bool => pw_bool | .int8 => pw_int8 | .int16 => pw_int16 | .int32 => pw_int32 | .int64 => pw_int64
  | .float64 => pw_float64
  | .string c n => pw_string c n
  | .bytes c n => pw_bytes c n
  | .array c n t => pw_array c n t
  | .struct flex fs ids ts => pw_struct flex fs ids ts (pw_list fs)
  | .unit flex => pw_unit flex
  | .records => pw_records
termination_by structural t
theorem pw_list (ts : List Ty) : ∀ t ∈ ts, PW t :=
  match ts with
  | [] => fun _ h => by simp at h
  | t :: ts => fun t' h => by
    rcases List.mem_cons.1 h with h | h
    · exact h ▸ pw_all t
    · exact pw_list ts t' h
termination_by structural ts
end

mutual
theorem rt_all (cfg : Cfg) (t : Ty) : RT cfg t :=
  match t with
  | .bool => rt_bool cfg | .int8 => rt_int8 cfg | .int16 => rt_int16 cfg | .int32 => rt_int32 cfg
  | .int64 => rt_int64 cfg | .float64 => rt_float64 cfg
  | .string c n => rt_string cfg c n
  | .bytes c n => rt_bytes cfg c n
  | .array c n t => rt_array cfg c n t (rt_all cfg t) (pw_all t)
  | .struct flex fs ids ts => rt_struct cfg flex fs ids ts (rt_list cfg fs)
  | .unit flex => rt_unit cfg flex
  | .records => rt_records cfg
termination_by structural t
theorem rt_list (cfg : Cfg) (ts : List Ty) : ∀ t ∈ ts, RT cfg t :=
  match ts with
  | [] => fun _ h => by simp at h
  | t :: ts => fun t' h => by
    rcases List.mem_cons.1 h with h | h
    · exact h ▸ rt_all cfg t
    · exact rt_list cfg ts t' h
termination_by structural ts
end

/-- **Central theorem.**  For every resolved schema type and every well-typed value, decoding the encoding
(followed by any further bytes `r`, inside a frame with at least that many bytes left) returns the same
value up to `norm` (nil slices of non-nullable fields come back empty) and consumes exactly the encoding.
One theorem for all message types and versions; it holds for the decoder with and without the length
bounds (`cfg`). -/
theorem decode_encode (cfg : Cfg) (hrec : cfg.recs = none) (t : Ty) (v : Val) (hwf : t.wf = true) (hwt : wt t v = true)
    (r : Bytes) (rem : Nat) (hrem : (encode t v).length ≤ rem) :
    decode cfg t ⟨encode t v ++ r, rem⟩ = .ok (norm t v) ⟨r, rem - (encode t v).length⟩ :=
  rt_all cfg t hrec hwf v hwt r rem hrem

/-- the 4-byte size prefix of a response frame is the number of bytes that follow -/
theorem frame_size_response (flex : Bool) (corr : Int) (t : Ty) (v : Val)
    (h : (frameResponse flex corr t v).length - 4 < 2 ^ 31) :
    fromBE ((frameResponse flex corr t v).take 4) = (frameResponse flex corr t v).length - 4 := by
  simp only [frameResponse] at h ⊢
  rw [List.take_left' (be_length 4 _), fromBE_be]
  simp only [List.length_append, be_length] at h ⊢
  omega

/-- the 4-byte size prefix of a request frame is the number of bytes that follow -/
theorem frame_size_request (flex : Bool) (key ver corr : Int) (cid : Bytes) (t : Ty) (v : Val)
    (h : (frameRequest flex key ver corr cid t v).length - 4 < 2 ^ 31) :
    fromBE ((frameRequest flex key ver corr cid t v).take 4) = (frameRequest flex key ver corr cid t v).length - 4 := by
  simp only [frameRequest] at h ⊢
  rw [List.take_left' (be_length 4 _), fromBE_be]
  simp only [List.length_append, be_length] at h ⊢
  omega

/-- header fields of a request frame at their offsets: api key, version, correlation id -/
theorem request_header (flex : Bool) (key ver corr : Int) (cid : Bytes) (t : Ty) (v : Val)
    (hk : inRange 16 key = true) (hv : inRange 16 ver = true) (hc : inRange 32 corr = true) :
    let f := frameRequest flex key ver corr cid t v
    toS 16 (fromBE ((f.drop 4).take 2)) = key ∧ toS 16 (fromBE ((f.drop 6).take 2)) = ver ∧
    toS 32 (fromBE ((f.drop 8).take 4)) = corr := by
  simp only [inRange, Bool.and_eq_true, decide_eq_true_eq] at hk hv hc
  have e2 : ∀ i, (encInt 2 i).length = 2 := fun i => encInt_length 2 i
  have e4 : ∀ i, (encInt 4 i).length = 4 := fun i => encInt_length 4 i
  have b4 : ∀ n, (be 4 n).length = 4 := fun n => be_length 4 n
  simp only [frameRequest, List.append_assoc]
  refine ⟨?_, ?_, ?_⟩
  · rw [List.drop_left' (b4 _), List.take_left' (e2 _)]
    exact decInt_encInt 2 key (by decide) hk.1 hk.2
  · rw [show (6 : Nat) = 4 + 2 by rfl, ← List.drop_drop, List.drop_left' (b4 _), List.drop_left' (e2 _), List.take_left' (e2 _)]
    exact decInt_encInt 2 ver (by decide) hv.1 hv.2
  · rw [show (8 : Nat) = 4 + (2 + 2) by rfl, ← List.drop_drop, List.drop_left' (b4 _), ← List.drop_drop,
      List.drop_left' (e2 _), List.drop_left' (e2 _), List.take_left' (e4 _)]
    exact decInt_encInt 4 corr (by decide) hc.1 hc.2

theorem be_eq_encInt (k n : Nat) (h : n < 2 ^ (8 * k)) : be k n = encInt k (n : Int) := by
  unfold encInt toU
  have : ((n : Int) % ((2 ^ (8 * k) : Nat) : Int)) = (n : Int) := Int.emod_eq_of_lt (by omega) (by omega)
  rw [this, Int.toNat_natCast]

/-- **A framed response decodes to what was encoded and exactly one frame is consumed**: `ReadResponse` on
`frame ++ rest` returns the correlation id and the (normalised) value and leaves exactly `rest`. -/
theorem frame_decode_consumes_one (cfg : Cfg) (hrec : cfg.recs = none) (flex : Bool) (corr : Int) (t : Ty) (v : Val) (rest : Bytes)
    (hwf : t.wf = true) (hwt : wt t v = true) (hc : inRange 32 corr = true)
    (hsz : (frameResponse flex corr t v).length - 4 < 2 ^ 31) :
    readResponse cfg flex t (frameResponse flex corr t v ++ rest) = .ok (corr, norm t v) ⟨rest, 0⟩ := by
  have hc' : inRange (8 * 4) corr = true := hc
  have hu0 : (uvarint 0).length = 1 := by simp [uvarint]
  cases flex
  · simp only [frameResponse, Bool.false_eq_true, if_false, List.append_nil, List.length_append, be_length,
      encInt_length] at hsz
    simp only [readResponse, frameResponse, Bool.false_eq_true, if_false, List.append_nil, List.append_assoc,
      List.length_append, encInt_length]
    rw [be_eq_encInt 4 _ (by omega)]
    have hin : inRange (8 * 4) ((4 + (encode t v).length : Nat) : Int) = true := by
      simp only [inRange, Bool.and_eq_true, decide_eq_true_eq]; constructor <;> omega
    rw [readInt_encInt 4 _ 4 _ (by decide) hin (by omega)]
    have h0 : ¬ (((4 + (encode t v).length : Nat) : Int) < 0) := by omega
    simp only [Res.bind, h0, if_false, Int.toNat_natCast]
    rw [readInt_encInt 4 corr _ _ (by decide) hc' (by omega)]
    simp only []
    rw [decode_encode cfg hrec t v hwf hwt rest _ (by omega)]
    simp [discardAll]
  · simp only [frameResponse, if_true, List.length_append, be_length, encInt_length, hu0] at hsz
    simp only [readResponse, frameResponse, if_true, List.append_assoc, List.length_append, encInt_length, hu0]
    rw [be_eq_encInt 4 _ (by omega)]
    have hin : inRange (8 * 4) ((4 + (1 + (encode t v).length) : Nat) : Int) = true := by
      simp only [inRange, Bool.and_eq_true, decide_eq_true_eq]; constructor <;> omega
    rw [readInt_encInt 4 _ 4 _ (by decide) hin (by omega)]
    have h0 : ¬ (((4 + (1 + (encode t v).length) : Nat) : Int) < 0) := by omega
    simp only [Res.bind, h0, if_false, Int.toNat_natCast]
    rw [readInt_encInt 4 corr _ _ (by decide) hc' (by omega)]
    simp only []
    rw [readUvarint_uvarint 0 _ _ (by decide) (by omega)]
    have hl : lenOfU cfg 0 = 0 := lenOfU_small cfg 0 (by decide)
    simp only [tagCount, hl, hu0]
    simp only [Int.lt_irrefl, if_false, Int.toNat_zero, Nat.not_lt_zero, and_false, skipHeaderTags]
    rw [decode_encode cfg hrec t v hwf hwt rest _ (by omega)]
    simp [discardAll]



/-- `frameRequest` writes the client id as the model encoding of a (nullable iff flexible) string -/
theorem clientID_enc (flex : Bool) (cid : Bytes) :
    (if flex then encString false true cid ++ uvarint 0 else encString false false cid) =
      encode (.string false flex) (.str cid) ++ (if flex then uvarint 0 else []) := by
  cases flex <;> simp [encode]

/-- **A framed request decodes to what was encoded and exactly one frame is consumed** (`ReadRequest` on
`WriteRequest`'s output followed by anything): api key, version, correlation id, client id and the (normalised) body. -/
theorem frame_request_decode (cfg : Cfg) (hrec : cfg.recs = none) (flex : Bool) (key ver corr : Int) (cid : Bytes)
    (t : Ty) (v : Val) (rest : Bytes) (hwf : t.wf = true) (hwt : wt t v = true)
    (hk : inRange 16 key = true) (hv : inRange 16 ver = true) (hc : inRange 32 corr = true) (hcid : cid.length < 2 ^ 15)
    (hsz : (frameRequest flex key ver corr cid t v).length - 4 < 2 ^ 31) :
    readRequest cfg flex t (frameRequest flex key ver corr cid t v ++ rest) = .ok (key, ver, corr, cid, norm t v) ⟨rest, 0⟩ := by
  have hk' : inRange (8 * 2) key = true := hk
  have hv' : inRange (8 * 2) ver = true := hv
  have hc' : inRange (8 * 4) corr = true := hc
  have hu0 : (uvarint 0).length = 1 := by simp [uvarint]
  have hcw : wt (.string false flex) (.str cid) = true := by simp [wt]; omega
  -- normalise the frame: header ints, client id as a model string, optional tag buffer, body
  have hframe : frameRequest flex key ver corr cid t v =
      be 4 ((encInt 2 key ++ encInt 2 ver ++ encInt 4 corr ++
        (encode (.string false flex) (.str cid) ++ (if flex then uvarint 0 else [])) ++ encode t v).length) ++
      (encInt 2 key ++ (encInt 2 ver ++ (encInt 4 corr ++
        (encode (.string false flex) (.str cid) ++ ((if flex then uvarint 0 else []) ++ encode t v))))) := by
    simp only [frameRequest, clientID_enc, List.append_assoc]
  rw [hframe] at hsz ⊢
  generalize hC : encode (.string false flex) (.str cid) = C at hsz ⊢
  generalize hT : (if flex = true then uvarint 0 else []) = T at hsz ⊢
  have hTl : T.length ≤ 1 := by rw [← hT]; split <;> simp [hu0]
  simp only [List.length_append, be_length, encInt_length] at hsz
  simp only [readRequest, List.append_assoc, List.length_append, encInt_length]
  rw [be_eq_encInt 4 _ (by omega)]
  have hin : inRange (8 * 4) ((2 + (2 + (4 + (C.length + (T.length + (encode t v).length)))) : Nat) : Int) = true := by
    simp only [inRange, Bool.and_eq_true, decide_eq_true_eq]; constructor <;> omega
  rw [readInt_encInt 4 _ 4 _ (by decide) hin (by omega)]
  have h0 : ¬ (((2 + (2 + (4 + (C.length + (T.length + (encode t v).length)))) : Nat) : Int) < 0) := by omega
  simp only [Res.bind, h0, if_false, Int.toNat_natCast]
  rw [readInt_encInt 2 key _ _ (by decide) hk' (by omega)]
  simp only []
  rw [readInt_encInt 2 ver _ _ (by decide) hv' (by omega)]
  simp only []
  rw [readInt_encInt 4 corr _ _ (by decide) hc' (by omega)]
  simp only []
  rw [← hC, rt_string cfg false flex hrec (by rfl) (.str cid) hcw _ _ (by rw [hC]; omega)]
  simp only [norm, hC]
  -- the header tag buffer and the body
  unfold readRequestBody
  have htag : ∀ (d : Dec), d = ⟨T ++ (encode t v ++ rest), T.length + (encode t v).length⟩ →
      ((if flex = true then
          (readUvarint d).bind fun n d => (tagCount cfg n d).bind fun k d => skipHeaderTags cfg k d
        else Res.ok () d) : Res Unit) = Res.ok () ⟨encode t v ++ rest, (encode t v).length⟩ := by
    intro d hd
    subst hd
    cases flex
    · simp only [Bool.false_eq_true, if_false] at hT ⊢
      subst hT
      simp
    · simp only [if_true] at hT ⊢
      subst hT
      rw [readUvarint_uvarint 0 _ _ (by decide) (by omega)]
      have hl : lenOfU cfg 0 = 0 := lenOfU_small cfg 0 (by decide)
      simp only [Res.bind, tagCount, hl]
      simp [skipHeaderTags, hu0]
  have hn : 2 + (2 + (4 + (C.length + (T.length + (encode t v).length)))) - 2 - 2 - 4 - C.length =
      T.length + (encode t v).length := by omega
  rw [hn, htag _ rfl]
  simp only [Res.bind]
  rw [decode_encode cfg hrec t v hwf hwt rest _ (Nat.le_refl _)]
  simp [discardAll]

/-! ### unknown tagged fields are skipped -/

/-- a tagged field as a (newer) broker writes it: tag id, size, payload -/
def encExtra (e : Nat × Bytes) : Bytes := uvarint e.1 ++ (uvarint e.2.length ++ e.2)

def encExtras : List (Nat × Bytes) → Bytes
  | [] => []
  | e :: es => encExtra e ++ encExtras es

theorem tagLookup_none (cfg : Cfg) : ∀ (ids : List Int) (ts : List Ty) (k : Nat) (id : Int),
    (∀ i ∈ ids, i ≠ id) → tagLookup cfg ids ts k id = none
  | [], _, _, _, _ => by simp [tagLookup]
  | _ :: _, [], _, _, _ => by simp [tagLookup]
  | i :: is, t :: ts, k, id, h => by
    have h1 : i ≠ id := h i (by simp)
    have h2 := tagLookup_none cfg is ts (k + 1) id (fun j hj => h j (by simp [hj]))
    simp [tagLookup, h2, h1]

theorem encExtras_length_ge : ∀ es : List (Nat × Bytes), es.length ≤ (encExtras es).length
  | [] => by simp [encExtras]
  | e :: es => by
    have := encExtras_length_ge es
    have := uvarint_length_pos e.1
    simp only [encExtras, encExtra, List.length_append, List.length_cons]
    omega

/-- the tagged-field loop consumes any number of fields it does not know and leaves the slots untouched -/
theorem taggedLoop_skips (cfg : Cfg) (lookup : Int → Option (Nat × (Dec → Res Val))) :
    ∀ (es : List (Nat × Bytes)), (∀ e ∈ es, e.1 < 2 ^ 64 ∧ e.2.length < 2 ^ 31 ∧ lookup (toI64 e.1) = none) →
    ∀ (slots : List Val) (r : Bytes) (rem : Nat), (encExtras es).length ≤ rem →
      taggedLoop cfg lookup es.length slots ⟨encExtras es ++ r, rem⟩ = .ok slots ⟨r, rem - (encExtras es).length⟩
  | [], _, slots, r, rem, _ => by simp [taggedLoop, encExtras]
  | e :: es, h, slots, r, rem, hr => by
    obtain ⟨h1, h2, h3⟩ := h e (by simp)
    have ih := taggedLoop_skips cfg lookup es (fun e' he' => h e' (by simp [he']))
    simp only [encExtras, encExtra, List.length_append] at hr
    simp only [List.length_cons, taggedLoop, encExtras, encExtra, List.append_assoc]
    rw [readUvarint_uvarint e.1 rem _ h1 (by omega)]
    simp only [Res.bind]
    rw [readUvarint_uvarint e.2.length _ _ (by omega) (by omega)]
    simp only [h3]
    rw [lenOfU_small cfg e.2.length h2, readLen_append cfg _ _ e.2 _ rfl (by omega)]
    simp only []
    rw [ih slots r _ (by omega)]
    simp only [List.length_append]
    congr 2
    omega

/-- **skip_unknown_tags.**  A flexible struct whose tag buffer carries any number of tagged fields with ids the
schema does not declare (as sent by a newer broker) decodes to exactly the value it decodes to without them,
and consumes all of them. -/
theorem skip_unknown_tags (cfg : Cfg) (hrec : cfg.recs = none) (fs : List Ty) (ids : List Int) (ts : List Ty) (vs tvs : List Val)
    (es : List (Nat × Bytes)) (r : Bytes) (rem : Nat)
    (hwf : (Ty.struct true fs ids ts).wf = true) (hwt : wt (.struct true fs ids ts) (.struct vs tvs) = true)
    (hes : ∀ e ∈ es, e.1 < 2 ^ 64 ∧ e.2.length < 2 ^ 31 ∧ ∀ i ∈ ids, i ≠ toI64 e.1)
    (hn : es.length < 2 ^ 31)
    (hrem : (encodeFields fs vs).length + ((uvarint es.length).length + (encExtras es).length) ≤ rem) :
    decode cfg (.struct true fs ids ts) ⟨encodeFields fs vs ++ (uvarint es.length ++ (encExtras es ++ r)), rem⟩
      = .ok (norm (.struct true fs ids ts) (.struct vs tvs))
          ⟨r, rem - ((encodeFields fs vs).length + ((uvarint es.length).length + (encExtras es).length))⟩ := by
  simp only [Ty.wf, Bool.and_eq_true] at hwf
  obtain ⟨⟨⟨hwfl, hreg⟩, hmark⟩, _⟩ := hwf
  simp only [wt, Bool.and_eq_true] at hwt
  simp only [norm, normFields_markers ts tvs hmark hwt.2]
  simp only [decode, if_true]
  rw [rt_fields cfg hrec fs (rt_list cfg fs) hwfl hreg vs hwt.1 _ rem (by omega)]
  simp only [Res.bind]
  rw [readUvarint_uvarint es.length _ _ (by omega) (by omega)]
  have hge := encExtras_length_ge es
  have hl : lenOfU cfg es.length = es.length := lenOfU_small cfg es.length hn
  have h0 : ¬ ((es.length : Int) < 0) := by omega
  have h1 : ¬ (cfg.bounded = true ∧ es.length > rem - (encodeFields fs vs).length - (uvarint es.length).length) := by
    intro h; omega
  simp only [tagCount, hl, h0, if_false, Int.toNat_natCast, h1]
  rw [taggedLoop_skips cfg _ es (fun e he => ⟨(hes e he).1, (hes e he).2.1, tagLookup_none cfg ids ts 0 _ (hes e he).2.2⟩) _ r _ (by omega)]
  simp only []
  congr 2
  omega


/-! ### round trip of id-tagged fields (`tag=N`) -/

theorem tagLookup_hit (cfg : Cfg) : ∀ (preI : List Int) (preT : List Ty) (i : Int) (t : Ty) (sufI : List Int) (sufT : List Ty) (k : Nat),
    preI.length = preT.length → (∀ j ∈ sufI, j ≠ i) →
    tagLookup cfg (preI ++ i :: sufI) (preT ++ t :: sufT) k i = some (k + preI.length, decode cfg t)
  | [], [], i, t, sufI, sufT, k, _, hs => by
    simp [tagLookup, tagLookup_none cfg sufI sufT (k + 1) i hs]
  | [], _ :: _, _, _, _, _, _, h, _ => by simp at h
  | _ :: _, [], _, _, _, _, _, h, _ => by simp at h
  | a :: pI, b :: pT, i, t, sufI, sufT, k, h, hs => by
    have ih := tagLookup_hit cfg pI pT i t sufI sufT (k + 1) (by simpa using h) hs
    simp only [List.cons_append, tagLookup, ih, List.length_cons]
    congr 2
    omega

theorem set_append_mid {α : Type} : ∀ (a : List α) (z v : α) (b : List α), (a ++ z :: b).set a.length v = a ++ v :: b
  | [], _, _, _ => rfl
  | x :: a, z, v, b => by simp [set_append_mid a z v b]

theorem normFields_length : ∀ (ts : List Ty) (vs : List Val), wtFields ts vs = true → (normFields ts vs).length = ts.length
  | [], [], _ => by simp [normFields]
  | [], _ :: _, h => by simp [wtFields] at h
  | _ :: _, [], h => by simp [wtFields] at h
  | t :: ts, v :: vs, h => by
    simp only [wtFields, Bool.and_eq_true] at h
    simp [normFields, normFields_length ts vs h.2]

theorem normFields_snoc : ∀ (ts : List Ty) (vs : List Val) (t : Ty) (v : Val), wtFields ts vs = true →
    normFields (ts ++ [t]) (vs ++ [v]) = normFields ts vs ++ [norm t v]
  | [], [], t, v, _ => by simp [normFields]
  | [], _ :: _, _, _, h => by simp [wtFields] at h
  | _ :: _, [], _, _, h => by simp [wtFields] at h
  | a :: ts, b :: vs, t, v, h => by
    simp only [wtFields, Bool.and_eq_true] at h
    simp [normFields, normFields_snoc ts vs t v h.2]

theorem wtFields_snoc : ∀ (ts : List Ty) (vs : List Val) (t : Ty) (v : Val), wtFields ts vs = true → wt t v = true →
    wtFields (ts ++ [t]) (vs ++ [v]) = true
  | [], [], t, v, _, h => by simp [wtFields, h]
  | [], _ :: _, _, _, h, _ => by simp [wtFields] at h
  | _ :: _, [], _, _, h, _ => by simp [wtFields] at h
  | a :: ts, b :: vs, t, v, h, hv => by
    simp only [wtFields, Bool.and_eq_true] at h
    simp [wtFields, h.1, wtFields_snoc ts vs t v h.2 hv]

theorem toI64_toU64 (i : Int) (h0 : 0 ≤ i) (h1 : i < 2 ^ 63) : toI64 (toU64 i) = i := by
  unfold toI64 toU64
  have hlt := toU_lt 64 i
  rw [Nat.mod_eq_of_lt hlt]
  exact toS_toU 64 i (by decide) (by omega) (by omega)

/-- the side conditions on the tagged part of a struct: every tagged field is a real (non zero-size) well-formed
type, values are well-typed with payloads below 2^31 bytes, ids are in `[0, 2^63)` -/
def TaggedOk (cfg : Cfg) : List Int → List Ty → List Val → Prop
  | [], [], [] => True
  | i :: is, t :: ts, v :: vs =>
    (0 ≤ i ∧ i < 2 ^ 63 ∧ t.zeroSize = false ∧ t.wf = true ∧ wt t v = true ∧ (encode t v).length < 2 ^ 31 ∧ RT cfg t) ∧
      TaggedOk cfg is ts vs
  | _, _, _ => False

theorem taggedLoop_known (cfg : Cfg) (hrec : cfg.recs = none) (ids : List Int) (ts : List Ty) :
    ∀ (sufI : List Int) (sufT : List Ty) (sufV : List Val) (preI : List Int) (preT : List Ty) (preV : List Val),
      ids = preI ++ sufI → ts = preT ++ sufT → preI.length = preT.length → wtFields preT preV = true →
      ids.Nodup → TaggedOk cfg sufI sufT sufV →
      ∀ (r : Bytes) (rem : Nat), (encodeTagged sufI sufT sufV).length ≤ rem →
        taggedLoop cfg (tagLookup cfg ids ts 0) (countTagged sufT) (normFields preT preV ++ zeros sufT)
            ⟨encodeTagged sufI sufT sufV ++ r, rem⟩
          = .ok (normFields preT preV ++ normFields sufT sufV) ⟨r, rem - (encodeTagged sufI sufT sufV).length⟩
  | [], [], [], preI, preT, preV, _, _, _, _, _, _, r, rem, _ => by
    simp [countTagged, taggedLoop, encodeTagged, zeros, normFields]
  | i :: sufI, t :: sufT, v :: sufV, preI, preT, preV, hI, hT, hl, hpre, hnd, hok, r, rem, hr => by
    obtain ⟨⟨h0, h1, hz, hwf, hwt, hlen, hrt⟩, hrest⟩ := hok
    have hu : toU64 i < 2 ^ 64 := toU_lt 64 i
    subst hI hT
    have hnot : ∀ j ∈ sufI, j ≠ i := by
      intro j hj hji
      subst hji
      have := List.nodup_append.1 hnd
      have h2 := this.2.1
      simp only [List.nodup_cons] at h2
      exact h2.1 hj
    have hlook := tagLookup_hit cfg preI preT i t sufI sufT 0 hl hnot
    simp only [encodeTagged, hz, Bool.false_eq_true, if_false, List.length_append] at hr
    simp only [countTagged, hz, Bool.false_eq_true, if_false, encodeTagged, zeros, List.append_assoc]
    rw [show 1 + countTagged sufT = countTagged sufT + 1 by omega]
    simp only [taggedLoop]
    rw [readUvarint_uvarint (toU64 i) rem _ hu (by omega)]
    simp only [Res.bind]
    rw [readUvarint_uvarint (encode t v).length _ _ (by omega) (by omega)]
    simp only [toI64_toU64 i h0 h1, hlook, Nat.zero_add]
    rw [hrt hrec hwf v hwt _ _ (by omega)]
    simp only []
    have hlen' : (normFields preT preV).length = preI.length := by rw [normFields_length preT preV hpre, hl]
    rw [← hlen', set_append_mid]
    have ih := taggedLoop_known cfg hrec (preI ++ i :: sufI) (preT ++ t :: sufT) sufI sufT sufV (preI ++ [i]) (preT ++ [t]) (preV ++ [v])
      (by simp) (by simp) (by simp [hl]) (wtFields_snoc preT preV t v hpre hwt) hnd hrest r
    rw [normFields_snoc preT preV t v hpre] at ih
    simp only [List.append_assoc, List.singleton_append] at ih
    rw [ih _ (by omega)]
    simp only [normFields, List.length_append]
    congr 2
    omega
  | [], _ :: _, _, _, _, _, _, _, _, _, _, h, _, _, _ => by cases ‹List Val› <;> simp [TaggedOk] at h
  | _ :: _, [], _, _, _, _, _, _, _, _, _, h, _, _, _ => by cases ‹List Val› <;> simp [TaggedOk] at h
  | [], [], _ :: _, _, _, _, _, _, _, _, _, h, _, _, _ => by simp [TaggedOk] at h
  | _ :: _, _ :: _, [], _, _, _, _, _, _, _, _, h, _, _, _ => by simp [TaggedOk] at h


theorem countTagged_le_enc (cfg : Cfg) : ∀ (ids : List Int) (ts : List Ty) (tvs : List Val), TaggedOk cfg ids ts tvs →
    countTagged ts ≤ (encodeTagged ids ts tvs).length
  | [], [], [], _ => by simp [countTagged]
  | i :: is, t :: ts, v :: vs, h => by
    obtain ⟨⟨_, _, hz, _⟩, hrest⟩ := h
    have := countTagged_le_enc cfg is ts vs hrest
    have := uvarint_length_pos (toU64 i)
    simp only [countTagged, encodeTagged, hz, Bool.false_eq_true, if_false, List.length_append]
    omega
  | [], _ :: _, tvs, h => by cases tvs <;> simp [TaggedOk] at h
  | _ :: _, [], tvs, h => by cases tvs <;> simp [TaggedOk] at h
  | [], [], _ :: _, h => by simp [TaggedOk] at h
  | _ :: _, _ :: _, [], h => by simp [TaggedOk] at h

/-- **Round trip of a flexible struct with id-tagged fields** (`kafka:"…,tag=N"`; the pinned tree declares none,
the codec supports them): regular fields as in `decode_encode`, every tagged field written as (id, size, payload)
in declaration order and read back through the tag map, whatever the order of distinct ids. -/
theorem decode_encode_tagged (cfg : Cfg) (hrec : cfg.recs = none) (fs : List Ty) (ids : List Int) (ts : List Ty) (vs tvs : List Val)
    (r : Bytes) (rem : Nat)
    (hwfl : wfList fs = true) (hreg : fs.all regularOk = true) (hfs : wtFields fs vs = true)
    (hnd : ids.Nodup) (hok : TaggedOk cfg ids ts tvs) (hn : (encodeTagged ids ts tvs).length < 2 ^ 31)
    (hrem : (encode (.struct true fs ids ts) (.struct vs tvs)).length ≤ rem) :
    decode cfg (.struct true fs ids ts) ⟨encode (.struct true fs ids ts) (.struct vs tvs) ++ r, rem⟩
      = .ok (.struct (normFields fs vs) (normFields ts tvs))
          ⟨r, rem - (encode (.struct true fs ids ts) (.struct vs tvs)).length⟩ := by
  have hc := countTagged_le_enc cfg ids ts tvs hok
  simp only [encode, if_true, List.length_append] at hrem ⊢
  simp only [decode, if_true, List.append_assoc]
  rw [rt_fields cfg hrec fs (rt_list cfg fs) hwfl hreg vs hfs _ rem (by omega)]
  simp only [Res.bind]
  rw [readUvarint_uvarint (countTagged ts) _ _ (by omega) (by omega)]
  have hl : lenOfU cfg (countTagged ts) = countTagged ts := lenOfU_small cfg _ (by omega)
  have h0 : ¬ ((countTagged ts : Int) < 0) := by omega
  have h1 : ¬ (cfg.bounded = true ∧ countTagged ts > rem - (encodeFields fs vs).length - (uvarint (countTagged ts)).length) := by
    intro h; omega
  simp only [tagCount, hl, h0, if_false, Int.toNat_natCast, h1]
  have hloop := taggedLoop_known cfg hrec ids ts ids ts tvs [] [] [] rfl rfl rfl (by simp [wtFields]) hnd hok r
  simp only [normFields, List.nil_append] at hloop
  rw [hloop _ (by omega)]
  simp only []
  congr 2
  omega

/-- the hypotheses are satisfiable: two tagged fields declared in non-ascending id order -/
example : TaggedOk { bounded := true } [5, 0] [.string true false, .int32] [.str [104, 105], .int (-2)] := by
  have h3 := uvarint_length_le10 (0 + 1 + 1 + 1) (by decide)
  refine ⟨⟨by decide, by decide, rfl, rfl, by simp [wt], ?_, rt_all _ _⟩, ⟨by decide, by decide, rfl, rfl, by simp [wt, inRange], ?_, rt_all _ _⟩, trivial⟩
  · simp only [encode, encString, Bool.false_eq_true, Bool.false_and, if_false, if_true, List.length_append, List.length_cons, List.length_nil]
    omega
  · simp [encode, encInt_length]

/-! ### the model's bytes are the reference (Kafka protocol guide) bytes -/

theorem be_eq_unsignedBE (k n : Nat) : be k n = Spec.unsignedBE k n := by
  induction k generalizing n with
  | zero => simp [be, Spec.unsignedBE]
  | succ k ih =>
    rw [be, ih]
    simp only [Spec.unsignedBE, List.range_succ, List.map_append, List.map_cons, List.map_nil]
    congr 1
    · apply List.map_congr_left
      intro i hi
      have hi' : i < k := List.mem_range.1 hi
      simp only [Spec.byteAt]
      congr 1
      have : k + 1 - 1 - i = (k - 1 - i) + 1 := by omega
      rw [this, Nat.pow_succ, Nat.mul_comm, ← Nat.div_div_eq_div_mul]
    · simp [Spec.byteAt]

theorem toU_eq_twos (k : Nat) (i : Int) (lo : -(2 ^ (8 * k) : Nat) ≤ i) (hi : i < (2 ^ (8 * k) : Nat)) :
    toU (8 * k) i = Spec.twos k i % 2 ^ (8 * k) := by
  unfold toU Spec.twos
  generalize (2 ^ (8 * k) : Nat) = m at *
  have hm : (0 : Int) < (m : Int) := by omega
  split
  · rename_i hneg
    have h1 : i % (m : Int) = i + m := by
      have := Int.add_mul_emod_self_left i (m : Int) 1
      rw [Int.mul_one] at this
      rw [← this]; exact Int.emod_eq_of_lt (by omega) (by omega)
    rw [h1]
    have : (i + (m : Int)).toNat < m := by omega
    rw [Nat.mod_eq_of_lt this]
  · rename_i hpos
    have h1 : i % (m : Int) = i := Int.emod_eq_of_lt (by omega) hi
    rw [h1]
    have : i.toNat < m := by omega
    rw [Nat.mod_eq_of_lt this]

theorem uvarint_eq_uvar (n : Nat) : uvarint n = Spec.uvar n := by
  induction n using Nat.strongRecOn with
  | _ n ih =>
    unfold uvarint Spec.uvar
    split
    · rfl
    · rw [ih (n / 128) (by omega), Nat.add_comm]

theorem encInt_eq_sint (k : Nat) (i : Int) (lo : -(2 ^ (8 * k) : Nat) ≤ i) (hi : i < (2 ^ (8 * k) : Nat)) :
    encInt k i = Spec.sint k i := by
  unfold encInt Spec.sint
  rw [be_eq_unsignedBE, toU_eq_twos k i lo hi]

theorem encInt_eq_sint_of_inRange (k : Nat) (hk : 0 < k) (i : Int) (h : inRange (8 * k) i = true) :
    encInt k i = Spec.sint k i := by
  simp only [inRange, Bool.and_eq_true, decide_eq_true_eq] at h
  have : (2 ^ (8 * k) : Nat) = 2 * 2 ^ (8 * k - 1) := by
    have : 8 * k = (8 * k - 1) + 1 := by omega
    rw [this, Nat.pow_succ]; simp; omega
  apply encInt_eq_sint <;> omega

/-- the model's encoder agrees with the reference encoder on one type -/
def ES (t : Ty) : Prop := ∀ v, wt t v = true → encode t v = Spec.encode t v

theorem es_int (t : Ty) (k : Nat) (hk : 0 < k)
    (h1 : ∀ i, encode t (.int i) = encInt k i) (h2 : ∀ i, Spec.encode t (.int i) = Spec.sint k i)
    (hwt : ∀ v, wt t v = true → ∃ i, v = .int i ∧ inRange (8 * k) i = true) : ES t := by
  intro v hv
  obtain ⟨i, rfl, hi⟩ := hwt v hv
  rw [h1, h2, encInt_eq_sint_of_inRange k hk i hi]

theorem es_string (c n : Bool) : ES (.string c n) := by
  intro v hv
  cases v <;> simp [wt] at hv
  rename_i s
  simp only [encode, Spec.encode, encString, Spec.kString]
  cases c <;> cases hn : (n && s.isEmpty) <;> simp only [Bool.false_eq_true, if_false, if_true] at hv ⊢
  · rw [encInt_eq_sint 2 _ (by omega) (by omega)]
  · rw [encInt_eq_sint 2 _ (by omega) (by omega)]
  · rw [uvarint_eq_uvar]
  · rw [uvarint_eq_uvar]

theorem es_bytes (c n : Bool) : ES (.bytes c n) := by
  intro v hv
  cases v <;> simp [wt] at hv
  rename_i b
  simp only [encode, Spec.encode, encBytes, Spec.kBytes]
  cases b <;> cases n <;> cases c <;> simp only [Bool.false_eq_true, if_false, if_true, Option.getD] at hv ⊢ <;>
    first
    | rw [uvarint_eq_uvar]
    | rw [encInt_eq_sint 4 _ (by omega) (by omega)]

theorem es_elems (t : Ty) (ht : ES t) : ∀ vs, wtElems t vs = true → encodeElems t vs = Spec.encodeAll t vs
  | [], _ => by simp [encodeElems, Spec.encodeAll]
  | v :: vs, h => by
    simp only [wtElems, Bool.and_eq_true] at h
    simp [encodeElems, Spec.encodeAll, ht v h.1, es_elems t ht vs h.2]

theorem es_array (c n : Bool) (t : Ty) (ht : ES t) : ES (.array c n t) := by
  intro v hv
  cases v <;> simp [wt] at hv
  rename_i a
  have he := es_elems t ht _ hv.2
  cases a <;> cases n <;> cases c <;>
    simp only [encode, Spec.encode, encArrayLen, Bool.false_eq_true, if_false, if_true, Option.getD] at hv he ⊢ <;>
    rw [he] <;>
    first
    | (rw [uvarint_eq_uvar]; try simp [Spec.encodeAll])
    | (rw [encInt_eq_sint 4 _ (by omega) (by omega)]; try simp [Spec.encodeAll])

theorem es_fields : ∀ (fs : List Ty), (∀ t ∈ fs, ES t) → ∀ vs, wtFields fs vs = true →
    encodeFields fs vs = Spec.encodeFields fs vs
  | [], _, vs, _ => by cases vs <;> simp [encodeFields, Spec.encodeFields]
  | t :: ts, h, vs, hv => by
    cases vs with
    | nil => simp [wtFields] at hv
    | cons v vs =>
      simp only [wtFields, Bool.and_eq_true] at hv
      simp only [encodeFields, Spec.encodeFields]
      rw [h t (by simp) v hv.1, es_fields ts (fun t' ht' => h t' (by simp [ht'])) vs hv.2]

theorem countTagged_eq : ∀ ts, countTagged ts = Spec.numTagged ts
  | [] => rfl
  | t :: ts => by simp [countTagged, Spec.numTagged, countTagged_eq ts]

theorem spec_encodeTagged_markers : ∀ (ids : List Int) (ts : List Ty) (tvs : List Val), ts.all isMarker = true →
    Spec.encodeTagged ids ts tvs = []
  | [], _, _, _ => by simp [Spec.encodeTagged]
  | _ :: _, [], _, _ => by simp [Spec.encodeTagged]
  | _ :: _, _ :: _, [], _ => by simp [Spec.encodeTagged]
  | i :: is, t :: ts, v :: vs, h => by
    simp only [List.all_cons, Bool.and_eq_true] at h
    simp [Spec.encodeTagged, marker_zeroSize t h.1, spec_encodeTagged_markers is ts vs h.2]

theorem es_struct (flex : Bool) (fs : List Ty) (ids : List Int) (ts : List Ty) (hfs : ∀ t ∈ fs, ES t)
    (hm : ts.all isMarker = true) : ES (.struct flex fs ids ts) := by
  intro v hv
  cases v <;> simp [wt] at hv
  rename_i vs tvs
  simp only [encode, Spec.encode]
  rw [es_fields fs hfs vs hv.1, countTagged_eq, uvarint_eq_uvar, encodeTagged_markers ids ts tvs hm,
    spec_encodeTagged_markers ids ts tvs hm]

mutual
theorem es_all (t : Ty) (hwf : t.wf = true) : ES t :=
  match t, hwf with
  | .bool, _ => fun v hv => by cases v <;> simp [wt] at hv; simp [encode, Spec.encode, encBool]
  | .int8, _ => es_int _ 1 (by decide) (fun _ => by simp [encode]) (fun _ => by simp [Spec.encode])
      (fun v h => by cases v <;> simp [wt] at h; exact ⟨_, rfl, h⟩)
  | .int16, _ => es_int _ 2 (by decide) (fun _ => by simp [encode]) (fun _ => by simp [Spec.encode])
      (fun v h => by cases v <;> simp [wt] at h; exact ⟨_, rfl, h⟩)
  | .int32, _ => es_int _ 4 (by decide) (fun _ => by simp [encode]) (fun _ => by simp [Spec.encode])
      (fun v h => by cases v <;> simp [wt] at h; exact ⟨_, rfl, h⟩)
  | .int64, _ => es_int _ 8 (by decide) (fun _ => by simp [encode]) (fun _ => by simp [Spec.encode])
      (fun v h => by cases v <;> simp [wt] at h; exact ⟨_, rfl, h⟩)
  | .float64, _ => fun v hv => by
      cases v <;> simp [wt] at hv
      simp only [encode, Spec.encode]
      exact encInt_eq_sint 8 _ (by omega) (by simpa using hv.2)
  | .string c n, _ => es_string c n
  | .bytes c n, _ => es_bytes c n
  | .array c n t, h => es_array c n t (es_all t (by simp only [Ty.wf, Bool.and_eq_true] at h; exact h.2))
  | .struct flex fs ids ts, h =>
    es_struct flex fs ids ts (es_list fs (by simp only [Ty.wf, Bool.and_eq_true] at h; exact h.1.1.1))
      (by simp only [Ty.wf, Bool.and_eq_true] at h; exact h.1.2)
  | .unit flex, _ => fun v _ => by simp [encode, Spec.encode, uvarint_eq_uvar]
  | .records, _ => fun v hv => by
      cases v with
      | records p => cases p with
        | none => simp [wt] at hv
        | some s =>
          simp [wt] at hv
          simp only [encode, Spec.encode]
          rw [encInt_eq_sint 4 _ (by omega) (by omega)]
      | _ => simp [wt] at hv
termination_by structural t
theorem es_list (ts : List Ty) (hwf : wfList ts = true) : ∀ t ∈ ts, ES t :=
  match ts, hwf with
  | [], _ => fun _ h => by simp at h
  | t :: ts, hwf => fun t' h => by
    simp only [wfList, Bool.and_eq_true] at hwf
    rcases List.mem_cons.1 h with h | h
    · exact h ▸ es_all t hwf.1
    · exact es_list ts hwf.2 t' h
termination_by structural ts
end

/-- **The model's bytes are the canonical Kafka encoding** (protocol-guide reference encoder) of the value
under the resolved schema, for every well-formed schema type and well-typed value. -/
theorem encode_eq_spec (t : Ty) (v : Val) (hwf : t.wf = true) (hwt : wt t v = true) :
    encode t v = Spec.encode t v := es_all t hwf v hwt

/-- … and so is the whole response frame -/
theorem frameResponse_eq_spec (flex : Bool) (corr : Int) (t : Ty) (v : Val) (hwf : t.wf = true) (hwt : wt t v = true)
    (hc : inRange 32 corr = true) (hsz : (frameResponse flex corr t v).length - 4 < 2 ^ 31) :
    frameResponse flex corr t v = Spec.frameResponse flex corr (Spec.encode t v) := by
  have hc' : inRange (8 * 4) corr = true := hc
  simp only [frameResponse, List.length_append, be_length] at hsz
  simp only [frameResponse, Spec.frameResponse, Spec.frame]
  rw [← encode_eq_spec t v hwf hwt, ← uvarint_eq_uvar, ← encInt_eq_sint_of_inRange 4 (by decide) corr hc']
  congr 1
  simp only [List.length_append] at hsz ⊢
  rw [be_eq_encInt 4 _ (by omega)]
  exact encInt_eq_sint 4 _ (by omega) (by omega)

/-! ### the buffers the decoder builds while a value arrives (decodeElems / read) -/

/-- **a decoded array has exactly the announced number of elements**: `decodeElems` of the current source allocates
`arrayInit n` slots and regrows by `arrayGrow` while elements keep arriving; when all `n` elements have arrived the array in use
has `n` slots — not the next power-of-two multiple of the chunk (the model's `decodeElems` returns `n` values; this is the part of
the real function the model abstracts, regenerated from the source) -/
theorem array_decodes_to_announced_length (n : Nat) :
    KV.Growth.finalCap KV.GrowthSource.arrayPolicy n n = n :=
  KV.Growth.finalCap_complete _ _ KV.GrowthSource.arrayPolicy_ok n

/-- the same for strings and byte sequences read by `(*decoder).read` -/
theorem bytes_decode_to_announced_length (n : Nat) :
    KV.Growth.finalCap KV.GrowthSource.readPolicy n n = n :=
  KV.Growth.finalCap_complete _ _ KV.GrowthSource.readPolicy_ok n

/-! ### the version in the request header -/

/-- **a version no higher than the broker advertised** (and no lower, and within the library's own range) whenever the two
ranges overlap: `ApiKey.SelectVersion`, the function `transport.go` stamps every request of the Transport/Client path with
(`Gen.Routing.selectVersionSrc`, regenerated statement by statement from protocol/protocol.go) -/
theorem request_version_within_advertised (cmin cmax bmin bmax : Int)
    (hc : cmin ≤ cmax) (hb : bmin ≤ bmax) (hov : cmin ≤ bmax ∧ bmin ≤ cmax) :
    KV.Gen.Routing.selectVersionSrc cmin cmax bmin bmax ≤ bmax ∧ bmin ≤ KV.Gen.Routing.selectVersionSrc cmin cmax bmin bmax ∧
      cmin ≤ KV.Gen.Routing.selectVersionSrc cmin cmax bmin bmax ∧ KV.Gen.Routing.selectVersionSrc cmin cmax bmin bmax ≤ cmax := by
  simp only [KV.Gen.Routing.selectVersionSrc]
  (repeat' split) <;> omega

/-- without a common version the library's own bound nearest to the broker's range is used (the broker will refuse it; there is
nothing canonical to send) -/
theorem request_version_disjoint (cmin cmax bmin bmax : Int) (hc : cmin ≤ cmax) (h : bmax < cmin) :
    KV.Gen.Routing.selectVersionSrc cmin cmax bmin bmax = cmin := by
  simp only [KV.Gen.Routing.selectVersionSrc]
  (repeat' split) <;> omega

/-- the model skips an unknown tagged field by reading its `size` bytes (`tagLookup = none → readLen`, theorem `skip_unknown_tags`);
so does the code: fact G11, re-extracted — the unknown branch of `structDecodeFuncOf` is `d.read(size)`, and `decoder.discard`, whose
fallback for readers without a `Discard` method drains the frame, is only asked for the whole rest of the frame.  This is what makes
the result independent of the KIND of io.Reader handed to ReadResponse / ReadRequest (the correspondence decodes through three kinds) -/
theorem source_unknown_tags_are_read : KV.Gen.unknownTagsRead = true := by decide

/-- **the body of a Produce request is in the record format of the negotiated version**: `Prepare` (called by
protocol.Conn.RoundTrip with the version that goes into the header — C12's `prepare_uses_request_version`) picks message sets
(magic 1) below v3 and record batches (magic 2) from v3 on, which is what Kafka's Produce layout of that version carries.
`Gen.Routing.produceRecordVersion` is the symbolic execution of protocol/produce (*Request).Prepare by go/extract/routing. -/
theorem produce_body_format_for_version (v : Int) :
    KV.Gen.Routing.produceRecordVersion v = (if v < 3 then 1 else 2) := by
  unfold KV.Gen.Routing.produceRecordVersion
  (repeat' split) <;> omega

end KV.C04
