/-
Props/C13.lean — property C13: partition balancers return offered partitions and match the
reference hashes.  Property theorems only; helper lemmas live in Lemmas/.

Model: Model/Balancer.lean (follows balancer.go), constants extracted into Gen/BalancerConsts.lean.
Reference side: Spec/Partitioners.lean.
-/
import KafkaVerif.Lemmas.Murmur2
import KafkaVerif.Lemmas.BalancerRange
import KafkaVerif.Lemmas.RoundRobin
import KafkaVerif.Lemmas.LeastBytes
import KafkaVerif.Gen.BalancerConsts

namespace KV.C13
open KV KV.Balancer

/-- the partition list a Writer supplies for `n` partitions -/
def iota (n : Nat) : List Int := (List.range n).map Int.ofNat

/-! ## 0. The constants extracted from balancer.go are the published ones -/

theorem consts_are_java : toSpecConsts Gen.balancerConsts = Spec.javaConsts := by decide
theorem mask_is_toPositive : Gen.balancerConsts.mask = 0x7fffffff ∧ Gen.refHashMask = 0x7fffffff := by decide

/-- Atomicity facts (extracted on every run): `RoundRobin.balance` and `LeastBytes.Balance` run entirely
under their mutex, so concurrent calls are serialised and the call-sequence theorems of §6/§7 apply to
every interleaving.  (The mutex semantics itself is part of the trusted base.) -/
theorem balance_bodies_atomic : Gen.rrBalanceAtomic = true ∧ Gen.lbBalanceAtomic = true := by decide

/-! ## 1. What the Writer offers: `loadCachedPartitions` always returns `[0, …, n-1]` -/

theorem loadCached_iota (cache : Option Nat) (n : Nat) : (loadCachedPartitions cache n).2 = iota n := by
  unfold loadCachedPartitions iota
  have key : ∀ c, n ≤ c → ((List.range c).map Int.ofNat).take n = (List.range n).map Int.ofNat := by
    intro c h
    rw [← List.map_take, List.take_range, Nat.min_eq_left h]
  have hbig : n ≤ (n / 128 + 1) * 128 := by omega
  cases cache with
  | none => exact key _ hbig
  | some c =>
    simp only
    split
    · exact key _ (by omega)
    · exact key _ hbig

/-- the cache invariant "holds `[0..c)`" is preserved: the new cache is again of that shape and large enough -/
theorem loadCached_cache (cache : Option Nat) (n : Nat) : ∃ c, (loadCachedPartitions cache n).1 = some c ∧ n ≤ c := by
  unfold loadCachedPartitions
  cases cache with
  | none => exact ⟨_, rfl, by omega⟩
  | some c =>
    simp only
    split
    · exact ⟨c, rfl, by omega⟩
    · exact ⟨_, rfl, by omega⟩

/-! ## 2. murmur2: the Go loop is MurmurHash2 as used by the Java client -/

theorem murmur2Go_eq_java (key : Bytes) : murmur2Go Gen.balancerConsts key = Spec.murmur2 key := by
  rw [murmur2Go_eq_with, consts_are_java]; rfl

/-! ## 3. Every key-hashing balancer returns an offered partition -/

theorem murmur2_offered (c : MConsts) (key : Option Bytes) (consistent : Bool) (pick : Nat) (parts : List Int)
    (h0 : parts ≠ []) (h : parts.length < 4294967296) :
    ∃ p, murmur2Balance c consistent pick key parts = some p ∧ p ∈ parts := by
  have hpos : 0 < parts.length := List.length_pos_iff.mpr h0
  unfold murmur2Balance
  split
  · unfold randomBalance
    simp only [Nat.ne_of_gt hpos, if_false]
    exact getElem?_mem_of_lt parts _ (Nat.mod_lt _ hpos)
  · simp only [ofNat_ne_zero _ hpos h, if_false]
    exact getElem?_mem_of_lt parts _ (u32_mod_lt _ _ hpos h)

theorem crc32_offered (key : Option Bytes) (consistent : Bool) (pick : Nat) (parts : List Int)
    (h0 : parts ≠ []) (h : parts.length < 4294967296) :
    ∃ p, crc32Balance consistent pick key parts = some p ∧ p ∈ parts := by
  have hpos : 0 < parts.length := List.length_pos_iff.mpr h0
  unfold crc32Balance
  split
  · unfold randomBalance
    simp only [Nat.ne_of_gt hpos, if_false]
    exact getElem?_mem_of_lt parts _ (Nat.mod_lt _ hpos)
  · simp only [ofNat_ne_zero _ hpos h, if_false]
    exact getElem?_mem_of_lt parts _ (u32_mod_lt _ _ hpos h)

theorem random_offered (pick : Nat) (parts : List Int) (h0 : parts ≠ []) :
    ∃ p, randomBalance pick parts = some p ∧ p ∈ parts := by
  have hpos : 0 < parts.length := List.length_pos_iff.mpr h0
  unfold randomBalance
  simp only [Nat.ne_of_gt hpos, if_false]
  exact getElem?_mem_of_lt parts _ (Nat.mod_lt _ hpos)

/-- `Hash` returns an *index*; it is in `[0, n)` for every hash value and every `1 ≤ n < 2³¹`. -/
theorem hashIndex_range (sum : UInt32) (n : Nat) (h0 : 0 < n) (h : n < 2147483648) :
    0 ≤ hashIndex sum n ∧ hashIndex sum n < n := by
  unfold hashIndex
  rw [lenInt32_small n h]
  exact abs_tmod_range _ _ (by omega)

theorem refHashIndex_range (mask sum : UInt32) (n : Nat) (h0 : 0 < n) (h : n < 2147483648) :
    0 ≤ refHashIndex mask sum n ∧ refHashIndex mask sum n < n := by
  unfold refHashIndex
  rw [lenInt32_small n h]
  constructor
  · exact Int.tmod_nonneg _ (by omega)
  · exact Int.tmod_lt_of_pos _ (by omega)

theorem mem_iota (n : Nat) (x : Int) (h0 : 0 ≤ x) (h : x < n) : x ∈ iota n := by
  unfold iota
  rw [List.mem_map]
  exact ⟨x.toNat, List.mem_range.mpr (by omega), by simp; omega⟩

/-- with the partition list the Writer supplies, `Hash` (non-nil key) returns an offered partition -/
theorem hash_offered (rr : RoundRobin) (key : Bytes) (n : Nat) (h0 : 0 < n) (h : n < 2147483648) :
    ∃ p, (hashBalance rr (some key) (iota n)).2 = some p ∧ p ∈ iota n := by
  unfold hashBalance
  have hl : (iota n).length = n := by simp [iota]
  simp only [hl, Nat.ne_of_gt h0, if_false]
  have := hashIndex_range (fnv1a32 key) n h0 h
  exact ⟨_, rfl, mem_iota n _ this.1 this.2⟩

theorem refhash_offered (mask : UInt32) (pick : Nat) (key : Option Bytes) (n : Nat) (h0 : 0 < n) (h : n < 2147483648) :
    ∃ p, refHashBalance mask pick key (iota n) = some p ∧ p ∈ iota n := by
  have hl : (iota n).length = n := by simp [iota]
  have hne : iota n ≠ [] := by intro e; rw [e] at hl; simp at hl; omega
  unfold refHashBalance
  cases key with
  | none => exact random_offered pick _ hne
  | some k =>
    simp only [hl, Nat.ne_of_gt h0, if_false]
    have := refHashIndex_range mask (fnv1a32 k) n h0 h
    exact ⟨_, rfl, mem_iota n _ this.1 this.2⟩

/-! ## 4. Agreement with the reference partitioners (formulas and nil/empty-key rules) -/

/-- Java default partitioner: `toPositive(murmur2(key)) % n`; nil key is not hashed unless Consistent. -/
theorem murmur2_eq_java_partitioner (key : Bytes) (consistent : Bool) (pick : Nat) (n : Nat)
    (h0 : 0 < n) (h : n < 4294967296) :
    murmur2Balance Gen.balancerConsts consistent pick (some key) (iota n)
      = some (Int.ofNat (Spec.javaPartition (Spec.murmur2 key).toNat n)) := by
  unfold murmur2Balance
  have hl : (iota n).length = n := by simp [iota]
  have hk : ¬ ((some key : Option Bytes) = none ∧ (!consistent) = true) := by simp
  simp only [hk, if_false, hl, ofNat_ne_zero n h0 h, keyBytes]
  rw [u32_mod_toNat _ n h, mask_is_toPositive.1, mask31_toNat, murmur2Go_eq_java]
  unfold Spec.javaPartition Spec.two31 iota
  rw [List.getElem?_map, List.getElem?_range (Nat.mod_lt _ h0)]
  rfl

theorem murmur2_nil_rule (pick : Nat) (parts : List Int) :
    murmur2Balance Gen.balancerConsts false pick none parts = randomBalance pick parts
    ∧ murmur2Balance Gen.balancerConsts true pick none parts
        = murmur2Balance Gen.balancerConsts true pick (some []) parts := by
  constructor
  · simp [murmur2Balance]
  · simp [murmur2Balance, keyBytes]

/-- librdkafka `consistent`: `crc32(key) % n` -/
theorem crc32_eq_librdkafka (key : Bytes) (hk : key ≠ []) (consistent : Bool) (pick : Nat) (n : Nat)
    (h0 : 0 < n) (h : n < 4294967296) :
    crc32Balance consistent pick (some key) (iota n)
      = some (Int.ofNat (Spec.rdkafkaConsistent (crc32IEEE key).toNat n)) := by
  unfold crc32Balance
  have hl : (iota n).length = n := by simp [iota]
  have hkl : keyLen (some key) ≠ 0 := by
    simp only [keyLen]; intro e; exact hk (List.length_eq_zero_iff.mp e)
  have hc : ¬ (keyLen (some key) = 0 ∧ (!consistent) = true) := fun h => hkl h.1
  simp only [hc, if_false, hl, ofNat_ne_zero n h0 h, keyBytes]
  rw [u32_mod_toNat _ n h]
  unfold Spec.rdkafkaConsistent iota
  rw [List.getElem?_map, List.getElem?_range (Nat.mod_lt _ h0)]
  rfl

/-- librdkafka `consistent_random`: NULL *and* empty keys are random; `consistent` hashes them alike -/
theorem crc32_empty_rule (pick : Nat) (parts : List Int) :
    crc32Balance false pick none parts = randomBalance pick parts
    ∧ crc32Balance false pick (some []) parts = randomBalance pick parts
    ∧ crc32Balance true pick none parts = crc32Balance true pick (some []) parts := by
  refine ⟨by simp [crc32Balance, keyLen], by simp [crc32Balance, keyLen], by simp [crc32Balance, keyLen, keyBytes]⟩

/-- Sarama `hashPartitioner` -/
theorem hash_eq_sarama (sum : UInt32) (n : Nat) (h : n < 2147483648) :
    hashIndex sum n = Spec.saramaHash sum.toNat n := by
  unfold hashIndex Spec.saramaHash
  rw [lenInt32_small n h, toInt32_eq_spec]

/-- Sarama `referenceHashPartitioner` -/
theorem refhash_eq_sarama (sum : UInt32) (n : Nat) (h : n < 2147483648) :
    refHashIndex Gen.refHashMask sum n = Int.ofNat (Spec.saramaRefHash sum.toNat n) := by
  unfold refHashIndex Spec.saramaRefHash Spec.two31
  rw [lenInt32_small n h, mask_is_toPositive.2, mask31_toNat]
  simp
  rfl

/-- nil-key rules of the FNV balancers: `Hash` → round robin, `ReferenceHash` → random -/
theorem hash_nil_rule (rr : RoundRobin) (mask : UInt32) (pick : Nat) (parts : List Int) :
    hashBalance rr none parts = rr.balance parts ∧ refHashBalance mask pick none parts = randomBalance pick parts :=
  ⟨rfl, rfl⟩

/-! ## 5. Purity: the hashed results do not depend on balancer state or on the random source -/

theorem hashed_pure (c : MConsts) (key : Bytes) (parts : List Int) (rr₁ rr₂ : RoundRobin) (p₁ p₂ : Nat)
    (cons₁ cons₂ : Bool) (mask : UInt32) (hk : key ≠ []) :
    (hashBalance rr₁ (some key) parts).2 = (hashBalance rr₂ (some key) parts).2
    ∧ refHashBalance mask p₁ (some key) parts = refHashBalance mask p₂ (some key) parts
    ∧ crc32Balance cons₁ p₁ (some key) parts = crc32Balance cons₂ p₂ (some key) parts
    ∧ murmur2Balance c cons₁ p₁ (some key) parts = murmur2Balance c cons₂ p₂ (some key) parts := by
  have hkl : keyLen (some key) ≠ 0 := by
    simp only [keyLen]; intro e; exact hk (List.length_eq_zero_iff.mp e)
  refine ⟨by simp [hashBalance]; split <;> rfl, rfl, ?_, ?_⟩
  · simp [crc32Balance, hkl]
  · simp [murmur2Balance]

/-- A user-supplied Hasher: the result never depends on what the hasher processed before (it is Reset on every
call — extracted fact `hasher_reset_unconditional`), and with `fnv.New32a()` it is the default result. -/
theorem custom_hasher_pure {σ : Type} (h : Hasher σ) (st₁ st₂ : σ) (key : Bytes) (n : Nat) (mask : UInt32) :
    (hashBalanceWith h st₁ key n).2 = (hashBalanceWith h st₂ key n).2
    ∧ (refHashBalanceWith h mask st₁ key n).2 = (refHashBalanceWith h mask st₂ key n).2 := ⟨rfl, rfl⟩

theorem custom_fnv_eq_default (st : UInt32) (key : Bytes) (n : Nat) (mask : UInt32) :
    (hashBalanceWith fnvHasher st key n).2 = hashIndex (fnv1a32 key) n
    ∧ (refHashBalanceWith fnvHasher mask st key n).2 = refHashIndex mask (fnv1a32 key) n := ⟨rfl, rfl⟩

theorem hasher_reset_unconditional : Gen.hashResetsFirst = true ∧ Gen.refHashResetsFirst = true := by decide

/-- for EVERY 32-bit sum a (custom) hasher can return, incl. 0x80000000 where negating first would overflow -/
theorem hashIndex_minInt32 (n : Nat) (h0 : 0 < n) (h : n < 2147483648) :
    0 ≤ hashIndex 0x80000000 n ∧ hashIndex 0x80000000 n < n := hashIndex_range _ n h0 h

example : hashIndex 0x80000000 3 = 2 ∧ hashIndex 0xFFFFFFFF 3 = 1 ∧ refHashIndex 0x7fffffff 0x80000000 3 = 0 := by decide

/-! ## 6. RoundRobin -/

/-- Partial (D10): for the first 2³² calls of a RoundRobin with `1 ≤ ChunkSize < 2³²`, call number `j`
(from 0) returns `parts[(j / ChunkSize) % |parts|]`: runs of ChunkSize calls on one partition, cycling
through the list in order. -/
theorem roundRobin_cycle_partial (parts : List Int) (hp : parts ≠ []) (ch : Int) (h1 : 1 ≤ ch) (h2 : ch < 4294967296)
    (n : Nat) (hn : n ≤ 4294967296) :
    (RoundRobin.run ⟨ch, 0⟩ parts n).2 = (List.range n).map (fun j => parts[(j / ch.toNat) % parts.length]?) := by
  have := rr_run parts hp ch h1 h2 n 0 ⟨ch, 0⟩ rfl (fun _ => rfl) (by omega)
  simpa using this

/-- every RoundRobin call returns an offered partition (any counter, any valid chunk size) -/
theorem roundRobin_offered (rr : RoundRobin) (parts : List Int) (hp : parts ≠ [])
    (h1 : 1 ≤ rr.chunkSize) (h2 : rr.chunkSize < 4294967296) :
    ∃ p, (rr.balance parts).2 = some p ∧ p ∈ parts := by
  rw [rr_single rr parts h1 h2 hp]
  exact getElem?_mem_of_lt parts _ (Nat.mod_lt _ (List.length_pos_iff.mpr hp))

/-- `ChunkSize < 1` behaves as `ChunkSize = 1` -/
theorem roundRobin_chunk_default (c : Int) (hc : c < 1) (ctr : UInt32) (parts : List Int) :
    (RoundRobin.balance ⟨c, ctr⟩ parts).2 = (RoundRobin.balance ⟨1, ctr⟩ parts).2 := by
  simp [RoundRobin.balance, hc]

/-- D10: the full statement fails at the 2³² wrap — with 3 partitions and ChunkSize 1 two consecutive
calls return the same partition. -/
theorem roundRobin_wrap_counterexample :
    (RoundRobin.run ⟨1, 4294967295⟩ [0, 1, 2] 2).2 = [some 0, some 0] := by decide

/-! ## 7. LeastBytes -/

/-- states reachable from a fresh `LeastBytes` by calls with a fixed partition list, with the history
of (returned partition, message size), most recent first -/
inductive LBReach (parts : List Int) : LeastBytes → List (Int × Nat) → Prop
  | init : LBReach parts ⟨[]⟩ []
  | step (lb : LeastBytes) (hist : List (Int × Nat)) (sz : Nat) (p : Int) :
      LBReach parts lb hist → (lb.balance sz parts).2 = some p →
      LBReach parts (lb.balance sz parts).1 ((p, sz) :: hist)

theorem balance_fresh (parts : List Int) (hp : parts ≠ []) (hnd : parts.Nodup) (sz : Nat) :
    (⟨[]⟩ : LeastBytes).balance sz parts = (⟨makeCounters parts⟩ : LeastBytes).balance sz parts := by
  have hlen := (makeCounters_inv parts hnd).len
  have hpos : 0 < parts.length := List.length_pos_iff.mpr hp
  simp only at hlen
  unfold LeastBytes.balance
  have h1 : parts.length ≠ ([] : List LBCounter).length := by simp; omega
  have h2 : ¬ (parts.length ≠ (makeCounters parts).length) := by omega
  rw [if_pos h1, if_neg h2]

theorem lbReach_inv (parts : List Int) (hp : parts ≠ []) (hnd : parts.Nodup) (lb : LeastBytes) (hist : List (Int × Nat))
    (hr : LBReach parts lb hist) : (lb = ⟨[]⟩ ∧ hist = []) ∨ LBInv lb parts hist := by
  induction hr with
  | init => exact Or.inl ⟨rfl, rfl⟩
  | step lb hist sz p _ hres ih =>
    right
    cases ih with
    | inl h =>
      obtain ⟨h1, h2⟩ := h
      subst h1; subst h2
      rw [balance_fresh parts hp hnd] at hres ⊢
      obtain ⟨q, hq, _, _, hinv⟩ := lb_step ⟨makeCounters parts⟩ parts [] sz hp (makeCounters_inv parts hnd)
      rw [hq] at hres; cases hres; exact hinv
    | inr h =>
      obtain ⟨q, hq, _, _, hinv⟩ := lb_step lb parts hist sz hp h
      rw [hq] at hres; cases hres; exact hinv

/-- In every reachable state, the next call returns an offered partition whose routed-bytes total is
minimal among all offered partitions; (with `lbReach_inv`) every counter equals the bytes routed. -/
theorem leastBytes_min (parts : List Int) (hp : parts ≠ []) (hnd : parts.Nodup) (lb : LeastBytes)
    (hist : List (Int × Nat)) (hr : LBReach parts lb hist) (sz : Nat) :
    ∃ p, (lb.balance sz parts).2 = some p ∧ p ∈ parts ∧ ∀ q, q ∈ parts → routed hist p ≤ routed hist q := by
  cases lbReach_inv parts hp hnd lb hist hr with
  | inl h =>
    obtain ⟨h1, h2⟩ := h
    subst h1; subst h2
    rw [balance_fresh parts hp hnd]
    obtain ⟨q, hq, hm, hmin, _⟩ := lb_step ⟨makeCounters parts⟩ parts [] sz hp (makeCounters_inv parts hnd)
    exact ⟨q, hq, hm, hmin⟩
  | inr h =>
    obtain ⟨q, hq, hm, hmin, _⟩ := lb_step lb parts hist sz hp h
    exact ⟨q, hq, hm, hmin⟩

/-! ## 8. Non-vacuity: concrete values meet the hypotheses and exercise the definitions -/

example : (iota 3) ≠ [] ∧ (iota 3).length < 4294967296 ∧ (iota 3).Nodup := by decide
example : murmur2Balance Gen.balancerConsts false 0 (some [0x6b, 0x61, 0x66, 0x6b, 0x61]) (iota 7) = some 3 := by decide
example : (RoundRobin.run ⟨2, 0⟩ [10, 20, 30] 7).2 = [some 10, some 10, some 20, some 20, some 30, some 30, some 10] := by decide
example : ((⟨[]⟩ : LeastBytes).balance 5 [2, 0, 1]).2 = some 0 := by decide
example : LBReach [2, 0, 1] ((⟨[]⟩ : LeastBytes).balance 5 [2, 0, 1]).1 [(0, 5)] :=
  LBReach.step ⟨[]⟩ [] 5 0 LBReach.init (by decide)

end KV.C13
