/-
Props/C13.lean — property C13: partition balancers return offered partitions and match the
reference hashes.  Property theorems only; helper lemmas live in Lemmas/.

Model: Model/Balancer.lean (follows balancer.go), constants extracted into Gen/BalancerConsts.lean.
Reference side: Spec/Partitioners.lean.
-/
import KafkaVerif.Lemmas.Murmur2
import KafkaVerif.Lemmas.BalancerRange
import KafkaVerif.Lemmas.RoundRobin
import KafkaVerif.Lemmas.LeastBytes
import KafkaVerif.Lemmas.BalancerPool
import KafkaVerif.Gen.BalancerConsts

namespace KV.C13
open KV KV.Balancer

/-- the partition list a Writer supplies for `n` partitions -/
def iota (n : Nat) : List Int := (List.range n).map Int.ofNat

/-! ## 0. The constants extracted from balancer.go are the published ones -/

theorem consts_are_java : toSpecConsts Gen.balancerConsts = Spec.javaConsts := by decide
theorem mask_is_toPositive : Gen.balancerConsts.mask = 0x7fffffff ∧ Gen.refHashMask = 0x7fffffff := by decide

/-- Atomicity facts (extracted on every run): `RoundRobin.balance` and `LeastBytes.Balance` run entirely
under their mutex, so concurrent calls are serialised and the call-sequence theorems of §6/§7 apply to
every interleaving.  (The mutex semantics itself is part of the trusted base.) -/
theorem balance_bodies_atomic : Gen.rrBalanceAtomic = true ∧ Gen.lbBalanceAtomic = true := by decide

/-! ## 1. What the Writer offers: `loadCachedPartitions` always returns `[0, …, n-1]` -/

theorem loadCached_iota (cache : Option Nat) (n : Nat) : (loadCachedPartitions cache n).2 = iota n := by
  unfold loadCachedPartitions iota
  have key : ∀ c, n ≤ c → ((List.range c).map Int.ofNat).take n = (List.range n).map Int.ofNat := by
    intro c h
    rw [← List.map_take, List.take_range, Nat.min_eq_left h]
  have hbig : n ≤ (n / 128 + 1) * 128 := by omega
  cases cache with
  | none => exact key _ hbig
  | some c =>
    simp only
    split
    · exact key _ (by omega)
    · exact key _ hbig

/-- the cache invariant "holds `[0..c)`" is preserved: the new cache is again of that shape and large enough -/
theorem loadCached_cache (cache : Option Nat) (n : Nat) : ∃ c, (loadCachedPartitions cache n).1 = some c ∧ n ≤ c := by
  unfold loadCachedPartitions
  cases cache with
  | none => exact ⟨_, rfl, by omega⟩
  | some c =>
    simp only
    split
    · exact ⟨c, rfl, by omega⟩
    · exact ⟨_, rfl, by omega⟩

/-! ## 2. murmur2: the Go loop is MurmurHash2 as used by the Java client -/

theorem murmur2Go_eq_java (key : Bytes) : murmur2Go Gen.balancerConsts key = Spec.murmur2 key := by
  rw [murmur2Go_eq_with, consts_are_java]; rfl

/-! ## 3. Every key-hashing balancer returns an offered partition -/

theorem murmur2_offered (c : MConsts) (key : Option Bytes) (consistent : Bool) (pick : Nat) (parts : List Int)
    (h0 : parts ≠ []) (h : parts.length < 4294967296) :
    ∃ p, murmur2Balance c consistent pick key parts = some p ∧ p ∈ parts := by
  have hpos : 0 < parts.length := List.length_pos_iff.mpr h0
  unfold murmur2Balance
  split
  · unfold randomBalance
    simp only [Nat.ne_of_gt hpos, if_false]
    exact getElem?_mem_of_lt parts _ (Nat.mod_lt _ hpos)
  · simp only [ofNat_ne_zero _ hpos h, if_false]
    exact getElem?_mem_of_lt parts _ (u32_mod_lt _ _ hpos h)

theorem crc32_offered (key : Option Bytes) (consistent : Bool) (pick : Nat) (parts : List Int)
    (h0 : parts ≠ []) (h : parts.length < 4294967296) :
    ∃ p, crc32Balance consistent pick key parts = some p ∧ p ∈ parts := by
  have hpos : 0 < parts.length := List.length_pos_iff.mpr h0
  unfold crc32Balance
  split
  · unfold randomBalance
    simp only [Nat.ne_of_gt hpos, if_false]
    exact getElem?_mem_of_lt parts _ (Nat.mod_lt _ hpos)
  · simp only [ofNat_ne_zero _ hpos h, if_false]
    exact getElem?_mem_of_lt parts _ (u32_mod_lt _ _ hpos h)

theorem random_offered (pick : Nat) (parts : List Int) (h0 : parts ≠ []) :
    ∃ p, randomBalance pick parts = some p ∧ p ∈ parts := by
  have hpos : 0 < parts.length := List.length_pos_iff.mpr h0
  unfold randomBalance
  simp only [Nat.ne_of_gt hpos, if_false]
  exact getElem?_mem_of_lt parts _ (Nat.mod_lt _ hpos)

/-- `Hash` returns an *index*; it is in `[0, n)` for every hash value and every `1 ≤ n < 2³¹`. -/
theorem hashIndex_range (sum : UInt32) (n : Nat) (h0 : 0 < n) (h : n < 2147483648) :
    0 ≤ hashIndex sum n ∧ hashIndex sum n < n := by
  unfold hashIndex
  rw [lenInt32_small n h]
  exact abs_tmod_range _ _ (by omega)

theorem refHashIndex_range (mask sum : UInt32) (n : Nat) (h0 : 0 < n) (h : n < 2147483648) :
    0 ≤ refHashIndex mask sum n ∧ refHashIndex mask sum n < n := by
  unfold refHashIndex
  rw [lenInt32_small n h]
  constructor
  · exact Int.tmod_nonneg _ (by omega)
  · exact Int.tmod_lt_of_pos _ (by omega)

theorem mem_iota (n : Nat) (x : Int) (h0 : 0 ≤ x) (h : x < n) : x ∈ iota n := by
  unfold iota
  rw [List.mem_map]
  exact ⟨x.toNat, List.mem_range.mpr (by omega), by simp; omega⟩

/-- with the partition list the Writer supplies, `Hash` (non-nil key) returns an offered partition -/
theorem hash_offered (rr : RoundRobin) (key : Bytes) (n : Nat) (h0 : 0 < n) (h : n < 2147483648) :
    ∃ p, (hashBalance rr (some key) (iota n)).2 = some p ∧ p ∈ iota n := by
  unfold hashBalance
  have hl : (iota n).length = n := by simp [iota]
  simp only [hl, Nat.ne_of_gt h0, if_false]
  have := hashIndex_range (fnv1a32 key) n h0 h
  exact ⟨_, rfl, mem_iota n _ this.1 this.2⟩

theorem refhash_offered (mask : UInt32) (pick : Nat) (key : Option Bytes) (n : Nat) (h0 : 0 < n) (h : n < 2147483648) :
    ∃ p, refHashBalance mask pick key (iota n) = some p ∧ p ∈ iota n := by
  have hl : (iota n).length = n := by simp [iota]
  have hne : iota n ≠ [] := by intro e; rw [e] at hl; simp at hl; omega
  unfold refHashBalance
  cases key with
  | none => exact random_offered pick _ hne
  | some k =>
    simp only [hl, Nat.ne_of_gt h0, if_false]
    have := refHashIndex_range mask (fnv1a32 k) n h0 h
    exact ⟨_, rfl, mem_iota n _ this.1 this.2⟩

/-! ## 4. Agreement with the reference partitioners (formulas and nil/empty-key rules) -/

/-- Java default partitioner: `toPositive(murmur2(key)) % n`; nil key is not hashed unless Consistent. -/
theorem murmur2_eq_java_partitioner (key : Bytes) (consistent : Bool) (pick : Nat) (n : Nat)
    (h0 : 0 < n) (h : n < 4294967296) :
    murmur2Balance Gen.balancerConsts consistent pick (some key) (iota n)
      = some (Int.ofNat (Spec.javaPartition (Spec.murmur2 key).toNat n)) := by
  unfold murmur2Balance
  have hl : (iota n).length = n := by simp [iota]
  have hk : ¬ ((some key : Option Bytes) = none ∧ (!consistent) = true) := by simp
  simp only [hk, if_false, hl, ofNat_ne_zero n h0 h, keyBytes]
  rw [u32_mod_toNat _ n h, mask_is_toPositive.1, mask31_toNat, murmur2Go_eq_java]
  unfold Spec.javaPartition Spec.two31 iota
  rw [List.getElem?_map, List.getElem?_range (Nat.mod_lt _ h0)]
  rfl

theorem murmur2_nil_rule (pick : Nat) (parts : List Int) :
    murmur2Balance Gen.balancerConsts false pick none parts = randomBalance pick parts
    ∧ murmur2Balance Gen.balancerConsts true pick none parts
        = murmur2Balance Gen.balancerConsts true pick (some []) parts := by
  constructor
  · simp [murmur2Balance]
  · simp [murmur2Balance, keyBytes]

/-- librdkafka `consistent`: `crc32(key) % n` -/
theorem crc32_eq_librdkafka (key : Bytes) (hk : key ≠ []) (consistent : Bool) (pick : Nat) (n : Nat)
    (h0 : 0 < n) (h : n < 4294967296) :
    crc32Balance consistent pick (some key) (iota n)
      = some (Int.ofNat (Spec.rdkafkaConsistent (crc32IEEE key).toNat n)) := by
  unfold crc32Balance
  have hl : (iota n).length = n := by simp [iota]
  have hkl : keyLen (some key) ≠ 0 := by
    simp only [keyLen]; intro e; exact hk (List.length_eq_zero_iff.mp e)
  have hc : ¬ (keyLen (some key) = 0 ∧ (!consistent) = true) := fun h => hkl h.1
  simp only [hc, if_false, hl, ofNat_ne_zero n h0 h, keyBytes]
  rw [u32_mod_toNat _ n h]
  unfold Spec.rdkafkaConsistent iota
  rw [List.getElem?_map, List.getElem?_range (Nat.mod_lt _ h0)]
  rfl

/-- librdkafka `consistent_random`: NULL *and* empty keys are random; `consistent` hashes them alike -/
theorem crc32_empty_rule (pick : Nat) (parts : List Int) :
    crc32Balance false pick none parts = randomBalance pick parts
    ∧ crc32Balance false pick (some []) parts = randomBalance pick parts
    ∧ crc32Balance true pick none parts = crc32Balance true pick (some []) parts := by
  refine ⟨by simp [crc32Balance, keyLen], by simp [crc32Balance, keyLen], by simp [crc32Balance, keyLen, keyBytes]⟩

/-- Sarama `hashPartitioner` -/
theorem hash_eq_sarama (sum : UInt32) (n : Nat) (h : n < 2147483648) :
    hashIndex sum n = Spec.saramaHash sum.toNat n := by
  unfold hashIndex Spec.saramaHash
  rw [lenInt32_small n h, toInt32_eq_spec]

/-- Sarama `referenceHashPartitioner` -/
theorem refhash_eq_sarama (sum : UInt32) (n : Nat) (h : n < 2147483648) :
    refHashIndex Gen.refHashMask sum n = Int.ofNat (Spec.saramaRefHash sum.toNat n) := by
  unfold refHashIndex Spec.saramaRefHash Spec.two31
  rw [lenInt32_small n h, mask_is_toPositive.2, mask31_toNat]
  simp
  rfl

/-- nil-key rules of the FNV balancers: `Hash` → round robin, `ReferenceHash` → random -/
theorem hash_nil_rule (rr : RoundRobin) (mask : UInt32) (pick : Nat) (parts : List Int) :
    hashBalance rr none parts = rr.balance parts ∧ refHashBalance mask pick none parts = randomBalance pick parts :=
  ⟨rfl, rfl⟩

/-! ## 5. Purity: the hashed results do not depend on balancer state or on the random source -/

theorem hashed_pure (c : MConsts) (key : Bytes) (parts : List Int) (rr₁ rr₂ : RoundRobin) (p₁ p₂ : Nat)
    (cons₁ cons₂ : Bool) (mask : UInt32) (hk : key ≠ []) :
    (hashBalance rr₁ (some key) parts).2 = (hashBalance rr₂ (some key) parts).2
    ∧ refHashBalance mask p₁ (some key) parts = refHashBalance mask p₂ (some key) parts
    ∧ crc32Balance cons₁ p₁ (some key) parts = crc32Balance cons₂ p₂ (some key) parts
    ∧ murmur2Balance c cons₁ p₁ (some key) parts = murmur2Balance c cons₂ p₂ (some key) parts := by
  have hkl : keyLen (some key) ≠ 0 := by
    simp only [keyLen]; intro e; exact hk (List.length_eq_zero_iff.mp e)
  refine ⟨by simp [hashBalance]; split <;> rfl, rfl, ?_, ?_⟩
  · simp [crc32Balance, hkl]
  · simp [murmur2Balance]

/-- A user-supplied Hasher: the result never depends on what the hasher processed before (it is Reset on every
call — extracted fact `hasher_reset_unconditional`), and with `fnv.New32a()` it is the default result. -/
theorem custom_hasher_pure {σ : Type} (h : Hasher σ) (st₁ st₂ : σ) (key : Bytes) (n : Nat) (mask : UInt32) :
    (hashBalanceWith h st₁ key n).2 = (hashBalanceWith h st₂ key n).2
    ∧ (refHashBalanceWith h mask st₁ key n).2 = (refHashBalanceWith h mask st₂ key n).2 := ⟨rfl, rfl⟩

theorem custom_fnv_eq_default (st : UInt32) (key : Bytes) (n : Nat) (mask : UInt32) :
    (hashBalanceWith fnvHasher st key n).2 = hashIndex (fnv1a32 key) n
    ∧ (refHashBalanceWith fnvHasher mask st key n).2 = refHashIndex mask (fnv1a32 key) n := ⟨rfl, rfl⟩

theorem hasher_reset_unconditional : Gen.hashResetsFirst = true ∧ Gen.refHashResetsFirst = true := by decide

/-- for EVERY 32-bit sum a (custom) hasher can return, incl. 0x80000000 where negating first would overflow -/
theorem hashIndex_minInt32 (n : Nat) (h0 : 0 < n) (h : n < 2147483648) :
    0 ≤ hashIndex 0x80000000 n ∧ hashIndex 0x80000000 n < n := hashIndex_range _ n h0 h

example : hashIndex 0x80000000 3 = 2 ∧ hashIndex 0xFFFFFFFF 3 = 1 ∧ refHashIndex 0x7fffffff 0x80000000 3 = 0 := by decide

/-! ## 6. RoundRobin -/

/-- For a fresh RoundRobin with `ChunkSize ≥ 1` on a fixed non-empty list, call number `j` (from 0) returns
`parts[(j / ChunkSize) % |parts|]`: runs of ChunkSize calls on one partition, cycling through the list in order — for the
first 2⁶⁴ calls (the call counter is a Go `uint64`; at one call per nanosecond that is 584 years, so the bound is an
assumption about physics, recorded in the evidence; `roundRobin_wrap64_counterexample` shows what happens beyond).  No
bound on ChunkSize.  The pinned tree counted in 32 bits: `roundRobin_legacy_wrap_counterexample` (finding D10). -/
theorem roundRobin_cycle (parts : List Int) (hp : parts ≠ []) (ch : Int) (h1 : 1 ≤ ch) (n : Nat) (hn : n ≤ two64) :
    (RoundRobin.run (RoundRobin.fresh ch) parts n).2 = (List.range n).map (fun j => parts[(j / ch.toNat) % parts.length]?) := by
  have := rr_run parts hp ch h1 n 0 (RoundRobin.fresh ch) rfl (fun _ => rfl) (by omega)
  simpa using this

/-- the same from any point of the cycle: a balancer that is where `calls` calls leave it continues the cycle at call
number `calls` — in particular across 2³² and 2⁶³ calls -/
theorem roundRobin_cycle_from (parts : List Int) (hp : parts ≠ []) (ch : Int) (h1 : 1 ≤ ch) (calls n : Nat)
    (hn : calls + n ≤ two64) :
    (RoundRobin.run (RoundRobin.placed ch calls parts.length) parts n).2 =
      (List.range n).map (fun j => parts[((calls + j) / ch.toNat) % parts.length]?) := by
  have hlt : 0 < n → calls % two64 = calls := fun h => Nat.mod_eq_of_lt (by omega)
  exact rr_run parts hp ch h1 n calls _ rfl (fun h => by simp [RoundRobin.placed, hlt h]) hn

/-- one balancer shared by several topics (the Writer's default, the hash balancers' fallback for messages without key):
whatever non-empty list each call is offered, the j-th call answers from the GLOBAL call number,
`lists[j][(j / ChunkSize) % |lists[j]|]` — so the messages of every topic keep moving over all of its partitions (the
position-keeping repair of D10 did not: `roundRobin_pos_starves_counterexample`). -/
theorem roundRobin_shared (lists : List (List Int)) (hne : ∀ l ∈ lists, l ≠ []) (ch : Int) (h1 : 1 ≤ ch)
    (hn : lists.length ≤ two64) (j : Nat) (hj : j < lists.length) :
    ((RoundRobin.fresh ch).runVar lists)[j]? = some (lists[j][(j / ch.toNat) % lists[j].length]?) := by
  have := rr_runVar ch h1 lists 0 (RoundRobin.fresh ch) rfl (fun _ => rfl) hne (by omega) j hj
  simpa using this

/-- every RoundRobin call returns an offered partition (any state, any chunk size) -/
theorem roundRobin_offered (rr : RoundRobin) (parts : List Int) (hp : parts ≠ []) :
    ∃ p, (rr.balance parts).2 = some p ∧ p ∈ parts := by
  have hL : 0 < parts.length := List.length_pos_iff.mpr hp
  unfold RoundRobin.balance
  simp only
  generalize (if rr.chunkSize < 1 then { rr with chunkSize := 1 } else rr) = rr1
  have hl : ¬ parts.length = 0 := by omega
  simp only [hl, if_false]
  exact getElem?_mem_of_lt parts _ (Nat.mod_lt _ hL)

/-- … also when the partition list changes between calls (grows, shrinks in the middle of a chunk): the j-th answer
is one of the partitions offered to the j-th call, from any state -/
theorem roundRobin_var_offered (lists : List (List Int)) (hne : ∀ l ∈ lists, l ≠ []) :
    ∀ (rr : RoundRobin) (j : Nat) (hj : j < lists.length),
      ∃ p, (rr.runVar lists)[j]? = some (some p) ∧ p ∈ lists[j] := by
  induction lists with
  | nil => intro rr j hj; simp at hj
  | cons l rest ih =>
    intro rr j hj
    simp only [RoundRobin.runVar]
    cases j with
    | zero =>
      obtain ⟨p, hp, hm⟩ := roundRobin_offered rr l (hne l (List.mem_cons_self ..))
      exact ⟨p, by simp [hp], by simpa using hm⟩
    | succ k =>
      obtain ⟨p, hp, hm⟩ := ih (fun l' h => hne l' (List.mem_cons_of_mem _ h)) (rr.balance l).1 k (by simpa using hj)
      exact ⟨p, by simpa using hp, by simpa using hm⟩

/-- `ChunkSize < 1` behaves as `ChunkSize = 1` -/
theorem roundRobin_chunk_default (c : Int) (hc : c < 1) (ctr : Nat) (parts : List Int) :
    (RoundRobin.balance ⟨c, ctr⟩ parts).2 = (RoundRobin.balance ⟨1, ctr⟩ parts).2 := by
  simp [RoundRobin.balance, hc]

/-- D10 (fixed): the 32-bit call counter of the pinned tree failed at the 2³² wrap — with 3 partitions and ChunkSize 1
two consecutive calls returned the same partition; the current one continues the cycle there. -/
theorem roundRobin_legacy_wrap_counterexample :
    (RoundRobinLegacy.run ⟨1, 4294967295⟩ [0, 1, 2] 2).2 = [some 0, some 0] ∧
    (RoundRobin.run (RoundRobin.placed 1 4294967295 3) [0, 1, 2] 2).2 = [some 0, some 1] := by decide

/-- the first repair of D10 kept a position instead of the call number: alternating a 3-partition and a 5-partition
topic through one balancer it never sends anything to partitions 1 of the first and 0, 2, 4 of the second; the current
code visits them -/
theorem roundRobin_pos_starves_counterexample :
    let lists : List (List Int) := (List.range 12).map (fun j => if j % 2 = 0 then [0, 1, 2] else [0, 1, 2, 3, 4])
    (RoundRobinPos.runVar ⟨1, 0, 0⟩ lists) =
      [some 0, some 1, some 2, some 3, some 0, some 1, some 2, some 3, some 0, some 1, some 2, some 3] ∧
    ((RoundRobin.fresh 1).runVar lists) =
      [some 0, some 1, some 2, some 3, some 1, some 0, some 0, some 2, some 2, some 4, some 1, some 1] := by decide

/-- beyond 2⁶⁴ calls the 64-bit counter wraps as the 32-bit one did (outside the hypothesis of `roundRobin_cycle`) -/
theorem roundRobin_wrap64_counterexample :
    (RoundRobin.run ⟨1, 18446744073709551615⟩ [0, 1, 2] 2).2 = [some 0, some 0] := by decide

/-! ## 7. LeastBytes -/

/-- states reachable from a fresh `LeastBytes` by calls with a fixed partition list, with the history
of (returned partition, message size), most recent first -/
inductive LBReach (parts : List Int) : LeastBytes → List (Int × Nat) → Prop
  | init : LBReach parts ⟨[]⟩ []
  | step (lb : LeastBytes) (hist : List (Int × Nat)) (sz : Nat) (p : Int) :
      LBReach parts lb hist → (lb.balance sz parts).2 = some p →
      LBReach parts (lb.balance sz parts).1 ((p, sz) :: hist)

theorem balance_fresh (parts : List Int) (hp : parts ≠ []) (hnd : parts.Nodup) (sz : Nat) :
    (⟨[]⟩ : LeastBytes).balance sz parts = (⟨makeCounters parts⟩ : LeastBytes).balance sz parts := by
  have hlen := (makeCounters_inv parts hnd).len
  have hpos : 0 < parts.length := List.length_pos_iff.mpr hp
  simp only at hlen
  unfold LeastBytes.balance
  have h1 : parts.length ≠ ([] : List LBCounter).length := by simp; omega
  have h2 : ¬ (parts.length ≠ (makeCounters parts).length) := by omega
  rw [if_pos h1, if_neg h2]

theorem lbReach_inv (parts : List Int) (hp : parts ≠ []) (hnd : parts.Nodup) (lb : LeastBytes) (hist : List (Int × Nat))
    (hr : LBReach parts lb hist) : (lb = ⟨[]⟩ ∧ hist = []) ∨ LBInv lb parts hist := by
  induction hr with
  | init => exact Or.inl ⟨rfl, rfl⟩
  | step lb hist sz p _ hres ih =>
    right
    cases ih with
    | inl h =>
      obtain ⟨h1, h2⟩ := h
      subst h1; subst h2
      rw [balance_fresh parts hp hnd] at hres ⊢
      obtain ⟨q, hq, _, _, hinv⟩ := lb_step ⟨makeCounters parts⟩ parts [] sz hp (makeCounters_inv parts hnd)
      rw [hq] at hres; cases hres; exact hinv
    | inr h =>
      obtain ⟨q, hq, _, _, hinv⟩ := lb_step lb parts hist sz hp h
      rw [hq] at hres; cases hres; exact hinv

/-- In every reachable state, the next call returns an offered partition whose routed-bytes total is
minimal among all offered partitions; (with `lbReach_inv`) every counter equals the bytes routed. -/
theorem leastBytes_min (parts : List Int) (hp : parts ≠ []) (hnd : parts.Nodup) (lb : LeastBytes)
    (hist : List (Int × Nat)) (hr : LBReach parts lb hist) (sz : Nat) :
    ∃ p, (lb.balance sz parts).2 = some p ∧ p ∈ parts ∧ ∀ q, q ∈ parts → routed hist p ≤ routed hist q := by
  cases lbReach_inv parts hp hnd lb hist hr with
  | inl h =>
    obtain ⟨h1, h2⟩ := h
    subst h1; subst h2
    rw [balance_fresh parts hp hnd]
    obtain ⟨q, hq, hm, hmin, _⟩ := lb_step ⟨makeCounters parts⟩ parts [] sz hp (makeCounters_inv parts hnd)
    exact ⟨q, hq, hm, hmin⟩
  | inr h =>
    obtain ⟨q, hq, hm, hmin, _⟩ := lb_step lb parts hist sz hp h
    exact ⟨q, hq, hm, hmin⟩

/-! ## 9. What a Writer can supply: `(*Writer).partitions` + `loadCachedPartitions` -/

/-- metadata as a broker answers it: a topic entry without error lists at least one partition (assumption about the
broker, recorded in the evidence; the Writer does not check it) -/
def MetaWF (resp : List MetaTopic) : Prop := ∀ t ∈ resp, t.err = 0 → 0 < t.nparts

/-- a topic-level error code in the metadata answer is returned as the error and the balancer is NOT called
(no list, in particular no empty list, is offered) -/
theorem writer_error_no_offer (cache : Option Nat) (resp : List MetaTopic) (topic : String) (t : MetaTopic)
    (hf : resp.find? (·.name == topic) = some t) (he : t.err ≠ 0) :
    writerOffer cache resp topic = .error t.err := by
  simp [writerOffer, writerPartitions, hf, he]

/-- no entry for the topic: `UnknownTopicOrPartition`, no call -/
theorem writer_missing_topic (cache : Option Nat) (resp : List MetaTopic) (topic : String)
    (hf : resp.find? (·.name == topic) = none) : writerOffer cache resp topic = .error 3 := by
  simp [writerOffer, writerPartitions, hf]

/-- every list a Writer offers is `[0, …, n-1]` for the partition count of the topic's entry: non-empty (for
well-formed metadata), duplicate-free, and of the entry's length — the hypotheses of the per-balancer theorems above
(`hash_offered`, `refhash_offered`, `crc32_offered`, `murmur2_offered`, `roundRobin_offered`, `leastBytes_min`). -/
theorem writer_offer_shape (cache : Option Nat) (resp : List MetaTopic) (topic : String) (l : List Int)
    (hwf : MetaWF resp) (ho : writerOffer cache resp topic = .ok l) :
    ∃ t, resp.find? (·.name == topic) = some t ∧ t.err = 0 ∧ l = iota t.nparts ∧ l ≠ [] ∧ l.Nodup := by
  unfold writerOffer writerPartitions at ho
  split at ho
  · cases ho
  · rename_i n hn
    split at hn
    · cases hn
    · rename_i t hf
      split at hn
      · cases hn
      · rename_i he
        have he0 : t.err = 0 := by simpa using he
        cases hn
        cases ho
        have hpos : 0 < t.nparts := hwf t (List.mem_of_find?_eq_some hf) he0
        refine ⟨t, hf, he0, loadCached_iota cache t.nparts, ?_, ?_⟩
        · rw [loadCached_iota]
          intro h
          have : (iota t.nparts).length = 0 := by rw [h]; rfl
          simp [iota] at this
          omega
        · rw [loadCached_iota]
          unfold iota
          exact List.Pairwise.map Int.ofNat (fun a b h hab => h (Int.ofNat.inj hab)) List.nodup_range

/-- … and the built-in balancers answer with a member of that list (keyed Hash as the instance; the other balancers'
theorems apply to the same list through `writer_offer_shape`) -/
theorem writer_hash_lands_in_offer (cache : Option Nat) (resp : List MetaTopic) (topic : String) (l : List Int)
    (hwf : MetaWF resp) (ho : writerOffer cache resp topic = .ok l) (hlen : l.length < 2147483648)
    (rr : RoundRobin) (key : Bytes) :
    ∃ p, (hashBalance rr (some key) l).2 = some p ∧ p ∈ l := by
  obtain ⟨t, _, _, hl, hne, _⟩ := writer_offer_shape cache resp topic l hwf ho
  subst hl
  have hn : 0 < t.nparts := by
    cases h : t.nparts with
    | zero => exact absurd (by simp [iota, h]) hne
    | succ k => exact Nat.succ_pos k
  have hlt : t.nparts < 2147483648 := by simpa [iota] using hlen
  exact hash_offered rr key t.nparts hn hlt

/-! ## 10. The hasher is used exclusively (concurrent Balance calls on one Hash / ReferenceHash value) -/

/-- regenerated on every run: along both paths of both methods the hasher is acquired (h.lock resp. fnv1aPool.Get)
before its first use and released only by a deferred Unlock / Put, i.e. after the last use; the methods have pointer
receivers (the lock that is taken is the shared one, not a copy). -/
theorem hasher_paths_owned :
    ownedThroughout Gen.hashCustomPath = true ∧ ownedThroughout Gen.hashPooledPath = true ∧
    ownedThroughout Gen.refHashCustomPath = true ∧ ownedThroughout Gen.refHashPooledPath = true ∧
    Gen.hashPtrRecv = true ∧ Gen.refHashPtrRecv = true := by decide

/-- the paths are not empty shells: each contains the three uses Reset / Write / Sum32 -/
theorem hasher_paths_use :
    ∀ path ∈ [Gen.hashCustomPath, Gen.hashPooledPath, Gen.refHashCustomPath, Gen.refHashPooledPath],
      3 ≤ (path.filter (· == OwnEv.use)).length := by decide

/-- what `ownedThroughout` means: at every use the caller is between its acquire and its release -/
theorem owned_use_is_held (es : List OwnEv) (h : ownedThroughout es = true) (pre post : List OwnEv)
    (he : es = pre ++ OwnEv.use :: post) : holdingAfter pre false = true :=
  ownedRun_use_held es false false h pre post he

/-- the pool side, for every sequence of Get / Put / discard events of any number of callers: an object held by one
caller is held by no other and is not lying in the pool (so no later Get can hand it out before its Put).  Together
with `hasher_paths_owned` + `owned_use_is_held`: Reset; Write; Sum32 of one Balance call are never interleaved with
another call's operations on the same hasher, so the sequential theorems (`hash_eq_sarama`, `refhash_eq_sarama`,
`hashed_pure`) describe every interleaving.  `sync.Pool` (Get returns a pooled or a fresh object, never one that is
checked out) and `sync.Mutex` are trusted. -/
theorem pool_exclusive (evs : List PoolEv) (p : Pool) (hr : Pool.init.run evs = some p) :
    (∀ c o c', (c, o) ∈ p.held → (c', o) ∈ p.held → c = c') ∧ (∀ c o, (c, o) ∈ p.held → o ∉ p.free) := by
  have hi := Pool.inv_run evs Pool.init p Pool.inv_init hr
  exact ⟨hi.excl, hi.notFree⟩

/-- sharpness: a Put that is not deferred (the hasher goes back before it is used) is rejected by the discipline, and
in the pool model a second caller then obtains the very object the first one is still using -/
theorem early_put_counterexample :
    ownedThroughout [.acquire, .release, .use, .use, .use] = false ∧
    (∃ p, Pool.init.run [.get 1 none, .put 1, .get 2 (some 0)] = some p ∧ (2, 0) ∈ p.held) := by
  refine ⟨by decide, ⟨_, rfl, by decide⟩⟩

/-! ## 8. Non-vacuity: concrete values meet the hypotheses and exercise the definitions -/

example : (iota 3) ≠ [] ∧ (iota 3).length < 4294967296 ∧ (iota 3).Nodup := by decide
example : murmur2Balance Gen.balancerConsts false 0 (some [0x6b, 0x61, 0x66, 0x6b, 0x61]) (iota 7) = some 3 := by decide
example : (RoundRobin.run (RoundRobin.fresh 2) [10, 20, 30] 7).2 = [some 10, some 10, some 20, some 20, some 30, some 30, some 10] := by decide
example : ((⟨[]⟩ : LeastBytes).balance 5 [2, 0, 1]).2 = some 0 := by decide
example : LBReach [2, 0, 1] ((⟨[]⟩ : LeastBytes).balance 5 [2, 0, 1]).1 [(0, 5)] :=
  LBReach.step ⟨[]⟩ [] 5 0 LBReach.init (by decide)
example : MetaWF [⟨"decoy", 0, 7⟩, ⟨"t", 0, 3⟩] ∧ writerOffer none [⟨"decoy", 0, 7⟩, ⟨"t", 0, 3⟩] "t" = .ok [0, 1, 2] := by
  refine ⟨by intro t ht h; simp at ht; rcases ht with rfl | rfl <;> decide, by rfl⟩
example : writerOffer none [⟨"t", 5, 0⟩] "t" = .error 5 := by rfl
example : ∃ p, Pool.init.run [.get 1 none, .get 2 none, .put 1, .get 3 (some 0)] = some p ∧ p.held = [(3, 0), (2, 1)] :=
  ⟨_, rfl, rfl⟩

end KV.C13
