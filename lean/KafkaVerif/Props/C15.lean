/-
Props/C15.lean — "A consumer group has one live generation at a time and ends it promptly".

All theorems quantify over every state reachable in the group-run LTS (`Model/GroupRun.lean`), i.e. over every
interleaving of coordinator answers (success / each error class / dropped connection), timer ticks, `Start`,
function returns, `Next` and `Close`; no bound on the length of the event sequence.  `Cfg.fixD9 = true` is the
repaired code (see `rebalance_close_counterexample` for the original).

Partial aspects
* `next_waits_partial`: only *accounted* functions are waited for.  The full statement

      ∀ reachable s, s.pc between generations → no function started through Start of an earlier generation is running

  is false of the model and of the code (`late_start_counterexample`, defect D8): a function `Start`-ed after the
  generation ended is launched but not accounted.
* "promptly", "at the configured interval", "after the configured back-off" are not wall-clock statements here:
  ticks and timer expiries are environment events; the harness observes the real periods with tolerance.
-/
import KafkaVerif.Model.GroupDeadlines
import KafkaVerif.Lemmas.GroupInv
import KafkaVerif.Lemmas.GroupHb
import KafkaVerif.Lemmas.GroupHbAlive
import KafkaVerif.Lemmas.GroupResp
import KafkaVerif.Lemmas.GroupWatch
import KafkaVerif.Lemmas.GroupReq
import KafkaVerif.Gen.GroupFacts

namespace KV.Group.C15
open KV.Group

/-! ### regenerated tie: the accounting statements the model mirrors, re-read from the source on every run -/

/-- `close()` waits on `joined` iff `r > 0`; the exit section of `Start` closes `joined` when `g.routines == 0` after
the decrement; `Start` has exactly one `g.routines++` and one `g.routines--`. -/
theorem accounting_matches_source :
    KV.Gen.Group.closeWaitTest = (">", "0") ∧ KV.Gen.Group.startLastRoutineTest = ("==", "0") ∧
    KV.Gen.Group.startRoutinesIncDec = (1, 1) := by decide

/-- `NewReader` feeds every group option of the ReaderConfig into the field of the same name of the ConsumerGroupConfig
(`ID ← GroupID`, `Topics ← getTopics()`), and all of them are fed (re-read from reader.go on every run). -/
theorem reader_options_pass_through :
    KV.Gen.Group.readerGroupOptions.all
      (fun p => p.1 == p.2 || p == ("ID", "GroupID") || p == ("Topics", "getTopics()")) = true ∧
    ["Brokers", "Dialer", "GroupBalancers", "HeartbeatInterval", "ID", "JoinGroupBackoff", "PartitionWatchInterval",
     "RebalanceTimeout", "RetentionTime", "SessionTimeout", "StartOffset", "Topics", "WatchPartitionChanges"].all
      (fun f => KV.Gen.Group.readerGroupOptions.any (fun p => p.1 == f)) = true := by decide

/-- regenerated: heartbeat and OffsetCommit requests are built from the generation's own ids (`g.ID`, `g.MemberID`,
`g.GroupID`), LeaveGroup from the group id — what `heartbeat_ids` / the commit monitors assume of the request builders -/
theorem requests_carry_generation_ids :
    KV.Gen.Group.heartbeatRequestFields = [("GenerationID", "ID"), ("GroupID", "GroupID"), ("MemberID", "MemberID")] ∧
    [("GenerationID", "ID"), ("GroupID", "GroupID"), ("MemberID", "MemberID"), ("RetentionTime", "retentionMillis")].all
      (fun p => KV.Gen.Group.commitRequestFields.contains p) = true ∧
    KV.Gen.Group.leaveRequestFields.contains ("GroupID", "ID") = true := by decide

/-! ### joined_iff -/

/-- `joined` is closed exactly when the generation has ended, no accounted function is left and at least one was
accounted — in every reachable state. -/
theorem joined_iff (c : Cfg) (s : St) (h : Reachable c s) :
    s.cur.joined = true ↔ (s.cur.closed = true ∧ s.cur.routines = 0 ∧ 0 < s.cur.accounted) :=
  (inv1_reachable c s h).1.joined_iff

/-- the accounting never loses a function: running accounted functions = accounted − exit sections executed -/
theorem routines_count (c : Cfg) (s : St) (h : Reachable c s) : s.cur.routines + s.cur.exited = s.cur.accounted :=
  (inv1_reachable c s h).1.count

/-- the exit section of `Start`'s goroutine never closes `joined` twice (no panic) from a reachable state -/
theorem exit_never_panics (c : Cfg) (s : St) (h : Reachable c s) (hr : 0 < s.cur.routines) (hp : 0 < s.cur.returning) :
    (s.cur.fnExit).isSome = true :=
  Gen.fnExit_no_double_close _ (inv1_reachable c s h).1 hr hp

/-! ### next_waits -/

/-- While `run` is anywhere between two generations (looking up the coordinator, joining, syncing, fetching offsets,
leaving, delivering an error, backing off, exiting) the last generation is ended and every function it accounted has
run its exit section. -/
theorem next_waits_partial (c : Cfg) (s : St) (h : Reachable c s) (hq : s.pc.quiet = true) :
    s.cur.closed = true ∧ s.cur.routines = 0 ∧ s.cur.exited = s.cur.accounted := by
  have i := inv1_reachable c s h
  have q := i.2.1 hq
  have := i.1.count
  exact ⟨q.1, q.2, by omega⟩

/-- In particular generation n+1 is not even created — so `Next` cannot return it — before every accounted function
of generation n returned. -/
theorem next_generation_after_all_exits (c : Cfg) (s s' : St) (h : Reachable c s) (g : Nat) (gid : Int) (m : String)
    (hs : step c s (.gNew g gid m) = some s') :
    s.cur.closed = true ∧ s.cur.routines = 0 ∧ s.cur.exited = s.cur.accounted := by
  apply next_waits_partial c s h
  simp only [step] at hs
  split at hs
  · rename_i hc; simp at hc; rw [hc.1.1.1]; rfl
  · cases hs

/-- non-vacuity: a concrete run reaches a second generation after two accounted functions of the first exited -/
def twoGens : List Ev :=
  [.nextCall, .connectRes none, .findRes none, .connectRes none, .joinOk "" "m1" 1 false, .syncRes "m1" 1 none,
   .fetchRes none, .gNew 0 1 "m1", .gStart 0 true, .handed 0, .nextRet (.gen 0), .gStart 0 true,
   .hbCall 0 1 "m1", .hbRet 0 (some .rebalance), .hbExit 0, .fnExit 0 true 1, .sawGenDone 0, .gClose 0 true 1,
   .uCtx 0, .uRet 0 true, .fnExit 0 false 0, .gClosed 0, .nextGenRet "m1" none,
   .connectRes none, .findRes none, .connectRes none, .joinOk "m1" "m1" 2 false, .syncRes "m1" 2 none,
   .fetchRes none, .gNew 1 2 "m1"]

example : (run ⟨0, true⟩ {} twoGens).map (fun s => (s.gens, s.cur.gid)) = some (2, 2) := by decide

/-- D8: the same run, then a function is `Start`-ed in generation 0 (already ended): it is launched unaccounted,
and `Next` hands out generation 1 while it is still running (`oldLate = 1`). -/
def lateStart : List Ev := twoGens ++ [.gStart 1 true, .gStart 0 false, .nextCall, .handed 1, .nextRet (.gen 1)]

theorem late_start_counterexample :
    (run ⟨0, true⟩ {} lateStart).map (fun s => (s.pc, s.oldLate, s.inbox)) = some (.running, 1, none) := by decide

/-! ### ctx_cancelled_on_end — every end cause cancels the context (`closed`, i.e. `done` closed) -/

/-- any started (accounted) function returns ⇒ its exit section ends the generation -/
theorem ctx_cancelled_on_function_return (c : Cfg) (s s' : St) (g : Nat) (cbm : Bool) (l : Nat)
    (h : step c s (.fnExit g cbm l) = some s') : s'.cur.closed = true := by
  simp only [step] at h
  unfold onCur at h
  split at h
  · simp only [Option.map_eq_some_iff] at h
    obtain ⟨cg, hcg, rfl⟩ := h
    unfold gFnExit at hcg
    split at hcg
    · exact Gen.fnExit_closed _ _ hcg
    · cases hcg
  · cases h

theorem onCur_cur (s s' : St) (g : Nat) (f : Gen → Option Gen) (h : onCur s g f = some s') :
    isCur s g = true ∧ f s.cur = some s'.cur ∧ s'.gens = s.gens := by
  unfold onCur at h
  split at h
  · rename_i hc
    simp only [Option.map_eq_some_iff] at h
    obtain ⟨cg, hcg, rfl⟩ := h
    exact ⟨hc, hcg, rfl⟩
  · cases h

/-- heartbeat failure (any error: rebalance signal, illegal generation, dropped connection): the heartbeat function
stops heartbeating and can only return, which queues its exit section -/
theorem ctx_cancelled_on_heartbeat_failure (c : Cfg) (s s1 : St) (g : Nat) (e : Err)
    (h : step c s (.hbRet g (some e)) = some s1) :
    s1.cur.hb = some .failed ∧
    (∀ gid m, step c s1 (.hbCall g gid m) = none) ∧
    (∀ s2, step c s1 (.hbExit g) = some s2 → s2.cur.returning = s1.cur.returning + 1) := by
  simp only [step] at h
  obtain ⟨_, hf, _⟩ := onCur_cur _ _ _ _ h
  have hfailed : s1.cur.hb = some .failed := by
    unfold gHbRet at hf
    split at hf
    · simp at hf; rw [← hf]
    · cases hf
  refine ⟨hfailed, ?_, ?_⟩
  · intro gid m
    simp [step, onCur, gHbCall, hfailed]
  · intro s2 h2
    simp only [step] at h2
    obtain ⟨_, hf2, _⟩ := onCur_cur _ _ _ _ h2
    simp [gHbExit, hfailed, Gen.bodyReturned] at hf2
    rw [← hf2]

/-- partition-count change or a lost connection in the watcher: the watcher can only return -/
theorem ctx_cancelled_on_partition_change (c : Cfg) (s s1 : St) (g t n n0 : Nat) (a : Bool)
    (hw : s.cur.watchers[t]? = some (.calling n0, a)) (hn : n ≠ n0)
    (h : step c s (.watchParts g t n) = some s1) :
    (s1.cur.watchers[t]?).map (·.1) = some .failed := by
  simp only [step] at h
  unfold onCur at h
  split at h
  · simp only [Option.map_eq_some_iff] at h
    obtain ⟨cg, hcg, rfl⟩ := h
    have hlt : t < s.cur.watchers.length := by
      have := hw; rw [List.getElem?_eq_some_iff] at this; exact this.1
    simp [gWatchParts, hw, hn] at hcg
    subst hcg
    simp [setW, hlt]
  · cases h

/-- Close: once `run` has seen `cg.done` its next step on the generation is `close()`, which cancels the context -/
theorem ctx_cancelled_on_close (c : Cfg) (s s1 s2 : St) (g : Nat) (r : Bool) (was : Bool) (n : Nat)
    (h1 : step c s (.sawClose g r) = some s1) (h2 : step c s1 (.gClose g was n) = some s2) :
    s1.pc = .closing (some .closed) ∧ s2.cur.closed = true := by
  have hp : s1.pc = .closing (some .closed) := by
    simp only [step] at h1
    cases r <;> simp at h1 <;> (rw [← h1.2])
  refine ⟨hp, ?_⟩
  simp only [step, hp] at h2
  split at h2
  · cases h2; rfl
  · cases h2

/-- the generation's own end (`gen.done` seen by `run`) is followed by `close()` as well, and `close()` only returns
when every accounted function has run its exit section -/
theorem close_returns_after_all_exits (c : Cfg) (s s' : St) (h : Reachable c s) (g : Nat)
    (hs : step c s (.gClosed g) = some s') : s'.cur.closed = true ∧ s'.cur.routines = 0 := by
  have hr : Reachable c s' := .step _ h hs
  have i := inv1_reachable c s' hr
  apply i.2.1
  simp only [step] at hs
  split at hs
  · split at hs
    · cases hs; rfl
    · cases hs
  · cases hs

/-! ### leave_on_close -/

/-- (repaired code) When `run` has exited, either it holds no member id, or its last action was `leaveGroup(member)`
for the member id it holds, and that call sent the LeaveGroup request for this id unless the coordinator lookup
for it failed. -/
theorem leave_on_close (s : St) (nw : Nat) (h : Reachable ⟨nw, true⟩ s) (hx : s.pc = .exited ∨ s.pc = .exiting) :
    s.member = "" ∨ (s.exitWith = some (s.member, true) ∧ (s.member ∈ s.left ∨ s.leaveFail = true)) := by
  have i := inv2_reachable _ s h
  have hg : s.pc.gone = true := by rcases hx with hx | hx <;> rw [hx] <;> rfl
  obtain ⟨b, hb⟩ := i.gone hg
  have e := i.ex _ _ hb
  rcases e.2.1 rfl with hb1 | hm
  · subst hb1
    rcases e.2.2 rfl with h0 | h1
    · exact .inl h0
    · exact .inr ⟨hb, h1⟩
  · exact .inl hm

/-- the LeaveGroup request carries the member id `run` holds -/
theorem leave_request_carries_member (c : Cfg) (s s' : St) (mi : String) (ok : Bool)
    (h : step c s (.leaveRes mi ok) = some s') : mi = s.member := by
  simp only [step] at h
  split at h
  · split at h
    · rename_i hm; simpa using hm
    · cases h
  · cases h

/-- non-vacuity: Close while a generation is live leaves with the member id -/
example : (run ⟨0, true⟩ {} (C15.twoGens ++ [.closeCall, .gStart 1 true, .sawClose 1 false, .gClose 1 false 1, .hbExit 1,
    .fnExit 1 false 0, .gClosed 1, .nextGenRet "m1" (some .closed), .leave "m1", .connectRes none, .findRes none,
    .connectRes none, .leaveRes "m1" true, .runExit, .closeRet])).map (fun s => (s.pc, s.left, s.exitWith))
    = some (.exited, ["m1"], some ("m1", true)) := by decide

/-- D9 (original code, `fixD9 = false`): the group is closed while a RebalanceInProgress error waits for `Next`:
`run` exits holding member id "m1" and no LeaveGroup was sent. -/
def rebalanceClose : List Ev :=
  [.connectRes none, .findRes none, .connectRes none, .joinOk "" "m1" 1 false, .syncRes "m1" 1 (some .rebalance),
   .nextGenRet "m1" (some .rebalance), .closeCall, .errDeliver .rebalance false, .runExit, .closeRet]

theorem rebalance_close_counterexample :
    (run ⟨0, false⟩ {} rebalanceClose).map (fun s => (s.pc, s.member, s.left, s.exitWith))
      = some (.exited, "m1", [], some ("m1", false)) := by decide

/-- the same history on the repaired code is not a run (it must call leaveGroup first) … -/
example : run ⟨0, true⟩ {} rebalanceClose = none := by decide

/-! ### backoff_after_failed_join -/

/-- a failed attempt (any error other than ErrGroupClosed / RebalanceInProgress) creates the back-off obligation … -/
theorem failed_join_sets_backoff (c : Cfg) (s s' : St) (m : String) (e : Err)
    (he : e ≠ .closed ∧ e ≠ .rebalance) (h : step c s (.nextGenRet m (some e)) = some s') :
    s'.needBackoff = true := by
  simp only [step] at h
  split at h
  · cases e <;> simp at he <;> (cases h; rfl)
  · cases h

/-- … and `run` is never back at the top of its loop (about to look up the coordinator and join again) while the
obligation is pending: only the back-off timer discharges it. -/
theorem backoff_after_failed_join (c : Cfg) (s : St) (h : Reachable c s) (k : Nat) (hp : s.pc = .coord k none) :
    s.needBackoff = false := by
  have i := inv2_reachable c s h
  cases hb : s.needBackoff with
  | false => rfl
  | true => have := i.nb hb; rw [hp] at this; simp [PC.nb] at this

/-- same for every other step of a join attempt -/
theorem no_join_while_backoff_pending (c : Cfg) (s : St) (h : Reachable c s)
    (hp : s.pc = .joining ∨ s.pc = .syncing ∨ s.pc = .fetching) : s.needBackoff = false := by
  have i := inv2_reachable c s h
  cases hb : s.needBackoff with
  | false => rfl
  | true =>
    have := i.nb hb
    rcases hp with hp | hp | hp <;> rw [hp] at this <;> simp [PC.nb] at this

/-- non-vacuity: a failed join is followed by leave(""), error delivery, back-off begin/end, and only then the next attempt -/
example : (run ⟨0, true⟩ {} [.nextCall, .connectRes none, .findRes none, .connectRes none, .joinErr "" .kafka,
    .nextGenRet "" (some .kafka), .leave "", .errDeliver .kafka true, .backoff 0]).map (fun s => (s.pc, s.needBackoff))
    = some (.backoffP true, true) := by decide

/-! ### heartbeat_every_tick -/

/-- whenever the heartbeat function of the current generation is waiting in its select, a tick is enabled and produces
a heartbeat request with this generation's id and member id … -/
theorem heartbeat_every_tick (c : Cfg) (s : St) (g : Nat) (hc : isCur s g = true) (hi : s.cur.hb = some .idle) :
    ∃ s', step c s (.hbCall g s.cur.gid s.cur.member) = some s' ∧ s'.cur.hb = some .calling := by
  simp [step, onCur, hc, gHbCall, hi]

/-- … and no heartbeat request with other ids is ever sent -/
theorem heartbeat_ids (c : Cfg) (s s' : St) (g : Nat) (gid : Int) (m : String)
    (h : step c s (.hbCall g gid m) = some s') : gid = s.cur.gid ∧ m = s.cur.member ∧ s.cur.hb = some .idle := by
  simp only [step] at h
  unfold onCur at h
  split at h
  · simp only [Option.map_eq_some_iff] at h
    obtain ⟨cg, hcg, rfl⟩ := h
    unfold gHbCall at hcg
    split at hcg
    · rename_i hh; simp at hh; exact ⟨hh.1.2, hh.2, hh.1.1⟩
    · cases hcg
  · cases h

/-- a successful heartbeat puts the function back into its select (so the next tick heartbeats again) -/
theorem heartbeat_continues (c : Cfg) (s s' : St) (g : Nat) (h : step c s (.hbRet g none) = some s') :
    s'.cur.hb = some .idle := by
  simp only [step] at h
  unfold onCur at h
  split at h
  · simp only [Option.map_eq_some_iff] at h
    obtain ⟨cg, hcg, rfl⟩ := h
    unfold gHbRet at hcg
    split at hcg
    · cases hcg; rfl
    · cases hcg
  · cases h

/-- The generation lives — and heartbeats — from its creation, not from the moment `Next` picks it up: in every reachable
state in which `run` waits to hand the generation over (or later in its life) the heartbeat function has been started. -/
theorem heartbeat_from_creation (c : Cfg) (s : St) (h : Reachable c s)
    (hp : s.pc = .handing ∨ s.pc = .running) : s.cur.hb.isSome = true := by
  apply inv3_reachable c s h
  rcases hp with hp | hp <;> rw [hp] <;> rfl

/-- "for as long as the generation lives": while the generation is handed over or running, has not ended
(`closed = false`) and no exit section is pending, its heartbeat function is inside its loop — waiting for the next tick,
inside a heartbeat call, or holding a failure it is about to return with (which then ends the generation). -/
theorem heartbeat_alive_while_generation_lives (c : Cfg) (s : St) (h : Reachable c s)
    (hp : s.pc = .handing ∨ s.pc = .running) (hc : s.cur.closed = false) (hr : s.cur.returning = 0) :
    s.cur.hb = some .idle ∨ s.cur.hb = some .calling ∨ s.cur.hb = some .failed := by
  have h3 := heartbeat_from_creation c s h hp
  have h4 := inv4_reachable c s h
  cases hh : s.cur.hb with
  | none => rw [hh] at h3; cases h3
  | some p =>
    cases p with
    | idle => exact .inl rfl
    | calling => exact .inr (.inl rfl)
    | failed => exact .inr (.inr rfl)
    | done =>
      rcases h4 hh with h5 | h5
      · rw [hc] at h5; cases h5
      · omega

/-- the hand-over step itself is only possible with a started heartbeat function -/
theorem handed_has_heartbeat (c : Cfg) (s s' : St) (h : Reachable c s) (g : Nat)
    (hs : step c s (.handed g) = some s') : s.cur.hb.isSome = true := by
  apply heartbeat_from_creation c s h
  simp only [step] at hs
  split at hs
  · rename_i hc; simp at hc; exact .inl hc.1.1.2
  · cases hs

/-! ### one partition watcher per CONFIGURED topic -/

/-- With WatchPartitionChanges (`nWatch` = number of configured topics) a generation that waits for hand-over or runs has
exactly one watcher per configured topic — also for topics of which this member was assigned nothing (their partition
count changing must end the generation too: `ctx_cancelled_on_partition_change` applies to each of them). -/
theorem watchers_for_all_topics (c : Cfg) (s : St) (h : Reachable c s) (hp : s.pc = .handing ∨ s.pc = .running) :
    s.cur.watchers.length = c.nWatch := by
  have i := inv5_reachable c s h
  unfold Inv5 inv5P at i
  rcases hp with hp | hp <;> rw [hp] at i <;> exact i

/-- regenerated: the watchers are started by ranging over the configured topics (`cg.config.Topics`), not over the
assignment -/
theorem watchers_match_source : KV.Gen.Group.watcherRange = "Topics" := by decide

/-! ### the coordinator that is dialled is the one FindCoordinator named -/

/-- regenerated: the address of the second `connect` in `coordinator()` is `net.JoinHostPort` of the answer's
`Coordinator.Host` and `Coordinator.Port` (in this order) -/
theorem coordinator_dial_matches_source : KV.Gen.Group.coordinatorDial = ["JoinHostPort", "Host", "Port"] := by decide

/-- the dialled address names the coordinator's host and port (plain host names / IPv4; the driver compares
`coordinatorAddress` with what the library dials, IPv6 literals included) -/
theorem coordinator_address_plain (host : String) (port : Int) (h : host.contains ':' = false) :
    coordinatorAddress host port = host ++ ":" ++ toString port := by
  simp [coordinatorAddress, h]

/-! ### nothing configured: the documented defaults are the configured values -/

/-- regenerated: every `if config.<F> == 0 { config.<F> = … }` of `ConsumerGroupConfig.Validate`, resolved through the
`default…` constants, gives the documented default of that field (3 s heartbeats, 30 s session and rebalance time-outs,
5 s join back-off and watch interval, retention -1, FirstOffset, [range, roundrobin], 5 s time-out) — whatever the order
of the statements -/
theorem defaults_match_documentation :
    documentedGroupDefaults.all (fun kv => KV.Gen.Group.validateDefaults.lookup kv.1 == some kv.2) = true := by decide

/-! ### the member id the coordinator assigned is kept until it is left -/

/-- After a successful JoinGroup (`jm` = the member id of the answer) every failure before the generation exists — the
leader's metadata read (`partsRes`), SyncGroup, OffsetFetch — makes `nextGeneration` return THAT member id with the error:
`run` then rejoins with it (rebalance) or sends LeaveGroup for it (any other error) — it is never forgotten while the
coordinator still holds it. -/
theorem failure_after_join_keeps_member (c : Cfg) (s s1 s2 : St) (ev : Ev) (m : String) (e : Option Err)
    (hev : (∃ er, er ≠ Err.unknownTopic ∧ ev = .partsRes (some er)) ∨ (∃ mi gi er, ev = .syncRes mi gi (some er)) ∨
           (∃ er, ev = .fetchRes (some er)))
    (h1 : step c s ev = some s1) (h2 : step c s1 (.nextGenRet m e) = some s2) :
    m = s.jm ∧ s2.member = s.jm := by
  have hpc : ∃ er, s1.pc = .retp s.jm (some er) := by
    rcases hev with ⟨er, hne, rfl⟩ | ⟨mi, gi, er, rfl⟩ | ⟨er, rfl⟩
    · simp only [step] at h1
      split at h1
      · cases er <;> first | (exact absurd rfl hne) | (cases h1; exact ⟨_, rfl⟩)
      · cases h1
    · simp only [step] at h1
      split at h1
      · cases h1; exact ⟨_, rfl⟩
      · cases h1
    · simp only [step] at h1
      split at h1
      · cases h1; exact ⟨_, rfl⟩
      · cases h1
  obtain ⟨er, hpc⟩ := hpc
  simp only [step] at h2
  split at h2
  · rename_i hr
    have hm : m = s.jm := by
      unfold returnsNow at hr
      rw [hpc] at hr
      simp at hr
      exact hr.1.symm
    refine ⟨hm, ?_⟩
    subst hm
    cases e with
    | none => cases h2; rfl
    | some x => cases x <;> cases h2 <;> rfl
  · cases h2

/-! ### how long an answer is waited for (timeoutCoordinator) -/

/-- every coordinator call has a deadline of at least `Timeout`; only JoinGroup (+ RebalanceTimeout) and SyncGroup
(+ SessionTimeout) wait longer — in particular a heartbeat that gets no answer fails after exactly `Timeout`, which ends
the generation (`ctx_cancelled_on_heartbeat_error`) -/
theorem deadline_bounds (t : Timeouts) (c : CoordCall) :
    t.timeout ≤ callDeadline t c ∧ callDeadline t .heartbeat = t.timeout ∧
    (c ≠ .joinGroup → c ≠ .syncGroup → callDeadline t c = t.timeout) := by
  refine ⟨?_, rfl, ?_⟩
  · cases c <;> simp [callDeadline]
  · intro h1 h2; cases c <;> simp_all [callDeadline]

/-- an answer the coordinator may legitimately take its time for is not given up early: JoinGroup held for less than the
rebalance time-out, SyncGroup held for less than the session time-out are accepted whatever `Timeout` is -/
theorem slow_join_and_sync_are_waited_for (t : Timeouts) (held : Nat) :
    (held ≤ t.rebalance → 0 < t.timeout → answered t .joinGroup held = true) ∧
    (held ≤ t.session → 0 < t.timeout → answered t .syncGroup held = true) := by
  constructor
  · intro h h0
    show decide (held < t.timeout + t.rebalance) = true
    exact decide_eq_true (by omega)
  · intro h h0
    show decide (held < t.timeout + t.session) = true
    exact decide_eq_true (by omega)

/-- regenerated: the deadline every `timeoutCoordinator` method sets (`time.Now().Add(…)`, terms by field name) is the
model's, and `makeConnect` feeds Timeout / RebalanceTimeout / SessionTimeout into the fields of the same name -/
theorem deadlines_match_source :
    CoordCall.all.all (fun c => KV.Gen.Group.coordinatorDeadlines.lookup c.name == some (deadlineTerms c)) = true ∧
    KV.Gen.Group.connectTimeouts = connectFields := by decide

/-! ### a generation only after a successful OffsetFetch (hypothesis of C03 `start_at_committed`) -/

/-- a failed OffsetFetch — any error class — makes `nextGeneration` return the error: no generation can be created next -/
theorem failed_fetch_never_yields_generation (c : Cfg) (s s' : St) (e : Err)
    (h : step c s (.fetchRes (some e)) = some s') :
    (∃ m, s'.pc = .retp m (some e)) ∧ ∀ g gid m, step c s' (.gNew g gid m) = none := by
  simp only [step] at h
  split at h
  · cases h
    exact ⟨⟨_, rfl⟩, by intro g gid m; simp [step]⟩
  · cases h

/-- a generation is only created from the state reached by a successful OffsetFetch -/
theorem generation_only_after_fetch_ok (c : Cfg) (s s' : St) (g : Nat) (gid : Int) (m : String)
    (h : step c s (.gNew g gid m) = some s') : s.pc = .created := by
  simp only [step] at h
  split at h
  · rename_i hc; simp at hc; exact hc.1.1.1
  · cases h

/-- the topic vanished (UnknownTopicOrPartition on a poll, first count ≠ 0): the watcher can only return -/
theorem ctx_cancelled_on_topic_vanished (c : Cfg) (s s1 : St) (g t n0 : Nat) (a : Bool)
    (hw : s.cur.watchers[t]? = some (.calling n0, a)) (hn : n0 ≠ 0)
    (h : step c s (.watchErr g t .unknownTopic) = some s1) :
    (s1.cur.watchers[t]?).map (·.1) = some .failed := by
  simp only [step] at h
  unfold onCur at h
  split at h
  · simp only [Option.map_eq_some_iff] at h
    obtain ⟨cg, hcg, rfl⟩ := h
    have hlt : t < s.cur.watchers.length := by
      have := hw; rw [List.getElem?_eq_some_iff] at this; exact this.1
    simp [gWatchErr, hw, hn] at hcg
    subst hcg
    simp [setW, hlt]
  · cases h

/-! ### the coordinator's answers as the run loop sees them: error codes ON THE WIRE

The environment events of the group-run LTS carry the error class of each coordinator answer.  For the byte-level path these
theorems say what class the real `Conn` derives from the response bytes: the conn builder's regenerated model of the `Conn`
operations (`ConnOps.opRead` over the parser programs re-extracted from findcoordinator.go / joingroup.go / syncgroup.go /
heartbeat.go / leavegroup.go) run on the Kafka layouts (`Lemmas/GroupResp.lean`; ranges: strings < 32 KiB, counts < 2³¹). -/
section WireAnswers
open KV.GroupResp KV.ConnOps KV.GroupWire

/-- FindCoordinator v0, JoinGroup v1, SyncGroup v0: the call fails with exactly the response's error code, succeeds iff it
is 0, and consumes the whole frame -/
theorem join_answers_on_the_wire (code gen node port : Int) (proto leader member host assign topic : Bytes)
    (ms : List (Bytes × Bytes)) (h1 : Fits 2 code) (h2 : Fits 4 gen) (h3 : proto.length < 32768)
    (h4 : leader.length < 32768) (h5 : member.length < 32768) (h6 : ms.length < 2147483648) (h7 : ∀ m ∈ ms, MemberOK m)
    (h8 : Fits 4 node) (h9 : host.length < 32768) (h10 : Fits 4 port) (h11 : assign.length < 2147483648) :
    opRead (simpleOp "findCoordinator" KV.Gen.ConnLegacy.findCoordinatorResponseV0) 0 topic
        ⟨encFind code node host port, (encFind code node host port).length⟩ = (concl code, ⟨[], 0⟩) ∧
    opRead (simpleOp "joinGroup" KV.Gen.ConnLegacy.joinGroupResponse) 1 topic
        ⟨encJoin code gen proto leader member ms, (encJoin code gen proto leader member ms).length⟩ = (concl code, ⟨[], 0⟩) ∧
    opRead (simpleOp "syncGroup" KV.Gen.ConnLegacy.syncGroupResponseV0) 0 topic
        ⟨encSync code assign, (encSync code assign).length⟩ = (concl code, ⟨[], 0⟩) :=
  ⟨findCoordinator_conclusion code node port host topic h1 h8 h9 h10,
   joinGroup_conclusion code gen proto leader member topic ms h1 h2 h3 h4 h5 h6 h7,
   syncGroup_conclusion code assign topic h1 h11⟩

/-- Heartbeat v0 / LeaveGroup v0 -/
theorem heartbeat_answer_on_the_wire (code : Int) (hc : Fits 2 code) (topic : Bytes) :
    opRead (simpleOp "heartbeat" KV.Gen.ConnLegacy.heartbeatResponseV0) 0 topic ⟨KV.Wire.encInt 2 code, 2⟩ =
      ((if code = 0 then Outcome.ok else Outcome.kafka code), ⟨[], 0⟩) :=
  errOnly_conclusion "heartbeat" _ rfl code hc topic

/-- The requests as the coordinator receives them: the writers of the legacy Conn (re-extracted from leavegroup.go,
heartbeat.go, joingroup.go, syncgroup.go, findcoordinator.go on every run: `Gen/Legacy.lean`) emit the Kafka layouts with
every field in its place BY NAME — in particular LeaveGroup carries `group_id` then `member_id` ("closing the group sends
LeaveGroup for the current member id" reaches the broker as such), Heartbeat `group_id generation_id member_id`. -/
theorem group_requests_on_the_wire :
    (∀ t, KV.Gen.Legacy.leaveGroupRequestV0.writeTo t = KV.Spec.GroupWire.Req.leaveGroup t.GroupID t.MemberID) ∧
    (∀ t, KV.Gen.Legacy.heartbeatRequestV0.writeTo t = KV.Spec.GroupWire.Req.heartbeat t.GroupID t.GenerationID t.MemberID) ∧
    (∀ t, KV.Gen.Legacy.findCoordinatorRequestV0.writeTo t = KV.Spec.GroupWire.Req.findCoordinator t.CoordinatorKey) ∧
    (∀ t, KV.Gen.Legacy.joinGroupRequest.writeTo t =
      KV.Spec.GroupWire.Req.joinGroup t.GroupID t.SessionTimeout t.RebalanceTimeout t.MemberID t.ProtocolType
        (t.GroupProtocols.map fun p => (p.ProtocolName, p.ProtocolMetadata))) ∧
    (∀ t, KV.Gen.Legacy.syncGroupRequestV0.writeTo t =
      KV.Spec.GroupWire.Req.syncGroup t.GroupID t.GenerationID t.MemberID
        (t.GroupAssignments.map fun a => (a.MemberID, a.MemberAssignments))) :=
  ⟨KV.GroupReq.leave_layout, KV.GroupReq.heartbeat_layout, KV.GroupReq.findCoordinator_layout, KV.GroupReq.join_layout,
   KV.GroupReq.sync_layout⟩

end WireAnswers

end KV.Group.C15
