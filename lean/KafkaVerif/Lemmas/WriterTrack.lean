/-
Lemmas/WriterTrack.lean — the message-tracking invariant of the Writer close protocol:
every message queued by batchMessages is either completed (its Completion ran) or held by a partition writer whose
sender goroutine is alive; a closed partition writer has no open batch; an open one has a live sender; a call
waiting for its batches waits only for accepted messages.
-/
import KafkaVerif.Model.WriterClose
import KafkaVerif.Lemmas.WriterClose

namespace KV.WriterClose

def Held (ws : List PW) (m : Nat) : Prop := ∃ p ∈ ws, p.live = true ∧ m ∈ p.msgs

def PWok (p : PW) : Prop := (p.opn = false → p.curr = none) ∧ (p.opn = true → p.live = true)

def Done (cs : List (Nat × Why)) (m : Nat) : Prop := ∃ x ∈ cs, x.1 = m

structure Track (s : State) : Prop where
  t1 : ∀ m ∈ s.accepted, Done s.completed m ∨ Held s.writers m
  t2 : ∀ c ∈ s.calls, c.phase = .waiting → ∀ mk ∈ c.msgs, mk.1 ∈ s.accepted
  t3 : ∀ p ∈ s.writers, PWok p

theorem isCompleted_iff (s : State) (m : Nat) : s.isCompleted m = true ↔ Done s.completed m := by
  simp [State.isCompleted, Done]

theorem held_map_or {ws : List PW} {g : PW → PW} {m : Nat} {Q : Prop}
    (h : ∀ p ∈ ws, p.live = true → m ∈ p.msgs → ((g p).live = true ∧ m ∈ (g p).msgs) ∨ Q) :
    Held ws m → Held (ws.map g) m ∨ Q := by
  intro ⟨p, hp, hl, hm⟩
  rcases h p hp hl hm with h' | h'
  · exact Or.inl ⟨g p, List.mem_map.mpr ⟨p, hp, rfl⟩, h'.1, h'.2⟩
  · exact Or.inr h'

theorem held_map {ws : List PW} {g : PW → PW} {m : Nat}
    (h : ∀ p ∈ ws, p.live = true → m ∈ p.msgs → (g p).live = true ∧ m ∈ (g p).msgs) :
    Held ws m → Held (ws.map g) m := by
  intro hh
  rcases held_map_or (Q := False) (fun p hp hl hm => Or.inl (h p hp hl hm)) hh with h' | h'
  · exact h'
  · exact h'.elim

theorem all_map {ws : List PW} {g : PW → PW} {P : PW → Prop} (h0 : ∀ p ∈ ws, P p)
    (h : ∀ p ∈ ws, P p → P (g p)) : ∀ p ∈ ws.map g, P p := by
  intro p hp
  obtain ⟨x, hx, rfl⟩ := List.mem_map.mp hp
  exact h x hx (h0 x hx)

theorem mem_msgs (p : PW) (m : Nat) :
    m ∈ p.msgs ↔ (∃ b ∈ p.queue, m ∈ b.msgs) ∨ (∃ b, p.curr = some b ∧ m ∈ b.msgs) ∨ m ∈ p.sender.msgs := by
  simp only [PW.msgs, PW.queueMsgs, PW.currMsgs, List.mem_append, List.mem_flatMap]
  constructor
  · rintro ((h | h) | h)
    · exact Or.inl h
    · cases hc : p.curr with
      | none => simp [hc] at h
      | some b => simp only [hc] at h; exact Or.inr (Or.inl ⟨b, rfl, h⟩)
    · exact Or.inr (Or.inr h)
  · rintro (h | ⟨b, hb, hm⟩ | h)
    · exact Or.inl (Or.inl h)
    · simp only [hb]; exact Or.inl (Or.inr hm)
    · exact Or.inr h

macro "pwok" : tactic => `(tactic| (simp only [PWok, PW.live] at * <;> simp_all))

/-! ### per partition writer: the transformations keep the held messages and `PWok` -/

theorem timerPW_keeps (b : Nat) (p : PW) (hok : PWok p) :
    (timerPW b p).sender = p.sender ∧ (∀ m, m ∈ p.msgs → m ∈ (timerPW b p).msgs) ∧ PWok (timerPW b p) := by
  simp only [timerPW]
  cases hc : p.curr with
  | none => exact ⟨rfl, fun _ h => h, hok⟩
  | some cb =>
    simp only
    by_cases hid : cb.id = b
    · simp only [hid, if_true]
      have hopn : p.opn = true := by
        cases ho : p.opn with
        | true => rfl
        | false => have := hok.1 ho; simp [hc] at this
      simp only [putBatch, hopn, if_true]
      have hlive := hok.2 hopn
      refine ⟨by simp, ?_, by pwok⟩
      · intro m hm
        rw [mem_msgs] at hm ⊢
        rcases hm with ⟨b', hb', hm⟩ | ⟨b', hb', hm⟩ | hm
        · exact Or.inl ⟨b', by simp [hb'], hm⟩
        · simp only [hc, Option.some.injEq] at hb'; subst hb'
          exact Or.inl ⟨cb, by simp, hm⟩
        · exact Or.inr (Or.inr hm)
    · simp only [hid, if_false]
      exact ⟨by simp, fun _ h => h, hok⟩

theorem closePW_keeps (p : PW) :
    (closePW p).sender = p.sender ∧ (∀ m, m ∈ p.msgs → m ∈ (closePW p).msgs) ∧ PWok (closePW p) := by
  simp only [closePW]
  cases hc : p.curr with
  | none =>
    refine ⟨by simp, ?_, by pwok⟩
    intro m hm
    rw [mem_msgs] at hm ⊢
    simpa [hc] using hm
  | some cb =>
    refine ⟨by simp, ?_, by pwok⟩
    intro m hm
    rw [mem_msgs] at hm ⊢
    rcases hm with ⟨b', hb', hm⟩ | ⟨b', hb', hm⟩ | hm
    · exact Or.inl ⟨b', by simp [hb'], hm⟩
    · simp only [hc, Option.some.injEq] at hb'; subst hb'
      exact Or.inl ⟨cb, by simp, hm⟩
    · exact Or.inr (Or.inr hm)

theorem addMsgPW_keeps (cfg : Cfg) (p : PW) (m0 n : Nat) (hopn : p.opn = true) (hok : PWok p) :
    (addMsgPW cfg p m0 n).sender = p.sender ∧ (addMsgPW cfg p m0 n).opn = true ∧
    (∀ m, m ∈ p.msgs → m ∈ (addMsgPW cfg p m0 n).msgs) ∧ m0 ∈ (addMsgPW cfg p m0 n).msgs ∧
    PWok (addMsgPW cfg p m0 n) := by
  have hlive := hok.2 hopn
  simp only [addMsgPW]
  cases hc : p.curr with
  | none =>
    simp only
    split
    · simp only [putBatch, hopn, if_true]
      refine ⟨by simp, by simp [hopn], ?_, ?_, by pwok⟩
      · intro m hm
        rw [mem_msgs] at hm ⊢
        rcases hm with ⟨b', hb', hm⟩ | ⟨b', hb', hm⟩ | hm
        · exact Or.inl ⟨b', by simp [hb'], hm⟩
        · simp [hc] at hb'
        · exact Or.inr (Or.inr hm)
      · rw [mem_msgs]; exact Or.inl ⟨⟨n, [m0]⟩, by simp, by simp⟩
    · refine ⟨by simp, by simp [hopn], ?_, ?_, by pwok⟩
      · intro m hm
        rw [mem_msgs] at hm ⊢
        rcases hm with ⟨b', hb', hm⟩ | ⟨b', hb', hm⟩ | hm
        · exact Or.inl ⟨b', hb', hm⟩
        · simp [hc] at hb'
        · exact Or.inr (Or.inr hm)
      · rw [mem_msgs]; exact Or.inr (Or.inl ⟨⟨n, [m0]⟩, rfl, by simp⟩)
  | some cb =>
    simp only
    split
    · simp only [putBatch, hopn, if_true]
      refine ⟨by simp, by simp [hopn], ?_, ?_, by pwok⟩
      · intro m hm
        rw [mem_msgs] at hm ⊢
        rcases hm with ⟨b', hb', hm⟩ | ⟨b', hb', hm⟩ | hm
        · exact Or.inl ⟨b', by simp [hb'], hm⟩
        · simp only [hc, Option.some.injEq] at hb'; subst hb'
          exact Or.inl ⟨{ cb with msgs := cb.msgs ++ [m0] }, by simp, by simp [hm]⟩
        · exact Or.inr (Or.inr hm)
      · rw [mem_msgs]; exact Or.inl ⟨{ cb with msgs := cb.msgs ++ [m0] }, by simp, by simp⟩
    · refine ⟨by simp, by simp [hopn], ?_, ?_, by pwok⟩
      · intro m hm
        rw [mem_msgs] at hm ⊢
        rcases hm with ⟨b', hb', hm⟩ | ⟨b', hb', hm⟩ | hm
        · exact Or.inl ⟨b', hb', hm⟩
        · simp only [hc, Option.some.injEq] at hb'; subst hb'
          exact Or.inr (Or.inl ⟨_, rfl, by simp [hm]⟩)
        · exact Or.inr (Or.inr hm)
      · rw [mem_msgs]; exact Or.inr (Or.inl ⟨_, rfl, by simp⟩)

theorem live_of_sender_eq {p q : PW} (h : q.sender = p.sender) : q.live = p.live := by
  simp [PW.live, h]

/-! ### batchMessages -/

def TrackW (ws : List PW) (acc : List Nat) (comp : List (Nat × Why)) : Prop :=
  (∀ m ∈ acc, Done comp m ∨ Held ws m) ∧ (∀ p ∈ ws, PWok p)

theorem addOne_track (cfg : Cfg) (s : State) (mk : Nat × Nat) (h : TrackW s.writers s.accepted s.completed) :
    TrackW (addOne cfg s mk).writers (addOne cfg s mk).accepted (addOne cfg s mk).completed ∧
    (addOne cfg s mk).accepted = s.accepted ++ [mk.1] := by
  obtain ⟨h1, h3⟩ := h
  -- the writer list after find-or-create
  let ws := if s.writers.any (fun p => p.opn && p.key = mk.2) then s.writers
            else s.writers ++ [newPW s.writers.length mk.2]
  have hws_ok : ∀ p ∈ ws, PWok p := by
    intro p hp
    simp only [ws] at hp
    split at hp
    · exact h3 p hp
    · rcases List.mem_append.mp hp with hp | hp
      · exact h3 p hp
      · simp only [List.mem_singleton] at hp; subst hp
        simp [PWok, newPW, PW.live]
  have hws_held : ∀ m, Held s.writers m → Held ws m := by
    intro m ⟨p, hp, hl, hm⟩
    refine ⟨p, ?_, hl, hm⟩
    simp only [ws]
    split
    · exact hp
    · exact List.mem_append.mpr (Or.inl hp)
  have hex : ∃ p ∈ ws, (p.opn && decide (p.key = mk.2)) = true := by
    simp only [ws]
    split
    · rename_i hany
      simpa [List.any_eq_true] using hany
    · exact ⟨newPW s.writers.length mk.2, by simp, by simp [newPW]⟩
  have hg : ∀ p ∈ ws, PWok p →
      let q := if (p.opn && decide (p.key = mk.2)) = true then addMsgPW cfg p mk.1 s.nextB else p
      q.live = p.live ∧ (∀ m, m ∈ p.msgs → m ∈ q.msgs) ∧ PWok q ∧
      ((p.opn && decide (p.key = mk.2)) = true → q.live = true ∧ mk.1 ∈ q.msgs) := by
    intro p _ hok
    by_cases hc : (p.opn && decide (p.key = mk.2)) = true
    · have hopn : p.opn = true := by simp only [Bool.and_eq_true] at hc; exact hc.1
      obtain ⟨k1, _, k3, k4, k5⟩ := addMsgPW_keeps cfg p mk.1 s.nextB hopn hok
      simp only [hc, if_true]
      refine ⟨live_of_sender_eq k1, k3, k5, fun _ => ⟨?_, k4⟩⟩
      rw [live_of_sender_eq k1]; exact hok.2 hopn
    · simp only [hc]
      exact ⟨rfl, fun _ h => h, hok, fun h => absurd h (by simp)⟩
  refine ⟨⟨?_, ?_⟩, ?_⟩
  · intro m hm
    simp only [addOne, List.mem_append, List.mem_singleton] at hm
    rcases hm with hm | hm
    · rcases h1 m hm with hd | hh
      · exact Or.inl hd
      · right
        have := hws_held m hh
        simp only [addOne]
        apply held_map _ this
        intro p hp hl hmm
        have := hg p hp (hws_ok p hp)
        exact ⟨by rw [this.1]; exact hl, this.2.1 m hmm⟩
    · right
      obtain ⟨p, hp, hc⟩ := hex
      have := (hg p hp (hws_ok p hp)).2.2.2 hc
      simp only [addOne]
      refine ⟨_, List.mem_map.mpr ⟨p, hp, rfl⟩, ?_⟩
      subst hm
      exact this
  · simp only [addOne]
    apply all_map hws_ok
    intro p hp hok
    exact (hg p hp hok).2.2.1
  · simp [addOne]

theorem foldl_addOne_track (cfg : Cfg) (l : List (Nat × Nat)) (s : State)
    (h : TrackW s.writers s.accepted s.completed) :
    TrackW (l.foldl (addOne cfg) s).writers (l.foldl (addOne cfg) s).accepted (l.foldl (addOne cfg) s).completed ∧
    (l.foldl (addOne cfg) s).accepted = s.accepted ++ l.map (·.1) := by
  induction l generalizing s with
  | nil => simpa using h
  | cons a l ih =>
    simp only [List.foldl_cons]
    obtain ⟨h1, h2⟩ := addOne_track cfg s a h
    obtain ⟨i1, i2⟩ := ih (addOne cfg s a) h1
    refine ⟨i1, ?_⟩
    rw [i2, h2]; simp

/-! ### the invariant is inductive -/

theorem t2_updCalls (s : State) (c : Nat) (q : Call → Bool) (f : Call → Call) (acc : List Nat)
    (hf : ∀ x, (f x).msgs = x.msgs ∧ ((f x).phase = .waiting → x.phase = .waiting))
    (h : ∀ x ∈ s.calls, x.phase = .waiting → ∀ mk ∈ x.msgs, mk.1 ∈ acc) :
    ∀ y ∈ (updCalls s c q f).calls, y.phase = .waiting → ∀ mk ∈ y.msgs, mk.1 ∈ acc := by
  intro y hy hp mk hmk
  simp only [updCalls, List.mem_map] at hy
  obtain ⟨x, hx, rfl⟩ := hy
  split at hp
  · rename_i hq
    simp only [hq, if_true] at hmk
    rw [(hf x).1] at hmk
    exact h x hx ((hf x).2 hp) mk hmk
  · rename_i hq
    simp only [hq] at hmk
    exact h x hx hp mk hmk

/-- events that only touch the call table -/
theorem track_calls_only (s : State) (c : Nat) (q : Call → Bool) (f : Call → Call)
    (hf : ∀ x, (f x).msgs = x.msgs ∧ ((f x).phase = .waiting → x.phase = .waiting))
    (h : Track s) : Track (updCalls s c q f) :=
  ⟨h.t1, t2_updCalls s c q f s.accepted hf h.t2, h.t3⟩

theorem held_updPWs (s : State) (i : Nat) (q : PW → Bool) (f : PW → PW) (m : Nat) (Q : Prop)
    (hk : ∀ p ∈ s.writers, q p = true → p.live = true → m ∈ p.msgs → ((f p).live = true ∧ m ∈ (f p).msgs) ∨ Q) :
    Held s.writers m → Held (updPWs s i q f).writers m ∨ Q := by
  intro hh
  simp only [updPWs]
  apply held_map_or _ hh
  intro p hp hl hmm
  by_cases hc : (decide (p.pid = i) && q p) = true
  · simp only [hc, if_true]
    simp only [Bool.and_eq_true] at hc
    exact hk p hp hc.2 hl hmm
  · simp only [hc]
    exact Or.inl ⟨hl, hmm⟩

theorem ok_updPWs (s : State) (i : Nat) (q : PW → Bool) (f : PW → PW)
    (hk : ∀ p ∈ s.writers, q p = true → PWok p → PWok (f p)) (h3 : ∀ p ∈ s.writers, PWok p) :
    ∀ p ∈ (updPWs s i q f).writers, PWok p := by
  simp only [updPWs]
  apply all_map h3
  intro p hp hok
  by_cases hc : (decide (p.pid = i) && q p) = true
  · simp only [hc, if_true]
    simp only [Bool.and_eq_true] at hc
    exact hk p hp hc.2 hok
  · simp only [hc]; exact hok

theorem track_step (cfg : Cfg) (s s' : State) (e : Event) (h : Track s) (hstep : step cfg s e = some s') :
    Track s' := by
  cases e with
  | callBegin c ms mf =>
    simp only [step] at hstep
    split at hstep
    · simp at hstep
    · injection hstep with hs; subst hs
      refine ⟨h.t1, ?_, h.t3⟩
      intro y hy hp
      rcases List.mem_append.mp hy with hy | hy
      · exact h.t2 y hy hp
      · simp only [List.mem_singleton] at hy; subst hy; simp at hp
  | closeBegin =>
    simp only [step, Option.ite_none_right_eq_some, Option.some.injEq] at hstep
    obtain ⟨_, rfl⟩ := hstep; exact ⟨h.t1, h.t2, h.t3⟩
  | closeReturn =>
    simp only [step, Option.ite_none_right_eq_some, Option.some.injEq] at hstep
    obtain ⟨_, rfl⟩ := hstep; exact ⟨h.t1, h.t2, h.t3⟩
  | ctxCancel c =>
    simp only [step, Option.ite_none_right_eq_some, Option.some.injEq] at hstep
    obtain ⟨_, rfl⟩ := hstep
    exact track_calls_only s c _ _ (fun x => ⟨rfl, fun hp => hp⟩) h
  | enter c =>
    simp only [step, Option.ite_none_right_eq_some, Option.some.injEq] at hstep
    obtain ⟨_, rfl⟩ := hstep
    apply track_calls_only s c _ _ _ h
    intro x; refine ⟨rfl, ?_⟩
    simp only; split <;> simp
  | metaReq c =>
    simp only [step, Option.ite_none_right_eq_some, Option.some.injEq] at hstep
    obtain ⟨_, rfl⟩ := hstep
    exact track_calls_only s c _ _ (fun x => ⟨rfl, fun hp => hp⟩) h
  | metaRel c =>
    simp only [step, Option.ite_none_right_eq_some, Option.some.injEq] at hstep
    obtain ⟨_, rfl⟩ := hstep
    exact track_calls_only s c _ _ (fun x => ⟨rfl, fun hp => hp⟩) h
  | early c r =>
    simp only [step, Option.ite_none_right_eq_some, Option.some.injEq] at hstep
    obtain ⟨_, rfl⟩ := hstep
    exact track_calls_only s c _ _ (fun x => ⟨rfl, fun hp => by simp at hp⟩) h
  | leave c r =>
    simp only [step, Option.ite_none_right_eq_some, Option.some.injEq] at hstep
    obtain ⟨_, rfl⟩ := hstep
    exact track_calls_only s c _ _ (fun x => ⟨rfl, fun hp => by simp at hp⟩) h
  | ret c =>
    simp only [step, Option.ite_none_right_eq_some, Option.some.injEq] at hstep
    obtain ⟨_, rfl⟩ := hstep
    apply track_calls_only s c _ _ _ h
    intro x
    simp only [Call.doReturn]
    cases hp : x.phase <;> simp [hp]
  | closeMark =>
    simp only [step, Option.ite_none_right_eq_some, Option.some.injEq] at hstep
    obtain ⟨_, rfl⟩ := hstep
    refine ⟨?_, h.t2, ?_⟩
    · intro m hm
      rcases h.t1 m hm with hd | hh
      · exact Or.inl hd
      · right
        apply held_map _ hh
        intro p _ hl hmm
        obtain ⟨k1, k2, _⟩ := closePW_keeps p
        exact ⟨by rw [live_of_sender_eq k1]; exact hl, k2 m hmm⟩
    · exact all_map h.t3 (fun p _ _ => (closePW_keeps p).2.2)
  | timer b =>
    simp only [step, Option.ite_none_right_eq_some, Option.some.injEq] at hstep
    obtain ⟨_, rfl⟩ := hstep
    refine ⟨?_, h.t2, ?_⟩
    · intro m hm
      rcases h.t1 m hm with hd | hh
      · exact Or.inl hd
      · right
        apply held_map _ hh
        intro p hp hl hmm
        obtain ⟨k1, k2, _⟩ := timerPW_keeps b p (h.t3 p hp)
        exact ⟨by rw [live_of_sender_eq k1]; exact hl, k2 m hmm⟩
    · exact all_map h.t3 (fun p _ hok => (timerPW_keeps b p hok).2.2)
  | batch c =>
    simp only [step] at hstep
    split at hstep
    · simp at hstep
    · rename_i x hfind
      have hxm := List.mem_of_find?_eq_some hfind
      split at hstep
      · injection hstep with hs; subst hs
        exact track_calls_only s c _ _ (fun x => ⟨rfl, fun hp => by simp at hp⟩) h
      · injection hstep with hs; subst hs
        obtain ⟨⟨f1, f3⟩, facc⟩ := foldl_addOne_track cfg x.msgs s ⟨h.t1, h.t3⟩
        have fcalls := (foldl_addOne_flags cfg x.msgs s).2.2.1
        refine ⟨f1, ?_, f3⟩
        intro y hy hp mk hmk
        simp only [updCalls, fcalls, List.mem_map] at hy
        obtain ⟨z, hz, rfl⟩ := hy
        simp only [updCalls, facc, List.mem_append, List.mem_map]
        by_cases hq : (decide (z.id = c) && (z == x)) = true
        · simp only [hq, if_true] at hmk
          simp only [Bool.and_eq_true, beq_iff_eq] at hq
          rw [hq.2] at hmk
          exact Or.inr ⟨mk, hmk, rfl⟩
        · simp only [hq] at hp hmk
          exact Or.inl (h.t2 z hz hp mk hmk)
  | get i =>
    simp only [step] at hstep
    split at hstep
    · injection hstep with hs; subst hs
      refine ⟨?_, h.t2, ?_⟩
      · intro m hm
        rcases h.t1 m hm with hd | hh
        · exact Or.inl hd
        · refine (held_updPWs s i _ _ m False ?_ hh).elim (fun h' => Or.inr h') (fun h' => h'.elim)
          intro p _ hq hl hmm
          left
          cases hqq : p.queue with
          | nil => simp [hqq] at hq
          | cons b rest =>
            simp only
            refine ⟨by simp [PW.live], ?_⟩
            rw [mem_msgs] at hmm ⊢
            simp only [Bool.and_eq_true, decide_eq_true_eq] at hq
            rcases hmm with ⟨b', hb', hm'⟩ | hc | hs
            · simp only [hqq, List.mem_cons] at hb'
              rcases hb' with rfl | hb'
              · exact Or.inr (Or.inr (by simpa [Sender.msgs] using hm'))
              · exact Or.inl ⟨b', hb', hm'⟩
            · exact Or.inr (Or.inl hc)
            · simp [hq.1, Sender.msgs] at hs
      · apply ok_updPWs s i _ _ _ h.t3
        intro p _ hq hok
        cases hqq : p.queue with
        | nil => simpa using hok
        | cons b rest => simp only; exact ⟨hok.1, fun _ => by simp [PW.live]⟩
    · split at hstep
      · injection hstep with hs; subst hs
        refine ⟨?_, h.t2, ?_⟩
        · intro m hm
          rcases h.t1 m hm with hd | hh
          · exact Or.inl hd
          · refine (held_updPWs s i _ _ m False ?_ hh).elim (fun h' => Or.inr h') (fun h' => h'.elim)
            intro p hp hq _ hmm
            exfalso
            simp only [Bool.and_eq_true, decide_eq_true_eq, Bool.not_eq_true', List.isEmpty_iff] at hq
            have hcur := (h.t3 p hp).1 hq.2
            rw [mem_msgs] at hmm
            simp [hq.1.1, hq.1.2, hcur, Sender.msgs] at hmm
        · apply ok_updPWs s i _ _ _ h.t3
          intro p _ hq hok
          simp only [Bool.and_eq_true, decide_eq_true_eq, Bool.not_eq_true'] at hq
          exact ⟨hok.1, fun ho => by simp [hq.2] at ho⟩
      · simp at hstep
  | attempt i o =>
    simp only [step, Option.ite_none_right_eq_some, Option.some.injEq] at hstep
    obtain ⟨_, rfl⟩ := hstep
    have key : ∀ (b : Batch) (k : Nat), attemptNext cfg b k o ≠ .exited ∧ (attemptNext cfg b k o).msgs = b.msgs := by
      intro b k
      cases o
      · simp [attemptNext, Sender.msgs]
      · by_cases hk : k + 1 < cfg.maxAttempts <;> simp [attemptNext, Sender.msgs, hk]
      · simp [attemptNext, Sender.msgs]
    refine ⟨?_, h.t2, ?_⟩
    · intro m hm
      rcases h.t1 m hm with hd | hh
      · exact Or.inl hd
      · refine (held_updPWs s i _ _ m False ?_ hh).elim (fun h' => Or.inr h') (fun h' => h'.elim)
        intro p _ _ hl hmm
        left
        cases hs : p.sender with
        | sending b k =>
          simp only
          refine ⟨by simp [PW.live, (key b k).1], ?_⟩
          rw [mem_msgs] at hmm ⊢
          rcases hmm with hq | hc | hsm
          · exact Or.inl hq
          · exact Or.inr (Or.inl hc)
          · right; right
            simp only [(key b k).2]
            simpa [hs, Sender.msgs] using hsm
        | _ => simp only; exact ⟨hl, hmm⟩
    · apply ok_updPWs s i _ _ _ h.t3
      intro p _ _ hok
      cases hs : p.sender with
      | sending b k => simp only; exact ⟨hok.1, fun _ => by simp [PW.live, (key b k).1]⟩
      | _ => simpa using hok
  | complete i =>
    simp only [step] at hstep
    split at hstep
    · split at hstep
      · rename_i b why _
        injection hstep with hs; subst hs
        refine ⟨?_, h.t2, ?_⟩
        · intro m hm
          rcases h.t1 m hm with hd | hh
          · obtain ⟨x, hx, hxm⟩ := hd
            exact Or.inl ⟨x, List.mem_append.mpr (Or.inl hx), hxm⟩
          · have hdone : m ∈ b.msgs → Done (s.completed ++ b.msgs.map fun m => (m, why)) m :=
              fun h' => ⟨(m, why), List.mem_append.mpr (Or.inr (List.mem_map.mpr ⟨m, h', rfl⟩)), rfl⟩
            refine (held_updPWs s i _ _ m (m ∈ b.msgs) ?_ hh).elim (fun h' => Or.inr h') (fun h' => Or.inl (hdone h'))
            intro p _ hq _ hmm
            simp only [decide_eq_true_eq] at hq
            rw [mem_msgs] at hmm
            rcases hmm with hqm | hc | hsm
            · left; exact ⟨by simp [PW.live], by rw [mem_msgs]; exact Or.inl hqm⟩
            · left; exact ⟨by simp [PW.live], by rw [mem_msgs]; exact Or.inr (Or.inl hc)⟩
            · right; simpa [hq, Sender.msgs] using hsm
        · apply ok_updPWs s i _ _ _ h.t3
          intro p _ _ hok
          exact ⟨hok.1, fun _ => by simp [PW.live]⟩
      · simp at hstep
    · simp at hstep


theorem track_init : Track State.init := by
  constructor <;> simp [State.init]

theorem reachable_track (cfg : Cfg) : ∀ s, Reachable cfg s → Track s :=
  reachable_induction cfg Track track_init (fun s e s' h hs => track_step cfg s s' e h hs)

/-- with the tracking invariant a waiting synchronous call is never orphaned -/
theorem not_waitingBlocked (s : State) (h : Track s) : ¬ WaitingBlocked s := by
  intro ⟨_, hdead, c, hc, hw, mk, hmk, hnc⟩
  rcases h.t1 mk.1 (h.t2 c hc hw mk hmk) with hd | ⟨p, hp, hl, _⟩
  · rw [← isCompleted_iff] at hd; simp [hd] at hnc
  · simp [hdead p hp] at hl

/-- why a batch ended is determined by the answers to its attempts -/
theorem attemptNext_why (cfg : Cfg) (b b' : Batch) (k : Nat) (o : Outcome) (why : Why)
    (h : attemptNext cfg b k o = .completing b' why) :
    b' = b ∧ (why = .acked ↔ o = .ok) ∧ (why = .permanent ↔ o = .perm) ∧
    (why = .exhausted ↔ o = .temp ∧ cfg.maxAttempts ≤ k + 1) := by
  cases o
  · simp [attemptNext] at h; obtain ⟨rfl, rfl⟩ := h; simp
  · by_cases hk : k + 1 < cfg.maxAttempts
    · simp [attemptNext, hk] at h
    · simp [attemptNext, hk] at h; obtain ⟨rfl, rfl⟩ := h; simp; omega
  · simp [attemptNext] at h; obtain ⟨rfl, rfl⟩ := h; simp

/-! ### after CloseReturn the writer stays quiescent -/

theorem countP_map_le {α : Type} (l : List α) (g : α → α) (p : α → Bool) (h : ∀ x ∈ l, p (g x) = true → p x = true) :
    (l.map g).countP p ≤ l.countP p := by
  induction l with
  | nil => simp
  | cons x xs ih =>
    have ih' := ih (fun y hy => h y (by simp [hy]))
    have hx := h x (by simp)
    simp only [List.map_cons, List.countP_cons]
    by_cases hg : p (g x) = true
    · have := hx hg; simp only [hg, this, if_true]; omega
    · by_cases hpx : p x = true
      · simp only [hg, hpx, if_true, if_false, Bool.false_eq_true, reduceIte]; omega
      · simp only [hg, hpx, if_false, Bool.false_eq_true, reduceIte]; omega

theorem wg_updCalls_le (s : State) (c : Nat) (q : Call → Bool) (f : Call → Call)
    (h : ∀ x, (f x).holdsGroup = true → x.holdsGroup = true) : (updCalls s c q f).wg ≤ s.wg := by
  have : ((s.calls.map fun x => if (x.id = c && q x) = true then f x else x).countP Call.holdsGroup) ≤ s.calls.countP Call.holdsGroup := by
    apply countP_map_le
    intro x _ hx
    split at hx
    · exact h x hx
    · exact hx
  simp only [State.wg, updCalls]; omega

theorem wg_updPWs_le (s : State) (i : Nat) (q : PW → Bool) (f : PW → PW)
    (h : ∀ x, q x = true → (f x).live = true → x.live = true) : (updPWs s i q f).wg ≤ s.wg := by
  have : ((s.writers.map fun x => if (x.pid = i && q x) = true then f x else x).countP PW.live) ≤ s.writers.countP PW.live := by
    apply countP_map_le
    intro x _ hx
    split at hx
    · rename_i hq
      simp only [Bool.and_eq_true] at hq
      exact h x hq.2 hx
    · exact hx
  simp only [State.wg, updPWs]; omega

/-- once the writer is marked closed (repaired protocol) no step increases the WaitGroup -/
theorem wg_nonincreasing (cfg : Cfg) (hfix : cfg.fixed = true) (s s' : State) (e : Event) (hcl : s.closed = true)
    (h : step cfg s e = some s') : s'.wg ≤ s.wg := by
  cases e with
  | callBegin c ms mf =>
    simp only [step] at h
    split at h
    · simp at h
    · injection h with h; subst h
      simp [State.wg, List.countP_append, Call.holdsGroup]
  | ctxCancel c =>
    simp only [step, Option.ite_none_right_eq_some, Option.some.injEq] at h
    obtain ⟨_, rfl⟩ := h
    exact wg_updCalls_le _ _ _ _ (fun x hx => by simpa [Call.holdsGroup] using hx)
  | closeBegin =>
    simp only [step, Option.ite_none_right_eq_some, Option.some.injEq] at h
    obtain ⟨_, rfl⟩ := h; exact Nat.le_refl _
  | enter c =>
    simp only [step, Option.ite_none_right_eq_some, Option.some.injEq] at h
    obtain ⟨_, rfl⟩ := h
    exact wg_updCalls_le _ _ _ _ (fun x hx => by simp [Call.holdsGroup, hcl] at hx)
  | metaReq c =>
    simp only [step, Option.ite_none_right_eq_some, Option.some.injEq] at h
    obtain ⟨_, rfl⟩ := h
    exact wg_updCalls_le _ _ _ _ (fun x hx => by simpa [Call.holdsGroup] using hx)
  | metaRel c =>
    simp only [step, Option.ite_none_right_eq_some, Option.some.injEq] at h
    obtain ⟨_, rfl⟩ := h
    exact wg_updCalls_le _ _ _ _ (fun x hx => by simpa [Call.holdsGroup] using hx)
  | early c r =>
    simp only [step, Option.ite_none_right_eq_some, Option.some.injEq] at h
    obtain ⟨_, rfl⟩ := h
    exact wg_updCalls_le _ _ _ _ (fun x hx => by simp [Call.holdsGroup] at hx)
  | leave c r =>
    simp only [step, Option.ite_none_right_eq_some, Option.some.injEq] at h
    obtain ⟨_, rfl⟩ := h
    exact wg_updCalls_le _ _ _ _ (fun x hx => by simp [Call.holdsGroup] at hx)
  | ret c =>
    simp only [step, Option.ite_none_right_eq_some, Option.some.injEq] at h
    obtain ⟨_, rfl⟩ := h
    apply wg_updCalls_le
    intro x hx
    simp only [Call.doReturn] at hx
    cases hp : x.phase <;> simp [hp, Call.holdsGroup] at hx ⊢
  | batch c =>
    simp only [step] at h
    split at h
    · simp at h
    · simp only [hfix, hcl, Bool.and_self, if_true] at h
      injection h with h; subst h
      exact wg_updCalls_le _ _ _ _ (fun x hx => by simp [Call.holdsGroup] at hx)
  | timer b =>
    simp only [step, Option.ite_none_right_eq_some, Option.some.injEq] at h
    obtain ⟨hb, rfl⟩ := h
    have hmem : b ∈ s.awaiters := by simpa using hb
    have h1 := List.length_erase_of_mem hmem
    have h2 : (s.writers.map (timerPW b)).countP PW.live ≤ s.writers.countP PW.live := by
      apply countP_map_le
      intro p _ hp
      simp only [timerPW] at hp
      cases hc : p.curr with
      | none => simpa [hc] using hp
      | some cb =>
        simp only [hc] at hp
        split at hp
        · simp only [putBatch] at hp; split at hp <;> simpa [PW.live] using hp
        · exact hp
    simp only [State.wg]; omega
  | get i =>
    simp only [step] at h
    split at h
    · injection h with h; subst h
      apply wg_updPWs_le
      intro x hq _
      simp only [Bool.and_eq_true, decide_eq_true_eq] at hq
      simp [PW.live, hq.1]
    · split at h
      · injection h with h; subst h
        exact wg_updPWs_le _ _ _ _ (fun x _ hx => by simp [PW.live] at hx)
      · simp at h
  | attempt i o =>
    simp only [step, Option.ite_none_right_eq_some, Option.some.injEq] at h
    obtain ⟨_, rfl⟩ := h
    apply wg_updPWs_le
    intro x _ hx
    cases hs : x.sender <;> simp [hs, PW.live] at hx ⊢
  | complete i =>
    simp only [step] at h
    split at h
    · split at h
      · rename_i b why _
        injection h with h; subst h
        have := wg_updPWs_le s i (fun q => decide (q.sender = Sender.completing b why)) (fun q => { q with sender := .idle })
          (fun x hq _ => by simp only [decide_eq_true_eq] at hq; simp [PW.live, hq])
        simpa [State.wg, updPWs] using this
      · simp at h
    · simp at h
  | closeMark =>
    simp only [step, Option.ite_none_right_eq_some, Option.some.injEq] at h
    obtain ⟨_, rfl⟩ := h
    have : (s.writers.map closePW).countP PW.live ≤ s.writers.countP PW.live := by
      apply countP_map_le
      intro p _ hp
      simp only [closePW] at hp
      cases hc : p.curr <;> simpa [hc, PW.live] using hp
    simp only [State.wg]; omega
  | closeReturn =>
    simp only [step, Option.ite_none_right_eq_some, Option.some.injEq] at h
    obtain ⟨_, rfl⟩ := h; exact Nat.le_refl _


/-- only the three Close events move the Close phase -/
theorem close_phase_moves (cfg : Cfg) (s s' : State) (e : Event) (hs : step cfg s e = some s') :
    s'.close = s.close ∨ e = .closeBegin ∨ e = .closeMark ∨ e = .closeReturn := by
  cases e with
  | closeBegin => exact Or.inr (Or.inl rfl)
  | closeMark => exact Or.inr (Or.inr (Or.inl rfl))
  | closeReturn => exact Or.inr (Or.inr (Or.inr rfl))
  | callBegin c ms mf =>
    simp only [step] at hs
    split at hs
    · simp at hs
    · injection hs with h; subst h; exact Or.inl rfl
  | batch c =>
    simp only [step] at hs
    split at hs
    · simp at hs
    · split at hs
      · injection hs with h; subst h; exact Or.inl rfl
      · injection hs with h; subst h
        simp only [updCalls]
        exact Or.inl (foldl_addOne_flags cfg _ _).2.1
  | get i =>
    simp only [step] at hs
    split at hs
    · injection hs with h; subst h; exact Or.inl rfl
    · split at hs
      · injection hs with h; subst h; exact Or.inl rfl
      · simp at hs
  | complete i =>
    simp only [step] at hs
    split at hs
    · split at hs
      · injection hs with h; subst h; exact Or.inl rfl
      · simp at hs
    · simp at hs
  | ctxCancel c | enter c | metaReq c | metaRel c | ret c | timer c =>
    simp only [step, Option.ite_none_right_eq_some, Option.some.injEq] at hs
    obtain ⟨_, rfl⟩ := hs; exact Or.inl rfl
  | early c r | leave c r | attempt c r =>
    simp only [step, Option.ite_none_right_eq_some, Option.some.injEq] at hs
    obtain ⟨_, rfl⟩ := hs; exact Or.inl rfl

/-- when Close has returned the WaitGroup is 0 — and stays 0 -/
theorem reachable_returned_quiescent (cfg : Cfg) (hfix : cfg.fixed = true) :
    ∀ s, Reachable cfg s → s.close = 3 → s.wg = 0 := by
  have key : ∀ s, Reachable cfg s → ((2 ≤ s.close ↔ s.closed = true) ∧ (s.close = 3 → s.wg = 0)) := by
    apply reachable_induction cfg (fun s => (2 ≤ s.close ↔ s.closed = true) ∧ (s.close = 3 → s.wg = 0))
    · simp [State.init]
    · intro s e s' ⟨ih1, ih2⟩ hs
      have h1 : (2 ≤ s'.close ↔ s'.closed = true) := by
        rcases step_close_flags cfg s s' e hs with ⟨a, b⟩ | ⟨a0, a, b⟩ | ⟨a, b⟩ | ⟨a0, a, b⟩
        · rw [a, b]; exact ih1
        · rw [a, b, ← ih1, a0]; omega
        · rw [a, b]; simp
        · rw [a, b, ← ih1, a0]; omega
      refine ⟨h1, ?_⟩
      intro h3
      rcases close_phase_moves cfg s s' e hs with hsame | rfl | rfl | rfl
      · have hc3 : s.close = 3 := by omega
        have hcl : s.closed = true := ih1.mp (by omega)
        have := wg_nonincreasing cfg hfix s s' e hcl hs
        have := ih2 hc3
        omega
      · simp only [step, Option.ite_none_right_eq_some, Option.some.injEq] at hs
        obtain ⟨_, rfl⟩ := hs; simp at h3
      · simp only [step, Option.ite_none_right_eq_some, Option.some.injEq] at hs
        obtain ⟨_, rfl⟩ := hs; simp at h3
      · simp only [step, Option.ite_none_right_eq_some, Option.some.injEq, Bool.and_eq_true, decide_eq_true_eq] at hs
        obtain ⟨⟨_, h0⟩, rfl⟩ := hs
        simpa [State.wg] using h0
  intro s hr
  exact (key s hr).2

/-! ### calls invoked after the closed mark -/

def BornOk (x : Call) : Prop :=
  x.bornClosed = true → (x.phase = .invoked ∨ x.phase = .left .closedPipe ∨ x.phase = .returned .closedPipe)

structure BornInv (s : State) : Prop where
  closed : ∀ x ∈ s.calls, x.bornClosed = true → s.closed = true
  phase : ∀ x ∈ s.calls, BornOk x

theorem closed_mono (cfg : Cfg) (s s' : State) (e : Event) (hs : step cfg s e = some s') (hc : s.closed = true) :
    s'.closed = true := by
  rcases step_close_flags cfg s s' e hs with ⟨_, b⟩ | ⟨_, _, b⟩ | ⟨_, b⟩ | ⟨_, _, b⟩
  · rw [b]; exact hc
  · rw [b]; exact hc
  · exact b
  · rw [b]; exact hc

theorem born_updCalls (s : State) (c : Nat) (q : Call → Bool) (f : Call → Call)
    (hf : ∀ x, q x = true → (f x).bornClosed = x.bornClosed ∧ (BornOk x → s.closed = true ∨ x.bornClosed = false → BornOk (f x)))
    (hi : BornInv s) : ∀ y ∈ (updCalls s c q f).calls, BornOk y ∧ (y.bornClosed = true → s.closed = true) := by
  intro y hy
  simp only [updCalls, List.mem_map] at hy
  obtain ⟨x, hx, rfl⟩ := hy
  by_cases hq : (decide (x.id = c) && q x) = true
  · simp only [hq, if_true]
    simp only [Bool.and_eq_true] at hq
    obtain ⟨hb, hok⟩ := hf x hq.2
    refine ⟨?_, fun h => hi.closed x hx (by rw [← hb]; exact h)⟩
    apply hok (hi.phase x hx)
    cases hbc : x.bornClosed with
    | false => exact Or.inr rfl
    | true => exact Or.inl (hi.closed x hx hbc)
  · simp only [hq]
    exact ⟨hi.phase x hx, hi.closed x hx⟩

theorem bornOk_not_active (x : Call) (h : BornOk x) (hp : x.phase = .entered ∨ x.phase = .waiting) : x.bornClosed = false := by
  cases hb : x.bornClosed with
  | false => rfl
  | true =>
    rcases h hb with h1 | h1 | h1 <;> rcases hp with h2 | h2 <;> rw [h1] at h2 <;> cases h2

theorem born_init : BornInv State.init := ⟨by simp [State.init], by simp [State.init]⟩

/-- calls unchanged, closed flag only grows -/
theorem born_same_calls (s s' : State) (hc : s'.calls = s.calls) (hm : s.closed = true → s'.closed = true)
    (hi : BornInv s) : BornInv s' :=
  ⟨fun x hx hb => hm (hi.closed x (hc ▸ hx) hb), fun x hx => hi.phase x (hc ▸ hx)⟩

theorem born_of_upd (s : State) (c : Nat) (q : Call → Bool) (f : Call → Call)
    (hf : ∀ x, q x = true → (f x).bornClosed = x.bornClosed ∧ (BornOk x → s.closed = true ∨ x.bornClosed = false → BornOk (f x)))
    (hi : BornInv s) : BornInv (updCalls s c q f) :=
  ⟨fun y hy hb => (born_updCalls s c q f hf hi y hy).2 hb, fun y hy => (born_updCalls s c q f hf hi y hy).1⟩

theorem born_step (cfg : Cfg) (s s' : State) (e : Event) (hi : BornInv s) (h : step cfg s e = some s') : BornInv s' := by
  have keepPhase : ∀ (x : Call) (y : Call), y.bornClosed = x.bornClosed → y.phase = x.phase →
      (y.bornClosed = x.bornClosed ∧ (BornOk x → s.closed = true ∨ x.bornClosed = false → BornOk y)) := by
    intro x y hb hp
    refine ⟨hb, fun hok _ => ?_⟩
    intro hby; rw [hp]; exact hok (hb ▸ hby)
  have activeCase : ∀ (x y : Call), (x.phase = .entered ∨ x.phase = .waiting) → y.bornClosed = x.bornClosed →
      (y.bornClosed = x.bornClosed ∧ (BornOk x → s.closed = true ∨ x.bornClosed = false → BornOk y)) := by
    intro x y hp hb
    refine ⟨hb, fun hok _ hby => ?_⟩
    have := bornOk_not_active x hok hp
    rw [hb, this] at hby; cases hby
  cases e with
  | callBegin c ms mf =>
    simp only [step] at h
    split at h
    · simp at h
    · injection h with h; subst h
      constructor
      · intro x hx hb
        rcases List.mem_append.mp hx with hx | hx
        · exact hi.closed x hx hb
        · simp only [List.mem_singleton] at hx; subst hx; exact hb
      · intro x hx
        rcases List.mem_append.mp hx with hx | hx
        · exact hi.phase x hx
        · simp only [List.mem_singleton] at hx; subst hx; intro _; exact Or.inl rfl
  | ctxCancel c =>
    simp only [step, Option.ite_none_right_eq_some, Option.some.injEq] at h
    obtain ⟨_, rfl⟩ := h
    exact born_of_upd s c _ _ (fun x _ => keepPhase x _ rfl rfl) hi
  | metaReq c =>
    simp only [step, Option.ite_none_right_eq_some, Option.some.injEq] at h
    obtain ⟨_, rfl⟩ := h
    exact born_of_upd s c _ _ (fun x _ => keepPhase x _ rfl rfl) hi
  | metaRel c =>
    simp only [step, Option.ite_none_right_eq_some, Option.some.injEq] at h
    obtain ⟨_, rfl⟩ := h
    exact born_of_upd s c _ _ (fun x _ => keepPhase x _ rfl rfl) hi
  | enter c =>
    simp only [step, Option.ite_none_right_eq_some, Option.some.injEq] at h
    obtain ⟨_, rfl⟩ := h
    apply born_of_upd s c _ _ _ hi
    intro x _
    refine ⟨rfl, fun _ hor hby => ?_⟩
    rcases hor with hcl | hnb
    · simp [hcl]
    · simp only at hby; rw [hnb] at hby; cases hby
  | early c r =>
    simp only [step, Option.ite_none_right_eq_some, Option.some.injEq] at h
    obtain ⟨_, rfl⟩ := h
    apply born_of_upd s c _ _ _ hi
    intro x hq
    simp only [decide_eq_true_eq] at hq
    exact activeCase x _ (Or.inl hq) rfl
  | leave c r =>
    simp only [step, Option.ite_none_right_eq_some, Option.some.injEq] at h
    obtain ⟨_, rfl⟩ := h
    apply born_of_upd s c _ _ _ hi
    intro x hq
    simp only [decide_eq_true_eq] at hq
    exact activeCase x _ (Or.inr hq) rfl
  | ret c =>
    simp only [step, Option.ite_none_right_eq_some, Option.some.injEq] at h
    obtain ⟨_, rfl⟩ := h
    apply born_of_upd s c _ _ _ hi
    intro x _
    simp only [Call.doReturn]
    cases hp : x.phase with
    | left r =>
      refine ⟨rfl, fun hok _ hby => ?_⟩
      rcases hok hby with h1 | h1 | h1 <;> rw [hp] at h1 <;> simp at h1
      subst h1; exact Or.inr (Or.inr rfl)
    | _ => exact keepPhase x _ rfl rfl
  | batch c =>
    simp only [step] at h
    split at h
    · simp at h
    · rename_i x hfind
      have hxp := List.find?_some hfind
      simp only [Bool.and_eq_true, decide_eq_true_eq] at hxp
      split at h
      · injection h with h; subst h
        apply born_of_upd s c _ _ _ hi
        intro y hq
        simp only [decide_eq_true_eq] at hq
        exact activeCase y _ (Or.inl hq) rfl
      · injection h with h; subst h
        have hfl := foldl_addOne_flags cfg x.msgs s
        have hi1 : BornInv (x.msgs.foldl (addOne cfg) s) :=
          born_same_calls s _ hfl.2.2.1 (fun hc => by rw [hfl.1]; exact hc) hi
        apply born_of_upd _ c _ _ _ hi1
        intro y hq
        simp only [beq_iff_eq] at hq
        subst hq
        exact ⟨rfl, fun hok _ hby => by
          have := bornOk_not_active y hok (Or.inl hxp.1.1.2)
          simp only at hby; rw [this] at hby; cases hby⟩
  | closeBegin =>
    simp only [step, Option.ite_none_right_eq_some, Option.some.injEq] at h
    obtain ⟨_, rfl⟩ := h; exact born_same_calls s _ rfl (fun hc => hc) hi
  | closeMark =>
    simp only [step, Option.ite_none_right_eq_some, Option.some.injEq] at h
    obtain ⟨_, rfl⟩ := h; exact born_same_calls s _ rfl (fun _ => rfl) hi
  | closeReturn =>
    simp only [step, Option.ite_none_right_eq_some, Option.some.injEq] at h
    obtain ⟨_, rfl⟩ := h; exact born_same_calls s _ rfl (fun hc => hc) hi
  | timer b =>
    simp only [step, Option.ite_none_right_eq_some, Option.some.injEq] at h
    obtain ⟨_, rfl⟩ := h; exact born_same_calls s _ rfl (fun hc => hc) hi
  | get i =>
    simp only [step] at h
    split at h
    · injection h with h; subst h; exact born_same_calls s _ rfl (fun hc => hc) hi
    · split at h
      · injection h with h; subst h; exact born_same_calls s _ rfl (fun hc => hc) hi
      · simp at h
  | attempt i o =>
    simp only [step, Option.ite_none_right_eq_some, Option.some.injEq] at h
    obtain ⟨_, rfl⟩ := h; exact born_same_calls s _ rfl (fun hc => hc) hi
  | complete i =>
    simp only [step] at h
    split at h
    · split at h
      · injection h with h; subst h; exact born_same_calls s _ rfl (fun hc => hc) hi
      · simp at h
    · simp at h

theorem reachable_born (cfg : Cfg) : ∀ s, Reachable cfg s → BornInv s :=
  reachable_induction cfg BornInv born_init (fun s e s' hi hs => born_step cfg s s' e hi hs)

end KV.WriterClose
