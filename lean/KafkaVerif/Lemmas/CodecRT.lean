/-
Lemmas/CodecRT.lean — the round-trip statement `RT` and its proof per constructor of `Ty`
(the mutual induction that ties them together is in Props/C04.lean).
-/
import KafkaVerif.Lemmas.CodecPrim

namespace KV.Codec
open KV KV.Wire

/-- decoding what was encoded returns the normalised value, consumes exactly the encoding and leaves the
rest of the stream and of the frame untouched — for either decoder configuration -/
def RT (cfg : Cfg) (t : Ty) : Prop :=
  cfg.recs = none → t.wf = true → ∀ v, wt t v = true → ∀ (r : Bytes) (rem : Nat), (encode t v).length ≤ rem →
    decode cfg t ⟨encode t v ++ r, rem⟩ = .ok (norm t v) ⟨r, rem - (encode t v).length⟩

theorem rt_bool (cfg : Cfg) : RT cfg .bool := by
  intro _ _ v hv r rem hr
  cases v <;> simp [wt] at hv
  rename_i b
  have hl : (encBool b).length = 1 := by simp [encBool]
  simp only [encode, decode, norm] at hr ⊢
  rw [readN_append 1 rem _ r hl (by omega)]
  cases b <;> simp [Res.bind, encBool, fromBE]

theorem rt_int (cfg : Cfg) (t : Ty) (k : Nat) (hk : 0 < k)
    (henc : ∀ i, encode t (.int i) = encInt k i)
    (hdec : ∀ d, decode cfg t d = (readInt k d).bind fun i d => .ok (.int i) d)
    (hwt : ∀ v, wt t v = true → ∃ i, v = .int i ∧ inRange (8 * k) i = true)
    (hnorm : ∀ v, norm t v = v) : RT cfg t := by
  intro _ _ v hv r rem hr
  obtain ⟨i, rfl, hi⟩ := hwt v hv
  rw [henc] at hr ⊢
  rw [encInt_length] at hr
  rw [hdec, readInt_encInt k i rem r hk hi hr, hnorm, encInt_length]
  rfl

theorem rt_int8 (cfg : Cfg) : RT cfg .int8 :=
  rt_int cfg .int8 1 (by decide) (fun _ => by simp [encode]) (fun _ => by simp [decode])
    (fun v h => by cases v <;> simp [wt] at h; exact ⟨_, rfl, h⟩) (fun v => by cases v <;> simp [norm])
theorem rt_int16 (cfg : Cfg) : RT cfg .int16 :=
  rt_int cfg .int16 2 (by decide) (fun _ => by simp [encode]) (fun _ => by simp [decode])
    (fun v h => by cases v <;> simp [wt] at h; exact ⟨_, rfl, h⟩) (fun v => by cases v <;> simp [norm])
theorem rt_int32 (cfg : Cfg) : RT cfg .int32 :=
  rt_int cfg .int32 4 (by decide) (fun _ => by simp [encode]) (fun _ => by simp [decode])
    (fun v h => by cases v <;> simp [wt] at h; exact ⟨_, rfl, h⟩) (fun v => by cases v <;> simp [norm])
theorem rt_int64 (cfg : Cfg) : RT cfg .int64 :=
  rt_int cfg .int64 8 (by decide) (fun _ => by simp [encode]) (fun _ => by simp [decode])
    (fun v h => by cases v <;> simp [wt] at h; exact ⟨_, rfl, h⟩) (fun v => by cases v <;> simp [norm])

theorem rt_float64 (cfg : Cfg) : RT cfg .float64 := by
  intro _ _ v hv r rem hr
  cases v <;> simp [wt] at hv
  rename_i i
  simp only [encode, decode, norm] at hr ⊢
  rw [encInt_length] at hr
  rw [readN_append 8 rem _ r (encInt_length 8 i) hr, encInt_length]
  simp only [Res.bind, encInt]
  rw [fromBE_be]
  have h1 : toU (8 * 8) i = i.toNat := by
    unfold toU
    have : i % ((2 ^ (8 * 8) : Nat) : Int) = i := Int.emod_eq_of_lt hv.1 (by simpa using hv.2)
    rw [this]
  have h2 : i.toNat < 256 ^ 8 := by
    have : (256 : Nat) ^ 8 = 2 ^ 64 := by decide
    omega
  rw [h1, Nat.mod_eq_of_lt h2]
  congr 2
  omega

/-- reading a length prefix `p` and then `bs`: common tail of string / bytes / records -/
theorem readLen_after (cfg : Cfg) (bs r : Bytes) (rem k : Nat) (hr : k + bs.length ≤ rem) :
    readLen cfg (bs.length : Int) ⟨bs ++ r, rem - k⟩ = .ok bs ⟨r, rem - (k + bs.length)⟩ := by
  rw [readLen_append cfg _ (rem - k) bs r rfl (by omega)]
  congr 2
  omega

theorem rt_string (cfg : Cfg) (c n : Bool) : RT cfg (.string c n) := by
  intro _ _ v hv r rem hr
  cases v <;> simp [wt] at hv
  rename_i s
  simp only [encode, norm] at hr ⊢
  unfold encString at hr ⊢
  cases c
  · -- int16 length prefix
    simp only [Bool.false_eq_true, if_false] at hv hr ⊢
    by_cases hnull : (n && s.isEmpty) = true
    · simp only [hnull, if_true] at hr ⊢
      rw [encInt_length] at hr
      have hs : s = [] := by
        simp only [Bool.and_eq_true, List.isEmpty_iff] at hnull; exact hnull.2
      subst hs
      simp only [decode, Bool.false_eq_true, if_false]
      rw [readInt_encInt 2 (-1) rem r (by decide) (by decide) hr, encInt_length]
      simp [Res.bind]
    · simp only [hnull, Bool.false_eq_true, if_false, List.length_append, encInt_length] at hr ⊢
      simp only [decode, Bool.false_eq_true, if_false, List.append_assoc]
      have hin : inRange (8 * 2) (s.length : Int) = true := by
        simp only [inRange, Bool.and_eq_true, decide_eq_true_eq]; constructor <;> omega
      rw [readInt_encInt 2 _ rem _ (by decide) hin (by omega)]
      have h0 : ¬ ((s.length : Int) < 0) := by omega
      simp only [Res.bind, h0, if_false]
      rw [readLen_after cfg s r rem 2 hr]
  · -- compact
    simp only [if_true] at hv hr ⊢
    by_cases hnull : (n && s.isEmpty) = true
    · simp only [hnull, if_true] at hr ⊢
      have hs : s = [] := by
        simp only [Bool.and_eq_true, List.isEmpty_iff] at hnull; exact hnull.2
      subst hs
      simp only [decode, if_true]
      rw [readUvarint_uvarint 0 rem r (by decide) hr]
      simp [Res.bind]
    · simp only [hnull, Bool.false_eq_true, if_false, List.length_append] at hr ⊢
      simp only [decode, if_true, List.append_assoc]
      rw [readUvarint_uvarint (s.length + 1) rem _ (by omega) (by omega)]
      have h1 : ¬ (s.length + 1 < 1) := by omega
      simp only [Res.bind, h1, if_false, Nat.add_sub_cancel]
      rw [lenOfU_small cfg s.length (by omega), readLen_after cfg s r rem _ hr]

theorem rt_bytes (cfg : Cfg) (c n : Bool) : RT cfg (.bytes c n) := by
  intro _ _ v hv r rem hr
  cases v <;> simp [wt] at hv
  rename_i b
  simp only [encode] at hr ⊢
  -- the null case
  by_cases hnull : b = none ∧ n = true
  · obtain ⟨rfl, rfl⟩ := hnull
    simp only [encBytes, norm] at hr ⊢
    cases c
    · simp only [Bool.false_eq_true, if_false, encInt_length] at hr ⊢
      simp only [decode, Bool.false_eq_true, if_false]
      rw [readInt_encInt 4 (-1) rem r (by decide) (by decide) hr]
      simp [Res.bind]
    · simp only [if_true] at hr ⊢
      simp only [decode, if_true]
      rw [readUvarint_uvarint 0 rem r (by decide) hr]
      simp [Res.bind]
  · -- a length prefix followed by the bytes
    have henc : encBytes c n b = (if c then uvarint ((b.getD []).length + 1) else encInt 4 (b.getD []).length) ++ b.getD [] := by
      unfold encBytes
      cases b <;> cases n <;> cases c <;> simp_all
    have hnorm : norm (.bytes c n) (.bytes b) = .bytes (some (b.getD [])) := by
      cases b <;> cases n <;> simp_all [norm]
    rw [henc] at hr ⊢
    rw [hnorm]
    generalize b.getD [] = s at hv hr ⊢
    cases c
    · simp only [Bool.false_eq_true, if_false, List.length_append, encInt_length] at hr ⊢
      simp only [decode, Bool.false_eq_true, if_false, List.append_assoc]
      have hin : inRange (8 * 4) (s.length : Int) = true := by
        simp only [inRange, Bool.and_eq_true, decide_eq_true_eq]; constructor <;> omega
      rw [readInt_encInt 4 _ rem _ (by decide) hin (by omega)]
      have h0 : ¬ ((s.length : Int) < 0) := by omega
      simp only [Res.bind, h0, if_false]
      rw [readLen_after cfg s r rem 4 hr]
    · simp only [if_true, List.length_append] at hr ⊢
      simp only [decode, if_true, List.append_assoc]
      rw [readUvarint_uvarint (s.length + 1) rem _ (by omega) (by omega)]
      have h1 : ¬ (s.length + 1 < 1) := by omega
      simp only [Res.bind, h1, if_false, Nat.add_sub_cancel]
      rw [lenOfU_small cfg s.length (by omega), readLen_after cfg s r rem _ hr]

theorem rt_records (cfg : Cfg) : RT cfg .records := by
  intro hrec _ v hv r rem hr
  have : ∃ s, v = .records (some s) ∧ 0 < s.length ∧ s.length < 2 ^ 31 := by
    cases v with
    | records p => cases p with
      | none => simp [wt] at hv
      | some s => simp [wt] at hv; exact ⟨s, rfl, hv⟩
    | _ => simp [wt] at hv
  obtain ⟨s, rfl, hv⟩ := this
  simp only [encode, norm, List.length_append, encInt_length] at hr ⊢
  simp only [decode, hrec, List.append_assoc]
  have hin : inRange (8 * 4) (s.length : Int) = true := by
    simp only [inRange, Bool.and_eq_true, decide_eq_true_eq]; constructor <;> omega
  rw [readInt_encInt 4 _ rem _ (by decide) hin (by omega)]
  have h0 : ¬ ((s.length : Int) ≤ 0) := by omega
  simp only [Res.bind, h0, if_false]
  rw [readLen_after cfg s r rem 4 hr]

/-! ### positive width -/

/-- a value of a `posWidth` type occupies at least one byte -/
def PW (t : Ty) : Prop := posWidth t = true → ∀ v, wt t v = true → 0 < (encode t v).length

theorem pw_of_len (t : Ty) (k : Nat) (hk : 0 < k) (h : ∀ v, wt t v = true → (encode t v).length ≥ k) : PW t :=
  fun _ v hv => by have := h v hv; omega

theorem pw_bool : PW .bool := pw_of_len _ 1 (by decide) fun v hv => by
  cases v <;> simp [wt] at hv; simp [encode, encBool]
theorem pw_int8 : PW .int8 := pw_of_len _ 1 (by decide) fun v hv => by
  cases v <;> simp [wt] at hv; simp [encode, encInt_length]
theorem pw_int16 : PW .int16 := pw_of_len _ 1 (by decide) fun v hv => by
  cases v <;> simp [wt] at hv; simp [encode, encInt_length]
theorem pw_int32 : PW .int32 := pw_of_len _ 1 (by decide) fun v hv => by
  cases v <;> simp [wt] at hv; simp [encode, encInt_length]
theorem pw_int64 : PW .int64 := pw_of_len _ 1 (by decide) fun v hv => by
  cases v <;> simp [wt] at hv; simp [encode, encInt_length]
theorem pw_float64 : PW .float64 := pw_of_len _ 1 (by decide) fun v hv => by
  cases v <;> simp [wt] at hv; simp [encode, encInt_length]

theorem pw_string (c n : Bool) : PW (.string c n) := pw_of_len _ 1 (by decide) fun v hv => by
  cases v <;> simp [wt] at hv
  rename_i s
  have := uvarint_length_pos 0
  have := uvarint_length_pos (s.length + 1)
  simp only [encode, encString]
  split <;> split <;> simp [encInt_length] <;> omega

theorem pw_bytes (c n : Bool) : PW (.bytes c n) := pw_of_len _ 1 (by decide) fun v hv => by
  cases v <;> simp [wt] at hv
  rename_i b
  have := uvarint_length_pos 0
  have := uvarint_length_pos ((b.getD []).length + 1)
  simp only [encode, encBytes]
  split
  · split <;> simp [encInt_length] <;> omega
  · split <;> simp [encInt_length] <;> omega

theorem encArrayLen_pos (c n : Bool) (a : Option (List Val)) : 0 < (encArrayLen c n a).length := by
  have := uvarint_length_pos 0
  have := uvarint_length_pos ((a.getD []).length + 1)
  unfold encArrayLen
  split
  · split <;> simp [encInt_length] <;> omega
  · split <;> simp [encInt_length] <;> omega

theorem pw_array (c n : Bool) (t : Ty) : PW (.array c n t) := pw_of_len _ 1 (by decide) fun v hv => by
  cases v <;> simp [wt] at hv
  rename_i a
  have := encArrayLen_pos c n a
  simp only [encode, List.length_append]
  omega

theorem pw_records : PW .records := pw_of_len _ 1 (by decide) fun v hv => by
  cases v with
  | records p => cases p with
    | none => simp [wt] at hv
    | some s => simp [encode, encInt_length]; omega
  | _ => simp [wt] at hv

theorem pw_unit (flex : Bool) : PW (.unit flex) := fun hp v _ => by
  simp only [posWidth] at hp
  subst hp
  simp only [encode, if_true]
  exact uvarint_length_pos 0

theorem encodeFields_pos : ∀ (fs : List Ty), (∀ t ∈ fs, PW t) → posWidthAny fs = true →
    ∀ vs, wtFields fs vs = true → 0 < (encodeFields fs vs).length
  | [], _, hp, _, _ => by simp [posWidthAny] at hp
  | t :: ts, hpw, hp, vs, hv => by
    cases vs with
    | nil => simp [wtFields] at hv
    | cons v vs =>
      simp only [wtFields, Bool.and_eq_true] at hv
      simp only [posWidthAny, Bool.or_eq_true, Bool.and_eq_true, Bool.not_eq_true'] at hp
      simp only [encodeFields, List.length_append]
      rcases hp with ⟨hz, hp⟩ | hp
      · have := hpw t (by simp) hp v hv.1
        simp [hz]; omega
      · have := encodeFields_pos ts (fun t' h => hpw t' (by simp [h])) hp vs hv.2
        omega

theorem pw_struct (flex : Bool) (fs : List Ty) (ids : List Int) (ts : List Ty) (hfs : ∀ t ∈ fs, PW t) :
    PW (.struct flex fs ids ts) := fun hp v hv => by
  cases v <;> simp [wt] at hv
  rename_i vs tvs
  simp only [posWidth, Bool.or_eq_true] at hp
  simp only [encode, List.length_append]
  rcases hp with hf | hp
  · subst hf
    have := uvarint_length_pos (countTagged ts)
    simp; omega
  · have := encodeFields_pos fs hfs hp vs hv.1
    omega

/-! ### arrays -/

theorem elems_length_le (t : Ty) (hpw : PW t) (hp : posWidth t = true) :
    ∀ vs, wtElems t vs = true → vs.length ≤ (encodeElems t vs).length
  | [], _ => by simp
  | v :: vs, hv => by
    simp only [wtElems, Bool.and_eq_true] at hv
    have := hpw hp v hv.1
    have := elems_length_le t hpw hp vs hv.2
    simp only [encodeElems, List.length_append, List.length_cons]
    omega

theorem rt_elems (cfg : Cfg) (hrec : cfg.recs = none) (t : Ty) (ht : RT cfg t) (hpw : PW t) (hwf : t.wf = true) (hp : posWidth t = true) :
    ∀ vs, wtElems t vs = true → ∀ (r : Bytes) (rem : Nat), (encodeElems t vs).length ≤ rem →
      decodeElems (decode cfg t) (zero t) vs.length ⟨encodeElems t vs ++ r, rem⟩
        = .ok (normElems t vs) ⟨r, rem - (encodeElems t vs).length⟩
  | [], _, r, rem, _ => by simp [decodeElems, encodeElems, normElems]
  | v :: vs, hv, r, rem, hr => by
    simp only [wtElems, Bool.and_eq_true] at hv
    have hpos := hpw hp v hv.1
    simp only [encodeElems, List.length_append] at hr
    simp only [List.length_cons, decodeElems, encodeElems, normElems, List.append_assoc]
    have h0 : ¬ (rem = 0) := by omega
    simp only [h0, if_false]
    rw [ht hrec hwf v hv.1 _ rem (by omega)]
    simp only [Res.bind]
    rw [rt_elems cfg hrec t ht hpw hwf hp vs hv.2 r _ (by omega)]
    simp only [List.length_append]
    congr 2
    omega

theorem rt_array (cfg : Cfg) (c n : Bool) (t : Ty) (ht : RT cfg t) (hpw : PW t) : RT cfg (.array c n t) := by
  intro hrec hwf v hv r rem hr
  simp only [Ty.wf, Bool.and_eq_true, Bool.not_eq_true'] at hwf
  obtain ⟨⟨hp, _⟩, hwft⟩ := hwf
  cases v <;> simp [wt] at hv
  rename_i a
  simp only [encode] at hr ⊢
  by_cases hnull : a = none ∧ n = true
  · obtain ⟨rfl, rfl⟩ := hnull
    simp only [encArrayLen, norm, Option.getD_none, encodeElems, List.append_nil] at hr ⊢
    cases c
    · simp only [Bool.false_eq_true, if_false, encInt_length] at hr ⊢
      simp only [decode, Bool.false_eq_true, if_false]
      rw [readInt_encInt 4 (-1) rem r (by decide) (by decide) hr]
      simp [Res.bind]
    · simp only [if_true] at hr ⊢
      simp only [decode, if_true]
      rw [readUvarint_uvarint 0 rem r (by decide) hr]
      simp [Res.bind]
  · have henc : encArrayLen c n a = (if c then uvarint ((a.getD []).length + 1) else encInt 4 (a.getD []).length) := by
      unfold encArrayLen
      cases a <;> cases n <;> cases c <;> simp_all
    have hnorm : norm (.array c n t) (.arr a) = .arr (some (normElems t (a.getD []))) := by
      cases a <;> cases n <;> simp_all [norm]
    rw [henc] at hr ⊢
    rw [hnorm]
    generalize a.getD [] = vs at hv hr ⊢
    have hle := elems_length_le t hpw hp vs hv.2
    cases c
    · simp only [Bool.false_eq_true, if_false, List.length_append, encInt_length] at hr ⊢
      simp only [decode, Bool.false_eq_true, if_false, List.append_assoc]
      have hin : inRange (8 * 4) (vs.length : Int) = true := by
        simp only [inRange, Bool.and_eq_true, decide_eq_true_eq]; constructor <;> omega
      rw [readInt_encInt 4 _ rem _ (by decide) hin (by omega)]
      have h0 : ¬ ((vs.length : Int) < 0) := by omega
      simp only [Res.bind, h0, if_false]
      rw [allocElems_ok cfg vs.length _ (by simp; omega) (by simp; omega)]
      simp only [Res.bind]
      rw [rt_elems cfg hrec t ht hpw hwft hp vs hv.2 r _ (by omega)]
      simp only [Res.bind, Nat.sub_sub]
    · simp only [if_true, List.length_append] at hr ⊢
      simp only [decode, if_true, List.append_assoc]
      rw [readUvarint_uvarint (vs.length + 1) rem _ (by omega) (by omega)]
      have h1 : ¬ (vs.length + 1 < 1) := by omega
      simp only [Res.bind, h1, if_false, Nat.add_sub_cancel]
      rw [lenOfU_small cfg vs.length (by omega), allocElems_ok cfg vs.length _ (by simp; omega) (by simp; omega)]
      simp only []
      rw [rt_elems cfg hrec t ht hpw hwft hp vs hv.2 r _ (by omega)]
      simp only []
      congr 2
      omega

/-! ### structs -/

theorem rt_unit (cfg : Cfg) (flex : Bool) : RT cfg (.unit flex) := by
  intro _ _ v hv r rem hr
  have hvs : v = .struct [] [] := by
    cases v with
    | struct a b => cases a <;> cases b <;> simp [wt] at hv; rfl
    | _ => simp [wt] at hv
  subst hvs
  cases flex
  · simp [encode, decode, norm]
  · simp only [encode, if_true, norm] at hr ⊢
    simp only [decode, if_true]
    rw [readUvarint_uvarint 0 rem r (by decide) hr]
    have hl : lenOfU cfg 0 = 0 := lenOfU_small cfg 0 (by decide)
    simp [Res.bind, tagCount, hl, taggedLoop]

theorem marker_zeroSize (t : Ty) (h : isMarker t = true) : t.zeroSize = true := by
  cases t <;> simp [isMarker] at h; simp [Ty.zeroSize]

theorem countTagged_markers : ∀ ts : List Ty, ts.all isMarker = true → countTagged ts = 0
  | [], _ => rfl
  | t :: ts, h => by
    simp only [List.all_cons, Bool.and_eq_true] at h
    simp [countTagged, marker_zeroSize t h.1, countTagged_markers ts h.2]

theorem encodeTagged_markers : ∀ (ids : List Int) (ts : List Ty) (tvs : List Val), ts.all isMarker = true →
    encodeTagged ids ts tvs = []
  | [], _, _, _ => by simp [encodeTagged]
  | _ :: _, [], _, _ => by simp [encodeTagged]
  | _ :: _, _ :: _, [], _ => by simp [encodeTagged]
  | i :: is, t :: ts, v :: vs, h => by
    simp only [List.all_cons, Bool.and_eq_true] at h
    simp [encodeTagged, marker_zeroSize t h.1, encodeTagged_markers is ts vs h.2]

theorem normFields_markers : ∀ (ts : List Ty) (tvs : List Val), ts.all isMarker = true → wtFields ts tvs = true →
    normFields ts tvs = zeros ts
  | [], [], _, _ => by simp [normFields, zeros]
  | [], _ :: _, _, h => by simp [wtFields] at h
  | _ :: _, [], _, h => by simp [wtFields] at h
  | t :: ts, v :: vs, hm, h => by
    simp only [List.all_cons, Bool.and_eq_true] at hm
    simp only [wtFields, Bool.and_eq_true] at h
    obtain ⟨hm1, hm2⟩ := hm
    have ih := normFields_markers ts vs hm2 h.2
    cases t <;> simp [isMarker] at hm1
    have hvs : v = .struct [] [] := by
      cases v with
      | struct a b => cases a <;> cases b <;> simp [wt] at h; rfl
      | _ => simp [wt] at h
    subst hvs
    simp [normFields, zeros, zero, norm, ih]

theorem regular_encode (t : Ty) (v : Val) (h : regularOk t = true) :
    (if t.zeroSize then [] else encode t v) = encode t v := by
  cases t <;> simp [Ty.zeroSize]
  simp only [regularOk, Bool.not_eq_true'] at h
  subst h
  simp [encode]

theorem rt_fields (cfg : Cfg) (hrec : cfg.recs = none) : ∀ (fs : List Ty), (∀ t ∈ fs, RT cfg t) → wfList fs = true → fs.all regularOk = true →
    ∀ vs, wtFields fs vs = true → ∀ (r : Bytes) (rem : Nat), (encodeFields fs vs).length ≤ rem →
      decodeFields cfg fs ⟨encodeFields fs vs ++ r, rem⟩ = .ok (normFields fs vs) ⟨r, rem - (encodeFields fs vs).length⟩
  | [], _, _, _, vs, hv, r, rem, _ => by
    cases vs <;> simp [wtFields] at hv
    simp [decodeFields, encodeFields, normFields]
  | t :: ts, hrt, hwf, hreg, vs, hv, r, rem, hr => by
    cases vs with
    | nil => simp [wtFields] at hv
    | cons v vs =>
      simp only [wtFields, Bool.and_eq_true] at hv
      simp only [wfList, Bool.and_eq_true] at hwf
      simp only [List.all_cons, Bool.and_eq_true] at hreg
      simp only [encodeFields, regular_encode t v hreg.1, List.length_append] at hr ⊢
      simp only [decodeFields, normFields, List.append_assoc]
      rw [hrt t (by simp) hrec hwf.1 v hv.1 _ rem (by omega)]
      simp only [Res.bind]
      rw [rt_fields cfg hrec ts (fun t' h => hrt t' (by simp [h])) hwf.2 hreg.2 vs hv.2 r _ (by omega)]
      simp only [Res.bind, Nat.sub_sub]

theorem rt_struct (cfg : Cfg) (flex : Bool) (fs : List Ty) (ids : List Int) (ts : List Ty)
    (hfs : ∀ t ∈ fs, RT cfg t) : RT cfg (.struct flex fs ids ts) := by
  intro hrec hwf v hv r rem hr
  simp only [Ty.wf, Bool.and_eq_true] at hwf
  obtain ⟨⟨⟨hwfl, hreg⟩, hmark⟩, _⟩ := hwf
  cases v <;> simp [wt] at hv
  rename_i vs tvs
  simp only [encode, norm, countTagged_markers ts hmark, encodeTagged_markers ids ts tvs hmark,
    List.append_nil, normFields_markers ts tvs hmark hv.2] at hr ⊢
  simp only [decode]
  cases flex
  · simp only [Bool.false_eq_true, if_false, List.append_nil] at hr ⊢
    rw [rt_fields cfg hrec fs hfs hwfl hreg vs hv.1 r rem hr]
    simp [Res.bind]
  · simp only [if_true, List.length_append] at hr ⊢
    rw [List.append_assoc, rt_fields cfg hrec fs hfs hwfl hreg vs hv.1 _ rem (by omega)]
    simp only [Res.bind]
    rw [readUvarint_uvarint 0 _ r (by decide) (by omega)]
    have hl : lenOfU cfg 0 = 0 := lenOfU_small cfg 0 (by decide)
    simp only [tagCount, hl]
    simp [taggedLoop]
    omega

end KV.Codec
