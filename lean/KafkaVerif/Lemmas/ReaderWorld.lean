/-
Lemmas/ReaderWorld.lean — the three layers composed: the decoder as written (Model/PullReader) on what a
contract-obeying broker serves (Spec/Layout) produces fetch rounds that are `Good` in the sense of Lemmas/ReaderRun,
so the invariant of the reader loop holds with nothing assumed about the `read` calls.
-/
import KafkaVerif.Model.ReaderWorld
import KafkaVerif.Lemmas.ReaderRun
import KafkaVerif.Lemmas.PullReader

namespace KV.C02

/-- one fetch round at conn offset `q` on the first `n` bytes of what the broker has from `q` on, deadline passed or
not (`fetch_round` is the case `n = serveBudget …`, `e = false`) -/
theorem fetch_round_gen (items : List Item) (nb : Int) (hnb : 0 ≤ nb) (hwf : LWF nb items) (hwm q : Int) (hq : 0 ≤ q)
    (e : Bool) (n : Nat) :
    let res := readAll .fixed e q hwm (truncate (allTokens (dropBefore q items)) n)
    (∀ r ∈ res.1, r ∈ allRecords items ∧ q ≤ r.1 ∧ r.1 < res.2.1) ∧
    (∀ r ∈ allRecords items, q ≤ r.1 → r.1 < res.2.1 → r ∈ res.1) ∧
    res.1.Pairwise (fun a b => a.1 < b.1) ∧
    res.2.2 ≠ .desync ∧
    ((∀ it rest, dropBefore q items = it :: rest → it.size ≤ n) →
      q ≤ res.2.1 ∧ (hwm ≠ q → dropBefore q items ≠ [] → q < res.2.1)) := by
  by_cases hne : hwm = q
  · simp [readAll, hne]
  · obtain ⟨d1, d2, d3, d4⟩ := dropBefore_spec q hwf
    have hsafe : Safe q (dropBefore q items) := by
      cases hsub : dropBefore q items with
      | nil => trivial
      | cons it rest => rw [hsub] at d1; exact safe_of_contract d1 (d4 it rest hsub)
    have hp := layout_run e q (dropBefore q items) nb { off := q } n d1 hsafe (bnd_init hq hnb _)
    have hrun : readAll .fixed e q hwm (truncate (allTokens (dropBefore q items)) n)
        = ((runCut .fixed e q { off := q } (allTokens (dropBefore q items)) n).1.out,
           (runCut .fixed e q { off := q } (allTokens (dropBefore q items)) n).1.off,
           (runCut .fixed e q { off := q } (allTokens (dropBefore q items)) n).2) := by
      simp only [readAll, hne, if_false, run_truncate]
    rw [hrun]
    simp only
    have hout := hp.out
    simp only [List.nil_append] at hout
    refine ⟨?_, ?_, hp.resok.2, hp.ok, ?_⟩
    · intro r hr
      have hb := hp.resok.1 r hr
      rw [hout] at hr
      simp only [List.mem_filter] at hr
      exact ⟨d3 r (contained_subset _ _ r hr.1), hb⟩
    · intro r hr h1 h2
      rcases d2 r hr with hlt | hsub
      · omega
      · rw [hout]
        simp only [List.mem_filter, decide_eq_true_eq]
        exact ⟨hp.nogap r hsub h1 h2, h1⟩
    · intro hfirst
      cases hsub : dropBefore q items with
      | nil => exact ⟨by cases e <;> simp [allTokens, runCut, finish], fun _ h => absurd rfl h⟩
      | cons it rest =>
        have hpr := hp.prog
        rw [hsub] at hpr
        have : it.size ≤ n := hfirst it rest hsub
        have hlast := d4 it rest hsub
        have := hpr (it.last + 1) (by simp [progLB, this, hlast])
        exact ⟨by omega, fun _ _ => by omega⟩

/-- the same round read by the decoder as written -/
theorem fetch_round_pull (items : List Item) (nb : Int) (hnb : 0 ≤ nb) (hwf : LWF nb items) (hwm q : Int) (hq : 0 ≤ q)
    (e : Bool) (n : Nat) :
    Pull.readAll e q hwm (truncate (allTokens (dropBefore q items)) n)
      = readAll .fixed e q hwm (truncate (allTokens (dropBefore q items)) n) := by
  have h := fetch_round_gen items nb hnb hwf hwm q hq e n
  exact pull_eq_run_all e q hwm _ (allWF_truncate _ _ (allWF_tokens _ nb (dropBefore_spec q hwf).1)) h.2.2.2.1

theorem rstep_data_noop (cfg : RCfg) (s : RR) (hp : s.phase ≠ .reading) (d : List Rec) (off' : Int) (oc : Outcome) :
    rstep cfg s (.data d off' oc) = s := by
  unfold rstep
  cases h : s.phase with
  | reading => exact absurd h hp
  | stopped => rfl
  | top => simp only []; split <;> rfl

theorem rstep_cut_noop (cfg : RCfg) (s : RR) (hp : s.phase ≠ .reading) (d : List Rec) :
    rstep cfg s (.cutAfter d) = s := by
  unfold rstep
  cases h : s.phase with
  | reading => exact absurd h hp
  | stopped => rfl
  | top => simp only []; split <;> rfl

/-- the computed events keep the loop invariant -/
theorem rinv_world_step (cfg : RCfg) (items : List Item) (nb : Int) (hnb : 0 ≤ nb) (hwf : LWF nb items) {s : RR}
    (h : RInv (allRecords items) s) (x : Env) (hx : x.ok items) :
    RInv (allRecords items) (rstep cfg s (worldEvent items s x)) := by
  have hq : s.phase = .reading → 0 ≤ s.connOff := by
    intro hr
    obtain ⟨hst, hoc, _⟩ := h.conn hr
    cases hs : s.start with
    | none => exact absurd hs hst
    | some st => have := h.bounds st hs; omega
  cases x with
  | fetch b hwm e =>
    by_cases hr : s.phase = .reading
    · apply rinv_step cfg _ h
      simp only [worldEvent, serve, Good]
      rw [fetch_round_pull items nb hnb hwf hwm s.connOff (hq hr) e _]
      obtain ⟨f1, f2, f3, f4, f5⟩ := fetch_round_gen items nb hnb hwf hwm s.connOff (hq hr) e
        (serveBudget (dropBefore s.connOff items) b)
      refine ⟨⟨f3, f1, f2, (f5 ?_).1⟩, f4⟩
      intro it rest hsub
      rw [hsub]; simp only [serveBudget]; omega
    · simp only [worldEvent]; rw [rstep_data_noop cfg s hr]; exact h
  | lost n hwm e =>
    by_cases hr : s.phase = .reading
    · apply rinv_step cfg _ h
      simp only [worldEvent, Good]
      rw [fetch_round_pull items nb hnb hwf hwm s.connOff (hq hr) e n]
      obtain ⟨f1, f2, f3, f4, _⟩ := fetch_round_gen items nb hnb hwf hwm s.connOff (hq hr) e n
      refine ⟨f3, fun r hr' => ⟨(f1 r hr').1, (f1 r hr').2.1⟩, ?_⟩
      intro r hrl x hx' h1 h2
      exact f2 r hrl h1 (by have := (f1 x hx').2.2; omega)
    · simp only [worldEvent]; rw [rstep_cut_noop cfg s hr]; exact h
  | initOk first last => exact rinv_step cfg _ h (by simpa [worldEvent, Good, Env.ok] using hx)
  | kerr code offs =>
    apply rinv_step cfg _ h
    simp only [worldEvent]
    unfold Good
    split
    · rename_i heq; cases heq
    · rename_i heq; cases heq
    · rename_i heq; cases heq
    · rename_i first last heq
      cases heq
      simpa [Env.ok] using hx
    · trivial
  | sleepOk => exact rinv_step cfg _ h (by simp [worldEvent, Good])
  | sleepCancel => exact rinv_step cfg _ h (by simp [worldEvent, Good])
  | initFail oor => exact rinv_step cfg _ h (by simp [worldEvent, Good])
  | ioErr => exact rinv_step cfg _ h (by simp [worldEvent, Good])
  | ctxCanceled => exact rinv_step cfg _ h (by simp [worldEvent, Good])
  | unknownCodec => exact rinv_step cfg _ h (by simp [worldEvent, Good])

/-- a fetch of the loop moves the connection's position forward when there is data -/
theorem world_fetch_progress (cfg : RCfg) (items : List Item) (nb : Int) (hnb : 0 ≤ nb) (hwf : LWF nb items) (s : RR)
    (hp : s.phase = .reading) (hs : s.slept = true) (hq : 0 ≤ s.connOff) (b : Nat) (hwm : Int) (e : Bool)
    (hne : hwm ≠ s.connOff) (hdata : dropBefore s.connOff items ≠ []) :
    s.connOff < (rstep cfg s (worldEvent items s (.fetch b hwm e))).connOff := by
  obtain ⟨_, _, _, _, f5⟩ := fetch_round_gen items nb hnb hwf hwm s.connOff hq e (serveBudget (dropBefore s.connOff items) b)
  have hlt := (f5 (by intro it rest hsub; rw [hsub]; simp only [serveBudget]; omega)).2 hne hdata
  rw [← fetch_round_pull items nb hnb hwf hwm s.connOff hq e _] at hlt
  simp only [worldEvent, serve, rstep, hp, hs]
  cases (Pull.readAll e s.connOff hwm (truncate (allTokens (dropBefore s.connOff items)) (serveBudget (dropBefore s.connOff items) b))).2.2 <;>
    simpa [again, toTop, pushMsgs] using hlt

theorem rinv_world_run (cfg : RCfg) (items : List Item) (nb : Int) (hnb : 0 ≤ nb) (hwf : LWF nb items) :
    ∀ (xs : List Env) (s : RR), RInv (allRecords items) s → (∀ x ∈ xs, x.ok items) →
      RInv (allRecords items) (worldRun cfg items s xs) := by
  intro xs
  induction xs with
  | nil => intro s h _; exact h
  | cons x xs ih =>
    intro s h hx
    exact ih _ (rinv_world_step cfg items nb hnb hwf h x (hx x (by simp))) (fun y hy => hx y (by simp [hy]))

end KV.C02
